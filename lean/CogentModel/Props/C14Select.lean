import CogentModel.Gen.C14Select
import CogentModel.Props.C14
/-! # C14 — the SOURCE TEXT of `_apply_to`'s selection loop and of `_proxy_input`, translated

`Gen/C14Select.lean` is rewritten from `/repo`'s current source on every run (`translator/c14_select2lean.py`).
`gen_select_loop_eq` / `gen_proxy_input_eq` / `gen_apply_select_eq` prove the generated definitions equal to the hand
model (`Composable.selectBy`, filter-by-truthiness-then-wrap) for ALL arguments; `gen_applyTo_eq` states that
`Composable.applyTo` — the function under `apply_any_schedule`, `apply_idempotent_resume`, `apply_parallel_any_pool` —
IS the translated selection followed by the hand-modelled writer loop, for truthy inputs; `gen_falsy_dropped` is the
open finding C14-falsy-input-dropped as a statement about the translated code. -/
namespace CogentModel.C14Select
open CogentModel.Composable CogentModel.SelectPrims CogentModel.Gen.C14Select

/-- the identifier `_apply_to` derives for an element -/
def idOfEnv (env : SelEnv) (m : Nat) : Id :=
  env.idFromSource (if env.isDataMember m then IdArg.pathOfUniqueId m else IdArg.self m)

def dupErr : PyErr := ⟨"ValueError", "non-unique identifier detected in data"⟩

theorem dict_set_fresh (d : Dict) (k : Id) (v : Nat) (h : Dict.has d k = false) : Dict.set d k v = d ++ [(k, v)] := by
  induction d with
  | nil => rfl
  | cons p t ih =>
    obtain ⟨k', v'⟩ := p
    simp only [Dict.has, List.any_cons, Bool.or_eq_false_iff] at h
    have ht : Dict.has t k = false := h.2
    simp only [Dict.set, h.1, Bool.false_eq_true, if_false, ih ht, List.cons_append]

/-- the translated loop IS `selectBy` (the duplicate test, the skip of identifiers in the store, insertion order) -/
theorem gen_select_loop_eq (env : SelEnv) (ms : List Nat) (acc : Dict) :
    applyToLoop env ms acc =
      match selectBy env.inStore (idOfEnv env) ms acc with
      | none => .error dupErr
      | some sel => .ok sel := by
  induction ms generalizing acc with
  | nil => rfl
  | cons m ms ih =>
    simp only [applyToLoop, selectBy]
    change (if Dict.has acc (idOfEnv env m) = true then _ else _) = _
    by_cases h1 : Dict.has acc (idOfEnv env m) = true
    · have h1' : acc.any (fun p => p.1 == idOfEnv env m) = true := h1
      simp only [h1, h1', if_true]; rfl
    · have h1f : Dict.has acc (idOfEnv env m) = false := by simpa using h1
      have h1' : acc.any (fun p => p.1 == idOfEnv env m) = false := h1f
      simp only [h1f, h1', Bool.false_eq_true, if_false]
      change (if env.inStore (idOfEnv env m) = true then _ else _) = _
      by_cases h2 : env.inStore (idOfEnv env m) = true
      · simp only [h2, if_true]; exact ih acc
      · simp only [h2]
        change applyToLoop env ms (Dict.set acc (idOfEnv env m) m) = _
        rw [dict_set_fresh acc _ m h1f]; exact ih _

theorem gen_proxy_loop_eq (env : SelEnv) (xs acc : List PIn) :
    proxyInputLoop env xs acc = acc ++ (xs.filter (PIn.truthy env)).map (fun e => PIn.proxy e.member) := by
  induction xs generalizing acc with
  | nil => simp [proxyInputLoop]
  | cons e xs ih =>
    simp only [proxyInputLoop]
    by_cases h : PIn.truthy env e = true
    · simp only [h, Bool.not_true, Bool.false_eq_true, if_false, List.filter_cons_of_pos, List.map_cons]
      rw [ih]
      cases e <;> simp [PIn.isProxy, PIn.mkProxy, PIn.member]
    · have hf : PIn.truthy env e = false := by simpa using h
      simp only [hf, Bool.not_false, if_true]
      rw [ih]; simp [hf]

/-- `_proxy_input`: the falsy elements are dropped, every other one travels in a `source_proxy` -/
theorem gen_proxy_input_eq (env : SelEnv) (xs : List PIn) :
    proxyInput env xs = (xs.filter (PIn.truthy env)).map (fun e => PIn.proxy e.member) := by
  simp [proxyInput, gen_proxy_loop_eq]

/-- OPEN FINDING C14-falsy-input-dropped, about the translated code: nothing falsy is ever submitted -/
theorem gen_falsy_dropped (env : SelEnv) (xs : List PIn) (p : PIn) (hp : p ∈ proxyInput env xs) :
    env.truthy p.member = true := by
  rw [gen_proxy_input_eq] at hp
  simp only [List.mem_map, List.mem_filter] at hp
  obtain ⟨e, ⟨_, ht⟩, rfl⟩ := hp
  exact ht

/-- the whole translated selection of `_apply_to` -/
theorem gen_apply_select_eq (env : SelEnv) (dstore : List Nat) :
    applyToSelect env dstore =
      match selectBy env.inStore (idOfEnv env) dstore [] with
      | none => .error dupErr
      | some sel =>
        if dstore.isEmpty then .error ⟨"ValueError", "dstore is empty"⟩
        else .ok (((sel.map (·.2)).filter env.truthy).map PIn.proxy) := by
  simp only [applyToSelect, gen_select_loop_eq, Dict.empty]
  cases selectBy env.inStore (idOfEnv env) dstore [] with
  | none => rfl
  | some sel =>
    simp only [gen_proxy_input_eq, Dict.values, Bool.not_not]
    congr 1
    simp [List.filter_map, List.map_map, Function.comp_def, PIn.truthy, PIn.member]

/-- `Composable.applyTo` (the model under `apply_any_schedule` / `apply_idempotent_resume` / `apply_parallel_any_pool`) IS the
    translated selection followed by the writer loop, whenever the inputs are truthy and there is at least one -/
theorem gen_applyTo_eq (env : SelEnv) (app : Nat → Val) (s : Store) (inputs order : List Nat)
    (hne : inputs ≠ []) (htruthy : ∀ m, env.truthy m = true) (hstore : env.inStore = hasDone s) :
    applyTo (idOfEnv env) app s inputs order =
      match applyToSelect env inputs with
      | .error _ => none
      | .ok ps => some (writeAll (idOfEnv env) s (schedule (ps.map (fun p => (p.member, app p.member))) order)) := by
  rw [gen_apply_select_eq, applyTo, CogentModel.C14.select_eq_selectBy, hstore]
  cases selectBy (hasDone s) (idOfEnv env) inputs [] with
  | none => rfl
  | some sel =>
    have : inputs.isEmpty = false := by cases inputs <;> simp_all
    simp only [this, Bool.false_eq_true, if_false]
    have hf : (sel.map (·.2)).filter env.truthy = sel.map (·.2) := by
      apply List.filter_eq_self.2; intro a _; exact htruthy a
    have hw : wrapped app = fun x => (x.snd, app x.snd) := by funext x; rfl
    simp [hf, hw, List.map_map, Function.comp_def, PIn.member]

end CogentModel.C14Select
