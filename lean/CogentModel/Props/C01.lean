import CogentModel.Model.View
import CogentModel.Spec.PySlice
import CogentModel.Proofs.ViewInv
import CogentModel.Proofs.ViewSem
import CogentModel.Proofs.ViewParent
import CogentModel.Proofs.ViewChain
import CogentModel.Proofs.SeqWrap
import CogentModel.Proofs.C01GenEq
import CogentModel.Proofs.ViewIndexFull
/-! # C01 — property theorems (views obey the slice algebra)

`Inv` is the representation invariant of slice records, `elems v` the list of
parent positions a view displays (`Proofs/ViewSem.lean`), `PySlice` the
language-level semantics of Python slicing (`Spec/PySlice.lean`). -/
namespace CogentModel.C01
open CogentModel.View

/-- Every constructor call (any `None`/negative/out-of-range arguments) yields a view
satisfying the representation invariant. -/
theorem mk_inv (n : Int) (hn : 0 ≤ n) (start stop step : Option Int) (offset : Int) (v : View)
    (h : mk n start stop step offset = .ok v) : Inv v :=
  mk_inv' n hn start stop step offset v h

example : Inv { start := -3, stop := -10, step := -2, offset := 0, seqLen := 10 } := by decide
example : mk 10 (some 7) (some 1) (some (-2)) 0 = .ok { start := -3, stop := -9, step := -2, offset := 0, seqLen := 10 } := by rfl

/-- Slicing (any start/stop/step, `None`, negative, out of range; both `_zero_slice`
flavours) preserves the invariant. -/
theorem getitem_inv (fl : Flavour) (v : View) (h : Inv v) (a b c : Option Int) (w : View)
    (hw : getitemSlice fl v a b c = .ok w) : Inv w :=
  getitemSlice_inv fl v h a b c w hw

/-- Integer indexing preserves the invariant. -/
theorem getitem_int_inv (v : View) (h : Inv v) (i : Int) (w : View)
    (hw : getitemInt v i = .ok w) : Inv w :=
  getitemInt_inv v h i w hw

example : getitemSlice .seqView { start := 1, stop := 8, step := 2, offset := 0, seqLen := 10 } none none (some (-1))
    = .ok { start := -3, stop := -10, step := -2, offset := 0, seqLen := 10 } := by rfl

/-- A chain of operations on a view. -/
inductive Op where
  | slice (a b c : Option Int)
  | index (i : Int)

def step1 (fl : Flavour) (v : View) : Op → Except Err View
  | .slice a b c => getitemSlice fl v a b c
  | .index i => getitemInt v i

def runOps (fl : Flavour) : View → List Op → Except Err View
  | v, [] => .ok v
  | v, op :: ops => match step1 fl v op with
    | .ok w => runOps fl w ops
    | .error e => .error e

/-- **Every reachable view satisfies the invariant**: any constructor call followed by
any finite chain of slice / index operations (of any depth). -/
theorem reachable_inv (fl : Flavour) (ops : List Op) (v w : View) (h : Inv v)
    (hw : runOps fl v ops = .ok w) : Inv w := by
  induction ops generalizing v with
  | nil => simp [runOps] at hw; subst hw; exact h
  | cons op ops ih =>
    unfold runOps at hw
    cases hs : step1 fl v op with
    | error e => simp [hs] at hw
    | ok u =>
      simp [hs] at hw
      refine ih u ?_ hw
      cases op with
      | slice a b c => exact getitemSlice_inv fl v h a b c u hs
      | index i => exact getitemInt_inv v h i u hs

/-- the assertions in `parent_start`/`parent_stop` never fire on a reachable view -/
theorem parent_coords_defined (v : View) (h : Inv v) :
    (∃ a, parentStart v = .ok a) ∧ (∃ b, parentStop v = .ok b) := by
  unfold parentStart parentStop
  rcases h with ⟨_, h | h⟩
  · have : ¬ v.step < 0 := by omega
    simp [this]
  · have h1 : v.stop < 0 := by omega
    have h2 : v.start < 0 := by omega
    simp [h.1, h1, h2]

/-! ## Length kit -/

/-- forward views: `len v` is the ceiling of `(stop - start) / step` -/
theorem len_kit_fwd (v : View) (h : Inv v) (hs : 0 < v.step) :
    0 ≤ len v ∧ v.stop - v.start ≤ len v * v.step ∧ len v * v.step < v.stop - v.start + v.step :=
  len_fwd v h hs

example : Inv { start := 1, stop := 8, step := 3, offset := 0, seqLen := 10 } ∧
    len { start := 1, stop := 8, step := 3, offset := 0, seqLen := 10 } = 3 := by decide

/-- reversed views: `len v` is the ceiling of `(start - stop) / |step|` -/
theorem len_kit_rev (v : View) (h : Inv v) (hs : v.step < 0) :
    0 ≤ len v ∧ v.start - v.stop ≤ len v * (-v.step) ∧
      len v * (-v.step) < v.start - v.stop + (-v.step) :=
  len_rev v h hs

example : Inv { start := -2, stop := -9, step := -3, offset := 0, seqLen := 10 } ∧
    len { start := -2, stop := -9, step := -3, offset := 0, seqLen := 10 } = 3 := by decide

/-- the ceiling is unique -/
theorem len_kit_unique (d k L L' : Int) (hk : 0 < k)
    (h1 : d ≤ L * k) (h2 : L * k < d + k) (h1' : d ≤ L' * k) (h2' : L' * k < d + k) : L = L' :=
  ceil_unique d k L L' hk h1 h2 h1' h2'

example : (7 : Int) ≤ 3 * 3 ∧ (3 : Int) * 3 < 7 + 3 := by decide

/-! ## Semantics -/

/-- Python's own `seq[start:stop:step]` on the stored triple (what `.value` / `.str_value`
evaluate) visits exactly `elems v`. -/
theorem realise_eq (v : View) (h : Inv v) :
    PySlice.sliceIdx v.seqLen.toNat (some v.start) (some v.stop) v.step = elems v :=
  realise_eq' v h

example : elems { start := -3, stop := -10, step := -2, offset := 0, seqLen := 10 } = [7, 5, 3, 1] := by rfl
example : PySlice.sliceIdx 10 (some (-3)) (some (-10)) (-2) = [7, 5, 3, 1] := by rfl

/-- Slicing a view displays exactly the Python slice of what the view displayed
(any start/stop/step incl. `None`, negative, out of range; both `_zero_slice` flavours). -/
theorem getitem_spec (fl : Flavour) (v w : View) (a b c : Option Int) (h : Inv v) (hc : c ≠ some 0)
    (hw : getitemSlice fl v a b c = .ok w) :
    elems w = (PySlice.sliceIdx (len v).toNat a b (c.getD 1)).map (fun j => first v + j * v.step) :=
  getitemSlice_spec fl v w a b c h hc hw

example : getitemSlice .seqView { start := 1, stop := 8, step := 2, offset := 0, seqLen := 10 } (some (-1)) (some 0) (some (-2))
    = .ok { start := -3, stop := -9, step := -4, offset := 0, seqLen := 10 } := by rfl
example : elems { start := -3, stop := -9, step := -4, offset := 0, seqLen := 10 } = [7, 3] := by rfl
example : (PySlice.sliceIdx 4 (some (-1)) (some 0) (-2)).map (fun j => 1 + j * 2) = [7, 3] := by rfl

/-- the same, phrased as Python list slicing of the displayed list -/
theorem getitem_spec_list (fl : Flavour) (v w : View) (a b c : Option Int) (h : Inv v) (hc : c ≠ some 0)
    (hw : getitemSlice fl v a b c = .ok w) :
    elems w = PySlice.slice (elems v) a b (c.getD 1) := by
  have hc0 : c.getD 1 ≠ 0 := by
    cases c with
    | none => simp
    | some s => simp at hc ⊢; exact hc
  rw [slice_elems v a b _ hc0]
  exact getitemSlice_spec fl v w a b c h hc hw

example : PySlice.slice [1, 3, 5, 7] (some (-1)) (some 0) (-2) = [7, 3] := by rfl

/-- with a non-zero step, slicing a reachable view never raises -/
theorem getitem_no_error (fl : Flavour) (v : View) (a b c : Option Int) (h : Inv v) (hc : c ≠ some 0) :
    ∃ w, getitemSlice fl v a b c = .ok w :=
  getitemSlice_isOk fl v a b c h hc

example : getitemSlice .seqView { start := 1, stop := 8, step := 2, offset := 0, seqLen := 10 } none none (some 0)
    = .error .valueError := by rfl

/-- Integer indexing returns the one-element view of the Python-indexed position, and raises
`IndexError` exactly when Python does. -/
theorem getitem_int_spec (v : View) (h : Inv v) (i : Int) :
    (∀ w, getitemInt v i = .ok w → ∃ x, PySlice.index (elems v) i = some x ∧ elems w = [x]) ∧
    (∀ e, getitemInt v i = .error e → PySlice.index (elems v) i = none) :=
  getitemInt_spec v h i

example : getitemInt { start := -3, stop := -10, step := -2, offset := 0, seqLen := 10 } (-1)
    = .ok { start := -9, stop := -10, step := -1, offset := 0, seqLen := 10 } := by rfl
example : PySlice.index [7, 5, 3, 1] (-1) = some 1 := by rfl
example : getitemInt { start := -3, stop := -10, step := -2, offset := 0, seqLen := 10 } 4 = .error .indexError := by rfl

/-- The reported parent segment `parent[ps:pe]`, strided by the reported step (negative = read
backwards), is exactly what is displayed. -/
theorem parent_coords_exact (v : View) (h : Inv v) :
    ∃ ps pe : Int, parentStart v = .ok (v.offset + ps) ∧ parentStop v = .ok (v.offset + pe) ∧
      0 ≤ ps ∧ ps ≤ pe ∧ pe ≤ v.seqLen ∧
      elems v = (PySlice.sliceIdx (pe - ps).toNat none none v.step).map (· + ps) :=
  parent_coords_exact' v h

example : parentStart { start := -3, stop := -10, step := -2, offset := 5, seqLen := 10 } = .ok (5 + 1) := by rfl
example : parentStop { start := -3, stop := -10, step := -2, offset := 5, seqLen := 10 } = .ok (5 + 8) := by rfl
example : (PySlice.sliceIdx 7 none none (-2)).map (· + 1) = [7, 5, 3, 1] := by rfl

/-! ## Chains of any depth -/

/-- the operation has no zero slice step (`seq[::0]` raises `ValueError` in Python too) -/
def Op.stepOk : Op → Prop
  | .slice _ _ c => c ≠ some 0
  | .index _ => True

/-- the same operation applied to a plain Python list of positions -/
def specStep (xs : List Int) : Op → Option (List Int)
  | .slice a b c => some (PySlice.slice xs a b (c.getD 1))
  | .index i => (PySlice.index xs i).map fun x => [x]

def specRun : List Int → List Op → Option (List Int)
  | xs, [] => some xs
  | xs, op :: ops => (specStep xs op).bind fun ys => specRun ys ops

/-- one step of the chain -/
theorem step_spec (fl : Flavour) (v w : View) (op : Op) (h : Inv v) (hop : op.stepOk)
    (hw : step1 fl v op = .ok w) : specStep (elems v) op = some (elems w) := by
  cases op with
  | slice a b c =>
    simp only [specStep, Option.some.injEq]
    exact (getitem_spec_list fl v w a b c h hop hw).symm
  | index i =>
    obtain ⟨x, hx, hwx⟩ := (getitemInt_spec v h i).1 w hw
    simp only [specStep, hx, Option.map_some, hwx]

example : step1 .seqView { start := 1, stop := 8, step := 2, offset := 0, seqLen := 10 } (.slice none none (some (-1)))
    = .ok { start := -3, stop := -10, step := -2, offset := 0, seqLen := 10 } ∧
    specStep [1, 3, 5, 7] (.slice none none (some (-1))) = some [7, 5, 3, 1] := by decide

/-- **Any chain of slice / index operations (any depth, no zero step) displays exactly what the
same chain of Python list operations yields on the displayed positions.** -/
theorem chain_spec (fl : Flavour) (ops : List Op) (v w : View) (h : Inv v)
    (hops : ∀ op ∈ ops, op.stepOk) (hw : runOps fl v ops = .ok w) :
    specRun (elems v) ops = some (elems w) := by
  induction ops generalizing v with
  | nil => simp [runOps] at hw; subst hw; rfl
  | cons op ops ih =>
    unfold runOps at hw
    cases hs : step1 fl v op with
    | error e => simp [hs] at hw
    | ok u =>
      simp [hs] at hw
      have hu : Inv u := reachable_inv fl [op] v u h (by simp [runOps, hs])
      have h1 := step_spec fl v u op h (hops op (by simp)) hs
      unfold specRun
      rw [h1]
      exact ih u hu (fun o ho => hops o (by simp [ho])) hw

example : runOps .seqDataView { start := 0, stop := 10, step := 1, offset := 3, seqLen := 10 }
    [.slice (some (-4)) none none, .slice none none (some (-3))]
    = .ok { start := -1, stop := -5, step := -3, offset := 3, seqLen := 10 } ∧
    specRun [0, 1, 2, 3, 4, 5, 6, 7, 8, 9] [.slice (some (-4)) none none, .slice none none (some (-3))]
    = some [9, 6] := by decide

/-- a chain raises only where Python raises `IndexError` on the list (slices never raise) -/
theorem chain_error_spec (fl : Flavour) (ops : List Op) (v : View) (e : Err) (h : Inv v)
    (hops : ∀ op ∈ ops, op.stepOk) (hw : runOps fl v ops = .error e) :
    specRun (elems v) ops = none := by
  induction ops generalizing v with
  | nil => simp [runOps] at hw
  | cons op ops ih =>
    unfold runOps at hw
    cases hs : step1 fl v op with
    | error e' =>
      cases op with
      | slice a b c =>
        obtain ⟨w, hw'⟩ := getitemSlice_isOk fl v a b c h (hops (.slice a b c) (by simp))
        simp [step1, hw'] at hs
      | index i =>
        have := (getitemInt_spec v h i).2 e' hs
        simp [specRun, specStep, this]
    | ok u =>
      simp [hs] at hw
      have hu : Inv u := reachable_inv fl [op] v u h (by simp [runOps, hs])
      have h1 := step_spec fl v u op h (hops op (by simp)) hs
      unfold specRun
      rw [h1]
      exact ih u hu (fun o ho => hops o (by simp [ho])) hw

example : runOps .seqView { start := 0, stop := 10, step := 1, offset := 0, seqLen := 10 }
    [.slice (some 1) (some 8) (some 2), .index 4] = .error .indexError ∧
    specRun [0, 1, 2, 3, 4, 5, 6, 7, 8, 9] [.slice (some 1) (some 8) (some 2), .index 4] = none := by decide

example : runOps .seqView { start := 0, stop := 10, step := 1, offset := 0, seqLen := 10 }
    [.slice (some 1) (some 8) (some 2), .slice none none (some (-1)), .slice (some 1) none none, .index (-1)]
    = .ok { start := -9, stop := -10, step := -1, offset := 0, seqLen := 10 } := by rfl
example : specRun [0, 1, 2, 3, 4, 5, 6, 7, 8, 9]
    [.slice (some 1) (some 8) (some 2), .slice none none (some (-1)), .slice (some 1) none none, .index (-1)]
    = some [1] := by rfl
example : ∀ op ∈ [Op.slice (some 1) (some 8) (some 2), .slice none none (some (-1)), .slice (some 1) none none, .index (-1)],
    op.stepOk := by simp [Op.stepOk]

/-! ## String level: the `Sequence` wrapper reads exactly as the plain string would

`SeqWrap.Seq` (`Model/SeqWrap.lean`) carries the parent string, the view and whether the moltype
is nucleic; `SeqWrap.str comp s` is `str(seq)` (complemented when the view is reversed on a nucleic
acid), `comp` any involutive complement table. -/

/-- DNA complement used in the examples below -/
def dnaComp (c : Char) : Char :=
  if c = 'A' then 'T' else if c = 'T' then 'A' else if c = 'C' then 'G' else if c = 'G' then 'C' else c

theorem dnaComp_invol : ∀ x, dnaComp (dnaComp x) = x := by
  intro x
  unfold dnaComp
  (repeat' split) <;> simp_all

example : dnaComp 'A' = 'T' ∧ dnaComp 'N' = 'N' := by decide

/-- a wrapper built from a plain string is well formed -/
theorem seq_wf_ofString (t : List Char) (nucleic : Bool) : SeqWrap.WF (SeqWrap.ofString t nucleic) :=
  SeqWrap.wf_ofString t nucleic

example : (SeqWrap.ofString "ACGGTA".toList true).v = { start := 0, stop := 6, step := 1, offset := 0, seqLen := 6 } := by rfl

/-- slicing preserves well-formedness (including the `_zero_slice` branch, whose parent is `""`) -/
theorem seq_wf_getitem (s s' : SeqWrap.Seq) (a b c : Option Int) (h : SeqWrap.WF s)
    (hw : SeqWrap.getitem s a b c = .ok s') : SeqWrap.WF s' ∧ s'.nucleic = s.nucleic :=
  SeqWrap.wf_getitem s s' a b c h hw

example : SeqWrap.getitem (SeqWrap.ofString "ACGGTA".toList true) (some 2) (some 2) none
    = .ok { parent := [], v := zeroSlice, nucleic := true } := by decide

/-- integer indexing preserves well-formedness -/
theorem seq_wf_getitem_int (s s' : SeqWrap.Seq) (i : Int) (h : SeqWrap.WF s)
    (hw : SeqWrap.getitemI s i = .ok s') : SeqWrap.WF s' ∧ s'.nucleic = s.nucleic :=
  SeqWrap.wf_getitemI s s' i h hw

example : SeqWrap.getitemI (SeqWrap.ofString "ACGGTA".toList true) (-2)
    = .ok { parent := "ACGGTA".toList, v := { start := 4, stop := 5, step := 1, offset := 0, seqLen := 6 }, nucleic := true } := by decide

/-- `rc` preserves well-formedness -/
theorem seq_wf_rc (s : SeqWrap.Seq) (h : SeqWrap.WF s) :
    SeqWrap.WF (SeqWrap.rc s) ∧ (SeqWrap.rc s).nucleic = s.nucleic :=
  SeqWrap.wf_rc s h

example : (SeqWrap.rc (SeqWrap.ofString "ACGGTA".toList true)).v
    = { start := -1, stop := -7, step := -1, offset := 0, seqLen := 6 } := by decide

/-- the raw string of the view is the parent read at the displayed positions -/
theorem value_eq_elems (s : SeqWrap.Seq) (h : SeqWrap.WF s) :
    SeqWrap.value s = (elems s.v).map (fun i => s.parent[i.toNat]!) :=
  SeqWrap.value_eq_elems' s h

example : SeqWrap.value { parent := "ACGGTA".toList, v := { start := -1, stop := -7, step := -2, offset := 0, seqLen := 6 }, nucleic := true }
    = "AGC".toList := by decide

/-- **`str(seq[a:b:c])` is `str(seq)[a:b:c]`, complemented when `c < 0` on a nucleic acid.** -/
theorem str_getitem (comp : Char → Char) (hcomp : ∀ x, comp (comp x) = x) (s s' : SeqWrap.Seq)
    (a b c : Option Int) (h : SeqWrap.WF s) (hc : c ≠ some 0) (hw : SeqWrap.getitem s a b c = .ok s') :
    SeqWrap.str comp s' = SeqWrap.specSlice comp s.nucleic (SeqWrap.str comp s) a b (c.getD 1) :=
  SeqWrap.str_getitem' comp hcomp s s' a b c h hc hw

example : (SeqWrap.getitem (SeqWrap.ofString "ACGGTA".toList true) (some 4) none (some (-2))).toOption.map (SeqWrap.str dnaComp)
    = some "ACT".toList := by decide
example : SeqWrap.specSlice dnaComp true "ACGGTA".toList (some 4) none (-2) = "ACT".toList := by decide

/-- `str(seq[i])` is the one-character string `str(seq)[i]`; `IndexError` exactly when Python raises it -/
theorem str_getitem_int (comp : Char → Char) (s : SeqWrap.Seq) (i : Int) (h : SeqWrap.WF s) :
    (∀ s', SeqWrap.getitemI s i = .ok s' →
      ∃ ch, PySlice.index (SeqWrap.str comp s) i = some ch ∧ SeqWrap.str comp s' = [ch]) ∧
    (∀ e, SeqWrap.getitemI s i = .error e → PySlice.index (SeqWrap.str comp s) i = none) :=
  SeqWrap.str_getitemI' comp s i h

example : (SeqWrap.getitemI (SeqWrap.rc (SeqWrap.ofString "ACGGTA".toList true)) 1).toOption.map (SeqWrap.str dnaComp)
    = some "A".toList := by decide
example : SeqWrap.getitemI (SeqWrap.ofString "ACGGTA".toList true) 6 = .error .indexError := by decide

/-- `len(seq[a:b:c])` (both `len(str(…))` and the view's `__len__`) is the length of the Python slice -/
theorem len_getitem (comp : Char → Char) (hcomp : ∀ x, comp (comp x) = x) (s s' : SeqWrap.Seq)
    (a b c : Option Int) (h : SeqWrap.WF s) (hc : c ≠ some 0) (hw : SeqWrap.getitem s a b c = .ok s') :
    (SeqWrap.str comp s').length = (PySlice.slice (SeqWrap.str comp s) a b (c.getD 1)).length ∧
    SeqWrap.length s' = ((SeqWrap.str comp s').length : Int) := by
  constructor
  · rw [SeqWrap.str_getitem' comp hcomp s s' a b c h hc hw]
    unfold SeqWrap.specSlice
    simp only []
    split
    · rw [List.length_map]
    · rfl
  · have hwf := (SeqWrap.wf_getitem s s' a b c h hw).1
    rw [SeqWrap.str_length comp s' hwf]
    unfold SeqWrap.length
    rw [Int.toNat_of_nonneg (len_nonneg s'.v)]

example : (SeqWrap.getitem (SeqWrap.ofString "ACGGTA".toList false) (some (-5)) none (some 3)).toOption.map SeqWrap.length
    = some 2 := by decide

/-- **`str(seq.rc())` is the reverse complement of `str(seq)`** (nucleic acids) -/
theorem str_rc (comp : Char → Char) (hcomp : ∀ x, comp (comp x) = x) (s : SeqWrap.Seq)
    (h : SeqWrap.WF s) (hn : s.nucleic = true) :
    SeqWrap.str comp (SeqWrap.rc s) = SeqWrap.specRc comp (SeqWrap.str comp s) :=
  SeqWrap.str_rc' comp hcomp s h hn

example : SeqWrap.str dnaComp (SeqWrap.rc (SeqWrap.ofString "ACGGTA".toList true)) = "TACCGT".toList := by decide

/-- `rc` twice reads as the original -/
theorem rc_rc (comp : Char → Char) (hcomp : ∀ x, comp (comp x) = x) (s : SeqWrap.Seq)
    (h : SeqWrap.WF s) (hn : s.nucleic = true) :
    SeqWrap.str comp (SeqWrap.rc (SeqWrap.rc s)) = SeqWrap.str comp s :=
  SeqWrap.rc_rc' comp hcomp s h hn

example : SeqWrap.str dnaComp (SeqWrap.rc (SeqWrap.rc (SeqWrap.ofString "ACGGTA".toList true))) = "ACGGTA".toList := by decide

/-- **Any chain of slice / index / rc operations of any depth on the wrapper reads exactly as the
same chain of plain-string operations on `str(seq)`** (slices with a negative step and `rc`
complement on nucleic acids); the result stays well formed. -/
theorem seq_chain_spec (comp : Char → Char) (hcomp : ∀ x, comp (comp x) = x) (ops : List SeqWrap.SOp)
    (s s' : SeqWrap.Seq) (h : SeqWrap.WF s) (hops : ∀ op ∈ ops, SeqWrap.SOp.ok s.nucleic op)
    (hw : SeqWrap.runOps s ops = .ok s') :
    SeqWrap.specRun comp s.nucleic (SeqWrap.str comp s) ops = some (SeqWrap.str comp s') ∧ SeqWrap.WF s' :=
  (SeqWrap.runOps_spec comp hcomp ops s h hops).1 s' hw

example : (SeqWrap.runOps (SeqWrap.ofString "ACGGTAAC".toList true)
    [.slice (some 1) none (some 2), .rc, .slice none (some (-1)) none, .index (-1)]).toOption.map (SeqWrap.str dnaComp)
    = some "C".toList := by decide
example : SeqWrap.specRun dnaComp true "ACGGTAAC".toList
    [.slice (some 1) none (some 2), .rc, .slice none (some (-1)) none, .index (-1)] = some "C".toList := by decide

/-- a chain on the wrapper raises exactly where Python's string indexing raises `IndexError` -/
theorem seq_chain_error_spec (comp : Char → Char) (hcomp : ∀ x, comp (comp x) = x) (ops : List SeqWrap.SOp)
    (s : SeqWrap.Seq) (e : Err) (h : SeqWrap.WF s) (hops : ∀ op ∈ ops, SeqWrap.SOp.ok s.nucleic op)
    (hw : SeqWrap.runOps s ops = .error e) :
    SeqWrap.specRun comp s.nucleic (SeqWrap.str comp s) ops = none :=
  (SeqWrap.runOps_spec comp hcomp ops s h hops).2 e hw

example : SeqWrap.runOps (SeqWrap.ofString "ACGGTAAC".toList true) [.slice (some 1) none (some 2), .rc, .index 4]
    = .error .indexError ∧
    SeqWrap.specRun dnaComp true "ACGGTAAC".toList [.slice (some 1) none (some 2), .rc, .index 4] = none := by decide

/-! ## Integer indexing at full strength (added with the `index` stream of the harness) -/

/-- **`view[i]` for EVERY reachable view and EVERY python int `i`.**  If the displayed positions `elems v` have an
`i`-th element `x` under python indexing (negative `i` counts from the end) then `v[i]` succeeds with a view `w` that
satisfies the invariant, displays exactly `[x]`, has `len 1`, keeps `offset` / `seq_len`, has step `±1` with the
orientation of `v`, and whose `parent_start` / `parent_stop` name exactly that one parent position
(`[offset + x, offset + x + 1)`, `0 ≤ x < seq_len`).  Otherwise -- exactly when the plain list raises --
`v[i]` raises `IndexError` and nothing else.  (Strengthens `getitem_int_spec`: the error kind, the success
direction, and the parent coordinates of the 1-long result.) -/
theorem getitem_int_full (v : View) (h : Inv v) (i : Int) :
    (∀ x, PySlice.index (elems v) i = some x →
      ∃ w, getitemInt v i = .ok w ∧ Inv w ∧ elems w = [x] ∧ len w = 1 ∧
        w.offset = v.offset ∧ w.seqLen = v.seqLen ∧ w.step = (if v.step < 0 then -1 else 1) ∧
        parentStart w = .ok (v.offset + x) ∧ parentStop w = .ok (v.offset + x + 1) ∧
        0 ≤ x ∧ x < v.seqLen) ∧
    (PySlice.index (elems v) i = none → getitemInt v i = .error .indexError) :=
  getitemInt_full v h i

-- `seq[:7:2][-1]` on a 10-mer: span 7 is not a multiple of the stride, the recorded stop (7) is not the true stop (8)
example : elems { start := 0, stop := 7, step := 2, offset := 3, seqLen := 10 } = [0, 2, 4, 6] ∧
    PySlice.index [0, 2, 4, 6] (-1) = some (6 : Int) ∧
    getitemInt { start := 0, stop := 7, step := 2, offset := 3, seqLen := 10 } (-1)
      = .ok { start := 6, stop := 7, step := 1, offset := 3, seqLen := 10 } ∧
    parentStart { start := 6, stop := 7, step := 1, offset := 3, seqLen := 10 } = .ok (3 + 6) ∧
    parentStop { start := 6, stop := 7, step := 1, offset := 3, seqLen := 10 } = .ok (3 + 6 + 1) := by decide
-- strided reversed view, negative index
example : elems { start := -3, stop := -10, step := -2, offset := 5, seqLen := 10 } = [7, 5, 3, 1] ∧
    getitemInt { start := -3, stop := -10, step := -2, offset := 5, seqLen := 10 } (-2)
      = .ok { start := -7, stop := -8, step := -1, offset := 5, seqLen := 10 } ∧
    elems { start := -7, stop := -8, step := -1, offset := 5, seqLen := 10 } = [3] ∧
    parentStart { start := -7, stop := -8, step := -1, offset := 5, seqLen := 10 } = .ok (5 + 3) ∧
    parentStop { start := -7, stop := -8, step := -1, offset := 5, seqLen := 10 } = .ok (5 + 3 + 1) := by decide
-- out of range on both sides, and on an empty view
example : getitemInt { start := 0, stop := 7, step := 2, offset := 0, seqLen := 10 } 4 = .error .indexError ∧
    getitemInt { start := 0, stop := 7, step := 2, offset := 0, seqLen := 10 } (-5) = .error .indexError ∧
    getitemInt { start := 0, stop := 0, step := 1, offset := 0, seqLen := 10 } 0 = .error .indexError ∧
    PySlice.index [0, 2, 4, (6 : Int)] 4 = none ∧ PySlice.index [0, 2, 4, (6 : Int)] (-5) = none := by decide

/-- **`seq[i]` at string level, full strength**: for every well-formed `Sequence` wrapper (any parent string, any
complement table) and every python int `i`: if `str(seq)` has an `i`-th character `ch`, `seq[i]` succeeds with a
well-formed 1-long sequence over the same parent whose string is `[ch]`, which reports the parent segment
`[offset + x, offset + x + 1)` for a valid parent position `x`, keeps the orientation (strand) of `seq`, and `ch`
is the parent's character at `x`, complemented exactly when `seq` is a reversed nucleic acid; otherwise `seq[i]`
raises `IndexError` and nothing else. -/
theorem str_getitem_int_full (comp : Char → Char) (s : SeqWrap.Seq) (i : Int) (h : SeqWrap.WF s) :
    (∀ ch, PySlice.index (SeqWrap.str comp s) i = some ch →
      ∃ s' x, SeqWrap.getitemI s i = .ok s' ∧ SeqWrap.WF s' ∧ SeqWrap.str comp s' = [ch] ∧ SeqWrap.length s' = 1 ∧
        s'.parent = s.parent ∧ s'.nucleic = s.nucleic ∧ (s'.v.step < 0 ↔ s.v.step < 0) ∧
        parentStart s'.v = .ok (s.v.offset + x) ∧ parentStop s'.v = .ok (s.v.offset + x + 1) ∧
        0 ≤ x ∧ x < s.parent.length ∧
        ch = (if s.v.step < 0 ∧ s.nucleic then comp (s.parent[x.toNat]!) else s.parent[x.toNat]!)) ∧
    (PySlice.index (SeqWrap.str comp s) i = none → SeqWrap.getitemI s i = .error .indexError) :=
  SeqWrap.str_getitemI_full comp s i h

-- "ACGGTCATTG"[:7:2] = "AGTA"; [-1] is the `A` at parent position 6
example : ((SeqWrap.getitem (SeqWrap.ofString "ACGGTCATTG".toList true) none (some 7) (some 2)).toOption.bind
      (fun s => (SeqWrap.getitemI s (-1)).toOption)).map
      (fun r => (SeqWrap.str dnaComp r, parentStart r.v, parentStop r.v))
    = some ("A".toList, .ok 6, .ok 7) := by decide
-- rc then stride 3: "CAATGACCGT"[::3] = "CTCT"; [-2] is the complement of parent position 3 (`G` -> `C`)
example : ((SeqWrap.getitem (SeqWrap.rc (SeqWrap.ofString "ACGGTCATTG".toList true)) none none (some 3)).toOption.bind
      (fun s => (SeqWrap.getitemI s (-2)).toOption)).map
      (fun r => (SeqWrap.str dnaComp r, parentStart r.v, parentStop r.v, decide (r.v.step < 0)))
    = some ("C".toList, .ok 3, .ok 4, true) := by decide

/-! ## Added by the audit: the `[i]!` reads are never out of range, and string-level parent coordinates -/

/-- every displayed position is a valid index into the parent, so the totalised reads `parent[i]!`
in `value_eq_elems` / `PySlice.slice` never fall back to the default character on a reachable view -/
theorem elems_in_range (v : View) (h : Inv v) : ∀ i ∈ elems v, 0 ≤ i ∧ i < v.seqLen := by
  have hs : v.step ≠ 0 := by rcases h with ⟨_, h | h⟩ <;> omega
  rw [← realise_eq' v h]
  exact sliceIdx_mem_range v.seqLen h.1 _ _ _ hs

example : elems { start := -3, stop := -10, step := -2, offset := 0, seqLen := 10 } = [7, 5, 3, 1] ∧
    Inv { start := -3, stop := -10, step := -2, offset := 0, seqLen := 10 } := by decide

/-- **string level parent coordinates**: the raw string of the view is `parent[ps:pe][::step]` where
`offset + ps`, `offset + pe` are the reported `parent_start`, `parent_stop` (the strand reported by
`parent_coordinates()` is the sign of `step`; `str(seq)` complements this when the step is negative on a
nucleic acid, see `SeqWrap.str`) -/
theorem value_parent_coords (s : SeqWrap.Seq) (h : SeqWrap.WF s) :
    ∃ ps pe : Int, parentStart s.v = .ok (s.v.offset + ps) ∧ parentStop s.v = .ok (s.v.offset + pe) ∧
      0 ≤ ps ∧ ps ≤ pe ∧ pe ≤ (s.parent.length : Int) ∧
      SeqWrap.value s =
        PySlice.slice ((s.parent.take pe.toNat).drop ps.toNat) none none s.v.step := by
  obtain ⟨ps, pe, h1, h2, h3, h4, h5, h6⟩ := parent_coords_exact' s.v h.1
  have hs : s.v.step ≠ 0 := by rcases h.1 with ⟨_, h | h⟩ <;> omega
  refine ⟨ps, pe, h1, h2, h3, h4, by rw [← h.2]; exact h5, ?_⟩
  rw [SeqWrap.value_eq_elems' s h, h6, List.map_map]
  unfold PySlice.slice
  have hl : ((s.parent.take pe.toNat).drop ps.toNat).length = (pe - ps).toNat := by
    rw [List.length_drop, List.length_take]
    have := h.2
    omega
  rw [hl]
  apply List.map_congr_left
  intro j hj
  obtain ⟨j0, j1⟩ := sliceIdx_mem_range (pe - ps) (by omega) none none s.v.step hs j hj
  simp only [Function.comp]
  have hlen := h.2
  have a1 : (j + ps).toNat < s.parent.length := by omega
  have a2 : j.toNat < ((s.parent.take pe.toNat).drop ps.toNat).length := by rw [hl]; omega
  rw [getElem!_def, getElem!_def, List.getElem?_eq_getElem a1, List.getElem?_eq_getElem a2,
    List.getElem_drop, List.getElem_take]
  have e : (j + ps).toNat = ps.toNat + j.toNat := by omega
  simp only [e]

-- "ACGGTAAC"[6:1:-2] on a parent with annotation offset 5: reported segment [5+2, 5+7), read backwards with stride 2
example : SeqWrap.value { parent := "ACGGTAAC".toList, v := { start := -2, stop := -7, step := -2, offset := 5, seqLen := 8 }, nucleic := true }
    = "ATG".toList ∧
    parentStart { start := -2, stop := -7, step := -2, offset := 5, seqLen := 8 } = .ok (5 + 2) ∧
    parentStop { start := -2, stop := -7, step := -2, offset := 5, seqLen := 8 } = .ok (5 + 7) ∧
    PySlice.slice (("ACGGTAAC".toList.take 7).drop 2) none none (-2) = "ATG".toList := by decide

/-! ## translated_agrees_with_model

`Gen/C01View.lean` is regenerated from the CURRENT python source on every check run by
`translator/py2lean_view.py` (`GenOld` = core/sequence.py, `GenNew` = core/new_sequence.py, `GenData` =
new_sequence.SliceRecordABC + new_alignment.SeqDataView).  The theorems of this section say that the translated
entry points ARE the model functions all theorems above are about (per-function equivalences, for all arguments, in
`Proofs/C01GenEq.lean`), and restate the headline theorems for the translated functions.  A semantic change of the
python makes these stop checking. -/
section translated_agrees_with_model
open CogentModel.Gen.C01View

/-- a chain run with an arbitrary step function -/
def runOpsBy (st : View → Op → Except Err View) : View → List Op → Except Err View
  | v, [] => .ok v
  | v, op :: ops => match st v op with
    | .ok w => runOpsBy st w ops
    | .error e => .error e

theorem runOpsBy_step1 (fl : Flavour) (v : View) (ops : List Op) : runOpsBy (step1 fl) v ops = runOps fl v ops := by
  induction ops generalizing v with
  | nil => rfl
  | cons op ops ih =>
    simp only [runOpsBy, runOps]
    cases step1 fl v op with
    | error e => rfl
    | ok w => exact ih w

example : runOpsBy (step1 .seqView) { start := 0, stop := 10, step := 1, offset := 0, seqLen := 10 } [.index 3]
    = .ok { start := 3, stop := 4, step := 1, offset := 0, seqLen := 10 } := by rfl

/-! ### GenOld -/

/-- `GenOld.mk` (translated `SeqView.__init__`, with its `seq_len` argument absent or equal to `len(seq)`) is the
model's constructor; any other `seq_len` raises `AssertionError` after the `step == 0` check -/
theorem gen_old_mk (n : Int) (a b c : Option Int) (off : Int) :
    GenOld.mk n a b c off none = mk n a b c off ∧ GenOld.mk n a b c off (some n) = mk n a b c off ∧
    ∀ sl, GenOld.mk n a b c off sl =
      if c = some 0 then .error .valueError else if sl ≠ none ∧ sl ≠ some n then .error .assertionError
      else mk n a b c off :=
  ⟨C01GenEq.Old.mk_none n a b c off, C01GenEq.Old.mk_some n a b c off, C01GenEq.Old.mk_full n a b c off⟩

example : GenOld.mk 10 (some 7) (some 1) (some (-2)) 0 (some 10) = .ok { start := -3, stop := -9, step := -2, offset := 0, seqLen := 10 } := by rfl
example : GenOld.mk 10 none none none 0 (some 9) = .error .assertionError := by rfl

/-- translated `__len__` -/
theorem gen_old_len : GenOld.len = len := C01GenEq.Old.len_eq

example : GenOld.len { start := 1, stop := 8, step := 3, offset := 0, seqLen := 10 } = 3 := by rfl

/-- translated `_get_index` -/
theorem gen_old_getIndex : GenOld.getIndex = @getIndex := C01GenEq.Old.getIndex_eq

example : GenOld.getIndex { start := -3, stop := -10, step := -2, offset := 0, seqLen := 10 } (-1) false = .ok (-9, -10, -1) := by rfl

/-- translated `__getitem__` on a slice (with `_get_slice`, `_get_reverse_slice`, the four
`_get_*_slice_from_*_seqview_` methods, `copy` and `_zero_slice` of this class) -/
theorem gen_old_getitemSlice : GenOld.getitemSlice = getitemSlice .seqView := C01GenEq.Old.getitemSlice_eq

example : GenOld.getitemSlice { start := 1, stop := 8, step := 2, offset := 0, seqLen := 10 } (some (-1)) (some 0) (some (-2))
    = .ok { start := -3, stop := -9, step := -4, offset := 0, seqLen := 10 } := by rfl

/-- translated `__getitem__` on an integer -/
theorem gen_old_getitemInt : GenOld.getitemInt = getitemInt := C01GenEq.Old.getitemInt_eq

example : GenOld.getitemInt { start := -3, stop := -10, step := -2, offset := 0, seqLen := 10 } 4 = .error .indexError := by rfl

/-- translated `parent_start` / `parent_stop` -/
theorem gen_old_parentStartStop : GenOld.parentStart = parentStart ∧ GenOld.parentStop = parentStop :=
  ⟨C01GenEq.Old.parentStart_eq, C01GenEq.Old.parentStop_eq⟩

example : GenOld.parentStart { start := -3, stop := -10, step := -2, offset := 5, seqLen := 10 } = .ok 6 ∧
    GenOld.parentStop { start := 3, stop := 1, step := -2, offset := 5, seqLen := 10 } = .error .assertionError := by decide

/-- translated `absolute_position` -/
theorem gen_old_absolutePosition : GenOld.absolutePosition = @absolutePosition := C01GenEq.Old.absolutePosition_eq

example : GenOld.absolutePosition { start := -3, stop := -10, step := -2, offset := 5, seqLen := 10 } 1 false = .ok 11 := by decide

/-- translated `relative_position` -/
theorem gen_old_relativePosition : GenOld.relativePosition = @relativePosition := C01GenEq.Old.relativePosition_eq

example : GenOld.relativePosition { start := 1, stop := 8, step := 3, offset := 5, seqLen := 10 } 11 false = .ok 2 := by rfl

/-- translated start/stop computation of `to_rich_dict` -/
theorem gen_old_richDictBounds : GenOld.richDictBounds = richDictBounds := C01GenEq.Old.richDictBounds_eq

example : GenOld.richDictBounds { start := -3, stop := -10, step := -2, offset := 0, seqLen := 10 } = (1, 8) := by rfl

/-! ### the headline theorems, restated for the TRANSLATED functions of GenOld -/

/-- `mk_inv` for the translated constructor -/
theorem gen_old_mk_inv (n : Int) (hn : 0 ≤ n) (start stop step : Option Int) (offset : Int) (v : View)
    (h : GenOld.mk n start stop step offset (some n) = .ok v) : Inv v := by
  rw [(gen_old_mk n start stop step offset).2.1] at h
  exact mk_inv n hn start stop step offset v h

/-- `getitem_inv` for the translated `__getitem__` -/
theorem gen_old_getitem_inv (v : View) (h : Inv v) (a b c : Option Int) (w : View)
    (hw : GenOld.getitemSlice v a b c = .ok w) : Inv w := by
  rw [gen_old_getitemSlice] at hw
  exact getitem_inv .seqView v h a b c w hw

/-- **`getitem_spec` for the translated `__getitem__`**: the python code, as translated on this run, displays
exactly the Python slice of what the view displayed -/
theorem gen_old_getitem_spec (v w : View) (a b c : Option Int) (h : Inv v) (hc : c ≠ some 0)
    (hw : GenOld.getitemSlice v a b c = .ok w) :
    elems w = (PySlice.sliceIdx (GenOld.len v).toNat a b (c.getD 1)).map (fun j => first v + j * v.step) := by
  rw [gen_old_getitemSlice] at hw
  rw [gen_old_len]
  exact getitem_spec .seqView v w a b c h hc hw

/-- `getitem_spec_list` for the translated `__getitem__` -/
theorem gen_old_getitem_spec_list (v w : View) (a b c : Option Int) (h : Inv v) (hc : c ≠ some 0)
    (hw : GenOld.getitemSlice v a b c = .ok w) : elems w = PySlice.slice (elems v) a b (c.getD 1) := by
  rw [gen_old_getitemSlice] at hw
  exact getitem_spec_list .seqView v w a b c h hc hw

/-- `getitem_no_error` for the translated `__getitem__` -/
theorem gen_old_getitem_no_error (v : View) (a b c : Option Int) (h : Inv v) (hc : c ≠ some 0) :
    ∃ w, GenOld.getitemSlice v a b c = .ok w := by
  rw [gen_old_getitemSlice]
  exact getitem_no_error .seqView v a b c h hc

/-- `getitem_int_spec` for the translated `__getitem__` -/
theorem gen_old_getitem_int_spec (v : View) (h : Inv v) (i : Int) :
    (∀ w, GenOld.getitemInt v i = .ok w → ∃ x, PySlice.index (elems v) i = some x ∧ elems w = [x]) ∧
    (∀ e, GenOld.getitemInt v i = .error e → PySlice.index (elems v) i = none) := by
  rw [gen_old_getitemInt]
  exact getitem_int_spec v h i

/-- `parent_coords_exact` for the translated `parent_start` / `parent_stop` -/
theorem gen_old_parent_coords_exact (v : View) (h : Inv v) :
    ∃ ps pe : Int, GenOld.parentStart v = .ok (v.offset + ps) ∧ GenOld.parentStop v = .ok (v.offset + pe) ∧
      0 ≤ ps ∧ ps ≤ pe ∧ pe ≤ v.seqLen ∧
      elems v = (PySlice.sliceIdx (pe - ps).toNat none none v.step).map (· + ps) := by
  rw [gen_old_parentStartStop.1, gen_old_parentStartStop.2]
  exact parent_coords_exact v h

/-- `getitem_int_full` for the translated `__getitem__` / `_get_index` / `parent_start` / `parent_stop` / `__len__` -/
theorem gen_old_getitem_int_full (v : View) (h : Inv v) (i : Int) :
    (∀ x, PySlice.index (elems v) i = some x →
      ∃ w, GenOld.getitemInt v i = .ok w ∧ Inv w ∧ elems w = [x] ∧ GenOld.len w = 1 ∧
        w.offset = v.offset ∧ w.seqLen = v.seqLen ∧ w.step = (if v.step < 0 then -1 else 1) ∧
        GenOld.parentStart w = .ok (v.offset + x) ∧ GenOld.parentStop w = .ok (v.offset + x + 1) ∧
        0 ≤ x ∧ x < v.seqLen) ∧
    (PySlice.index (elems v) i = none → GenOld.getitemInt v i = .error .indexError) := by
  rw [gen_old_getitemInt, gen_old_len, gen_old_parentStartStop.1, gen_old_parentStartStop.2]
  exact getitem_int_full v h i

example : GenOld.getitemInt { start := 0, stop := 7, step := 2, offset := 3, seqLen := 10 } (-1)
    = .ok { start := 6, stop := 7, step := 1, offset := 3, seqLen := 10 } := by decide

/-- one step of a chain, through the translated `__getitem__` -/
def genStepOld (v : View) : Op → Except Err View
  | .slice a b c => GenOld.getitemSlice v a b c
  | .index i => GenOld.getitemInt v i

theorem genStepOld_eq : genStepOld = step1 .seqView := by
  funext v op
  cases op <;> simp only [genStepOld, step1, gen_old_getitemSlice, gen_old_getitemInt]

/-- **`chain_spec` / `reachable_inv` for the translated code**: any chain of slice / index operations (any depth, no
zero step) run through the translated `__getitem__` keeps the invariant and displays what the same chain of Python
list operations yields -/
theorem gen_old_chain_spec (ops : List Op) (v w : View) (h : Inv v)
    (hops : ∀ op ∈ ops, op.stepOk) (hw : runOpsBy genStepOld v ops = .ok w) :
    Inv w ∧ specRun (elems v) ops = some (elems w) := by
  rw [genStepOld_eq, runOpsBy_step1] at hw
  exact ⟨reachable_inv .seqView ops v w h hw, chain_spec .seqView ops v w h hops hw⟩

example : runOpsBy genStepOld { start := 0, stop := 10, step := 1, offset := 0, seqLen := 10 }
    [.slice (some 1) (some 8) (some 2), .slice none none (some (-1)), .slice (some 1) none none, .index (-1)]
    = .ok { start := -9, stop := -10, step := -1, offset := 0, seqLen := 10 } := by rfl

/-! ### GenNew -/

/-- `GenNew.mk` (translated `SeqView.__init__`, with its `seq_len` argument absent or equal to `len(seq)`) is the
model's constructor; any other `seq_len` raises `AssertionError` after the `step == 0` check -/
theorem gen_new_mk (n : Int) (a b c : Option Int) (off : Int) :
    GenNew.mk n a b c off none = mk n a b c off ∧ GenNew.mk n a b c off (some n) = mk n a b c off ∧
    ∀ sl, GenNew.mk n a b c off sl =
      if c = some 0 then .error .valueError else if sl ≠ none ∧ sl ≠ some n then .error .assertionError
      else mk n a b c off :=
  ⟨C01GenEq.New.mk_none n a b c off, C01GenEq.New.mk_some n a b c off, C01GenEq.New.mk_full n a b c off⟩

example : GenNew.mk 10 (some 7) (some 1) (some (-2)) 0 (some 10) = .ok { start := -3, stop := -9, step := -2, offset := 0, seqLen := 10 } := by rfl
example : GenNew.mk 10 none none none 0 (some 9) = .error .assertionError := by rfl

/-- translated `__len__` -/
theorem gen_new_len : GenNew.len = len := C01GenEq.New.len_eq

example : GenNew.len { start := 1, stop := 8, step := 3, offset := 0, seqLen := 10 } = 3 := by rfl

/-- translated `_get_index` -/
theorem gen_new_getIndex : GenNew.getIndex = @getIndex := C01GenEq.New.getIndex_eq

example : GenNew.getIndex { start := -3, stop := -10, step := -2, offset := 0, seqLen := 10 } (-1) false = .ok (-9, -10, -1) := by rfl

/-- translated `__getitem__` on a slice (with `_get_slice`, `_get_reverse_slice`, the four
`_get_*_slice_from_*_seqview_` methods, `copy` and `_zero_slice` of this class) -/
theorem gen_new_getitemSlice : GenNew.getitemSlice = getitemSlice .seqView := C01GenEq.New.getitemSlice_eq

example : GenNew.getitemSlice { start := 1, stop := 8, step := 2, offset := 0, seqLen := 10 } (some (-1)) (some 0) (some (-2))
    = .ok { start := -3, stop := -9, step := -4, offset := 0, seqLen := 10 } := by rfl

/-- translated `__getitem__` on an integer -/
theorem gen_new_getitemInt : GenNew.getitemInt = getitemInt := C01GenEq.New.getitemInt_eq

example : GenNew.getitemInt { start := -3, stop := -10, step := -2, offset := 0, seqLen := 10 } 4 = .error .indexError := by rfl

/-- translated `parent_start` / `parent_stop` -/
theorem gen_new_parentStartStop : GenNew.parentStart = parentStart ∧ GenNew.parentStop = parentStop :=
  ⟨C01GenEq.New.parentStart_eq, C01GenEq.New.parentStop_eq⟩

example : GenNew.parentStart { start := -3, stop := -10, step := -2, offset := 5, seqLen := 10 } = .ok 6 ∧
    GenNew.parentStop { start := 3, stop := 1, step := -2, offset := 5, seqLen := 10 } = .error .assertionError := by decide

/-- translated `absolute_position` -/
theorem gen_new_absolutePosition : GenNew.absolutePosition = @absolutePosition := C01GenEq.New.absolutePosition_eq

example : GenNew.absolutePosition { start := -3, stop := -10, step := -2, offset := 5, seqLen := 10 } 1 false = .ok 11 := by decide

/-- translated `relative_position` -/
theorem gen_new_relativePosition : GenNew.relativePosition = @relativePosition := C01GenEq.New.relativePosition_eq

example : GenNew.relativePosition { start := 1, stop := 8, step := 3, offset := 5, seqLen := 10 } 11 false = .ok 2 := by rfl

/-- translated start/stop computation of `to_rich_dict` -/
theorem gen_new_richDictBounds : GenNew.richDictBounds = richDictBounds := C01GenEq.New.richDictBounds_eq

example : GenNew.richDictBounds { start := -3, stop := -10, step := -2, offset := 0, seqLen := 10 } = (1, 8) := by rfl

/-! ### the headline theorems, restated for the TRANSLATED functions of GenNew -/

/-- `mk_inv` for the translated constructor -/
theorem gen_new_mk_inv (n : Int) (hn : 0 ≤ n) (start stop step : Option Int) (offset : Int) (v : View)
    (h : GenNew.mk n start stop step offset (some n) = .ok v) : Inv v := by
  rw [(gen_new_mk n start stop step offset).2.1] at h
  exact mk_inv n hn start stop step offset v h

/-- `getitem_inv` for the translated `__getitem__` -/
theorem gen_new_getitem_inv (v : View) (h : Inv v) (a b c : Option Int) (w : View)
    (hw : GenNew.getitemSlice v a b c = .ok w) : Inv w := by
  rw [gen_new_getitemSlice] at hw
  exact getitem_inv .seqView v h a b c w hw

/-- **`getitem_spec` for the translated `__getitem__`**: the python code, as translated on this run, displays
exactly the Python slice of what the view displayed -/
theorem gen_new_getitem_spec (v w : View) (a b c : Option Int) (h : Inv v) (hc : c ≠ some 0)
    (hw : GenNew.getitemSlice v a b c = .ok w) :
    elems w = (PySlice.sliceIdx (GenNew.len v).toNat a b (c.getD 1)).map (fun j => first v + j * v.step) := by
  rw [gen_new_getitemSlice] at hw
  rw [gen_new_len]
  exact getitem_spec .seqView v w a b c h hc hw

/-- `getitem_spec_list` for the translated `__getitem__` -/
theorem gen_new_getitem_spec_list (v w : View) (a b c : Option Int) (h : Inv v) (hc : c ≠ some 0)
    (hw : GenNew.getitemSlice v a b c = .ok w) : elems w = PySlice.slice (elems v) a b (c.getD 1) := by
  rw [gen_new_getitemSlice] at hw
  exact getitem_spec_list .seqView v w a b c h hc hw

/-- `getitem_no_error` for the translated `__getitem__` -/
theorem gen_new_getitem_no_error (v : View) (a b c : Option Int) (h : Inv v) (hc : c ≠ some 0) :
    ∃ w, GenNew.getitemSlice v a b c = .ok w := by
  rw [gen_new_getitemSlice]
  exact getitem_no_error .seqView v a b c h hc

/-- `getitem_int_spec` for the translated `__getitem__` -/
theorem gen_new_getitem_int_spec (v : View) (h : Inv v) (i : Int) :
    (∀ w, GenNew.getitemInt v i = .ok w → ∃ x, PySlice.index (elems v) i = some x ∧ elems w = [x]) ∧
    (∀ e, GenNew.getitemInt v i = .error e → PySlice.index (elems v) i = none) := by
  rw [gen_new_getitemInt]
  exact getitem_int_spec v h i

/-- `parent_coords_exact` for the translated `parent_start` / `parent_stop` -/
theorem gen_new_parent_coords_exact (v : View) (h : Inv v) :
    ∃ ps pe : Int, GenNew.parentStart v = .ok (v.offset + ps) ∧ GenNew.parentStop v = .ok (v.offset + pe) ∧
      0 ≤ ps ∧ ps ≤ pe ∧ pe ≤ v.seqLen ∧
      elems v = (PySlice.sliceIdx (pe - ps).toNat none none v.step).map (· + ps) := by
  rw [gen_new_parentStartStop.1, gen_new_parentStartStop.2]
  exact parent_coords_exact v h

/-- `getitem_int_full` for the translated `__getitem__` / `_get_index` / `parent_start` / `parent_stop` / `__len__` -/
theorem gen_new_getitem_int_full (v : View) (h : Inv v) (i : Int) :
    (∀ x, PySlice.index (elems v) i = some x →
      ∃ w, GenNew.getitemInt v i = .ok w ∧ Inv w ∧ elems w = [x] ∧ GenNew.len w = 1 ∧
        w.offset = v.offset ∧ w.seqLen = v.seqLen ∧ w.step = (if v.step < 0 then -1 else 1) ∧
        GenNew.parentStart w = .ok (v.offset + x) ∧ GenNew.parentStop w = .ok (v.offset + x + 1) ∧
        0 ≤ x ∧ x < v.seqLen) ∧
    (PySlice.index (elems v) i = none → GenNew.getitemInt v i = .error .indexError) := by
  rw [gen_new_getitemInt, gen_new_len, gen_new_parentStartStop.1, gen_new_parentStartStop.2]
  exact getitem_int_full v h i

example : GenNew.getitemInt { start := 0, stop := 7, step := 2, offset := 3, seqLen := 10 } (-1)
    = .ok { start := 6, stop := 7, step := 1, offset := 3, seqLen := 10 } := by decide

/-- one step of a chain, through the translated `__getitem__` -/
def genStepNew (v : View) : Op → Except Err View
  | .slice a b c => GenNew.getitemSlice v a b c
  | .index i => GenNew.getitemInt v i

theorem genStepNew_eq : genStepNew = step1 .seqView := by
  funext v op
  cases op <;> simp only [genStepNew, step1, gen_new_getitemSlice, gen_new_getitemInt]

/-- **`chain_spec` / `reachable_inv` for the translated code**: any chain of slice / index operations (any depth, no
zero step) run through the translated `__getitem__` keeps the invariant and displays what the same chain of Python
list operations yields -/
theorem gen_new_chain_spec (ops : List Op) (v w : View) (h : Inv v)
    (hops : ∀ op ∈ ops, op.stepOk) (hw : runOpsBy genStepNew v ops = .ok w) :
    Inv w ∧ specRun (elems v) ops = some (elems w) := by
  rw [genStepNew_eq, runOpsBy_step1] at hw
  exact ⟨reachable_inv .seqView ops v w h hw, chain_spec .seqView ops v w h hops hw⟩

example : runOpsBy genStepNew { start := 0, stop := 10, step := 1, offset := 0, seqLen := 10 }
    [.slice (some 1) (some 8) (some 2), .slice none none (some (-1)), .slice (some 1) none none, .index (-1)]
    = .ok { start := -9, stop := -10, step := -1, offset := 0, seqLen := 10 } := by rfl

/-! ### GenData -/

/-- `GenData.mk` (translated `__init__`) is the model's constructor -/
theorem gen_data_mk : GenData.mk = mk := C01GenEq.Data.mk_eq

example : GenData.mk 10 (some 7) (some 1) (some (-2)) 0 = .ok { start := -3, stop := -9, step := -2, offset := 0, seqLen := 10 } := by rfl

/-- translated `__len__` -/
theorem gen_data_len : GenData.len = len := C01GenEq.Data.len_eq

example : GenData.len { start := 1, stop := 8, step := 3, offset := 0, seqLen := 10 } = 3 := by rfl

/-- translated `_get_index` -/
theorem gen_data_getIndex : GenData.getIndex = @getIndex := C01GenEq.Data.getIndex_eq

example : GenData.getIndex { start := -3, stop := -10, step := -2, offset := 0, seqLen := 10 } (-1) false = .ok (-9, -10, -1) := by rfl

/-- translated `__getitem__` on a slice (with `_get_slice`, `_get_reverse_slice`, the four
`_get_*_slice_from_*_seqview_` methods, `copy` and `_zero_slice` of this class) -/
theorem gen_data_getitemSlice : GenData.getitemSlice = getitemSlice .seqDataView := C01GenEq.Data.getitemSlice_eq

example : GenData.getitemSlice { start := 1, stop := 8, step := 2, offset := 0, seqLen := 10 } (some (-1)) (some 0) (some (-2))
    = .ok { start := -3, stop := -9, step := -4, offset := 0, seqLen := 10 } := by rfl

/-- translated `__getitem__` on an integer -/
theorem gen_data_getitemInt : GenData.getitemInt = getitemInt := C01GenEq.Data.getitemInt_eq

example : GenData.getitemInt { start := -3, stop := -10, step := -2, offset := 0, seqLen := 10 } 4 = .error .indexError := by rfl

/-- translated `parent_start` / `parent_stop` -/
theorem gen_data_parentStartStop : GenData.parentStart = parentStart ∧ GenData.parentStop = parentStop :=
  ⟨C01GenEq.Data.parentStart_eq, C01GenEq.Data.parentStop_eq⟩

example : GenData.parentStart { start := -3, stop := -10, step := -2, offset := 5, seqLen := 10 } = .ok 6 ∧
    GenData.parentStop { start := 3, stop := 1, step := -2, offset := 5, seqLen := 10 } = .error .assertionError := by decide

/-- translated `absolute_position` -/
theorem gen_data_absolutePosition : GenData.absolutePosition = @absolutePosition := C01GenEq.Data.absolutePosition_eq

example : GenData.absolutePosition { start := -3, stop := -10, step := -2, offset := 5, seqLen := 10 } 1 false = .ok 11 := by decide

/-- translated `relative_position` -/
theorem gen_data_relativePosition : GenData.relativePosition = @relativePosition := C01GenEq.Data.relativePosition_eq

example : GenData.relativePosition { start := 1, stop := 8, step := 3, offset := 5, seqLen := 10 } 11 false = .ok 2 := by rfl

/-! ### the headline theorems, restated for the TRANSLATED functions of GenData -/

/-- `mk_inv` for the translated constructor -/
theorem gen_data_mk_inv (n : Int) (hn : 0 ≤ n) (start stop step : Option Int) (offset : Int) (v : View)
    (h : GenData.mk n start stop step offset = .ok v) : Inv v := by
  rw [gen_data_mk] at h
  exact mk_inv n hn start stop step offset v h

/-- `getitem_inv` for the translated `__getitem__` -/
theorem gen_data_getitem_inv (v : View) (h : Inv v) (a b c : Option Int) (w : View)
    (hw : GenData.getitemSlice v a b c = .ok w) : Inv w := by
  rw [gen_data_getitemSlice] at hw
  exact getitem_inv .seqDataView v h a b c w hw

/-- **`getitem_spec` for the translated `__getitem__`**: the python code, as translated on this run, displays
exactly the Python slice of what the view displayed -/
theorem gen_data_getitem_spec (v w : View) (a b c : Option Int) (h : Inv v) (hc : c ≠ some 0)
    (hw : GenData.getitemSlice v a b c = .ok w) :
    elems w = (PySlice.sliceIdx (GenData.len v).toNat a b (c.getD 1)).map (fun j => first v + j * v.step) := by
  rw [gen_data_getitemSlice] at hw
  rw [gen_data_len]
  exact getitem_spec .seqDataView v w a b c h hc hw

/-- `getitem_spec_list` for the translated `__getitem__` -/
theorem gen_data_getitem_spec_list (v w : View) (a b c : Option Int) (h : Inv v) (hc : c ≠ some 0)
    (hw : GenData.getitemSlice v a b c = .ok w) : elems w = PySlice.slice (elems v) a b (c.getD 1) := by
  rw [gen_data_getitemSlice] at hw
  exact getitem_spec_list .seqDataView v w a b c h hc hw

/-- `getitem_no_error` for the translated `__getitem__` -/
theorem gen_data_getitem_no_error (v : View) (a b c : Option Int) (h : Inv v) (hc : c ≠ some 0) :
    ∃ w, GenData.getitemSlice v a b c = .ok w := by
  rw [gen_data_getitemSlice]
  exact getitem_no_error .seqDataView v a b c h hc

/-- `getitem_int_spec` for the translated `__getitem__` -/
theorem gen_data_getitem_int_spec (v : View) (h : Inv v) (i : Int) :
    (∀ w, GenData.getitemInt v i = .ok w → ∃ x, PySlice.index (elems v) i = some x ∧ elems w = [x]) ∧
    (∀ e, GenData.getitemInt v i = .error e → PySlice.index (elems v) i = none) := by
  rw [gen_data_getitemInt]
  exact getitem_int_spec v h i

/-- `parent_coords_exact` for the translated `parent_start` / `parent_stop` -/
theorem gen_data_parent_coords_exact (v : View) (h : Inv v) :
    ∃ ps pe : Int, GenData.parentStart v = .ok (v.offset + ps) ∧ GenData.parentStop v = .ok (v.offset + pe) ∧
      0 ≤ ps ∧ ps ≤ pe ∧ pe ≤ v.seqLen ∧
      elems v = (PySlice.sliceIdx (pe - ps).toNat none none v.step).map (· + ps) := by
  rw [gen_data_parentStartStop.1, gen_data_parentStartStop.2]
  exact parent_coords_exact v h

/-- `getitem_int_full` for the translated `__getitem__` / `_get_index` / `parent_start` / `parent_stop` / `__len__` -/
theorem gen_data_getitem_int_full (v : View) (h : Inv v) (i : Int) :
    (∀ x, PySlice.index (elems v) i = some x →
      ∃ w, GenData.getitemInt v i = .ok w ∧ Inv w ∧ elems w = [x] ∧ GenData.len w = 1 ∧
        w.offset = v.offset ∧ w.seqLen = v.seqLen ∧ w.step = (if v.step < 0 then -1 else 1) ∧
        GenData.parentStart w = .ok (v.offset + x) ∧ GenData.parentStop w = .ok (v.offset + x + 1) ∧
        0 ≤ x ∧ x < v.seqLen) ∧
    (PySlice.index (elems v) i = none → GenData.getitemInt v i = .error .indexError) := by
  rw [gen_data_getitemInt, gen_data_len, gen_data_parentStartStop.1, gen_data_parentStartStop.2]
  exact getitem_int_full v h i

example : GenData.getitemInt { start := 0, stop := 7, step := 2, offset := 3, seqLen := 10 } (-1)
    = .ok { start := 6, stop := 7, step := 1, offset := 3, seqLen := 10 } := by decide

/-- one step of a chain, through the translated `__getitem__` -/
def genStepData (v : View) : Op → Except Err View
  | .slice a b c => GenData.getitemSlice v a b c
  | .index i => GenData.getitemInt v i

theorem genStepData_eq : genStepData = step1 .seqDataView := by
  funext v op
  cases op <;> simp only [genStepData, step1, gen_data_getitemSlice, gen_data_getitemInt]

/-- **`chain_spec` / `reachable_inv` for the translated code**: any chain of slice / index operations (any depth, no
zero step) run through the translated `__getitem__` keeps the invariant and displays what the same chain of Python
list operations yields -/
theorem gen_data_chain_spec (ops : List Op) (v w : View) (h : Inv v)
    (hops : ∀ op ∈ ops, op.stepOk) (hw : runOpsBy genStepData v ops = .ok w) :
    Inv w ∧ specRun (elems v) ops = some (elems w) := by
  rw [genStepData_eq, runOpsBy_step1] at hw
  exact ⟨reachable_inv .seqDataView ops v w h hw, chain_spec .seqDataView ops v w h hops hw⟩

example : runOpsBy genStepData { start := 0, stop := 10, step := 1, offset := 0, seqLen := 10 }
    [.slice (some 1) (some 8) (some 2), .slice none none (some (-1)), .slice (some 1) none none, .index (-1)]
    = .ok { start := -9, stop := -10, step := -1, offset := 0, seqLen := 10 } := by rfl

end translated_agrees_with_model

end CogentModel.C01
