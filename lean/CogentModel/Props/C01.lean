import CogentModel.Model.View
import CogentModel.Spec.PySlice
import CogentModel.Proofs.ViewInv
/-! # C01 — property theorems (views obey the slice algebra) -/
namespace CogentModel.C01
open CogentModel.View

/-- Every constructor call (any `None`/negative/out-of-range arguments) yields a view
satisfying the representation invariant. -/
theorem mk_inv (n : Int) (hn : 0 ≤ n) (start stop step : Option Int) (offset : Int) (v : View)
    (h : mk n start stop step offset = .ok v) : Inv v :=
  mk_inv' n hn start stop step offset v h

example : Inv { start := -3, stop := -10, step := -2, offset := 0, seqLen := 10 } := by decide
example : mk 10 (some 7) (some 1) (some (-2)) 0 = .ok { start := -3, stop := -9, step := -2, offset := 0, seqLen := 10 } := by rfl

end CogentModel.C01
