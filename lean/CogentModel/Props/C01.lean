import CogentModel.Model.View
import CogentModel.Spec.PySlice
import CogentModel.Proofs.ViewInv
import CogentModel.Proofs.ViewSem
/-! # C01 — property theorems (views obey the slice algebra)

`Inv` is the representation invariant of slice records, `elems v` the list of
parent positions a view displays (`Proofs/ViewSem.lean`), `PySlice` the
language-level semantics of Python slicing (`Spec/PySlice.lean`). -/
namespace CogentModel.C01
open CogentModel.View

/-- Every constructor call (any `None`/negative/out-of-range arguments) yields a view
satisfying the representation invariant. -/
theorem mk_inv (n : Int) (hn : 0 ≤ n) (start stop step : Option Int) (offset : Int) (v : View)
    (h : mk n start stop step offset = .ok v) : Inv v :=
  mk_inv' n hn start stop step offset v h

example : Inv { start := -3, stop := -10, step := -2, offset := 0, seqLen := 10 } := by decide
example : mk 10 (some 7) (some 1) (some (-2)) 0 = .ok { start := -3, stop := -9, step := -2, offset := 0, seqLen := 10 } := by rfl

/-- Slicing (any start/stop/step, `None`, negative, out of range; both `_zero_slice`
flavours) preserves the invariant. -/
theorem getitem_inv (fl : Flavour) (v : View) (h : Inv v) (a b c : Option Int) (w : View)
    (hw : getitemSlice fl v a b c = .ok w) : Inv w :=
  getitemSlice_inv fl v h a b c w hw

/-- Integer indexing preserves the invariant. -/
theorem getitem_int_inv (v : View) (h : Inv v) (i : Int) (w : View)
    (hw : getitemInt v i = .ok w) : Inv w :=
  getitemInt_inv v h i w hw

example : getitemSlice .seqView { start := 1, stop := 8, step := 2, offset := 0, seqLen := 10 } none none (some (-1))
    = .ok { start := -3, stop := -10, step := -2, offset := 0, seqLen := 10 } := by rfl

/-- A chain of operations on a view. -/
inductive Op where
  | slice (a b c : Option Int)
  | index (i : Int)

def step1 (fl : Flavour) (v : View) : Op → Except Err View
  | .slice a b c => getitemSlice fl v a b c
  | .index i => getitemInt v i

def runOps (fl : Flavour) : View → List Op → Except Err View
  | v, [] => .ok v
  | v, op :: ops => match step1 fl v op with
    | .ok w => runOps fl w ops
    | .error e => .error e

/-- **Every reachable view satisfies the invariant**: any constructor call followed by
any finite chain of slice / index operations (of any depth). -/
theorem reachable_inv (fl : Flavour) (ops : List Op) (v w : View) (h : Inv v)
    (hw : runOps fl v ops = .ok w) : Inv w := by
  induction ops generalizing v with
  | nil => simp [runOps] at hw; subst hw; exact h
  | cons op ops ih =>
    unfold runOps at hw
    cases hs : step1 fl v op with
    | error e => simp [hs] at hw
    | ok u =>
      simp [hs] at hw
      refine ih u ?_ hw
      cases op with
      | slice a b c => exact getitemSlice_inv fl v h a b c u hs
      | index i => exact getitemInt_inv v h i u hs

/-- the assertions in `parent_start`/`parent_stop` never fire on a reachable view -/
theorem parent_coords_defined (v : View) (h : Inv v) :
    (∃ a, parentStart v = .ok a) ∧ (∃ b, parentStop v = .ok b) := by
  unfold parentStart parentStop
  rcases h with ⟨_, h | h⟩
  · have : ¬ v.step < 0 := by omega
    simp [this]
  · have h1 : v.stop < 0 := by omega
    have h2 : v.start < 0 := by omega
    simp [h.1, h1, h2]

end CogentModel.C01
