import CogentModel.Model.FMap
import CogentModel.Proofs.FMapLemmas
/-! # C08 (feature maps) — property theorems about `FeatureMap` / `Span` algebra

`cover m : List (Option Int)` is the abstraction: map position ↦ parent position or lost.
`Within m` : every real span has `0 ≤ s ≤ e ≤ parentLength`; `Fwd m` : no span is reversed
(both defined in `Proofs/FMapLemmas.lean`). -/
namespace CogentModel.C08
open CogentModel.FMap

/-! ## 1. no operation yields coordinates outside the parent -/

/-- `FeatureMap.from_locations` (every branch, including the end-clipping one that emits a
    trailing lost span) only produces spans with `0 ≤ start ≤ end ≤ parent_length`. -/
theorem coords_within_parent (locs : List (Int × Int)) (pl : Int) (m : FM)
    (h : fromLocations locs pl = .ok m) : Within m ∧ m.parentLength = pl :=
  fromLocations_within locs pl m h

-- the end-clipping branch is reached
example : fromLocations [(2, 5), (7, 14)] 10 = .ok ⟨[.span 2 5 false, .span 7 10 false, .lost 4], 10⟩ := by decide

/-- `covered()` stays inside the parent (no hypothesis on the input map) -/
theorem coords_within_parent_covered (m c : FM) (h : covered m = .ok c) :
    Within c ∧ c.parentLength = m.parentLength :=
  covered_within m c h

example : covered ⟨[.span 10 20 false, .span 15 25 true, .lost 3, .span 80 90 false], 100⟩
    = .ok ⟨[.span 10 25 false, .span 80 90 false], 100⟩ := by decide

/-- `gaps()` stays inside its parent, which is the map's own coordinate system `[0, len m]` -/
theorem coords_within_parent_gaps (m g : FM) (h : gaps m = .ok g) :
    Within g ∧ g.parentLength = len m :=
  gaps_within m g h

example : gaps ⟨[.span 2 5 false, .lost 4, .span 7 9 true, .lost 1], 10⟩
    = .ok ⟨[.span 3 7 false, .span 9 10 false], 10⟩ := by decide

/-- `nucleic_reversed()` of a map inside its parent stays inside the parent -/
theorem coords_within_parent_reversed (m r : FM) (hw : Within m) (h : nucleicReversed m = .ok r) :
    Within r ∧ r.parentLength = m.parentLength :=
  nucleicReversed_within m r hw h

example : Within ⟨[.span 2 5 false, .lost 4, .span 7 9 true], 10⟩ ∧
    nucleicReversed ⟨[.span 2 5 false, .lost 4, .span 7 9 true], 10⟩
      = .ok ⟨[.span 1 3 false, .lost 4, .span 5 8 false], 10⟩ := by decide

/-- `nucleic_reversed()` never fails on a map inside its parent -/
theorem fm_reversed_total (m : FM) (hw : Within m) : ∃ r, nucleicReversed m = .ok r :=
  ⟨_, nucleicReversed_total m hw⟩

example : Within ⟨[.span 2 5 false, .lost 4, .span 7 9 true], 10⟩ := by decide

/-- `m[n]` of a map inside its parent stays inside the parent (whatever the index map `n` is) -/
theorem coords_within_parent_getitem (m n r : FM) (hw : Within m) (h : getitem m n = .ok r) :
    Within r ∧ r.parentLength = m.parentLength :=
  getitem_within m n r hw h

example : Within ⟨[.span 2 5 false, .lost 2, .span 7 9 true], 10⟩ ∧
    getitem ⟨[.span 2 5 false, .lost 2, .span 7 9 true], 10⟩ ⟨[.span 1 4 false, .lost 1, .span 3 9 true], 7⟩
      = .ok ⟨[.span 3 5 false, .lost 1, .lost 1, .lost 2, .span 7 9 false, .lost 2], 10⟩ := by decide

/-- `inverse()` stays inside its parent, which is the map's own coordinate system `[0, len m]`
    (any map with non-negative span lengths: reversed, unsorted, with lost spans) -/
theorem coords_within_parent_inverse (m i : FM) (hN : NonNeg m) (h : inverse m = .ok i) :
    Within i ∧ i.parentLength = len m :=
  inverse_within m i hN h

example : NonNeg ⟨[.span 7 9 true, .lost 2, .span 2 5 false], 10⟩ ∧
    inverse ⟨[.span 7 9 true, .lost 2, .span 2 5 false], 10⟩
      = .ok ⟨[.lost 2, .span 4 7 false, .lost 2, .span 0 2 true, .lost 1], 7⟩ := by decide

/-- `shadow()` stays inside its parent (no hypothesis) -/
theorem coords_within_parent_shadow (m s : FM) (h : shadow m = .ok s) : Within s :=
  shadow_within m s h

example : shadow ⟨[.span 7 9 true, .lost 2, .span 2 5 false], 10⟩
    = .ok ⟨[.span 0 2 false, .span 5 7 false, .span 9 10 false], 10⟩ := by decide

/-! ## 2. `nucleic_reversed` -/

/-- reversal: the reversed map reads the parent's mirror image back to front -/
theorem fm_reversed_spec (m r : FM) (hw : Within m) (hf : Fwd m) (h : nucleicReversed m = .ok r) :
    cover r = (cover m).reverse.map (Option.map (fun p => m.parentLength - 1 - p)) ∧ len r = len m := by
  unfold nucleicReversed at h
  split at h
  · cases h
  · rename_i sp hs
    injection h with h; subst h
    have := go_rev_spec m m.spans sp hw hf hs
    exact ⟨this.1, by simpa [len_eq_lenL] using this.2⟩

example : Within ⟨[.span 2 5 false, .lost 4, .span 7 9 false], 10⟩ ∧ Fwd ⟨[.span 2 5 false, .lost 4, .span 7 9 false], 10⟩ ∧
    (nucleicReversed ⟨[.span 2 5 false, .lost 4, .span 7 9 false], 10⟩).toOption.map cover
      = some [some 1, some 2, none, none, none, none, some 5, some 6, some 7] := by decide

/-- on forward maps inside their parent, reversing twice gives the map back -/
theorem fm_reversed_involutive (m r : FM) (hw : Within m) (hf : Fwd m) (h : nucleicReversed m = .ok r) :
    nucleicReversed r = .ok m :=
  nucleicReversed_involutive' m r hw hf h

example : nucleicReversed ⟨[.span 2 5 false, .lost 4, .span 7 9 false], 10⟩ = .ok ⟨[.span 1 3 false, .lost 4, .span 5 8 false], 10⟩ ∧
    nucleicReversed ⟨[.span 1 3 false, .lost 4, .span 5 8 false], 10⟩ = .ok ⟨[.span 2 5 false, .lost 4, .span 7 9 false], 10⟩ := by decide

/-- a reversed span is NOT mirrored correctly: `nucleic_reversed` "discards the reverse attribute"
    (documented in the docstring), so `fm_reversed_spec` genuinely needs `Fwd m`. -/
theorem fm_reversed_spec_needs_fwd :
    ∃ m r, Within m ∧ nucleicReversed m = .ok r ∧
      cover r ≠ (cover m).reverse.map (Option.map (fun p => m.parentLength - 1 - p)) :=
  ⟨⟨[.span 2 5 true], 10⟩, ⟨[.span 5 8 false], 10⟩, by decide, by decide, by decide⟩

/-- at the level of covered SETS the mirror property holds for every map inside its parent,
    reversed spans included -/
theorem fm_reversed_set_spec (m r : FM) (hw : Within m) (h : nucleicReversed m = .ok r) :
    ∀ p, some p ∈ cover r ↔ some (m.parentLength - 1 - p) ∈ cover m :=
  nucleicReversed_mem m r hw h

example : Within ⟨[.span 2 5 true, .lost 4, .span 7 9 false], 10⟩ ∧
    nucleicReversed ⟨[.span 2 5 true, .lost 4, .span 7 9 false], 10⟩
      = .ok ⟨[.span 1 3 false, .lost 4, .span 5 8 false], 10⟩ := by decide

/-! ## 3. `__getitem__` is composition -/

/-- `Span(s, e, rev).remap_with(m)`: the span that contains map position `z` is found by
    `bisect_right(offsets, z) - 1`, the pieces are trimmed with `Span.__getitem__`, and lost spans are
    added where the span pokes outside `[0, len m)`.  Position by position the result is `m`'s cover
    read at the span's own positions (`compose c (some j) = c[j]` if `0 ≤ j < len`, else lost).
    Holds for forward and reversed index spans, with zero-length spans anywhere in `m`. -/
theorem remap_with_spec (m : FM) (hN : NonNeg m) (hne : m.spans ≠ []) (s e : Int) (rv : Bool)
    (h1 : s ≤ e) :
    ∃ parts, remapSpan s e rv m = .ok parts ∧
      parts.flatMap coverSp = (coverSp (.span s e rv)).map (compose (cover m)) :=
  remapSpan_spec m hN hne s e rv h1

example : NonNeg ⟨[.span 2 5 false, .lost 2, .span 7 7 false, .span 7 9 true], 10⟩ ∧
    remapSpan (-2) 9 true ⟨[.span 2 5 false, .lost 2, .span 7 7 false, .span 7 9 true], 10⟩
      = .ok [.lost 2, .span 7 9 false, .span 7 7 true, .lost 2, .span 2 5 true, .lost 2] := by decide

/-- `m[n]`: the cover of the result is the composition of the covers — for EVERY index map `n`
    whose spans are ordered (`idxOK`: `start ≤ end`, which `Span.__init__` enforces): forward or
    reversed, poking outside or lying entirely outside `[0, len m]` (those positions become lost),
    and every `m` with non-negative span lengths and at least one span.  The call never fails. -/
theorem getitem_is_composition (m n : FM) (hN : NonNeg m) (hne : m.spans ≠ [])
    (hn : ∀ x ∈ n.spans, x.idxOK (len m)) :
    ∃ r, getitem m n = .ok r ∧ r.parentLength = m.parentLength ∧
      cover r = (cover n).map (compose (cover m)) :=
  getitem_spec m n hN hne hn

example : NonNeg ⟨[.span 2 5 false, .lost 2, .span 7 9 true], 10⟩ ∧
    (∀ x ∈ [FSp.span (-1) 4 false, .lost 1, .span 3 9 true], x.idxOK (len ⟨[.span 2 5 false, .lost 2, .span 7 9 true], 10⟩)) ∧
    (getitem ⟨[.span 2 5 false, .lost 2, .span 7 9 true], 10⟩ ⟨[.span (-1) 4 false, .lost 1, .span 3 9 true], 7⟩).toOption.map cover
      = some [none, some 2, some 3, some 4, none, none, none, none, some 7, some 8, none, none] := by decide

/-- the same with the index map inside `[0, len m]`: plain list indexing of `cover m` -/
theorem getitem_is_composition_inrange (m n : FM) (hN : NonNeg m) (hne : m.spans ≠ [])
    (hn : ∀ x ∈ n.spans, x.idxIn (len m)) :
    ∃ r, getitem m n = .ok r ∧ r.parentLength = m.parentLength ∧
      cover r = (cover n).map (fun | none => none | some j => ((cover m)[j.toNat]?).join) := by
  have hn' : ∀ x ∈ n.spans, x.idxOK (len m) := by
    intro x hx
    have := hn x hx
    cases x with
    | lost k => trivial
    | span s e rv => simp only [FSp.idxIn] at this; simp only [FSp.idxOK]; omega
  obtain ⟨r, hr, hp, hc⟩ := getitem_spec m n hN hne hn'
  refine ⟨r, hr, hp, ?_⟩
  rw [hc]
  apply compose_eq_of_nonneg
  intro o ho j hj
  simp only [cover, List.mem_flatMap] at ho
  obtain ⟨x, hx, hox⟩ := ho
  exact coverSp_nonneg x (len m) (hn x hx) o hox j hj

example : (∀ x ∈ [FSp.span 1 4 false, .lost 1, .span 3 7 true], x.idxIn (len ⟨[.span 2 5 false, .lost 2, .span 7 9 true], 10⟩)) := by decide

/-- an index span lying entirely outside the map (`e < 0`, or `s > len m`) is remapped to a lost
    span of its own length (regression anchor for the repaired `remap_with`: `Span(-5, -2)` used to
    give `LostSpan(5)`, `Span(7, 9)` on a map of length 5 `[9:9, LostSpan(4)]`); in general `m[n]`
    has as many positions as `n` -/
theorem getitem_preserves_positions (m n : FM) (hN : NonNeg m) (hne : m.spans ≠ [])
    (hn : ∀ x ∈ n.spans, x.idxOK (len m)) :
    ∃ r, getitem m n = .ok r ∧ (cover r).length = (cover n).length := by
  obtain ⟨r, hr, _, hc⟩ := getitem_spec m n hN hne hn
  exact ⟨r, hr, by rw [hc, List.length_map]⟩

example : getitem ⟨[.span 2 5 false, .span 7 9 false], 10⟩ ⟨[.span (-5) (-2) false, .span 7 9 false], 5⟩
    = .ok ⟨[.lost 3, .lost 2], 10⟩ := by decide

/-! ## 4. `covered()` is the union -/

/-- `covered()` (delta dict, sorted keys, sweep, `from_locations`): a parent position is covered by
    the result iff it is covered by some span of the map (overlapping, nested, touching, reversed and
    zero-length spans included) -/
theorem covered_is_union (m c : FM) (hw : Within m) (h : covered m = .ok c) :
    ∀ p, some p ∈ cover c ↔ some p ∈ cover m :=
  covered_mem m c hw h

example : Within ⟨[.span 10 20 false, .span 15 25 true, .lost 3, .span 25 30 false, .span 40 40 false, .span 80 90 false, .span 12 14 false], 100⟩ ∧
    covered ⟨[.span 10 20 false, .span 15 25 true, .lost 3, .span 25 30 false, .span 40 40 false, .span 80 90 false, .span 12 14 false], 100⟩
      = .ok ⟨[.span 10 30 false, .span 80 90 false], 100⟩ := by decide

/-- `covered()`: the spans of the result are forward, non-empty, sorted, pairwise disjoint and
    non-adjacent (each ends strictly before the next starts); there are no lost spans -/
theorem covered_is_sorted_disjoint (m c : FM) (hw : Within m) (h : covered m = .ok c) :
    ∃ locs : List (Int × Int), c.spans = locs.map (fun ab => FSp.span ab.1 ab.2 false) ∧
      (∀ ab ∈ locs, ab.1 < ab.2) ∧ locs.Pairwise (fun a b => a.2 < b.1) :=
  covered_separated m c hw h

example : Within ⟨[.span 80 90 false, .span 10 20 false, .span 20 25 true, .span 40 40 false], 100⟩ ∧
    covered ⟨[.span 80 90 false, .span 10 20 false, .span 20 25 true, .span 40 40 false], 100⟩
      = .ok ⟨[.span 10 25 false, .span 80 90 false], 100⟩ := by decide

/-! ## 5. `inverse()` and `shadow()`

`SortedFwd m` : the real spans of `m` are forward, sorted and non-overlapping in parent
coordinates (touching allowed, zero-length allowed), inside `[0, parentLength]`; lost spans
(anywhere) have non-negative length. -/

/-- `inverse()` swaps the roles of map position and parent position: it has one position per
    parent position, its parent is the map's own coordinate system, and `j ↦ p` in `m` iff
    `p ↦ j` in the inverse.  Never fails on such maps. -/
theorem inverse_is_converse (m : FM) (h : SortedFwd m) :
    ∃ i, inverse m = .ok i ∧ i.parentLength = len m ∧ len i = m.parentLength ∧
      (∀ (k : Nat) (j : Int), (cover i)[k]? = some (some j) ↔
        (0 ≤ j ∧ (cover m)[j.toNat]? = some (some (k : Int)))) ∧
      (∀ (j : Nat) (p : Int), (cover m)[j]? = some (some p) → (cover i)[p.toNat]? = some (some (j : Int))) := by
  obtain ⟨i, hi, hpl, hlen, _, hcov⟩ := inverse_spec m h.1 h.2
  refine ⟨i, hi, hpl, hlen, hcov, ?_⟩
  intro j p hj
  have hp : 0 ≤ p := chain_pos_ge m.spans 0 h.1 j p hj
  apply (hcov p.toNat (j : Int)).2
  refine ⟨by omega, ?_⟩
  rw [show ((j : Int)).toNat = j by omega, hj]
  congr 2; omega

example : SortedFwd ⟨[.lost 1, .span 2 5 false, .lost 2, .span 5 5 false, .span 7 9 false], 10⟩ ∧
    inverse ⟨[.lost 1, .span 2 5 false, .lost 2, .span 5 5 false, .span 7 9 false], 10⟩
      = .ok ⟨[.lost 2, .span 1 4 false, .span 6 6 false, .lost 2, .span 6 8 false, .lost 1], 8⟩ := by decide

/-- `shadow()` (= `inverse().gaps()`) is the complement inside the parent -/
theorem shadow_is_complement (m s : FM) (h : SortedFwd m) (hs : shadow m = .ok s) :
    ∀ p, some p ∈ cover s ↔ (0 ≤ p ∧ p < m.parentLength ∧ some p ∉ cover m) :=
  shadow_spec m s h.1 h.2 hs

example : SortedFwd ⟨[.lost 1, .span 2 5 false, .lost 2, .span 7 9 false], 10⟩ ∧
    shadow ⟨[.lost 1, .span 2 5 false, .lost 2, .span 7 9 false], 10⟩
      = .ok ⟨[.span 0 2 false, .span 5 7 false, .span 9 10 false], 10⟩ := by decide

/-- `inverse()` for ANY map whose real spans are pairwise non-overlapping (touching allowed), inside
    the parent and of non-negative length — spans in any order and any direction (reverse-strand
    features), lost spans anywhere: same converse property.  Goes through `temp.sort()` (insertion
    sort on the 4-tuples, shown sorted and a permutation) and the overlap check (never fires). -/
theorem inverse_is_converse_any_order (m : FM) (hN : NonNeg m) (hw : Within m) (hd : NoOverlap m)
    (hpl : 0 ≤ m.parentLength) :
    ∃ i, inverse m = .ok i ∧ i.parentLength = len m ∧ len i = m.parentLength ∧
      (∀ (k : Nat) (j : Int), (cover i)[k]? = some (some j) ↔
        (0 ≤ j ∧ (cover m)[j.toNat]? = some (some (k : Int)))) := by
  obtain ⟨i, hi, hp, hlen, _, hcov⟩ := inverse_general_spec m hN hw hd hpl
  exact ⟨i, hi, hp, hlen, hcov⟩

example : NonNeg ⟨[.span 7 9 true, .lost 2, .span 2 5 true, .span 5 7 false], 10⟩ ∧
    Within ⟨[.span 7 9 true, .lost 2, .span 2 5 true, .span 5 7 false], 10⟩ ∧
    NoOverlap ⟨[.span 7 9 true, .lost 2, .span 2 5 true, .span 5 7 false], 10⟩ ∧
    inverse ⟨[.span 7 9 true, .lost 2, .span 2 5 true, .span 5 7 false], 10⟩
      = .ok ⟨[.lost 2, .span 4 7 true, .span 7 9 false, .span 0 2 true, .lost 1], 9⟩ := by decide

/-- `shadow()` is the complement inside the parent for any such map -/
theorem shadow_is_complement_any_order (m s : FM) (hN : NonNeg m) (hw : Within m) (hd : NoOverlap m)
    (hpl : 0 ≤ m.parentLength) (hs : shadow m = .ok s) :
    s.parentLength = m.parentLength ∧
    ∀ p, some p ∈ cover s ↔ (0 ≤ p ∧ p < m.parentLength ∧ some p ∉ cover m) :=
  ⟨shadow_parent m s hN hw hd hpl hs, shadow_general_spec m s hN hw hd hpl hs⟩

example : NoOverlap ⟨[.span 7 9 true, .lost 2, .span 2 5 true], 10⟩ ∧
    shadow ⟨[.span 7 9 true, .lost 2, .span 2 5 true], 10⟩
      = .ok ⟨[.span 0 2 false, .span 5 7 false, .span 9 10 false], 10⟩ := by decide

/-- `inverse()` refuses overlapping spans, so the sortedness/non-overlap hypothesis is about the
    domain of the operation, not a proof convenience -/
theorem inverse_overlap_rejected :
    inverse ⟨[.span 2 6 false, .span 5 9 false], 10⟩ = .error .valueError := by decide

/-- on complete maps (no lost spans) that are sorted, non-overlapping and forward,
    `inverse` is an involution -/
theorem inverse_involutive_on_complete (m i : FM) (h : SortedFwd m) (hC : Complete m.spans)
    (hi : inverse m = .ok i) : inverse i = .ok m :=
  inverse_inverse_complete m i h.1 h.2 hC hi

example : SortedFwd ⟨[.span 2 5 false, .span 5 5 false, .span 7 9 false], 10⟩ ∧
    Complete [FSp.span 2 5 false, .span 5 5 false, .span 7 9 false] ∧
    inverse ⟨[.span 2 5 false, .span 5 5 false, .span 7 9 false], 10⟩
      = .ok ⟨[.lost 2, .span 0 3 false, .span 3 3 false, .lost 2, .span 3 5 false, .lost 1], 5⟩ ∧
    inverse ⟨[.lost 2, .span 0 3 false, .span 3 3 false, .lost 2, .span 3 5 false, .lost 1], 5⟩
      = .ok ⟨[.span 2 5 false, .span 5 5 false, .span 7 9 false], 10⟩ := by decide

/-- with lost spans the round trip is not the identity in general: adjacent lost spans are merged
    and zero-length lost spans disappear, so `Complete` (or a normal form) is needed -/
theorem inverse_involutive_needs_complete :
    ∃ m i i2, SortedFwd m ∧ inverse m = .ok i ∧ inverse i = .ok i2 ∧ i2 ≠ m :=
  ⟨⟨[.span 0 2 false, .lost 1, .lost 1, .span 2 4 false], 4⟩, _, _, by decide, rfl, rfl, by decide⟩

/-- `inverse` is an involution up to denotation on EVERY invertible map (non-overlapping spans in
    any order and direction, lost spans anywhere): the double inverse exists and has the same
    cover and parent as `m` (its span list may differ: lost spans merged, spans re-sorted). -/
theorem inverse_involutive_cover (m : FM) (hN : NonNeg m) (hw : Within m) (hd : NoOverlap m)
    (hpl : 0 ≤ m.parentLength) :
    ∃ i i2, inverse m = .ok i ∧ inverse i = .ok i2 ∧ cover i2 = cover m ∧
      i2.parentLength = m.parentLength :=
  inverse_inverse_cover m hN hw hd hpl

example : NonNeg ⟨[.span 7 9 true, .lost 1, .lost 1, .span 2 5 true], 10⟩ ∧
    Within ⟨[.span 7 9 true, .lost 1, .lost 1, .span 2 5 true], 10⟩ ∧
    NoOverlap ⟨[.span 7 9 true, .lost 1, .lost 1, .span 2 5 true], 10⟩ ∧
    inverse ⟨[.span 7 9 true, .lost 1, .lost 1, .span 2 5 true], 10⟩
      = .ok ⟨[.lost 2, .span 4 7 true, .lost 2, .span 0 2 true, .lost 1], 7⟩ ∧
    inverse ⟨[.lost 2, .span 4 7 true, .lost 2, .span 0 2 true, .lost 1], 7⟩
      = .ok ⟨[.span 7 9 true, .lost 2, .span 2 5 true], 10⟩ := by decide

/- FULL STATEMENT (not proved): `inverse_involutive` for maps WITH lost spans.
   For `SortedFwd m` in normal form (every lost span has positive length, no two lost spans are
   adjacent) `inverse m = .ok i → inverse i = .ok m`; and for reversed / unsorted non-overlapping
   maps `inverse (inverse m)` is `m` with its spans re-sorted by parent position.  Only the complete
   (no lost spans) sorted forward case is proved (`inverse_involutive_on_complete`);
   `inverse_involutive_needs_complete` shows the unrestricted statement is false.
   Why: needs a normal-form predicate and a second closed form for `invC` with lost spans; time.

   `getitem_is_composition` now holds for every ordered index span (the code was repaired in
   b86b50a25); for `m.spans = []` the call raises IndexError (`offsets[-1]`).

   Not specified here: `nongap()`, `get_covering_span`, `startEnd`, `__add__`, `__mul__`,
   tidy flags / `value` (not modelled). -/

end CogentModel.C08
