import CogentModel.Model.FMap
import CogentModel.Proofs.FMapLemmas
/-! # C08 (feature maps) — property theorems about `FeatureMap` / `Span` algebra

`cover m : List (Option Int)` is the abstraction: map position ↦ parent position or lost.
`Within m` : every real span has `0 ≤ s ≤ e ≤ parentLength`; `Fwd m` : no span is reversed
(both defined in `Proofs/FMapLemmas.lean`). -/
namespace CogentModel.C08
open CogentModel.FMap

/-! ## 1. no operation yields coordinates outside the parent -/

/-- `FeatureMap.from_locations` (every branch, including the end-clipping one that emits a
    trailing lost span) only produces spans with `0 ≤ start ≤ end ≤ parent_length`. -/
theorem coords_within_parent (locs : List (Int × Int)) (pl : Int) (m : FM)
    (h : fromLocations locs pl = .ok m) : Within m ∧ m.parentLength = pl :=
  fromLocations_within locs pl m h

-- the end-clipping branch is reached
example : fromLocations [(2, 5), (7, 14)] 10 = .ok ⟨[.span 2 5 false, .span 7 10 false, .lost 4], 10⟩ := by decide

/-- `covered()` stays inside the parent (no hypothesis on the input map) -/
theorem coords_within_parent_covered (m c : FM) (h : covered m = .ok c) :
    Within c ∧ c.parentLength = m.parentLength :=
  covered_within m c h

example : covered ⟨[.span 10 20 false, .span 15 25 true, .lost 3, .span 80 90 false], 100⟩
    = .ok ⟨[.span 10 25 false, .span 80 90 false], 100⟩ := by decide

/-- `gaps()` stays inside its parent, which is the map's own coordinate system `[0, len m]` -/
theorem coords_within_parent_gaps (m g : FM) (h : gaps m = .ok g) :
    Within g ∧ g.parentLength = len m :=
  gaps_within m g h

example : gaps ⟨[.span 2 5 false, .lost 4, .span 7 9 true, .lost 1], 10⟩
    = .ok ⟨[.span 3 7 false, .span 9 10 false], 10⟩ := by decide

/-- `nucleic_reversed()` of a map inside its parent stays inside the parent -/
theorem coords_within_parent_reversed (m r : FM) (hw : Within m) (h : nucleicReversed m = .ok r) :
    Within r ∧ r.parentLength = m.parentLength :=
  nucleicReversed_within m r hw h

example : Within ⟨[.span 2 5 false, .lost 4, .span 7 9 true], 10⟩ ∧
    nucleicReversed ⟨[.span 2 5 false, .lost 4, .span 7 9 true], 10⟩
      = .ok ⟨[.span 1 3 false, .lost 4, .span 5 8 false], 10⟩ := by decide

/-- `nucleic_reversed()` never fails on a map inside its parent -/
theorem reversed_total (m : FM) (hw : Within m) : ∃ r, nucleicReversed m = .ok r :=
  ⟨_, nucleicReversed_total m hw⟩

example : Within ⟨[.span 2 5 false, .lost 4, .span 7 9 true], 10⟩ := by decide

/-! ## 2. `nucleic_reversed` -/

/-- reversal: the reversed map reads the parent's mirror image back to front -/
theorem reversed_spec (m r : FM) (hw : Within m) (hf : Fwd m) (h : nucleicReversed m = .ok r) :
    cover r = (cover m).reverse.map (Option.map (fun p => m.parentLength - 1 - p)) ∧ len r = len m := by
  unfold nucleicReversed at h
  split at h
  · cases h
  · rename_i sp hs
    injection h with h; subst h
    have := go_rev_spec m m.spans sp hw hf hs
    exact ⟨this.1, by simpa [len_eq_lenL] using this.2⟩

example : Within ⟨[.span 2 5 false, .lost 4, .span 7 9 false], 10⟩ ∧ Fwd ⟨[.span 2 5 false, .lost 4, .span 7 9 false], 10⟩ ∧
    (nucleicReversed ⟨[.span 2 5 false, .lost 4, .span 7 9 false], 10⟩).toOption.map cover
      = some [some 1, some 2, none, none, none, none, some 5, some 6, some 7] := by decide

/-- on forward maps inside their parent, reversing twice gives the map back -/
theorem reversed_involutive (m r : FM) (hw : Within m) (hf : Fwd m) (h : nucleicReversed m = .ok r) :
    nucleicReversed r = .ok m :=
  nucleicReversed_involutive' m r hw hf h

example : nucleicReversed ⟨[.span 2 5 false, .lost 4, .span 7 9 false], 10⟩ = .ok ⟨[.span 1 3 false, .lost 4, .span 5 8 false], 10⟩ ∧
    nucleicReversed ⟨[.span 1 3 false, .lost 4, .span 5 8 false], 10⟩ = .ok ⟨[.span 2 5 false, .lost 4, .span 7 9 false], 10⟩ := by decide

/-- a reversed span is NOT mirrored correctly: `nucleic_reversed` "discards the reverse attribute"
    (documented in the docstring), so `reversed_spec` genuinely needs `Fwd m`. -/
theorem reversed_spec_needs_fwd :
    ∃ m r, Within m ∧ nucleicReversed m = .ok r ∧
      cover r ≠ (cover m).reverse.map (Option.map (fun p => m.parentLength - 1 - p)) :=
  ⟨⟨[.span 2 5 true], 10⟩, ⟨[.span 5 8 false], 10⟩, by decide, by decide, by decide⟩

end CogentModel.C08
