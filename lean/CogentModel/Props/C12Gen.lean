import CogentModel.Gen.C12Code
import CogentModel.Proofs.GeneticCodeGen
import CogentModel.Props.C12
/-!
# C12 — tie by TRANSLATION: the generated definitions equal the hand model, for all arguments

`Gen/C12Code.lean` is re-translated from the CURRENT source of `core/genetic_code.py`, `core/new_genetic_code.py`,
`core/new_sequence.py` and `core/sequence.py` on every run (`translator/c12_code2lean.py`).  Each theorem below states
that one translated function is, for ALL arguments, the hand model (`Model/GeneticCode.lean`) the property theorems of
`Props/C12.lean` are about — so a semantic edit of any of these functions breaks an obligation here (the proofs are
in this file, so the broken obligation is named).  `mkOldGC seq starts` / `mkNewGCO mt seq` are the genetic-code
objects for an ARBITRARY 64-character table `seq` (not only the 27 NCBI tables); starts are `Nat`s cast to `Int`
in the first theorems; `gen_new_translate_int` lifts that for the new `translate` (EVERY integer start); the old
`translate` with a negative start walks `range(start, …)` through negative slice bounds — executed by the correspondence only).
The last section composes: translated source → hand model → specification.
-/
namespace CogentModel.C12Gen
open CogentModel.GC CogentModel.GCP CogentModel.Gen.C12Code CogentModel.C12Tables

/-! ## `core/genetic_code.py` -/

/-- translated `GeneticCode.__getitem__` (old), EVERY item: three characters → the hand model's look-up (upper case,
`U → T`, `'X'` when unknown), one character → the synonyms entry, any other length → InvalidCodonError. -/
theorem gen_old_getitem (seq st item : List Char) :
    old_getitem (mkOldGC seq st) item =
      if item.length = 1 then .ok (.strs (lookupD (mkOldGC seq st).synonyms item []))
      else if item.length = 3 then .ok (.str [oldGetItem seq item]) else .error .invalidCodon := by
  unfold old_getitem
  simp only [pyLen_eq1, pyLen_eq3, key_eq, dictGetD]
  split
  · rfl
  · split
    · simp only [mkOldGC, lookupD_dictOfZip]
      rw [show ['X'] = (fun c : Char => [c]) 'X' from rfl, dictGet_zip_map]; rfl
    · rfl

example : old_getitem (mkOldGC (NCBI.tableOf []) []) ['a', 'u', 'g'] = .ok (.str ['M']) := by decide

/-- the comprehension `[self[dna[i:i+3]] for i in range(k, …, 3)]` of the translated old `translate` visits exactly the
successive complete codons of `dna[k:]` (induction over the number of range steps). -/
theorem old_chunks_range (seq st dna : List Char) : ∀ (n k : Nat), 3 * n ≤ dna.length - k → dna.length - k < 3 * n + 3 →
    k ≤ dna.length →
    (pyRangeAux n (k : Int) 3).mapM (fun i => old_getitem (mkOldGC seq st) (pySlice dna (some i) (some (i + (3 : Int))))) =
      .ok ((oldCodons seq (dna.drop k)).map fun c => Item.str [c]) := by
  intro n
  induction n with
  | zero =>
    intro k _ h2 _
    rw [oldCodons_short seq _ (by simp; omega)]
    rfl
  | succ n ih =>
    intro k h1 h2 h3
    obtain ⟨a, b, c, hd⟩ := drop_cons3 dna k (by omega)
    have hs : pySlice dna (some (k : Int)) (some ((k : Int) + 3)) = [a, b, c] := by
      rw [show ((k : Int) + 3) = ((k + 3 : Nat) : Int) by omega, pySlice_nn, List.drop_take, hd]
      simp
    have ih' := ih (k + 3) (by omega) (by omega) (by omega)
    rw [show (((k + 3 : Nat) : Int)) = (k : Int) + 3 by omega] at ih'
    simp only [pyRangeAux, List.mapM_cons, ih', hs]
    simp only [gen_old_getitem, hd, oldCodons]
    simp [bind, Except.bind, pure, Except.pure]

example : (3 * 2 ≤ 8 - 1) ∧ (8 - 1 < 3 * 2 + 3) := by decide

/-- translated `GeneticCode.translate` (old) = the hand model for every text and every start ≥ 0 (empty text → `""`,
start beyond the end → ValueError, otherwise the comprehension over `range(start, len(dna) - 2, 3)`). -/
theorem gen_old_translate (seq st dna : List Char) (start : Nat) :
    old_translate (mkOldGC seq st) dna (start : Int) = liftE (oldTranslate seq dna start) := by
  unfold old_translate oldTranslate
  cases dna with
  | nil => simp [liftE]
  | cons x xs =>
    simp only [ne_eq, reduceCtorEq, not_false_eq_true, not_true_eq_false, if_false, List.isEmpty_cons, Bool.false_eq_true]
    by_cases h : start + 1 > (x :: xs).length
    · have : ((start : Int) + 1 > pyLen (x :: xs)) := by unfold pyLen; omega
      rw [if_pos this, if_pos h]; rfl
    · have : ¬ ((start : Int) + 1 > pyLen (x :: xs)) := by unfold pyLen; omega
      rw [if_neg this, if_neg h]
      have hn : pyRange (start : Int) (pyLen (x :: xs) - 2) 3 =
          pyRangeAux (((x :: xs).length - start) / 3) (start : Int) 3 := by
        unfold pyRange pyLen
        rw [if_pos (by omega)]
        congr 1
        omega
      rw [hn, old_chunks_range seq st (x :: xs) _ start (Nat.mul_div_le _ 3) (by omega) (by omega)]
      simp only [Except.bind, pyJoinItems_singletons]
      rfl

example : old_translate (mkOldGC (NCBI.tableOf []) []) ['A', 'A', 'T', 'G', 'T', 'A', 'A', 'C'] 1 = .ok ['M', '*'] := by decide

/-- translated `GeneticCode.sixframes` (old) = the hand model (three frames of the sequence, three of `dna.rc()`). -/
theorem gen_old_sixframes (seq st dna : List Char) :
    old_sixframes (mkOldGC seq st) dna = liftE (oldSixframes oldDna seq dna) := by
  have h : ∀ d, [(0:Int), 1, 2].mapM (fun start => old_translate (mkOldGC seq st) d start) =
      liftE ([0, 1, 2].mapM (oldTranslate seq d)) := by
    intro d
    have h0 := gen_old_translate seq st d 0
    have h1 := gen_old_translate seq st d 1
    have h2 := gen_old_translate seq st d 2
    have e2 : ((2 : Nat) : Int) = 2 := rfl
    simp only [Int.natCast_zero, Int.natCast_one, e2] at h0 h1 h2
    rw [← mapM_liftE]
    simp only [List.mapM_cons, List.mapM_nil, h0, h1, h2]
  unfold old_sixframes oldSixframes
  simp only [pyRange3, h, oldSeqRc, liftE_bind]
  rfl

example : old_sixframes (mkOldGC (NCBI.tableOf []) []) ['A', 'T', 'G'] = .ok [['M'], [], [], ['H'], [], []] := by decide

/-- translated `GeneticCode.is_stop` (old) = `gc[codon] == "*"`: the hand model's `isStopEnd`, every item. -/
theorem gen_old_is_stop (seq st codon : List Char) :
    old_is_stop (mkOldGC seq st) codon = liftE (isStopEnd (oldGetItem seq) codon) := by
  unfold old_is_stop isStopEnd
  rw [gen_old_getitem]
  by_cases h1 : codon.length = 1
  · simp [h1, Except.bind, Item.eqStr, liftE]
  · by_cases h3 : codon.length = 3
    · simp [h1, h3, Except.bind, Item.eqStr, liftE]
    · simp [h1, h3, Except.bind, liftE, liftErr]

example : old_is_stop (mkOldGC (NCBI.tableOf []) []) ['u', 'g', 'a'] = .ok true := by decide

/-- translated `GeneticCode.is_start` (old): the normalised codon (upper case, `U → T`) is a key of `start_codons`. -/
theorem gen_old_is_start (seq st codon : List Char) :
    old_is_start (mkOldGC seq st) codon = .ok (dictHas (mkOldGC seq st).start_codons (oldKey codon)) := by
  simp [old_is_start, key_eq]

example : old_is_start (mkOldGC (NCBI.tableOf []) (NCBI.startsOf ["ATG"])) ['a', 'u', 'g'] = .ok true := by decide

/-- translated `_simple_rc` is the specification's reverse complement on EVERY string. -/
theorem gen_old_simple_rc (s : List Char) : old_simple_rc s = .ok (GCSpec.rc s) := by
  unfold old_simple_rc GCSpec.rc pyRev pyTranslate
  congr 2
  apply List.map_congr_left
  intro c _
  simp only [dictGet, List.zip, List.zipWith, List.reverse_cons, List.reverse_nil, List.nil_append, List.cons_append, lookupD, GCSpec.wc]
  by_cases hG : 'G' = c
  · subst hG; decide
  · by_cases hA : 'A' = c
    · subst hA; decide
    · by_cases hC : 'C' = c
      · subst hC; decide
      · by_cases hT : 'T' = c
        · subst hT; decide
        · simp [hG, hA, hC, hT, Ne.symm hG, Ne.symm hA, Ne.symm hC, Ne.symm hT, eq_comm]

example : old_simple_rc ['A', 'A', 'C', 'G', 'N'] = .ok ['N', 'C', 'G', 'T', 'T'] := by decide

/-! ## `core/new_genetic_code.py` -/

/-- translated `GeneticCode.__getitem__` (new), EVERY item. -/
theorem gen_new_getitem (mt : MT) (seq item : List Char) :
    new_getitem (mkNewGCO mt seq) item =
      if item.length = 1 then .ok (.strs (lookupD (mkNewGCO mt seq).aa_to_codon item []))
      else if item.length = 3 then .ok (.str [newGetItem mt seq item]) else .error .invalidCodon := by
  unfold new_getitem
  simp only [pyLen_eq1, pyLen_ne3, key_eq, dictGetD]
  split
  · rfl
  · split
    · rename_i h; simp [h]
    · rename_i h; have h' : item.length = 3 := by omega
      simp only [h', if_true, mkNewGCO, lookupD_dictOfZip, newGetItem]
      rw [show ['X'] = (fun c : Char => [c]) 'X' from rfl, dictGet_zip_map]

example : new_getitem (mkNewGCO newDna (NCBI.tableOf [])) ['T', 'A', 'A'] = .ok (.str ['*']) := by decide +kernel

/-- translated `GeneticCode.is_stop` (new), every item. -/
theorem gen_new_is_stop (mt : MT) (seq codon : List Char) :
    new_is_stop (mkNewGCO mt seq) codon = liftE (isStopEnd (newGetItem mt seq) codon) := by
  unfold new_is_stop isStopEnd
  rw [gen_new_getitem]
  by_cases h1 : codon.length = 1
  · simp [h1, Except.bind, Item.eqStr, liftE]
  · by_cases h3 : codon.length = 3
    · simp [h1, h3, Except.bind, Item.eqStr, liftE]
    · simp [h1, h3, Except.bind, liftE, liftErr]

/-- translated `GeneticCode.translate` (new) = the hand model for EVERY input (a `str`, or the index array of a
sequence over any alphabet), every start ≥ 0 and both strands: slice from `start`, cut to a multiple of three,
k-mer indices, bytes, byte-translate, reverse for `rc` — in this order (which is why the minus-strand frame is wrong). -/
theorem gen_new_translate (mt : MT) (seq : List Char) (d : Dna) (start : Nat) (rc : Bool) :
    new_translate (mkNewGCO mt seq) d (start : Int) rc =
      .ok ((mkNewGC mt seq).translateWith (d.alpha.getD (mkNewGC mt seq).alpha) d.chars start rc) := by
  unfold new_translate NewGC.translateWith NewGC.translateIdx
  simp only [Dna.slice, Dna.len, pySlice_n_, fmod3]
  have e1 : ((start : Int) ≠ 0) ↔ start ≠ 0 := by omega
  simp only [e1]
  generalize hd1 : (if start ≠ 0 then List.drop start d.chars else d.chars) = d1
  have hd1' : (if start ≠ 0 then ({ chars := List.drop start d.chars, alpha := d.alpha } : Dna) else d) = ⟨d1, d.alpha⟩ := by
    subst hd1; split <;> rfl
  rw [hd1']
  simp only []
  have e2 : (((d1.length % 3 : Nat) : Int) ≠ 0) ↔ d1.length % 3 ≠ 0 := by omega
  simp only [e2]
  have hd2 : (if d1.length % 3 ≠ 0 then ({ chars := pySlice d1 none (some (-((d1.length % 3 : Nat) : Int))), alpha := d.alpha } : Dna) else ⟨d1, d.alpha⟩) = ⟨trunc3 d1, d.alpha⟩ := by
    unfold trunc3
    split
    · rename_i h; rw [pySlice__neg _ _ (by omega)]
    · rfl
  rw [hd2]
  simp only [NewGCO.toIndices, Idx.tobytes, NewGCO.translatePlus, NewGCO.translateMinus, pyRev, mkNewGCO]
  cases d.alpha <;> cases rc <;> simp

example : new_translate (mkNewGCO newDna (NCBI.tableOf [])) (Dna.ofStr ['A', 'T', 'G', 'A', 'A', 'A', 'T', 'A']) 0 true =
    .ok ['F', 'H'] := by decide +kernel

/-- … in particular on a `str` it is `newTranslate`, the function of `translate_plus_spec` / `translate_minus_actual`. -/
theorem gen_new_translate_str (mt : MT) (seq dna : List Char) (start : Nat) (rc : Bool) :
    new_translate (mkNewGCO mt seq) (Dna.ofStr dna) (start : Int) rc = .ok (newTranslate mt seq dna start rc) :=
  gen_new_translate mt seq (Dna.ofStr dna) start rc

example : newTranslate newDna (NCBI.tableOf []) ['A', 'T', 'G', 'T', 'A', 'A'] 0 false = ['M', '*'] := by decide +kernel

/-- The `Nat`-start restriction lifted: for EVERY integer `start` (negative ones count from the end and are clamped, as
Python slices do) the translated new `translate` first takes `dna[start:]` — `start = 0` included, where the code skips
the slice — and then translates that from frame 0. -/
theorem new_translate_shift (g : NewGCO) (d : Dna) (start : Int) (rc : Bool) :
    new_translate g d start rc = new_translate g (Dna.slice d (some start) none) 0 rc := by
  unfold new_translate
  have h : (if start ≠ 0 then Dna.slice d (some start) none else d) = Dna.slice d (some start) none := by
    split
    · rfl
    · rename_i h
      have h0 : start = ((0 : Nat) : Int) := by omega
      rw [h0]
      simp only [Dna.slice, pySlice_n_, List.drop_zero]
  rw [h]
  simp

example : new_translate (mkNewGCO newDna (NCBI.tableOf [])) (Dna.ofStr ['C', 'C', 'A', 'T', 'G', 'A']) (-4) false = .ok ['M'] := by
  decide +kernel

/-- translated new `translate` = the hand model for EVERY integer start (negative, zero, beyond the end), both strands,
`str` or index array: the hand model applied to the Python slice `dna[start:]`. -/
theorem gen_new_translate_int (mt : MT) (seq : List Char) (d : Dna) (start : Int) (rc : Bool) :
    new_translate (mkNewGCO mt seq) d start rc =
      .ok ((mkNewGC mt seq).translateWith (d.alpha.getD (mkNewGC mt seq).alpha) (pySlice d.chars (some start) none) 0 rc) := by
  rw [new_translate_shift]
  exact gen_new_translate mt seq (Dna.slice d (some start) none) 0 rc

example : pySlice ['C', 'C', 'A', 'T', 'G', 'A'] (some (-4 : Int)) none = ['A', 'T', 'G', 'A'] := by decide

/-- … so a NEGATIVE start `-k` translates the last `k` characters (the whole text when `k` exceeds its length). -/
theorem gen_new_translate_neg_str (mt : MT) (seq dna : List Char) (k : Nat) (hk : 0 < k) (rc : Bool) :
    new_translate (mkNewGCO mt seq) (Dna.ofStr dna) (-(k : Int)) rc = .ok (newTranslate mt seq (dna.drop (dna.length - k)) 0 rc) := by
  rw [gen_new_translate_int]
  simp only [Dna.ofStr, pySlice_neg_ _ _ hk]
  rfl

example : (0 : Nat) < 4 := by decide

/-- translated `GeneticCode.sixframes` (new; a generator over `itertools.product(("+", "-"), range(3))`) = the hand
model (strand sign as "+" / "-"). -/
theorem gen_new_sixframes (mt : MT) (seq dna : List Char) :
    new_sixframes (mkNewGCO mt seq) (Dna.ofStr dna) =
      .ok ((newSixframes mt seq dna).map fun x => ((if x.1 then ['-'] else ['+']), (x.2.1 : Int), x.2.2)) := by
  have h0 := fun rc => gen_new_translate mt seq (Dna.ofStr dna) 0 rc
  have h1 := fun rc => gen_new_translate mt seq (Dna.ofStr dna) 1 rc
  have h2 := fun rc => gen_new_translate mt seq (Dna.ofStr dna) 2 rc
  have e2 : ((2 : Nat) : Int) = 2 := rfl
  simp only [Int.natCast_zero, Int.natCast_one, e2] at h0 h1 h2
  unfold new_sixframes newSixframes newTranslate
  simp only [pyRange3, pyProduct, List.flatMap_cons, List.flatMap_nil, List.map_cons, List.map_nil, List.append_nil,
    List.cons_append, List.nil_append, List.mapM_cons, List.mapM_nil, h0, h1, h2]
  simp [Except.bind, bind, pure, Except.pure, Dna.ofStr]

/-! ## stop handling of sequences: `core/new_sequence.py`, `core/sequence.py` -/

/-- translated `has_terminal_stop` (new `Sequence`) = the hand model applied to the ungapped string, for EVERY sequence
(gapped or not), both values of `strict`. -/
theorem gen_new_seq_has_terminal_stop (mt : MT) (seq : List Char) (q : NSeq) (strict : Bool) :
    new_seq_has_terminal_stop q (mkNewGCO mt seq) strict =
      liftE (hasTerminalStop (newGetItem mt seq) (q.chars.filter fun c => c ≠ q.gap) strict) := by
  unfold new_seq_has_terminal_stop hasTerminalStop
  simp only [NSeq.len, NSeq.ungapped, NSeq.slice, NSeq.str, pySlice_m3, fmod3_zero, decide_eq_true_eq, gen_new_is_stop, lastN]
  split
  · rfl
  · cases strict <;> rfl

example : new_seq_has_terminal_stop (newSeqOf newDna ['A', 'T', 'G', '-', '-', 'T', 'A', '-', 'A']) (mkNewGCO newDna (NCBI.tableOf [])) false
    = .ok true := by decide +kernel

/-- translated `has_terminal_stop` (old `Sequence`), likewise. -/
theorem gen_old_seq_has_terminal_stop (seq st : List Char) (q : NSeq) (strict : Bool) :
    old_seq_has_terminal_stop q (mkOldGC seq st) strict =
      liftE (hasTerminalStop (oldGetItem seq) (q.chars.filter fun c => c ≠ q.gap) strict) := by
  unfold old_seq_has_terminal_stop hasTerminalStop
  simp only [NSeq.len, NSeq.ungapped, NSeq.slice, NSeq.str, pySlice_m3, fmod3_zero, decide_eq_true_eq, gen_old_is_stop, lastN]
  split
  · rfl
  · cases strict <;> rfl

/-- translated `trim_stop_codon` (new `Sequence`) on a sequence without gap characters = the hand model (`self[:-3]` when
the last codon is a stop, unchanged otherwise, AlphabetError for a strict length violation).
PARTIAL: the regular-expression branch (sequences containing gaps) is translated and executed by the correspondence,
not proved. -/
theorem gen_new_seq_trim_stop_codon_partial (mt : MT) (seq : List Char) (q : NSeq) (hq : GapFree q) (strict : Bool) :
    new_seq_trim_stop_codon q (mkNewGCO mt seq) strict =
      liftE ((trimStopCodon (newGetItem mt seq) q.chars strict).map fun t => NSeq.withStr q t) := by
  unfold new_seq_trim_stop_codon trimStopCodon
  rw [gen_new_seq_has_terminal_stop, filter_nogap _ _ hq]
  have hm : NSeq.numGaps q = 0 := by unfold NSeq.numGaps; rw [gapRuns_none _ _ hq]; rfl
  simp only [hm, NSeq.len, NSeq.ungapped, NSeq.slice, NSeq.str, pySlice_m3, pySlice__m3, fmod3_zero, decide_eq_true_eq,
    gen_new_is_stop, filter_nogap _ _ hq]
  unfold hasTerminalStop
  by_cases h3 : q.chars.length % 3 = 0
  · simp only [h3, if_true, lastN]
    cases h : isStopEnd (newGetItem mt seq) (List.drop (q.chars.length - 3) q.chars) with
    | error e => rfl
    | ok b => cases b <;> simp [liftE, Except.bind, bind, Except.map, pure, Except.pure, NSeq.withStr]
  · simp only [h3, if_false]
    cases strict <;> simp [liftE, Except.bind, bind, Except.map, pure, Except.pure, NSeq.withStr]

example : GapFree (newSeqOf newDna ['A', 'T', 'G', 'T', 'A', 'A']) := by unfold GapFree; decide

/-- translated `trim_stop_codon` (old `Sequence`), likewise. -/
theorem gen_old_seq_trim_stop_codon_partial (seq st : List Char) (q : NSeq) (hq : GapFree q) (strict : Bool) :
    old_seq_trim_stop_codon q (mkOldGC seq st) strict =
      liftE ((trimStopCodon (oldGetItem seq) q.chars strict).map fun t => NSeq.withStr q t) := by
  unfold old_seq_trim_stop_codon trimStopCodon
  rw [gen_old_seq_has_terminal_stop, filter_nogap _ _ hq]
  have hm : NSeq.numGaps q = 0 := by unfold NSeq.numGaps; rw [gapRuns_none _ _ hq]; rfl
  simp only [hm, NSeq.len, NSeq.ungapped, NSeq.slice, NSeq.str, pySlice_m3, pySlice__m3, fmod3_zero, decide_eq_true_eq,
    gen_old_is_stop, filter_nogap _ _ hq]
  unfold hasTerminalStop
  by_cases h3 : q.chars.length % 3 = 0
  · simp only [h3, if_true, lastN]
    cases h : isStopEnd (oldGetItem seq) (List.drop (q.chars.length - 3) q.chars) with
    | error e => rfl
    | ok b => cases b <;> simp [liftE, Except.bind, bind, Except.map, pure, Except.pure, NSeq.withStr]
  · simp only [h3, if_false]
    cases strict <;> simp [liftE, Except.bind, bind, Except.map, pure, Except.pure, NSeq.withStr]

/-- translated `Sequence.get_translation` (new) on a sequence without gap characters = the hand model, all eight
combinations of `incomplete_ok`, `include_stop`, `trim_stop`. -/
theorem gen_new_seq_get_translation_partial (mt : MT) (seq s : List Char) (hs : mt.gap ∉ s) (io is_ ts : Bool) :
    new_seq_get_translation (newSeqOf mt s) (mkNewGCO mt seq) io is_ ts =
      liftE (newSeqGetTranslation mt seq s io is_ ts) := by
  have hq : GapFree (newSeqOf mt s) := hs
  unfold new_seq_get_translation newSeqGetTranslation
  have hz : ((0 : Nat) : Int) = 0 := rfl
  have ht := fun q => gen_new_translate mt seq (NSeq.array q) 0 false
  simp only [hz] at ht
  simp only [gen_new_seq_trim_stop_codon_partial mt seq _ hq, ht]
  cases ts
  · cases io <;> cases is_ <;>
      simp [liftE, Except.bind, bind, pure, Except.pure, newSeqOf, NSeq.array, throw, throwThe, MonadExceptOf.throw] <;>
      (repeat' split) <;> simp_all [liftE, liftErr] <;> (try subst_vars) <;> (try rfl)
  · simp only [if_true, decide_not, newSeqOf]
    cases h : trimStopCodon (newGetItem mt seq) s (!io) with
    | error e => cases io <;> simp_all [liftE, Except.bind, bind, Except.map]
    | ok s1 =>
      cases io <;> cases is_ <;>
      simp_all [liftE, Except.bind, bind, Except.map, pure, Except.pure, NSeq.array, NSeq.withStr, throw, throwThe, MonadExceptOf.throw] <;>
      (repeat' split) <;> simp_all [liftE, liftErr] <;> (try subst_vars) <;> (try rfl)

example : newDna.gap ∉ ['A', 'T', 'G', 'T', 'A', 'A'] := by decide

/- FULL STATEMENT (not proved): `gen_*_trim_stop_codon` / `gen_new_seq_get_translation` without the gap-free
   hypothesis: the hand model `trimStopCodon` has no counterpart of the regular-expression branch (it is executed
   against the real functions on gapped DNA / RNA sequences every run instead). -/


/-! ## `core/sequence.py` old `Sequence.get_translation` (loops, try / except, `continue`, the RNA recursion) -/

/-- the lifted body of the inner loop (`for codon in resolved`) does not depend on the outer loop's variables it is given -/
theorem for1_params (self : NSeq) (gc : OldGC) (io is_ ts : Bool) (p : PM) (ca : List (List Char)) (m : NSeq)
    (tr : List (List Char)) (sq : List Char) (posn : Int) (oc : List Char) (res : List (List Char)) :
    old_seq_get_translation_for1 self gc io is_ ts p ca m tr sq posn oc res =
      old_seq_get_translation_for1 self gc io is_ false p ca m [] [] 0 [] [] := by
  funext trans codon
  rfl

example : old_seq_get_translation_for1 (oldSeqOf oldDna []) (mkOldGC (NCBI.tableOf []) []) false false true (protMoltype []) [] (oldSeqOf oldDna [])
    [] [] 0 [] [] [['K']] ['-', '-', '-'] = .ok [['K'], ['-']] := by decide

/-- the lifted body of the outer loop (`for posn in range(0, len(seq) - 2, 3)`) looks at the text only through the codon
`seq[posn : posn + 3]` and only APPENDS to `translation`: it is itself run on the codon alone, appended to the state -/
theorem for2_acc (self : NSeq) (gc : OldGC) (io is_ ts : Bool) (p : PM) (ca : List (List Char)) (m : NSeq)
    (sq : List Char) (tr : List (List Char)) (posn : Int) (cod : List Char)
    (hc : pySlice sq (some posn) (some (posn + 3)) = cod) (h3 : cod.length = 3) :
    old_seq_get_translation_for2 self gc io is_ ts p ca m sq tr posn =
      (old_seq_get_translation_for2 self gc io is_ false p ca m cod [] 0).map (fun t => tr ++ t) := by
  have h0 : pySlice cod (some (0 : Int)) (some ((0 : Int) + 3)) = cod := by
    have := pySlice_nn cod 0 3
    simp only [Int.natCast_zero] at this
    rw [show ((0 : Int) + 3) = ((3 : Nat) : Int) from rfl, this]
    simp [List.take_of_length_le (Nat.le_of_eq h3)]
  unfold old_seq_get_translation_for2
  simp only [hc, h0, for1_params self gc io is_ ts p ca m tr sq posn, for1_params self gc io is_ false p ca m [] cod 0]
  cases pyTry (NSeq.resolveAmbiguity m cod ca) PyErr.alphabetError
      (if (¬ (io = true)) ∨ (¬ ('-' ∈ cod)) then .error PyErr.alphabetError else .ok [cod]) with
  | error e => rfl
  | ok resolved =>
    simp only [Except.bind]
    cases resolved.foldlM (old_seq_get_translation_for1 self gc io is_ false p ca m [] [] 0 [] []) [] with
    | error e => rfl
    | ok trans =>
      simp only []
      split <;> simp [Except.map]

example : pySlice ['A', 'A', 'T', 'G', 'C'] (some (1 : Int)) (some ((1 : Int) + 3)) = ['A', 'T', 'G'] := by decide

/-- the protein moltype old `get_translation` asks for -/
def protOf (is_ : Bool) : PM :=
  protMoltype (if (is_ = true) then ['p', 'r', 'o', 't', 'e', 'i', 'n', '_', 'w', 'i', 't', 'h', '_', 's', 't', 'o', 'p'] else ['p', 'r', 'o', 't', 'e', 'i', 'n'])

/-- what the TRANSLATED loop body does with ONE codon (`resolve_ambiguity` with the code's codon alphabet, the inner loop
over the resolved codons, `what_ambiguity` of the protein moltype): the body itself, run on the codon alone -/
def oldCodonStep (q : NSeq) (g : OldGC) (io is_ : Bool) (cod : List Char) : Except PyErr (List (List Char)) :=
  old_seq_get_translation_for2 q g io is_ false (protOf is_) (OldGC.codonAlphabet g is_) q cod [] 0

def oldCodonFold (q : NSeq) (g : OldGC) (io is_ : Bool) (acc : List (List Char)) (cod : List Char) : Except PyErr (List (List Char)) :=
  (oldCodonStep q g io is_ cod).map fun t => acc ++ t

/-- the outer loop of the translated old `get_translation` visits exactly the successive complete codons of the text
(induction over the number of `range` steps), threading the accumulated translation — for EVERY text (gapped, ambiguous,
any length) and every option -/
theorem old_tr_loop (q : NSeq) (g : OldGC) (io is_ ts : Bool) (str : List Char) : ∀ (n k : Nat) (acc : List (List Char)),
    3 * n ≤ str.length - k → str.length - k < 3 * n + 3 → k ≤ str.length →
    (pyRangeAux n (k : Int) 3).foldlM
        (old_seq_get_translation_for2 q g io is_ ts (protOf is_) (OldGC.codonAlphabet g is_) q str) acc =
      (chunks3 (str.drop k)).foldlM (oldCodonFold q g io is_) acc := by
  intro n
  induction n with
  | zero =>
    intro k acc _ h2 _
    rw [chunks3_short _ (by simp; omega)]
    rfl
  | succ n ih =>
    intro k acc h1 h2 h3
    obtain ⟨a, b, c, hd⟩ := drop_cons3 str k (by omega)
    have hs : pySlice str (some (k : Int)) (some ((k : Int) + 3)) = [a, b, c] := by
      rw [show ((k : Int) + 3) = ((k + 3 : Nat) : Int) by omega, pySlice_nn, List.drop_take, hd]
      simp
    have ih' := fun acc => ih (k + 3) acc (by omega) (by omega) (by omega)
    rw [show (((k + 3 : Nat) : Int)) = (k : Int) + 3 by omega] at ih'
    have hd' : str.drop (k + 3) = (str.drop k).drop 3 := by rw [List.drop_drop]
    simp only [pyRangeAux, List.foldlM_cons, hd, chunks3, for2_acc q g io is_ ts _ _ q str acc k [a, b, c] hs rfl]
    simp only [oldCodonFold, oldCodonStep]
    cases (old_seq_get_translation_for2 q g io is_ false (protOf is_) (OldGC.codonAlphabet g is_) q [a, b, c] [] 0) with
    | error e => rfl
    | ok t =>
      simp only [Except.map, bind, Except.bind]
      rw [ih', hd', hd]

example : chunks3 ['A', 'T', 'G', '-', '-', 'A', 'C'] = [['A', 'T', 'G'], ['-', '-', 'A']] := by decide

/-- NORMAL FORM of the translated old `Sequence.get_translation`, for EVERY sequence (gapped, ambiguous, RNA, any length),
every genetic-code object and all eight option combinations: an RNA sequence is converted with `to_dna()` and translated
again (the recursion; `fuel` = remaining depth); otherwise the text is the sequence itself when `include_stop or not
trim_stop` (this is where `include_stop` overrides `trim_stop`: known finding) and `trim_stop_codon(gc, strict=not
incomplete_ok)` else; its successive complete codons go through the codon step one by one, left to right, the first
failure aborts, and the amino acids are joined. -/
theorem gen_old_seq_get_translation_structure (q : NSeq) (g : OldGC) (io is_ ts : Bool) (fuel : Nat) :
    old_seq_get_translation_fuel (fuel + 1) q g io is_ ts =
      if NSeq.label q = ['r', 'n', 'a'] then old_seq_get_translation_fuel fuel (NSeq.toDna q) g io is_ ts
      else
        Except.bind (if is_ = true ∨ ¬ ts = true then .ok q.chars
                     else (old_seq_trim_stop_codon q g (decide (¬ io = true))).map NSeq.str) fun str =>
        Except.bind ((chunks3 str).foldlM (oldCodonFold q g io is_) []) fun tr => .ok (pyJoin [] tr) := by
  conv => lhs; unfold old_seq_get_translation_fuel
  simp only []
  split
  · rfl
  · simp only [pyRange_codons]
    have hl := fun str => old_tr_loop q g io is_ ts str (str.length / 3) 0 [] (by omega) (by omega) (by omega)
    simp only [List.drop_zero] at hl
    split
    · simp only [NSeq.str, Except.bind]
      rw [← hl q.chars]
      rfl
    · cases old_seq_trim_stop_codon q g (decide (¬ io = true)) with
      | error e => rfl
      | ok t =>
        simp only [NSeq.str, Except.bind, Except.map]
        rw [← hl t.chars]
        rfl

example : old_seq_get_translation (oldSeqOf oldDna ['A', 'T', 'G', 'R', 'A', 'T', 'T', 'A', 'A']) (mkOldGC (NCBI.tableOf []) []) false false true
    = .ok ['M', 'B'] := by decide +kernel

/-- `to_dna()` leaves a DNA sequence: the RNA recursion of old `get_translation` is exactly one level deep, so the
two-level fuel of the translation never runs out. -/
theorem old_get_translation_recursion_depth (q : NSeq) (g : OldGC) (io is_ ts : Bool) :
    NSeq.label (NSeq.toDna q) ≠ ['r', 'n', 'a'] ∧
    (NSeq.label q = ['r', 'n', 'a'] →
      old_seq_get_translation q g io is_ ts = old_seq_get_translation_fuel 1 (NSeq.toDna q) g io is_ ts) := by
  constructor
  · have hU : 'U' ∉ (NSeq.toDna q).mtChars := by
      simp only [NSeq.toDna, List.mem_map, not_exists, not_and]
      intro c _
      split
      · decide
      · split
        · decide
        · rename_i h _; exact h
    simp [NSeq.label, hU]
  · intro h
    unfold old_seq_get_translation
    rw [gen_old_seq_get_translation_structure, if_pos h]

example : old_seq_get_translation (oldSeqOf oldRna ['A', 'U', 'G', 'U', 'A', 'A']) (mkOldGC (NCBI.tableOf []) []) false false true
    = .ok ['M'] := by decide +kernel

/-! ## composition: translated source → hand model → specification -/

/-- The TRANSLATED new `translate` is the table mapped over the successive codons, for every NCBI code, every canonical
sequence of any length and every start offset (plus strand); and the TRANSLATED old `translate` likewise. -/
theorem translated_translate_spec (code : Nat × List Char × List Char) (s : List Char) (start : Nat) (hs : Canon s) :
    (code ∈ newCodes →
      new_translate (mkNewGCO newDna code.2.1) (Dna.ofStr s) (start : Int) false = .ok (GCSpec.translate code.2.1 (s.drop start))) ∧
    (code ∈ oldCodes → start < s.length →
      old_translate (mkOldGC code.2.1 code.2.2) s (start : Int) = .ok (GCSpec.translate code.2.1 (s.drop start))) := by
  refine ⟨fun hc => ?_, fun hc hlt => ?_⟩
  · rw [gen_new_translate_str, C12.translate_plus_spec code hc s start hs]
  · rw [gen_old_translate, C12.old_translate_spec code hc s start hs hlt]; rfl

example : Canon ['A', 'T', 'G', 'A', 'A', 'A', 'T', 'A'] ∧ 1 < ['A', 'T', 'G', 'A', 'A', 'A', 'T', 'A'].length := by decide

/-- The TRANSLATED new `Sequence.get_translation` trims / keeps / rejects stops as the specification says, for every NCBI
code, every non-empty canonical sequence and all eight option combinations. -/
theorem translated_get_translation_stop_rules (code : Nat × List Char × List Char) (hc : code ∈ newCodes)
    (s : List Char) (hs : Canon s) (hne : s ≠ []) (io is_ ts : Bool) :
    new_seq_get_translation (newSeqOf newDna s) (mkNewGCO newDna code.2.1) io is_ ts =
      liftE (outcomeToExcept (GCSpec.getTranslation code.2.1 s io is_ ts)) := by
  have hg : newDna.gap ∉ s := by
    intro h
    have := hs _ h
    revert this
    decide
  rw [gen_new_seq_get_translation_partial newDna code.2.1 s hg, C12.get_translation_stop_rules code hc s hs hne]

example : Canon ['A', 'T', 'G', 'T', 'A', 'A'] ∧ ['A', 'T', 'G', 'T', 'A', 'A'] ≠ [] := by decide

end CogentModel.C12Gen
