import CogentModel.Model.IndelMap
import CogentModel.Spec.Gapped
import CogentModel.Proofs.IndelMapInv
/-! # C08 — property theorems (gapped-coordinate maps agree with the gapped string)

`abs m : List (Option Nat)` is the gapped string (column ↦ sequence index or gap) a map stands
for; `WF` is the representation invariant (gap positions strictly increasing and inside the
parent, cumulative lengths strictly increasing and positive). -/
namespace CogentModel.C08
open CogentModel.IndelMap CogentModel.Gapped

/-- The map built from any gapped string (`parse_out_gaps`) satisfies the representation invariant. -/
theorem fromGapped_wf (s : List Bool) : WF (fromGapped s) := fromGapped_wf' s

example : fromGapped [false, true, true, false, true] = ⟨[1, 2], [2, 3], 2⟩ := by decide
example : WF ⟨[1, 2], [2, 3], 2⟩ := by decide

/-- The map built from a gapped string describes exactly that string: column by column the same
gaps, and the residues numbered 0, 1, 2, … (all layouts: leading, trailing, adjacent, all-gap, no-gap). -/
theorem abs_fromGapped (s : List Bool) : abs (fromGapped s) = ofPattern s := abs_fromGapped' s

example : abs (fromGapped [true, false, true, true, false]) = [none, some 0, none, none, some 1] := by decide

/-- `len(map)` is the number of columns of the gapped string it stands for (any well-formed map). -/
theorem len_eq (m : IMap) (h : WF m) : ((abs m).length : Int) = len m := len_eq' m h

example : WF ⟨[0, 2], [1, 4], 3⟩ ∧ len ⟨[0, 2], [1, 4], 3⟩ = 7 := by decide

/-- `len` of the map of a string is the length of the string. -/
theorem fromGapped_len (s : List Bool) : len (fromGapped s) = s.length := by
  rw [← len_eq _ (fromGapped_wf s), abs_fromGapped, ofPattern, ofPatternFrom_length]

example : len (fromGapped [true, false, true]) = 3 := by decide

end CogentModel.C08
