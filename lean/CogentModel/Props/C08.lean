import CogentModel.Model.IndelMap
import CogentModel.Spec.Gapped
import CogentModel.Proofs.IndelMapInv
import CogentModel.Proofs.AlnInv
import CogentModel.Proofs.IndelMapSliceSpec
import CogentModel.Proofs.IndelMapReversed
import CogentModel.Proofs.IndelMapAlignSpec
import CogentModel.Proofs.IndelMapSliceTotal
import CogentModel.Proofs.IndelMapAdd2
import CogentModel.Proofs.IndelMapMul
import CogentModel.Proofs.IndelMapJoin3
import CogentModel.Proofs.IndelMapSegs3
import CogentModel.Proofs.IndelMapGlen
/-! # C08 — property theorems (gapped-coordinate maps agree with the gapped string)

`abs m : List (Option Nat)` is the gapped string (column ↦ sequence index or gap) a map stands
for; `WF` is the representation invariant (gap positions strictly increasing and inside the
parent, cumulative lengths strictly increasing and positive). -/
namespace CogentModel.C08
open CogentModel.IndelMap CogentModel.Gapped

/-- The map built from any gapped string (`parse_out_gaps`) satisfies the representation invariant. -/
theorem fromGapped_wf (s : List Bool) : WF (fromGapped s) := fromGapped_wf' s

example : fromGapped [false, true, true, false, true] = ⟨[1, 2], [2, 3], 2⟩ := by decide
example : WF ⟨[1, 2], [2, 3], 2⟩ := by decide

/-- The map built from a gapped string describes exactly that string: column by column the same
gaps, and the residues numbered 0, 1, 2, … (all layouts: leading, trailing, adjacent, all-gap, no-gap). -/
theorem abs_fromGapped (s : List Bool) : abs (fromGapped s) = ofPattern s := abs_fromGapped' s

example : abs (fromGapped [true, false, true, true, false]) = [none, some 0, none, none, some 1] := by decide

/-- `len(map)` is the number of columns of the gapped string it stands for (any well-formed map). -/
theorem len_eq (m : IMap) (h : WF m) : ((abs m).length : Int) = len m := len_eq' m h

example : WF ⟨[0, 2], [1, 4], 3⟩ ∧ len ⟨[0, 2], [1, 4], 3⟩ = 7 := by decide

/-- `len` of the map of a string is the length of the string. -/
theorem fromGapped_len (s : List Bool) : len (fromGapped s) = s.length := by
  rw [← len_eq _ (fromGapped_wf s), abs_fromGapped, ofPattern, ofPatternFrom_length]

example : len (fromGapped [true, false, true]) = 3 := by decide

/-- What a sequence displays through a well-formed map (`gapped_by_map`: the expansion of the
`spans` property, with its special cases for a leading gap, the first span and the tail) is the
gapped string `abs m`. -/
theorem spans_expand_eq_abs (m : IMap) (h : WF m) : absSpans m = abs m := absSpans_eq_abs m h

example : absSpans ⟨[0, 2], [1, 4], 3⟩ = [none, some 0, some 1, none, none, none, some 2] := by decide

/-- Consequently the spans of the map of a string rebuild that string, for every layout. -/
theorem spans_of_fromGapped (s : List Bool) : absSpans (fromGapped s) = ofPattern s := by
  rw [absSpans_eq_abs _ (fromGapped_wf s), abs_fromGapped]

example : absSpans (fromGapped [true, true, false]) = [none, none, some 0] := by decide

/-- Regression anchor for the repaired clamp: the map of `G--` sliced by `[0:4]` is the map of the
string slice `G--` (1 residue, 3 columns). -/
theorem getitem_clamps_stop_example :
    (getitem (fromGapped [false, true, true]) (some 0) (some 4) none).toOption = some (fromGapped [false, true, true]) ∧
    Gapped.slice (ofPattern [false, true, true]) (some 0) (some 4) = [some 0, none, none] := by decide

/-- **`get_seq_index` agrees with scanning the string**: for a well-formed map and any column
`0 ≤ i ≤ len`, the searchsorted/index arithmetic returns the number of residues before column `i`. -/
theorem seq_index_spec (m : IMap) (h : WF m) (i : Int) (h0 : 0 ≤ i) (h1 : i ≤ len m) :
    seqIndexNN m i = (Gapped.seqIndex (abs m) i.toNat : Int) := seq_index_spec' m h i h0 h1

example : seqIndexNN ⟨[1, 3], [2, 3], 4⟩ 4 = 2 ∧ Gapped.seqIndex (abs ⟨[1, 3], [2, 3], 4⟩) 4 = 2 := by decide

/-- negative alignment indices are converted like Python indices, anything below `-len` raises -/
theorem get_seq_index_spec (m : IMap) (h : WF m) (i : Int) (h0 : -len m ≤ i) (h1 : i ≤ len m) :
    getSeqIndex m i = .ok (Gapped.seqIndex (abs m) (if i < 0 then len m + i else i).toNat : Int) := by
  unfold getSeqIndex
  by_cases hi : i < 0
  · simp only [hi, if_true]
    rw [if_neg (by omega), seq_index_spec m h _ (by omega) (by omega)]
  · simp only [hi, if_false]
    rw [seq_index_spec m h _ (by omega) (by omega)]

example : getSeqIndex ⟨[1, 3], [2, 3], 4⟩ (-1) = .ok 3 := by rfl

/-- **`IndelMap.__getitem__` agrees with slicing the gapped string**, for EVERY `start`/`stop`
(`None`, negative, beyond the end, reversed, inside / at the edge of gap runs — the full start-case ×
stop-case × layout product): whenever the call returns a map, that map denotes `s[a:b]` with the
residues renumbered. -/
theorem getitem_spec (m : IMap) (h : WF m) (a b : Option Int) (r : IMap)
    (hr : getitem m a b none = .ok r) : abs r = Gapped.slice (abs m) a b :=
  (getitem_spec' m h a b r hr).2

example : (getitem (fromGapped [false, true, true, false, true]) (some 2) (some (-1)) none).toOption.map abs
    = some (Gapped.slice (ofPattern [false, true, true, false, true]) (some 2) (some (-1))) := by decide

/-- Slicing preserves the representation invariant (so every map reachable by slicing is well formed). -/
theorem getitem_wf (m : IMap) (h : WF m) (a b : Option Int) (r : IMap)
    (hr : getitem m a b none = .ok r) : WF r :=
  (getitem_spec' m h a b r hr).1

example : (getitem ⟨[1, 3], [2, 3], 4⟩ (some 2) (some 6) none).toOption = some ⟨[0, 2], [1, 2], 2⟩ := by decide

/-- **Slicing never raises in range**: for a well-formed map and bounds that are `None` or `≥ -len`
(anything above `len` is clamped), `__getitem__` returns a map — the `__post_init__` check
`gap_pos[-1] ≤ parent_length` always passes.  Together with `getitem_spec` this gives total
correctness of slicing. -/
theorem getitem_total (m : IMap) (h : WF m) (a b : Option Int)
    (ha : ∀ x, a = some x → -len m ≤ x) (hb : ∀ y, b = some y → -len m ≤ y) :
    ∃ r, getitem m a b none = .ok r ∧ WF r ∧ abs r = Gapped.slice (abs m) a b := by
  obtain ⟨r, hr⟩ := getitem_total' m h a b ha hb
  exact ⟨r, hr, getitem_spec' m h a b r hr⟩

example : ∃ r, getitem ⟨[1, 3], [2, 3], 4⟩ (some (-7)) (some 99) none = .ok r := ⟨_, rfl⟩

/-- **A stop at or beyond the end is the same as no stop** (current code, after the repair 52439bb91: the general
form of `getitem_clamps_stop_example`): for a well-formed map and every `start`, `m[a:b]` with `b ≥ len(m)` is
literally `m[a:]` — as for a Python string.  (Added by the audit.) -/
theorem getitem_stop_clamped (m : IMap) (h : WF m) (a : Option Int) (b : Int) (hb : len m ≤ b) :
    getitem m a (some b) none = getitem m a none none := by
  have hl : (0 : Int) ≤ len m := by rw [← len_eq m h]; omega
  unfold getitem
  simp only [Option.isSome_none, Bool.false_eq_true, if_false]
  have h1 : (if b ≥ 0 then b else len m + b) = b := if_pos (by omega)
  have h2 : (if len m ≥ 0 then len m else len m + len m) = len m := if_pos hl
  simp only [h1, h2]
  have h3 : min b (len m) = len m := by omega
  have h4 : min (len m) (len m) = len m := by omega
  rw [h3, h4]
  have : (b < 0) = False := by simp; omega
  have : (len m < 0) = False := by simp; omega
  simp [*]

example : WF ⟨[1, 3], [2, 3], 4⟩ ∧ len ⟨[1, 3], [2, 3], 4⟩ ≤ 99 ∧
    getitem ⟨[1, 3], [2, 3], 4⟩ (some 2) (some 99) none = .ok ⟨[0, 2], [1, 2], 3⟩ ∧
    getitem ⟨[1, 3], [2, 3], 4⟩ (some 2) none none = .ok ⟨[0, 2], [1, 2], 3⟩ := by decide

/-- integer indexing `m[i]` is the one-column slice -/
theorem getitem_int_spec (m : IMap) (h : WF m) (i : Int) (r : IMap) (hr : getitemInt m i = .ok r) :
    WF r ∧ abs r = Gapped.slice (abs m) (some i) (some (i + 1)) :=
  getitem_spec' m h (some i) (some (i + 1)) r hr

example : (getitemInt ⟨[1, 3], [2, 3], 4⟩ 1).toOption.map abs = some [none] := by decide

/-- **`get_align_index` agrees with scanning the string**: residue `k` is displayed in the column
where the `k`-th residue of the gapped string stands. -/
theorem align_index_spec (m : IMap) (h : WF m) (k : Int) (h0 : 0 ≤ k) (h1 : k < m.parentLength) :
    getAlignIndex m k false = .ok (Gapped.alignIndex (abs m) k.toNat : Int) := align_index_spec' m h k h0 h1

example : getAlignIndex ⟨[1, 3], [2, 3], 4⟩ 3 false = .ok 6 ∧ Gapped.alignIndex (abs ⟨[1, 3], [2, 3], 4⟩) 3 = 6 := by
  constructor <;> rfl

/-- `get_align_index(k, slice_stop=True)` is one past the column of residue `k - 1` (0 for `k = 0`):
the end of an alignment slice that stops before residue `k` does not include a gap run inserted at `k`. -/
theorem align_index_stop_spec (m : IMap) (h : WF m) (k : Int) (h0 : 0 ≤ k) (h1 : k ≤ m.parentLength) :
    getAlignIndex m k true =
      .ok (if k = 0 then 0 else (Gapped.alignIndex (abs m) (k - 1).toNat : Int) + 1) :=
  align_index_stop_spec' m h k h0 h1

example : getAlignIndex ⟨[1, 3], [2, 3], 4⟩ 1 true = .ok 1 ∧ getAlignIndex ⟨[1, 3], [2, 3], 4⟩ 1 false = .ok 3 := by
  constructor <;> rfl

/-- **`nucleic_reversed` gives the map of the reversed string** (leading gaps become trailing gaps,
etc.), never raises on a well-formed map, and the result is well formed. -/
theorem reversed_spec (m : IMap) (h : WF m) :
    ∃ r, nucleicReversed m = .ok r ∧ WF r ∧ abs r = Gapped.reversed (abs m) := by
  refine ⟨_, nucleicReversed_ok m h, ?_⟩
  exact reversed_spec' m h _ (nucleicReversed_ok m h)

example : (nucleicReversed (fromGapped [true, false, false, true, true, false])).toOption.map abs
    = some (Gapped.reversed (ofPattern [true, false, false, true, true, false])) := by decide

/-- **`IndelMap.__add__` gives the map of the concatenated string** for any two well-formed maps
(a trailing gap of the left operand meeting a leading gap of the right one becomes ONE gap), it
never raises, and the result is well formed. -/
theorem add_spec (a b : IMap) (ha : WF a) (hb : WF b) :
    ∃ r, add a b = .ok r ∧ WF r ∧ abs r = Gapped.concat (abs a) (abs b) := add_spec' a b ha hb

example : (add (fromGapped [false, true]) (fromGapped [true, true, false])).toOption
    = some (fromGapped [false, true, true, true, false]) := by decide

/-- **`IndelMap.__mul__`** (amino-acid alignment → codon alignment): for every scale `k ≥ 1` the
result is the map of the string with each column repeated `k` times; total, well formed. -/
theorem mul_spec (m : IMap) (h : WF m) (k : Nat) (hk : 0 < k) :
    ∃ r, mul m k = .ok r ∧ WF r ∧ abs r = Gapped.scaled (abs m) k := mul_spec' m h k hk

example : (mul (fromGapped [false, true, false]) 3).toOption
    = some (fromGapped [false, false, false, true, true, true, false, false, false]) := by decide

/-- **`joined_segments(coords)`** (used when an alignment row is sliced by a multi-span feature map,
e.g. by `filtered()`): the segments are sorted by start, each is sliced out of the map, and the
dictionary of accumulated gaps is the map of the slices `s[a₁:b₁] s[a₂:b₂] …` joined together —
gap runs meeting at a junction become one gap; the result is well formed. -/
theorem joined_spec (m : IMap) (h : WF m) (coords : List (Int × Int)) (r : IMap)
    (hr : joinedSegments m coords = .ok r) :
    WF r ∧ abs r = ofPattern (joinedPattern (abs m) (sortPairs coords)) := joined_spec' m h coords r hr

example : (joinedSegments (fromGapped [false, true, false, true, true, false]) [(3, 5), (0, 2)]).toOption
    = some (fromGapped [false, true, true, true]) := by decide

/-- **`IndelMap.from_aligned_segments`**: given the ungapped segments of a well-formed map in
alignment coordinates (what `nongap()` lists) and the aligned length, it rebuilds exactly that map —
for every layout: leading / trailing gaps (the `(0, 0)` and `(L, L)` sentinels), the all-gap row
(no segment at all), the gapless row (single full segment or empty string). -/
theorem from_aligned_segments_spec (m : IMap) (h : WF m) :
    fromAlignedSegments (nongap m) (len m) = .ok m := from_aligned_segments_spec' m h

example : nongap (fromGapped [true, false, false, true]) = [(1, 3)] ∧
    (fromAlignedSegments [(1, 3)] 4).toOption = some (fromGapped [true, false, false, true]) ∧
    (fromAlignedSegments [] 2).toOption = some (fromGapped [true, true]) := by decide

/-- **`gap_coords_to_map`**: from the `{gap position: gap length}` dictionary of a well-formed map,
whatever the insertion order of its items, and the sequence length, the map itself is rebuilt. -/
theorem gap_coords_to_map_spec (m : IMap) (h : WF m) (items : List (Int × Int))
    (hp : items.Perm (getGapCoordinates m)) : gapCoordsToMap items m.parentLength = .ok m :=
  gap_coords_to_map_spec' m h items hp

example : (gapCoordsToMap [(3, 1), (1, 2)] 4).toOption = some ⟨[1, 3], [2, 3], 4⟩ ∧
    getGapCoordinates ⟨[1, 3], [2, 3], 4⟩ = [(1, 2), (3, 1)] := by decide

/-- The gap length a well-formed map holds at sequence position `p` (what `get_gap_coordinates`
reports) is the gap run standing immediately before residue `p` of its string (trailing run for
`p = parent_length`). -/
theorem gap_lengths_spec (m : IMap) (h : WF m) (p : Int) (h0 : 0 ≤ p) (h1 : p ≤ m.parentLength) :
    glen m p = (Gapped.gapsBefore (abs m) p.toNat : Int) := glen_spec' m h p h0 h1

example : glen ⟨[1, 3], [2, 3], 4⟩ 3 = 1 ∧ Gapped.gapsBefore (abs ⟨[1, 3], [2, 3], 4⟩) 3 = 1 := by decide

/-- **`merge_maps`**: for two well-formed maps over the same sequence, the merged map never raises,
is well formed, and its string has before every residue (and at the end) the gap runs of both
strings added up. -/
theorem merge_spec (a b : IMap) (ha : WF a) (hb : WF b) (hpl : a.parentLength = b.parentLength) :
    ∃ r, mergeMaps a b none = .ok r ∧ WF r ∧ r.parentLength = a.parentLength ∧
      ∀ p : Nat, (p : Int) ≤ a.parentLength →
        Gapped.gapsBefore (abs r) p = Gapped.gapsBefore (abs a) p + Gapped.gapsBefore (abs b) p := by
  obtain ⟨r, hr, hw, hp, hg⟩ := merge_spec' a b ha hb hpl
  refine ⟨r, hr, hw, hp, ?_⟩
  intro p hple
  have h1 := glen_spec' r hw p (by omega) (by omega)
  have h2 := glen_spec' a ha p (by omega) hple
  have h3 := glen_spec' b hb p (by omega) (by omega)
  have := hg p
  simp only [Int.toNat_natCast] at h1 h2 h3
  omega

example : (mergeMaps (fromGapped [false, true, false]) (fromGapped [true, false, true, true, false]) none).toOption
    = some (fromGapped [true, false, true, true, true, false]) := by decide

/- FULL STATEMENTS (not proved):
   `minus_spec`, `shared_gaps_spec`.  They are covered by the
   exhaustive correspondence (model = code on every layout of length ≤ 8 x every interval) plus the
   exhaustive spec-level differential (code = string). -/

end CogentModel.C08
