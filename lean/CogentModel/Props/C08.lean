import CogentModel.Model.IndelMap
import CogentModel.Spec.Gapped
/-! # C08 — property theorems (gapped-coordinate maps agree with the gapped string) -/
namespace CogentModel.C08
open CogentModel.IndelMap

theorem placeholder_len_empty (n : Int) : len (emptyMap n) = n := by simp [len, emptyMap]

end CogentModel.C08
