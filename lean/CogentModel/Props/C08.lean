import CogentModel.Model.IndelMap
import CogentModel.Spec.Gapped
import CogentModel.Proofs.IndelMapInv
import CogentModel.Proofs.AlnInv
/-! # C08 — property theorems (gapped-coordinate maps agree with the gapped string)

`abs m : List (Option Nat)` is the gapped string (column ↦ sequence index or gap) a map stands
for; `WF` is the representation invariant (gap positions strictly increasing and inside the
parent, cumulative lengths strictly increasing and positive). -/
namespace CogentModel.C08
open CogentModel.IndelMap CogentModel.Gapped

/-- The map built from any gapped string (`parse_out_gaps`) satisfies the representation invariant. -/
theorem fromGapped_wf (s : List Bool) : WF (fromGapped s) := fromGapped_wf' s

example : fromGapped [false, true, true, false, true] = ⟨[1, 2], [2, 3], 2⟩ := by decide
example : WF ⟨[1, 2], [2, 3], 2⟩ := by decide

/-- The map built from a gapped string describes exactly that string: column by column the same
gaps, and the residues numbered 0, 1, 2, … (all layouts: leading, trailing, adjacent, all-gap, no-gap). -/
theorem abs_fromGapped (s : List Bool) : abs (fromGapped s) = ofPattern s := abs_fromGapped' s

example : abs (fromGapped [true, false, true, true, false]) = [none, some 0, none, none, some 1] := by decide

/-- `len(map)` is the number of columns of the gapped string it stands for (any well-formed map). -/
theorem len_eq (m : IMap) (h : WF m) : ((abs m).length : Int) = len m := len_eq' m h

example : WF ⟨[0, 2], [1, 4], 3⟩ ∧ len ⟨[0, 2], [1, 4], 3⟩ = 7 := by decide

/-- `len` of the map of a string is the length of the string. -/
theorem fromGapped_len (s : List Bool) : len (fromGapped s) = s.length := by
  rw [← len_eq _ (fromGapped_wf s), abs_fromGapped, ofPattern, ofPatternFrom_length]

example : len (fromGapped [true, false, true]) = 3 := by decide

/-- What a sequence displays through a well-formed map (`gapped_by_map`: the expansion of the
`spans` property, with its special cases for a leading gap, the first span and the tail) is the
gapped string `abs m`. -/
theorem spans_expand_eq_abs (m : IMap) (h : WF m) : absSpans m = abs m := absSpans_eq_abs m h

example : absSpans ⟨[0, 2], [1, 4], 3⟩ = [none, some 0, some 1, none, none, none, some 2] := by decide

/-- Consequently the spans of the map of a string rebuild that string, for every layout. -/
theorem spans_of_fromGapped (s : List Bool) : absSpans (fromGapped s) = ofPattern s := by
  rw [absSpans_eq_abs _ (fromGapped_wf s), abs_fromGapped]

example : absSpans (fromGapped [true, true, false]) = [none, none, some 0] := by decide

/-- Regression anchor for the repaired clamp: the map of `G--` sliced by `[0:4]` is the map of the
string slice `G--` (1 residue, 3 columns). -/
theorem getitem_clamps_stop_example :
    (getitem (fromGapped [false, true, true]) (some 0) (some 4) none).toOption = some (fromGapped [false, true, true]) ∧
    Gapped.slice (ofPattern [false, true, true]) (some 0) (some 4) = [some 0, none, none] := by decide

/- FULL STATEMENT (not proved): `getitem_spec` —
   `∀ m a b, WF m → getitem m a b none = .ok r → WF r ∧ abs r = Gapped.slice (abs m) a b`
   (all start-case x stop-case x layout combinations of `IndelMap.__getitem__`), and the analogous
   `seq_index_spec` / `align_index_spec` (`getSeqIndex m i = Gapped.seqIndex (abs m) i`),
   `add_spec`, `reversed_spec`, `merge_spec`, `joined_spec`, `minus_spec`.
   Why not: (1) it is false as stated for the mirrored model — `getitem_stop_beyond_len_counter`
   above is the witness (stop > len is not clamped), and `add` of a trailing gap to a leading gap
   yields duplicate positions; (2) the restricted `getitem_spec_partial` (0 ≤ a ≤ b ≤ len) needs the
   searchsorted-index ↔ recursive-scan bridge lemmas, which were not completed in the time available.
   These clauses are covered by the exhaustive correspondence (model = code on every layout of
   length ≤ 8 x every interval) plus the exhaustive spec-level differential (code = string). -/

end CogentModel.C08
