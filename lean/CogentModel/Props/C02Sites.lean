import CogentModel.Model.PruneSites
import CogentModel.Proofs.PruneSites
import CogentModel.Proofs.PruneSitesLump
import CogentModel.Props.C02
/-! # C02, second part — what happens to the per-column likelihoods afterwards: several loci, and the
hidden Markov chain over site classes (`sites_independent=False`)

`Model/PruneSites.lean` mirrors `SumDefn` over loci, `PatchSiteDistribution`, `SiteClassTransitionMatrix` and the
loop of `LikelihoodTreeEdge.log_dot_reduce` as written (since fix 6668db777: `dot(state_probs, switch_probs)`).  The statements hold over every commutative semiring
(ring where a subtraction occurs), for every number of states, every matrix and every list of sites. -/
namespace CogentModel.C02
open CogentModel.Prune CogentModel.PruneSites

/-- **Several loci.**  The total of a multi-locus likelihood function (`SumDefn`: `0 + lnL₁ + lnL₂ + …`, every
locus compressed with `_indexed` on its own and evaluated with its own parameters `g`) is the sum over the loci of
the sum over ALL columns of that locus. -/
theorem lnL_loci_eq_definition {κ S : Type} [DecidableEq κ] [AddCommMonoid S] (loci : List ((κ → S) × List κ)) :
    lnLLoci loci = (loci.map fun l => (l.2.map l.1).sum).sum := by
  unfold lnLLoci
  rw [sumDefn_eq]
  congr 1
  refine List.map_congr_left fun l _ => ?_
  obtain ⟨g, cols⟩ := l
  simp only [compress_sum]
  rfl

/-- … with the pruning recursion inside: every locus has its own root distribution, tree (edge matrices) and
columns; the reported value is the sum over loci and columns of `logf` of the sum over all labelings -/
theorem lnL_loci_eq_bruteForce {R α κ S : Type} [CommSemiring R] [DecidableEq κ] [AddCommMonoid S] (logf : R → S) (m : Nat)
    (prof : κ → α → Nat → R) (loci : List (((Nat → R) × PTree R α) × List κ)) :
    lnLLoci (loci.map fun l => ((fun c => logf (lh m l.1.1 (prof c) l.1.2)), l.2))
      = (loci.map fun l => (l.2.map fun c => logf (bruteForce (fun _ _ => true) m l.1.1 (prof c) l.1.2)).sum).sum := by
  rw [lnL_loci_eq_definition, List.map_map]
  congr 1
  refine List.map_congr_left fun l _ => ?_
  simp only [Function.comp, prune_eq_bruteForce]

/-- two loci with different root distributions over `exTree`, one with a repeated column -/
example : lnLLoci ([((exPi, exTree), [0, 1, 0]), ((fun _ => 1, exTree), [1])].map fun l =>
      ((fun c : Nat => lh 2 l.1.1 (fun a s => exProf (a + c) s) l.1.2 + 1), l.2))
    = (240 + 1) + (lh 2 exPi (fun a s => exProf (a + 1) s) exTree + 1) + (240 + 1)
      + (lh 2 (fun _ => 1) (fun a s => exProf (a + 1) s) exTree + 1) := by decide

/-! ## hidden Markov chain over site classes -/

/-- **The loop of `log_dot_reduce`, for ALL inputs.**  `state_probs = dot(state_probs, switch_probs) * plhs[site]`
iterated over the sites and summed equals the sum over all `k^(n+1)` paths `z₋₁ z₀ … z_{n-1}` of
`init[z₋₁] · Π_t switch_probs[z_{t-1}, z_t] · e_t[z_t]` — the matrix entry used for the move `z_{t-1} → z_t` is
`[z_{t-1}, z_t]`, as `SiteClassTransitionMatrix` defines it. -/
theorem hmm_forward_eq_paths {R : Type} [CommSemiring R] (k : Nat) (M : Mat R) (init : Nat → R) (es : List (Nat → R)) :
    forward k M init es = bruteHmmPre k init M es :=
  forward_eq_pre k M init es

example : (paths 2 2) = [[0, 0], [0, 1], [1, 0], [1, 1]] := by decide
example : forward 2 (fun i j => i + 2 * j + 1) (fun z => z + 1) [fun z => z + 2, fun _ => 3]
    = bruteHmmPre 2 (fun z => z + 1) (fun i j => i + 2 * j + 1) [fun z => z + 2, fun _ => 3] := by decide

/-- every path really is enumerated: `k ^ n` paths, all states `< k` -/
theorem hmm_paths_count (k : Nat) : ∀ n, (paths k n).length = k ^ n
  | 0 => by simp [paths]
  | n + 1 => by
    have h : ∀ (l : List Nat), (l.flatMap fun z => (paths k n).map (z :: ·)).length = l.length * k ^ n := by
      intro l
      induction l with
      | nil => simp
      | cons a l ih => simp [List.flatMap_cons, ih, hmm_paths_count k n, Nat.succ_mul, Nat.add_comm]
    simp only [paths]
    rw [h, List.length_range, Nat.pow_succ, Nat.mul_comm]

/-- **HEADLINE: the code as it is computes the published definition.**  For a transition matrix `T`
(`T[i, j]` = probability of `i → j`) with stationary distribution `π` (`Σ_p π_p T[p, z] = π_z`) and at least one site,
the loop of `log_dot_reduce` (`state_probs = dot(state_probs, T) * plhs[site]` from `state_probs = π`, then `sum`)
equals the sum over all class assignments `z₀ … z_{n-1}` of `π[z₀] e₀[z₀] Π_{t≥1} T[z_{t-1}, z_t] e_t[z_t]`.
(The name is historical: until fix 6668db777 this was the statement about the REPAIR, the loop with the matrix
"transposed" relative to the code of the time; `forward` now mirrors the repaired code.) -/
theorem hmm_transposed_forward_eq_definition {R : Type} [CommSemiring R] (k : Nat) (π : Nat → R) (T : Mat R)
    (hst : ∀ z, z < k → (∑ p ∈ Finset.range k, π p * T p z) = π z) (e : Nat → R) (es : List (Nat → R)) :
    forward k T π (e :: es) = bruteHmm k π T (e :: es) := by
  rw [forward_eq_pre]
  exact pre_eq_brute k π T hst e es

/-- hypothesis satisfiable, statement non-trivial: UNEQUAL classes `(1/4, 3/4)`, switch `1/3`, two sites over `ℚ`:
the stationarity hypothesis holds (it is `switch_matrix_props`), the loop equals the sum over the 4 paths -/
example : ∀ z, z < 2 → (∑ p ∈ Finset.range 2, (fun z => if z = 0 then (1/4 : Rat) else 3/4) p
    * switchMatrix (1/3 : Rat) (fun z => if z = 0 then 1/4 else 3/4) p z) = (fun z => if z = 0 then (1/4 : Rat) else 3/4) z := by
  decide +kernel
example : forward 2 (switchMatrix (1/3 : Rat) fun z => if z = 0 then 1/4 else 3/4) (fun z => if z = 0 then 1/4 else 3/4)
      [fun z => if z = 0 then 1 else 1/4, fun z => if z = 0 then 1/5 else 1]
    = bruteHmm 2 (fun z => if z = 0 then 1/4 else 3/4) (switchMatrix (1/3 : Rat) fun z => if z = 0 then 1/4 else 3/4)
      [fun z => if z = 0 then 1 else 1/4, fun z => if z = 0 then 1/5 else 1] := by
  decide +kernel
/-- … while the pre-fix loop gives another value on the same input -/
example : forwardOld 2 (switchMatrix (1/3 : Rat) fun z => if z = 0 then 1/4 else 3/4) (fun z => if z = 0 then 1/4 else 3/4)
      [fun z => if z = 0 then 1 else 1/4, fun z => if z = 0 then 1/5 else 1]
    ≠ bruteHmm 2 (fun z => if z = 0 then 1/4 else 3/4) (switchMatrix (1/3 : Rat) fun z => if z = 0 then 1/4 else 3/4)
      [fun z => if z = 0 then 1 else 1/4, fun z => if z = 0 then 1/5 else 1] := by
  decide +kernel

/-- **`SiteClassTransitionMatrix`**: rows sum to one, `probs` is stationary, detailed balance holds, and the
matrix is symmetric when (and, by `hmm_old_orientation_counter`, essentially only when) the class probabilities are equal. -/
theorem switch_matrix_props {R : Type} [CommRing R] (k : Nat) (s : R) (p : Nat → R) (hp : (∑ j ∈ Finset.range k, p j) = 1) :
    (∀ i, i < k → (∑ j ∈ Finset.range k, switchMatrix s p i j) = 1)
    ∧ (∀ j, j < k → (∑ i ∈ Finset.range k, p i * switchMatrix s p i j) = p j)
    ∧ (∀ i j, p i * switchMatrix s p i j = p j * switchMatrix s p j i)
    ∧ ((∀ i j, i < k → j < k → p i = p j) → ∀ i j, i < k → j < k → switchMatrix s p i j = switchMatrix s p j i) := by
  refine ⟨switchMatrix_rows k s p hp, switchMatrix_stationary k s p hp, switchMatrix_balance s p, ?_⟩
  intro hu i j hi hj
  simp only [switchMatrix_eq, hu i j hi hj]
  by_cases h : i = j
  · subst h; rfl
  · have h' : ¬ j = i := fun e => h e.symm
    simp [h, h']

/-- **The site-class HMM of the implementation = the published definition, for EVERY class distribution** (full
strength since the fix; before it only `…_partial` with equal class probabilities was true): the loop with
`SiteClassTransitionMatrix(switch, probs)` started from `probs`, any `k` classes whose probabilities sum to one, any
switch value, at least one site. -/
theorem hmm_switch_eq_definition {R : Type} [CommRing R] (k : Nat) (s : R) (p : Nat → R)
    (hp : (∑ j ∈ Finset.range k, p j) = 1) (e : Nat → R) (es : List (Nat → R)) :
    forward k (switchMatrix s p) p (e :: es) = bruteHmm k p (switchMatrix s p) (e :: es) :=
  hmm_transposed_forward_eq_definition k p _ (switch_matrix_props k s p hp).2.1 e es

/-- hypotheses satisfiable, statement non-trivial: two UNEQUAL classes `(1/4, 3/4)`, switch `1/3`, three sites over `ℚ` -/
example : forward 2 (switchMatrix (1/3 : Rat) fun z => if z = 0 then 1/4 else 3/4) (fun z => if z = 0 then 1/4 else 3/4)
      [fun z => if z = 0 then 1 else 1/4, fun z => if z = 0 then 1/5 else 1, fun z => if z = 0 then 1/2 else 1/3]
    = bruteHmm 2 (fun z => if z = 0 then 1/4 else 3/4) (switchMatrix (1/3 : Rat) fun z => if z = 0 then 1/4 else 3/4)
      [fun z => if z = 0 then 1 else 1/4, fun z => if z = 0 then 1/5 else 1, fun z => if z = 0 then 1/2 else 1/3] := by
  decide +kernel

/-- **`SiteHmm.__call__` as a whole** (`siteHmm`: patch probabilities from the bin probabilities, the switch matrix,
per-site patch emissions from `get_weighted_sum_lhs`, the loop): when the patch probabilities sum to one and the
alignment has at least one column, the value is the sum over all patch assignments of the published weight. -/
theorem site_hmm_eq_definition {R : Type} [Field R] (bprobs : List R) (switch : R) (lhs : List (List R)) (u : Nat) (index : List Nat)
    (hp : (∑ a ∈ Finset.range (npatch bprobs.length), patchProbs bprobs a) = 1) :
    siteHmm bprobs switch lhs (u :: index)
      = bruteHmm (npatch bprobs.length) (patchProbs bprobs) (switchMatrix switch (patchProbs bprobs))
          (siteEmissions bprobs lhs (u :: index)) := by
  unfold siteHmm
  simp only [siteEmissions, List.map_cons]
  exact hmm_switch_eq_definition _ switch _ hp _ _

example : siteHmm [(1/4 : Rat), 1/4, 1/2] (1/3) [[1, 1/2], [1/3, 1], [1/5, 1/7]] [0, 1, 1]
    = bruteHmm 2 (patchProbs [(1/4 : Rat), 1/4, 1/2]) (switchMatrix (1/3) (patchProbs [(1/4 : Rat), 1/4, 1/2]))
        (siteEmissions [(1/4 : Rat), 1/4, 1/2] [[1, 1/2], [1/3, 1], [1/5, 1/7]] [0, 1, 1]) := by
  decide +kernel

/-! ## bins → patches: the lumping of `PatchSiteDistribution` -/

/-- **Lumping, in general.**  A hidden chain over `nb` bins in which the move `b → c` has probability
`T[patch b, patch c] · cond[c]` (go to the patch of `c`, then draw `c` inside it) gives — for EVERY patch assignment `p`,
matrix `T`, conditional weights `cond`, initial vector and per-bin likelihoods — the same forward value as the chain over the
`k` patches with matrix `T`, the initial vector summed per patch and the patch emission `Σ_{c ∈ a} lh[c] · cond[c]`
(`get_weighted_sum_lhs`). -/
theorem patch_emission_lumping {R : Type} [CommSemiring R] (nb k : Nat) (p : Nat → Nat) (hp : ∀ b, b < nb → p b < k)
    (T : Mat R) (cond ib : Nat → R) (es : List (Nat → R)) :
    forward k T (lumpW nb p ib) (es.map fun lh a => ∑ b ∈ Finset.range nb, if p b = a then lh b * cond b else 0)
      = forward nb (fun b c => T (p b) (p c) * cond c) ib es :=
  forward_lump nb k p hp T cond ib es

/-- **`SiteHmm.__call__` = the forward recursion over the BINS** with the bin-level matrix of the published definition
(`binMatrix`: patch move × conditional bin probability) started from the bin probabilities — every list of bin probabilities
(any number of bins), switch value, per-bin likelihood table and index; no hypothesis. -/
theorem site_hmm_eq_bin_forward {R : Type} [Field R] (bprobs : List R) (switch : R) (lhs : List (List R)) (index : List Nat) :
    siteHmm bprobs switch lhs index
      = forward bprobs.length (binMatrix bprobs switch) (fun b => bprobs.getD b 0) (binEmissions lhs index) :=
  PruneSites.site_hmm_eq_bin_forward bprobs switch lhs index

/-- **The reported site-class HMM likelihood is the published definition at the level of the bins**: the sum over ALL
`nb^n` assignments of a bin to every site of `bprobs[b₀] lh₀[b₀] Π_t binMatrix[b_{t-1}, b_t] lh_t[b_t]`, when the bin
probabilities sum to one, both patches have non-zero probability and the alignment has at least one column. -/
theorem site_hmm_eq_bin_definition {R : Type} [Field R] (bprobs : List R) (switch : R) (lhs : List (List R)) (u : Nat) (index : List Nat)
    (h1 : (∑ b ∈ Finset.range bprobs.length, bprobs.getD b 0) = 1)
    (hpos : ∀ a, a < npatch bprobs.length → patchProbs bprobs a ≠ 0) :
    siteHmm bprobs switch lhs (u :: index)
      = bruteHmm bprobs.length (fun b => bprobs.getD b 0) (binMatrix bprobs switch) (binEmissions lhs (u :: index)) := by
  rw [site_hmm_eq_bin_forward]
  simp only [binEmissions, List.map_cons]
  exact hmm_transposed_forward_eq_definition _ _ _ (fun c _ => binMatrix_stationary bprobs switch h1 hpos c) _ _

/-- three bins `(1/4, 1/4, 1/2)` → patches `(1/4, 3/4)`, switch `1/3`, three sites (two patterns): `27` bin paths -/
example : siteHmm [(1/4 : Rat), 1/4, 1/2] (1/3) [[1, 1/2], [1/3, 1], [1/5, 1/7]] [0, 1, 1]
    = bruteHmm 3 (fun b => [(1/4 : Rat), 1/4, 1/2].getD b 0) (binMatrix [(1/4 : Rat), 1/4, 1/2] (1/3))
        (binEmissions [[1, 1/2], [1/3, 1], [1/5, 1/7]] [0, 1, 1]) := by
  decide +kernel
example : (paths 3 3).length = 27 := by decide

/-! ### regression note: the orientation of the loop before fix 6668db777 -/

/-- the pre-fix loop `state_probs = dot(switch_probs, state_probs) * plhs[site]` is the present loop run with the
transposed matrix, hence a path sum with the matrix entered as `[z_t, z_{t-1}]` -/
theorem hmm_old_forward_eq_paths {R : Type} [CommSemiring R] (k : Nat) (M : Mat R) (init : Nat → R) (es : List (Nat → R)) :
    forwardOld k M init es = bruteHmmPre k init (transpose M) es := by
  rw [forwardOld_eq, forward_eq_pre]

/-- **What could be said of the pre-fix loop**: it equals the definition when, in addition, the matrix is symmetric on the
states in use (equal class probabilities).  Without the symmetry hypothesis it is FALSE: `hmm_old_orientation_counter`. -/
theorem hmm_old_forward_eq_definition_partial {R : Type} [CommSemiring R] (k : Nat) (π : Nat → R) (M : Mat R)
    (hsym : ∀ i j, i < k → j < k → M i j = M j i)
    (hst : ∀ z, z < k → (∑ p ∈ Finset.range k, π p * M p z) = π z) (e : Nat → R) (es : List (Nat → R)) :
    forwardOld k M π (e :: es) = bruteHmm k π M (e :: es) := by
  rw [hmm_old_forward_eq_paths, bruteHmmPre_congr k π (transpose M) M (fun i j hi hj => hsym j i hj hi)]
  exact pre_eq_brute k π M hst e es

/-- two classes `(1/2, 1/2)`, switch `1/3`, two sites over `ℚ`: here both orientations agree -/
example : forwardOld 2 (switchMatrix (1/3 : Rat) fun _ => 1/2) (fun _ => 1/2) [fun z => if z = 0 then 1 else 1/4, fun z => if z = 0 then 1/5 else 1]
    = bruteHmm 2 (fun _ => 1/2) (switchMatrix (1/3 : Rat) fun _ => 1/2) [fun z => if z = 0 then 1 else 1/4, fun z => if z = 0 then 1/5 else 1] := by
  decide +kernel

/-- **Witness of the repaired defect** (regression corpus): class probabilities `(1/4, 3/4)`, `bin_switch = 1` (sites
independent), one site whose likelihood is `1` in both classes.  The definition gives `1` and so does the code as it is;
the pre-fix loop gave `5/4` (`dot(switch_probs, probs) = (5/8, 5/8)` is not even a distribution). -/
theorem hmm_old_orientation_counter :
    forwardOld 2 (switchMatrix (1 : Rat) fun z => if z = 0 then 1/4 else 3/4) (fun z => if z = 0 then 1/4 else 3/4) [fun _ => 1] = 5/4
    ∧ bruteHmm 2 (fun z => if z = 0 then 1/4 else 3/4) (switchMatrix (1 : Rat) fun z => if z = 0 then 1/4 else 3/4) [fun _ => 1] = 1
    ∧ forward 2 (switchMatrix (1 : Rat) fun z => if z = 0 then 1/4 else 3/4) (fun z => if z = 0 then 1/4 else 3/4) [fun _ => 1] = 1 := by
  decide +kernel

end CogentModel.C02
