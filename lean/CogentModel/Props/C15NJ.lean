import CogentModel.Model.NJ
import CogentModel.Proofs.NJLemmas
/-! # C15 — property theorems, part 2: neighbour joining -/
namespace CogentModel.C15
open CogentModel.NJ

open CogentModel.NJ

/-- If `(i, j)` is a cherry of the (symmetric, zero-diagonal) matrix `d` on `L > 2` nodes with pendant
lengths `ai, aj ≥ 0`, the two branch lengths computed by `PartialTree.join` are exactly `ai` and `aj`
(the `max(0.0, ·)` clamps are inactive). -/
theorem nj_cherry_lengths (d : Mat) (L i j : Nat) (ai aj : Rat) (e : Nat → Rat) (hL : 2 < L)
    (hs : Sym d L) (hz : ZeroDiag d L) (hc : Cherry d L i j ai aj e) :
    leftLen d L i j = ai ∧ rightLen d L i j = aj :=
  ⟨leftLen_cherry d L i j ai aj e hL hs hz hc, rightLen_cherry d L i j ai aj e hL hs hz hc⟩

/-- The reduced matrix returned by `join` is the metric of the tree with the cherry collapsed into its
parent `u`: entry (a,b) of the shortened array reads position `src a`, `src b` of the old one
(`src` = "the last row moved into slot j"), the new node sits where `src · = i`, its distances are
`e k = d(u,k)`, all other entries are unchanged, and the array stays symmetric with zero diagonal. -/
theorem nj_reduced_additive (d : Mat) (L i j : Nat) (ai aj : Rat) (e : Nat → Rat)
    (hs : Sym d L) (hz : ZeroDiag d L) (hc : Cherry d L i j ai aj e) (a b : Nat) (ha : a < L - 1) (hb : b < L - 1) :
    (src L j a = i → src L j b ≠ i → get (joinMat d L i j) a b = e (src L j b)) ∧
    (src L j a ≠ i → src L j b = i → get (joinMat d L i j) a b = e (src L j a)) ∧
    (src L j a ≠ i → src L j b ≠ i → get (joinMat d L i j) a b = get d (src L j a) (src L j b)) ∧
    get (joinMat d L i j) a b = get (joinMat d L i j) b a ∧ get (joinMat d L i j) a a = 0 := by
  have hab : get (joinMat d L i j) a b = base d i j (src L j a) (src L j b) := by
    unfold joinMat; rw [get_tab _ _ _ _ ha hb]
  have hba : get (joinMat d L i j) b a = base d i j (src L j b) (src L j a) := by
    unfold joinMat; rw [get_tab _ _ _ _ hb ha]
  have haa : get (joinMat d L i j) a a = base d i j (src L j a) (src L j a) := by
    unfold joinMat; rw [get_tab _ _ _ _ ha ha]
  refine ⟨?_, ?_, ?_, ?_, ?_⟩
  · intro hx hy
    rw [hab]; unfold base
    rw [if_neg (fun h => hy h.2), if_pos hx]
    exact newDist_cherry d L i j ai aj e hc _ (src_lt _ _ _ hb) hy (src_ne_j _ _ _ hb)
  · intro hx hy
    rw [hab]; unfold base
    rw [if_neg (fun h => hx h.1), if_neg hx, if_pos hy]
    exact newDist_cherry d L i j ai aj e hc _ (src_lt _ _ _ ha) hx (src_ne_j _ _ _ ha)
  · intro hx hy
    rw [hab]; unfold base
    rw [if_neg (fun h => hx h.1), if_neg hx, if_neg hy]
  · rw [hab, hba]; exact base_sym d L i j _ _ hs (src_lt _ _ _ ha) (src_lt _ _ _ hb)
  · rw [haa]; unfold base
    by_cases h : src L j a = i
    · simp [h]
    · simp [h]; exact hz _ (src_lt _ _ _ ha)

/-- The final three-node resolution (`asScoreTreeTuple`): for a symmetric zero-diagonal 3×3 matrix the three
lengths are `(d_ab + d_ac − d_bc)/2`, so any two of them add up to the corresponding distance. -/
theorem nj_three_point (d : Mat) (hs : Sym d 3) (hz : ZeroDiag d 3) :
    finalLen d 0 + finalLen d 1 = get d 0 1 ∧ finalLen d 0 + finalLen d 2 = get d 0 2 ∧
    finalLen d 1 + finalLen d 2 = get d 1 2 := by
  obtain ⟨f0, f1, f2⟩ := finalLen_vals d hs hz
  rw [f0, f1, f2]
  refine ⟨by ring, by ring, by ring⟩

/-- the loop ends with exactly three nodes when started from `n ≥ 3` labels -/
theorem nj_loop_ends_with_three (n : Nat) (hn : 3 ≤ n) (sel : PT → Nat × Nat) (d : Mat) :
    (njLoop sel n (star n d)).L = 3 :=
  njLoop_L sel n (star n d) hn (by show n - 3 ≤ n; omega)

example : Sym [[0, 3, 4], [3, 0, 5], [4, 5, 0]] 3 ∧ ZeroDiag [[0, 3, 4], [3, 0, 5], [4, 5, 0]] 3 := by
  constructor
  · intro a b ha hb
    have : a = 0 ∨ a = 1 ∨ a = 2 := by omega
    have : b = 0 ∨ b = 1 ∨ b = 2 := by omega
    rcases ‹a = 0 ∨ _› with rfl | rfl | rfl <;> rcases ‹b = 0 ∨ _› with rfl | rfl | rfl <;> decide +kernel
  · intro a ha
    have : a = 0 ∨ a = 1 ∨ a = 2 := by omega
    rcases this with rfl | rfl | rfl <;> decide +kernel
example : finalLen [[0, 3, 4], [3, 0, 5], [4, 5, 0]] 0 = 1 := by decide +kernel

/-- NJ realises `D` whenever every selected pair is a cherry of the current matrix — for ANY selection rule
`sel` (in particular for `pickPair`, the model of `argsort(scores)[first off-diagonal]`, and for any other
tie-breaking).  `D` symmetric with zero diagonal on `n ≥ 3` labels; `hch`: at every state reached by the
loop with more than three nodes the selected pair is a cherry; `htri`: the last three nodes satisfy the
triangle inequality (`n ≥ 3`).  Then in the returned root every child subtree realises `D`, tips under different
children are at path distance `D` through the root, and the tips are exactly the labels `0..n-1`. -/
theorem nj_realises_additive_partial (D : Nat → Nat → Rat) (n : Nat) (sel : PT → Nat × Nat)
    (hDs : ∀ a b, D a b = D b a) (hDz : ∀ a, D a a = 0)
    (hch : ∀ k, 3 < (njLoop sel k (star n (tab n D))).L →
      ∃ ai aj e, Cherry (njLoop sel k (star n (tab n D))).d (njLoop sel k (star n (tab n D))).L
        (sel (njLoop sel k (star n (tab n D)))).1 (sel (njLoop sel k (star n (tab n D)))).2 ai aj e)
    (hn : 3 ≤ n)
    (htri : Tri3 (njLoop sel n (star n (tab n D))).d) :
    RootReal D (finish (njLoop sel n (star n (tab n D)))) ∧
    Labels n (njLoop sel n (star n (tab n D))) :=
  ⟨finish_real D _ (nj_loop_ends_with_three n hn sel _) (njLoop_inv D sel n _ (star_inv D n hDs hDz) hch) htri,
   njLoop_labels n sel n _ (star_labels n _) hch⟩

/-- quartet ((0:1,1:2):4,2:2,3:3): tips 0,1 form a cherry with pendant lengths 1 and 2 -/
def exD : Mat := [[0, 3, 7, 8], [3, 0, 8, 9], [7, 8, 0, 5], [8, 9, 5, 0]]

/-- Per-instance certificate: `njCertified n d` is a computable check (every pair selected by the model's
`pickPair` is a cherry of the current matrix, the last three nodes satisfy the triangle inequality) that the
driver evaluates on every test matrix; whenever it returns `true`, the tree returned by the model of `nj`
realises `D` and carries exactly the labels.  (This replaces the unproved `nj_selects_cherry` instance by
instance.) -/
theorem nj_realises_additive_checked (D : Nat → Nat → Rat) (n : Nat) (hn : 3 ≤ n)
    (hDs : ∀ a b, D a b = D b a) (hDz : ∀ a, D a a = 0) (hc : njCertified n (tab n D) = true) :
    RootReal D (nj n (tab n D)) ∧ Labels n (njLoop pickPair n (star n (tab n D))) := by
  unfold njCertified at hc
  rw [Bool.and_eq_true] at hc
  have hn2 : n ≠ 2 := by omega
  unfold nj; rw [if_neg hn2]
  exact nj_realises_additive_partial D n pickPair hDs hDz (njCheck_sound pickPair n _ hc.1) hn (tri3B_sound _ hc.2)

example : njCertified 4 exD = true := by decide +kernel

/-- and `nj` (n ≠ 2) is that loop with the model's selection rule followed by `finish` -/
theorem nj_eq_loop (n : Nat) (hn : n ≠ 2) (d : Mat) : nj n d = finish (njLoop pickPair n (star n d)) := by
  unfold nj; rw [if_neg hn]

example : Cherry exD 4 0 1 1 2 (fun k => if k = 2 then 6 else 7) := by
  refine ⟨by decide, by decide, by decide, by decide, by decide, by decide +kernel, ?_, ?_⟩ <;>
  · intro k hk h0 h1
    have : k = 2 ∨ k = 3 := by omega
    rcases this with rfl | rfl <;> decide +kernel

example : pickPair (star 4 exD) = (0, 1) := by decide +kernel
example : nj 4 exD = [(4, .bin 1 (.tip 0) 2 (.tip 1)), (3, .tip 3), (2, .tip 2)] := by decide +kernel
example : Tri3 (njLoop pickPair 4 (star 4 exD)).d := by unfold Tri3; decide +kernel

/- FULL STATEMENT (not proved): `nj_selects_cherry` (Studier & Keppler 1988; Durbin et al. §7.3)
   ∀ (d : Mat) (L : Nat), 3 < L → Sym d L → ZeroDiag d L →
     (d is the path metric of a tree with positive branch lengths on leaves 0..L-1) →
     ∀ score, let (i, j) := pickPair ⟨L, d, nodes, score⟩;
       ∃ ai aj e, Cherry d L i j ai aj e
   (every off-diagonal minimiser of Q(a,b) = d(a,b) − (r_a + r_b)/(L−2) is a pair of neighbours).
   With it the hypothesis `hch` of `nj_realises_additive_partial` is discharged for `sel = pickPair` by
   induction (`nj_reduced_additive` keeps the matrix a tree metric) and NJ returns the generating tree for every
   additive matrix.  Not proved here: the argument needs a formal tree-metric type and the counting
   inequality over the subtrees hanging off the i–j path.  Until then the conclusion is CHECKED PER INSTANCE on
   the real implementation by harness/c15.py (`_JoinRecorder`: every join of nj() on an additive matrix of a
   binary generating tree is a split of that tree), and the final output is compared with the generating
   tree. -/

end CogentModel.C15
