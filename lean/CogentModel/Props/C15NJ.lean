import CogentModel.Model.NJ
import CogentModel.Proofs.NJLemmas
import CogentModel.Proofs.NJSelect
import CogentModel.Proofs.NJTips
import CogentModel.Proofs.TreeSplits
/-! # C15 — property theorems, part 2: neighbour joining -/
namespace CogentModel.C15
open CogentModel.NJ

open CogentModel.NJ

/-- If `(i, j)` is a cherry of the (symmetric, zero-diagonal) matrix `d` on `L > 2` nodes with pendant
lengths `ai, aj ≥ 0`, the two branch lengths computed by `PartialTree.join` are exactly `ai` and `aj`
(the `max(0.0, ·)` clamps are inactive). -/
theorem nj_cherry_lengths (d : Mat) (L i j : Nat) (ai aj : Rat) (e : Nat → Rat) (hL : 2 < L)
    (hs : Sym d L) (hz : ZeroDiag d L) (hc : Cherry d L i j ai aj e) :
    leftLen d L i j = ai ∧ rightLen d L i j = aj :=
  ⟨leftLen_cherry d L i j ai aj e hL hs hz hc, rightLen_cherry d L i j ai aj e hL hs hz hc⟩

/-- The reduced matrix returned by `join` is the metric of the tree with the cherry collapsed into its
parent `u`: entry (a,b) of the shortened array reads position `src a`, `src b` of the old one
(`src` = "the last row moved into slot j"), the new node sits where `src · = i`, its distances are
`e k = d(u,k)`, all other entries are unchanged, and the array stays symmetric with zero diagonal. -/
theorem nj_reduced_additive (d : Mat) (L i j : Nat) (ai aj : Rat) (e : Nat → Rat)
    (hs : Sym d L) (hz : ZeroDiag d L) (hc : Cherry d L i j ai aj e) (a b : Nat) (ha : a < L - 1) (hb : b < L - 1) :
    (src L j a = i → src L j b ≠ i → get (joinMat d L i j) a b = e (src L j b)) ∧
    (src L j a ≠ i → src L j b = i → get (joinMat d L i j) a b = e (src L j a)) ∧
    (src L j a ≠ i → src L j b ≠ i → get (joinMat d L i j) a b = get d (src L j a) (src L j b)) ∧
    get (joinMat d L i j) a b = get (joinMat d L i j) b a ∧ get (joinMat d L i j) a a = 0 := by
  have hab : get (joinMat d L i j) a b = base d i j (src L j a) (src L j b) := by
    unfold joinMat; rw [get_tab _ _ _ _ ha hb]
  have hba : get (joinMat d L i j) b a = base d i j (src L j b) (src L j a) := by
    unfold joinMat; rw [get_tab _ _ _ _ hb ha]
  have haa : get (joinMat d L i j) a a = base d i j (src L j a) (src L j a) := by
    unfold joinMat; rw [get_tab _ _ _ _ ha ha]
  refine ⟨?_, ?_, ?_, ?_, ?_⟩
  · intro hx hy
    rw [hab]; unfold base
    rw [if_neg (fun h => hy h.2), if_pos hx]
    exact newDist_cherry d L i j ai aj e hc _ (src_lt _ _ _ hb) hy (src_ne_j _ _ _ hb)
  · intro hx hy
    rw [hab]; unfold base
    rw [if_neg (fun h => hx h.1), if_neg hx, if_pos hy]
    exact newDist_cherry d L i j ai aj e hc _ (src_lt _ _ _ ha) hx (src_ne_j _ _ _ ha)
  · intro hx hy
    rw [hab]; unfold base
    rw [if_neg (fun h => hx h.1), if_neg hx, if_neg hy]
  · rw [hab, hba]; exact base_sym d L i j _ _ hs (src_lt _ _ _ ha) (src_lt _ _ _ hb)
  · rw [haa]; unfold base
    by_cases h : src L j a = i
    · simp [h]
    · simp [h]; exact hz _ (src_lt _ _ _ ha)

/-- The final three-node resolution (`asScoreTreeTuple`): for a symmetric zero-diagonal 3×3 matrix the three
lengths are `(d_ab + d_ac − d_bc)/2`, so any two of them add up to the corresponding distance. -/
theorem nj_three_point (d : Mat) (hs : Sym d 3) (hz : ZeroDiag d 3) :
    finalLen d 0 + finalLen d 1 = get d 0 1 ∧ finalLen d 0 + finalLen d 2 = get d 0 2 ∧
    finalLen d 1 + finalLen d 2 = get d 1 2 := by
  obtain ⟨f0, f1, f2⟩ := finalLen_vals d hs hz
  rw [f0, f1, f2]
  refine ⟨by ring, by ring, by ring⟩

/-- the loop ends with exactly three nodes when started from `n ≥ 3` labels -/
theorem nj_loop_ends_with_three (n : Nat) (hn : 3 ≤ n) (sel : PT → Nat × Nat) (d : Mat) :
    (njLoop sel n (star n d)).L = 3 :=
  njLoop_L sel n (star n d) hn (by show n - 3 ≤ n; omega)

example : Sym [[0, 3, 4], [3, 0, 5], [4, 5, 0]] 3 ∧ ZeroDiag [[0, 3, 4], [3, 0, 5], [4, 5, 0]] 3 := by
  constructor
  · intro a b ha hb
    have : a = 0 ∨ a = 1 ∨ a = 2 := by omega
    have : b = 0 ∨ b = 1 ∨ b = 2 := by omega
    rcases ‹a = 0 ∨ _› with rfl | rfl | rfl <;> rcases ‹b = 0 ∨ _› with rfl | rfl | rfl <;> decide +kernel
  · intro a ha
    have : a = 0 ∨ a = 1 ∨ a = 2 := by omega
    rcases this with rfl | rfl | rfl <;> decide +kernel
example : finalLen [[0, 3, 4], [3, 0, 5], [4, 5, 0]] 0 = 1 := by decide +kernel

/-- NJ realises `D` whenever every selected pair is a cherry of the current matrix — for ANY selection rule
`sel` (in particular for `pickPair`, the model of `argsort(scores)[first off-diagonal]`, and for any other
tie-breaking).  `D` symmetric with zero diagonal on `n ≥ 3` labels; `hch`: at every state reached by the
loop with more than three nodes the selected pair is a cherry; `htri`: the last three nodes satisfy the
triangle inequality (`n ≥ 3`).  Then in the returned root every child subtree realises `D`, tips under different
children are at path distance `D` through the root, and the tips are exactly the labels `0..n-1`. -/
theorem nj_realises_additive_partial (D : Nat → Nat → Rat) (n : Nat) (sel : PT → Nat × Nat)
    (hDs : ∀ a b, D a b = D b a) (hDz : ∀ a, D a a = 0)
    (hch : ∀ k, 3 < (njLoop sel k (star n (tab n D))).L →
      ∃ ai aj e, Cherry (njLoop sel k (star n (tab n D))).d (njLoop sel k (star n (tab n D))).L
        (sel (njLoop sel k (star n (tab n D)))).1 (sel (njLoop sel k (star n (tab n D)))).2 ai aj e)
    (hn : 3 ≤ n)
    (htri : Tri3 (njLoop sel n (star n (tab n D))).d) :
    RootReal D (finish (njLoop sel n (star n (tab n D)))) ∧
    Labels n (njLoop sel n (star n (tab n D))) :=
  ⟨finish_real D _ (nj_loop_ends_with_three n hn sel _) (njLoop_inv D sel n _ (star_inv D n hDs hDz) hch) htri,
   njLoop_labels n sel n _ (star_labels n _) hch⟩

/-- quartet ((0:1,1:2):4,2:2,3:3): tips 0,1 form a cherry with pendant lengths 1 and 2 -/
def exQuartet : Mat := [[0, 3, 7, 8], [3, 0, 8, 9], [7, 8, 0, 5], [8, 9, 5, 0]]

/-- Per-instance certificate: `njCertified n d` is a computable check (every pair selected by the model's
`pickPair` is a cherry of the current matrix, the last three nodes satisfy the triangle inequality) that the
driver evaluates on every test matrix; whenever it returns `true`, the tree returned by the model of `nj`
realises `D` and carries exactly the labels.  (This replaces the unproved `nj_selects_cherry` instance by
instance.) -/
theorem nj_realises_additive_checked (D : Nat → Nat → Rat) (n : Nat) (hn : 3 ≤ n)
    (hDs : ∀ a b, D a b = D b a) (hDz : ∀ a, D a a = 0) (hc : njCertified n (tab n D) = true) :
    RootReal D (nj n (tab n D)) ∧ Labels n (njLoop pickPair n (star n (tab n D))) := by
  unfold njCertified at hc
  rw [Bool.and_eq_true] at hc
  have hn2 : n ≠ 2 := by omega
  unfold nj; rw [if_neg hn2]
  exact nj_realises_additive_partial D n pickPair hDs hDz (njCheck_sound pickPair n _ hc.1) hn (tri3B_sound _ hc.2)

example : njCertified 4 exQuartet = true := by decide +kernel

/-- and `nj` (n ≠ 2) is that loop with the model's selection rule followed by `finish` -/
theorem nj_eq_loop (n : Nat) (hn : n ≠ 2) (d : Mat) : nj n d = finish (njLoop pickPair n (star n d)) := by
  unfold nj; rw [if_neg hn]

example : Cherry exQuartet 4 0 1 1 2 (fun k => if k = 2 then 6 else 7) := by
  refine ⟨by decide, by decide, by decide, by decide, by decide, by decide +kernel, ?_, ?_⟩ <;>
  · intro k hk h0 h1
    have : k = 2 ∨ k = 3 := by omega
    rcases this with rfl | rfl <;> decide +kernel

example : pickPair (star 4 exQuartet) = (0, 1) := by decide +kernel
example : nj 4 exQuartet = [(4, .bin 1 (.tip 0) 2 (.tip 1)), (3, .tip 3), (2, .tip 2)] := by decide +kernel
example : Tri3 (njLoop pickPair 4 (star 4 exQuartet)).d := by unfold Tri3; decide +kernel

/-! ### Studier–Keppler and the full consistency theorem

A tree on the leaves `0..L-1` is given as a weighted split system (`SplitSystem L Sg`): a list of
(branch length ≥ 0, split) whose splits are pairwise compatible — by Buneman's splits-equivalence theorem
exactly the edge sets of (not necessarily binary) trees; `splitDist Sg x y`, the total length of the branches
separating `x` and `y`, is the tree's path metric.  Zero lengths and multifurcations are allowed, so the
statements cover every additive matrix. -/

/-- **`nj_selects_cherry` (Studier & Keppler 1988)**, for the criterion exactly as `get_dist_saved_join_score_matrix`
forms it (`d[a,b] − (r[a]+r[b])/(L−2)`, halved and shifted by pair-independent terms): on the path metric of a
tree with `L ≥ 4` leaves, EVERY off-diagonal pair attaining the minimum — whichever one a tie-breaking rule
picks — is a pair of neighbours: no branch of positive length with ≥ 2 leaves on both sides separates them, and
the pair is a cherry of the matrix (pendant lengths `ai, aj ≥ 0`, `d i k = ai + e k`, `d j k = aj + e k`). -/
theorem nj_selects_cherry (L : Nat) (hL : 3 < L) (Sg : WSplits) (hS : SplitSystem L Sg) (d : Mat)
    (hd : ∀ a b, a < L → b < L → get d a b = splitDist Sg a b) (i j : Nat) (hi : i < L) (hj : j < L) (hij : i ≠ j)
    (hmin : ∀ x y, x < L → y < L → x ≠ y → qCrit d L i j ≤ qCrit d L x y) :
    NotSep L Sg i j ∧ ∃ ai aj e, Cherry d L i j ai aj e := by
  have hns := minQ_notSep L hL Sg hS d hd i j hi hj hmin
  exact ⟨hns, _, _, _, cherry_of_notSep L Sg hS d hd i j hi hj hij (by omega) hns⟩

/-- the model's selection (`pickPair`: first minimum of the score matrix in flat order) is one such minimiser -/
theorem nj_pickPair_minimises : MinQ pickPair := pickPair_minQ

/-- the reduced matrix returned by `join` on a selected pair is again the path metric of a tree (the tree with the
cherry collapsed, re-indexed as the code does) -/
theorem nj_reduced_is_tree_metric (sel : PT → Nat × Nat) (hsel : MinQ sel) (pt : PT) (hL : 3 < pt.L)
    (hm : IsSplitMetric pt.L pt.d) :
    IsSplitMetric (join pt (sel pt).1 (sel pt).2).L (join pt (sel pt).1 (sel pt).2).d :=
  join_isSplitMetric sel hsel pt hL hm

/-- **`nj_realises_additive` (FULL)**: for EVERY tree with non-negative branch lengths on `n ≥ 3` leaves (any
shape, any multifurcation, any leaf order) and EVERY selection rule that returns a minimiser of the Q-criterion,
neighbour joining as coded (`join` with its clamps and row shuffling, the loop down to three nodes, the final
three-point step) returns a tree in which the path length between any two tips equals the matrix entry and
whose tips, read left to right, are a permutation of the labels `0..n-1` (each label exactly once).  (By uniqueness of tree realisations this is the generating tree up to
zero-length edges.) -/
theorem nj_realises_additive (n : Nat) (hn : 3 ≤ n) (Sg : WSplits) (hS : SplitSystem n Sg)
    (sel : PT → Nat × Nat) (hsel : MinQ sel) :
    RootReal (splitDist Sg) (finish (njLoop sel n (star n (tab n (splitDist Sg))))) ∧
    (rootTips (finish (njLoop sel n (star n (tab n (splitDist Sg)))))).Perm (List.range n) := by
  have hm := star_isSplitMetric n Sg hS
  refine ⟨?_, finish_tips_perm n _ (nj_loop_ends_with_three n hn sel _)
    (njLoop_tipsOnce n sel (fun pt h => let ⟨a, b, c, _⟩ := hsel pt h; ⟨a, b, c⟩) n _ (star_tipsOnce n _))⟩
  apply (nj_realises_additive_partial (splitDist Sg) n sel (splitDist_symm Sg) (splitDist_self Sg)
    (minQ_cherries sel hsel _ hm) hn ?_).1
  have h3 := nj_loop_ends_with_three n hn sel (tab n (splitDist Sg))
  have := njLoop_isSplitMetric sel hsel n _ hm
  rw [h3] at this
  exact isSplitMetric_tri3 _ this

/-- the same for the model of `nj` itself (selection = first minimum, as `gnj(keep=1)`) -/
theorem nj_model_realises_additive (n : Nat) (hn : 3 ≤ n) (Sg : WSplits) (hS : SplitSystem n Sg) :
    RootReal (splitDist Sg) (nj n (tab n (splitDist Sg))) ∧
    (rootTips (nj n (tab n (splitDist Sg)))).Perm (List.range n) := by
  rw [nj_eq_loop n (by omega)]
  exact nj_realises_additive n hn Sg hS pickPair pickPair_minQ

/-- the quartet ((0:1,1:2):4,2:2,3:3) as a split system: four pendant branches and the internal branch {0,1}|{2,3} -/
def exSplits : WSplits :=
  [(1, fun x => x == 0), (2, fun x => x == 1), (2, fun x => x == 2), (3, fun x => x == 3), (4, fun x => x == 0 || x == 1)]

example : tab 4 (splitDist exSplits) = exQuartet := by decide +kernel

example : SplitSystem 4 exSplits := by
  constructor
  · intro S hS
    simp only [exSplits, List.mem_cons, List.not_mem_nil, or_false] at hS
    rcases hS with rfl | rfl | rfl | rfl | rfl <;> norm_num
  · intro S hS T hT
    simp only [exSplits, List.mem_cons, List.not_mem_nil, or_false] at hS hT
    have key : ∀ (s t : Side), (∃ a b : Bool, ∀ x, x < 4 → ¬ (s x = a ∧ t x = b)) → Compat 4 s t := fun _ _ h => h
    rcases hS with rfl | rfl | rfl | rfl | rfl <;> rcases hT with rfl | rfl | rfl | rfl | rfl <;>
      apply key <;> decide


/-! ### generating trees

A generating tree is a rooted binary tree `g : T` (`tip` / `bin l₁ t₁ l₂ t₂`, the type the model itself uses for
its output) with branch lengths ≥ 0 — a multifurcation is a binary resolution with zero-length edges, a tree
"with positive branch lengths" is the special case where all lengths are > 0 — whose tips are the labels
`0..n-1` in ANY order.  `pathMetric g` is its matrix of path lengths. -/

/-- the path metric of a generating tree: total length of the branches separating two tips -/
def pathMetric (g : T) : Nat → Nat → Rat := splitDist (splitsOf g)

/-- `pathMetric g` is realised by `g`: in every subtree, two tips under different children are at distance
(depth + branch + branch + depth) — the same predicate `Real` that describes the output of `nj` -/
theorem pathMetric_is_path_length (g : T) (hnd : g.tips.Nodup) : Real (pathMetric g) g :=
  splitDist_real g hnd (pathMetric g) (fun _ _ _ _ => rfl)

/-- **NJ returns the generating tree's metric, for every generating tree**: `g` any binary tree with branch
lengths ≥ 0 whose tips are a permutation of `0..n-1`, `n ≥ 3`; `D` its path-length matrix; `sel` any rule
returning a minimiser of the Q-criterion (e.g. the model's `pickPair`).  The tree built by the code's NJ from
`D` has path length `D x y` between any two tips `x, y` and its tips are exactly the labels, each once — so it
is a tree realisation of the same metric as `g` (the generating tree up to zero-length edges and rooting). -/
theorem nj_returns_generating_tree (g : T) (n : Nat) (hn : 3 ≤ n) (hnn : NonNegT g)
    (htips : g.tips.Perm (List.range n)) (sel : PT → Nat × Nat) (hsel : MinQ sel) :
    Real (pathMetric g) g ∧
    RootReal (pathMetric g) (finish (njLoop sel n (star n (tab n (pathMetric g))))) ∧
    (rootTips (finish (njLoop sel n (star n (tab n (pathMetric g)))))).Perm (List.range n) := by
  have hnd : g.tips.Nodup := (List.Perm.nodup_iff htips).2 List.nodup_range
  exact ⟨pathMetric_is_path_length g hnd,
    nj_realises_additive n hn (splitsOf g) (splitsOf_system g n hnn hnd) sel hsel⟩

/-- caterpillar (((0:1,1:2):4,2:2):1,3:2) with its tips listed in the order 0,1,2,3 -/
def exTree : T := .bin 1 (.bin 4 (.bin 1 (.tip 0) 2 (.tip 1)) 2 (.tip 2)) 2 (.tip 3)

example : NonNegT exTree ∧ exTree.tips.Perm (List.range 4) := by
  refine ⟨by unfold exTree NonNegT NonNegT NonNegT NonNegT; norm_num, by decide⟩
example : tab 4 (pathMetric exTree) = exQuartet := by decide +kernel
example : nj 4 (tab 4 (pathMetric exTree)) = [(4, .bin 1 (.tip 0) 2 (.tip 1)), (3, .tip 3), (2, .tip 2)] := by
  decide +kernel

end CogentModel.C15
