/-
  C04, translator tie: every definition GENERATED from the current python source of
  `Sequence.get_features` / `Sequence.make_feature` / `parent_coordinates` (core/sequence.py -> GenOld,
  core/new_sequence.py -> GenNew) and of `_spans_from_locations` / `MapABC.from_locations` /
  `FeatureMap.nucleic_reversed` (core/location.py -> GenLoc) by translator/c04_feature2lean.py equals the hand model
  `Model/FeatureView.lean` FOR ALL ARGUMENTS, so the theorems of Props/C04.lean are theorems about the translated code
  (two of them are restated on the generated definitions below).  A semantic edit of the python changes
  `Gen/C04Feature.lean` and one of these proofs stops checking.
-/
import CogentModel.Gen.C04Feature
import CogentModel.Proofs.C04GenAux
import CogentModel.Spec.FeatureView
import CogentModel.Proofs.FeatureView
import CogentModel.Proofs.FeatureOnView
import CogentModel.Proofs.FeatureAdd
namespace CogentModel.C04
open CogentModel.View CogentModel.FeatureView CogentModel.FeatureSpec CogentModel.C04Gen

/-- `location._spans_from_locations` as translated = `spansFromLocations` of the hand model (every location list, every length) -/
theorem gen_spans_from_locations_eq (locs : List (Int × Int)) (L : Int) :
    GenLoc.spansFromLocations locs L = FeatureView.spansFromLocations L locs := by
  unfold GenLoc.spansFromLocations FeatureView.spansFromLocations
  cases locs with
  | nil => simp [firstLastOk, mapExcept]
  | cons p ps =>
    rw [mapExcept_congr (g := locate L)]
    · have hne : ¬ ¬ (((p :: ps).length : Int) ≠ 0) := by simp; omega
      rw [if_neg hne]
      have h := firstLast_cons p ps
      by_cases hc : firstLastOk (p :: ps) = false
      · rw [if_pos (h.mpr hc)]; simp [hc]
      · rw [if_neg (fun x => hc (h.mp x))]
        simp only [Bool.not_eq_false] at hc
        simp only [hc, Bool.not_true, Bool.false_eq_true, if_false]
        cases mapExcept (locate L) (p :: ps) <;> rfl
    · intro x
      simp only [locate, pyabs]
      split_ifs <;> simp_all <;> omega


example : GenLoc.spansFromLocations [(1, 3), (4, 9)] 6 = .ok [.span 1 3, .span 4 6, .lost 3] ∧
    GenLoc.spansFromLocations [(4, 9), (1, 3)] 6 = .error .valueError ∧
    GenLoc.spansFromLocations [(7, 9)] 6 = .error .runtimeError := by decide

/-- `MapABC.from_locations` as translated (for a FeatureMap) -/
theorem gen_from_locations_eq (locs : List (Int × Int)) (L : Int) :
    GenLoc.fromLocations locs L =
      (match FeatureView.spansFromLocations L locs with
       | .error e => .error e
       | .ok m => .ok (FMapG.mk m L)) := by
  unfold GenLoc.fromLocations
  rw [gen_spans_from_locations_eq]
  cases locs with
  | nil => simp [FeatureView.spansFromLocations, firstLastOk, mapExcept]
  | cons p ps =>
    have hne : (((p :: ps).length : Int) ≠ 0) := by simp; omega
    rw [if_pos hne]
    cases FeatureView.spansFromLocations L (p :: ps) <;> rfl


example : GenLoc.fromLocations [] 6 = .ok ⟨[], 6⟩ ∧ GenLoc.fromLocations [(1, 3), (4, 9)] 6 = .ok ⟨[.span 1 3, .span 4 6, .lost 3], 6⟩ := by decide

/-- `FeatureMap.nucleic_reversed` as translated = `revSpan` on every span, then reversed -/
theorem gen_nucleic_reversed_eq (fm : FMapG) :
    GenLoc.nucleicReversed fm =
      (match mapExcept (revSpan fm.parentLength) fm.spans with
       | .error e => .error e
       | .ok r => .ok (FMapG.mk r.reverse fm.parentLength)) := by
  unfold GenLoc.nucleicReversed
  simp only []
  rw [mapExcept_congr (g := fun x => okSingle (revSpan fm.parentLength x))]
  · rw [mapExcept_single]
    cases mapExcept (revSpan fm.parentLength) fm.spans <;> simp [flatten_map_single]
  · intro x
    cases x <;> simp [okSingle, revSpan, MSpan.isLost, MSpan.stop, MSpan.length] <;> split_ifs <;> simp_all <;> omega


example : GenLoc.nucleicReversed ⟨[.lost 2, .span 0 3, .span 5 6], 8⟩ = .ok ⟨[.span 2 3, .span 5 8, .lost 2], 8⟩ := by decide

theorem gen_makeFeature_old_eq (v : View) (minus : Bool) (spans : List (Int × Int)) :
    GenOld.makeFeature v minus spans = FeatureView.makeFeature (len v) (isReversed v) minus spans := by
  unfold GenOld.makeFeature FeatureView.makeFeature
  simp only []
  rw [mapExcept_congr (g := fun c => .ok ((clipSpan (len v) c).toList))]
  · rw [mapExcept_pure]
    simp only [flatten_map_toList, gen_from_locations_eq]
    cases hs : FeatureView.spansFromLocations (len v) (List.filterMap (clipSpan (len v)) spans) with
    | error e => rfl
    | ok m =>
      simp only [gen_nucleic_reversed_eq, pyabs]
      generalize minOfSpans spans = a
      generalize maxOfSpans spans = b
      generalize len v = L
      cases hr : isReversed v <;> simp <;> split_ifs <;> simp_all <;> (first | omega | (split <;> split <;> simp_all <;> (subst_vars; rfl)))
  · intro c
    simp only [clipSpan]
    split_ifs <;> simp_all


theorem gen_makeFeature_new_eq (v : View) (minus : Bool) (spans : List (Int × Int)) :
    GenNew.makeFeature v minus spans = FeatureView.makeFeature (len v) (isReversed v) minus spans := by
  unfold GenNew.makeFeature FeatureView.makeFeature
  simp only []
  rw [mapExcept_congr (g := fun c => .ok ((clipSpan (len v) c).toList))]
  · rw [mapExcept_pure]
    simp only [flatten_map_toList, gen_from_locations_eq]
    cases hs : FeatureView.spansFromLocations (len v) (List.filterMap (clipSpan (len v)) spans) with
    | error e => rfl
    | ok m =>
      simp only [gen_nucleic_reversed_eq, pyabs]
      generalize minOfSpans spans = a
      generalize maxOfSpans spans = b
      generalize len v = L
      cases hr : isReversed v <;> simp <;> split_ifs <;> simp_all <;> (first | omega | (split <;> split <;> simp_all <;> (subst_vars; rfl)))
  · intro c
    simp only [clipSpan]
    split_ifs <;> simp_all

theorem gen_queryWindow_old_eq (v : View) (start stop : Option Int) :
    GenOld.queryWindow v start stop = FeatureView.queryWindow v start stop := by
  unfold GenOld.queryWindow FeatureView.queryWindow
  simp only []
  split <;> split <;> simp_all [isReversed] <;> split_ifs <;> simp_all


theorem gen_queryWindow_new_eq (v : View) (start stop : Option Int) :
    GenNew.queryWindow v start stop = FeatureView.queryWindow v start stop := by
  unfold GenNew.queryWindow FeatureView.queryWindow
  simp only []
  split <;> split <;> simp_all [isReversed] <;> split_ifs <;> simp_all

theorem gen_featureOnView_old_eq (v : View) (minus : Bool) (dbSpans : List (Int × Int)) :
    GenOld.featureOnView v minus dbSpans = FeatureView.featureOnView v minus dbSpans := by
  unfold GenOld.featureOnView FeatureView.featureOnView
  simp only [relSpans_mapCoords_eq, gen_makeFeature_old_eq]
  rw [mapCoords_congr (g := fun c => liftErr (relativePosition v c false))]
  · cases mapCoords (fun c => liftErr (relativePosition v c false)) dbSpans <;> simp [isReversed, Function.comp_def] <;> (try (split_ifs <;> simp_all [Function.comp_def]))
  · intro c; cases liftErr (relativePosition v c false) <;> rfl


theorem gen_featureOnView_new_eq (v : View) (minus : Bool) (dbSpans : List (Int × Int)) :
    GenNew.featureOnView v minus dbSpans = FeatureView.featureOnView v minus dbSpans := by
  unfold GenNew.featureOnView FeatureView.featureOnView
  simp only [relSpans_mapCoords_eq, gen_makeFeature_new_eq]
  rw [mapCoords_congr (g := fun c => liftErr (relativePosition v c false))]
  · cases mapCoords (fun c => liftErr (relativePosition v c false)) dbSpans <;> simp [isReversed, Function.comp_def] <;> (try (split_ifs <;> simp_all [Function.comp_def]))
  · intro c; cases liftErr (relativePosition v c false) <;> rfl


example : GenOld.makeFeature { start := 2, stop := 8, step := 1, offset := 0, seqLen := 10 } true [(-2, 1), (2, 3), (5, 9)] =
      .ok { spans := [.lost 2, .span 0 1, .span 2 3, .span 5 6, .lost 3], reversed := true } ∧
    GenNew.makeFeature { start := -3, stop := -9, step := -1, offset := 0, seqLen := 10 } true [(-2, 1), (2, 3), (5, 9)] =
      .ok { spans := [.lost 3, .span 0 1, .span 3 4, .span 5 6, .lost 2], reversed := false } := by decide

/-- `feature_positions_on_view` restated on the TRANSLATED code: on every unit-stride view satisfying C01's invariant
the code translated from `get_features` / `make_feature` builds the feature without exception and the positions read by
`get_slice` are exactly `denote` (feature spans ∩ retained segment, in reading order). -/
theorem generated_feature_positions_on_view (v : View) (h : UnitView v) (hl : 0 < len v) (minus : Bool)
    (spans : List (Int × Int)) (hsp : ∀ sp ∈ spans, 0 ≤ sp.1 ∧ sp.1 < sp.2)
    (hsorted : spans.Pairwise (fun a b => a.1 ≤ b.1)) :
    ∃ f, GenOld.featureOnView v minus spans = .ok f ∧ GenNew.featureOnView v minus spans = .ok f ∧
      slicePositions v f = denote spans minus (segStart v) (segStart v + len v) := by
  obtain ⟨f, hf, hs⟩ := featureOnView_spec v h hl minus spans hsp hsorted
  exact ⟨f, by rw [gen_featureOnView_old_eq, hf], by rw [gen_featureOnView_new_eq, hf], hs⟩

example : (match GenOld.featureOnView { start := -3, stop := -8, step := -1, offset := 5, seqLen := 8 } false [(5, 8), (9, 12)] with
      | .ok f => slicePositions { start := -3, stop := -8, step := -1, offset := 5, seqLen := 8 } f == ([6, 7, 9, 10], false)
      | .error _ => false) = true := by
  decide

/-- `query_window_exact` restated on the TRANSLATED window arithmetic of `get_features` -/
theorem generated_query_window_exact (v : View) (h : UnitView v) (a b : Int) (ha : 0 ≤ a) (hab : a < b) (hb : b ≤ len v)
    (hoff : 0 ≤ v.offset) :
    GenOld.queryWindow v (some a) (some b) =
      .ok (if v.step < 0 then (segStart v + (len v - b), segStart v + (len v - a))
           else (segStart v + a, segStart v + b)) ∧
    GenNew.queryWindow v (some a) (some b) = GenOld.queryWindow v (some a) (some b) := by
  rw [gen_queryWindow_new_eq, gen_queryWindow_old_eq]
  exact ⟨queryWindow_exact v h a b ha hab hb hoff, rfl⟩

example : GenNew.queryWindow { start := -3, stop := -9, step := -1, offset := 5, seqLen := 10 } (some 1) (some 4) = .ok (9, 12) := by
  decide

/-! ## `Sequence.add_feature` (translated whole: the db record AND the returned Feature) -/

/-- `Sequence.add_feature` of core/sequence.py as translated (with the inlined `annotation_offset` property =
`self._seq.parent_start`) = the hand model `addFeature` (Model/FeatureAdd.lean), every view, span list and strand -/
theorem gen_addFeature_old_eq (v : View) (spans : List (Int × Int)) (minus : Bool) :
    GenOld.addFeature v spans minus = FeatureView.addFeature v spans minus := by
  unfold GenOld.addFeature FeatureView.addFeature addFeatureRecord addRelSpans
  simp only [gen_makeFeature_old_eq, sortRows_eq, isReversed]
  by_cases h : v.step < 0
  · simp only [h, decide_true, if_true]
    cases parentStart v with
    | error e => cases e <;> rfl
    | ok off => cases minus <;> simp [liftErr] <;> rfl
  · simp only [h, decide_false, if_false]
    cases parentStart v with
    | error e => cases e <;> simp [liftErr]
    | ok off => simp [liftErr]; rfl

theorem gen_addFeature_new_eq (v : View) (spans : List (Int × Int)) (minus : Bool) :
    GenNew.addFeature v spans minus = FeatureView.addFeature v spans minus := by
  unfold GenNew.addFeature FeatureView.addFeature addFeatureRecord addRelSpans
  simp only [gen_makeFeature_new_eq, sortRows_eq, isReversed]
  by_cases h : v.step < 0
  · simp only [h, decide_true, if_true]
    cases parentStart v with
    | error e => cases e <;> rfl
    | ok off => cases minus <;> simp [liftErr] <;> rfl
  · simp only [h, decide_false, if_false]
    cases parentStart v with
    | error e => cases e <;> simp [liftErr]
    | ok off => simp [liftErr]; rfl

-- `s[3:11].rc()` of a 15-mer: spans (1,3),(5,8) as seen on the view; record in absolute plus-strand coordinates, strand
-- flipped; the returned feature has exactly the spans given and is not reversed relative to the view
example : GenOld.addFeature { start := -5, stop := -13, step := -1, offset := 0, seqLen := 15 } [(1, 3), (5, 8)] false
    = .ok (([(3, 6), (8, 10)], true), { spans := [.span 1 3, .span 5 8], reversed := false }) := by decide

/-- `added_feature_denotes_view_spans` restated on the TRANSLATED code, and extended to the Feature `add_feature`
itself returns: on every unit-stride view (forward / rc'd, sliced, with offset) the translated `add_feature` does not
raise, the Feature it returns IS the feature the translated `get_features` loop builds from the record it wrote
(old and new module), its real spans are exactly the spans given and it is reversed iff the strand given is `-`. -/
theorem generated_added_feature_denotes_view_spans (v : View) (h : UnitView v) (hl : 0 < len v) (hoff : 0 ≤ v.offset)
    (minus : Bool) (spans : List (Int × Int)) (hs : ViewSpans (len v) spans) :
    ∃ db dm f, GenOld.addFeature v spans minus = .ok ((db, dm), f) ∧ GenNew.addFeature v spans minus = .ok ((db, dm), f) ∧
      GenOld.featureOnView v dm db = .ok f ∧ GenNew.featureOnView v dm db = .ok f ∧
      sliceIdx f = spans.flatMap (fun sp => seg sp.1 sp.2) ∧ f.reversed = minus := by
  obtain ⟨db, dm, f, h1, h2, h3, h4⟩ := addFeature_spec v h hl hoff minus spans hs
  exact ⟨db, dm, f, by rw [gen_addFeature_old_eq, h1], by rw [gen_addFeature_new_eq, h1],
    by rw [gen_featureOnView_old_eq, h2], by rw [gen_featureOnView_new_eq, h2], by rw [sliceIdx_eq, h3], h4⟩

example : (match GenNew.addFeature { start := 3, stop := 11, step := 1, offset := 4, seqLen := 15 } [(1, 3), (5, 8)] true with
      | .ok ((db, dm), f) => db == [(8, 10), (12, 15)] && dm && GenNew.featureOnView { start := 3, stop := 11, step := 1, offset := 4, seqLen := 15 } dm db == .ok f
      | .error _ => false) = true := by
  decide

end CogentModel.C04
