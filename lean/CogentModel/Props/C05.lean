import CogentModel.Model.RateMatrix
import CogentModel.Model.Expm
import CogentModel.Proofs.RateMatrixLemmas
import CogentModel.Proofs.ExpmLemmas
import CogentModel.Proofs.MotifProbLemmas
import Mathlib.Tactic.NormNum
/-!
# C05 — substitution processes are valid, calibrated Markov processes

Property theorems about the executable model (`Model/RateMatrix.lean`, `Model/Expm.lean`), for an
**arbitrary field** `K` (ordered where signs are involved), arbitrary dimension `n`, arbitrary
matrices / parameter vectors.  `sumTo n f` is the model's `∑_{k<n} f k`, `mget M i j` its entry.
The theorems about the *true* matrix exponential over `ℝ` are in `Props/C05Real.lean`.
-/
namespace CogentModel.C05
open CogentModel.RateMatrix CogentModel.Expm Finset

section field
variable {K : Type*} [Field K]

/-! ## rate matrices -/

/-- Rows of the general (`_ContinuousSubstitutionModel.calcQ`) rate matrix sum to zero — for every
exchangeability matrix, every `π`, even a zero normaliser. -/
theorem calcQ_rowsum_zero (n : Nat) (R : Mat K) (pi : Vec K) (i : Nat) (hi : i < n) :
    sumTo n (fun j => mget (calcQGeneral n R pi) i j) = 0 :=
  finishQ_rowsum_zero n R pi hi

example : sumTo 2 (fun j => mget (calcQGeneral 2 (#[#[0, 2], #[3, 0]] : Mat ℚ) #[1/4, 3/4]) 1 j) = 0 :=
  calcQ_rowsum_zero 2 _ _ 1 (by decide)

/-- Rows of the stationary (`StationaryQ.calcQ`, `Q = R ∘ mprobs_matrix`) rate matrix sum to zero. -/
theorem stationaryQ_rowsum_zero (n : Nat) (R W : Mat K) (pi : Vec K) (i : Nat) (hi : i < n) :
    sumTo n (fun j => mget (calcQStationary n R W pi) i j) = 0 :=
  finishQ_rowsum_zero n _ pi hi

example : sumTo 2 (fun j => mget (calcQStationary 2 (#[#[0, 2], #[2, 0]] : Mat ℚ) (weightSimple 2 #[1/4, 3/4]) #[1/4, 3/4]) 0 j) = 0 :=
  stationaryQ_rowsum_zero 2 _ _ _ 0 (by decide)

/-- Calibration: the expected rate at `π` is one, `-∑ π_i Q_ii = 1`, whenever the exchangeability matrix
has a zero diagonal and the normaliser `∑ π_i · rowsum_i` is non-zero (a branch length *is* the
expected number of substitutions per site). -/
theorem calcQ_calibrated (n : Nat) (R : Mat K) (pi : Vec K) (hdiag : ∀ i, i < n → mget R i i = 0)
    (hnorm : sumTo n (fun i => vget pi i * sumTo n (fun j => mget R i j)) ≠ 0) :
    - sumTo n (fun i => vget pi i * mget (calcQGeneral n R pi) i i) = 1 := by
  apply finishQ_calibrated n R pi hdiag
  rw [sumTo_eq_sum] at hnorm
  rwa [Finset.sum_congr rfl fun k _ => by rw [← sumTo_eq_sum]]

example : ∃ (R : Mat ℚ) (pi : Vec ℚ), (∀ i, i < 2 → mget R i i = 0) ∧
    sumTo 2 (fun i => vget pi i * sumTo 2 (fun j => mget R i j)) ≠ 0 :=
  ⟨#[#[0, 2], #[3, 0]], #[1/4, 3/4], by decide +kernel, by decide +kernel⟩

/-- Calibration of the stationary construction (same statement with `R ∘ W`). -/
theorem stationaryQ_calibrated (n : Nat) (R W : Mat K) (pi : Vec K) (hdiag : ∀ i, i < n → mget R i i = 0)
    (hnorm : sumTo n (fun i => vget pi i * sumTo n (fun j => mget R i j * mget W i j)) ≠ 0) :
    - sumTo n (fun i => vget pi i * mget (calcQStationary n R W pi) i i) = 1 := by
  apply finishQ_calibrated n _ pi
  · intro i hi; rw [mget_tab _ hi hi, hdiag i hi, zero_mul]
  · rw [sumTo_eq_sum] at hnorm
    rwa [Finset.sum_congr rfl fun k hk => by
      rw [← sumTo_eq_sum, sumTo_congr fun l hl => mget_tab _ (Finset.mem_range.mp hk) hl]]

example : ∃ (R W : Mat ℚ) (pi : Vec ℚ), (∀ i, i < 2 → mget R i i = 0) ∧
    sumTo 2 (fun i => vget pi i * sumTo 2 (fun j => mget R i j * mget W i j)) ≠ 0 :=
  ⟨#[#[0, 2], #[2, 0]], weightSimple 2 #[1/4, 3/4], #[1/4, 3/4], by decide +kernel, by decide +kernel⟩

/-- Stationarity from flow balance: if for every state the `π`-weighted un-normalised inflow equals the
outflow (this is what `GeneralStationary` enforces column by column, and what detailed balance gives),
then `π Q = 0`. -/
theorem stationaryQ_stationary (n : Nat) (R W : Mat K) (pi : Vec K)
    (hbal : ∀ j, j < n → sumTo n (fun i => vget pi i * (mget R i j * mget W i j)) =
        vget pi j * sumTo n (fun k => mget R j k * mget W j k))
    (j : Nat) (hj : j < n) :
    sumTo n (fun i => vget pi i * mget (calcQStationary n R W pi) i j) = 0 := by
  apply finishQ_stationary n _ pi _ hj
  intro j hj
  have := hbal j hj
  rw [sumTo_eq_sum, sumTo_eq_sum] at this
  rw [Finset.sum_congr rfl fun i hi => by rw [mget_tab _ (Finset.mem_range.mp hi) hj],
    Finset.sum_congr rfl fun k hk => mget_tab _ hj (Finset.mem_range.mp hk)]
  exact this

-- (audit) the flow-balance hypothesis is satisfiable by a **non-reversible** process: 3-cycle, uniform π, W = 1
example : let R : Mat ℚ := #[#[0, 1, 0], #[0, 0, 1], #[1, 0, 0]]
    let W : Mat ℚ := #[#[1, 1, 1], #[1, 1, 1], #[1, 1, 1]]
    let pi : Vec ℚ := #[1/3, 1/3, 1/3]
    (∀ j, j < 3 → sumTo 3 (fun i => vget pi i * (mget R i j * mget W i j)) =
        vget pi j * sumTo 3 (fun k => mget R j k * mget W j k)) ∧
    ¬ (vget pi 0 * (mget R 0 1 * mget W 0 1) = vget pi 1 * (mget R 1 0 * mget W 1 0)) := by
  decide +kernel

/-- Detailed balance for the time-reversible construction: if the un-normalised rates are balanced,
`π_i R_ij W_ij = π_j R_ji W_ji`, then `π_i Q_ij = π_j Q_ji` for all `i, j`. -/
theorem reversible_detailed_balance (n : Nat) (R W : Mat K) (pi : Vec K)
    (hdb : ∀ i j, i < n → j < n → vget pi i * (mget R i j * mget W i j) = vget pi j * (mget R j i * mget W j i))
    (i j : Nat) (hi : i < n) (hj : j < n) :
    vget pi i * mget (calcQStationary n R W pi) i j = vget pi j * mget (calcQStationary n R W pi) j i := by
  apply finishQ_detailed_balance n _ pi _ hi hj
  intro a b ha hb
  rw [mget_tab _ ha hb, mget_tab _ hb ha]
  exact hdb a b ha hb

/-- With the simple (`tuple`) motif-prob model, `W_ij = π_j`, a symmetric exchangeability matrix gives
detailed balance … -/
theorem reversible_detailed_balance_simple (n : Nat) (R : Mat K) (pi : Vec K)
    (hsym : ∀ i j, i < n → j < n → mget R i j = mget R j i)
    (i j : Nat) (hi : i < n) (hj : j < n) :
    vget pi i * mget (calcQStationary n R (weightSimple n pi) pi) i j =
      vget pi j * mget (calcQStationary n R (weightSimple n pi) pi) j i := by
  apply reversible_detailed_balance n R _ pi _ i j hi hj
  intro a b ha hb
  unfold weightSimple
  rw [mget_tab _ ha hb, mget_tab _ hb ha, hsym a b ha hb]
  ring

/-- … and hence stationarity of the motif probabilities: `π Q = 0`. -/
theorem stationaryQ_stationary_simple (n : Nat) (R : Mat K) (pi : Vec K)
    (hsym : ∀ i j, i < n → j < n → mget R i j = mget R j i) (j : Nat) (hj : j < n) :
    sumTo n (fun i => vget pi i * mget (calcQStationary n R (weightSimple n pi) pi) i j) = 0 := by
  rw [sumTo_congr fun i hi => reversible_detailed_balance_simple n R pi hsym i j hi hj,
    sumTo_eq_sum, ← Finset.mul_sum, ← sumTo_eq_sum, stationaryQ_rowsum_zero n R _ pi j hj, mul_zero]

example : ∀ i j, i < 2 → j < 2 → mget (#[#[0, 2], #[2, 0]] : Mat ℚ) i j = mget (#[#[0, 2], #[2, 0]] : Mat ℚ) j i :=
  fun i j hi hj => (by decide +kernel : ∀ i, i < 2 → ∀ j, j < 2 →
    mget (#[#[0, 2], #[2, 0]] : Mat ℚ) i j = mget (#[#[0, 2], #[2, 0]] : Mat ℚ) j i) i hi j hj

/-- Detailed balance of `Q` gives stationarity of `π` (used for every time-reversible construction below). -/
theorem stationary_of_detailed_balance (n : Nat) (Q : Mat K) (pi : Vec K)
    (hrow : ∀ j, j < n → sumTo n (fun k => mget Q j k) = 0)
    (hdb : ∀ i j, i < n → j < n → vget pi i * mget Q i j = vget pi j * mget Q j i) (j : Nat) (hj : j < n) :
    sumTo n (fun i => vget pi i * mget Q i j) = 0 := by
  rw [sumTo_congr fun i hi => hdb i j hi hj, sumTo_eq_sum, ← Finset.mul_sum, ← sumTo_eq_sum, hrow j hj, mul_zero]

/-- Time-reversible models with the **conditional** motif-prob model (GTR, CNFGTR, CNFHKY; the default for word
alphabets): `W_ij = π_j / P(context of j at the changed position)`.  If the exchangeability matrix is symmetric and
vanishes off the instantaneous mask, the mask is symmetric, and instantaneous pairs differ at exactly one position
(`sameContext`), then detailed balance holds — including the `context_probs == 0 → inf` branch. -/
theorem reversible_detailed_balance_conditional [DecidableEq K] (words : Array (Array Nat)) (L : Nat) (inst : Mat Bool)
    (pi : Vec K) (R : Mat K)
    (hR : ∀ i j, i < words.size → j < words.size → mget R i j = mget R j i)
    (hzero : ∀ i j, i < words.size → j < words.size → bget inst i j = false → mget R i j = 0)
    (hinst : ∀ i j, i < words.size → j < words.size → bget inst i j = bget inst j i)
    (hctx : ∀ i j, i < words.size → j < words.size → bget inst i j = true →
      sameContext (firstDiff (wordAt words i) (wordAt words j)) 0 (wordAt words i) (wordAt words j) = true)
    (i j : Nat) (hi : i < words.size) (hj : j < words.size) :
    vget pi i * mget (calcQStationary words.size R (weightConditional words L inst pi) pi) i j =
      vget pi j * mget (calcQStationary words.size R (weightConditional words L inst pi) pi) j i :=
  reversible_detailed_balance words.size R _ pi
    (fun a b ha hb => weightConditional_balanced words L inst pi R hR hzero hinst hctx a b ha hb) i j hi hj

/-- the dinucleotide alphabet over two letters: the model's own `instMask` meets the hypotheses -/
example : ∀ i, i < 4 → ∀ j, j < 4 → bget (instMask false 2 #[#[0, 0], #[0, 1], #[1, 0], #[1, 1]]) i j = true →
    sameContext (firstDiff (wordAt #[#[0, 0], #[0, 1], #[1, 0], #[1, 1]] i) (wordAt #[#[0, 0], #[0, 1], #[1, 0], #[1, 1]] j)) 0
      (wordAt #[#[0, 0], #[0, 1], #[1, 0], #[1, 1]] i) (wordAt #[#[0, 0], #[0, 1], #[1, 0], #[1, 1]] j) = true := by
  decide +kernel

/-- Time-reversible models with the **monomer** / position-specific monomer motif-prob models (MG94HKY, MG94GTR):
word probabilities are normalised products of monomer probabilities and `W_ij` is the probability of the
new monomer; detailed balance holds w.r.t. the model's own word probabilities. -/
theorem reversible_detailed_balance_monomer (words : Array (Array Nat)) (L : Nat) (inst : Mat Bool)
    (mp : Nat → Vec K) (R : Mat K)
    (hR : ∀ i j, i < words.size → j < words.size → mget R i j = mget R j i)
    (hzero : ∀ i j, i < words.size → j < words.size → bget inst i j = false → mget R i j = 0)
    (hinst : ∀ i j, i < words.size → j < words.size → bget inst i j = bget inst j i)
    (hagree : ∀ i j, i < words.size → j < words.size → bget inst i j = true →
      firstDiff (wordAt words i) (wordAt words j) < L ∧
      ∀ k, k < L → k ≠ firstDiff (wordAt words i) (wordAt words j) →
        (words.getD i #[]).getD k 0 = (words.getD j #[]).getD k 0)
    (i j : Nat) (hi : i < words.size) (hj : j < words.size) :
    vget (wordProbsMonomer words L mp) i *
        mget (calcQStationary words.size R (weightMonomer words inst mp) (wordProbsMonomer words L mp)) i j =
      vget (wordProbsMonomer words L mp) j *
        mget (calcQStationary words.size R (weightMonomer words inst mp) (wordProbsMonomer words L mp)) j i :=
  reversible_detailed_balance words.size R _ _
    (fun a b ha hb => weightMonomer_balanced words L inst mp R hR hzero hinst hagree a b ha hb) i j hi hj

example : ∀ i, i < 4 → ∀ j, j < 4 → bget (instMask false 2 #[#[0, 0], #[0, 1], #[1, 0], #[1, 1]]) i j = true →
    firstDiff (wordAt #[#[0, 0], #[0, 1], #[1, 0], #[1, 1]] i) (wordAt #[#[0, 0], #[0, 1], #[1, 0], #[1, 1]] j) < 2 := by
  decide +kernel

/-- `Parametric.calc_exchangeability_matrix` keeps the exchangeability matrix symmetric when the
instantaneous mask and every predicate mask are symmetric (the `TimeReversible` precondition). -/
theorem parametric_symmetric (n : Nat) (mask : Mat K) (preds : List (List (Nat × Nat))) (params : List K) (R : Mat K)
    (h : exchParametric n mask preds params = some R)
    (hm : ∀ i j, i < n → j < n → mget mask i j = mget mask j i)
    (hp : ∀ idx ∈ preds, ∀ i j, idx.contains (i, j) = idx.contains (j, i)) :
    ∀ i j, i < n → j < n → mget R i j = mget R j i := by
  unfold exchParametric at h
  split at h
  · injection h with h; subst h
    apply applyPreds_symm n preds hp
    intro i j hi hj; rw [mget_tab _ hi hj, mget_tab _ hj hi]; exact hm i j hi hj
  · exact absurd h (by simp)

example : exchParametric 2 (#[#[0, 1], #[1, 0]] : Mat ℚ) [[(0, 1), (1, 0)]] [5] = some #[#[0, 5], #[5, 0]] := by decide +kernel

/-- … and a zero diagonal (predicates only rescale entries). -/
theorem parametric_diag_zero (n : Nat) (mask : Mat K) (preds : List (List (Nat × Nat))) (params : List K) (R : Mat K)
    (h : exchParametric n mask preds params = some R) (hm : ∀ i, i < n → mget mask i i = 0) :
    ∀ i, i < n → mget R i i = 0 := by
  unfold exchParametric at h
  split at h
  · injection h with h; subst h
    apply applyPreds_diag n preds
    intro i hi; rw [mget_tab _ hi hi]; exact hm i hi
  · exact absurd h (by simp)

example : ∀ i, i < 2 → mget (#[#[0, 1], #[1, 0]] : Mat ℚ) i i = 0 := by decide +kernel

/-- (audit) `General.calc_exchangeability_matrix` (`array((0,)+params+(1,)).take(param_pick)`): a zero diagonal of
`param_pick` gives a zero diagonal of `R` — the `hdiag` hypothesis of `calcQ_calibrated` for the `General` class. -/
theorem general_diag_zero (n : Nat) (pick : Array (Array Nat)) (params : List K)
    (hp : ∀ i, i < n → (pick.getD i #[]).getD i 0 = 0) : ∀ i, i < n → mget (exchGeneral n pick params) i i = 0 := by
  intro i hi
  unfold exchGeneral
  rw [mget_tab _ hi hi, hp i hi]
  simp

example : exchGeneral 2 #[#[0, 1], #[2, 0]] [(5 : ℚ)] = #[#[0, 5], #[1, 0]] := by decide +kernel

/-! ## rate classes -/

/-- `WeightedPartitionDefn` / `MonotonicDefn` normalisation: the weighted mean of the rate multipliers is one. -/
theorem rate_classes_mean_one (w v : Vec K) (h : sumTo v.size (fun b => vget w b * vget v b) ≠ 0) :
    sumTo v.size (fun b => vget w b * vget (ratesWeighted w v) b) = 1 := by
  apply ratesWeighted_mean_one
  rwa [← sumTo_eq_sum]

example : sumTo 2 (fun b => vget (#[1/4, 3/4] : Vec ℚ) b * vget (#[1, 3] : Vec ℚ) b) ≠ 0 := by decide +kernel

/-- `MonotonicDefn.calc` (running sums of the increments, then the same normalisation). -/
theorem rate_classes_mean_one_monotonic (w inc : Vec K)
    (h : sumTo inc.size (fun b => vget w b * sumTo (b + 1) (vget inc)) ≠ 0) :
    sumTo inc.size (fun b => vget w b * vget (ratesMonotonic w inc) b) = 1 := by
  unfold ratesMonotonic
  have hs : (vtab inc.size fun b => sumTo (b + 1) (vget inc)).size = inc.size := size_vtab _
  have := rate_classes_mean_one w (vtab inc.size fun b => sumTo (b + 1) (vget inc))
  rw [hs] at this
  apply this
  rwa [sumTo_congr fun b hb => by rw [vget_vtab _ hb]]

example : sumTo 2 (fun b => vget (#[1/4, 3/4] : Vec ℚ) b * sumTo (b + 1) (vget (#[1/3, 2/3] : Vec ℚ))) ≠ 0 := by decide +kernel

/-- `GammaDefn.calc` given the bin medians: the mean under the *normalised* bin probabilities is one. -/
theorem rate_classes_mean_one_gamma (w med : Vec K)
    (h : sumTo med.size (fun b => vget med b * (vget w b / sumTo w.size (vget w))) ≠ 0) (hsz : med.size ≤ w.size) :
    sumTo med.size (fun b => (vget w b / sumTo w.size (vget w)) * vget (ratesGamma w med) b) = 1 := by
  unfold ratesGamma
  simp only []
  have hscale : sumTo med.size (fun b => vget med b * vget (vtab w.size fun b => vget w b / sumTo w.size (vget w)) b)
      = sumTo med.size (fun b => vget med b * (vget w b / sumTo w.size (vget w))) :=
    sumTo_congr fun c hc => by rw [vget_vtab _ (by omega)]
  rw [hscale]
  rw [sumTo_congr (g := fun b => vget med b * (vget w b / sumTo w.size (vget w)) /
      sumTo med.size (fun b => vget med b * (vget w b / sumTo w.size (vget w)))) fun b hb => by
    rw [vget_vtab _ hb]; ring]
  rw [sumTo_eq_sum, ← Finset.sum_div, ← sumTo_eq_sum]
  exact div_self h

example : sumTo 2 (fun b => vget (#[1/5, 2] : Vec ℚ) b * (vget (#[1/2, 1/2] : Vec ℚ) b / sumTo 2 (vget (#[1/2, 1/2] : Vec ℚ)))) ≠ 0 := by decide +kernel

/-! ## the rational exponentiators -/

/-- Padé with scaling and squaring is row-stochastic in the algebraic sense for **every** order `q` and
every number of squarings `j`: if the rows of `Q` sum to zero then, whenever `solve` succeeds, the rows of
`P` sum to one.  (Covers the exact Gauss–Jordan model of `numpy.linalg.solve`.) -/
theorem pade_rowsum_one [DecidableEq K] (n : Nat) (Q : Mat K) (t : K) (q j : Nat) (P : Mat K)
    (hQ : ∀ i, i < n → sumTo n (fun k => mget Q i k) = 0) (h : padeCore n Q t q j = some P) :
    ∀ i, i < n → sumTo n (fun k => mget P i k) = 1 := by
  intro i hi
  rw [sumTo_eq_sum]
  exact padeCore_rowsOne n Q t q j P (fun a ha => by rw [← sumTo_eq_sum]; exact hQ a ha) h i hi

example : (padeCore 2 (#[#[-1, 1], #[2, -2]] : Mat ℚ) (1/2) 3 1).isSome = true := by decide +kernel

/-- At length zero the Padé approximant *is* defined and equals the identity, for every `q`, `j`. -/
theorem pade_zero [DecidableEq K] (n : Nat) (Q : Mat K) (q j : Nat) :
    ∃ P, padeCore n Q 0 q j = some P ∧ ∀ a b, a < n → b < n → mget P a b = if a = b then 1 else 0 := by
  obtain ⟨P, hP, hI⟩ := padeCore_zero n Q q j
  exact ⟨P, hP, fun a b ha hb => by rw [hI a b ha hb, mget_ident n ha hb]⟩

variable [LT K] [DecidableLT K] [LE K] [DecidableLE K]

/-- `TaylorExponentiator`: rows sum to one for every starting order `q`, every amount of lengthening
(`fuel`), whatever the stopping test decides (the order relation is arbitrary here). -/
theorem taylor_rowsum_one (n : Nat) (rtol atol : K) (Q : Mat K) (t : K) (q fuel : Nat)
    (hQ : ∀ i, i < n → sumTo n (fun k => mget Q i k) = 0) :
    ∀ i, i < n → sumTo n (fun k => mget (taylor n rtol atol Q t q fuel).1 i k) = 1 := by
  intro i hi
  rw [sumTo_eq_sum]
  exact taylor_rowsOne n rtol atol Q t q fuel (fun a ha => by rw [← sumTo_eq_sum]; exact hQ a ha) i hi

/-- `TaylorExponentiator` at length zero is the identity. -/
theorem taylor_zero (n : Nat) (rtol atol : K) (Q : Mat K) (q fuel : Nat) (a b : Nat) (ha : a < n) (hb : b < n) :
    mget (taylor n rtol atol Q 0 q fuel).1 a b = if a = b then 1 else 0 := by
  rw [taylor_zero_entry n rtol atol Q q fuel a b ha hb, mget_ident n ha hb]

end field

example : ∀ i, i < 2 → sumTo 2 (fun k => mget (#[#[-1, 1], #[2, -2]] : Mat ℚ) i k) = 0 := by decide +kernel

-- (audit) concrete runs of the exponentiator models: the lengthening loop stops by its own test (k = 11 < fuel),
-- the rows of the result sum to one, and at t = 0 Padé returns the identity
example : (taylor 2 (1/100000) (1/100000000) (#[#[-1, 1], #[2, -2]] : Mat ℚ) (1/2) 3 40).2 = 11 ∧
    sumTo 2 (fun k => mget (taylor 2 (1/100000) (1/100000000) (#[#[-1, 1], #[2, -2]] : Mat ℚ) (1/2) 3 40).1 0 k) = 1 := by
  decide +kernel
example : padeCore 2 (#[#[-1, 1], #[2, -2]] : Mat ℚ) 0 3 1 = some #[#[1, 0], #[0, 1]] := by decide +kernel

section ordered
variable {K : Type*} [Field K] [LinearOrder K] [IsStrictOrderedRing K]

/-- Off-diagonal entries of the general rate matrix are non-negative when the exchangeabilities and
motif probabilities are. -/
theorem calcQ_offdiag_nonneg (n : Nat) (R : Mat K) (pi : Vec K)
    (hR : ∀ i j, i < n → j < n → 0 ≤ mget R i j) (hpi : ∀ i, i < n → 0 ≤ vget pi i)
    (i j : Nat) (hi : i < n) (hj : j < n) (hij : i ≠ j) : 0 ≤ mget (calcQGeneral n R pi) i j :=
  finishQ_offdiag_nonneg n R pi hR hpi hi hj hij

/-- Same for the stationary construction, with a non-negative weight matrix `W`. -/
theorem stationaryQ_offdiag_nonneg (n : Nat) (R W : Mat K) (pi : Vec K)
    (hR : ∀ i j, i < n → j < n → 0 ≤ mget R i j) (hW : ∀ i j, i < n → j < n → 0 ≤ mget W i j)
    (hpi : ∀ i, i < n → 0 ≤ vget pi i)
    (i j : Nat) (hi : i < n) (hj : j < n) (hij : i ≠ j) : 0 ≤ mget (calcQStationary n R W pi) i j := by
  apply finishQ_offdiag_nonneg n _ pi _ hpi hi hj hij
  intro a b ha hb
  rw [mget_tab _ ha hb]
  exact mul_nonneg (hR a b ha hb) (hW a b ha hb)

/-- The parametric exchangeability matrix is non-negative for a non-negative mask and parameters `≥ 0`
(within cogent3's bounds `[1e-6, 1e6]`). -/
theorem parametric_nonneg (n : Nat) (mask : Mat K) (preds : List (List (Nat × Nat))) (params : List K) (R : Mat K)
    (h : exchParametric n mask preds params = some R)
    (hm : ∀ i j, i < n → j < n → 0 ≤ mget mask i j) (hp : ∀ p ∈ params, 0 ≤ p) :
    ∀ i j, i < n → j < n → 0 ≤ mget R i j :=
  exchParametric_nonneg n mask preds params R h hm hp

example : ∀ i j, i < 2 → j < 2 → 0 ≤ mget (#[#[0, 1], #[1, 0]] : Mat ℚ) i j :=
  fun i j hi hj => (by decide +kernel : ∀ i, i < 2 → ∀ j, j < 2 → 0 ≤ mget (#[#[0, 1], #[1, 0]] : Mat ℚ) i j) i hi j hj

/-- (audit) non-negativity of `General.calc_exchangeability_matrix` for parameters `≥ 0` -/
theorem general_nonneg (n : Nat) (pick : Array (Array Nat)) (params : List K) (hp : ∀ p ∈ params, 0 ≤ p) :
    ∀ i j, i < n → j < n → 0 ≤ mget (exchGeneral n pick params) i j := by
  intro i j hi hj
  unfold exchGeneral
  rw [mget_tab _ hi hj]
  generalize (pick.getD i #[]).getD j 0 = k
  rw [Array.getD_eq_getD_getElem?, List.getElem?_toArray]
  cases h : (((0 : K) :: params) ++ [1])[k]? with
  | none => simp
  | some x =>
    simp only [Option.getD_some]
    have hx : x ∈ ((0 : K) :: params) ++ [1] := List.mem_of_getElem? h
    simp only [List.cons_append, List.mem_cons, List.mem_append, List.not_mem_nil, or_false] at hx
    rcases hx with rfl | hx | rfl
    · exact le_refl _
    · exact hp x hx
    · exact zero_le_one

example : ∀ p ∈ [(5 : ℚ), 1/3], 0 ≤ p := by decide +kernel

/-- (audit) the diagonal of `Q` is non-positive (with `calcQ_offdiag_nonneg` and `calcQ_rowsum_zero`: `Q` is a generator) -/
theorem calcQ_diag_nonpos (n : Nat) (R : Mat K) (pi : Vec K)
    (hR : ∀ i j, i < n → j < n → 0 ≤ mget R i j) (hpi : ∀ i, i < n → 0 ≤ vget pi i)
    (hdiag : ∀ i, i < n → mget R i i = 0) (i : Nat) (hi : i < n) : mget (calcQGeneral n R pi) i i ≤ 0 :=
  finishQ_diag_nonpos n R pi hR hpi hdiag hi

/-- (audit) **end to end for `Parametric` models** (`Parametric.calc_exchangeability_matrix` followed by
`_ContinuousSubstitutionModel.calcQ`): from hypotheses on the *inputs* only (0/1 mask with zero diagonal, parameters and
motif probabilities `≥ 0`, non-zero normaliser) the rate matrix has zero row sums, non-negative off-diagonals and
expected rate one at `π`. -/
theorem parametric_calcQ_valid (n : Nat) (mask : Mat K) (preds : List (List (Nat × Nat))) (params : List K)
    (R : Mat K) (pi : Vec K) (h : exchParametric n mask preds params = some R)
    (hm0 : ∀ i, i < n → mget mask i i = 0) (hm : ∀ i j, i < n → j < n → 0 ≤ mget mask i j)
    (hp : ∀ p ∈ params, 0 ≤ p) (hpi : ∀ i, i < n → 0 ≤ vget pi i)
    (hnorm : sumTo n (fun i => vget pi i * sumTo n (fun j => mget R i j)) ≠ 0) :
    (∀ i, i < n → sumTo n (fun j => mget (calcQGeneral n R pi) i j) = 0) ∧
    (∀ i j, i < n → j < n → i ≠ j → 0 ≤ mget (calcQGeneral n R pi) i j) ∧
    - sumTo n (fun i => vget pi i * mget (calcQGeneral n R pi) i i) = 1 :=
  ⟨fun i hi => calcQ_rowsum_zero n R pi i hi,
   fun i j hi hj hij => calcQ_offdiag_nonneg n R pi (parametric_nonneg n mask preds params R h hm hp) hpi i j hi hj hij,
   calcQ_calibrated n R pi (parametric_diag_zero n mask preds params R h hm0) hnorm⟩

example : exchParametric 2 (#[#[0, 1], #[1, 0]] : Mat ℚ) [[(0, 1)]] [5] = some #[#[0, 5], #[1, 0]] ∧
    sumTo 2 (fun i => vget (#[1/4, 3/4] : Vec ℚ) i * sumTo 2 (fun j => mget (#[#[0, 5], #[1, 0]] : Mat ℚ) i j)) ≠ 0 ∧
    calcQGeneral 2 (#[#[0, 5], #[1, 0]] : Mat ℚ) #[1/4, 3/4] = #[#[-5/2, 5/2], #[1/2, -1/2]] := by decide +kernel

end ordered

/- Formerly unproved, now in separate files:
   * `GeneralStationary`'s `last_in_column` loop balances every column ⇒ `π Q = 0`
     (`Props/C05GenStat.lean`: `generalStationary_piQ_zero`, with the exact error-branch characterisation);
   * the "instantaneous pairs differ at exactly one position" hypotheses of `reversible_detailed_balance_conditional` /
     `_monomer` hold for `instMask` over every gap-free equal-length alphabet (`Props/C05Alphabet.lean`).

   FULL STATEMENT (not proved): in the tolerance branch of `GeneralStationary` (`-1e-8 ≤ required < 0`, replaced by
   `|required|`) the column is *not* exactly balanced: `col - row = 2·|required| ≤ 2e-8`; `generalStationary_piQ_zero`
   therefore assumes `GsExact` (every required value ≥ 0).  A quantitative `|πQ| ≤ c·tol` bound is not stated. -/

end CogentModel.C05
