import CogentModel.Proofs.OptGen
import CogentModel.Model.OptGenClamp
/-! # C16 — the TRANSLATED start clamp of `Calculator.optimise` equals the hand model `clampStart`

`Proofs/OptGen.lean` proves that the generated `Calculator.optimise` hands `clampX env` to `maximise`, where `clampX`
is the translated pair of statements

    if numpy.allclose(x[low > x], low[low > x]): x[low > x] = low[low > x]
    if numpy.allclose(x[high < x], high[high < x]): x[high < x] = high[high < x]

over the ABSTRACT array operations of `Env` (`maskGt`, `maskLt`, `sel`, `put`, `allclose`).  The property theorems
(`start_clamp_in_bounds`, Props/C16.lean) are about the hand model `clampStart` on coordinate lists.  This file is the
missing link: for every environment whose array operations are numpy's boolean-mask operations on vectors
(`MaskLaws`: the vector read off an array by `rep`, the mask by `repM`), the translated clamp IS `clampStart`
(`gen_clampX_is_clampStart`), both generated statements separately (`gen_calc_s3_is_clampLow`, `gen_calc_s4_is_clampHigh`),
and the start-clamp theorem holds for the translated code (`translated_start_clamp_in_bounds`, Props/C16Gen.lean).  `listEnv` is a concrete
environment satisfying the laws (`listEnv_laws`), so the hypothesis is not empty; the driver evaluates `clampX` on it
against the real `Calculator.optimise` (stream C), which ties the laws' reading of numpy to numpy.  No Mathlib. -/
set_option linter.unusedSimpArgs false
set_option linter.unusedVariables false
namespace CogentModel.C16Clamp
open CogentModel.Optimiser CogentModel.OptGen CogentModel.OptGenProofs CogentModel.Gen CogentModel.OptGenClamp

variable {X Y R : Type}

/-! ## numpy's boolean-mask operations on vectors (`selL`, `putL`, `allcloseL`: Model/OptGenClamp.lean) -/

/-- the array operations of `env` are numpy's on vectors: `rep` reads a float vector, `repM` a mask -/
structure MaskLaws (env : Env X Y) (rep : X → List R) (repM : X → List Bool) (lt close : R → R → Bool) : Prop where
  /-- `a > b` elementwise -/
  maskGt : ∀ a b, repM (env.maskGt a b) = List.zipWith (fun p q => lt q p) (rep a) (rep b)
  /-- `a < b` elementwise -/
  maskLt : ∀ a b, repM (env.maskLt a b) = List.zipWith (fun p q => lt p q) (rep a) (rep b)
  sel : ∀ a m, rep (env.sel a m) = selL (rep a) (repM m)
  put : ∀ x m v, rep (env.put x m v) = putL (rep x) (repM m) (rep v)
  allclose : ∀ a b, env.allclose a b = allcloseL close (rep a) (rep b)

/-! ## list lemmas -/

theorem allclose_low (lt close : R → R → Bool) (v : List (Coord R)) :
    allcloseL close (selL (v.map (·.x)) (List.zipWith (fun p q => lt q p) (v.map (·.lo)) (v.map (·.x))))
                    (selL (v.map (·.lo)) (List.zipWith (fun p q => lt q p) (v.map (·.lo)) (v.map (·.x))))
      = v.all (fun c => !(lt c.x c.lo) || close c.x c.lo) := by
  induction v with
  | nil => rfl
  | cons c v ih =>
    simp only [List.map_cons, List.zipWith_cons_cons, List.all_cons]
    cases h : lt c.x c.lo <;>
      simp only [selL, allcloseL, h, ih, Bool.not_false, Bool.not_true, Bool.true_or, Bool.false_or, Bool.true_and]

theorem put_low (lt : R → R → Bool) (v : List (Coord R)) :
    putL (v.map (·.x)) (List.zipWith (fun p q => lt q p) (v.map (·.lo)) (v.map (·.x)))
         (selL (v.map (·.lo)) (List.zipWith (fun p q => lt q p) (v.map (·.lo)) (v.map (·.x))))
      = (v.map (fun c => if lt c.x c.lo then { c with x := c.lo } else c)).map (·.x) := by
  induction v with
  | nil => rfl
  | cons c v ih =>
    simp only [List.map_cons, List.zipWith_cons_cons]
    cases h : lt c.x c.lo <;>
      simp only [selL, putL, h, ih, if_true, if_false, Bool.false_eq_true]

theorem allclose_high (lt close : R → R → Bool) (v : List (Coord R)) :
    allcloseL close (selL (v.map (·.x)) (List.zipWith (fun p q => lt p q) (v.map (·.hi)) (v.map (·.x))))
                    (selL (v.map (·.hi)) (List.zipWith (fun p q => lt p q) (v.map (·.hi)) (v.map (·.x))))
      = v.all (fun c => !(lt c.hi c.x) || close c.x c.hi) := by
  induction v with
  | nil => rfl
  | cons c v ih =>
    simp only [List.map_cons, List.zipWith_cons_cons, List.all_cons]
    cases h : lt c.hi c.x <;>
      simp only [selL, allcloseL, h, ih, Bool.not_false, Bool.not_true, Bool.true_or, Bool.false_or, Bool.true_and]

theorem put_high (lt : R → R → Bool) (v : List (Coord R)) :
    putL (v.map (·.x)) (List.zipWith (fun p q => lt p q) (v.map (·.hi)) (v.map (·.x)))
         (selL (v.map (·.hi)) (List.zipWith (fun p q => lt p q) (v.map (·.hi)) (v.map (·.x))))
      = (v.map (fun c => if lt c.hi c.x then { c with x := c.hi } else c)).map (·.x) := by
  induction v with
  | nil => rfl
  | cons c v ih =>
    simp only [List.map_cons, List.zipWith_cons_cons]
    cases h : lt c.hi c.x <;>
      simp only [selL, putL, h, ih, if_true, if_false, Bool.false_eq_true]

/-- the clamps only touch `x` -/
theorem clampLow_lo (lt close : R → R → Bool) (v : List (Coord R)) : (clampLow lt close v).map (·.lo) = v.map (·.lo) := by
  unfold clampLow
  split
  · rw [List.map_map]; apply List.map_congr_left; intro c _; simp only [Function.comp]; split <;> rfl
  · rfl

theorem clampLow_hi (lt close : R → R → Bool) (v : List (Coord R)) : (clampLow lt close v).map (·.hi) = v.map (·.hi) := by
  unfold clampLow
  split
  · rw [List.map_map]; apply List.map_congr_left; intro c _; simp only [Function.comp]; split <;> rfl
  · rfl

/-! ## the two translated statements, then the translated clamp -/

/-- what the generated statement 3 (`low` clamp) computes, read as a vector, is `clampLow` -/
theorem low_step (env : Env X Y) (rep : X → List R) (repM : X → List Bool) (lt close : R → R → Bool)
    (L : MaskLaws env rep repM lt close) (x low : X) (v : List (Coord R))
    (hx : rep x = v.map (·.x)) (hlo : rep low = v.map (·.lo)) :
    rep (if env.allclose (env.sel x (env.maskGt low x)) (env.sel low (env.maskGt low x))
         then env.put x (env.maskGt low x) (env.sel low (env.maskGt low x)) else x)
      = (clampLow lt close v).map (·.x) := by
  have hc : env.allclose (env.sel x (env.maskGt low x)) (env.sel low (env.maskGt low x))
      = v.all (fun c => !(lt c.x c.lo) || close c.x c.lo) := by
    rw [L.allclose, L.sel, L.sel, L.maskGt, hx, hlo, allclose_low]
  rw [hc]
  unfold clampLow
  split
  · rw [L.put, L.sel, L.maskGt, hx, hlo, put_low]
  · exact hx

/-- … statement 4 (`high` clamp) is `clampHigh` -/
theorem high_step (env : Env X Y) (rep : X → List R) (repM : X → List Bool) (lt close : R → R → Bool)
    (L : MaskLaws env rep repM lt close) (x high : X) (v : List (Coord R))
    (hx : rep x = v.map (·.x)) (hhi : rep high = v.map (·.hi)) :
    rep (if env.allclose (env.sel x (env.maskLt high x)) (env.sel high (env.maskLt high x))
         then env.put x (env.maskLt high x) (env.sel high (env.maskLt high x)) else x)
      = (clampHigh lt close v).map (·.x) := by
  have hc : env.allclose (env.sel x (env.maskLt high x)) (env.sel high (env.maskLt high x))
      = v.all (fun c => !(lt c.hi c.x) || close c.x c.hi) := by
    rw [L.allclose, L.sel, L.sel, L.maskLt, hx, hhi, allclose_high]
  rw [hc]
  unfold clampHigh
  split
  · rw [L.put, L.sel, L.maskLt, hx, hhi, put_high]
  · exact hx

/-- GENERATED `Calculator.optimise.s3` (source line `if numpy.allclose(x[low > x], low[low > x]): x[low > x] = …`)
is the hand model `clampLow`, for all arguments and states -/
theorem gen_calc_s3_is_clampLow (env : Env X Y) (rep : X → List R) (repM : X → List Bool) (lt close : R → R → Bool)
    (L : MaskLaws env rep repM lt close) (x low : X) (v : List (Coord R))
    (hx : rep x = v.map (·.x)) (hlo : rep low = v.map (·.lo)) (g : GSt X Y) :
    ∃ x', C16Opt.Calculator.optimise.s3 env x low g = (g, .ok x') ∧ rep x' = (clampLow lt close v).map (·.x) :=
  ⟨_, cs3_eq env x low g, low_step env rep repM lt close L x low v hx hlo⟩

/-- GENERATED `Calculator.optimise.s4` is the hand model `clampHigh` -/
theorem gen_calc_s4_is_clampHigh (env : Env X Y) (rep : X → List R) (repM : X → List Bool) (lt close : R → R → Bool)
    (L : MaskLaws env rep repM lt close) (x high : X) (v : List (Coord R))
    (hx : rep x = v.map (·.x)) (hhi : rep high = v.map (·.hi)) (g : GSt X Y) :
    ∃ x', C16Opt.Calculator.optimise.s4 env x high g = (g, .ok x') ∧ rep x' = (clampHigh lt close v).map (·.x) :=
  ⟨_, cs4_eq env x high g, high_step env rep repM lt close L x high v hx hhi⟩

/-- The start vector the TRANSLATED `Calculator.optimise` hands to `maximise` (`clampX`, see `calc_optimise_eq` /
`translated_calc_optimise_is_model`) is the hand model `clampStart` of the calculator's value array and bounds. -/
theorem gen_clampX_is_clampStart (env : Env X Y) (rep : X → List R) (repM : X → List Bool) (lt close : R → R → Bool)
    (L : MaskLaws env rep repM lt close) (v : List (Coord R))
    (hx : rep env.valueArray = v.map (·.x)) (hlo : rep env.boundsLow = v.map (·.lo))
    (hhi : rep env.boundsHigh = v.map (·.hi)) :
    rep (clampX env) = (clampStart lt close v).map (·.x) := by
  unfold clampX clampStart
  exact high_step env rep repM lt close L _ env.boundsHigh (clampLow lt close v)
    (low_step env rep repM lt close L env.valueArray env.boundsLow v hx hlo)
    (by rw [clampLow_hi, hhi])

/-- the bounds the translated code passes on are still the calculator's (the clamp only touches `x`) -/
theorem clampStart_bounds (lt close : R → R → Bool) (v : List (Coord R)) :
    (clampStart lt close v).map (·.lo) = v.map (·.lo) ∧ (clampStart lt close v).map (·.hi) = v.map (·.hi) := by
  have hH : ∀ w : List (Coord R), (clampHigh lt close w).map (·.lo) = w.map (·.lo)
      ∧ (clampHigh lt close w).map (·.hi) = w.map (·.hi) := by
    intro w
    unfold clampHigh
    split
    · constructor <;>
      · rw [List.map_map]; apply List.map_congr_left; intro c _; simp only [Function.comp]; split <;> rfl
    · exact ⟨rfl, rfl⟩
  unfold clampStart
  exact ⟨(hH _).1.trans (clampLow_lo lt close v), (hH _).2.trans (clampLow_hi lt close v)⟩

/-! ## a concrete environment satisfying the laws (`listEnv`, Model/OptGenClamp.lean; the driver evaluates `clampX` on it) -/

theorem listEnv_laws (lt close : R → R → Bool) (x lo hi : List R) :
    MaskLaws (listEnv lt close x lo hi) Arr.rep Arr.repM lt close :=
  ⟨fun _ _ => rfl, fun _ _ => rfl, fun _ _ => rfl, fun _ _ _ => rfl, fun _ _ => rfl⟩

/-- the link on the concrete environment: what the driver computes with the generated code is `clampStart` -/
theorem gen_clampX_listEnv (lt close : R → R → Bool) (v : List (Coord R)) :
    (clampX (listEnv lt close (v.map (·.x)) (v.map (·.lo)) (v.map (·.hi)))).rep = (clampStart lt close v).map (·.x) :=
  gen_clampX_is_clampStart _ Arr.rep Arr.repM lt close (listEnv_laws lt close _ _ _) v rfl rfl rfl

end CogentModel.C16Clamp
