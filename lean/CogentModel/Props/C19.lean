import CogentModel.Model.AtomicWrite
import CogentModel.Model.Composable
import CogentModel.Proofs.AtomicWriteLemmas
import CogentModel.Proofs.ComposableLemmas
/-! # C19 — file writes are all-or-nothing; interrupted runs resume to the same result

`j.cfg` (`Job.cfg`) is THE model of the code as it is now: one-call commit (`src.replace(dest)`),
cleanup in a `finally`, guarded `__enter__`, every writer inside a with-block.  The harness checks
on every run that the real system-call traces, crash states and fault traces are those of `j.cfg`.

`crashState c fs k` = the file system after exactly the first `k` calls of the atomic_write
program (the process died just before call `k`); `faultState c fs k` = call `k` raised and the
code's handler ran.  `WF c fs`: the destination's directory exists, the destination is not a
directory, and the name `mkdtemp` returns is fresh.  All statements are for every initial file
system, every chunk list and every `k`.

The section "historical variants" at the end keeps theorems about the versions the code followed
before the `fix:` commits (unlink-then-rename, no cleanup outside the with-block, writer-level
unlink); they are not claims about the current code — they name what a regression would mean. -/
namespace CogentModel.C19
open CogentModel.AtomicWrite CogentModel.Composable

/-- example values used by the non-vacuity examples: directory `[0]`, destination `[0,1]` holding `[9]` -/
def exJob : Job := { dir := [0], name := 1, t := 2, u := 3, chunks := [[5], [6, 7]], closeInBody := false, zipMember := none }
def exCfg : Cfg := exJob.cfg
def exCfgCoded : Cfg :=
  { commit := .unlinkRename, guarded := false, withBlock := true, bodyUnlink := false, closeInBody := false,
    dir := [0], name := 1, t := 2, u := 3, chunks := [[5]], zipMember := none }
def exFS : FS := upd (upd (fun _ => none) [0] (some .dir)) [0, 1] (some (.file [9]))
def exFSzip : FS := upd (upd (fun _ => none) [0] (some .dir)) [0, 1] (some (.archive [(4, [1])] false))

example : WF exCfg exFS :=
  ⟨by decide, by decide, fun p hp => by
      have a : p ≠ [0, 1] := by intro e; subst e; revert hp; decide
      have b : p ≠ [0] := by intro e; subst e; revert hp; decide
      simp [exFS, upd, a, b], by decide⟩

/-! ## the code as it is now -/

/-- A complete run ends with exactly the new content at the destination, no temporary path left,
nothing else touched, and no call failing. -/
theorem write_completes (j : Job) (fs : FS) (h : WF j.cfg fs) (hz : j.zipMember = none) :
    crashState j.cfg fs (program j.cfg).length j.cfg.dest = some (.file j.cfg.newData) ∧
    (∀ p, under j.cfg.tmpdir p = true → crashState j.cfg fs (program j.cfg).length p = none) ∧
    (∀ p, p ≠ j.cfg.dest → under j.cfg.tmpdir p = false → crashState j.cfg fs (program j.cfg).length p = fs p) ∧
    (exec fs (program j.cfg)).2 = none := by
  have hz' : j.cfg.zipMember = none := hz
  have hc : j.cfg.commit = .replace := rfl
  have hlen : (program j.cfg).length = (pre j.cfg).length + 2 := by simp [program, post, commitInstrs, hz', hc]
  have hfull : exec fs (program j.cfg) = ((fun q => if under j.cfg.tmpdir q then none else commitState j.cfg fs q), none) := by
    unfold program
    rw [exec_append_ok _ _ _ (by rw [exec_pre _ fs h]), exec_pre _ fs h, exec_post_replace_2 _ fs h hz' hc]
  refine ⟨crash_replace_after _ fs h hz' hc _ (by omega), ?_, fun p hp hu => crash_others_unchanged _ fs _ p hp hu, by rw [hfull]⟩
  intro p hp
  unfold crashState
  rw [List.take_length, hfull]; simp [hp]

example : crashState exCfg exFS 7 [0, 1] = some (.file [5, 6, 7]) ∧ crashState exCfg exFS 7 [0, 2] = none := by decide

/-- **All-or-nothing at every crash point.** Whatever the initial file system (destination present
with any content, or absent), whatever the chunks, and wherever the process dies: up to and
including the point just before the rename the destination holds the old content (or is still
absent); from the rename on it holds the complete new content; nothing outside the temp dir is
ever touched. -/
theorem atomic_all_prefixes (j : Job) (fs : FS) (h : WF j.cfg fs) (hz : j.zipMember = none) (k : Nat) :
    (crashState j.cfg fs k j.cfg.dest = fs j.cfg.dest ∨ crashState j.cfg fs k j.cfg.dest = some (.file j.cfg.newData)) ∧
    (k ≤ renameIdx j.cfg → crashState j.cfg fs k j.cfg.dest = fs j.cfg.dest) ∧
    (renameIdx j.cfg < k → crashState j.cfg fs k j.cfg.dest = some (.file j.cfg.newData)) ∧
    (∀ p, p ≠ j.cfg.dest → under j.cfg.tmpdir p = false → crashState j.cfg fs k p = fs p) := by
  have hz' : j.cfg.zipMember = none := hz
  have hc : j.cfg.commit = .replace := rfl
  have hr : renameIdx j.cfg = (pre j.cfg).length := by simp [renameIdx, hc]
  refine ⟨?_, ?_, ?_, fun p hp hu => crash_others_unchanged _ fs k p hp hu⟩
  · by_cases hk : k ≤ (pre j.cfg).length
    · exact Or.inl (crash_before_commit _ fs h.hne k hk)
    · exact Or.inr (crash_replace_after _ fs h hz' hc k (by omega))
  · intro hk; exact crash_before_commit _ fs h.hne k (by omega)
  · intro hk; exact crash_replace_after _ fs h hz' hc k (by omega)

example : crashState exCfg exFS 5 [0, 1] = some (.file [9]) ∧ crashState exCfg exFS 6 [0, 1] = some (.file [5, 6, 7]) := by decide

/-- **Handled failures.** Whichever call before the final `rmtree` raises (mkdtemp, the open in
`__enter__`, any data write, the close, the rename), after the code's handler the destination keeps
its previous content (or absence) and no path under the temp dir remains. -/
theorem fault_leaves_old_and_no_temp (j : Job) (fs : FS) (h : WF j.cfg fs) (hz : j.zipMember = none)
    (k : Nat) (hk : k + 1 < (program j.cfg).length) :
    faultState j.cfg fs k j.cfg.dest = fs j.cfg.dest ∧
    ∀ p, under j.cfg.tmpdir p = true → faultState j.cfg fs k p = none := by
  have hz' : j.cfg.zipMember = none := hz
  have hc : j.cfg.commit = .replace := rfl
  have : (program j.cfg).length = (pre j.cfg).length + 2 := by simp [program, post, commitInstrs, hz', hc]
  exact fault_guarded_replace _ fs h hz' hc rfl rfl rfl k (by omega)

example : faultState exCfg exFS 5 [0, 2] = none ∧ faultState exCfg exFS 5 [0, 1] = some (.file [9]) ∧
    faultState exCfg exFS 1 [0, 2] = none := by decide

/-- **zip-member target** (`in_zip`, append in place — unchanged by the fixes): outside the window
between appending the member data and writing the new central directory, the archive's readable
members are the old ones, plus the new member after the append… -/
theorem zip_member_prefixes_partial (j : Job) (fs : FS) (h : WF j.cfg fs) (m : Nat) (hz : j.zipMember = some m)
    (ms : List (Nat × Data)) (hold : fs j.cfg.dest = some (.archive ms false)) (k : Nat)
    (hk : k ≠ (pre j.cfg).length + 1) :
    readable (crashState j.cfg fs k j.cfg.dest) = some ms ∨
    readable (crashState j.cfg fs k j.cfg.dest) = some (ms ++ [(m, j.cfg.newData)]) := by
  by_cases hk' : k ≤ (pre j.cfg).length
  · left; rw [crash_before_commit _ fs h.hne k hk', hold]; rfl
  · right; exact zip_after _ fs h m hz ms hold k (by omega)

/- FULL STATEMENT (not proved): `zip_member_prefixes_partial` without `hk`.  False, see
   `zip_member_counter`: `_close_rename_zip` appends into the live archive. -/

/-- …and inside that window the archive is unreadable: every old member is lost with it. -/
theorem zip_member_counter (j : Job) (fs : FS) (h : WF j.cfg fs) (m : Nat) (hz : j.zipMember = some m)
    (ms : List (Nat × Data)) (hold : fs j.cfg.dest = some (.archive ms false)) :
    readable (crashState j.cfg fs ((pre j.cfg).length + 1) j.cfg.dest) = none :=
  zip_torn_window _ fs h m hz ms hold

example : readable (crashState { exJob with zipMember := some 8 }.cfg exFSzip 7 [0, 1])
    = some [(4, [1]), (8, [5, 6, 7])] ∧
    readable (crashState { exJob with zipMember := some 8 }.cfg exFSzip 6 [0, 1]) = none := by decide

/-- **Resume**: interrupt an `apply_to` run after any number `j` of written results (any
completion order), then run it again completely (again any completion order): every selected
input ends with exactly one record, equal to the app's result on that input alone — the same
store an uninterrupted run produces (`C14.apply_any_schedule`) — and an input whose completed
record was written before the interruption is not selected again. -/
theorem resume_same_store (idOf : Nat → Id) (app : Nat → Val) (s : Store) (inputs : List Nat)
    (sel : List (Id × Nat)) (hsel : select idOf s inputs [] = some sel)
    (results : List (Nat × Val)) (hperm : results.Perm (sel.map (wrapped app))) (j : Nat)
    (sel' : List (Id × Nat)) (hsel' : select idOf (writeAll idOf s (results.take j)) inputs [] = some sel')
    (results' : List (Nat × Val)) (hperm' : results'.Perm (sel'.map (wrapped app))) :
    (∀ p ∈ sel, entries (writeAll idOf (writeAll idOf s (results.take j)) results') p.1 = [(p.1, app p.2)]) ∧
    (∀ p ∈ sel, (p.2, app p.2) ∈ results.take j → (app p.2).isOk = true → ∀ q ∈ sel', q.1 ≠ p.1) :=
  resume_same_store' idOf app s inputs sel hsel results hperm j sel' hsel' results' hperm'

/-- the second run never fails with "non-unique identifier" when the first selection succeeded -/
theorem resume_selects (idOf : Nat → Id) (s s' : Store) (inputs : List Nat) (sel : List (Id × Nat))
    (hsel : select idOf s inputs [] = some sel) (hmono : ∀ i, hasDone s i = true → hasDone s' i = true) :
    ∃ sel', select idOf s' inputs [] = some sel' :=
  select_mono idOf s s' inputs sel hsel hmono

example : applyTo (fun m => m % 10) (fun m => .ok ⟨1, m, some m⟩) [] [11, 22, 33] [2, 0, 1]
    = some [(3, .ok ⟨1, 33, some 33⟩), (1, .ok ⟨1, 11, some 11⟩), (2, .ok ⟨1, 22, some 22⟩)] := by decide

-- (auditor) non-vacuity of `resume_same_store`: an interrupted run with all hypotheses instantiated (three inputs, the
-- second fails; results arrive as 33, 22, 11; killed after two of them; the re-run selects 11 and 22 again, not 33)
def exApp : Nat → Val := fun m => if m = 22 then .nc ⟨.error, 2, .exc 1, some 22⟩ else .ok ⟨1, m, some m⟩
example := resume_same_store (fun m => m % 10) exApp [] [11, 22, 33] [(1, 11), (2, 22), (3, 33)] (by decide)
    [(33, exApp 33), (22, exApp 22), (11, exApp 11)] (by decide) 2
    [(1, 11), (2, 22)] (by decide) [(22, exApp 22), (11, exApp 11)] (by decide)

/-! ## historical variants (NOT the current code)

What the same statements look like for the versions before the `fix:` commits.  The harness names
the variant when the real traces stop matching `Job.cfg`, so these say what such a regression means. -/

/-- unlink-then-rename (`_close_rename_standard` before 3deaff175): all-or-nothing holds at every
crash point except the one between the two calls… -/
theorem historical_unlink_rename_outside_window (c : Cfg) (fs : FS) (h : WF c fs) (hz : c.zipMember = none)
    (hc : c.commit = .unlinkRename) (k : Nat) (hk : k ≠ (pre c).length + 1) :
    (crashState c fs k c.dest = fs c.dest ∨ crashState c fs k c.dest = some (.file c.newData)) ∧
    (∀ p, p ≠ c.dest → under c.tmpdir p = false → crashState c fs k p = fs p) := by
  refine ⟨?_, fun p hp hu => crash_others_unchanged c fs k p hp hu⟩
  by_cases hk' : k ≤ (pre c).length
  · exact Or.inl (crash_before_commit c fs h.hne k hk')
  · exact Or.inr (crash_unlinkRename_after c fs h hz hc k (by omega))

/-- …and in that window the destination is absent, whatever it held. -/
theorem historical_unlink_rename_window (c : Cfg) (fs : FS) (h : WF c fs) (hz : c.zipMember = none)
    (hc : c.commit = .unlinkRename) :
    crashState c fs ((pre c).length + 1) c.dest = none :=
  crash_unlinkRename_window c fs h hz hc

/-- concrete witness (dest `[0,1]` holding `[9]`, one chunk `[5]`, killed before call 5 = the rename) -/
theorem historical_unlink_rename_witness :
    exFS exCfgCoded.dest = some (.file [9]) ∧ crashState exCfgCoded exFS 5 exCfgCoded.dest = none ∧
    crashState exCfgCoded exFS 4 exCfgCoded.dest = some (.file [9]) ∧
    crashState exCfgCoded exFS 6 exCfgCoded.dest = some (.file [5]) := by
  decide

/-- handlers before 3deaff175 (no cleanup outside the with-block): only a failure inside the
writer's with-block was handled correctly (and not if the writer's own except-clause unlinked the
destination, `save_to_filename` before ff8d48a2e). -/
theorem historical_handlers_with_block_only (c : Cfg) (fs : FS) (h : WF c fs) (hw : c.withBlock = true)
    (hb : c.bodyUnlink = false) (j : Nat) (hj : j < c.chunks.length) :
    faultState c fs (j + 2) c.dest = fs c.dest ∧
    ∀ p, under c.tmpdir p = true → faultState c fs (j + 2) p = none := by
  have hk : j + 2 ≤ (pre c).length := by rw [pre_length]; omega
  have hS := crash_tmpdir_pre c fs h (j + 2) (by omega) hk
  have hD := crash_before_commit c fs h.hne (j + 2) hk
  unfold faultState
  rw [phaseAt_body c j hj]
  rw [cleanup_result c _ hS _ (Or.inr (by simp [handler, hw, hb]))]
  exact ⟨by simp [not_under_tmpdir_dest c h.hne, hD], fun p hp => by simp [hp]⟩

/-- the failures of the historical handlers: `open` raising in `__enter__` leaked the temp dir
(k = 1); the rename raising after the unlink lost the destination and leaked the temp file
(k = 5); an unlink failure leaked the temp dir (k = 4); a bare `atomic_write` object
(`Table.write` before 5df264d66) leaked the temp dir when a data write failed (k = 2);
`save_to_filename`'s own except-clause removed the *destination* when a data write failed (k = 2). -/
theorem historical_handlers_witness :
    let c : Cfg := exCfgCoded
    let fs : FS := exFS
    faultState c fs 1 c.tmpdir = some .dir ∧
    (faultState c fs 5 c.dest = none ∧ faultState c fs 5 c.tmpfile = some (.file [5])) ∧
    (faultState c fs 4 c.dest = some (.file [5]) ∧ faultState c fs 4 c.tmpdir = some .dir) ∧
    faultState { c with withBlock := false } fs 2 c.tmpdir = some .dir ∧
    faultState { c with bodyUnlink := true, closeInBody := true } fs 2 c.dest = none := by
  decide

end CogentModel.C19
