import CogentModel.Model.AtomicWrite
import CogentModel.Model.Composable
import CogentModel.Proofs.AtomicWriteLemmas
import CogentModel.Proofs.ComposableLemmas
/-! # C19 — file writes are all-or-nothing; interrupted runs resume to the same result

`crashState c fs k` = the file system after exactly the first `k` calls of the atomic_write
program (the process died just before call `k`); `faultState c fs k` = call `k` raised and the
code's handler ran.  `WF c fs`: the destination's directory exists, the destination is not a
directory, and the name `mkdtemp` returns is fresh.  All statements are for every initial file
system, every chunk list and every `k`. -/
namespace CogentModel.C19
open CogentModel.AtomicWrite CogentModel.Composable

/-- example values used by the non-vacuity examples: directory `[0]`, destination `[0,1]` holding `[9]` -/
def exCfg : Cfg :=
  { commit := .replace, guarded := true, withBlock := true, bodyUnlink := false, closeInBody := false, dir := [0], name := 1, t := 2, u := 3,
    chunks := [[5], [6, 7]], zipMember := none }
def exCfgCoded : Cfg :=
  { commit := .unlinkRename, guarded := false, withBlock := true, bodyUnlink := false, closeInBody := false, dir := [0], name := 1, t := 2, u := 3,
    chunks := [[5]], zipMember := none }
def exFS : FS := upd (upd (fun _ => none) [0] (some .dir)) [0, 1] (some (.file [9]))
def exFSzip : FS := upd (upd (fun _ => none) [0] (some .dir)) [0, 1] (some (.archive [(4, [1])] false))

/-- A complete run (either commit strategy) ends with exactly the new content at the destination,
no temporary path left, and nothing else touched. -/
theorem write_completes (c : Cfg) (fs : FS) (h : WF c fs) (hz : c.zipMember = none) :
    crashState c fs (program c).length c.dest = some (.file c.newData) ∧
    (∀ p, p ≠ c.dest → under c.tmpdir p = false → crashState c fs (program c).length p = fs p) ∧
    (exec fs (program c)).2 = none := by
  have hlen : (pre c).length + 1 < (program c).length := by
    cases hc : c.commit <;> simp [program, post, commitInstrs, hz, hc]
  refine ⟨?_, fun p hp hu => crash_others_unchanged c fs _ p hp hu, ?_⟩
  · cases hc : c.commit with
    | replace => exact crash_replace_after c fs h hz hc _ (by omega)
    | unlinkRename => exact crash_unlinkRename_after c fs h hz hc _ hlen
  · unfold program
    rw [exec_append_ok _ _ _ (by rw [exec_pre c fs h]), exec_pre c fs h]
    cases hc : c.commit with
    | replace => rw [exec_post_replace_2 c fs h hz hc]
    | unlinkRename =>
      rw [post_unlinkRename c hz hc, exec_cons_ok _ _ _ _ (run_unlink c fs h),
        exec_cons_ok _ _ _ _ (run_rename_unlinked c fs h),
        exec_cons_ok _ _ _ _ (run_rmtree c _ (commitState_tmpdir c fs h))]
      rfl

example : WF exCfg
    exFS :=
  ⟨by decide, by decide, fun p hp => by
      have a : p ≠ [0, 1] := by intro e; subst e; revert hp; decide
      have b : p ≠ [0] := by intro e; subst e; revert hp; decide
      simp [exFS, upd, a, b], by decide⟩

/-- **One-call commit (`os.replace`)**: at every crash point the destination holds the old
content (or is still absent) up to and including the point just before the rename, and the
complete new content afterwards; nothing outside the temp dir is ever touched. -/
theorem atomic_all_prefixes (c : Cfg) (fs : FS) (h : WF c fs) (hz : c.zipMember = none)
    (hc : c.commit = .replace) (k : Nat) :
    (crashState c fs k c.dest = fs c.dest ∨ crashState c fs k c.dest = some (.file c.newData)) ∧
    (k ≤ renameIdx c → crashState c fs k c.dest = fs c.dest) ∧
    (renameIdx c < k → crashState c fs k c.dest = some (.file c.newData)) ∧
    (∀ p, p ≠ c.dest → under c.tmpdir p = false → crashState c fs k p = fs p) := by
  have hr : renameIdx c = (pre c).length := by simp [renameIdx, hc]
  refine ⟨?_, ?_, ?_, fun p hp hu => crash_others_unchanged c fs k p hp hu⟩
  · by_cases hk : k ≤ (pre c).length
    · exact Or.inl (crash_before_commit c fs h.hne k hk)
    · exact Or.inr (crash_replace_after c fs h hz hc k (by omega))
  · intro hk; exact crash_before_commit c fs h.hne k (by omega)
  · intro hk; exact crash_replace_after c fs h hz hc k (by omega)

example : crashState exCfg
    exFS 5 [0, 1] = some (.file [9]) := by decide

/-- **Unlink-then-rename (what `_close_rename_standard` does)**: the same holds at every crash
point except the one between the two calls. -/
theorem atomic_all_prefixes_partial (c : Cfg) (fs : FS) (h : WF c fs) (hz : c.zipMember = none)
    (hc : c.commit = .unlinkRename) (k : Nat) (hk : k ≠ (pre c).length + 1) :
    (crashState c fs k c.dest = fs c.dest ∨ crashState c fs k c.dest = some (.file c.newData)) ∧
    (∀ p, p ≠ c.dest → under c.tmpdir p = false → crashState c fs k p = fs p) := by
  refine ⟨?_, fun p hp hu => crash_others_unchanged c fs k p hp hu⟩
  by_cases hk' : k ≤ (pre c).length
  · exact Or.inl (crash_before_commit c fs h.hne k hk')
  · exact Or.inr (crash_unlinkRename_after c fs h hz hc k (by omega))

/- FULL STATEMENT (not proved): `atomic_all_prefixes` for `c.commit = .unlinkRename` without the
   hypothesis `k ≠ (pre c).length + 1`.  It is false: see `atomic_all_prefixes_counter`
   (in the window the destination is gone whatever it held). -/

/-- In the window between `unlink` and `rename` the destination is absent, whatever it held:
for any pre-existing content this is neither the old nor the new state. -/
theorem atomic_all_prefixes_counter (c : Cfg) (fs : FS) (h : WF c fs) (hz : c.zipMember = none)
    (hc : c.commit = .unlinkRename) :
    crashState c fs ((pre c).length + 1) c.dest = none :=
  crash_unlinkRename_window c fs h hz hc

/-- concrete witness (dest `[0,1]` holding `[9]`, one chunk `[5]`, killed before call 4 = the rename) -/
theorem atomic_all_prefixes_counter_witness :
    let c : Cfg := exCfgCoded
    let fs : FS := exFS
    fs c.dest = some (.file [9]) ∧ crashState c fs 5 c.dest = none ∧
    crashState c fs 4 c.dest = some (.file [9]) ∧ crashState c fs 6 c.dest = some (.file [5]) := by
  decide

/-- **Repaired handler table** (cleanup in a `finally`, guarded open) with the one-call commit:
whichever call before the final `rmtree` raises, the destination keeps its previous content (or
absence) and no path under the temp dir remains. -/
theorem fault_leaves_old_and_no_temp (c : Cfg) (fs : FS) (h : WF c fs) (hz : c.zipMember = none)
    (hc : c.commit = .replace) (hg : c.guarded = true) (hw : c.withBlock = true) (hb : c.bodyUnlink = false)
    (k : Nat) (hk : k + 1 < (program c).length) :
    faultState c fs k c.dest = fs c.dest ∧ ∀ p, under c.tmpdir p = true → faultState c fs k p = none := by
  have : (program c).length = (pre c).length + 2 := by simp [program, post, commitInstrs, hz, hc]
  exact fault_guarded_replace c fs h hz hc hg hw hb k (by omega)

example : faultState exCfg
    exFS 5 [0, 2] = none := by decide

/-- **Handlers as coded** (no cleanup outside the with-block): a failure *inside the writer's
with-block* (any data write) is handled correctly — unless the writer's own except-clause
unlinks the destination (`save_to_filename`). -/
theorem fault_leaves_old_and_no_temp_partial (c : Cfg) (fs : FS) (h : WF c fs) (hw : c.withBlock = true)
    (hb : c.bodyUnlink = false) (j : Nat) (hj : j < c.chunks.length) :
    faultState c fs (j + 2) c.dest = fs c.dest ∧
    ∀ p, under c.tmpdir p = true → faultState c fs (j + 2) p = none := by
  have hk : j + 2 ≤ (pre c).length := by rw [pre_length]; omega
  have hS := crash_tmpdir_pre c fs h (j + 2) (by omega) hk
  have hD := crash_before_commit c fs h.hne (j + 2) hk
  unfold faultState
  rw [phaseAt_body c j hj]
  rw [cleanup_result c _ hS _ (Or.inr (by simp [handler, hw, hb]))]
  exact ⟨by simp [not_under_tmpdir_dest c h.hne, hD], fun p hp => by simp [hp]⟩

/- FULL STATEMENT (not proved): `fault_leaves_old_and_no_temp` for `c.guarded = false` (the pinned
   tree).  False at the calls outside the with-block: see `fault_counter_witness`. -/

/-- As coded: `open` raising in `__enter__` leaks the temp dir (k = 1); the rename raising after the
unlink loses the destination and leaks the temp file (k = 4); a bare `atomic_write` object
(`Table.write`) leaks the temp dir when a data write fails (k = 2); `save_to_filename`'s own
except-clause removes the *destination* when a data write fails (k = 2). -/
theorem fault_counter_witness :
    let c : Cfg := exCfgCoded
    let fs : FS := exFS
    faultState c fs 1 c.tmpdir = some .dir ∧
    (faultState c fs 5 c.dest = none ∧ faultState c fs 5 c.tmpfile = some (.file [5])) ∧
    (faultState c fs 4 c.dest = some (.file [5]) ∧ faultState c fs 4 c.tmpdir = some .dir) ∧
    faultState { c with withBlock := false } fs 2 c.tmpdir = some .dir ∧
    faultState { c with bodyUnlink := true, closeInBody := true } fs 2 c.dest = none := by
  decide

/-- **zip-member target** (`in_zip`, append in place): outside the window between appending the
member data and writing the new central directory, the archive's readable members are the old
ones plus the new member after the append… -/
theorem zip_member_prefixes_partial (c : Cfg) (fs : FS) (h : WF c fs) (m : Nat) (hz : c.zipMember = some m)
    (ms : List (Nat × Data)) (hold : fs c.dest = some (.archive ms false)) (k : Nat)
    (hk : k ≠ (pre c).length + 1) :
    readable (crashState c fs k c.dest) = some ms ∨
    readable (crashState c fs k c.dest) = some (ms ++ [(m, c.newData)]) := by
  by_cases hk' : k ≤ (pre c).length
  · left; rw [crash_before_commit c fs h.hne k hk', hold]; rfl
  · right; exact zip_after c fs h m hz ms hold k (by omega)

/-- …and inside that window the archive is unreadable: every old member is lost with it. -/
theorem zip_member_counter (c : Cfg) (fs : FS) (h : WF c fs) (m : Nat) (hz : c.zipMember = some m)
    (ms : List (Nat × Data)) (hold : fs c.dest = some (.archive ms false)) :
    readable (crashState c fs ((pre c).length + 1) c.dest) = none :=
  zip_torn_window c fs h m hz ms hold

example : readable (crashState { exCfgCoded with zipMember := some 8 } exFSzip 6 [0, 1])
    = some [(4, [1]), (8, [5])] := by decide

/-- **Resume**: interrupt an `apply_to` run after any number `j` of written results (any
completion order), then run it again completely (again any completion order): every selected
input ends with exactly one record, equal to the app's result on that input alone — the same
store an uninterrupted run produces (`C14.apply_any_schedule`) — and an input whose completed
record was written before the interruption is not selected again. -/
theorem resume_same_store (idOf : Nat → Id) (app : Nat → Val) (s : Store) (inputs : List Nat)
    (sel : List (Id × Nat)) (hsel : select idOf s inputs [] = some sel)
    (results : List (Nat × Val)) (hperm : results.Perm (sel.map (wrapped app))) (j : Nat)
    (sel' : List (Id × Nat)) (hsel' : select idOf (writeAll idOf s (results.take j)) inputs [] = some sel')
    (results' : List (Nat × Val)) (hperm' : results'.Perm (sel'.map (wrapped app))) :
    (∀ p ∈ sel, entries (writeAll idOf (writeAll idOf s (results.take j)) results') p.1 = [(p.1, app p.2)]) ∧
    (∀ p ∈ sel, (p.2, app p.2) ∈ results.take j → (app p.2).isOk = true → ∀ q ∈ sel', q.1 ≠ p.1) :=
  resume_same_store' idOf app s inputs sel hsel results hperm j sel' hsel' results' hperm'

/-- the second run never fails with "non-unique identifier" when the first selection succeeded -/
theorem resume_selects (idOf : Nat → Id) (s s' : Store) (inputs : List Nat) (sel : List (Id × Nat))
    (hsel : select idOf s inputs [] = some sel) (hmono : ∀ i, hasDone s i = true → hasDone s' i = true) :
    ∃ sel', select idOf s' inputs [] = some sel' :=
  select_mono idOf s s' inputs sel hsel hmono

example : applyTo (fun m => m % 10) (fun m => .ok ⟨1, m, some m⟩) [] [11, 22, 33] [2, 0, 1]
    = some [(3, .ok ⟨1, 33, some 33⟩), (1, .ok ⟨1, 11, some 11⟩), (2, .ok ⟨1, 22, some 22⟩)] := by decide

end CogentModel.C19
