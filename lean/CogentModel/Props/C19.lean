import CogentModel.Model.AtomicWrite
import CogentModel.Model.Composable
import CogentModel.Proofs.AtomicWriteLemmas
import CogentModel.Proofs.ComposableLemmas
import CogentModel.Model.StoreWrite
import CogentModel.Proofs.StoreWriteLemmas
import CogentModel.Model.AtomicProg
import CogentModel.Proofs.AtomicProgLemmas
import CogentModel.Gen.C19Program
import CogentModel.Model.AtomicSite
import CogentModel.Proofs.AtomicSiteLemmas
import CogentModel.Gen.C19Writers
/-! # C19 — file writes are all-or-nothing; interrupted runs resume to the same result

`j.cfg` (`Job.cfg`) is THE model of the code as it is now: one-call commit (`src.replace(dest)`),
cleanup in a `finally`, guarded `__enter__`, every writer inside a with-block.  The harness checks
on every run that the real system-call traces, crash states and fault traces are those of `j.cfg`.

`crashState c fs k` = the file system after exactly the first `k` calls of the atomic_write
program (the process died just before call `k`); `faultState c fs k` = call `k` raised and the
code's handler ran.  `WF c fs`: the destination's directory exists, the destination is not a
directory, and the name `mkdtemp` returns is fresh.  All statements are for every initial file
system, every chunk list and every `k`.

The section "historical variants" at the end keeps theorems about the versions the code followed
before the `fix:` commits (unlink-then-rename, no cleanup outside the with-block, writer-level
unlink); they are not claims about the current code — they name what a regression would mean. -/
namespace CogentModel.C19
open CogentModel.AtomicWrite CogentModel.Composable

/-- example values used by the non-vacuity examples: directory `[0]`, destination `[0,1]` holding `[9]` -/
def exJob : Job := { dir := [0], name := 1, t := 2, u := 3, chunks := [[5], [6, 7]], closeInBody := false, zipMember := none }
def exCfg : Cfg := exJob.cfg
def exCfgCoded : Cfg :=
  { commit := .unlinkRename, guarded := false, withBlock := true, bodyUnlink := false, closeInBody := false,
    dir := [0], name := 1, t := 2, u := 3, chunks := [[5]], zipMember := none }
def exFS : FS := upd (upd (fun _ => none) [0] (some .dir)) [0, 1] (some (.file [9]))
def exFSzip : FS := upd (upd (fun _ => none) [0] (some .dir)) [0, 1] (some (.archive [(4, [1])] false))

example : WF exCfg exFS :=
  ⟨by decide, by decide, fun p hp => by
      have a : p ≠ [0, 1] := by intro e; subst e; revert hp; decide
      have b : p ≠ [0] := by intro e; subst e; revert hp; decide
      simp [exFS, upd, a, b], by decide⟩

/-! ## the code as it is now -/

/-- A complete run ends with exactly the new content at the destination, no temporary path left,
nothing else touched, and no call failing. -/
theorem write_completes (j : Job) (fs : FS) (h : WF j.cfg fs) (hz : j.zipMember = none) :
    crashState j.cfg fs (program j.cfg).length j.cfg.dest = some (.file j.cfg.newData) ∧
    (∀ p, under j.cfg.tmpdir p = true → crashState j.cfg fs (program j.cfg).length p = none) ∧
    (∀ p, p ≠ j.cfg.dest → under j.cfg.tmpdir p = false → crashState j.cfg fs (program j.cfg).length p = fs p) ∧
    (exec fs (program j.cfg)).2 = none := by
  have hz' : j.cfg.zipMember = none := hz
  have hc : j.cfg.commit = .replace := rfl
  have hlen : (program j.cfg).length = (pre j.cfg).length + 2 := by simp [program, post, commitInstrs, hz', hc]
  have hfull : exec fs (program j.cfg) = ((fun q => if under j.cfg.tmpdir q then none else commitState j.cfg fs q), none) := by
    unfold program
    rw [exec_append_ok _ _ _ (by rw [exec_pre _ fs h]), exec_pre _ fs h, exec_post_replace_2 _ fs h hz' hc]
  refine ⟨crash_replace_after _ fs h hz' hc _ (by omega), ?_, fun p hp hu => crash_others_unchanged _ fs _ p hp hu, by rw [hfull]⟩
  intro p hp
  unfold crashState
  rw [List.take_length, hfull]; simp [hp]

example : crashState exCfg exFS 7 [0, 1] = some (.file [5, 6, 7]) ∧ crashState exCfg exFS 7 [0, 2] = none := by decide

/-- **All-or-nothing at every crash point.** Whatever the initial file system (destination present
with any content, or absent), whatever the chunks, and wherever the process dies: up to and
including the point just before the rename the destination holds the old content (or is still
absent); from the rename on it holds the complete new content; nothing outside the temp dir is
ever touched. -/
theorem atomic_all_prefixes (j : Job) (fs : FS) (h : WF j.cfg fs) (hz : j.zipMember = none) (k : Nat) :
    (crashState j.cfg fs k j.cfg.dest = fs j.cfg.dest ∨ crashState j.cfg fs k j.cfg.dest = some (.file j.cfg.newData)) ∧
    (k ≤ renameIdx j.cfg → crashState j.cfg fs k j.cfg.dest = fs j.cfg.dest) ∧
    (renameIdx j.cfg < k → crashState j.cfg fs k j.cfg.dest = some (.file j.cfg.newData)) ∧
    (∀ p, p ≠ j.cfg.dest → under j.cfg.tmpdir p = false → crashState j.cfg fs k p = fs p) := by
  have hz' : j.cfg.zipMember = none := hz
  have hc : j.cfg.commit = .replace := rfl
  have hr : renameIdx j.cfg = (pre j.cfg).length := by simp [renameIdx, hc]
  refine ⟨?_, ?_, ?_, fun p hp hu => crash_others_unchanged _ fs k p hp hu⟩
  · by_cases hk : k ≤ (pre j.cfg).length
    · exact Or.inl (crash_before_commit _ fs h.hne k hk)
    · exact Or.inr (crash_replace_after _ fs h hz' hc k (by omega))
  · intro hk; exact crash_before_commit _ fs h.hne k (by omega)
  · intro hk; exact crash_replace_after _ fs h hz' hc k (by omega)

example : crashState exCfg exFS 5 [0, 1] = some (.file [9]) ∧ crashState exCfg exFS 6 [0, 1] = some (.file [5, 6, 7]) := by decide

/-- **Handled failures.** Whichever call before the final `rmtree` raises (mkdtemp, the open in
`__enter__`, any data write, the close, the rename), after the code's handler the destination keeps
its previous content (or absence) and no path under the temp dir remains. -/
theorem fault_leaves_old_and_no_temp (j : Job) (fs : FS) (h : WF j.cfg fs) (hz : j.zipMember = none)
    (k : Nat) (hk : k + 1 < (program j.cfg).length) :
    faultState j.cfg fs k j.cfg.dest = fs j.cfg.dest ∧
    ∀ p, under j.cfg.tmpdir p = true → faultState j.cfg fs k p = none := by
  have hz' : j.cfg.zipMember = none := hz
  have hc : j.cfg.commit = .replace := rfl
  have : (program j.cfg).length = (pre j.cfg).length + 2 := by simp [program, post, commitInstrs, hz', hc]
  exact fault_guarded_replace _ fs h hz' hc rfl rfl rfl k (by omega)

example : faultState exCfg exFS 5 [0, 2] = none ∧ faultState exCfg exFS 5 [0, 1] = some (.file [9]) ∧
    faultState exCfg exFS 1 [0, 2] = none := by decide

/-- **zip-member target** (`in_zip`, append in place — unchanged by the fixes): outside the window
between appending the member data and writing the new central directory, the archive's readable
members are the old ones, plus the new member after the append… -/
theorem zip_member_prefixes_partial (j : Job) (fs : FS) (h : WF j.cfg fs) (m : Nat) (hz : j.zipMember = some m)
    (ms : List (Nat × Data)) (hold : fs j.cfg.dest = some (.archive ms false)) (k : Nat)
    (hk : k ≠ (pre j.cfg).length + 1) :
    readable (crashState j.cfg fs k j.cfg.dest) = some ms ∨
    readable (crashState j.cfg fs k j.cfg.dest) = some (ms ++ [(m, j.cfg.newData)]) := by
  by_cases hk' : k ≤ (pre j.cfg).length
  · left; rw [crash_before_commit _ fs h.hne k hk', hold]; rfl
  · right; exact zip_after _ fs h m hz ms hold k (by omega)

/- FULL STATEMENT (not proved): `zip_member_prefixes_partial` without `hk`.  False, see
   `zip_member_counter`: `_close_rename_zip` appends into the live archive. -/

/-- …and inside that window the archive is unreadable: every old member is lost with it. -/
theorem zip_member_counter (j : Job) (fs : FS) (h : WF j.cfg fs) (m : Nat) (hz : j.zipMember = some m)
    (ms : List (Nat × Data)) (hold : fs j.cfg.dest = some (.archive ms false)) :
    readable (crashState j.cfg fs ((pre j.cfg).length + 1) j.cfg.dest) = none :=
  zip_torn_window _ fs h m hz ms hold

example : readable (crashState { exJob with zipMember := some 8 }.cfg exFSzip 7 [0, 1])
    = some [(4, [1]), (8, [5, 6, 7])] ∧
    readable (crashState { exJob with zipMember := some 8 }.cfg exFSzip 6 [0, 1]) = none := by decide

/-- **Resume**: interrupt an `apply_to` run after any number `j` of written results (any
completion order), then run it again completely (again any completion order): every selected
input ends with exactly one record, equal to the app's result on that input alone — the same
store an uninterrupted run produces (`C14.apply_any_schedule`) — and an input whose completed
record was written before the interruption is not selected again. -/
theorem resume_same_store (idOf : Nat → Id) (app : Nat → Val) (s : Store) (inputs : List Nat)
    (sel : List (Id × Nat)) (hsel : select idOf s inputs [] = some sel)
    (results : List (Nat × Val)) (hperm : results.Perm (sel.map (wrapped app))) (j : Nat)
    (sel' : List (Id × Nat)) (hsel' : select idOf (writeAll idOf s (results.take j)) inputs [] = some sel')
    (results' : List (Nat × Val)) (hperm' : results'.Perm (sel'.map (wrapped app))) :
    (∀ p ∈ sel, entries (writeAll idOf (writeAll idOf s (results.take j)) results') p.1 = [(p.1, app p.2)]) ∧
    (∀ p ∈ sel, (p.2, app p.2) ∈ results.take j → (app p.2).isOk = true → ∀ q ∈ sel', q.1 ≠ p.1) :=
  resume_same_store' idOf app s inputs sel hsel results hperm j sel' hsel' results' hperm'

/-- the second run never fails with "non-unique identifier" when the first selection succeeded -/
theorem resume_selects (idOf : Nat → Id) (s s' : Store) (inputs : List Nat) (sel : List (Id × Nat))
    (hsel : select idOf s inputs [] = some sel) (hmono : ∀ i, hasDone s i = true → hasDone s' i = true) :
    ∃ sel', select idOf s' inputs [] = some sel' :=
  select_mono idOf s s' inputs sel hsel hmono

example : applyTo (fun m => m % 10) (fun m => .ok ⟨1, m, some m⟩) [] [11, 22, 33] [2, 0, 1]
    = some [(3, .ok ⟨1, 33, some 33⟩), (1, .ok ⟨1, 11, some 11⟩), (2, .ok ⟨1, 22, some 22⟩)] := by decide

-- (auditor) non-vacuity of `resume_same_store`: an interrupted run with all hypotheses instantiated (three inputs, the
-- second fails; results arrive as 33, 22, 11; killed after two of them; the re-run selects 11 and 22 again, not 33)
def exApp : Nat → Val := fun m => if m = 22 then .nc ⟨.error, 2, .exc 1, some 22⟩ else .ok ⟨1, m, some m⟩
example := resume_same_store (fun m => m % 10) exApp [] [11, 22, 33] [(1, 11), (2, 22), (3, 33)] (by decide)
    [(33, exApp 33), (22, exApp 22), (11, exApp 11)] (by decide) 2
    [(1, 11), (2, 22)] (by decide) [(22, exApp 22), (11, exApp 11)] (by decide)

/-! ## zip-member target under a raised OSError (handlers as they are) -/

/-- What IS guaranteed for `atomic_write(member, in_zip=archive)` when a call raises: no path under the
temp dir remains whichever call it is; if the failing call comes before the append (mkdtemp, open,
any data write, close) the destination — the archive with all its members — is untouched. -/
theorem zip_member_fault (j : Job) (fs : FS) (h : WF j.cfg fs) (m : Nat) (hz : j.zipMember = some m)
    (ms : List (Nat × Data)) (hold : fs j.cfg.dest = some (.archive ms false)) (k : Nat)
    (hk : k ≤ (pre j.cfg).length + 1) :
    (∀ p, under j.cfg.tmpdir p = true → faultState j.cfg fs k p = none) ∧
    (k < (pre j.cfg).length → faultState j.cfg fs k j.cfg.dest = fs j.cfg.dest) := by
  by_cases h1 : k < (pre j.cfg).length
  · have := fault_before_commit j.cfg fs h rfl rfl rfl k h1
    exact ⟨this.2, fun _ => this.1⟩
  · by_cases h2 : k = (pre j.cfg).length
    · subst h2
      exact ⟨(fault_at_zipData j.cfg fs h m rfl hz ms hold).2, fun hh => absurd hh h1⟩
    · have : k = (pre j.cfg).length + 1 := by omega
      subst this
      exact ⟨(fault_at_zipDir j.cfg fs h m rfl hz ms hold).2, fun hh => absurd hh h1⟩

/- FULL STATEMENT (not proved): `faultState … dest = fs dest` for every `k` (as `fault_leaves_old_and_no_temp`
   says for plain targets).  False at the two calls of the append, see `zip_member_fault_counter`. -/

/-- …and what is NOT: an OSError while opening the archive for append is swallowed by `zipfile` itself,
which retries in mode 'w+b' — the write reports success with an archive holding ONLY the new member (all
previous members lost); an OSError while writing the central directory leaves the archive unreadable. -/
theorem zip_member_fault_counter (j : Job) (fs : FS) (h : WF j.cfg fs) (m : Nat) (hz : j.zipMember = some m)
    (ms : List (Nat × Data)) (hold : fs j.cfg.dest = some (.archive ms false)) :
    faultState j.cfg fs (pre j.cfg).length j.cfg.dest = some (.archive [(m, j.cfg.newData)] false) ∧
    readable (faultState j.cfg fs ((pre j.cfg).length + 1) j.cfg.dest) = none :=
  ⟨(fault_at_zipData j.cfg fs h m rfl hz ms hold).1, (fault_at_zipDir j.cfg fs h m rfl hz ms hold).1⟩

example : faultState { exJob with zipMember := some 8 }.cfg exFSzip 5 [0, 1] = some (.archive [(8, [5, 6, 7])] false) ∧
    faultState { exJob with zipMember := some 8 }.cfg exFSzip 3 [0, 1] = some (.archive [(4, [1])] false) ∧
    faultState { exJob with zipMember := some 8 }.cfg exFSzip 6 [0, 2] = none := by decide

/-! ## the `tmpdir=` argument: the temp file lives in a directory supplied by the caller -/

/-- **`atomic_write(path, tmpdir=D)` as it is now** (after 9c9e074c9: only the temp FILE is removed when the
directory is the caller's — `programTmp … .unlinkFile` is THE model of this route): a complete write leaves
exactly the new content at the destination, no temp file, and every other path — in particular everything
else in the caller's directory — untouched. -/
theorem write_completes_tmpdir (j : Job) (fs : FS) (h : WFtmp j.cfg fs) :
    (exec fs (programTmp j.cfg .unlinkFile)).2 = none ∧
    (exec fs (programTmp j.cfg .unlinkFile)).1 j.cfg.dest = some (.file j.cfg.newData) ∧
    (exec fs (programTmp j.cfg .unlinkFile)).1 j.cfg.tmpfile = none ∧
    (∀ q, q ≠ j.cfg.dest → q ≠ j.cfg.tmpfile → (exec fs (programTmp j.cfg .unlinkFile)).1 q = fs q) := by
  rw [exec_programTmp_unlink j.cfg fs h]
  refine ⟨rfl, ?_, ?_, ?_⟩
  · simp [tmpCommitted, upd, (tmpfile_ne_dest j.cfg h.hne).symm]
  · simp [tmpCommitted]
  · intro q h1 h2; simp [tmpCommitted, tmpState, upd, h1, h2]

/-- caller's directory `[0,2]` holding `precious = [0,2,7]` -/
def exFStmp : FS := upd (upd exFS [0, 2] (some .dir)) [0, 2, 7] (some (.file [4, 4]))
example : (exec exFStmp (programTmp exCfg .rmtreeDir)).1 [0, 2, 7] = none ∧
    (exec exFStmp (programTmp exCfg .unlinkFile)).1 [0, 2, 7] = some (.file [4, 4]) ∧
    (exec exFStmp (programTmp exCfg .unlinkFile)).1 [0, 1] = some (.file [5, 6, 7]) := by decide

/-! ## resume at the granularity of the store's file operations -/
open CogentModel.StoreWrite

/-- every prefix of the file-operation sequence of an `apply_to` run is one of the crash points `(j, p)`
(first `j` inputs processed completely, `p` file operations of the next one done) -/
theorem every_prefix_is_a_crash_point (var : Variant) (idOf : Nat → Id) (app : Nat → Val) (s0 : FStore)
    (inputs : List Nat) (k : Nat) :
    ∃ j p, (runOps var idOf app s0 inputs).take k = crashOps var idOf app s0 inputs j p :=
  take_runOps var idOf app s0 inputs k

/-- **The store write as it is now** (`DataStoreDirectory._write` after 8ee96b6d1: md5 file, then record file, each
put in place by one rename through `atomic_write`; `StoreWrite.Variant.atomicMd5First` is THE model): for
every initial store, every app, inputs with distinct identifiers, and EVERY crash point inside or between
record writes, interrupt + complete re-run ends with the same store (record, not-completed record and md5
file of every identifier) as an uninterrupted run. -/
theorem resume_same_store_fine (idOf : Nat → Id) (app : Nat → Val) (s0 : FStore) (inputs : List Nat)
    (hn : (inputs.map idOf).Nodup) (j p : Nat) (i : Id) :
    resumed .atomicMd5First idOf app s0 inputs j p i = uninterrupted .atomicMd5First idOf app s0 inputs i :=
  resume_pointwise .atomicMd5First idOf app s0 inputs hn j p (fun c v t _ => cell_resume_atomic c v t) i

/-- …stated over every prefix `k` of the file-operation sequence of the run. -/
theorem resume_same_store_every_prefix (idOf : Nat → Id) (app : Nat → Val) (s0 : FStore) (inputs : List Nat)
    (hn : (inputs.map idOf).Nodup) (k : Nat) (i : Id) :
    let s1 := StoreWrite.exec s0 ((runOps .atomicMd5First idOf app s0 inputs).take k)
    StoreWrite.exec s1 (runOps .atomicMd5First idOf app s1 inputs) i = uninterrupted .atomicMd5First idOf app s0 inputs i := by
  obtain ⟨j, p, e⟩ := take_runOps .atomicMd5First idOf app s0 inputs k
  simp only [e]
  exact resume_same_store_fine idOf app s0 inputs hn j p i

example :
    let idOf : Nat → Id := fun m => m
    let app : Nat → Val := fun m => if m = 8 then .nc ⟨.error, 1, .exc 1, some 8⟩ else .ok ⟨1, m, some m⟩
    let s0 : FStore := fun _ => Cell.none
    resumed .atomicMd5First idOf app s0 [7, 8, 9] 1 1 8 = uninterrupted .atomicMd5First idOf app s0 [7, 8, 9] 8 ∧
    (uninterrupted .atomicMd5First idOf app s0 [7, 8, 9] 8).nc = .full (app 8) ∧
    (StoreWrite.exec s0 (crashOps .atomicMd5First idOf app s0 [7, 8, 9] 1 1) 8).nc = .absent := by decide

/-! ## the program TRANSLATED from the source (translator/c19_atomic2lean.py → Gen/C19Program.lean)

`Gen.C19Program.code` is rewritten on every run from the AST of util/io.py: the control structure (sequencing, try /
except-reraise, suppress, try / finally, the state tests) around the file-system calls of `atomic_write.__init__`,
`__enter__`, `__exit__` with the class's own method calls inlined.  `AtomicProg.runWith` is Python's with-statement
protocol over that code under one injected fault.  The theorems below connect it — for every job, every chunk
list, every fault position — to the flat `program` / `faultTrace` / handler table that the crash and fault theorems
above are about, so the handler table is no longer an independent hand-written input. -/
section translated
open CogentModel.AtomicProg

/-- the translated code IS the hand model of the class (any semantic edit of `__init__`, `_make_tmppath`, `__enter__`,
`_get_fileobj`, `_cleanup`, `_close_rename_*`, `__exit__` changes the left-hand side) -/
theorem translated_code_is_model : Gen.C19Program.code = AtomicProg.hand := rfl

/-- the translated write list of `DataStoreDirectory._write` is THE model of the store write (`atomicMd5First`:
md5 first, record last, each by one rename out of a private temp dir), for every result -/
theorem translated_store_write_is_model (v : Val) :
    blockOfWrites v Gen.C19Program.storeWrites = some (block .atomicMd5First v) := by
  cases h : v.isOk <;> simp [Gen.C19Program.storeWrites, blockOfWrites, opsOfWrite, block, h]

/-- **no fault**: the translated code issues exactly the flat program (plain and zip-member targets; every chunk list)
and returns normally -/
theorem translated_run_is_program (j : Job) :
    runWith Gen.C19Program.code j.cfg true none = ⟨program j.cfg, false, none⟩ := by
  rw [translated_code_is_model]; exact runWith_hand_none j.cfg rfl

/-- **the handler table is derived**: whichever call `k` of the program raises, the translated code issues exactly
`faultTrace j.cfg k` — the first `k` calls, the failing one, then the handler-table entry of its phase — and the
exception reaches the caller unless the failing call is the last one (`rmtree(…, ignore_errors=True)`). -/
theorem translated_fault_is_handler_table (j : Job) (hz : j.zipMember = none) (hcb : j.closeInBody = false)
    (k : Nat) (hk : k < (program j.cfg).length) :
    runWith Gen.C19Program.code j.cfg true (some k) =
      ⟨faultTrace j.cfg k, decide (k + 1 < (program j.cfg).length), none⟩ := by
  rw [translated_code_is_model]; exact runWith_hand_fault j.cfg hz rfl rfl rfl rfl hcb k hk

/-- the same for a zip-member target; the failing open of the archive (call `n + 3`) is swallowed by `zipfile`'s own
retry, the failing cleanup (call `n + 5`) by `ignore_errors` -/
theorem translated_fault_is_handler_table_zip (j : Job) (m : Nat) (hz : j.zipMember = some m) (hcb : j.closeInBody = false)
    (k : Nat) (hk : k < (program j.cfg).length) :
    runWith Gen.C19Program.code j.cfg true (some k) =
      ⟨faultTrace j.cfg k, decide (k ≠ j.chunks.length + 3 ∧ k ≠ j.chunks.length + 5), none⟩ := by
  rw [translated_code_is_model]; exact runWith_hand_fault_zip j.cfg m hz rfl rfl rfl hcb k hk

/-- the `tmpdir=` route of the translated code is `programTmp … unlinkFile` (no mkdtemp, only the temp file removed) -/
theorem translated_tmpdir_route (j : Job) (hz : j.zipMember = none) :
    runWith Gen.C19Program.code j.cfg false none = ⟨programTmp j.cfg .unlinkFile, false, none⟩ := by
  rw [translated_code_is_model]; exact runWith_hand_tmpdir_none j.cfg hz

/-- **OSError at EVERY call, including the final cleanup** (the fault theorem above stops before it): if the write
raises, the destination keeps its previous content (or absence) and nothing is left under the temp dir; if it
returns normally although a call failed, the destination holds the complete new content. -/
theorem fault_at_every_call_outcome (j : Job) (fs : FS) (h : WF j.cfg fs) (hz : j.zipMember = none)
    (hcb : j.closeInBody = false) (k : Nat) (hk : k < (program j.cfg).length) :
    ((runWith Gen.C19Program.code j.cfg true (some k)).raised = true →
      faultState j.cfg fs k j.cfg.dest = fs j.cfg.dest ∧ ∀ p, under j.cfg.tmpdir p = true → faultState j.cfg fs k p = none) ∧
    ((runWith Gen.C19Program.code j.cfg true (some k)).raised = false →
      faultState j.cfg fs k j.cfg.dest = some (.file j.cfg.newData)) := by
  rw [translated_fault_is_handler_table j hz hcb k hk]
  have hz' : j.cfg.zipMember = none := hz
  have hlen : (program j.cfg).length = j.cfg.chunks.length + 5 := by simp [program_replace j.cfg hz' rfl, writes]
  constructor
  · intro hr
    exact fault_leaves_old_and_no_temp j fs h hz k (by simpa using hr)
  · intro hr
    have hk' : k = j.cfg.chunks.length + 4 := by
      have : ¬ (k + 1 < (program j.cfg).length) := by simpa using hr
      omega
    subst hk'
    unfold faultState
    rw [phaseAt_last_replace j.cfg hz' rfl]
    simp only [handler, AtomicWrite.exec]
    exact crash_replace_after j.cfg fs h hz' rfl _ (by rw [pre_length]; omega)

example : (runWith Gen.C19Program.code exCfg true (some 6)).raised = false ∧
    (runWith Gen.C19Program.code exCfg true (some 5)).raised = true ∧
    faultState exCfg exFS 6 [0, 1] = some (.file [5, 6, 7]) ∧ faultState exCfg exFS 5 [0, 1] = some (.file [9]) := by decide

/-- **formatting failure** (the writer's own code raises inside its with-block after any number `n` of chunks, no
file-system call fails): the translated code closes the temp file, does not commit and removes the temp dir; no call
fails, the destination and every path outside the temp dir are untouched, nothing under the temp dir remains. -/
theorem formatting_failure_leaves_old_and_no_temp (j : Job) (fs : FS) (h : WF j.cfg fs) (hcb : j.closeInBody = false) (n : Nat) :
    runWithBody Gen.C19Program.code j.cfg true (fmtFailBody j.cfg n) none = ⟨fmtFailTrace j.cfg n, true, none⟩ ∧
    (AtomicWrite.exec fs (fmtFailTrace j.cfg n)).2 = none ∧
    (AtomicWrite.exec fs (fmtFailTrace j.cfg n)).1 j.cfg.dest = fs j.cfg.dest ∧
    (∀ p, under j.cfg.tmpdir p = true → (AtomicWrite.exec fs (fmtFailTrace j.cfg n)).1 p = none) ∧
    (∀ p, under j.cfg.tmpdir p = false → (AtomicWrite.exec fs (fmtFailTrace j.cfg n)).1 p = fs p) := by
  rw [translated_code_is_model]
  exact ⟨runWith_hand_fmtfail j.cfg hcb n, fmtfail_state j.cfg fs h n⟩

example : (AtomicWrite.exec exFS (fmtFailTrace exCfg 1)).1 [0, 1] = some (.file [9]) ∧
    (AtomicWrite.exec exFS (fmtFailTrace exCfg 1)).1 [0, 2] = none ∧ (fmtFailTrace exCfg 1).length = 5 := by decide

end translated

/-! ## wave 2: the `tmpdir=` route at every crash point and under a fault at every call; the bare-object protocol;
the writers' call sites -/
section wave2
open CogentModel.AtomicProg CogentModel.AtomicSite

/-- **`atomic_write(path, tmpdir=D)` killed at ANY point** (`crashStateTmp … k` = exactly the first `k` calls of the route
happened; open, the writes, close, rename, the unlink of the temp file): up to and including the point just before the rename
the destination holds its previous content (or absence), from the rename on the complete new content and the temp file is
gone; every path other than the destination and the temp file — everything the caller keeps in `D` — is untouched at every
prefix.  (A kill before the rename can leave the temp file in `D`; nothing can remove it then.) -/
theorem tmpdir_route_all_prefixes (j : Job) (fs : FS) (h : WFtmp j.cfg fs) (k : Nat) :
    (k ≤ j.chunks.length + 2 → crashStateTmp j.cfg fs k j.cfg.dest = fs j.cfg.dest) ∧
    (j.chunks.length + 2 < k → crashStateTmp j.cfg fs k j.cfg.dest = some (.file j.cfg.newData) ∧
      crashStateTmp j.cfg fs k j.cfg.tmpfile = none) ∧
    (∀ q, q ≠ j.cfg.dest → q ≠ j.cfg.tmpfile → crashStateTmp j.cfg fs k q = fs q) := by
  have hne := (tmpfile_ne_dest j.cfg h.hne).symm
  refine ⟨fun hk => crashTmp_before j.cfg fs k hk _ hne, fun hk => ?_, fun q h1 h2 => ?_⟩
  · rw [crashTmp_after j.cfg fs h k (by have e : j.cfg.chunks.length = j.chunks.length := rfl; omega)]
    exact ⟨by simp [tmpCommitted, upd, hne], by simp [tmpCommitted]⟩
  · by_cases hk : k ≤ j.chunks.length + 2
    · exact crashTmp_before j.cfg fs k hk q h2
    · rw [crashTmp_after j.cfg fs h k (by have e : j.cfg.chunks.length = j.chunks.length := rfl; omega)]
      simp [tmpCommitted, tmpState, upd, h1, h2]

example : crashStateTmp exCfg exFStmp 3 [0, 1] = some (.file [9]) ∧ crashStateTmp exCfg exFStmp 3 [0, 2, 3] = some (.file [5, 6, 7]) ∧
    crashStateTmp exCfg exFStmp 5 [0, 1] = some (.file [5, 6, 7]) ∧ crashStateTmp exCfg exFStmp 5 [0, 2, 3] = none ∧
    crashStateTmp exCfg exFStmp 4 [0, 2, 7] = some (.file [4, 4]) := by decide

/-- **OSError at EVERY call of the `tmpdir=` route** (the translated code, with-statement protocol): the calls issued are
the first `k`, the failing one and `handlerTmp` (the close of `__exit__` when the block raised, then `suppress(OSError):
tmp.unlink()`); the exception reaches the caller unless the failing call is that final unlink; if it does, the destination
keeps its previous content, if it does not, the destination holds the complete new content; in both cases the temp file is
gone and every other path (the caller's directory and all it holds) is untouched. -/
theorem tmpdir_route_fault_at_every_call (j : Job) (fs : FS) (h : WFtmp j.cfg fs) (hz : j.zipMember = none)
    (hcb : j.closeInBody = false) (k : Nat) (hk : k < j.chunks.length + 4) :
    runWith Gen.C19Program.code j.cfg false (some k) = ⟨faultTraceTmp j.cfg k, decide (k < j.chunks.length + 3), none⟩ ∧
    (k < j.chunks.length + 3 → faultStateTmp j.cfg fs k j.cfg.dest = fs j.cfg.dest) ∧
    (k = j.chunks.length + 3 → faultStateTmp j.cfg fs k j.cfg.dest = some (.file j.cfg.newData)) ∧
    faultStateTmp j.cfg fs k j.cfg.tmpfile = none ∧
    (∀ q, q ≠ j.cfg.dest → q ≠ j.cfg.tmpfile → faultStateTmp j.cfg fs k q = fs q) := by
  have hne := (tmpfile_ne_dest j.cfg h.hne).symm
  have hf : fileOrNone (fs j.cfg.tmpfile) := by rw [h.hfile]; trivial
  refine ⟨by rw [translated_code_is_model]; exact runWith_hand_tmpdir_fault j.cfg hz hcb k hk, ?_, ?_, ?_, ?_⟩
  · intro hk'; exact (faultTmp_before j.cfg fs hf k hk').2 _ hne
  · intro hk'; subst hk'
    rw [show j.chunks.length = j.cfg.chunks.length from rfl, faultTmp_last j.cfg fs h]; simp [tmpCommitted, upd, hne]
  · by_cases hk' : k < j.chunks.length + 3
    · exact (faultTmp_before j.cfg fs hf k hk').1
    · have : k = j.cfg.chunks.length + 3 := by show k = j.chunks.length + 3; omega
      rw [this, faultTmp_last j.cfg fs h]; simp [tmpCommitted]
  · intro q h1 h2
    by_cases hk' : k < j.chunks.length + 3
    · exact (faultTmp_before j.cfg fs hf k hk').2 q h2
    · have : k = j.cfg.chunks.length + 3 := by show k = j.chunks.length + 3; omega
      rw [this, faultTmp_last j.cfg fs h]; simp [tmpCommitted, tmpState, upd, h1, h2]

example : faultStateTmp exCfg exFStmp 2 [0, 1] = some (.file [9]) ∧ faultStateTmp exCfg exFStmp 2 [0, 2, 3] = none ∧
    faultStateTmp exCfg exFStmp 4 [0, 1] = some (.file [9]) ∧ faultStateTmp exCfg exFStmp 5 [0, 1] = some (.file [5, 6, 7]) ∧
    faultStateTmp exCfg exFStmp 0 [0, 2, 7] = some (.file [4, 4]) ∧ (faultTraceTmp exCfg 1).length = 4 := by decide

/-- the three methods that drive a bare object, as translated -/
def genBare : BareCode := ⟨Gen.C19Program.init, Gen.C19Program.bareWrite, Gen.C19Program.bareClose⟩

/-- `atomic_write.write` (while no file is open: `_get_fileobj` opens the temp file, no guard) and `atomic_write.close`
(`__exit__(None, None, None)`) as translated ARE the hand model -/
theorem translated_bare_is_model : genBare = handBare := rfl

/-- **the bare-object protocol** `aw = atomic_write(p); aw.write(ch)+; aw.close()` (what `open_zip(…, "w")` hands out): without
a fault it issues exactly the flat program of the with-statement protocol — so `write_completes` and `atomic_all_prefixes`
(every kill point) hold for it unchanged. -/
theorem bare_object_run_is_program (j : Job) (hne : j.chunks ≠ []) :
    runBare genBare j.cfg true none = ⟨program j.cfg, false, none⟩ := by
  rw [translated_bare_is_model]; exact runBare_hand_none j.cfg rfl hne

/-- …and under an OSError at call `k`: from `close()` on (`k ≥ n + 2`: close, rename, cleanup) the calls and therefore the
outcome are those of the with-statement protocol (`fault_at_every_call_outcome`); BEFORE it (mkdtemp, the unguarded open in
the first `write`, any data write) the exception propagates and NO further call is issued — the destination is untouched, but
for `1 ≤ k` the temp dir stays behind (no `__enter__` guard, no `__exit__`): the "no temporary files after a handled failure"
clause needs the with-block, which every writer of cogent3 uses (`writer_call_sites_covered`). -/
theorem bare_object_fault_outcome (j : Job) (fs : FS) (h : WF j.cfg fs) (hz : j.zipMember = none) (hcb : j.closeInBody = false)
    (hne : j.chunks ≠ []) (k : Nat) (hk : k < (program j.cfg).length) :
    runBare genBare j.cfg true (some k) = ⟨bareFaultTrace j.cfg k, decide (k + 1 < (program j.cfg).length), none⟩ ∧
    (k < j.chunks.length + 2 → bareFaultTrace j.cfg k = (program j.cfg).take (k + 1) ∧
      crashState j.cfg fs k j.cfg.dest = fs j.cfg.dest ∧ (1 ≤ k → crashState j.cfg fs k j.cfg.tmpdir = some .dir)) ∧
    (j.chunks.length + 2 ≤ k → bareFaultTrace j.cfg k = faultTrace j.cfg k ∧
      (k + 1 < (program j.cfg).length → faultState j.cfg fs k j.cfg.dest = fs j.cfg.dest ∧
        ∀ p, under j.cfg.tmpdir p = true → faultState j.cfg fs k p = none) ∧
      (k + 1 = (program j.cfg).length → faultState j.cfg fs k j.cfg.dest = some (.file j.cfg.newData))) := by
  have hpre : (pre j.cfg).length = j.chunks.length + 3 := pre_length j.cfg
  refine ⟨by rw [translated_bare_is_model]; exact runBare_hand_fault j.cfg hz rfl rfl hcb hne k hk, ?_, ?_⟩
  · intro hlt
    refine ⟨by simp [bareFaultTrace, show k < j.cfg.chunks.length + 2 from hlt], ?_, ?_⟩
    · exact crash_before_commit j.cfg fs h.hne k (by omega)
    · intro h1; exact crash_tmpdir_pre j.cfg fs h k h1 (by omega)
  · intro hge
    have hnl : ¬ (k < j.cfg.chunks.length + 2) := by show ¬ (k < j.chunks.length + 2); omega
    have ho := fault_at_every_call_outcome j fs h hz hcb k hk
    rw [translated_fault_is_handler_table j hz hcb k hk] at ho
    refine ⟨by simp [bareFaultTrace, hnl], fun hl => ho.1 (by simpa using hl), fun hl => ho.2 (by simp; omega)⟩

example : (runBare genBare exCfg true (some 2)).trace.length = 3 ∧ (runBare genBare exCfg true (some 2)).raised = true ∧
    crashState exCfg exFS 2 [0, 2] = some .dir ∧ crashState exCfg exFS 2 [0, 1] = some (.file [9]) ∧
    (runBare genBare exCfg true (some 4)).trace = faultTrace exCfg 4 ∧ faultState exCfg exFS 4 [0, 2] = none := by decide

/-- **every call site of `atomic_write` in cogent3** (Gen/C19Writers.lean, translated from all of src/cogent3 on every run): the
ONLY call that does not satisfy the hypotheses of the outcome theorems (`Site.covered`: inside a with-block, no `tmpdir=`, no
`in_zip=`, no file-system call in the writer's own handlers or block, no close of its own) is `open_zip`'s
`return atomic_write(filename, mode=mode, in_zip=True)` — the `*.zip`-suffix route, which is exercised by injection only. -/
theorem writer_call_sites_covered :
    Gen.C19Writers.sites.filter (fun s => !s.covered) =
      [⟨"util/io.py", "open_zip", .returned, false, true, false, false, false, "dynamic"⟩] := by
  decide

/-- …in particular every site used through a with-block or as a bare object (all the writers: alignments, collections, trees,
tables, dict-arrays, tree collections, the directory data store's md5 and record files) is covered -/
theorem writer_call_sites_all_with_block : ∀ s ∈ Gen.C19Writers.sites, s.protocol ≠ .returned → s.covered = true := by
  decide

/-- **a covered call site falls under the outcome theorems**: the configuration it induces for any write job is THE model
`Job.cfg` (plain target, own temp dir, with-block), so at every crash point the destination is old-or-complete-new (old up
to the rename, new after it, nothing outside the temp dir touched), and a fault at any call either raises with the old
content and no temp path left, or (the swallowed cleanup failure) returns with the complete new content. -/
theorem covered_call_site_all_or_nothing (s : Site) (hs : s.covered = true) (j : Job) (fs : FS) (h : WF (s.cfg j) fs) (k : Nat) :
    s.cfg j = (plainJob j).cfg ∧
    ((crashState (s.cfg j) fs k (s.cfg j).dest = fs (s.cfg j).dest ∨
        crashState (s.cfg j) fs k (s.cfg j).dest = some (.file (s.cfg j).newData)) ∧
      (k ≤ renameIdx (s.cfg j) → crashState (s.cfg j) fs k (s.cfg j).dest = fs (s.cfg j).dest) ∧
      (renameIdx (s.cfg j) < k → crashState (s.cfg j) fs k (s.cfg j).dest = some (.file (s.cfg j).newData)) ∧
      (∀ p, p ≠ (s.cfg j).dest → under (s.cfg j).tmpdir p = false → crashState (s.cfg j) fs k p = fs p)) ∧
    (k < (program (s.cfg j)).length →
      ((runWith Gen.C19Program.code (s.cfg j) s.own (some k)).raised = true →
        faultState (s.cfg j) fs k (s.cfg j).dest = fs (s.cfg j).dest ∧
          ∀ p, under (s.cfg j).tmpdir p = true → faultState (s.cfg j) fs k p = none) ∧
      ((runWith Gen.C19Program.code (s.cfg j) s.own (some k)).raised = false →
        faultState (s.cfg j) fs k (s.cfg j).dest = some (.file (s.cfg j).newData))) := by
  have e := covered_cfg s hs j
  have ho : s.own = true := by
    simp only [Site.covered, Bool.and_eq_true, Bool.not_eq_eq_eq_not, Bool.not_true] at hs
    simp [Site.own, hs.1.1.1.1.2]
  rw [e] at h ⊢
  rw [ho]
  exact ⟨rfl, atomic_all_prefixes (plainJob j) fs h rfl k, fun hk => fault_at_every_call_outcome (plainJob j) fs h rfl rfl k hk⟩

example : (Gen.C19Writers.sites.filter (·.covered)).length ≥ 8 ∧
    (∀ s ∈ Gen.C19Writers.sites.filter (·.covered), (s.cfg exJob).withBlock = true ∧ (s.cfg exJob).zipMember = none ∧
      (s.cfg exJob).bodyUnlink = false ∧ s.own = true) := by decide

end wave2

/-! ## historical variants (NOT the current code)

What the same statements look like for the versions before the `fix:` commits.  The harness names
the variant when the real traces stop matching `Job.cfg`, so these say what such a regression means. -/

/-- unlink-then-rename (`_close_rename_standard` before 3deaff175): all-or-nothing holds at every
crash point except the one between the two calls… -/
theorem historical_unlink_rename_outside_window (c : Cfg) (fs : FS) (h : WF c fs) (hz : c.zipMember = none)
    (hc : c.commit = .unlinkRename) (k : Nat) (hk : k ≠ (pre c).length + 1) :
    (crashState c fs k c.dest = fs c.dest ∨ crashState c fs k c.dest = some (.file c.newData)) ∧
    (∀ p, p ≠ c.dest → under c.tmpdir p = false → crashState c fs k p = fs p) := by
  refine ⟨?_, fun p hp hu => crash_others_unchanged c fs k p hp hu⟩
  by_cases hk' : k ≤ (pre c).length
  · exact Or.inl (crash_before_commit c fs h.hne k hk')
  · exact Or.inr (crash_unlinkRename_after c fs h hz hc k (by omega))

/-- …and in that window the destination is absent, whatever it held. -/
theorem historical_unlink_rename_window (c : Cfg) (fs : FS) (h : WF c fs) (hz : c.zipMember = none)
    (hc : c.commit = .unlinkRename) :
    crashState c fs ((pre c).length + 1) c.dest = none :=
  crash_unlinkRename_window c fs h hz hc

/-- concrete witness (dest `[0,1]` holding `[9]`, one chunk `[5]`, killed before call 5 = the rename) -/
theorem historical_unlink_rename_witness :
    exFS exCfgCoded.dest = some (.file [9]) ∧ crashState exCfgCoded exFS 5 exCfgCoded.dest = none ∧
    crashState exCfgCoded exFS 4 exCfgCoded.dest = some (.file [9]) ∧
    crashState exCfgCoded exFS 6 exCfgCoded.dest = some (.file [5]) := by
  decide

/-- handlers before 3deaff175 (no cleanup outside the with-block): only a failure inside the
writer's with-block was handled correctly (and not if the writer's own except-clause unlinked the
destination, `save_to_filename` before ff8d48a2e). -/
theorem historical_handlers_with_block_only (c : Cfg) (fs : FS) (h : WF c fs) (hw : c.withBlock = true)
    (hb : c.bodyUnlink = false) (j : Nat) (hj : j < c.chunks.length) :
    faultState c fs (j + 2) c.dest = fs c.dest ∧
    ∀ p, under c.tmpdir p = true → faultState c fs (j + 2) p = none := by
  have hk : j + 2 ≤ (pre c).length := by rw [pre_length]; omega
  have hS := crash_tmpdir_pre c fs h (j + 2) (by omega) hk
  have hD := crash_before_commit c fs h.hne (j + 2) hk
  unfold faultState
  rw [phaseAt_body c j hj]
  rw [cleanup_result c _ hS _ (Or.inr (by simp [handler, hw, hb]))]
  exact ⟨by simp [not_under_tmpdir_dest c h.hne, hD], fun p hp => by simp [hp]⟩

/-- the failures of the historical handlers: `open` raising in `__enter__` leaked the temp dir
(k = 1); the rename raising after the unlink lost the destination and leaked the temp file
(k = 5); an unlink failure leaked the temp dir (k = 4); a bare `atomic_write` object
(`Table.write` before 5df264d66) leaked the temp dir when a data write failed (k = 2);
`save_to_filename`'s own except-clause removed the *destination* when a data write failed (k = 2). -/
theorem historical_handlers_witness :
    let c : Cfg := exCfgCoded
    let fs : FS := exFS
    faultState c fs 1 c.tmpdir = some .dir ∧
    (faultState c fs 5 c.dest = none ∧ faultState c fs 5 c.tmpfile = some (.file [5])) ∧
    (faultState c fs 4 c.dest = some (.file [5]) ∧ faultState c fs 4 c.tmpdir = some .dir) ∧
    faultState { c with withBlock := false } fs 2 c.tmpdir = some .dir ∧
    faultState { c with bodyUnlink := true, closeInBody := true } fs 2 c.dest = none := by
  decide


/-- `atomic_write(path, tmpdir=D)` before 9c9e074c9 ended with `shutil.rmtree(D)`: after a SUCCESSFUL write every
path under the caller's directory was gone — whatever the caller kept there. -/
theorem historical_tmpdir_route_removed_callers_dir (j : Job) (fs : FS) (h : WFtmp j.cfg fs) (q : Path)
    (hq : under j.cfg.tmpdir q = true) :
    (exec fs (programTmp j.cfg .rmtreeDir)).2 = none ∧ (exec fs (programTmp j.cfg .rmtreeDir)).1 q = none := by
  rw [exec_programTmp_rmtree j.cfg fs h]; simp [hq]

/-- the store write before 8ee96b6d1 (create the record file, fill it, create the md5 file, fill it — plain `open`):
interrupt + re-run gave the uninterrupted store only for crash points at record boundaries… -/
theorem historical_store_write_in_place_boundaries (idOf : Nat → Id) (app : Nat → Val) (s0 : FStore) (inputs : List Nat)
    (hn : (inputs.map idOf).Nodup) (j p : Nat) (hp : p = 0 ∨ 4 ≤ p) (i : Id) :
    resumed .inPlace idOf app s0 inputs j p i = uninterrupted .inPlace idOf app s0 inputs i :=
  resume_pointwise .inPlace idOf app s0 inputs hn j p
    (fun c v t ht => cell_resume_inPlace_boundary c v t (ht hp)) i

/-- …and not inside a record write (the auditor's witness): killed after the record file was CREATED (p = 1) the empty
file counted as completed and stayed empty for ever; killed before the md5 file was created (p = 2) the md5 was never
written; the current variant is right at the same points. -/
theorem historical_store_write_in_place_witness :
    let idOf : Nat → Id := fun m => m
    let app : Nat → Val := fun m => .ok ⟨1, m, some m⟩
    let s0 : FStore := fun _ => Cell.none
    (resumed .inPlace idOf app s0 [7] 0 1 7).data = .empty ∧
    (uninterrupted .inPlace idOf app s0 [7] 7).data = .full (.ok ⟨1, 7, some 7⟩) ∧
    (resumed .inPlace idOf app s0 [7] 0 2 7).md5 = .absent ∧
    (uninterrupted .inPlace idOf app s0 [7] 7).md5 = .full (.ok ⟨1, 7, some 7⟩) ∧
    (resumed .atomicMd5First idOf app s0 [7] 0 1 7) = (uninterrupted .atomicMd5First idOf app s0 [7] 7) := by
  decide

end CogentModel.C19
