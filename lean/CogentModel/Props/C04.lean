import CogentModel.Model.View
import CogentModel.Model.FeatureView
import CogentModel.Spec.FeatureView
import CogentModel.Proofs.ViewInv
import CogentModel.Proofs.FeatureView
/-! # C04 — annotations keep denoting the same residues through every view

All theorems are about views satisfying C01's representation invariant with `|step| = 1`
(`UnitView`): by C01's `mk_inv` every constructor call yields such an invariant view, whatever
the depth of slicing / reverse complementing, and any `offset`.  `segStart v` is the absolute
plus-strand start of the parent segment the view retains, `len v` its length. -/
namespace CogentModel.C04
open CogentModel.View CogentModel.FeatureView

/-- `get_features(start=a, stop=b)` sends to the annotation db exactly the absolute plus-strand
image of the relative window: `[p0+a, p0+b)` on a forward view, `[p0+L-b, p0+L-a)` on a
reverse-complemented one.  With C17's `partial_iff_overlap` / `within_iff` this is "exactly the
features overlapping / inside the queried window". -/
theorem query_window_exact (v : View) (h : UnitView v) (a b : Int) (ha : 0 ≤ a) (hab : a < b) (hb : b ≤ len v)
    (hoff : 0 ≤ v.offset) :
    queryWindow v (some a) (some b) =
      .ok (if v.step < 0 then (segStart v + (len v - b), segStart v + (len v - a))
           else (segStart v + a, segStart v + b)) :=
  queryWindow_exact v h a b ha hab hb hoff

example : UnitView { start := -3, stop := -9, step := -1, offset := 5, seqLen := 10 } ∧
    queryWindow { start := -3, stop := -9, step := -1, offset := 5, seqLen := 10 } (some 1) (some 4) = .ok (9, 12) := by
  decide

/-- Every absolute db coordinate is turned into its offset from the start of the retained parent
segment — on forward *and* reverse-complemented views (the `len(self) - x` flip undoes the
reversed `relative_position`), for any depth of slicing and any annotation offset. -/
theorem rel_coord_exact (v : View) (h : UnitView v) (hl : 0 < len v) (c : Int) (hc : 0 ≤ c) :
    relCoord v c = .ok (c - segStart v) :=
  relCoord_exact v h hl c hc

example : relCoord { start := -3, stop := -9, step := -1, offset := 5, seqLen := 10 } 9 = .ok 2 := by decide

/-- One span through `make_feature`'s clipping and `_spans_from_locations`: the real (non-lost)
part is exactly the span intersected with the view `[0, L)`, and lies inside the view —
**provided the span does not end exactly at the view start** (`e ≠ 0`). -/
theorem span_on_view_partial (L s e : Int) (hL : 0 < L) (hse : s < e) (he : e ≠ 0) :
    ∃ m, clipLocate L (s, e) = .ok m ∧
      realSpans m = (if max s 0 < min e L ∨ s = L then [(max s 0, min e L)] else []) ∧
      (∀ a b, MSpan.span a b ∈ m → 0 ≤ a ∧ a ≤ b ∧ b ≤ L) :=
  clipLocate_exact L s e hL hse he

example : clipLocate 5 (-2, 9) = .ok [.span 0 5, .lost 4] ∧ clipLocate 5 (3, 9) = .ok [.span 3 5] ∧
    clipLocate 5 (7, 9) = .ok [] := by decide

/-- `make_feature` returns a feature (no exception) for every multi-span record on a view of
positive length, forward or reverse complemented — **provided no span ends exactly at the view
start** and the kept spans pass `_spans_from_locations`' first/last order check (true for the
sorted spans the db stores). -/
theorem no_raise_partial_feature_partial (L : Int) (rced minus : Bool) (spans : List (Int × Int)) (hL : 0 < L)
    (hsp : ∀ sp ∈ spans, sp.1 < sp.2 ∧ sp.2 ≠ 0)
    (hord : firstLastOk (spans.filterMap (clipSpan L)) = true) :
    ∃ f, makeFeature L rced minus spans = .ok f :=
  makeFeature_ok L rced minus spans hL hsp hord

example : makeFeature 5 true false [(-3, 1), (2, 3), (4, 8)] =
    .ok { spans := [.lost 3, .span 0 1, .span 2 3, .span 4 5, .lost 3], reversed := true } := by decide

/- FULL STATEMENT (not proved): the same without `sp.2 ≠ 0`, i.e. for every feature that is only
   partly inside the view.  False of the mirrored model: a span that ends exactly at the view
   start becomes `(s, 0)` with `s < 0`; `make_feature` neither clips it (`min < 0 < max` fails) nor
   drops it (`max < 0` fails), and `_spans_from_locations` raises `ValueError`.  Witness below
   (view `[1:6]` of an 8-mer, spans `(0,1),(2,3),(4,5)`); replayed on the real code by
   harness/c04.py `check_witness`. -/
theorem no_raise_counter :
    makeFeature 5 false false [(-1, 0), (1, 2), (3, 4)] = .error .valueError ∧
    featureOnView { start := 1, stop := 6, step := 1, offset := 0, seqLen := 8 } false [(0, 1), (2, 3), (4, 5)]
      = .error .valueError := by
  decide

/-- The strand flag: the letters `get_slice` returns are complemented iff the *feature* is on the
minus strand, whatever the orientation of the view (`strand = "+" if revd == seq_rced else "-"`
combined with the view's own complement). -/
theorem complement_iff_minus (L : Int) (rced minus : Bool) (spans : List (Int × Int)) (f : Feat)
    (h : makeFeature L rced minus spans = .ok f) : (rced != f.reversed) = minus := by
  unfold makeFeature at h
  simp only [] at h
  split at h
  · cases h
  · cases rced
    · simp only [Bool.false_eq_true, if_false, Except.ok.injEq] at h
      subst h; cases minus <;> rfl
    · simp only [if_true] at h
      split at h
      · cases h
      · simp only [Except.ok.injEq] at h
        subst h; cases minus <;> rfl

example : (makeFeature 5 true true [(1, 3)]) = .ok { spans := [.span 2 4], reversed := false } := by decide

end CogentModel.C04
