import CogentModel.Model.View
import CogentModel.Model.FeatureView
import CogentModel.Model.FeatureSeq
import CogentModel.Spec.FeatureView
import CogentModel.Proofs.ViewInv
import CogentModel.Proofs.FeatureView
import CogentModel.Proofs.FeatureOnView
import CogentModel.Proofs.FeatureStrided
import CogentModel.Proofs.FeatureCopy
import CogentModel.Model.FeatureAdd
import CogentModel.Proofs.FeatureAdd
import CogentModel.Model.FeatureProject
import CogentModel.Proofs.FeatureProject
import CogentModel.Proofs.FeatureHistory
import CogentModel.Proofs.FeatureContig
/-! # C04 — annotations keep denoting the same residues through every view

The model mirrors `make_feature` as it is since commit 11fcfbb18 (spans that only touch a view
boundary are dropped).  All theorems are about views satisfying C01's representation invariant
with `|step| = 1` (`UnitView`): by C01's `mk_inv` / `getitem_inv` / `reachable_inv` every view
reached by any history of slicing / reverse complementing satisfies `Inv`, at any `offset`.
`segStart v` is the absolute plus-strand start of the parent segment the view retains and
`len v` its length; `WF s` is C01's well-formedness of the `Sequence` wrapper (`Inv` + parent
string of the recorded length), preserved by `seq_wf_getitem` / `seq_wf_rc`.  Feature spans are
as the annotation db stores them (C17 `add_feature` normalisation): `0 ≤ start < end`, ordered
by start. -/
namespace CogentModel.C04
open CogentModel.View CogentModel.FeatureView CogentModel.FeatureSpec CogentModel.SeqWrap

/-- **feature_on_view.**  For every well-formed nucleic `Sequence` whose view has unit stride
(forward or reverse complemented, any slicing depth, any annotation offset) and every feature
(any number of spans, either strand): `get_features` builds the feature without an exception
and `feature.get_slice()` returns exactly the parent residues at `denote f ∩ retained segment`,
in reading order, complemented iff the feature is on the minus strand. -/
theorem feature_on_view (comp : Char → Char) (hcomp : ∀ x, comp (comp x) = x) (s : Seq) (hw : WF s)
    (hn : s.nucleic = true) (hu : UnitView s.v) (hl : 0 < len s.v) (minus : Bool) (spans : List (Int × Int))
    (hsp : ∀ sp ∈ spans, 0 ≤ sp.1 ∧ sp.1 < sp.2) (hsorted : spans.Pairwise (fun a b => a.1 ≤ b.1)) :
    ∃ f, featureOnView s.v minus spans = .ok f ∧
      getSlice comp s f =
        (denote spans minus (segStart s.v) (segStart s.v + len s.v)).1.map
          (fun p => (if minus then comp else id) (s.parent[(p - s.v.offset).toNat]!)) :=
  getSlice_spec comp hcomp s hw hn hu hl minus spans hsp hsorted

-- view `rc(parent[1:6])` of `CCCGGCAT`, feature spans (0,1),(2,3),(4,5) on the minus strand: the spans
-- (2,3),(4,5) are retained, (0,1) only touches the view start and is dropped
example :
    let s : Seq := { parent := "CCCGGCAT".toList, v := { start := -3, stop := -8, step := -1, offset := 0, seqLen := 8 }, nucleic := true }
    WF s ∧ UnitView s.v ∧
    (match featureOnView s.v true [(0, 1), (2, 3), (4, 5)] with
      | .ok f => getSlice (fun c => if c = 'G' then 'C' else if c = 'C' then 'G' else if c = 'A' then 'T' else if c = 'T' then 'A' else c) s f
                  == "CG".toList
      | .error _ => false) = true := by
  decide

/-- The same at the level of positions, for any view record (no parent string needed): the
absolute plus-strand positions read by `get_slice`, in order, are `denote`. -/
theorem feature_positions_on_view (v : View) (h : UnitView v) (hl : 0 < len v) (minus : Bool)
    (spans : List (Int × Int)) (hsp : ∀ sp ∈ spans, 0 ≤ sp.1 ∧ sp.1 < sp.2)
    (hsorted : spans.Pairwise (fun a b => a.1 ≤ b.1)) :
    ∃ f, featureOnView v minus spans = .ok f ∧
      slicePositions v f = denote spans minus (segStart v) (segStart v + len v) :=
  featureOnView_spec v h hl minus spans hsp hsorted

example : UnitView { start := -3, stop := -8, step := -1, offset := 5, seqLen := 8 } ∧
    (match featureOnView { start := -3, stop := -8, step := -1, offset := 5, seqLen := 8 } false [(5, 8), (9, 12)] with
      | .ok f => slicePositions { start := -3, stop := -8, step := -1, offset := 5, seqLen := 8 } f == ([6, 7, 9, 10], false)
      | .error _ => false) = true := by
  decide

/-- `get_features(start=a, stop=b)` sends to the annotation db exactly the absolute plus-strand
image of the relative window: `[p0+a, p0+b)` on a forward view, `[p0+L-b, p0+L-a)` on a
reverse-complemented one.  With C17's `partial_iff_overlap` / `within_iff` this is "exactly the
features overlapping / inside the queried window". -/
theorem query_window_exact (v : View) (h : UnitView v) (a b : Int) (ha : 0 ≤ a) (hab : a < b) (hb : b ≤ len v)
    (hoff : 0 ≤ v.offset) :
    queryWindow v (some a) (some b) =
      .ok (if v.step < 0 then (segStart v + (len v - b), segStart v + (len v - a))
           else (segStart v + a, segStart v + b)) :=
  queryWindow_exact v h a b ha hab hb hoff

example : UnitView { start := -3, stop := -9, step := -1, offset := 5, seqLen := 10 } ∧
    queryWindow { start := -3, stop := -9, step := -1, offset := 5, seqLen := 10 } (some 1) (some 4) = .ok (9, 12) := by
  decide

/-- Every absolute db coordinate is turned into its offset from the start of the retained parent
segment — on forward *and* reverse-complemented views. -/
theorem rel_coord_exact (v : View) (h : UnitView v) (hl : 0 < len v) (c : Int) (hc : 0 ≤ c) :
    relCoord v c = .ok (c - segStart v) :=
  relCoord_exact v h hl c hc

example : relCoord { start := -3, stop := -9, step := -1, offset := 5, seqLen := 10 } 9 = .ok 2 := by decide

/-- `relative_position(absolute_position(i)) = i` for every index of a non-empty unit-stride view
(and for the end boundary `i = len` with `include_boundary=True`). -/
theorem rel_abs_inverse (v : View) (h : UnitView v) (hl : 0 < len v) (hoff : 0 ≤ v.offset) (i : Int) (b : Bool)
    (h0 : 0 ≤ i) (h1 : i < len v ∨ (i = len v ∧ b = true)) :
    ∃ a, absolutePosition v i b = .ok a ∧ relativePosition v a false = .ok i :=
  rel_abs v h hl hoff i b h0 h1

/-- `absolute_position(relative_position(a)) = a` for every absolute coordinate of the retained
segment, boundaries included. -/
theorem abs_rel_inverse (v : View) (h : UnitView v) (hl : 0 < len v) (a : Int) (ha : 0 ≤ a)
    (h0 : segStart v ≤ a) (h1 : a ≤ segStart v + len v) :
    ∃ r, relativePosition v a false = .ok r ∧ absolutePosition v r true = .ok a :=
  abs_rel v h hl a ha h0 h1

example : absolutePosition { start := -3, stop := -9, step := -1, offset := 5, seqLen := 10 } 2 = .ok 11 ∧
    relativePosition { start := -3, stop := -9, step := -1, offset := 5, seqLen := 10 } 11 = .ok 2 := by decide

/-- **span_on_view** (full strength): one span through `make_feature`'s clipping and
`_spans_from_locations` never raises; its real part is exactly the span intersected with the
view `[0, L)` and lies inside the view. -/
theorem span_on_view (L s e : Int) (hL : 0 < L) (hse : s < e) :
    ∃ m, clipLocate L (s, e) = .ok m ∧
      realSpans m = (if max s 0 < min e L then [(max s 0, min e L)] else []) ∧
      (∀ a b, MSpan.span a b ∈ m → 0 ≤ a ∧ a ≤ b ∧ b ≤ L) :=
  clipLocate_exact L s e hL (Int.le_of_lt hse)

example : clipLocate 5 (-2, 9) = .ok [.span 0 5] ∧ clipLocate 5 (3, 9) = .ok [.span 3 5] ∧
    clipLocate 5 (7, 9) = .ok [] ∧ clipLocate 5 (-1, 0) = .ok [] ∧ clipLocate 5 (5, 8) = .ok [] := by decide

/-- **no_raise_partial_feature** (full strength): `make_feature` returns a feature — never an
exception — for every record on a view of positive length, however its spans fall relative to the
view (inside, straddling, touching, outside), forward or reverse complemented. -/
theorem no_raise_partial_feature (L : Int) (rced minus : Bool) (spans : List (Int × Int)) (hL : 0 < L)
    (hsp : ∀ sp ∈ spans, sp.1 < sp.2) (hsorted : spans.Pairwise (fun a b => a.1 ≤ b.1)) :
    ∃ f, makeFeature L rced minus spans = .ok f := by
  obtain ⟨f, hf, _⟩ := makeFeature_spec L rced minus spans hL (fun sp h => Int.le_of_lt (hsp sp h)) hsorted
  exact ⟨f, hf⟩

-- the former counterexample (a span ending exactly at the view start) is now a feature
example : makeFeature 5 false false [(-1, 0), (1, 2), (3, 4)] =
    .ok { spans := [.lost 1, .span 1 2, .span 3 4], reversed := false } := by decide
example : makeFeature 5 true false [(-3, 1), (2, 3), (4, 8)] =
    .ok { spans := [.lost 3, .span 0 1, .span 2 3, .span 4 5, .lost 3], reversed := true } := by decide

/-- The strand flag: the letters `get_slice` returns are complemented iff the *feature* is on the
minus strand, whatever the orientation of the view. -/
theorem complement_iff_minus (L : Int) (rced minus : Bool) (spans : List (Int × Int)) (f : Feat)
    (h : makeFeature L rced minus spans = .ok f) : (rced != f.reversed) = minus := by
  unfold makeFeature at h
  simp only [] at h
  split at h
  · cases h
  · cases rced
    · simp only [Bool.false_eq_true, if_false, Except.ok.injEq] at h
      subst h; cases minus <;> rfl
    · simp only [if_true] at h
      split at h
      · cases h
      · simp only [Except.ok.injEq] at h
        subst h; cases minus <;> rfl

example : (makeFeature 5 true true [(1, 3)]) = .ok { spans := [.span 2 4], reversed := false } := by decide

/-- **projection_denotes.**  `Aligned.make_feature` projects a sequence feature onto the alignment
through `inverted[feature.map]` with `inverted = aligned_map.to_feature_map().inverse()`.  For any
aligned row `A` (one map position per alignment column: a sequence position, or lost for a gap;
ordered, inside the sequence) and any sequence feature map `fm` whose residues are all present in
the row: the projection never fails, its parent is the alignment (`len A` columns), and its `j`-th
position is the alignment column `k` that holds exactly the residue `p` which the sequence feature
has at its `j`-th position — for multi-span and reversed features alike, with gaps inside or
between the spans.  (C08's `FeatureMap` model: `inverse_is_converse`, `getitem_is_composition`.) -/
theorem projection_denotes (A fm : FMap.FM) (hA : FMap.SortedFwd A) (hpl : 0 < A.parentLength)
    (hfm : ∀ x ∈ fm.spans, x.idxIn A.parentLength)
    (hcov : ∀ (j : Nat) (p : Int), (FMap.cover fm)[j]? = some (some p) → ∃ k : Nat, (FMap.cover A)[k]? = some (some p)) :
    ∃ r, FMap.project A fm = .ok r ∧ r.parentLength = FMap.len A ∧
      ∀ (j : Nat) (p : Int), (FMap.cover fm)[j]? = some (some p) →
        ∃ k : Nat, (FMap.cover r)[j]? = some (some (k : Int)) ∧ (FMap.cover A)[k]? = some (some p) :=
  FMap.project_denotes A fm hA hpl hfm hcov

-- row `AC--GT-A` (sequence ACGTA), feature spans (1,3),(4,5) read reversed: columns of C,G and of the last A
example :
    let A : FMap.FM := ⟨[.span 0 2 false, .lost 2, .span 2 4 false, .lost 1, .span 4 5 false], 5⟩
    let fm : FMap.FM := ⟨[.span 4 5 true, .span 1 3 true], 5⟩
    FMap.SortedFwd A ∧ (∀ x ∈ fm.spans, x.idxIn A.parentLength) ∧
    (FMap.project A fm).toOption.map FMap.cover = some [some 7, some 4, some 1] := by
  decide

/-! ## Added by the audit (2026-09-29) -/

-- a second witness for `feature_on_view` whose answer is NOT its own reverse complement (the one above, "CG", is):
-- view `rc(parent[2:8])` of `ACGTTGCAAT`, minus-strand feature (1,4),(6,9): retained plus-strand residues
-- `GT` + `CA`, read on the minus strand: `TGAC`; and the same feature on the plus strand of the same view: `GTCA`
example :
    let s : Seq := { parent := "ACGTTGCAAT".toList, v := { start := -3, stop := -9, step := -1, offset := 0, seqLen := 10 }, nucleic := true }
    let comp : Char → Char := fun c => if c = 'G' then 'C' else if c = 'C' then 'G' else if c = 'A' then 'T' else if c = 'T' then 'A' else c
    WF s ∧ UnitView s.v ∧
    (match featureOnView s.v true [(1, 4), (6, 9)] with
      | .ok f => getSlice comp s f == "TGAC".toList
      | .error _ => false) = true ∧
    (match featureOnView s.v false [(1, 4), (6, 9)] with
      | .ok f => getSlice comp s f == "GTCA".toList
      | .error _ => false) = true := by
  decide

/-- `feature_on_view` without the nucleic-acid hypothesis, for what a protein (or any other
non-nucleic) sequence can have: a forward view and a plus-strand feature.  No complement is
involved. -/
theorem feature_on_forward_view_any_moltype (comp : Char → Char) (hcomp : ∀ x, comp (comp x) = x) (s : Seq)
    (hw : WF s) (hu : UnitView s.v) (hf : 0 < s.v.step) (hl : 0 < len s.v) (spans : List (Int × Int))
    (hsp : ∀ sp ∈ spans, 0 ≤ sp.1 ∧ sp.1 < sp.2) (hsorted : spans.Pairwise (fun a b => a.1 ≤ b.1)) :
    ∃ f, featureOnView s.v false spans = .ok f ∧
      getSlice comp s f =
        (denote spans false (segStart s.v) (segStart s.v + len s.v)).1.map
          (fun p => s.parent[(p - s.v.offset).toNat]!) := by
  obtain ⟨f, h1, h2⟩ := getSlice_spec comp hcomp { s with nucleic := true } hw rfl hu hl false spans hsp hsorted
  refine ⟨f, h1, ?_⟩
  have hns : ¬ s.v.step < 0 := by omega
  have e : getSlice comp s f = getSlice comp { s with nucleic := true } f := by
    unfold getSlice SeqWrap.str SeqWrap.value
    simp [hns]
  rw [e, h2]
  simp

example :
    let s : Seq := { parent := "MKVLAAGIW".toList, v := { start := 2, stop := 7, step := 1, offset := 0, seqLen := 9 }, nucleic := false }
    WF s ∧ UnitView s.v ∧
    (match featureOnView s.v false [(0, 3), (5, 9)] with
      | .ok f => getSlice id s f == "VAG".toList
      | .error _ => false) = true := by
  decide

/-- **unit_history_inv.**  Every history of slices with step `None`/`1`/`-1`, integer indexing and
(on nucleic acids) `rc()` leads from a well-formed unit-stride `Sequence` to a well-formed
unit-stride `Sequence`: the hypotheses `WF`/`UnitView` of the per-view theorems above hold after
ANY such history (C01's `reachable_inv` gives `Inv`; that the stride stays 1 was not stated anywhere). -/
theorem unit_history_inv (ops : List SeqWrap.SOp) (s s' : Seq) (hw : WF s) (hu : UnitView s.v)
    (hops : ∀ op ∈ ops, op.unit s.nucleic) (h : SeqWrap.runOps s ops = .ok s') :
    WF s' ∧ UnitView s'.v ∧ s'.nucleic = s.nucleic :=
  SeqWrap.runOps_unit ops s s' hw hu hops h

/-- **feature_after_history.**  The property for whole histories, on C01's `Sequence` wrapper: start
from any well-formed unit-stride nucleic `Sequence` `s` (e.g. `ofString t true`, at any annotation
offset), apply ANY history `ops` of unit-step slices / integer indexing / `rc()`; if the resulting
view `s'` is not empty then for every feature (any number of spans, either strand)
* the displayed string of `s'` is what the same history does to the plain string `str s`
  (C01 `seq_chain_spec`),
* `get_features` on `s'` builds the feature without an exception, and
* `feature.get_slice()` is exactly the residues of the ORIGINAL parent string (read at the ORIGINAL
  offset) at `denote f ∩ segment retained by s'`, in reading order, complemented iff the feature
  is on the minus strand. -/
theorem feature_after_history (comp : Char → Char) (hcomp : ∀ x, comp (comp x) = x) (s s' : Seq) (hw : WF s)
    (hn : s.nucleic = true) (hu : UnitView s.v) (ops : List SeqWrap.SOp) (hops : ∀ op ∈ ops, op.unit s.nucleic)
    (hrun : SeqWrap.runOps s ops = .ok s') (hl : 0 < len s'.v) (minus : Bool) (spans : List (Int × Int))
    (hsp : ∀ sp ∈ spans, 0 ≤ sp.1 ∧ sp.1 < sp.2) (hsorted : spans.Pairwise (fun a b => a.1 ≤ b.1)) :
    SeqWrap.specRun comp s.nucleic (SeqWrap.str comp s) ops = some (SeqWrap.str comp s') ∧
    ∃ f, featureOnView s'.v minus spans = .ok f ∧
      getSlice comp s' f =
        (denote spans minus (segStart s'.v) (segStart s'.v + len s'.v)).1.map
          (fun p => (if minus then comp else id) (s.parent[(p - s.v.offset).toNat]!)) := by
  obtain ⟨hw', hu', hn'⟩ := SeqWrap.runOps_unit ops s s' hw hu hops hrun
  obtain ⟨hp, ho⟩ := SeqWrap.runOps_parent ops s s' hw' hrun hl
  have hspec := ((SeqWrap.runOps_spec comp hcomp ops s hw (fun op h => SeqWrap.SOp.unit_ok (hops op h))).1 s' hrun).1
  obtain ⟨f, h1, h2⟩ := getSlice_spec comp hcomp s' hw' (by rw [hn', hn]) hu' hl minus spans hsp hsorted
  exact ⟨hspec, f, h1, by rw [h2, hp, ho]⟩

-- `s = ACGTTGCAAT` at annotation offset 5, history `[2:9]`, `rc()`, `[1:]`, `[:-1]`, `rc()`, `[0:4]`:
-- the view retains absolute [8, 12) = `TTGC` of the 10 letters; minus-strand feature (6,9),(11,14) keeps
-- position 8 and position 11: plus-strand `T`,`C`, read on the minus strand `GA`
example :
    let comp : Char → Char := fun c => if c = 'G' then 'C' else if c = 'C' then 'G' else if c = 'A' then 'T' else if c = 'T' then 'A' else c
    let s : Seq := { parent := "ACGTTGCAAT".toList, v := { start := 0, stop := 10, step := 1, offset := 5, seqLen := 10 }, nucleic := true }
    let ops : List SeqWrap.SOp := [.slice (some 2) (some 9) none, .rc, .slice (some 1) none none,
      .slice none (some (-1)) (some 1), .rc, .slice (some 0) (some 4) none]
    WF s ∧ UnitView s.v ∧ (∀ op ∈ ops, op.unit s.nucleic) ∧
    (match SeqWrap.runOps s ops with
      | .ok s' => decide (0 < len s'.v) && (SeqWrap.str comp s' == "TTGC".toList) &&
          (match featureOnView s'.v true [(6, 9), (11, 14)] with
            | .ok f => getSlice comp s' f == "GA".toList
            | .error _ => false)
      | .error _ => false) = true := by
  decide

/-- `get_features()` with no window (and equally `start=0`, `stop=len(self)`) queries the db with
exactly the retained parent segment. -/
theorem query_window_default (v : View) (h : UnitView v) (hl : 0 < len v) (hoff : 0 ≤ v.offset) :
    queryWindow v none none = .ok (segStart v, segStart v + len v) := by
  have e1 : orDefault (some 0) 0 = orDefault none 0 := by simp [orDefault]
  have e2 : orDefault (some (len v)) (len v) = orDefault none (len v) := by simp [orDefault]
  have e : queryWindow v none none = queryWindow v (some 0) (some (len v)) := by
    simp only [queryWindow, e1, e2]
  rw [e, queryWindow_exact v h 0 (len v) (by omega) hl (by omega) hoff]
  split <;> simp

example : queryWindow { start := -3, stop := -9, step := -1, offset := 5, seqLen := 10 } none none = .ok (7, 13) := by
  decide

/-- a window written with negative indices denotes the same absolute window as its non-negative spelling -/
theorem query_window_negative (v : View) (a b : Int) (ha : 0 ≤ a) (hab : a < b) (hb : b < len v) :
    queryWindow v (some (a - len v)) (some (b - len v)) = queryWindow v (some a) (some b) := by
  have h1 : a - len v ≠ 0 := by omega
  have h2 : b - len v ≠ 0 := by omega
  have h3 : b ≠ 0 := by omega
  have h4 : a - len v < 0 := by omega
  have h5 : b - len v < 0 := by omega
  have h6 : ¬ b < 0 := by omega
  have h7 : ¬ a < 0 := by omega
  have h8 : a - len v + len v = a := by omega
  have h9 : b - len v + len v = b := by omega
  have hA : (if a = 0 then (0 : Int) else a) = a := by split <;> omega
  simp only [queryWindow, orDefault, hA, if_neg h1, if_neg h2, if_neg h3, if_pos h4, if_pos h5, if_neg h6,
    if_neg h7, h8, h9]

example : queryWindow { start := -3, stop := -9, step := -1, offset := 5, seqLen := 10 } (some (-5)) (some (-2)) =
    queryWindow { start := -3, stop := -9, step := -1, offset := 5, seqLen := 10 } (some 1) (some 4) := by decide

/-- `get_features(start=b, stop=a)` with the bounds the wrong way round is the window `[a, b)` -/
theorem query_window_swapped (v : View) (a b : Int) (ha : 0 < a) (hab : a < b) :
    queryWindow v (some b) (some a) = queryWindow v (some a) (some b) := by
  have h1 : a ≠ 0 := by omega
  have h2 : b ≠ 0 := by omega
  have h3 : ¬ a < 0 := by omega
  have h4 : ¬ b < 0 := by omega
  have h5 : ¬ b < a := by omega
  simp only [queryWindow, orDefault, if_neg h1, if_neg h2, if_neg h3, if_neg h4, if_neg h5, if_pos hab]

example : queryWindow { start := -3, stop := -9, step := -1, offset := 5, seqLen := 10 } (some 4) (some 1) = .ok (9, 12) := by
  decide

/-! ## Strided views (`|step| > 1`)

What `get_features` does there: every db coordinate `c` becomes `ceil((c - p0)/k)` (`relative_position`
rounds up), so a span `[s, e)` becomes the range of view indices `i` with `s ≤ p0 + i·k < e` — exactly
the SHOWN positions that lie in the span.  So on a strided view a feature denotes the shown residues
inside its spans, read on the feature's strand; never an exception. -/

/-- Forward views of ANY stride `k ≥ 1` (no further invariant needed). -/
theorem feature_on_strided_forward_view (v : View) (hk : 0 < v.step) (hl : 0 < len v) (minus : Bool)
    (spans : List (Int × Int)) (hsp : ∀ sp ∈ spans, 0 ≤ sp.1 ∧ sp.1 < sp.2)
    (hsorted : spans.Pairwise (fun a b => a.1 ≤ b.1)) :
    ∃ f, featureOnView v minus spans = .ok f ∧
      slicePositionsAny v f = denoteShown (shownFwd (v.offset + v.start) v.step (len v)) spans minus :=
  featureOnStridedFwd_spec v hk hl minus spans hsp hsorted

-- parent[2:11:3] at offset 5 shows absolute 7, 10, 13; feature (6,8),(9,14) on the minus strand
example :
    (match featureOnView { start := 2, stop := 11, step := 3, offset := 5, seqLen := 12 } true [(6, 8), (9, 14)] with
      | .ok f => slicePositionsAny { start := 2, stop := 11, step := 3, offset := 5, seqLen := 12 } f == ([13, 10, 7], true)
      | .error _ => false) = true ∧
    denoteShown (shownFwd 7 3 3) [(6, 8), (9, 14)] true = ([13, 10, 7], true) := by
  decide

/-- Reversed views of any stride (`step = -k`, e.g. `rc` of a strided view): `shownRev v` are the shown
positions in plus-strand order. -/
theorem feature_on_strided_reversed_view (v : View) (hk : v.step < 0) (hl : 0 < len v) (minus : Bool)
    (spans : List (Int × Int)) (hsp : ∀ sp ∈ spans, 0 ≤ sp.1 ∧ sp.1 < sp.2)
    (hsorted : spans.Pairwise (fun a b => a.1 ≤ b.1)) :
    ∃ f, featureOnView v minus spans = .ok f ∧
      slicePositionsAny v f = denoteShown (shownRev v) spans minus :=
  featureOnStridedRev_spec v hk hl minus spans hsp hsorted

-- the same three positions shown by the reversed view (start -2, stop -11, step -3 on a 12-mer at offset 5)
example :
    shownRev { start := -2, stop := -11, step := -3, offset := 5, seqLen := 12 } = [9, 12, 15] ∧
    (match featureOnView { start := -2, stop := -11, step := -3, offset := 5, seqLen := 12 } false [(6, 10), (11, 14)] with
      | .ok f => slicePositionsAny { start := -2, stop := -11, step := -3, offset := 5, seqLen := 12 } f == ([9, 12], false)
      | .error _ => false) = true := by
  decide

/-! ## copy / deepcopy, degapping, and the new-style `_mapped` path -/

/-- `Sequence.copy()` (sliced: the view is re-created over the truncated parent with
`annotation_offset = parent_start`) keeps unit stride, orientation, the retained segment — and hence the
positions EVERY feature denotes.  `copy(sliced=False)` and `copy.deepcopy` keep the slice record itself, so
for them this is `feature_positions_on_view` on the same record. -/
theorem copy_preserves_features (v : View) (h : UnitView v) (hl : 0 < len v) (minus : Bool)
    (spans : List (Int × Int)) (hsp : ∀ sp ∈ spans, 0 ≤ sp.1 ∧ sp.1 < sp.2)
    (hsorted : spans.Pairwise (fun a b => a.1 ≤ b.1)) :
    ∃ w f f', copyView v = .ok w ∧ UnitView w ∧ segStart w = segStart v ∧ len w = len v ∧ w.step = v.step ∧
      featureOnView v minus spans = .ok f ∧ featureOnView w minus spans = .ok f' ∧
      slicePositions w f' = slicePositions v f := by
  obtain ⟨w, hw, hu, hseg, hlw, hst⟩ := copyView_spec v h hl
  obtain ⟨w', f, f', hw', hf, hf', hp⟩ := copy_positions v h hl minus spans hsp hsorted
  rw [hw] at hw'
  cases hw'
  exact ⟨w, f, f', hw, hu, hseg, hlw, hst, hf, hf', hp⟩

example : copyView { start := -3, stop := -8, step := -1, offset := 5, seqLen := 8 }
    = .ok { start := -1, stop := -6, step := -1, offset := 6, seqLen := 5 } := by decide

/-- **Degapping the own-row slice of an alignment feature.**  Reading the aligned row `A` at the columns of
the projected feature (`readRow`: the sequence position shown in a column, nothing for a gap) gives back
exactly the positions of the sequence feature, in order, lost parts staying lost: the degapped own-row slice
of `aln.get_features(seqid=…)` is the sequence feature's residues.  (`Sequence.degap()` on a plain sequence
is a different operation and is NOT correct: open finding C04-degap-detaches-the-sequence-from-its-annotations.) -/
theorem degapped_own_row_denotes (A fm : FMap.FM) (hA : FMap.SortedFwd A) (hpl : 0 < A.parentLength)
    (hfm : ∀ x ∈ fm.spans, x.idxIn A.parentLength)
    (hcov : ∀ (j : Nat) (p : Int), (FMap.cover fm)[j]? = some (some p) → ∃ k : Nat, (FMap.cover A)[k]? = some (some p)) :
    ∃ r, FMap.project A fm = .ok r ∧ (FMap.cover r).map (FMap.readRow A) = FMap.cover fm :=
  FMap.project_readback A fm hA hpl hfm hcov

example :
    let A : FMap.FM := ⟨[.span 0 2 false, .lost 2, .span 2 4 false, .lost 1, .span 4 5 false], 5⟩
    let fm : FMap.FM := ⟨[.span 4 5 true, .span 1 3 true], 5⟩
    ((FMap.project A fm).toOption.map fun r => (FMap.cover r).map (FMap.readRow A)) = some (FMap.cover fm) := by
  decide

/-- **New-style `_mapped`.**  `get_slice()` on a new-style sequence raises `ValueError('cannot set offset …')`
exactly when the retained part of the feature is ONE span that does not start at view index 0 and the view
carries an offset (open finding C04-new-sequence-feature-slice-offset-guard); in every other case it
returns the residues of `getSlice`, i.e. those of `feature_on_view`. -/
theorem new_mapped_guard_exact (comp : Char → Char) (s : Seq) (f : Feat) :
    (getSliceNew comp s f = .error .valueError ↔
      ∃ a b, realOf f.spans = [(a, b)] ∧ a ≠ 0 ∧ s.v.offset ≠ 0) ∧
    ((¬ ∃ a b, realOf f.spans = [(a, b)] ∧ a ≠ 0 ∧ s.v.offset ≠ 0) →
      getSliceNew comp s f = .ok (getSlice comp s f)) :=
  getSliceNew_spec comp s f

/-- … in particular a new-style sequence WITHOUT offset behaves as `feature_on_view` says. -/
theorem feature_on_new_style_view_without_offset (comp : Char → Char) (hcomp : ∀ x, comp (comp x) = x) (s : Seq)
    (hw : WF s) (hn : s.nucleic = true) (hu : UnitView s.v) (hl : 0 < len s.v) (hoff : s.v.offset = 0)
    (minus : Bool) (spans : List (Int × Int)) (hsp : ∀ sp ∈ spans, 0 ≤ sp.1 ∧ sp.1 < sp.2)
    (hsorted : spans.Pairwise (fun a b => a.1 ≤ b.1)) :
    ∃ f, featureOnView s.v minus spans = .ok f ∧
      getSliceNew comp s f = .ok ((denote spans minus (segStart s.v) (segStart s.v + len s.v)).1.map
          (fun p => (if minus then comp else id) (s.parent[(p - s.v.offset).toNat]!))) := by
  obtain ⟨f, hf, hs⟩ := getSlice_spec comp hcomp s hw hn hu hl minus spans hsp hsorted
  refine ⟨f, hf, ?_⟩
  rw [(getSliceNew_spec comp s f).2 (by rintro ⟨a, b, _, _, h3⟩; exact h3 hoff), hs]

example :
    let s : Seq := { parent := "ACGTACGTAC".toList, v := { start := 0, stop := 10, step := 1, offset := 3, seqLen := 10 }, nucleic := true }
    (match featureOnView s.v false [(5, 8)] with
      | .ok f => getSliceNew id s f == .error .valueError
      | .error _ => false) = true := by
  decide

/-! ## Features ADDED on a view, and the lost-span bookkeeping (code as of 0c76d24f6 / dea246735) -/

/-- **added_feature_denotes_view_spans.**  `v.add_feature(spans, strand)` on any unit-stride view (forward or
reverse complemented, sliced, with offset) writes a db record which, asked for again on the same view,
gives a feature whose real spans are exactly the spans given — `get_slice()` reads `str(v)[a:b]` over them —
and which is reversed iff the strand given (as seen on the view) is `-`. -/
theorem added_feature_denotes_view_spans (v : View) (h : UnitView v) (hl : 0 < len v) (hoff : 0 ≤ v.offset)
    (minus : Bool) (spans : List (Int × Int)) (hs : ViewSpans (len v) spans) :
    ∃ db dm f, addFeatureRecord v spans minus = .ok (db, dm) ∧ featureOnView v dm db = .ok f ∧
      sliceIdx f = spans.flatMap (fun sp => seg sp.1 sp.2) ∧ f.reversed = minus := by
  obtain ⟨db, dm, f, h1, h2, h3, h4⟩ := added_feature_spec v h hl hoff minus spans hs
  exact ⟨db, dm, f, h1, h2, by rw [sliceIdx_eq, h3], h4⟩

-- `s[3:11].rc()` of a 15-mer: spans (1,3) as seen on the view are stored as plus-strand (8,10), strand flipped
example : addFeatureRecord { start := -5, stop := -13, step := -1, offset := 0, seqLen := 15 } [(1, 3)] false
    = .ok ([(8, 10)], true) := by decide

/-- The lost spans of a single-span feature add up: left overhang, retained part, right overhang — once each —
so `len(feature)` is the feature's length however it overhangs a forward view. -/
theorem single_span_lost_spans_add_up (L s e : Int) (minus : Bool) (hL : 0 < L) (hse : s < e)
    (hi : max s 0 < min e L) :
    makeFeature L false minus [(s, e)] =
      .ok { spans := (if s < 0 then [MSpan.lost (-s)] else []) ++ [MSpan.span (max s 0) (min e L)] ++
                     (if e > L then [MSpan.lost (e - L)] else []),
            reversed := minus } :=
  single_span_map L s e minus hL hse hi

-- the former finding: feature (2,12) on the view [4:9] is now [-2-, 0:5, -3-]
example : makeFeature 5 false false [(-2, 8)] = .ok { spans := [.lost 2, .span 0 5, .lost 3], reversed := false } := by
  decide

/-- `feature.get_slice(allow_gaps=True)` (the contiguous form, `parent[fmap.start : fmap.end]`): for a feature with ONE
retained span it is the same residues as `get_slice()`, on either strand, on any view. -/
theorem contiguous_slice_single_span (comp : Char → Char) (s : SeqWrap.Seq) (f : Feat) (a b : Int)
    (h : realOf f.spans = [(a, b)]) : getSliceContig comp s f = getSlice comp s f := by
  unfold getSliceContig getSlice
  rw [contigIdx_single f a b h]

/-- The contiguous form reads the view from the start of the FIRST retained span to the end of the LAST one (spans as
`make_feature` leaves them: non-empty, ordered, disjoint). -/
theorem contiguous_slice_hull (f : Feat) (p : Int × Int) (r : List (Int × Int)) (h : realOf f.spans = p :: r)
    (hs : (p :: r).Pairwise (fun a b => a.2 ≤ b.1)) (hp : ∀ q ∈ p :: r, q.1 < q.2) :
    contigIdx f = irange p.1 ((p :: r).getLast (List.cons_ne_nil _ _)).2 := by
  unfold contigIdx
  rw [h]
  simp only []
  rw [mapStart_sorted p r hs hp, mapEnd_sorted p r hs hp]

/-- The contiguous form is read on the feature's strand: for a feature reversed relative to its view it is the reverse
complement of what the same map gives un-reversed (`_do_seq_slice` applies to both forms of `get_slice`). -/
theorem contiguous_slice_on_feature_strand (comp : Char → Char) (s : SeqWrap.Seq) (m : List MSpan) :
    getSliceContig comp s { spans := m, reversed := true } =
      ((getSliceContig comp s { spans := m, reversed := false }).reverse).map comp := by
  simp [getSliceContig, contigIdx]

example :
    let s : SeqWrap.Seq := { parent := "ACGTACGTACGTACGT".toList, v := { start := 4, stop := 9, step := 1, offset := 0, seqLen := 16 }, nucleic := true }
    let comp : Char → Char := fun c => if c = 'A' then 'T' else if c = 'T' then 'A' else if c = 'C' then 'G' else if c = 'G' then 'C' else c
    (match featureOnView s.v true [(1, 6), (7, 12)] with
      | .ok f => getSlice comp s f == "TAGT".toList && getSliceContig comp s f == "TACGT".toList
      | .error _ => false) = true := by
  decide

/-! ## The contiguous form composed with `get_features` (wave 2) -/

/-- **contiguous_positions_on_view.**  For every unit-stride view satisfying C01's invariant and every feature as the db
stores it (spans non-empty, ordered and pairwise DISJOINT, either strand): `get_features` builds the feature without
exception and the contiguous form `get_slice(allow_gaps=True)` reads exactly `denoteContig` — every parent position from
the FIRST to the LAST retained position of the feature (introns and clipped-away spans in between included), in reading
order on the feature's strand; nothing when no position of the feature is retained. -/
theorem contiguous_positions_on_view (v : View) (h : UnitView v) (hl : 0 < len v) (minus : Bool)
    (spans : List (Int × Int)) (hsp : ∀ sp ∈ spans, 0 ≤ sp.1 ∧ sp.1 < sp.2)
    (hdis : spans.Pairwise (fun a b => a.2 ≤ b.1)) :
    ∃ f, featureOnView v minus spans = .ok f ∧
      contigPositions v f = denoteContig spans minus (segStart v) (segStart v + len v) :=
  featureOnView_contig_spec v h hl minus spans hsp hdis

-- reversed view of parent positions [5, 10) at offset 5; feature (5,7),(8,9),(11,14): retained 5,6,8 -> hull 5..8
example : (match featureOnView { start := -4, stop := -9, step := -1, offset := 5, seqLen := 8 } true [(5, 7), (8, 9), (11, 14)] with
      | .ok f => contigPositions { start := -4, stop := -9, step := -1, offset := 5, seqLen := 8 } f
                   == denoteContig [(5, 7), (8, 9), (11, 14)] true 5 10
                 && (denoteContig [(5, 7), (8, 9), (11, 14)] true 5 10).1 == [8, 7, 6, 5]
      | .error _ => false) = true := by
  decide

/-- **contiguous_feature_on_view.**  The same at the level of residues, on C01's well-formed Sequence wrapper:
`feature.get_slice(allow_gaps=True)` returns exactly the parent residues at `denoteContig`, complemented iff the feature
is on the minus strand (the residue-level companion of `feature_on_view` for the contiguous form). -/
theorem contiguous_feature_on_view (comp : Char → Char) (hcomp : ∀ x, comp (comp x) = x) (s : Seq) (hw : WF s)
    (hn : s.nucleic = true) (hu : UnitView s.v) (hl : 0 < len s.v) (minus : Bool) (spans : List (Int × Int))
    (hsp : ∀ sp ∈ spans, 0 ≤ sp.1 ∧ sp.1 < sp.2) (hdis : spans.Pairwise (fun a b => a.2 ≤ b.1)) :
    ∃ f, featureOnView s.v minus spans = .ok f ∧
      getSliceContig comp s f =
        (denoteContig spans minus (segStart s.v) (segStart s.v + len s.v)).1.map
          (fun p => (if minus then comp else id) (s.parent[(p - s.v.offset).toNat]!)) :=
  getSliceContig_spec comp hcomp s hw hn hu hl minus spans hsp hdis

-- ACGTACGTACGTACGT[4:9], minus-strand feature (1,6),(7,12): retained 4,5 and 7,8 -> contiguous 4..8 = "ACGTA" read as rc = "TACGT"
example :
    let s : SeqWrap.Seq := { parent := "ACGTACGTACGTACGT".toList, v := { start := 4, stop := 9, step := 1, offset := 0, seqLen := 16 }, nucleic := true }
    let comp : Char → Char := fun c => if c = 'A' then 'T' else if c = 'T' then 'A' else if c = 'C' then 'G' else if c = 'G' then 'C' else c
    WF s ∧ UnitView s.v ∧
    ((denoteContig [(1, 6), (7, 12)] true 4 9).1.map (fun p => comp (s.parent[(p - s.v.offset).toNat]!))) = "TACGT".toList := by
  decide

/-- The Feature `add_feature` RETURNS is the feature a later `get_features` on the same view builds from the record it
wrote (the whole of `add_feature`, model `addFeature`; translated whole in Props/C04Gen.lean). -/
theorem added_feature_returned_is_requeried (v : View) (h : UnitView v) (hl : 0 < len v) (hoff : 0 ≤ v.offset)
    (minus : Bool) (spans : List (Int × Int)) (hs : ViewSpans (len v) spans) :
    ∃ db dm f, addFeature v spans minus = .ok ((db, dm), f) ∧ featureOnView v dm db = .ok f ∧
      sliceIdx f = spans.flatMap (fun sp => seg sp.1 sp.2) ∧ f.reversed = minus := by
  obtain ⟨db, dm, f, h1, h2, h3, h4⟩ := addFeature_spec v h hl hoff minus spans hs
  exact ⟨db, dm, f, h1, h2, by rw [sliceIdx_eq, h3], h4⟩

example : addFeature { start := -5, stop := -13, step := -1, offset := 0, seqLen := 15 } [(1, 3), (5, 8)] false
    = .ok (([(3, 6), (8, 10)], true), { spans := [.span 1 3, .span 5 8], reversed := false }) := by decide

end CogentModel.C04
