import CogentModel.Gen.C06Str
import CogentModel.Gen.C06Dispatch
import CogentModel.Model.Suffixes
/-! # C06 — `get_format_suffixes` (util/io.py) as TRANSLATED equals the hand model `Suffixes.formatSuffixes`

The decision logic that turns a file name's suffixes into (format suffix, compression suffix) is re-translated from the
current source on every run (translator/c06_str2lean.py -> Gen/C06Str.lean `get_format_suffixes`); the theorem states it is
the hand model the dispatch theorems (`suffix_dispatch_consistent`, …) are about, for every value of `filename.suffix` and
every list `filename.suffixes`, with the compression suffixes of the generated table. -/
namespace CogentModel.C06
open CogentModel.Suffixes

theorem normSuffix_eq (s : Str) : PyStr.lower (PyStr.woutPeriod s) = normSuffix s := by
  have hw : PyStr.woutPeriod s = (match s with | '.' :: r => r | r => r) := by
    unfold PyStr.woutPeriod
    split
    · rfl
    · rename_i hno
      split
      · exact absurd rfl (hno _)
      · rfl
  unfold normSuffix
  rw [hw]
  rfl

/-- the tuple literal `compression_suffixes` inside the function is the table the dispatch translator extracts -/
theorem gen_compression_suffixes_eq :
    ([['b', 'z', '2'], ['g', 'z'], ['z', 'i', 'p']] : List Str) = Gen.C06Dispatch.compressionSuffixes := rfl

/-- **`get_format_suffixes` as translated = the hand model**, for every `filename.suffix` and `filename.suffixes`:
the model's `IndexError` (a non-empty `suffix` with an empty `suffixes` list — impossible for a `pathlib` path) is the only
case outside the translation (convention T2) -/
theorem gen_get_format_suffixes_eq (sfx : Str) (sfxs : List Str) :
    formatSuffixes Gen.C06Dispatch.compressionSuffixes (PyStr.truthy sfx) sfxs =
      if PyStr.truthy sfx = true ∧ sfxs = [] then .error .indexError
      else .ok (Gen.C06Str.get_format_suffixes sfx sfxs) := by
  unfold formatSuffixes Gen.C06Str.get_format_suffixes
  by_cases h : PyStr.truthy sfx = true
  · simp only [h, Bool.not_true, Bool.false_eq_true, if_false, true_and]
    have hl : Suffixes.lastTwo sfxs = PyStr.lastTwo sfxs := rfl
    have hm : (PyStr.lastTwo sfxs).map (fun s => PyStr.lower (PyStr.woutPeriod s)) = (PyStr.lastTwo sfxs).map normSuffix :=
      List.map_congr_left (fun s _ => normSuffix_eq s)
    rw [hl, hm, ← gen_compression_suffixes_eq]
    cases hs : sfxs with
    | nil => simp [PyStr.lastTwo]
    | cons a as =>
      have hne : (PyStr.lastTwo (a :: as)).map normSuffix ≠ [] := by
        simp only [PyStr.lastTwo, ne_eq, List.map_eq_nil_iff, List.drop_eq_nil_iff, List.length_cons]
        omega
      generalize (PyStr.lastTwo (a :: as)).map normSuffix = sx at hne
      obtain ⟨last, hlast⟩ : ∃ l, sx.getLast? = some l := by
        cases h' : sx.getLast? with
        | none => exact absurd (List.getLast?_eq_none_iff.mp h') hne
        | some l => exact ⟨l, rfl⟩
      have hld : PyStr.lastD sx = last := by simp [PyStr.lastD, hlast]
      rw [hld]
      simp only [hlast]
      generalize ([['b', 'z', '2'], ['g', 'z'], ['z', 'i', 'p']] : List Str).contains last = cb
      have hhd : sx.head? = some (PyStr.headD sx) := by
        cases sx with
        | nil => exact absurd rfl hne
        | cons x xs => rfl
      rw [hhd]
      cases cb <;> by_cases h2 : sx.length = 2 <;> simp [h2]
  · simp [h]

-- non-vacuity: the translated function on the usual shapes
example : Gen.C06Str.get_format_suffixes ".gz".toList [".fasta".toList, ".GZ".toList] = (some "fasta".toList, some "gz".toList) := by decide
example : Gen.C06Str.get_format_suffixes ".fa".toList [".a".toList, ".b".toList, ".fa".toList] = (some "fa".toList, none) := by decide
example : Gen.C06Str.get_format_suffixes ".gz".toList [".gz".toList] = (none, some "gz".toList) := by decide
example : Gen.C06Str.get_format_suffixes [] [] = (none, none) := by decide

end CogentModel.C06
