import CogentModel.Model.AlnPred
import CogentModel.Proofs.AlnPred2
import CogentModel.Props.C03
/-! # C03 — filtering with the predicate INSIDE the model, and sliding windows

`Props/C03.lean` proves the history theorem with the per-column verdict of `filtered` / `no_degenerates` /
`omit_gap_pos` given as an input (`AOp.filterMask`).  Here the verdict is computed by the model from the rows the
alignment displays (`Model/AlnPred.lean`: motif grouping, `zip(*seqs)`, `AllowedCharacters`, `GapsOk` with the
binary64 quotient, the `kept` toggle, the `drop_remainder` refusal), and the theorems hold for EVERY predicate. -/
namespace CogentModel.C03F
open CogentModel.IndelMap CogentModel.Aln

/-- The `kept` toggle of `Alignment.filtered` over motif positions (appending `position * motif_length` to `gv` at
every change) produces exactly the run-length blocks of the column mask in which every motif verdict is repeated
`motif_length` times. -/
theorem filter_toggle_eq_blocks (ml : Nat) (hml : 0 < ml) (vs : List Bool) :
    motifRuns ml 0 none vs = maskRuns 0 none (expandMask ml vs) := by
  have := motifRuns_eq ml hml vs 0 none
  simpa using this

example : motifRuns 3 0 none [true, false, true, true] = [(0, 3), (6, 12)] := by decide

/-- **`filtered` refines motif-wise filtering of the strings, for every predicate, motif length and
`drop_remainder`**: on well-formed rows, if `Alignment.filtered(pred, ml, drop)` returns an alignment, then the dense /
string operation (evaluate `pred` on the tuples of `ml`-character motifs of the displayed strings, join the kept
motifs of every string; refuse when the length is not a multiple of `ml` and `drop` is off; `None` when nothing is
kept) returns exactly the rows it displays, and the rows are still well formed. -/
theorem filtered_refines (pred : List (List Char) → Bool) (ml : Nat) (drop dna : Bool) (a : AlnA) (hwf : AllWF a)
    (a' : AlnA) (dna' : Bool) (h : stepA2 dna a (.filtered pred ml drop) = .ok (a', dna')) :
    AllWF a' ∧ stepD2 dna (showA a) (.filtered pred ml drop) = some (.ok (showA a', dna')) :=
  step2_refines dna a (.filtered pred ml drop) trivial hwf a' dna' h

example : (stepA2 true (ofStrings [("s0", "G-ANTC".toList), ("s1", "A-CGTA".toList)])
      (.noDegenerates "ACGT".toList 2)).toOption.map (fun r => showA r.1)
    = some [("s0", "TC".toList), ("s1", "TA".toList)] := by decide

/-- **History theorem with the predicates inside the model**: every finite sequence of the operations of
`aln_refines` AND `filtered(pred, ml, drop)` / `no_degenerates(ml, allow_gap)` / `omit_gap_pos(frac, ml)` with the
predicate evaluated on the current alignment: if the annotatable class completes the history, it displays the rows
the same history gives on the plain gapped strings. -/
theorem aln_refines_pred (ops : List AOp2) (dna : Bool) (a : AlnA) (hops : ∀ op ∈ ops, Op2OK op) (hwf : AllWF a)
    (a' : AlnA) (dna' : Bool) (h : runA2 dna a ops = .ok (a', dna')) :
    AllWF a' ∧ runD2 dna (showA a) ops = some (.ok (showA a', dna')) :=
  run2_refines ops dna a hops hwf a' dna' h

/-- … and from named gapped strings: the two classes agree after every such history. -/
theorem classes_agree_history_pred (ops : List AOp2) (dna : Bool) (d : AlnD) (hops : ∀ op ∈ ops, Op2OK op)
    (a' : AlnA) (dna' : Bool) (h : runA2 dna (ofStrings d) ops = .ok (a', dna')) :
    runD2 dna d ops = some (.ok (showA a', dna')) := by
  have hwf : AllWF (ofStrings d) := by
    intro p hp
    obtain ⟨q, _, rfl⟩ := List.mem_map.mp hp
    exact rowWF_ofString _
  have := (run2_refines ops dna (ofStrings d) hops hwf a' dna' h).2
  rwa [C03.array_annotatable_agree] at this

example : (∀ op ∈ [AOp2.base (.slice (some 1) none), AOp2.base .rc, AOp2.noDegenerates "ACGT-".toList 1,
    AOp2.filtered (fun col => col.length > 1) 3 false], Op2OK op) := by simp [Op2OK, OpOK, AOp2.noDegenerates]
example : (runA2 true (ofStrings [("s0", "TG-ANTC".toList), ("s1", "TA-CGTA".toList)])
      [.base (.slice (some 1) none), .noDegenerates "ACGT".toList 2, .base .rc]).toOption.map (fun r => showA r.1)
    = some [("s0", "GA".toList), ("s1", "TA".toList)] := by decide

/-- `no_degenerates` does what its name says: every character of every row of the result is one of the allowed
(non-degenerate, plus the gap when `allow_gap`) characters. -/
theorem no_degenerates_sound (chars : List Char) (ml : Nat) (dna : Bool) (d d' : AlnD) (dna' : Bool)
    (h : stepD2 dna d (.noDegenerates chars ml) = some (.ok (d', dna'))) :
    ∀ p ∈ d', ∀ c ∈ p.2, c ∈ chars := by
  simp only [AOp2.noDegenerates, stepD2] at h
  split at h
  · cases h
  split at h
  · cases h
  split at h
  · cases h
  simp only [Option.some.injEq, Except.ok.injEq, Prod.mk.injEq] at h
  obtain ⟨rfl, _⟩ := h
  intro p hp c hc
  obtain ⟨q, hq, rfl⟩ := List.mem_map.mp hp
  exact keepMotifs_allowed chars ml _ _ q.2 (List.mem_map.mpr ⟨q, hq, rfl⟩) c hc

example : stepD2 true [("s0", "GNA".toList), ("s1", "A-C".toList)] (.noDegenerates "ACGT".toList 1)
    = some (.ok ([("s0", "GA".toList), ("s1", "AC".toList)], true)) := by decide

/-- Rows stay equally long under motif-wise filtering: every row that holds the `vs.length` motifs keeps
`ml × (number of positive verdicts)` characters. -/
theorem filtered_rows_equal_length (ml : Nat) (vs : List Bool) : ∀ (s : List Char), ml * vs.length ≤ s.length →
    (keepMotifs ml vs s).length = ml * (vs.filter id).length := by
  induction vs with
  | nil => intro s _; simp [keepMotifs]
  | cons v r ih =>
    intro s hs
    simp only [List.length_cons, Nat.mul_succ] at hs
    simp only [keepMotifs, List.length_append]
    rw [ih (s.drop ml) (by rw [List.length_drop]; omega)]
    cases v with
    | true => simp [List.length_take, Nat.mul_succ]; omega
    | false => simp

example : (keepMotifs 2 [true, false, true] "ACGTTG".toList).length = 2 * 2 := by decide

/-- **`sliding_windows` yields in-range slices and each refines the string window**: for a well-formed row of an
alignment of length `n`, `0 ≤ start`, `1 ≤ step`, `0 ≤ window`: every yielded `self[pos : pos + window]` succeeds,
displays `s[pos : pos + window]`, which has exactly `window` characters. -/
theorem windows_refine (r : Row) (h : RowWF r) (window step : Int) (start stop : Option Int) (hstep : 0 < step)
    (hw : 0 ≤ window) (hstart : ∀ x, start = some x → 0 ≤ x) :
    ∀ p ∈ windowBounds (len r.map) window step start stop,
      ∃ r', rowSlice r (some p.1) (some p.2) = .ok r' ∧ RowWF r' ∧
        gapped r' = PySlice.slice (gapped r) (some p.1) (some p.2) 1 ∧ ((gapped r').length : Int) = window := by
  intro p hp
  obtain ⟨h0, h1, h2⟩ := windowBounds_in_range _ window step start stop hstep hstart p hp
  have hlen := C03.len_eq_display r h
  obtain ⟨r', hr, hwf', hg⟩ := C03.slice_total r h (some p.1) (some p.2)
    (by intro x hx; cases hx; omega) (by intro y hy; cases hy; omega)
  refine ⟨r', hr, hwf', hg, ?_⟩
  rw [hg, slice_raw _ _ _ h0 (by omega), List.length_take, List.length_drop]
  omega

example : windowBounds 10 3 2 none none = [(0, 3), (2, 5), (4, 7), (6, 9)] := by decide
example : windowBounds 10 3 4 (some 1) (some 7) = [(1, 4), (5, 8)] := by decide

/-- The gap-fraction verdict of `omit_gap_pos` depends on the column only through its number of gap characters
(and the number of rows): two columns of equally many rows with equally many gap characters get the same verdict. -/
theorem gaps_ok_by_count (gaps : List Char) (frac : Rat) (ml : Nat) (c1 c2 : List (List Char))
    (hl : c1.length = c2.length) (hc : gapCount gaps c1 = gapCount gaps c2) :
    gapsOk gaps frac ml c1 = gapsOk gaps frac ml c2 := by
  unfold gapsOk; rw [hl, hc]

example : gapCount "-?".toList ["A-".toList, "?-".toList] = 3 := by decide

end CogentModel.C03F
