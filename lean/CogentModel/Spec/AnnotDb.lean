/-
  The simple spec for C17: a database is a plain list of records, a query is a
  linear scan with a predicate written directly from the property text
  (half-open intervals: overlap / containment), spans denote sets of positions.
  It shares only the *data types* (`Rec`, `Query`) and the meaning of one SQL
  column atom (`colCond`: `=`, `LIKE`, `IN`) with the model; none of the
  generated interval clauses and none of the WHERE assembly.
-/
import CogentModel.Model.AnnotDb
namespace CogentModel.AnnotDbSpec
open CogentModel.AnnotDb

/-- half-open `[s,e)` and `[a,b)` share a position -/
def overlaps (s e a b : Int) : Prop := s < b ∧ a < e
/-- `[s,e)` lies inside `[a,b)` -/
def within (s e a b : Int) : Prop := a ≤ s ∧ e ≤ b
/-- `[s,e)` contains the point `x` -/
def containsPt (s e x : Int) : Prop := s ≤ x ∧ x < e

instance (s e a b : Int) : Decidable (overlaps s e a b) := by unfold overlaps; infer_instance
instance (s e a b : Int) : Decidable (within s e a b) := by unfold within; infer_instance
instance (s e x : Int) : Decidable (containsPt s e x) := by unfold containsPt; infer_instance

/-- an absent argument constrains nothing; a present one must hold of the column -/
def optMatch (q : Option String) (col : Option String) : Bool :=
  match q with
  | none => true
  | some v => colCond (.one v) col

def windowMatch (q : Query) (r : Rec) : Bool :=
  match q.start, q.stop with
  | some a, some b => if q.allowPartial then decide (overlaps r.start r.stop a b) else decide (within r.start r.stop a b)
  | some a, none => decide (containsPt r.start r.stop a)
  | none, some b => decide (containsPt r.start r.stop b)
  | none, none => true

/-- the predicate of the linear scan -/
def specMatch (q : Query) (r : Rec) : Bool :=
  optMatch q.biotype r.biotype && optMatch q.seqid r.seqid && optMatch q.name r.name &&
  optMatch q.strand r.strand && optMatch (q.attributes.map prepAttr) r.attrs && windowMatch q r

def linearScan (rs : List Rec) (q : Query) : List Rec := rs.filter (specMatch q)

/-- the window of a query is a proper interval (when both bounds are given) -/
def WindowOk (q : Query) : Prop :=
  match q.start, q.stop with
  | some a, some b => a < b
  | _, _ => True

/-- position `p` is covered by one of the (possibly unordered) spans -/
def covers (spans : List (Int × Int)) (p : Int) : Prop :=
  ∃ sp ∈ spans, min sp.1 sp.2 ≤ p ∧ p < max sp.1 sp.2

/-- 1-based closed `[first, last]` covers the 1-based position `p1` -/
def covers1 (first last p1 : Int) : Prop := first ≤ p1 ∧ p1 ≤ last

end CogentModel.AnnotDbSpec
