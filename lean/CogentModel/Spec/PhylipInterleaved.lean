import CogentModel.Model.SeqFormats
/-
  C06 — specification side for INTERLEAVED PHYLIP files (header `n L I`): the first block has a line per sequence
  (ten-character name column, then residues), every later block a line of residues per sequence in the same order;
  blank lines may stand anywhere.  Import free (project models only).
-/
namespace CogentModel.PhylipSpec
open CogentModel.SeqFormats

/-- a residue line showing the residues `c`: not blank, `c` is non-empty and is what is left after `str.strip()` and the deletion of the
blanks between residue groups (`AAGCT TGCAA`, indented or not) -/
def ContLineOf (c l : Str) : Prop := c ≠ [] ∧ isBlank l = false ∧ (strip l).filter (· ≠ ' ') = c

/-- a first-block line: the name column (the name cut to 9 characters, padded to 10) followed by a residue part -/
def FirstLineOf (name c l : Str) : Prop := ∃ rest, l = pad10 (name.take 9) ++ rest ∧ ContLineOf c rest

/-- `ls` is one block: its non-blank lines carry, in order, the pairs `ps`; `P p l` says line `l` carries pair `p` -/
inductive BlockOf (P : Str × Str → Str → Prop) : List (Str × Str) → List Str → Prop
  | nil : BlockOf P [] []
  | blank {ps ls} (l : Str) : isBlank l = true → BlockOf P ps ls → BlockOf P ps (l :: ls)
  | line {ps ls} (p : Str × Str) (l : Str) : P p l → BlockOf P ps ls → BlockOf P (p :: ps) (l :: ls)

/-- the later blocks `bs`, one per piece function in `cs` -/
inductive LaterBlocks (recs : List Rec) : List (Rec → Str) → List (List Str) → Prop
  | nil : LaterBlocks recs [] []
  | cons {cs bs} (c : Rec → Str) (b : List Str) :
      BlockOf (fun p l => ContLineOf p.2 l) (recs.map (fun r => (r.1, c r))) b → LaterBlocks recs cs bs →
      LaterBlocks recs (c :: cs) (b :: bs)

end CogentModel.PhylipSpec
