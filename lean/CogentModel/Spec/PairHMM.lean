/-
  C18 — the simple spec of "an alignment path and its score" for a pair HMM.

  A path is just the list of emitting-state ids it visits.  It *emits* `(Σdx, Σdy)` residues.
  Its score is the sum, in path order, of  transition-into-state + emission-of-state, starting with
  the BEGIN transition and (global alignment) ending with the END transition.  Nothing here knows
  about dynamic programming.
-/
import CogentModel.Model.PairHMM
namespace CogentModel.PairHMM

variable {S : Type}

/-- residues consumed by a path that starts at `(i, j)` -/
def consumedFrom (h : HMM S) : Nat → Nat → List Nat → Nat × Nat
  | i, j, [] => (i, j)
  | i, j, s :: p => consumedFrom h (i + (h.dir s).1.toNat) (j + (h.dir s).2.toNat) p

/-- score of the steps of a path after the first: previous state `prev`, standing at `(i, j)`, score so far `acc` -/
def scoreFrom [Add S] (h : HMM S) : Nat → Nat → Nat → Option S → List Nat → Option S
  | _, _, _, acc, [] => acc
  | prev, i, j, acc, s :: p =>
    scoreFrom h s (i + (h.dir s).1.toNat) (j + (h.dir s).2.toNat)
      (eadd (eadd acc (h.T prev s)) (h.em s (i + (h.dir s).1.toNat) (j + (h.dir s).2.toNat))) p

/-- score of a non-empty path started from BEGIN at `(i0, j0)` (no END transition) and the state it ends in -/
def prefixScore [Add S] (h : HMM S) (i0 j0 : Nat) : List Nat → Option S
  | [] => none
  | s :: p =>
    scoreFrom h s (i0 + (h.dir s).1.toNat) (j0 + (h.dir s).2.toNat)
      (eadd (h.T 0 s) (h.em s (i0 + (h.dir s).1.toNat) (j0 + (h.dir s).2.toNat))) p

def lastState : List Nat → Nat
  | [] => 0
  | [s] => s
  | _ :: p => lastState p

/-- score of a complete global path: BEGIN … END; the empty path is BEGIN→END -/
def globalScore [Add S] (h : HMM S) : List Nat → Option S
  | [] => h.T 0 h.endId
  | s :: p => eadd (prefixScore h 0 0 (s :: p)) (h.T (lastState (s :: p)) h.endId)

/-- every state id of the path is an emitting state that really moves -/
def statesOK (h : HMM S) (p : List Nat) : Prop :=
  ∀ s ∈ p, 1 ≤ s ∧ s ≤ h.k ∧ ((h.dir s).1 || (h.dir s).2) = true

/-- the global paths of two sequences of lengths `n`, `m`: **every** state path emitting exactly them -/
def IsGlobalPath (h : HMM S) (n m : Nat) (p : List Nat) : Prop :=
  statesOK h p ∧ consumedFrom h 0 0 p = (n, m)

def isMatch (h : HMM S) (s : Nat) : Bool := (h.dir s).1 && (h.dir s).2

/-- the local paths: start anywhere `(i0, j0)`, first and last state are match states (the kernel's
restart rule and best-cell rule), end at `(i1, j1)` inside the sequences -/
def IsLocalPath (h : HMM S) (n m : Nat) (i0 j0 : Nat) (p : List Nat) : Prop :=
  statesOK h p ∧ p ≠ [] ∧ isMatch h (p.headD 0) = true ∧ isMatch h (lastState p) = true ∧
    (consumedFrom h i0 j0 p).1 ≤ n ∧ (consumedFrom h i0 j0 p).2 ≤ m

/-- `a ≤ b` on extended scores -/
def ele [LT S] [DecidableLT S] (a b : Option S) : Prop := egt a b = false

/-- explicit enumeration of all global paths (for small cases / reading): recursion on `fuel ≥ n + m` -/
def allPaths (h : HMM S) : Nat → Nat → Nat → List (List Nat)
  | 0, n, m => if n = 0 ∧ m = 0 then [[]] else []
  | f + 1, n, m =>
    (if n = 0 ∧ m = 0 then [[]] else []) ++
    ((List.range h.k).flatMap fun q =>
      let d := h.dir (q + 1)
      if (d.1 || d.2) && decide (d.1.toNat ≤ n) && decide (d.2.toNat ≤ m) then
        (allPaths h f (n - d.1.toNat) (m - d.2.toNat)).map (· ++ [q + 1])
      else [])

end CogentModel.PairHMM
