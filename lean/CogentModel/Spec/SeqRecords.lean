/-
  C06 — the simple specification side: what a well-formed set of named sequences is, and what
  a format is allowed to do to a name.  The round-trip specification itself is the identity
  on record lists (names, order, sequences) up to `truncName`.  Import free.
-/
namespace CogentModel.SeqSpec

/-- printable ASCII (0x20 .. 0x7e) -/
def printable (c : Char) : Bool := 32 ≤ c.toNat && c.toNat ≤ 126

/-- a sequence name: non-empty, printable ASCII (hence no newline), no leading / trailing blank -/
def wfName (n : List Char) : Bool :=
  !n.isEmpty && n.all printable && n.head? != some ' ' && n.getLast? != some ' '

/-- a residue character for a format whose label lines start with one of `lc`: printable,
not blank, not the comment character `#`, not a label character.  Every DNA / RNA / protein
alphabet of cogent3 (IUPAC letters, `-`, `?`, `*`, `.`) satisfies this for `>` and `%`. -/
def seqChar (lc : List Char) (c : Char) : Bool :=
  printable c && c != ' ' && c != '#' && !lc.contains c

/-- a non-empty sequence over residue characters -/
def wfSeq (lc : List Char) (s : List Char) : Bool := !s.isEmpty && s.all (seqChar lc)

/-- the lines of one wrapped sequence (any wrapping): at least one line, no empty line -/
def wfLines (lc : List Char) (ls : List (List Char)) : Bool := !ls.isEmpty && ls.all (wfSeq lc)

/-- no lower-case ASCII letter (the bytes based FASTA parser upper-cases) -/
def noLower (s : List Char) : Bool := s.all (fun c => !(97 ≤ c.toNat && c.toNat ≤ 122))

/-- the documented PHYLIP truncation: the first 9 characters, trailing blanks dropped
(the name column is blank padded, so a blank at position 9 cannot be told from padding) -/
def truncName (n : List Char) : List Char := ((n.take 9).reverse.dropWhile (· = ' ')).reverse

end CogentModel.SeqSpec
