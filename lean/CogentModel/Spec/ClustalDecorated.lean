import CogentModel.Model.Clustal
/-
  C06 — specification side for Clustal / MUSCLE files that are NOT writer shaped ("decorated" files).
  A sequence line is `label <white space> residues [<white space> count] <white space>`; every other line of the
  file (header, blank, consensus line led by white space) is a decoration.  Import free (project models only).
-/
namespace CogentModel.ClustalSpec
open CogentModel.SeqFormats CogentModel.Clustal

/-- white space only (possibly empty): blanks, tabs, `\r`, ... -/
def AllWs (s : Str) : Prop := ∀ c ∈ s, isSpaceStr c = true
instance (s : Str) : Decidable (AllWs s) := by unfold AllWs; infer_instance

/-- `l` is a sequence line carrying label `n` and residues `c`:
* `plain`   — `n <ws1> c <ws2>` with `ws1` non-empty (blanks and/or tabs; trailing blanks, `\r` of a CRLF file);
* `counted` — `n <ws1> c <ws2> count <ws3>` with a running residue count (`-LINENOS=ON`): any token `int()` accepts. -/
inductive SeqLineOf (n c : Str) : Str → Prop
  | plain (ws1 ws2 : Str) : ws1 ≠ [] → AllWs ws1 → AllWs ws2 → SeqLineOf n c (n ++ ws1 ++ c ++ ws2)
  | counted (ws1 ws2 num ws3 : Str) : ws1 ≠ [] → AllWs ws1 → ws2 ≠ [] → AllWs ws2 →
      (∀ x ∈ num, isSpaceStr x = false) → pyIntOk num = true → AllWs ws3 →
      SeqLineOf n c (n ++ ws1 ++ c ++ ws2 ++ num ++ ws3)

/-- `lines` is a decorated file whose sequence lines carry, in order, the (label, residues) pairs `ps`; every other
line is one that `is_clustal_seq_line` rejects (empty, led by white space, starting with `CLUSTAL` / `MUSCLE`) -/
inductive Decorated : List (Str × Str) → List Str → Prop
  | nil : Decorated [] []
  | deco {ps ls} (l : Str) : isSeqLine l = false → Decorated ps ls → Decorated ps (l :: ls)
  | seq {ps ls} (p : Str × Str) (l : Str) : SeqLineOf p.1 p.2 l → Decorated ps ls → Decorated (p :: ps) (l :: ls)

end CogentModel.ClustalSpec
