/-
  C13 — side conditions of the SQLite refinement theorem.  Import-free (the driver evaluates them).

  `connOk` : the lazy connection is not refused (OVERWRITE mode on a locked database raises once —
  lock handling, outside C13).  `safeS` excludes exactly the open SQLite findings (a not-completed
  write in OVERWRITE mode over an existing record: C13-sqlite-not-completed-overwrites-completed,
  C13-sqlite-not-completed-listed-twice) plus two degenerate spellings (`write(unique_id="")`, which
  the SQL turns into "drop ALL not-completed records"; `drop_not_completed("results/x")`, which —
  unlike `write` — does not strip the table prefix).
-/
import CogentModel.Model.DataStoreSqlite
import CogentModel.Spec.DataStoreDict
namespace CogentModel.DataStoreSqlite
open CogentModel.KV CogentModel.DataStore CogentModel.DataStoreDict

variable {D : Type}

/-- the record id of identifier `i` (an optional `results/` table prefix is dropped) -/
abbrev sN (i : Str) : Str := sqlNorm sResults i

def connOk (s : Sql D) : Bool := s.connected || s.mode != .w || !s.locked

def safeS (d : Dict D) : Op D → Bool
  | .write i _ => !(sN i).isEmpty
  | .writeNc i _ =>
    !(sN i).isEmpty && (d.mode != .w || (!has d.completed (sN i) && !has d.notCompleted (sN i)))
  | .drop i => decide (sN i = i)
  | _ => true

/-- every operation of the history finds the connection accepted and is `safeS` in the dictionary
    state it is applied to (`sfx` is not used by the SQLite dictionary) -/
def safeHistS (H : D → D) : Sql D → Dict D → List (Op D) → Bool
  | _, _, [] => true
  | s, d, op :: ops => connOk s && safeS d op && safeHistS H (step H s op).1 (specStep .sqlite [] d op) ops

end CogentModel.DataStoreSqlite
