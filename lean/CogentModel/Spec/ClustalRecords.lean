import CogentModel.Spec.SeqRecords
/-
  C06 — specification side for the Clustal format: which names and sequences the format can carry.
  A Clustal line is `label <blanks> residues [number]`: the label is white-space delimited, a trailing
  integer is a residue count, lines starting with `CLUSTAL` / `MUSCLE` are headers.  Import free.
-/
namespace CogentModel.ClustalSpec
open CogentModel.SeqSpec

/-- a label the format can carry: well formed (printable ASCII, non-empty), no blank inside, not a header word -/
def clustalName (n : List Char) : Bool :=
  wfName n && n.all (· != ' ') && !("CLUSTAL".toList.isPrefixOf n) && !("MUSCLE".toList.isPrefixOf n)

/-- residues: non-empty, printable, no blank, no ASCII digit (a block of digits would read as a residue count) -/
def clustalSeq (s : List Char) : Bool :=
  !s.isEmpty && s.all (fun c => printable c && c != ' ' && !(48 ≤ c.toNat && c.toNat ≤ 57))

end CogentModel.ClustalSpec
