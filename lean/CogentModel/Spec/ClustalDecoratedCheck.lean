import CogentModel.Spec.ClustalDecorated
/-
  C06 — an EXECUTABLE recogniser of the decorated-file shape of Spec/ClustalDecorated.lean (the driver runs it on the
  harness's generated files; Props/C06Decor.lean `checkDecorated_sound` proves that `true` implies the `Decorated` predicate).
  Import free (project models only).
-/
namespace CogentModel.ClustalSpec
open CogentModel.SeqFormats CogentModel.Clustal

/-- `l = p ++ r` -> `some r` -/
def dropPrefix? : Str → Str → Option Str
  | [], l => some l
  | _ :: _, [] => none
  | a :: p, b :: l => if a = b then dropPrefix? p l else none

/-- recognises `SeqLineOf n c l` -/
def isSeqLineOf (n c l : Str) : Bool :=
  match dropPrefix? n l with
  | none => false
  | some r1 =>
    !(r1.takeWhile isSpaceStr).isEmpty &&
    match dropPrefix? c (r1.dropWhile isSpaceStr) with
    | none => false
    | some r3 =>
      r3.all isSpaceStr ||
      (!(r3.takeWhile isSpaceStr).isEmpty &&
        pyIntOk ((r3.dropWhile isSpaceStr).takeWhile (fun x => !isSpaceStr x)) &&
        ((r3.dropWhile isSpaceStr).dropWhile (fun x => !isSpaceStr x)).all isSpaceStr)

/-- recognises `Decorated ps lines`: a line `is_clustal_seq_line` rejects is a decoration, any other line must carry the
next pair -/
def checkDecorated : List (Str × Str) → List Str → Bool
  | [], [] => true
  | _ :: _, [] => false
  | ps, l :: ls =>
    if !isSeqLine l then checkDecorated ps ls
    else match ps with
      | [] => false
      | p :: ps' => isSeqLineOf p.1 p.2 l && checkDecorated ps' ls

end CogentModel.ClustalSpec
