/-!
# C12 — the simple specification

* An NCBI genetic code is a 64-character string listing the amino acid of every codon in the order of
  the product `TCAG × TCAG × TCAG`; translating is a table lookup, codon by codon, on the plain string;
  an incomplete trailing codon is ignored.
* The reverse strand is read from the explicit reverse complement (Watson–Crick pairs on the plain string).
* Frame `k` of a strand starts at position `k` of that strand.
* An IUPAC symbol denotes a set of bases; complementing a symbol complements every base of its set.
-/
namespace CogentModel.GCSpec

def bases : List Char := ['T', 'C', 'A', 'G']

/-- all codons in NCBI order -/
def codons : List (List Char) :=
  bases.flatMap fun a => bases.flatMap fun b => bases.map fun c => [a, b, c]

/-- the table as an association list codon ↦ amino acid -/
def table (code : List Char) : List (List Char × Char) := codons.zip code

def find {α β} [DecidableEq α] : List (α × β) → α → Option β
  | [], _ => none
  | (a, b) :: r, k => if a = k then some b else find r k

/-- amino acid of a codon (`'X'` for anything that is not one of the 64 canonical codons) -/
def aa (code : List Char) (codon : List Char) : Char := (find (table code) codon).getD 'X'

/-- translate successive complete codons -/
def translate (code : List Char) : List Char → List Char
  | a :: b :: c :: rest => aa code [a, b, c] :: translate code rest
  | _ => []

/-- Watson–Crick complement of a DNA base (other characters unchanged) -/
def wc (c : Char) : Char :=
  if c = 'A' then 'T' else if c = 'T' then 'A' else if c = 'C' then 'G' else if c = 'G' then 'C' else c

def rc (s : List Char) : List Char := (s.map wc).reverse

/-- translation of frame `k` (0,1,2) of the given strand -/
def frame (code : List Char) (s : List Char) (minus : Bool) (k : Nat) : List Char :=
  translate code ((if minus then rc s else s).drop k)

def sixframes (code : List Char) (s : List Char) : List (Bool × Nat × List Char) :=
  [false, true].flatMap fun m => [0, 1, 2].map fun k => (m, k, frame code s m k)

/-! ### beyond upper-case TCAG: RNA, lower case, gapped / ambiguous codons (per implementation)

`old` (`genetic_code.GeneticCode.translate`): every codon is first normalised (ASCII upper case, `U → T`); a codon
that is then one of the 64 canonical codons gives its table entry, anything else gives `'X'` (also `---`).
`new` (`new_genetic_code.GeneticCode.translate` on a `str`): no normalisation; a canonical codon gives its table entry;
a codon made only of `T C A G -` with at least one gap gives `'-'`; anything else (ambiguity codes, `?`, `U`, lower
case) gives `'X'`. -/

/-- ASCII `str.upper()` on one character: `a`–`z` (code points 97–122) move 32 code points down -/
def asciiUpper (c : Char) : Char :=
  if 97 ≤ c.toNat ∧ c.toNat ≤ 122 then Char.ofNat (c.toNat - 32) else c

def normOld (c : Char) : Char :=
  let u := asciiUpper c
  if u = 'U' then 'T' else u

def translateOld (code : List Char) (s : List Char) : List Char := translate code (s.map normOld)

def aaNew (code : List Char) (a b c : Char) : Char :=
  if a ∈ bases ∧ b ∈ bases ∧ c ∈ bases then aa code [a, b, c]
  else if (a ∈ bases ∨ a = '-') ∧ (b ∈ bases ∨ b = '-') ∧ (c ∈ bases ∨ c = '-') then '-'
  else 'X'

def translateNew (code : List Char) : List Char → List Char
  | a :: b :: c :: rest => aaNew code a b c :: translateNew code rest
  | _ => []

/-! ### stop handling of `get_translation` on a canonical, gap-free sequence

`trimStop`: a terminal stop (the last codon of a sequence whose length is a multiple of three) is removed;
`includeStop`: remaining stops are kept, otherwise any remaining stop is rejected;
`incompleteOk = false` together with `trimStop`: a length that is not a multiple of three is rejected. -/
inductive Outcome where
  | pep (p : List Char)
  | rejected
  deriving DecidableEq, Repr

def dropLast3 (s : List Char) : List Char := s.take (s.length - 3)

def getTranslation (code : List Char) (s : List Char) (incompleteOk includeStop trimStop : Bool) : Outcome :=
  if trimStop && !incompleteOk && s.length % 3 ≠ 0 then .rejected
  else
    let p := translate code s
    let p1 := if trimStop && s.length % 3 = 0 && p.getLast? = some '*' then p.dropLast else p
    if !includeStop && p1.contains '*' then .rejected else .pep p1

/-! ### IUPAC symbols as base sets -/

def sinsert (c : Char) : List Char → List Char
  | [] => [c]
  | x :: r => if c.toNat < x.toNat then c :: x :: r else if c = x then x :: r else x :: sinsert c r

def toSet (xs : List Char) : List Char := xs.foldr sinsert []

/-- base set of a symbol given the degenerate-symbol table `ambig`, the canonical bases and the gap -/
def baseSet (chars : List Char) (gap missing : Char) (ambig : List (Char × List Char)) (sym : Char) : List Char :=
  if chars.contains sym then [sym]
  else if sym = gap then [gap]
  else if sym = missing then toSet (chars ++ [gap])
  else toSet ((find ambig sym).getD [])

/-- Watson–Crick complement for DNA (`u = 'T'`) or RNA (`u = 'U'`) bases; the gap pairs with itself -/
def wcBase (u : Char) (c : Char) : Char :=
  if c = 'A' then u else if c = u then 'A' else if c = 'C' then 'G' else if c = 'G' then 'C' else c

end CogentModel.GCSpec
