import CogentModel.Model.PhyloTree
/-
  C09 — the abstract specification: a tree is its multiset of *named weighted splits*.

  Every non-root node `v` contributes the split
      (name v, length v, tips below v)
  i.e. the bipartition  {tips below v | all other tips}  of the tip set carried by the
  edge above `v`.  The tip-to-tip distance is

      dist a b = sum of the lengths of the edges whose bipartition separates a and b

  (`d` is the length used for an edge without a length — cogent3's `_get_distances` uses 1).
  A bipartition of the tip set `T` is identified with its separation relation on `T`
  (`bipEquiv`): a side and its complement in `T` separate exactly the same pairs.
-/
namespace CogentModel.Phylo
open PTree
variable {K : Type}

structure Split (K : Type) where
  name : String
  len : Option K
  side : List String

/-- the split carried by the edge above `c` -/
def edgeSplit (c : PTree K) : Split K := ⟨c.name, c.len, tips c⟩

mutual
/-- splits of all proper descendants of a node -/
def splits : PTree K → List (Split K)
  | .node _ _ cs => splitsL cs
def splitsL : List (PTree K) → List (Split K)
  | [] => []
  | c :: cs => (edgeSplit c :: splits c) ++ splitsL cs
end

/-- the bipartition with side `side` separates `a` from `b` -/
def sep (a b : String) (side : List String) : Bool :=
  decide (a ∈ side) != decide (b ∈ side)

def sumBy {α : Type} [Add K] [Zero K] (f : α → K) : List α → K
  | [] => 0
  | x :: xs => f x + sumBy f xs

def splitW [Zero K] (d : K) (a b : String) (s : Split K) : K :=
  if sep a b s.side then lenOr d s.len else 0

/-- specification distance -/
def distSpec [Add K] [Zero K] (d : K) (a b : String) (t : PTree K) : K :=
  sumBy (splitW d a b) (splits t)

/-! ### weighted unrooted topology among a set of tips

A *bipartition predicate* `φ` on `T` is a Boolean property of a side that only depends on the
bipartition of `T` the side induces: it cannot tell a side from another one with the same
members of `T` (`congr`), nor from its complement within `T` (`compl`), and it rejects the
trivial bipartition (`empty`).  Examples: `sep a b` for `a b ∈ T` ("separates a from b") and
`sepAll T A` for a proper `A` ("is the bipartition A | T∖A").  `topoWeight d φ t` adds up the
lengths of the edges of `t` whose bipartition satisfies `φ`.  Two trees have the same weighted
unrooted topology among `T` when all these sums agree: with `sep a b` this is the path
length between `a` and `b`, with `sepAll T A` it is the (merged) weight of the bipartition
`A | T∖A` — zero/absent when the tree has no such edge. -/
structure BipPred (T : List String) (φ : List String → Bool) : Prop where
  congr : ∀ A B : List String, (∀ x ∈ T, (x ∈ A ↔ x ∈ B)) → φ A = φ B
  compl : ∀ A B : List String, (∀ x ∈ T, (x ∈ A ↔ ¬ x ∈ B)) → φ A = φ B
  empty : φ [] = false

def phiW [Zero K] (d : K) (φ : List String → Bool) (s : Split K) : K :=
  if φ s.side then lenOr d s.len else 0

def topoWeight [Add K] [Zero K] (d : K) (φ : List String → Bool) (t : PTree K) : K :=
  sumBy (phiW d φ) (splits t)

/-- two sides describe the same bipartition of `T` -/
def bipEquiv (T : List String) (A B : List String) : Prop :=
  ∀ a ∈ T, ∀ b ∈ T, sep a b A = sep a b B

/-- same edge (name, length) carrying the same bipartition of `T` -/
def splitEquiv (T : List String) (s s' : Split K) : Prop :=
  s.name = s'.name ∧ s.len = s'.len ∧ bipEquiv T s.side s'.side

/-- equality of split multisets: a permutation, up to replacing a split by an equivalent one -/
inductive SplitsEquiv (T : List String) : List (Split K) → List (Split K) → Prop
  | nil : SplitsEquiv T [] []
  | cons {s s' l l'} : splitEquiv T s s' → SplitsEquiv T l l' → SplitsEquiv T (s :: l) (s' :: l')
  | swap (a b l) : SplitsEquiv T (a :: b :: l) (b :: a :: l)
  | trans {l₁ l₂ l₃} : SplitsEquiv T l₁ l₂ → SplitsEquiv T l₂ l₃ → SplitsEquiv T l₁ l₃

/-! ### independent split-set computation of the Robinson–Foulds distance
(no reference tip, no normalisation: bipartitions are compared by their separation relation) -/
def sepAll (T A B : List String) : Bool :=
  T.all fun a => T.all fun b => sep a b A == sep a b B

def anyBip (T : List String) (A : List String) (S : List (List String)) : Bool :=
  S.any (sepAll T A)

/-- one representative per bipartition -/
def dedupBip (T : List String) : List (List String) → List (List String)
  | [] => []
  | x :: xs => if anyBip T x xs then dedupBip T xs else x :: dedupBip T xs

/-- |S₁ Δ S₂| on bipartitions of `T` -/
def symDiffBip (T : List String) (S₁ S₂ : List (List String)) : Nat :=
  ((dedupBip T S₁).filter fun A => !anyBip T A S₂).length +
  ((dedupBip T S₂).filter fun A => !anyBip T A S₁).length

end CogentModel.Phylo
