/-
  The simple spec for the extended C17 model: the linear scan over rows that may lack a location
  and that may be alignment features, written from the property text.

  * `on_alignment=True` asks for the alignment features only, `on_alignment=False` for everything
    that is not an alignment feature, no argument for everything;
  * a row without coordinates lies in, overlaps and contains nothing, so it satisfies no window;
  * GenBank children of `name` inside `[a, b)`: the rows called `name` whose extent is a non-empty
    interval inside `[a, b)`; parents: the rows called `name` whose extent contains `[a, b)`.
-/
import CogentModel.Model.AnnotDbX
import CogentModel.Spec.AnnotDb
namespace CogentModel.AnnotDbSpec
open CogentModel.AnnotDb

def isAlignmentFeature (r : XRec) : Bool := r.onAln == some true

def oaMatch (oa : Option Bool) (r : XRec) : Bool :=
  match oa with
  | none => true
  | some true => isAlignmentFeature r
  | some false => !isAlignmentFeature r

def xWindowMatch (q : Query) (r : XRec) : Bool :=
  if q.start.isSome || q.stop.isSome then r.located && windowMatch q r.row else true

def xColsMatch (q : Query) (r : Rec) : Bool :=
  optMatch q.biotype r.biotype && optMatch q.seqid r.seqid && optMatch q.name r.name &&
  optMatch q.strand r.strand && optMatch (q.attributes.map prepAttr) r.attrs

/-- the predicate of the linear scan -/
def xSpecMatch (q : Query) (oa : Option Bool) (r : XRec) : Bool :=
  oaMatch oa r && xColsMatch q r.row && xWindowMatch q r

def xLinearScan (rs : List XRec) (q : Query) (oa : Option Bool) : List XRec := rs.filter (xSpecMatch q oa)

end CogentModel.AnnotDbSpec
namespace CogentModel.AnnotDb

/-- rows of the gff / gb table have no `on_alignment`; `add_feature` always writes 0 or 1; a
`BasicAnnotationDb` has only the `user` table -/
structure XDb.WF (db : XDb) : Prop where
  basic : db.kind = .basic → db.main = []
  main : ∀ r ∈ db.main, r.onAln = none
  user : ∀ r ∈ db.user, r.onAln.isSome = true

end CogentModel.AnnotDb
