import CogentModel.Spec.PySlice
/-
  The simple spec side of C08 / C03: a gapped sequence is a list of columns,
  each either a gap (`none`) or the index of the residue shown there
  (`some i`).  Everything here is "read the string directly"; it knows nothing
  about gap-position arrays or cumulative lengths.
-/
namespace CogentModel.Gapped

abbrev Gapped := List (Option Nat)

/-- the gapped string with gap pattern `s` (`true` = gap), residues numbered from `k` -/
def ofPatternFrom (k : Nat) : List Bool → Gapped
  | [] => []
  | true :: r => none :: ofPatternFrom k r
  | false :: r => some k :: ofPatternFrom (k + 1) r

def ofPattern (s : List Bool) : Gapped := ofPatternFrom 0 s

/-- the gap pattern of a gapped string -/
def pattern (g : Gapped) : List Bool := g.map Option.isNone

/-- renumber the residues 0, 1, 2, … (what slicing the sequence along with the map does) -/
def rebase (g : Gapped) : Gapped := ofPattern (pattern g)

/-- number of residues -/
def seqLen (g : Gapped) : Nat := (g.filter Option.isSome).length

/-- sequence index of alignment column `i` by scanning: residues strictly before column `i` -/
def seqIndex (g : Gapped) (i : Nat) : Nat := seqLen (g.take i)

/-- alignment column of residue `k` by scanning (`g.length` if there is no such residue) -/
def alignIndex : Gapped → Nat → Nat
  | [], _ => 0
  | none :: r, k => alignIndex r k + 1
  | some _ :: _, 0 => 0
  | some _ :: r, k + 1 => alignIndex r k + 1

/-- `g[a:b]` (Python slice, step 1) with residues renumbered -/
def slice (g : Gapped) (a b : Option Int) : Gapped := rebase (PySlice.slice g a b 1)

/-- concatenation of two gapped strings -/
def concat (g h : Gapped) : Gapped := ofPattern (pattern g ++ pattern h)

/-- the reversed string -/
def reversed (g : Gapped) : Gapped := ofPattern (pattern g).reverse

/-- every column repeated `k` times (amino acid → codon) -/
def scaled (g : Gapped) (k : Nat) : Gapped := ofPattern ((pattern g).flatMap fun b => List.replicate k b)

/-- maximal gap runs as (first column, length) -/
def gapRunsFrom (i : Nat) (cur : Option (Nat × Nat)) : Gapped → List (Nat × Nat)
  | [] => cur.toList
  | none :: r => match cur with
    | none => gapRunsFrom (i + 1) (some (i, 1)) r
    | some (s, l) => gapRunsFrom (i + 1) (some (s, l + 1)) r
  | some _ :: r => cur.toList ++ gapRunsFrom (i + 1) none r

def gapRuns (g : Gapped) : List (Nat × Nat) := gapRunsFrom 0 none g

/-- number of gap columns standing immediately before residue `k` (for `k = seqLen g`: the trailing
gap columns), by scanning -/
def gapsBefore : Gapped → Nat → Nat
  | [], _ => 0
  | none :: r, 0 => gapsBefore r 0 + 1
  | none :: r, k + 1 => gapsBefore r (k + 1)
  | some _ :: _, 0 => 0
  | some _ :: r, k + 1 => gapsBefore r k

end CogentModel.Gapped
