/-
  C13 — the specification: a store is a pair of dictionaries.

  * a record's identity is the identifier without its final extension (`specStem`);
    the completed record of `id` is listed as `<stem>.<suffix>`, the not-completed one as
    `<stem>.json` (directory store) / both as `id` itself (SQLite store);
  * `write` stores the completed record and retires exactly the same identity's
    not-completed record; `write_not_completed` stores the not-completed record;
    `drop` removes one / all not-completed records; logs never touch the records;
  * read-only mode rejects every mutation; append mode rejects a write to an existing record;
  * a rejected operation changes nothing;
  * every member's checksum is the checksum of its content.
  Import-free.
-/
import CogentModel.Model.KV
import CogentModel.Model.DataStore
namespace CogentModel.DataStoreDict
open CogentModel.KV
open CogentModel.DataStore (Mode Op)

/-- which store's naming / rejection policy the dictionary follows -/
inductive Kind | directory | sqlite
  deriving Repr, DecidableEq

/-- identifier without its final extension (the text after the last dot, unless the dot is the
    first or last character) -/
def specStem (id : Str) : Str := CogentModel.DataStore.pathStem id

def cName (k : Kind) (sfx id : Str) : Str :=
  match k with
  | .directory => specStem id ++ '.' :: sfx
  | .sqlite => id

def ncName (k : Kind) (id : Str) : Str :=
  match k with
  | .directory => specStem id ++ '.' :: CogentModel.DataStore.sJson
  | .sqlite => id

def logName (k : Kind) (id : Str) : Str :=
  match k with
  | .directory => specStem id ++ '.' :: CogentModel.DataStore.sLog
  | .sqlite => id

structure Dict (D : Type) where
  mode : Mode
  completed : KV D
  notCompleted : KV D
  logs : KV D

variable {D : Type}

def Dict.empty (mode : Mode) : Dict D := { mode, completed := [], notCompleted := [], logs := [] }

/-- is the operation rejected (raises, nothing changes)?  Append mode: the directory store
    looks only at the completed record of the identifier, the SQLite store at both kinds. -/
def rejects (k : Kind) (sfx : Str) (d : Dict D) : Op D → Bool
  | .write id _ =>
    d.mode = .r || (d.mode = .a && (has d.completed (cName k sfx id) ||
      (k = .sqlite && has d.notCompleted (ncName k id))))
  | .writeNc id _ =>
    d.mode = .r || (d.mode = .a && (has d.completed (cName k sfx id) ||
      has d.notCompleted (ncName k id)))
  | .writeLog _ _ => d.mode = .r
  | .drop _ => d.mode = .r
  | .reopen _ => false
  | .observe => false
  | .unlock => false

def apply (k : Kind) (sfx : Str) (d : Dict D) : Op D → Dict D
  | .write id data =>
    { d with completed := put d.completed (cName k sfx id) data,
             notCompleted := del d.notCompleted (ncName k id) }
  | .writeNc id data => { d with notCompleted := put d.notCompleted (ncName k id) data }
  | .writeLog id data => { d with logs := put d.logs (logName k id) data }
  | .drop id => if id.isEmpty then { d with notCompleted := [] }
                else { d with notCompleted := del d.notCompleted (ncName k id) }
  | .reopen m => { d with mode := m }
  | .observe => d
  | .unlock => d

/-- one-line semantics: a rejected operation is a no-op, otherwise `apply` -/
def specStep (k : Kind) (sfx : Str) (d : Dict D) (op : Op D) : Dict D :=
  if rejects k sfx d op then d else apply k sfx d op

def specRun (k : Kind) (sfx : Str) (d : Dict D) : List (Op D) → Dict D
  | [] => d
  | op :: ops => specRun k sfx (specStep k sfx d op) ops

end CogentModel.DataStoreDict
