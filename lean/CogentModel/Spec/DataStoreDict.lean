/-
  C13 — the specification: a store is a pair of dictionaries.

  * a record's identity is the identifier without its final extension (`specStem`);
    the completed record of `id` is listed as `<stem>.<suffix>`, the not-completed one as
    `<stem>.json` (directory store) / both as `id` itself (SQLite store);
  * `write` stores the completed record and retires exactly the same identity's
    not-completed record; `write_not_completed` stores the not-completed record;
    `drop` removes one / all not-completed records; logs never touch the records;
  * read-only mode rejects every mutation; append mode rejects a write to an existing record;
  * a rejected operation changes nothing;
  * every member's checksum is the checksum of its content.
  Import-free.
-/
import CogentModel.Model.KV
import CogentModel.Model.DataStore
namespace CogentModel.DataStoreDict
open CogentModel.KV
open CogentModel.DataStore (Mode Op)

/-- which store's naming / rejection policy the dictionary follows -/
inductive Kind | directory | sqlite
  deriving Repr, DecidableEq

/-- identifier without its final extension (the text after the last dot, unless the dot is the
    first or last character) -/
def specStem (id : Str) : Str := CogentModel.DataStore.pathStem id

/-- SQLite store: an identifier may be spelled with its table name in front (`results/<id>`) -/
def sqlNorm (table id : Str) : Str :=
  if CogentModel.DataStore.startsWith id table then CogentModel.DataStore.pathName id else id

def cName (k : Kind) (sfx id : Str) : Str :=
  match k with
  | .directory => specStem id ++ '.' :: sfx
  | .sqlite => sqlNorm CogentModel.DataStore.sResults id

def ncName (k : Kind) (id : Str) : Str :=
  match k with
  | .directory => specStem id ++ '.' :: CogentModel.DataStore.sJson
  | .sqlite => sqlNorm CogentModel.DataStore.sResults id

def logName (k : Kind) (id : Str) : Str :=
  match k with
  | .directory => specStem id ++ '.' :: CogentModel.DataStore.sLog
  | .sqlite => sqlNorm CogentModel.DataStore.sLogs id

structure Dict (D : Type) where
  mode : Mode
  completed : KV D
  notCompleted : KV D
  logs : KV D

variable {D : Type}

def Dict.empty (mode : Mode) : Dict D := { mode, completed := [], notCompleted := [], logs := [] }

/-- is the operation rejected (raises, nothing changes)?  Append mode: the directory store
    looks only at the completed record of the identifier, the SQLite store at both kinds. -/
def rejects (k : Kind) (sfx : Str) (d : Dict D) : Op D → Bool
  | .write id _ =>
    d.mode = .r || (d.mode = .a && (has d.completed (cName k sfx id) ||
      (k = .sqlite && has d.notCompleted (ncName k id))))
  | .writeNc id _ =>
    d.mode = .r || (d.mode = .a && (has d.completed (cName k sfx id) ||
      has d.notCompleted (ncName k id)))
  | .writeLog _ _ => d.mode = .r
  | .drop _ => d.mode = .r
  | .reopen _ => false
  | .observe => false
  | .unlock => false

def apply (k : Kind) (sfx : Str) (d : Dict D) : Op D → Dict D
  | .write id data =>
    { d with completed := put d.completed (cName k sfx id) data,
             notCompleted := del d.notCompleted (ncName k id) }
  | .writeNc id data => { d with notCompleted := put d.notCompleted (ncName k id) data }
  | .writeLog id data => { d with logs := put d.logs (logName k id) data }
  | .drop id => if id.isEmpty then { d with notCompleted := [] }
                else { d with notCompleted := del d.notCompleted (ncName k id) }
  | .reopen m => { d with mode := m }
  | .observe => d
  | .unlock => d

/-- one-line semantics: a rejected operation is a no-op, otherwise `apply` -/
def specStep (k : Kind) (sfx : Str) (d : Dict D) (op : Op D) : Dict D :=
  if rejects k sfx d op then d else apply k sfx d op

def specRun (k : Kind) (sfx : Str) (d : Dict D) : List (Op D) → Dict D
  | [] => d
  | op :: ops => specRun k sfx (specStep k sfx d op) ops

end CogentModel.DataStoreDict

/-! ## name hygiene and history side conditions (directory store)

The directory store derives file names from identifiers with `str.replace`, substring tests and
`endswith`.  `hyg` is the (decidable, executable) statement that on the identifier set `ids`
these string manipulations produce the names the specification intends, and that distinct
records have distinct side-file names.  `safe` lists, operation by operation, the situations in
which the code (after the repairs 5d49b05d8, fce82c149, 0dec94369) still departs from the dictionary model for reasons other than naming
(each one is exhibited by a `_counter` theorem in `Props/C13.lean`). -/
namespace CogentModel.DataStoreDict
open CogentModel.KV
open CogentModel.DataStore

/-- listed name of the completed / not-completed record of `i` in a directory store -/
abbrev cN (sfx i : Str) : Str := cName .directory sfx i
abbrev ncN (i : Str) : Str := ncName .directory i
/-- the md5 side file the store looks up for a member -/
abbrev mdOf (sfx n : Str) : Str := md5Lookup sfx n

def hygId (sfx i : Str) : Bool :=
  decide (resolve sfx sfx i = ⟨cN sfx i, cN sfx i, cN sfx i, mdOf sfx (cN sfx i)⟩) &&
  decide (resolve sfx sJson i = ⟨cN sfx i, ncN i, ncN i, mdOf sfx (ncN i)⟩) &&
  decide (dropKey sfx i = ncN i) &&
  decide (dropMd5 (ncN i) = mdOf sfx (ncN i)) &&
  endsWith (cN sfx i) ('.' :: sfx) &&
  endsWith (ncN i) ('.' :: sJson) &&
  !startsWith (cN sfx i) ncPrefix &&
  !startsWith (ncN i) ncPrefix &&
  sfx != sLog &&
  !(cN sfx i).contains '/' &&
  !(ncN i).contains '/' &&
  -- the completed and the not-completed record of one identifier share one md5 side file
  decide (mdOf sfx (cN sfx i) = mdOf sfx (ncN i))

def hygPair (sfx i j : Str) : Bool :=
  (!decide (mdOf sfx (cN sfx i) = mdOf sfx (cN sfx j)) || decide (cN sfx i = cN sfx j)) &&
  (!decide (mdOf sfx (ncN i) = mdOf sfx (ncN j)) || decide (ncN i = ncN j)) &&
  (!decide (mdOf sfx (cN sfx i) = mdOf sfx (ncN j)) || decide (ncN i = ncN j))

/-- name hygiene of an identifier set -/
def hyg (sfx : Str) (ids : List Str) : Bool :=
  ids.all (hygId sfx) && ids.all (fun i => ids.all (fun j => hygPair sfx i j))

variable {D : Type}

/-- side conditions of one operation, evaluated on the dictionary state before it -/
def safe (sfx : Str) (ids : List Str) (d : Dict D) : Op D → Bool
  | .write i _ =>
    ids.contains i &&
    -- OVERWRITE mode does not rewrite an existing completed record (the code silently keeps the old one)
    (d.mode != .w || !has d.completed (cN sfx i))
  | .writeNc i _ =>
    ids.contains i &&
    -- APPEND mode: no second not-completed record for the identifier (the code overwrites it)
    (d.mode != .a || !has d.notCompleted (ncN i)) &&
    -- OVERWRITE mode: no completed record of the identifier (they share one md5 side file)
    (d.mode != .w || !has d.completed (cN sfx i)) &&
    -- the not-completed file name is not a completed member's name (possible for suffix "json")
    !has d.completed (ncN i)
  | .writeLog i _ =>
    -- log-name hygiene: the file written is `<stem>.log`, has no directory part, and (append mode) the
    -- name `__contains__` derives from the log identifier is not a completed member
    decide ((resolve sfx sLog i).file = logName .directory i) &&
    !(resolve sfx sLog i).file.contains '/' &&
    !startsWith (resolve sfx sLog i).chk1 ncPrefix &&
    (d.mode != .a || !has d.completed (resolve sfx sLog i).chk1)
  | .drop i => i.isEmpty || ids.contains i
  | .reopen _ => true
  | .observe => true
  | .unlock => true

/-- every operation of the history is `safe` in the dictionary state it is applied to -/
def safeHist (sfx : Str) (ids : List Str) : Dict D → List (Op D) → Bool
  | _, [] => true
  | d, op :: ops => safe sfx ids d op && safeHist sfx ids (specStep .directory sfx d op) ops

/-- ghost state for the md5 statement: the completed records whose md5 side file is missing —
    exactly those whose (only) write retired a live not-completed record of the same identifier,
    because `write` drops the shared md5 file after writing it -/
def lostStep (sfx : Str) (d : Dict D) (lost : List Str) (op : Op D) : List Str :=
  match op with
  | .write i _ =>
    if rejects .directory sfx d op then lost
    else if has d.notCompleted (ncN i) then cN sfx i :: lost else lost
  | _ => lost

def lostRun (sfx : Str) : Dict D → List Str → List (Op D) → List Str
  | _, lost, [] => lost
  | d, lost, op :: ops => lostRun sfx (specStep .directory sfx d op) (lostStep sfx d lost op) ops

/-- what each call returns / raises in the dictionary model: a rejected operation raises `IOError`,
    an accepted write returns the member id; `drop_not_completed()` (all) additionally raises
    `FileNotFoundError` when `source/not_completed` does not exist (`ncDirExists = false`) -/
def expectRes (sfx : Str) (d : Dict D) (ncDirExists : Bool) (op : Op D) : Res :=
  if rejects .directory sfx d op then .err .ioError else
  match op with
  | .write i _ => .done (some (cN sfx i))
  | .writeNc i _ => .done (some (ncPrefix ++ ncN i))
  | .drop i => if i.isEmpty && !ncDirExists then .err .fileNotFound else .done none
  | _ => .done none

end CogentModel.DataStoreDict
