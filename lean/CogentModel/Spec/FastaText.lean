import CogentModel.Spec.SeqRecords
/-
  C06 — well-formed FASTA texts that are NOT necessarily what the writer produces:
  blanks / tabs around the label, empty label, blank and blank-only lines inside and between
  records, blanks inside / around residue lines, lower-case residues, "\n" or "\r\n" per line
  (mixed), and a missing terminator on the very last line.
  Not admitted (the parsers of cogent3 disagree on them, see known_findings.d/C06.json):
  text before the first label line, comment lines (`#`), records without any non-empty body line.
  Import free apart from `Spec/SeqRecords`.
-/
namespace CogentModel.FastaText
open CogentModel.SeqSpec

/-- how a physical line ends -/
inductive Term where
  | lf | crlf | eof
  deriving DecidableEq, Repr

def eol : Term → List Char
  | .lf => ['\n']
  | .crlf => ['\r', '\n']
  | .eof => []

/-- one physical line of a record body -/
structure GLine where
  content : List Char
  term : Term
  deriving Repr

/-- one record: `>` `pre` `name` `post` end-of-line, then the body lines -/
structure GRec where
  pre : List Char
  name : List Char
  post : List Char
  crlf : Bool
  body : List GLine
  deriving Repr

def labelTerm (g : GRec) : Term := if g.crlf then .crlf else .lf

def lineRaw (l : GLine) : List Char := l.content ++ eol l.term
def bodyRaw (ls : List GLine) : List Char := ls.flatMap lineRaw
/-- the label line without its `>` and terminator -/
def labelRest (g : GRec) : List Char := g.pre ++ g.name ++ g.post
/-- the text of one record after its `>` -/
def recRaw (g : GRec) : List Char := labelRest g ++ eol (labelTerm g) ++ bodyRaw g.body
/-- the text of the file -/
def fileRaw (gs : List GRec) : List Char := gs.flatMap (fun g => '>' :: recRaw g)

/-- blank or tab -/
def isBT (c : Char) : Bool := c = ' ' || c = '\t'
/-- a character of a body line: residue character, blank or tab -/
def bodyChar (c : Char) : Bool := seqChar ['>'] c || isBT c
/-- a label: empty, or printable ASCII with non-blank first and last character -/
def wfLabel (n : List Char) : Bool :=
  n.all printable && n.head? != some ' ' && n.getLast? != some ' '

/-- only the very last line of the file may lack its terminator, and then it is not empty -/
def bodyOk (last : Bool) : List GLine → Bool
  | [] => true
  | [l] => l.term != .eof || (last && !l.content.isEmpty)
  | l :: l2 :: ls => l.term != .eof && bodyOk last (l2 :: ls)

def wfRec (last : Bool) (g : GRec) : Bool :=
  g.pre.all isBT && g.post.all isBT && wfLabel g.name &&
  g.body.all (fun l => l.content.all bodyChar) &&
  g.body.any (fun l => !l.content.isEmpty) && bodyOk last g.body

def wfFile : List GRec → Bool
  | [] => true
  | [g] => wfRec true g
  | g :: g2 :: gs => wfRec false g && wfFile (g2 :: gs)

/-- the residues of a record: the body lines joined, blanks and tabs removed -/
def residues (g : GRec) : List Char := (g.body.flatMap (·.content)).filter (fun c => !isBT c)

/-- the records a parser has to return (labels verbatim, case preserved) -/
def records (gs : List GRec) : List (List Char × List Char) := gs.map (fun g => (g.name, residues g))

end CogentModel.FastaText
