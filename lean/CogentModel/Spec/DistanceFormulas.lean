/-
  C15 — the published closed-form pairwise distance estimators, written down independently of the
  model of `cogent3.evolve.fast_distance` (Model/Distance.lean).

  Everything here is stated by nucleotide NAME (A, C, G, T), over a table of joint counts
  `N x y` = number of alignment columns with `x` in sequence 1 and `y` in sequence 2.
  The only link to cogent3's array layout is `Nuc.idx` (DNA alphabet order "TCAG") and `ofMatrix`.
  None of the model's helper functions (rowSum, colSum, total, tnFreq, det4, …) is used.

  The logarithms themselves are not taken here: each formula is given as its rational
  coefficients and the rational arguments of its logarithms.

    p-distance   p = (Σ_{x≠y} N x y) / n
    JC69         d = −(3/4) ln(1 − 4p/3)                               (Jukes & Cantor 1969)
    TN93         d = −k1 ln w1 − k2 ln w2 − k3 ln w3                   (Tamura & Nei 1993, eq. 7)
    paralinear   d = −(1/4) ln( det F / sqrt(Π_x fx(x)·fy(x)) )        (Lake 1994)
    LogDet       d = −(1/4) ln det F − ln 4                            (Lockhart et al. 1994)
    LogDet (TK)  d = −[(1 − Σ_x g_x²)/3] ln( det F / sqrt(Π_x fx(x)·fy(x)) ),  g_x = (fx(x)+fy(x))/2
                                                                       (Tamura & Kumar 2002)

  Import-free.
-/
namespace CogentModel.DistanceFormulas

inductive Nuc where
  | A | C | G | T
  deriving DecidableEq, Repr

/-- position of a nucleotide in cogent3's DNA alphabet ("TCAG"; RNA "UCAG") -/
def Nuc.idx : Nuc → Nat
  | .T => 0
  | .C => 1
  | .A => 2
  | .G => 3

/-- joint counts (or joint frequencies) by nucleotide name: sequence 1 has `x`, sequence 2 has `y` -/
abbrev Joint := Nuc → Nuc → Rat

/-- read a 4×4 array laid out in cogent3's alphabet order as a table indexed by nucleotide name -/
def ofMatrix (m : Nat → Nat → Rat) : Joint := fun x y => m x.idx y.idx

/-- Σ over the four nucleotides -/
def sumNuc (f : Nuc → Rat) : Rat := f .A + f .C + f .G + f .T

/-- Π over the four nucleotides -/
def prodNuc (f : Nuc → Rat) : Rat := f .A * f .C * f .G * f .T

/-- n: the number of compared columns -/
def n (N : Joint) : Rat := sumNuc fun x => sumNuc fun y => N x y

/-- Hamming distance: the number of columns whose two states differ -/
def hamming (N : Joint) : Rat := sumNuc fun x => sumNuc fun y => if x = y then 0 else N x y

/-- proportion of differing columns -/
def p (N : Joint) : Rat := hamming N / n N

/-! ### JC69: d = −(3/4) ln(1 − 4p/3), defined iff p < 3/4 (i.e. iff the log argument is positive) -/

def jcArg (N : Joint) : Rat := 1 - 4 * p N / 3

/-! ### TN93 -/

/-- number of columns with `x` in sequence 1 -/
def seq1Count (N : Joint) (x : Nuc) : Rat := sumNuc fun y => N x y

/-- number of columns with `x` in sequence 2 -/
def seq2Count (N : Joint) (x : Nuc) : Rat := sumNuc fun y => N y x

/-- π_x: frequency of `x`, averaged over the two sequences -/
def pi (N : Joint) (x : Nuc) : Rat := (seq1Count N x + seq2Count N x) / (2 * n N)

/-- π_R, purines = {A, G} -/
def piR (N : Joint) : Rat := pi N .A + pi N .G

/-- π_Y, pyrimidines = {C, T} -/
def piY (N : Joint) : Rat := pi N .C + pi N .T

/-- P1: proportion of purine transitions A↔G -/
def P1 (N : Joint) : Rat := (N .A .G + N .G .A) / n N

/-- P2: proportion of pyrimidine transitions C↔T -/
def P2 (N : Joint) : Rat := (N .C .T + N .T .C) / n N

/-- Q: proportion of transversions (everything that differs and is not a transition) -/
def Q (N : Joint) : Rat := p N - P1 N - P2 N

def tnK1 (N : Joint) : Rat := 2 * pi N .A * pi N .G / piR N

def tnK2 (N : Joint) : Rat := 2 * pi N .T * pi N .C / piY N

def tnK3 (N : Joint) : Rat :=
  2 * (piR N * piY N - pi N .A * pi N .G * piY N / piR N - pi N .T * pi N .C * piR N / piY N)

def tnW1 (N : Joint) : Rat := 1 - piR N * P1 N / (2 * pi N .A * pi N .G) - Q N / (2 * piR N)

def tnW2 (N : Joint) : Rat := 1 - piY N * P2 N / (2 * pi N .T * pi N .C) - Q N / (2 * piY N)

def tnW3 (N : Joint) : Rat := 1 - Q N / (2 * piR N * piY N)

/-! d is defined iff the three logarithms exist: 0 < w1, 0 < w2, 0 < w3 -/

/-! ### paralinear / LogDet -/

/-- cogent3's documented convention: a state never seen on the diagonal gets the pseudo-count 1/2 -/
def pseudo (N : Joint) : Joint := fun x y => if x = y ∧ N x y = 0 then 1 / 2 else N x y

/-- F: the joint frequency matrix (pseudo-counted table normalised to sum 1) -/
def freqTable (N : Joint) : Joint := fun x y => pseudo N x y / n (pseudo N)

/-- fx: marginal frequencies of sequence 1 -/
def fx (F : Joint) (x : Nuc) : Rat := sumNuc fun y => F x y

/-- fy: marginal frequencies of sequence 2 -/
def fy (F : Joint) (x : Nuc) : Rat := sumNuc fun y => F y x

/-- Π_x fx(x)·fy(x) -/
def margProd (F : Joint) : Rat := prodNuc fun x => fx F x * fy F x

/-- g_x = (fx(x) + fy(x)) / 2 -/
def avgFreq (F : Joint) (x : Nuc) : Rat := (fx F x + fy F x) / 2

/-- Tamura–Kumar coefficient −(1 − Σ_x g_x²)/(r − 1), r = 4 -/
def tkCoeff (F : Joint) : Rat := -(1 - sumNuc fun x => avgFreq F x * avgFreq F x) / 3

/-! Determinant by the Leibniz formula: Σ over all permutations σ of {A,C,G,T} of
sgn σ · F(A,σA)·F(C,σC)·F(G,σG)·F(T,σT), with sgn σ = (−1)^(number of inversions). -/

def Nuc.all : List Nuc := [.A, .C, .G, .T]

def Nuc.rank : Nuc → Nat
  | .A => 0
  | .C => 1
  | .G => 2
  | .T => 3

/-- all 24 arrangements (σA, σC, σG, σT) -/
def perms4 : List (Nuc × Nuc × Nuc × Nuc) :=
  Nuc.all.flatMap fun a => Nuc.all.flatMap fun c => Nuc.all.flatMap fun g => Nuc.all.flatMap fun t =>
    if a ≠ c ∧ a ≠ g ∧ a ≠ t ∧ c ≠ g ∧ c ≠ t ∧ g ≠ t then [(a, c, g, t)] else []

/-- number of pairs that are out of order -/
def inversions : List Nat → Nat
  | [] => 0
  | x :: r => (r.filter (· < x)).length + inversions r

def sign (s : List Nuc) : Rat := if inversions (s.map Nuc.rank) % 2 = 0 then 1 else -1

def detLeibniz (F : Joint) : Rat :=
  (perms4.map fun s => sign [s.1, s.2.1, s.2.2.1, s.2.2.2] *
    (F .A s.1 * F .C s.2.1 * F .G s.2.2.1 * F .T s.2.2.2)).sum

end CogentModel.DistanceFormulas
