/-
  C20 — the specification: relational operations on a plain list of row tuples
  (what `sorted(rows, key=…)`, list comprehensions, `collections.Counter`, `set`, `zip(*rows)` do).
  Import-free; short and meant to be read.
-/
namespace CogentModel.TableRows

variable {α : Type}

/-- the fields of row `r` at positions `sel` -/
def proj (dflt : α) (sel : List Nat) (r : List α) : List α := sel.map fun j => r.getD j dflt

/-- `[r + keep(s) for r in R for s in S if key(r) == key(s)]` -/
def innerJoin {κ} [DecidableEq κ] (dflt : α) (key : α → κ) (kS kO keep : List Nat)
    (R S : List (List α)) : List (List α) :=
  R.flatMap fun r => S.filterMap fun s =>
    if (proj dflt kS r).map key = (proj dflt kO s).map key then some (r ++ proj dflt keep s) else none

/-- `[r + s for r in R for s in S]` -/
def crossJoin (R S : List (List α)) : List (List α) := R.flatMap fun r => S.map fun s => r ++ s

/-- `[r for r in R if p(r[sel])]` -/
def filtered (dflt : α) (p : List α → Bool) (sel : List Nat) (R : List (List α)) : List (List α) :=
  R.filter fun r => p (proj dflt sel r)

/-- `Counter(key(r[sel]) for r in R)[k]` -/
def countOf {κ} [DecidableEq κ] (dflt : α) (key : α → κ) (sel : List Nat) (R : List (List α)) (k : List κ) : Nat :=
  ((R.map fun r => (proj dflt sel r).map key).filter fun x => decide (x = k)).length

/-- membership in `{key(r[sel]) for r in R}` -/
def isDistinctValue {κ} [DecidableEq κ] (dflt : α) (key : α → κ) (sel : List Nat) (R : List (List α))
    (k : List κ) : Prop :=
  k ∈ R.map fun r => (proj dflt sel r).map key

/-- `[r + [f(r[sel])] for r in R]` -/
def withNewColumn (dflt : α) (f : List α → α) (sel : List Nat) (R : List (List α)) : List (List α) :=
  R.map fun r => r ++ [f (proj dflt sel r)]

/-- `[r[sel] for r in R]` -/
def select (dflt : α) (sel : List Nat) (R : List (List α)) : List (List α) := R.map (proj dflt sel)

/-- `[ [title_k] + r for k, R_k in enumerate(tables) for r in R_k ]` -/
def appendedWithTitle (titles : List α) (Rs : List (List (List α))) : List (List α) :=
  (titles.zip Rs).flatMap fun (t, R) => R.map fun r => t :: r

def appended (Rs : List (List (List α))) : List (List α) := Rs.flatMap id

/-- `list(zip(*R))` for `n` columns -/
def transpose (dflt : α) (ncols : Nat) (R : List (List α)) : List (List α) :=
  (List.range ncols).map fun j => R.map fun r => r.getD j dflt

/-- a list of rows is sorted under `le` on their keys -/
def SortedBy {κ} (le : κ → κ → Bool) (keyOf : List α → κ) (R : List (List α)) : Prop :=
  R.Pairwise fun r s => le (keyOf r) (keyOf s) = true

end CogentModel.TableRows
