/-
  Python's slicing semantics, written from the language definition
  (`slice.indices`, CPython `PySlice_AdjustIndices` + `range`).  This is the
  *spec* side: it knows nothing about cogent3.  It is validated against CPython
  itself by the harness (`str.__getitem__` over an exhaustive box).
-/
namespace CogentModel.PySlice

/-- `slice(start, stop, step).indices(len)` for `step ≠ 0`, `len ≥ 0`. -/
def indices (len : Int) (start stop : Option Int) (step : Int) : Int × Int × Int :=
  if step > 0 then
    let s := match start with
      | none => 0
      | some s => if s < 0 then max (s + len) 0 else min s len
    let e := match stop with
      | none => len
      | some e => if e < 0 then max (e + len) 0 else min e len
    (s, e, step)
  else
    let s := match start with
      | none => len - 1
      | some s => if s < 0 then max (s + len) (-1) else min s (len - 1)
    let e := match stop with
      | none => -1
      | some e => if e < 0 then max (e + len) (-1) else min e (len - 1)
    (s, e, step)

/-- `len(range(a, b, c))` -/
def rangeLen (a b c : Int) : Nat :=
  if c > 0 then (if a < b then ((b - a - 1) / c + 1).toNat else 0)
  else if c < 0 then (if b < a then ((a - b - 1) / (-c) + 1).toNat else 0)
  else 0

/-- `list(range(a, b, c))` -/
def rangeList (a b c : Int) : List Int :=
  (List.range (rangeLen a b c)).map fun (i : Nat) => a + (i : Int) * c

/-- the positions (into a sequence of length `len`) selected by `[start:stop:step]` -/
def sliceIdx (len : Nat) (start stop : Option Int) (step : Int) : List Int :=
  let (a, b, c) := indices len start stop step
  rangeList a b c

/-- `xs[start:stop:step]` -/
def slice {α} [Inhabited α] (xs : List α) (start stop : Option Int) (step : Int) : List α :=
  (sliceIdx xs.length start stop step).map fun i => xs[i.toNat]!

/-- `xs[i]` for a Python int index: `none` = IndexError -/
def index {α} (xs : List α) (i : Int) : Option α :=
  let n : Int := xs.length
  if 0 ≤ i ∧ i < n then xs[i.toNat]?
  else if -n ≤ i ∧ i < 0 then xs[(i + n).toNat]?
  else none

end CogentModel.PySlice
