/-!
# C12 — the NCBI genetic codes, written down independently of cogent3

Source: the NCBI "The Genetic Codes" page / `gc.prt`, as it documents them: every code is given by its
*differences from the standard code* (and its initiation codons).  Nothing here is copied from, or generated
from, the library; `Props/C12.lean` proves that the tables extracted from the library on every run are these.

Codon order of the 64-character strings is the NCBI one: `TCAG × TCAG × TCAG`.
-/
namespace CogentModel.NCBI

def bases : List Char := ['T', 'C', 'A', 'G']

def codons : List (List Char) :=
  bases.flatMap fun a => bases.flatMap fun b => bases.map fun c => [a, b, c]

/-- transl_table=1, the standard code, by amino acid (the textbook table) -/
def standardByAA : List (Char × List String) := [
  ('F', ["TTT", "TTC"]), ('L', ["TTA", "TTG", "CTT", "CTC", "CTA", "CTG"]),
  ('S', ["TCT", "TCC", "TCA", "TCG", "AGT", "AGC"]), ('Y', ["TAT", "TAC"]), ('*', ["TAA", "TAG", "TGA"]),
  ('C', ["TGT", "TGC"]), ('W', ["TGG"]), ('P', ["CCT", "CCC", "CCA", "CCG"]), ('H', ["CAT", "CAC"]),
  ('Q', ["CAA", "CAG"]), ('R', ["CGT", "CGC", "CGA", "CGG", "AGA", "AGG"]), ('I', ["ATT", "ATC", "ATA"]),
  ('M', ["ATG"]), ('T', ["ACT", "ACC", "ACA", "ACG"]), ('N', ["AAT", "AAC"]), ('K', ["AAA", "AAG"]),
  ('V', ["GTT", "GTC", "GTA", "GTG"]), ('A', ["GCT", "GCC", "GCA", "GCG"]), ('D', ["GAT", "GAC"]),
  ('E', ["GAA", "GAG"]), ('G', ["GGT", "GGC", "GGA", "GGG"])]

def findAA (tbl : List (Char × List (List Char))) (c : List Char) : Char :=
  match tbl.find? (fun p => p.2.contains c) with
  | some p => p.1
  | none => '?'

def standard : List Char :=
  let tbl := standardByAA.map fun (a, cs) => (a, cs.map String.toList)
  codons.map (findAA tbl)

/-- (transl_table id, differences from the standard code, initiation codons) for every id cogent3 offers -/
def codes : List (Nat × List (String × Char) × List String) := [
  (1,  [], ["TTG", "CTG", "ATG"]),
  (2,  [("AGA", '*'), ("AGG", '*'), ("ATA", 'M'), ("TGA", 'W')], ["ATT", "ATC", "ATA", "ATG", "GTG"]),
  (3,  [("ATA", 'M'), ("CTT", 'T'), ("CTC", 'T'), ("CTA", 'T'), ("CTG", 'T'), ("TGA", 'W')], ["ATA", "ATG", "GTG"]),
  (4,  [("TGA", 'W')], ["TTA", "TTG", "CTG", "ATT", "ATC", "ATA", "ATG", "GTG"]),
  (5,  [("AGA", 'S'), ("AGG", 'S'), ("ATA", 'M'), ("TGA", 'W')], ["TTG", "ATT", "ATC", "ATA", "ATG", "GTG"]),
  (6,  [("TAA", 'Q'), ("TAG", 'Q')], ["ATG"]),
  (9,  [("AAA", 'N'), ("AGA", 'S'), ("AGG", 'S'), ("TGA", 'W')], ["ATG", "GTG"]),
  (10, [("TGA", 'C')], ["ATG"]),
  (11, [], ["TTG", "CTG", "ATT", "ATC", "ATA", "ATG", "GTG"]),
  (12, [("CTG", 'S')], ["CTG", "ATG"]),
  (13, [("AGA", 'G'), ("AGG", 'G'), ("ATA", 'M'), ("TGA", 'W')], ["TTG", "ATA", "ATG", "GTG"]),
  (14, [("AAA", 'N'), ("AGA", 'S'), ("AGG", 'S'), ("TAA", 'Y'), ("TGA", 'W')], ["ATG"]),
  (15, [("TAG", 'Q')], ["ATG"]),
  (16, [("TAG", 'L')], ["ATG"]),
  (21, [("TGA", 'W'), ("ATA", 'M'), ("AGA", 'S'), ("AGG", 'S'), ("AAA", 'N')], ["ATG", "GTG"]),
  (22, [("TCA", '*'), ("TAG", 'L')], ["ATG"]),
  (23, [("TTA", '*')], ["ATT", "ATG", "GTG"]),
  (24, [("AGA", 'S'), ("AGG", 'K'), ("TGA", 'W')], ["TTG", "CTG", "ATG", "GTG"]),
  (25, [("TGA", 'G')], ["TTG", "ATG", "GTG"]),
  (26, [("CTG", 'A')], ["CTG", "ATG"]),
  (27, [("TAG", 'Q'), ("TAA", 'Q'), ("TGA", 'W')], ["ATG"]),
  (28, [("TAA", 'Q'), ("TAG", 'Q'), ("TGA", 'W')], ["ATG"]),
  (29, [("TAA", 'Y'), ("TAG", 'Y')], ["ATG"]),
  (30, [("TAA", 'E'), ("TAG", 'E')], ["ATG"]),
  (31, [("TGA", 'W'), ("TAG", 'E'), ("TAA", 'E')], ["ATG"]),
  (32, [("TAG", 'W')], ["TTG", "CTG", "ATT", "ATC", "ATA", "ATG", "GTG"]),
  (33, [("TAA", 'Y'), ("TGA", 'W'), ("AGA", 'S'), ("AGG", 'K')], ["TTG", "CTG", "ATG", "GTG"])]

/-- the 64-character table of a code: the standard code with the listed codons reassigned -/
def tableOf (diffs : List (String × Char)) : List Char :=
  (codons.zip standard).map fun (c, a) =>
    match diffs.find? (fun d => d.1.toList = c) with
    | some d => d.2
    | none => a

/-- the initiation codons as a 64-character map (`M` = may initiate) -/
def startsOf (starts : List String) : List Char :=
  codons.map fun c => if (starts.map String.toList).contains c then 'M' else '-'

def tables : List (Nat × List Char × List Char) :=
  codes.map fun (i, d, s) => (i, tableOf d, startsOf s)

end CogentModel.NCBI
