/-
  The simple spec for C04: a feature is a list of absolute plus-strand spans
  plus a strand; on a view that retains the parent segment `[p0, p1)` it
  denotes the absolute positions of its spans that fall inside the segment, in
  plus-strand order (reversed, and read complemented, for a minus-strand
  feature).  Nothing here knows about views, clipping or lost spans.
-/
namespace CogentModel.FeatureSpec

/-- integers `a, a+1, …, b-1` (empty if `b ≤ a`) -/
def seg (a b : Int) : List Int := (List.range (b - a).toNat).map fun (i : Nat) => a + (i : Int)

/-- positions (reading order) and whether the residues are read complemented -/
def denote (spans : List (Int × Int)) (minus : Bool) (p0 p1 : Int) : List Int × Bool :=
  let ps := spans.flatMap fun sp => seg (max sp.1 p0) (min sp.2 p1)
  (if minus then ps.reverse else ps, minus)

/-- the db hull `[s, e)` overlaps / lies inside the absolute window `[a, b)` -/
def overlaps (s e a b : Int) : Prop := s < b ∧ a < e
def within (s e a b : Int) : Prop := a ≤ s ∧ e ≤ b

/-- absolute plus-strand positions a forward view shows: `p0, p0+k, …` (`L` of them) -/
def shownFwd (p0 k L : Int) : List Int := (seg 0 L).map fun i => p0 + i * k

/-- on a view that shows only SOME positions of its parent segment (a strided view), a feature denotes
the shown positions lying in its spans (`shown` in plus-strand order), read on the feature's strand -/
def denoteShown (shown : List Int) (spans : List (Int × Int)) (minus : Bool) : List Int × Bool :=
  let ps := spans.flatMap fun sp => shown.filter fun p => decide (sp.1 ≤ p ∧ p < sp.2)
  (if minus then ps.reverse else ps, minus)

/-- the hull of a non-empty list of positions given in plus-strand order: every position from the first to the last -/
def hullOf (ps : List Int) : List Int :=
  match ps.head?, ps.getLast? with
  | some a, some b => seg a (b + 1)
  | _, _ => []

/-- what the CONTIGUOUS form of a feature slice (`get_slice(allow_gaps=True)`) denotes on a view retaining `[p0, p1)`:
every parent position from the first to the last retained position of the feature (introns included), read on the
feature's strand; nothing if no position of the feature is retained -/
def denoteContig (spans : List (Int × Int)) (minus : Bool) (p0 p1 : Int) : List Int × Bool :=
  let ps := spans.flatMap fun sp => seg (max sp.1 p0) (min sp.2 p1)
  (if minus then (hullOf ps).reverse else hullOf ps, minus)

end CogentModel.FeatureSpec
