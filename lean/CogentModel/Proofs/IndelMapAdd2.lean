import CogentModel.Proofs.IndelMapAdd1
namespace CogentModel.IndelMap
open CogentModel.Gapped List CogentModel

theorem lastOr_mem_or (d : Int) : ∀ (xs : List Int), lastOr d xs = d ∨ lastOr d xs ∈ xs := by
  intro xs
  induction xs generalizing d with
  | nil => left; rfl
  | cons x r ih =>
    simp only [lastOr]
    rcases ih x with h | h
    · right; rw [h]; simp
    · right; exact mem_cons_of_mem _ h

theorem add_spec_merge (a b : IMap) (ha : WF a) (hb : WF b)
    (hm : a.gapPos ≠ [] ∧ b.gapPos ≠ [] ∧ lastD a.gapPos = a.parentLength ∧ b.gapPos.headD 0 = 0) :
    ∃ r, add a b = .ok r ∧ WF r ∧ abs r = Gapped.concat (abs a) (abs b) := by
  obtain ⟨hane, hbne, hlast, hhead⟩ := hm
  have hla := ha.len_eq
  have hlb := hb.len_eq
  have hcne : a.cumLens ≠ [] := by intro hn; rw [hn] at hla; exact hane (length_eq_zero_iff.mp hla)
  -- decompositions
  have hA := dropLast_append_lastD a.gapPos hane
  have hC := dropLast_append_lastD a.cumLens hcne
  rw [hlast] at hA
  generalize hA' : a.gapPos.dropLast = A' at hA
  generalize hC' : a.cumLens.dropLast = C' at hC
  generalize hcl : lastD a.cumLens = cl at hC
  have hlen' : A'.length = C'.length := by
    have := congrArg length hA; have := congrArg length hC
    simp only [length_append, length_singleton] at *; omega
  obtain ⟨B', hB⟩ : ∃ B', b.gapPos = 0 :: B' := by
    cases hg : b.gapPos with
    | nil => exact absurd hg hbne
    | cons p ps => rw [hg] at hhead; simp only [headD_cons] at hhead; subst hhead; exact ⟨ps, rfl⟩
  obtain ⟨cb0, D', hD⟩ : ∃ cb0 D', b.cumLens = cb0 :: D' := by
    cases hc : b.cumLens with
    | nil => rw [hB, hc] at hlb; simp at hlb
    | cons c cs => exact ⟨c, cs, rfl⟩
  -- facts about the pieces
  have hPa := ha.pos_sorted; rw [hA] at hPa
  have hPa' := pairwise_append.mp hPa
  have hCa := ha.cum_sorted; rw [hC, ← cons_append] at hCa
  have hCa' := pairwise_append.mp hCa
  have hcb0 : 0 < cb0 := cum_pos b hb cb0 (by rw [hD]; simp)
  have hl1 : lastOr 0 C' < cl := by
    rcases lastOr_mem_or 0 C' with h | h
    · rw [h]; exact hCa'.2.2 0 (by simp) cl (by simp)
    · exact hCa'.2.2 _ (mem_cons_of_mem _ h) cl (by simp)
  unfold add
  have hmd : decide (a.gapPos ≠ [] ∧ b.gapPos ≠ [] ∧ lastD a.gapPos = a.parentLength ∧ b.gapPos.headD 0 = 0) = true := by
    simp only [decide_eq_true_eq]; exact ⟨hane, hbne, hlast, hhead⟩
  simp only [hmd, if_true, hane, if_false, hA', hC', hcl]
  have hres := add_result a b ha hb (A' ++ b.gapPos.map (a.parentLength + ·))
    (C' ++ b.cumLens.map (cl + ·)) (by simp [hlen', hlb]) ?_ ?_ ?_ ?_
  · exact ⟨_, hres.1, hres.2.1, hres.2.2⟩
  · rw [pairwise_append]
    refine ⟨hPa'.1, hb.pos_sorted.map _ (fun x y hxy => by omega), ?_⟩
    intro x hx y hy
    obtain ⟨q, hq, rfl⟩ := mem_map.mp hy
    have := hPa'.2.2 x hx a.parentLength (by simp)
    have := (hb.pos_range q hq).1
    omega
  · rw [← cons_append, pairwise_append]
    refine ⟨hCa'.1, (pairwise_cons.mp hb.cum_sorted).2.map _ (fun x y hxy => by omega), ?_⟩
    intro x hx y hy
    obtain ⟨c, hc, rfl⟩ := mem_map.mp hy
    have := hCa'.2.2 x hx cl (by simp)
    have := cum_pos b hb c hc
    omega
  · intro p hp
    have hpa := ha.pl_nonneg
    have hpb := hb.pl_nonneg
    rcases mem_append.mp hp with h1 | h1
    · have := ha.pos_range p (by rw [hA]; exact mem_append_left _ h1); omega
    · obtain ⟨q, hq, rfl⟩ := mem_map.mp h1
      have := hb.pos_range q hq; omega
  · -- the pattern
    have hposB : ∀ g ∈ zip B' (diffsFrom cb0 D'), 0 ≤ g.1 := by
      intro g hg
      exact (hb.pos_range g.1 (by rw [hB]; exact mem_cons_of_mem _ (of_mem_zip hg).1)).1
    have hposA : ∀ g ∈ zip A' (diffsFrom 0 C') ++ [(a.parentLength + 0, cl + cb0 - lastOr 0 C')], g.1 ≤ a.parentLength := by
      intro g hg
      rcases mem_append.mp hg with h1 | h1
      · exact (ha.pos_range g.1 (by rw [hA]; exact mem_append_left _ (of_mem_zip h1).1)).2
      · simp only [mem_singleton] at h1; subst h1; simp
    -- left-hand side
    have hL : zip (A' ++ b.gapPos.map (a.parentLength + ·)) (diffsFrom 0 (C' ++ b.cumLens.map (cl + ·))) =
        (zip A' (diffsFrom 0 C') ++ [(a.parentLength + 0, cl + cb0 - lastOr 0 C')]) ++
          shiftG a.parentLength (zip B' (diffsFrom cb0 D')) := by
      rw [diffsFrom_append, hB, hD]
      simp only [map_cons, diffsFrom]
      rw [diffsFrom_map_add D' cl cb0, zip_append (by simp [diffsFrom_length, hlen']), zip_cons_cons, zip_shift]
      simp
    -- right-hand side
    have hRa : zip a.gapPos (diffsFrom 0 a.cumLens) = zip A' (diffsFrom 0 C') ++ [(a.parentLength, cl - lastOr 0 C')] := by
      rw [hA, hC, diffsFrom_append, zip_append (by simp [diffsFrom_length, hlen'])]
      simp [diffsFrom]
    have hRb : zip b.gapPos (diffsFrom 0 b.cumLens) = (0, cb0 - 0) :: zip B' (diffsFrom cb0 D') := by
      rw [hB, hD]; simp [diffsFrom]
    rw [hL, hRa, hRb, patG_append _ _ hb.pl_nonneg _ hposB _ 0 ha.pl_nonneg hposA, patG_snoc, patG_snoc]
    simp only [patG, Int.add_zero, Int.sub_self, Int.toNat_zero, replicate_zero, nil_append, append_nil, append_assoc, Int.sub_zero]
    congr 1
    have e : cl + cb0 - lastOr 0 C' = (cl - lastOr 0 C') + cb0 := by omega
    rw [e, replicate_toNat_add _ _ _ (by omega) (by omega), append_assoc]

/-- **`IndelMap.__add__` is the map of the concatenated string** (a trailing gap of the left operand
and a leading gap of the right one become one gap), never raises, and the result is well formed -/
theorem add_spec' (a b : IMap) (ha : WF a) (hb : WF b) :
    ∃ r, add a b = .ok r ∧ WF r ∧ abs r = Gapped.concat (abs a) (abs b) := by
  by_cases hm : a.gapPos ≠ [] ∧ b.gapPos ≠ [] ∧ lastD a.gapPos = a.parentLength ∧ b.gapPos.headD 0 = 0
  · exact add_spec_merge a b ha hb hm
  · exact add_spec_nomerge a b ha hb hm

end CogentModel.IndelMap
