import CogentModel.Model.Distance
import CogentModel.Spec.DistanceFormulas
import Mathlib.Tactic.Ring
import Mathlib.Tactic.Linarith
import Mathlib.Algebra.Order.Field.Rat
/-! Helper lemmas for C15 (Props/C15Spec.lean): the model's sums over cogent3 indices 0..3 (T,C,A,G)
equal the spec's sums over nucleotide names, and the model's Laplace determinant equals the Leibniz sum. -/
namespace CogentModel.DistanceFormulas
open CogentModel.Distance

theorem perms4_eq : perms4 =
   [(.A, .C, .G, .T), (.A, .C, .T, .G), (.A, .G, .C, .T), (.A, .G, .T, .C), (.A, .T, .C, .G), (.A, .T, .G, .C),
    (.C, .A, .G, .T), (.C, .A, .T, .G), (.C, .G, .A, .T), (.C, .G, .T, .A), (.C, .T, .A, .G), (.C, .T, .G, .A),
    (.G, .A, .C, .T), (.G, .A, .T, .C), (.G, .C, .A, .T), (.G, .C, .T, .A), (.G, .T, .A, .C), (.G, .T, .C, .A),
    (.T, .A, .C, .G), (.T, .A, .G, .C), (.T, .C, .A, .G), (.T, .C, .G, .A), (.T, .G, .A, .C), (.T, .G, .C, .A)] := by
  decide

theorem n_ofMatrix (m : M4) : n (ofMatrix m) = total m := by
  unfold n sumNuc ofMatrix total rowSum
  simp only [Nuc.idx]
  ring

theorem hamming_ofMatrix (m : M4) : hamming (ofMatrix m) = total m - diagSum m := by
  unfold hamming sumNuc ofMatrix total rowSum diagSum
  simp only [Nuc.idx, reduceCtorEq, if_true, if_false]
  ring

theorem detLeibniz_ofMatrix (f : M4) : detLeibniz (ofMatrix f) = det4 f := by
  unfold detLeibniz
  rw [perms4_eq]
  simp (decide := true) only [List.map_cons, List.map_nil, List.sum_cons, List.sum_nil, sign, Nuc.rank, ofMatrix, Nuc.idx, if_true, if_false]
  unfold det4 det3
  ring

theorem p_ofMatrix (m : M4) : p (ofMatrix m) = (total m - diagSum m) / total m := by
  unfold p; rw [hamming_ofMatrix, n_ofMatrix]

theorem pi_A (m : M4) : pi (ofMatrix m) .A = tnFreq m 2 := by
  unfold pi tnFreq; rw [n_ofMatrix]
  unfold seq1Count seq2Count sumNuc ofMatrix colSum rowSum
  simp only [Nuc.idx]; ring
theorem pi_G (m : M4) : pi (ofMatrix m) .G = tnFreq m 3 := by
  unfold pi tnFreq; rw [n_ofMatrix]
  unfold seq1Count seq2Count sumNuc ofMatrix colSum rowSum
  simp only [Nuc.idx]; ring
theorem pi_C (m : M4) : pi (ofMatrix m) .C = tnFreq m 1 := by
  unfold pi tnFreq; rw [n_ofMatrix]
  unfold seq1Count seq2Count sumNuc ofMatrix colSum rowSum
  simp only [Nuc.idx]; ring
theorem pi_T (m : M4) : pi (ofMatrix m) .T = tnFreq m 0 := by
  unfold pi tnFreq; rw [n_ofMatrix]
  unfold seq1Count seq2Count sumNuc ofMatrix colSum rowSum
  simp only [Nuc.idx]; ring

theorem P1_ofMatrix (m : M4) : P1 (ofMatrix m) = purTs m / total m := by
  unfold P1; rw [n_ofMatrix]; rfl
theorem P2_ofMatrix (m : M4) : P2 (ofMatrix m) = pyrTs m / total m := by
  unfold P2; rw [n_ofMatrix]; rfl
theorem Q_ofMatrix (m : M4) : Q (ofMatrix m) = tvSum m / total m := by
  unfold Q; rw [p_ofMatrix, P1_ofMatrix, P2_ofMatrix]
  unfold purTs pyrTs tvSum total rowSum diagSum; ring

theorem tn93_core (m : M4)
    (h0 : n (ofMatrix m) ≠ 0)
    (hAG : pi (ofMatrix m) .A * pi (ofMatrix m) .G ≠ 0) (hCT : pi (ofMatrix m) .C * pi (ofMatrix m) .T ≠ 0)
    (hR : piR (ofMatrix m) ≠ 0) (hY : piY (ofMatrix m) ≠ 0) :
    tn93Stat m =
      if 0 < tnW1 (ofMatrix m) ∧ 0 < tnW2 (ofMatrix m) ∧ 0 < tnW3 (ofMatrix m) then
        .tn93 (n (ofMatrix m)) (p (ofMatrix m)) (tnK1 (ofMatrix m)) (tnK2 (ofMatrix m)) (tnK3 (ofMatrix m))
          (tnW1 (ofMatrix m)) (tnW2 (ofMatrix m)) (tnW3 (ofMatrix m))
      else .invalid := by
  unfold tn93Stat
  extract_lets tot p' fR pR fY pY purD pyrD tvD c1 c2 c3 t1 t2 t3
  have etot : tot = n (ofMatrix m) := (n_ofMatrix m).symm
  have ep : p' = p (ofMatrix m) := by
    show (purTs m + pyrTs m + tvSum m) / total m = _
    rw [p_ofMatrix]; unfold purTs pyrTs tvSum total rowSum diagSum; ring
  have efR : fR = piR (ofMatrix m) := by
    show tnFreq m 2 + tnFreq m 3 = _; unfold piR; rw [pi_A, pi_G]
  have efY : fY = piY (ofMatrix m) := by
    show tnFreq m 1 + tnFreq m 0 = _; unfold piY; rw [pi_C, pi_T]
  have epR : pR = pi (ofMatrix m) .A * pi (ofMatrix m) .G := by
    show tnFreq m 2 * tnFreq m 3 = _; rw [pi_A, pi_G]
  have epY : pY = pi (ofMatrix m) .C * pi (ofMatrix m) .T := by
    show tnFreq m 1 * tnFreq m 0 = _; rw [pi_C, pi_T]
  have epur : purD = P1 (ofMatrix m) := (P1_ofMatrix m).symm
  have epyr : pyrD = P2 (ofMatrix m) := (P2_ofMatrix m).symm
  have etv : tvD = Q (ofMatrix m) := (Q_ofMatrix m).symm
  have ec1 : c1 = tnK1 (ofMatrix m) := by
    show 2 * pR / fR = _; rw [epR, efR]; unfold tnK1; ring
  have ec2 : c2 = tnK2 (ofMatrix m) := by
    show 2 * pY / fY = _; rw [epY, efY]; unfold tnK2; ring
  have ec3 : c3 = tnK3 (ofMatrix m) := by
    show 2 * (fR * fY - pR * fY / fR - pY * fR / fY) = _; rw [epR, efR, epY, efY]; unfold tnK3; ring
  have et1 : t1 = tnW1 (ofMatrix m) := by
    show 1 - purD / (2 * pR / fR) - tvD / (2 * fR) = _; rw [epR, efR, epur, etv]; unfold tnW1; rw [div_div_eq_mul_div]; ring
  have et2 : t2 = tnW2 (ofMatrix m) := by
    show 1 - pyrD / (2 * pY / fY) - tvD / (2 * fY) = _; rw [epY, efY, epyr, etv]; unfold tnW2; rw [div_div_eq_mul_div]; ring
  have et3 : t3 = tnW3 (ofMatrix m) := by
    show 1 - tvD / (2 * fR * fY) = _; rw [efR, efY, etv]; unfold tnW3; ring
  rw [et1, et2, et3, ec1, ec2, ec3, ep, epR, epY, efR, efY, etot]
  rw [if_neg h0]
  by_cases hd : 0 < tnW1 (ofMatrix m) ∧ 0 < tnW2 (ofMatrix m) ∧ 0 < tnW3 (ofMatrix m)
  · rw [if_pos hd]
    rw [if_neg (by rintro (⟨_, h⟩ | ⟨_, h⟩ | ⟨_, h⟩) <;> linarith [hd.1, hd.2.1, hd.2.2])]
    rw [if_neg (by rintro (h | h | h | h) <;> contradiction)]
  · rw [if_neg hd]
    apply if_pos
    by_cases a : tnW1 (ofMatrix m) ≤ 0
    · exact Or.inl ⟨hAG, a⟩
    by_cases b : tnW2 (ofMatrix m) ≤ 0
    · exact Or.inr (Or.inl ⟨hCT, b⟩)
    by_cases c : tnW3 (ofMatrix m) ≤ 0
    · exact Or.inr (Or.inr ⟨⟨hR, hY⟩, c⟩)
    exact absurd ⟨not_le.mp a, not_le.mp b, not_le.mp c⟩ hd

/-! ### non-negative counts -/

theorem n_nonneg (N : Joint) (h : ∀ x y, 0 ≤ N x y) : 0 ≤ n N := by
  unfold n sumNuc
  repeat (first | apply add_nonneg | apply h)

theorem pi_nonneg (N : Joint) (h : ∀ x y, 0 ≤ N x y) (x : Nuc) : 0 ≤ pi N x := by
  unfold pi
  apply div_nonneg
  · unfold seq1Count seq2Count sumNuc
    repeat (first | apply add_nonneg | apply h)
  · exact mul_nonneg (by norm_num) (n_nonneg N h)

theorem tn93_of_nonneg (m : M4) (hN : ∀ x y, 0 ≤ ofMatrix m x y)
    (h0 : n (ofMatrix m) ≠ 0)
    (hA : pi (ofMatrix m) .A ≠ 0) (hC : pi (ofMatrix m) .C ≠ 0)
    (hG : pi (ofMatrix m) .G ≠ 0) (hT : pi (ofMatrix m) .T ≠ 0) :
    tn93Stat m =
      if 0 < tnW1 (ofMatrix m) ∧ 0 < tnW2 (ofMatrix m) ∧ 0 < tnW3 (ofMatrix m) then
        .tn93 (n (ofMatrix m)) (p (ofMatrix m)) (tnK1 (ofMatrix m)) (tnK2 (ofMatrix m)) (tnK3 (ofMatrix m))
          (tnW1 (ofMatrix m)) (tnW2 (ofMatrix m)) (tnW3 (ofMatrix m))
      else .invalid := by
  have pA := lt_of_le_of_ne (pi_nonneg _ hN .A) (Ne.symm hA)
  have pC := lt_of_le_of_ne (pi_nonneg _ hN .C) (Ne.symm hC)
  have pG := lt_of_le_of_ne (pi_nonneg _ hN .G) (Ne.symm hG)
  have pT := lt_of_le_of_ne (pi_nonneg _ hN .T) (Ne.symm hT)
  apply tn93_core m h0 (mul_ne_zero hA hG) (mul_ne_zero hC hT)
  · unfold piR; exact ne_of_gt (add_pos pA pG)
  · unfold piY; exact ne_of_gt (add_pos pC pT)

/-! ### paralinear / LogDet -/

theorem pseudo_ofMatrix (m : M4) : pseudo (ofMatrix m) = ofMatrix (halfDiag m) := by
  funext x y
  cases x <;> cases y <;> simp [pseudo, ofMatrix, halfDiag, Nuc.idx]

theorem freqTable_ofMatrix (m : M4) : freqTable (ofMatrix m) = ofMatrix (freqMatrix m) := by
  funext x y
  unfold freqTable
  rw [pseudo_ofMatrix, n_ofMatrix]
  rfl

theorem fx_ofMatrix (f : M4) (x : Nuc) : fx (ofMatrix f) x = rowSum f x.idx := by
  unfold fx sumNuc ofMatrix rowSum
  simp only [Nuc.idx]; ring

theorem fy_ofMatrix (f : M4) (x : Nuc) : fy (ofMatrix f) x = colSum f x.idx := by
  unfold fy sumNuc ofMatrix colSum
  simp only [Nuc.idx]; ring

theorem margProd_ofMatrix (f : M4) : margProd (ofMatrix f) = freqProd f := by
  unfold margProd prodNuc freqProd
  simp only [fx_ofMatrix, fy_ofMatrix, Nuc.idx]; ring

theorem tkCoeff_ofMatrix (f : M4) : tkCoeff (ofMatrix f) = (freqSqSum f / 4 - 1) / (4 - 1) := by
  unfold tkCoeff avgFreq sumNuc freqSqSum
  simp only [fx_ofMatrix, fy_ofMatrix, Nuc.idx]; ring

theorem logdetCommon_eq (m : M4) (k : Rat → Rat → M4 → Stat) :
    logdetCommon m k =
      if n (ofMatrix m) = 0 ∨ hamming (ofMatrix m) = 0 ∨ detLeibniz (freqTable (ofMatrix m)) ≤ 0 then .invalid
      else k (n (ofMatrix m)) (p (ofMatrix m)) (freqMatrix m) := by
  unfold logdetCommon
  extract_lets tot diffs f
  have etot : tot = n (ofMatrix m) := (n_ofMatrix m).symm
  have ediffs : diffs = hamming (ofMatrix m) := (hamming_ofMatrix m).symm
  have edet : det4 f = detLeibniz (freqTable (ofMatrix m)) := by
    rw [freqTable_ofMatrix, detLeibniz_ofMatrix]
  have ep : diffs / tot = p (ofMatrix m) := by rw [ediffs, etot]; rfl
  rw [ep, edet, ediffs, etot]
  by_cases h1 : n (ofMatrix m) = 0
  · rw [if_pos h1, if_pos (Or.inl h1)]
  rw [if_neg h1]
  by_cases h2 : hamming (ofMatrix m) = 0
  · rw [if_pos h2, if_pos (Or.inr (Or.inl h2))]
  rw [if_neg h2]
  by_cases h3 : detLeibniz (freqTable (ofMatrix m)) ≤ 0
  · rw [if_pos h3, if_pos (Or.inr (Or.inr h3))]
  rw [if_neg h3, if_neg (by rintro (h | h | h) <;> contradiction)]

/-! ### concrete count matrices (cogent3 index order T,C,A,G) for the satisfiability examples -/

/-- a typical pair: 60 columns, 16 differences -/
def exCounts : M4 := fun i j =>
  (([[10, 1, 2, 0], [2, 12, 0, 1], [1, 0, 7, 3], [0, 2, 4, 15]] : List (List Rat)).getD i []).getD j 0

/-- a saturated pair: every cell 1, p = 3/4 -/
def exSaturated : M4 := fun i j => if i < 4 ∧ j < 4 then 1 else 0

/-- no canonical column at all -/
def exEmpty : M4 := fun _ _ => 0

/-- identical sequences -/
def exIdentical : M4 := fun i j => if i = j ∧ i < 4 then 5 else 0

end CogentModel.DistanceFormulas
