import CogentModel.Proofs.NJLemmas
import Mathlib.Data.List.Perm.Basic
import Mathlib.Data.List.Nodup
/-! NJ: the tips of the returned tree are exactly the labels, each once. -/
namespace CogentModel.NJ

theorem tips_bin_eq (l1 l2 : Rat) (t1 t2 : T) : (T.bin l1 t1 l2 t2).tips = t1.tips ++ t2.tips := by
  simp [T.tips, T.depths, List.map_append, List.map_map, Function.comp_def]

/-- how often label `x` occurs among the tips of node `a` -/
def tcount (nodes : List T) (x a : Nat) : Rat := (((nodes.getD a default).tips.count x : Nat) : Rat)

/-- every label `< n` occurs exactly once among the tips of the `L` current nodes, nothing else occurs -/
def TipsOnce (n L : Nat) (nodes : List T) : Prop := ∀ x, sumTo L (tcount nodes x) = if x < n then 1 else 0

theorem sumTo_update (L p : Nat) (g h : Nat → Rat) (hp : p < L) (hgh : ∀ k, k < L → k ≠ p → g k = h k) :
    sumTo L g = sumTo L h + (g p - h p) := by
  have := sumTo_one L p (fun k => g k - h k) hp (fun k hk hkp => by rw [hgh k hk hkp]; ring)
  rw [sumTo_sub] at this
  linarith

theorem sumTo_src (L j : Nat) (hj : j < L) (h : Nat → Rat) :
    sumTo (L - 1) (fun a => h (src L j a)) = sumTo L h - h j := by
  obtain ⟨M, rfl⟩ : ∃ M, L = M + 1 := ⟨L - 1, by omega⟩
  show sumTo M (fun a => h (src (M + 1) j a)) = sumTo M h + h M - h j
  by_cases hjM : j = M
  · subst hjM
    rw [sumTo_congr j _ h (fun a ha => by unfold src; rw [if_neg (by omega)])]; ring
  · rw [sumTo_update M j (fun a => h (src (M + 1) j a)) h (by omega)
      (fun k hk hkj => by show h (src (M + 1) j k) = h k; unfold src; rw [if_neg hkj])]
    show sumTo M h + (h (src (M + 1) j j) - h j) = _
    unfold src; rw [if_pos rfl]; simp only [Nat.add_sub_cancel]; ring

theorem join_tipsOnce (n : Nat) (pt : PT) (i j : Nat) (hi : i < pt.L) (hj : j < pt.L) (hij : i ≠ j)
    (h : TipsOnce n pt.L pt.nodes) : TipsOnce n (join pt i j).L (join pt i j).nodes := by
  intro x
  rw [← h x]
  show sumTo (pt.L - 1) (tcount (joinNodes pt.nodes pt.L i j _) x) = _
  -- the count function of the new node list, read through `src`
  have hfun : ∀ a, a < pt.L - 1 → tcount (joinNodes pt.nodes pt.L i j
        (T.bin (leftLen pt.d pt.L i j) (pt.nodes.getD i default) (rightLen pt.d pt.L i j) (pt.nodes.getD j default))) x a
      = (fun y => if y = i then tcount pt.nodes x i + tcount pt.nodes x j else tcount pt.nodes x y) (src pt.L j a) := by
    intro a ha
    unfold tcount
    rw [joinNodes_getD _ _ _ _ _ _ ha]
    by_cases hs : src pt.L j a = i
    · simp only [hs, if_true]
      rw [tips_bin_eq, List.count_append]; push_cast; ring
    · simp only [hs, if_false]
  rw [sumTo_congr _ _ _ hfun]
  refine (sumTo_src pt.L j hj
    (fun y => if y = i then tcount pt.nodes x i + tcount pt.nodes x j else tcount pt.nodes x y)).trans ?_
  rw [sumTo_update pt.L i (fun y => if y = i then tcount pt.nodes x i + tcount pt.nodes x j else tcount pt.nodes x y)
    (tcount pt.nodes x) hi (fun k _ hki => by simp only [hki, if_false])]
  simp only [if_true, if_neg (Ne.symm hij)]
  ring

theorem njLoop_tipsOnce (n : Nat) (sel : PT → Nat × Nat)
    (hsel : ∀ pt : PT, 3 < pt.L → (sel pt).1 < pt.L ∧ (sel pt).2 < pt.L ∧ (sel pt).1 ≠ (sel pt).2) :
    ∀ (k : Nat) (pt : PT), TipsOnce n pt.L pt.nodes → TipsOnce n (njLoop sel k pt).L (njLoop sel k pt).nodes := by
  intro k
  induction k with
  | zero => intro pt h; exact h
  | succ k ih =>
    intro pt h
    unfold njLoop
    by_cases h3 : pt.L ≤ 3
    · rw [if_pos h3]; exact h
    · rw [if_neg h3]
      obtain ⟨h1, h2, h3'⟩ := hsel pt (by omega)
      exact ih _ (join_tipsOnce n pt _ _ h1 h2 h3' h)

theorem star_tipsOnce (n : Nat) (d : Mat) : TipsOnce n (star n d).L (star n d).nodes := by
  intro x
  show sumTo n (tcount ((List.range n).map T.tip) x) = _
  have hg : ∀ a, a < n → tcount ((List.range n).map T.tip) x a = if a = x then 1 else 0 := by
    intro a ha
    unfold tcount
    have : ((List.range n).map T.tip).getD a default = T.tip a := by simp [List.getD_eq_getElem?_getD, ha]
    rw [this]
    by_cases hax : a = x
    · subst hax; simp [T.tips, T.depths]
    · simp [T.tips, T.depths, hax]
  rw [sumTo_congr n _ _ hg]
  by_cases hx : x < n
  · rw [if_pos hx, sumTo_one n x _ hx (fun k _ hkx => by simp [hkx])]; simp
  · rw [if_neg hx]
    apply sumTo_zero
    intro k hk
    have hkx : k ≠ x := by omega
    simp [hkx]

/-- the tips of the tree returned by `finish`, left to right -/
def rootTips (r : Root) : List Nat := r.flatMap (fun c => c.2.tips)

theorem finish_tips_perm (n : Nat) (pt : PT) (hL : pt.L = 3) (h : TipsOnce n pt.L pt.nodes) :
    (rootTips (finish pt)).Perm (List.range n) := by
  rw [List.perm_iff_count]
  intro x
  have hx := h x
  rw [hL] at hx
  have hroot : rootTips (finish pt) = (pt.nodes.getD 0 default).tips ++ ((pt.nodes.getD 1 default).tips ++
      ((pt.nodes.getD 2 default).tips ++ [])) := rfl
  rw [hroot]
  simp only [List.append_nil, List.count_append]
  simp only [sumTo, tcount] at hx
  have hr : List.count x (List.range n) = if x < n then 1 else 0 := by
    by_cases hxn : x < n
    · rw [if_pos hxn]; exact List.count_eq_one_of_mem List.nodup_range (List.mem_range.2 hxn)
    · rw [if_neg hxn]; exact List.count_eq_zero_of_not_mem (by simpa using hxn)
  rw [hr]
  have hsum : (((List.count x (pt.nodes.getD 0 default).tips + List.count x (pt.nodes.getD 1 default).tips +
      List.count x (pt.nodes.getD 2 default).tips : Nat)) : Rat) = if x < n then 1 else 0 := by
    push_cast; linarith
  by_cases hxn : x < n
  · rw [if_pos hxn] at hsum ⊢
    have : List.count x (pt.nodes.getD 0 default).tips + List.count x (pt.nodes.getD 1 default).tips +
      List.count x (pt.nodes.getD 2 default).tips = 1 := by exact_mod_cast hsum
    omega
  · rw [if_neg hxn] at hsum ⊢
    have : List.count x (pt.nodes.getD 0 default).tips + List.count x (pt.nodes.getD 1 default).tips +
      List.count x (pt.nodes.getD 2 default).tips = 0 := by exact_mod_cast hsum
    omega
end CogentModel.NJ
