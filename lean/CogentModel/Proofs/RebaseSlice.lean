import CogentModel.Model.RichDict
import CogentModel.Proofs.ViewInv
/-! Helper lemmas for C10: Python slicing of a truncated parent.
A slice `xs[a:b:c]` is the arithmetic progression `a, a+c, …` mapped through `xs`;
truncating the parent to `xs[lo:hi]` shifts every index by `lo`. -/
namespace CogentModel.RichDict
open CogentModel.View CogentModel.PySlice

theorem trunc_length {α} [Inhabited α] (xs : List α) (a b : Int) (h0 : 0 ≤ a) (hab : a ≤ b) (hb : b ≤ xs.length) :
    (slice xs (some a) (some b) 1).length = (b - a).toNat := by
  simp only [slice, sliceIdx, indices, List.length_map, rangeList, List.length_range, rangeLen]
  have h1 : ¬ a < 0 := by omega
  have h2 : ¬ b < 0 := by omega
  have h3 : min a (xs.length : Int) = a := by omega
  have h4 : min b (xs.length : Int) = b := by omega
  simp only [h1, h2, h3, h4, if_false, show (1:Int) > 0 by omega, if_true, Int.ediv_one]
  split <;> omega

theorem trunc_get {α} [Inhabited α] (xs : List α) (a b : Int) (h0 : 0 ≤ a) (hab : a ≤ b) (hb : b ≤ xs.length)
    (j : Int) (hj0 : 0 ≤ j) (hj : j < b - a) :
    (slice xs (some a) (some b) 1)[j.toNat]! = xs[(a + j).toNat]! := by
  simp only [slice, sliceIdx, indices, rangeList, rangeLen]
  have h1 : ¬ a < 0 := by omega
  have h2 : ¬ b < 0 := by omega
  have h3 : min a (xs.length : Int) = a := by omega
  have h4 : min b (xs.length : Int) = b := by omega
  simp only [h1, h2, h3, h4, if_false, show (1:Int) > 0 by omega, if_true, Int.ediv_one]
  rw [List.getElem!_eq_getElem?_getD, List.getElem?_map, List.getElem?_map, List.getElem?_range]
  · simp
    congr 2
    omega
  · split <;> omega

/-- two arithmetic progressions of the same length select equal lists when they agree pointwise -/
theorem prog_congr {α} [Inhabited α] (xs ys : List α) (a b c a' b' c' : Int)
    (hL : rangeLen a b c = rangeLen a' b' c')
    (hpt : ∀ i : Nat, i < rangeLen a b c → xs[(a + (i:Int) * c).toNat]! = ys[(a' + (i:Int) * c').toNat]!) :
    (rangeList a b c).map (fun i => xs[i.toNat]!) = (rangeList a' b' c').map (fun i => ys[i.toNat]!) := by
  simp only [rangeList, List.map_map, ← hL]
  apply List.map_congr_left
  intro i hi
  simp only [List.mem_range] at hi
  simpa using hpt i hi

/-- elements below the length of a positive-step progression stay below the bound -/
theorem prog_pos_bound (m c : Int) (hc : 0 < c) (hm : 0 < m) (i : Nat) (hi : i < rangeLen 0 m c) :
    (i : Int) * c < m ∧ 0 ≤ (i : Int) * c := by
  simp only [rangeLen, hc, if_true, hm] at hi
  have hq : 0 ≤ (m - 0 - 1) / c := Int.ediv_nonneg (by omega) (by omega)
  have hi' : (i : Int) ≤ (m - 0 - 1) / c := by omega
  have h1 : (i : Int) * c ≤ (m - 0 - 1) / c * c := Int.mul_le_mul_of_nonneg_right hi' (by omega)
  have h2 : (m - 0 - 1) / c * c ≤ m - 0 - 1 := Int.ediv_mul_le _ (by omega)
  have h3 : 0 ≤ (i : Int) * c := Int.mul_nonneg (by omega) (by omega)
  omega

theorem fwd_rebase {α} [Inhabited α] (parent : List α) (s e c : Int)
    (h0 : 0 ≤ s) (hse : s < e) (he : e ≤ parent.length) (hc : 0 < c) :
    slice (slice parent (some s) (some e) 1) (some 0) (some (e - s)) c = slice parent (some s) (some e) c := by
  have hlen := trunc_length parent s e h0 (by omega) he
  generalize hp : slice parent (some s) (some e) 1 = p' at *
  have hget := fun j h1 h2 => trunc_get parent s e h0 (by omega) he j h1 h2
  rw [hp] at hget
  unfold slice sliceIdx indices
  have hl' : (p'.length : Int) = e - s := by omega
  have e1 : ¬ e - s < 0 := by omega
  have e2 : ¬ e < 0 := by omega
  have e3 : ¬ s < 0 := by omega
  simp only [gt_iff_lt, hc, if_true, e1, e2, e3, if_false, hl', Int.lt_irrefl]
  have m1 : min (0:Int) (e - s) = 0 := by omega
  have m2 : min (e - s) (e - s) = e - s := by omega
  have m3 : min s (parent.length : Int) = s := by omega
  have m4 : min e (parent.length : Int) = e := by omega
  simp only [m1, m2, m3, m4]
  apply prog_congr
  · simp only [rangeLen, hc, if_true]
    have : 0 < e - s := by omega
    simp only [this, hse, if_true]
    congr 3
    omega
  · intro i hi
    have hb := prog_pos_bound (e - s) c hc (by omega) i hi
    rw [Int.zero_add, hget _ hb.2 hb.1]
theorem prog_neg_bound (m c : Int) (hc : c < 0) (hm : 0 < m) (i : Nat) (hi : i < rangeLen (m - 1) (-1) c) :
    0 ≤ m - 1 + (i : Int) * c ∧ m - 1 + (i : Int) * c < m := by
  have hc' : ¬ c > 0 := by omega
  have hm' : (-1 : Int) < m - 1 := by omega
  simp only [rangeLen, hc', if_false, hc, if_true, hm'] at hi
  have hq : 0 ≤ (m - 1 - -1 - 1) / (-c) := Int.ediv_nonneg (by omega) (by omega)
  have hi' : (i : Int) ≤ (m - 1 - -1 - 1) / (-c) := by omega
  have h1 : (i : Int) * (-c) ≤ (m - 1 - -1 - 1) / (-c) * (-c) := Int.mul_le_mul_of_nonneg_right hi' (by omega)
  have h2 : (m - 1 - -1 - 1) / (-c) * (-c) ≤ m - 1 - -1 - 1 := Int.ediv_mul_le _ (by omega)
  have h3 : 0 ≤ (i : Int) * (-c) := Int.mul_nonneg (by omega) (by omega)
  have h4 : (i : Int) * (-c) = - ((i : Int) * c) := by rw [Int.mul_neg]
  omega

theorem rev_rebase {α} [Inhabited α] (parent : List α) (s e c : Int)
    (he : -(parent.length : Int) - 1 ≤ e) (hes : e ≤ s) (hs : s ≤ -1) (hc : c < 0) :
    slice (slice parent (some (e + (parent.length + 1))) (some (s + (parent.length + 1))) 1)
        (some (-1)) (some (-(s - e) - 1)) c
      = slice parent (some s) (some e) c := by
  have hlen := trunc_length parent (e + (parent.length + 1)) (s + (parent.length + 1)) (by omega) (by omega) (by omega)
  have hget := fun j h1 h2 => trunc_get parent (e + (parent.length + 1)) (s + (parent.length + 1)) (by omega) (by omega) (by omega) j h1 h2
  generalize slice parent (some (e + (parent.length + 1))) (some (s + (parent.length + 1))) 1 = p' at *
  have hl' : (p'.length : Int) = s - e := by omega
  unfold slice sliceIdx indices
  have hc' : ¬ c > 0 := by omega
  have e1 : (-1 : Int) < 0 := by omega
  have e2 : -(s - e) - 1 < 0 := by omega
  have e3 : s < 0 := by omega
  have e4 : e < 0 := by omega
  simp only [hc', if_false, e1, e2, e3, e4, if_true, hl']
  have m1 : max (-1 + (s - e)) (-1 : Int) = s - e - 1 := by omega
  have m2 : max (-(s - e) - 1 + (s - e)) (-1 : Int) = -1 := by omega
  have m3 : max (s + (parent.length : Int)) (-1) = s + parent.length := by omega
  have m4 : max (e + (parent.length : Int)) (-1) = e + parent.length := by omega
  simp only [m1, m2, m3, m4]
  by_cases hm : s = e
  · subst hm
    simp [rangeList, rangeLen, hc', hc]
  · apply prog_congr
    · simp only [rangeLen, hc', if_false, hc, if_true]
      have t1 : (-1 : Int) < s - e - 1 := by omega
      have t2 : e + (parent.length : Int) < s + parent.length := by omega
      simp only [t1, t2, if_true]
      congr 3
      omega
    · intro i hi
      have hb := prog_neg_bound (s - e) c hc (by omega) i hi
      rw [hget _ hb.1 (by omega)]
      congr 2
      omega
end CogentModel.RichDict
