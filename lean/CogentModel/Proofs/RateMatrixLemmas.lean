import CogentModel.Model.RateMatrix
import CogentModel.Model.Expm
import Mathlib.Algebra.BigOperators.Ring.Finset
import Mathlib.Algebra.BigOperators.Field
import Mathlib.Algebra.Order.BigOperators.Ring.Finset
import Mathlib.Algebra.Order.Field.Basic
import Mathlib.Tactic.Ring
import Mathlib.Tactic.FieldSimp
import Mathlib.Tactic.Linarith
/-! C05 helper lemmas: bridge between the array model and `Finset` sums, and the algebra of `finishQ`. -/

namespace CogentModel.RateMatrix
open Finset

section
variable {α : Type*}

theorem vget_vtab [Zero α] {n : Nat} (f : Nat → α) {i : Nat} (hi : i < n) : vget (vtab n f) i = f i := by
  simp [vget, vtab, Array.getD, hi]

theorem size_vtab {n : Nat} (f : Nat → α) : (vtab n f).size = n := by simp [vtab]

theorem mget_tab [Zero α] {n : Nat} (f : Nat → Nat → α) {i j : Nat} (hi : i < n) (hj : j < n) :
    mget (tab n f) i j = f i j := by
  simp [mget, tab, Array.getD, hi, hj]

theorem bget_tab {n : Nat} (f : Nat → Nat → Bool) {i j : Nat} (hi : i < n) (hj : j < n) :
    bget (tab n f) i j = f i j := by
  simp [bget, tab, Array.getD, hi, hj]

theorem sumTo_eq_sum [AddCommMonoid α] (n : Nat) (f : Nat → α) : sumTo n f = ∑ k ∈ range n, f k := by
  induction n with
  | zero => simp [sumTo]
  | succ n ih => rw [sumTo, ih, Finset.sum_range_succ]

theorem prodTo_eq_prod [CommMonoid α] (n : Nat) (f : Nat → α) : prodTo n f = ∏ k ∈ range n, f k := by
  induction n with
  | zero => simp [prodTo]
  | succ n ih => rw [prodTo, ih, Finset.prod_range_succ]

theorem sumTo_congr [AddCommMonoid α] {n : Nat} {f g : Nat → α} (h : ∀ k, k < n → f k = g k) : sumTo n f = sumTo n g := by
  rw [sumTo_eq_sum, sumTo_eq_sum]
  exact Finset.sum_congr rfl fun k hk => h k (Finset.mem_range.mp hk)
end


section fieldlemmas
variable {K : Type*} [Field K]

/-- entries of `finishQ` -/
theorem mget_finishQ (n : Nat) (R : Mat K) (pi : Vec K) {i j : Nat} (hi : i < n) (hj : j < n) :
    mget (finishQ n R pi) i j =
      (mget R i j - if i = j then ∑ k ∈ range n, mget R i k else 0) *
        (1 / ∑ k ∈ range n, vget pi k * ∑ l ∈ range n, mget R k l) := by
  unfold finishQ rowTotals
  simp only []
  rw [mget_tab _ hi hj, mget_tab _ hi hj, vget_vtab _ hi, sumTo_eq_sum, sumTo_eq_sum]
  congr 1
  · split <;> simp
  · congr 1
    apply Finset.sum_congr rfl
    intro k hk
    rw [vget_vtab _ (Finset.mem_range.mp hk), sumTo_eq_sum]

theorem finishQ_rowsum_zero (n : Nat) (R : Mat K) (pi : Vec K) {i : Nat} (hi : i < n) :
    sumTo n (fun j => mget (finishQ n R pi) i j) = 0 := by
  rw [sumTo_eq_sum]
  rw [Finset.sum_congr rfl fun j hj => mget_finishQ n R pi hi (Finset.mem_range.mp hj)]
  rw [← Finset.sum_mul, Finset.sum_sub_distrib, Finset.sum_ite_eq, if_pos (Finset.mem_range.mpr hi), sub_self, zero_mul]

theorem finishQ_calibrated (n : Nat) (R : Mat K) (pi : Vec K) (hdiag : ∀ i, i < n → mget R i i = 0)
    (hnorm : (∑ k ∈ range n, vget pi k * ∑ l ∈ range n, mget R k l) ≠ 0) :
    - sumTo n (fun i => vget pi i * mget (finishQ n R pi) i i) = 1 := by
  rw [sumTo_eq_sum]
  rw [Finset.sum_congr rfl fun i hi => by
    rw [mget_finishQ n R pi (Finset.mem_range.mp hi) (Finset.mem_range.mp hi), hdiag i (Finset.mem_range.mp hi), if_pos rfl, zero_sub]]
  simp only [neg_mul, mul_neg, Finset.sum_neg_distrib, neg_neg]
  rw [Finset.sum_congr rfl fun i _ => (mul_assoc _ _ _).symm, ← Finset.sum_mul]
  field_simp
end fieldlemmas

section more
variable {K : Type*} [Field K]

/-- un-normalised flow balance per state ⇒ `π Q = 0` -/
theorem finishQ_stationary (n : Nat) (R : Mat K) (pi : Vec K)
    (hbal : ∀ j, j < n → ∑ i ∈ range n, vget pi i * mget R i j = vget pi j * ∑ k ∈ range n, mget R j k)
    {j : Nat} (hj : j < n) :
    sumTo n (fun i => vget pi i * mget (finishQ n R pi) i j) = 0 := by
  rw [sumTo_eq_sum]
  rw [Finset.sum_congr rfl fun i hi => by
    rw [mget_finishQ n R pi (Finset.mem_range.mp hi) hj, ← mul_assoc, mul_sub]]
  rw [← Finset.sum_mul, Finset.sum_sub_distrib, hbal j hj]
  have : ∑ x ∈ range n, vget pi x * (if x = j then ∑ k ∈ range n, mget R x k else 0)
      = vget pi j * ∑ k ∈ range n, mget R j k := by
    rw [Finset.sum_eq_single j]
    · simp
    · intro b _ hb; simp [hb]
    · intro h; exact absurd (Finset.mem_range.mpr hj) h
  rw [this, sub_self, zero_mul]

/-- detailed balance of the un-normalised rates ⇒ detailed balance of `Q` -/
theorem finishQ_detailed_balance (n : Nat) (R : Mat K) (pi : Vec K)
    (hdb : ∀ i j, i < n → j < n → vget pi i * mget R i j = vget pi j * mget R j i)
    {i j : Nat} (hi : i < n) (hj : j < n) :
    vget pi i * mget (finishQ n R pi) i j = vget pi j * mget (finishQ n R pi) j i := by
  rw [mget_finishQ n R pi hi hj, mget_finishQ n R pi hj hi]
  by_cases h : i = j
  · subst h; rfl
  · rw [if_neg h, if_neg (Ne.symm h), sub_zero, sub_zero, ← mul_assoc, ← mul_assoc, hdb i j hi hj]

/-- detailed balance ⇒ flow balance -/
theorem balance_of_detailed (n : Nat) (R : Mat K) (pi : Vec K)
    (hdb : ∀ i j, i < n → j < n → vget pi i * mget R i j = vget pi j * mget R j i) :
    ∀ j, j < n → ∑ i ∈ range n, vget pi i * mget R i j = vget pi j * ∑ k ∈ range n, mget R j k := by
  intro j hj
  rw [Finset.mul_sum]
  exact Finset.sum_congr rfl fun i hi => hdb i j (Finset.mem_range.mp hi) hj

end more

section ordered
variable {K : Type*} [Field K] [LinearOrder K] [IsStrictOrderedRing K]

theorem finishQ_offdiag_nonneg (n : Nat) (R : Mat K) (pi : Vec K)
    (hR : ∀ i j, i < n → j < n → 0 ≤ mget R i j) (hpi : ∀ i, i < n → 0 ≤ vget pi i)
    {i j : Nat} (hi : i < n) (hj : j < n) (hij : i ≠ j) : 0 ≤ mget (finishQ n R pi) i j := by
  rw [mget_finishQ n R pi hi hj, if_neg hij, sub_zero]
  apply mul_nonneg (hR i j hi hj)
  apply div_nonneg zero_le_one
  apply Finset.sum_nonneg
  intro k hk
  apply mul_nonneg (hpi k (Finset.mem_range.mp hk))
  exact Finset.sum_nonneg fun l hl => hR k l (Finset.mem_range.mp hk) (Finset.mem_range.mp hl)

theorem finishQ_diag_nonpos (n : Nat) (R : Mat K) (pi : Vec K)
    (hR : ∀ i j, i < n → j < n → 0 ≤ mget R i j) (hpi : ∀ i, i < n → 0 ≤ vget pi i)
    (hdiag : ∀ i, i < n → mget R i i = 0)
    {i : Nat} (hi : i < n) : mget (finishQ n R pi) i i ≤ 0 := by
  rw [mget_finishQ n R pi hi hi, if_pos rfl, hdiag i hi, zero_sub]
  apply mul_nonpos_of_nonpos_of_nonneg
  · exact neg_nonpos.mpr (Finset.sum_nonneg fun l hl => hR i l hi (Finset.mem_range.mp hl))
  · apply div_nonneg zero_le_one
    apply Finset.sum_nonneg
    intro k hk
    apply mul_nonneg (hpi k (Finset.mem_range.mp hk))
    exact Finset.sum_nonneg fun l hl => hR k l (Finset.mem_range.mp hk) (Finset.mem_range.mp hl)
end ordered

section exch
variable {K : Type*} [Field K] [LinearOrder K] [IsStrictOrderedRing K]

theorem applyPreds_nonneg (n : Nat) (preds : List (List (Nat × Nat))) :
    ∀ (R : Mat K) (params : List K), (∀ i j, i < n → j < n → 0 ≤ mget R i j) → (∀ p ∈ params, 0 ≤ p) →
      ∀ i j, i < n → j < n → 0 ≤ mget (applyPreds n R preds params) i j := by
  induction preds with
  | nil => intro R params hR _ i j hi hj; simpa [applyPreds] using hR i j hi hj
  | cons idx idxs ih =>
    intro R params hR hp i j hi hj
    cases params with
    | nil => simpa [applyPreds] using hR i j hi hj
    | cons p ps =>
      rw [applyPreds]
      apply ih _ ps _ (fun q hq => hp q (List.mem_cons_of_mem _ hq)) i j hi hj
      intro a b ha hb
      unfold applyPred
      rw [mget_tab _ ha hb]
      split
      · exact mul_nonneg (hR a b ha hb) (hp p (List.mem_cons_self))
      · exact hR a b ha hb

theorem exchParametric_nonneg (n : Nat) (mask : Mat K) (preds : List (List (Nat × Nat))) (params : List K) (R : Mat K)
    (h : exchParametric n mask preds params = some R)
    (hm : ∀ i j, i < n → j < n → 0 ≤ mget mask i j) (hp : ∀ p ∈ params, 0 ≤ p) :
    ∀ i j, i < n → j < n → 0 ≤ mget R i j := by
  unfold exchParametric at h
  split at h
  · injection h with h
    subst h
    apply applyPreds_nonneg n preds _ params _ hp
    intro i j hi hj
    rw [mget_tab _ hi hj]; exact hm i j hi hj
  · exact absurd h (by simp)

end exch

section exch2
variable {K : Type*} [Field K]

/-- predicates never touch the diagonal when the mask has a zero diagonal -/
theorem applyPreds_diag (n : Nat) (preds : List (List (Nat × Nat))) :
    ∀ (R : Mat K) (params : List K), (∀ i, i < n → mget R i i = 0) →
      ∀ i, i < n → mget (applyPreds n R preds params) i i = 0 := by
  induction preds with
  | nil => intro R params hR i hi; simpa [applyPreds] using hR i hi
  | cons idx idxs ih =>
    intro R params hR i hi
    cases params with
    | nil => simpa [applyPreds] using hR i hi
    | cons p ps =>
      rw [applyPreds]
      apply ih _ ps _ i hi
      intro a ha
      unfold applyPred
      rw [mget_tab _ ha ha, hR a ha]
      split <;> simp

theorem applyPreds_symm (n : Nat) (preds : List (List (Nat × Nat)))
    (hsym : ∀ idx ∈ preds, ∀ i j, idx.contains (i, j) = idx.contains (j, i)) :
    ∀ (R : Mat K) (params : List K), (∀ i j, i < n → j < n → mget R i j = mget R j i) →
      ∀ i j, i < n → j < n → mget (applyPreds n R preds params) i j = mget (applyPreds n R preds params) j i := by
  induction preds with
  | nil => intro R params hR i j hi hj; simpa [applyPreds] using hR i j hi hj
  | cons idx idxs ih =>
    intro R params hR i j hi hj
    cases params with
    | nil => simpa [applyPreds] using hR i j hi hj
    | cons p ps =>
      rw [applyPreds]
      apply ih (fun x hx => hsym x (List.mem_cons_of_mem _ hx)) _ ps _ i j hi hj
      intro a b ha hb
      unfold applyPred
      rw [mget_tab _ ha hb, mget_tab _ hb ha, hsym idx (List.mem_cons_self) a b, hR a b ha hb]
end exch2

section rates
variable {K : Type*} [Field K]

theorem ratesWeighted_mean_one (w v : Vec K)
    (h : (∑ b ∈ range v.size, vget w b * vget v b) ≠ 0) :
    sumTo v.size (fun b => vget w b * vget (ratesWeighted w v) b) = 1 := by
  rw [sumTo_eq_sum]
  unfold ratesWeighted
  simp only []
  rw [Finset.sum_congr rfl fun b hb => by rw [vget_vtab _ (Finset.mem_range.mp hb), sumTo_eq_sum, ← mul_div_assoc]]
  rw [← Finset.sum_div]
  exact div_self h
end rates
end CogentModel.RateMatrix
