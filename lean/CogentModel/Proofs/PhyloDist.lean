import CogentModel.Proofs.PhyloBasic
set_option linter.unusedSimpArgs false
set_option linter.unusedVariables false
/-! C09: the mirror of `PhyloNode._get_distances` (post-order accumulation of root-ward tip
distances, cross products between children, dict with last-write-wins) computes the
split-based specification distance. -/
namespace CogentModel.Phylo
open PTree
variable {K : Type}

/-! ### sides of splits are tips of the tree -/
mutual
theorem sides_subset : ∀ (t : PTree K), ∀ s ∈ splits t, ∀ x ∈ s.side, x ∈ tips t
  | .node n l cs => by
    intro s hs x hx
    simp only [splits] at hs
    cases cs with
    | nil => simp [splitsL] at hs
    | cons c cs =>
      rw [tips_node_ne_nil _ _ _ (by simp)]
      exact sidesL_subset (c :: cs) s hs x hx
theorem sidesL_subset : ∀ (cs : List (PTree K)), ∀ s ∈ splitsL cs, ∀ x ∈ s.side, x ∈ tipsL cs
  | [] => by intro s hs; simp [splitsL] at hs
  | c :: cs => by
    intro s hs x hx
    simp only [splitsL, List.cons_append, List.mem_cons, List.mem_append] at hs
    simp only [tipsL, List.mem_append]
    rcases hs with rfl | hs | hs
    · exact Or.inl hx
    · exact Or.inl (sides_subset c s hs x hx)
    · exact Or.inr (sidesL_subset cs s hs x hx)
end

theorem lookupLast_of_all {α β : Type} [DecidableEq α] (k : α) (w : β) :
    ∀ (l : List (α × β)), (∃ v, (k, v) ∈ l) → (∀ v, (k, v) ∈ l → v = w) → lookupLast k l = some w
  | [], h, _ => by obtain ⟨v, hv⟩ := h; simp at hv
  | (k', v') :: rest, hex, hall => by
    simp only [lookupLast]
    by_cases hr : ∃ v, (k, v) ∈ rest
    · rw [lookupLast_of_all k w rest hr (fun v hv => hall v (List.mem_cons_of_mem _ hv))]
    · have hnone : lookupLast k rest = none := by
        cases hl : lookupLast k rest with
        | none => rfl
        | some u =>
          exfalso
          -- a hit means the key occurs
          have : ∀ (l : List (α × β)) (u : β), lookupLast k l = some u → ∃ v, (k, v) ∈ l := by
            intro l
            induction l with
            | nil => intro u h; simp [lookupLast] at h
            | cons p ps ih =>
              intro u h
              obtain ⟨pk, pv⟩ := p
              simp only [lookupLast] at h
              cases hps : lookupLast k ps with
              | some z => obtain ⟨v, hv⟩ := ih z hps; exact ⟨v, List.mem_cons_of_mem _ hv⟩
              | none =>
                simp only [hps] at h
                split at h
                · rename_i he; subst he; exact ⟨pv, by simp⟩
                · cases h
          exact hr (this rest u hl)
      rw [hnone]
      obtain ⟨v, hv⟩ := hex
      rcases List.mem_cons.1 hv with h | h
      · injection h with h1 h2
        subst h1
        simp only [if_true]
        rw [hall v' (by simp)]
      · exact absurd ⟨v, h⟩ hr

section
variable [AddCommMonoid K]

/-- weight of a split on the root-ward path of tip `p` -/
def memF (d : K) (p : String) (s : Split K) : K := if p ∈ s.side then lenOr d s.len else 0

/-- distance from the root of `t` down to tip `p` (sum over the edges above `p`) -/
def depthSpec (d : K) (p : String) (t : PTree K) : K := sumBy (memF d p) (splits t)

theorem memF_sum_zero (d : K) (p : String) (S : List (Split K)) (h : ∀ s ∈ S, p ∉ s.side) :
    sumBy (memF d p) S = 0 :=
  sumBy_zero _ _ fun s hs => by simp [memF, h s hs]

/-- if `q` is on no side, separating `p` from `q` is containing `p` -/
theorem splitW_sum_left (d : K) (p q : String) (S : List (Split K)) (h : ∀ s ∈ S, q ∉ s.side) :
    sumBy (splitW d p q) S = sumBy (memF d p) S :=
  sumBy_congr _ _ _ fun s hs => by
    have := h s hs
    by_cases hp : p ∈ s.side <;> simp [splitW, memF, sep, this, hp]

theorem splitW_sum_right (d : K) (p q : String) (S : List (Split K)) (h : ∀ s ∈ S, p ∉ s.side) :
    sumBy (splitW d p q) S = sumBy (memF d q) S :=
  sumBy_congr _ _ _ fun s hs => by
    have := h s hs
    by_cases hq : q ∈ s.side <;> simp [splitW, memF, sep, this, hq]

theorem splitW_sum_zero (d : K) (p q : String) (S : List (Split K)) (hp : ∀ s ∈ S, p ∉ s.side)
    (hq : ∀ s ∈ S, q ∉ s.side) : sumBy (splitW d p q) S = 0 :=
  sumBy_zero _ _ fun s hs => by simp [splitW, sep, hp s hs, hq s hs]

theorem splitW_swap (d : K) (p q : String) (S : List (Split K)) :
    sumBy (splitW d p q) S = sumBy (splitW d q p) S :=
  sumBy_congr _ _ _ fun s _ => by simp [splitW, sep_comm p q]

/-- all sides of the splits contributed by child `c` (its own edge and everything below) -/
theorem child_sides (c : PTree K) : ∀ s ∈ edgeSplit c :: splits c, ∀ x ∈ s.side, x ∈ tips c := by
  intro s hs x hx
  rcases List.mem_cons.1 hs with rfl | h
  · exact hx
  · exact sides_subset c s h x hx

/-- what one subtree / one list of sibling subtrees contributes -/
structure DistOK (d : K) (T : List String) (S : List (Split K)) (tds : List (String × K))
    (res : List ((String × String) × K)) : Prop where
  depths : tds = T.map fun a => (a, sumBy (memF d a) S)
  vals : ∀ e ∈ res, e.1.1 ∈ T ∧ e.1.2 ∈ T ∧ e.2 = sumBy (splitW d e.1.1 e.1.2) S
  ex : ∀ a ∈ T, ∀ b ∈ T, a ≠ b → ∃ v, ((a, b), v) ∈ res

theorem mem_crossOne (xs ys : List (String × K)) (e : (String × String) × K) :
    e ∈ crossOne xs ys ↔ ∃ x ∈ xs, ∃ y ∈ ys, e = ((x.1, y.1), x.2 + y.2) ∨ e = ((y.1, x.1), x.2 + y.2) := by
  simp only [crossOne, List.mem_flatMap, List.mem_cons, List.mem_nil_iff, or_false]

mutual
theorem distGo_ok (d : K) : ∀ (t : PTree K), (tips t).Nodup →
    DistOK d (tips t) (splits t) (distGo d t).1 (distGo d t).2
  | .node n l [], _ => by
    refine ⟨by simp [distGo, tips, splits, splitsL, sumBy], by simp [distGo], ?_⟩
    intro a ha b hb hab
    simp only [tips, List.mem_singleton] at ha hb
    exact absurd (ha.trans hb.symm) hab
  | .node n l (c :: cs), hnd => by
    rw [tips_node_ne_nil _ _ _ (by simp)] at hnd ⊢
    have h := distL_ok d (c :: cs) hnd
    simp only [distGo, splits]
    exact h
/-- for siblings: flattened depth lists, and the children's results followed by the cross pairs -/
theorem distL_ok (d : K) : ∀ (cs : List (PTree K)), (tipsL cs).Nodup →
    DistOK d (tipsL cs) (splitsL cs) (distL d cs).1.flatten ((distL d cs).2 ++ crossPairs (distL d cs).1)
  | [], _ => ⟨by simp [distL, tipsL], by simp [distL, crossPairs], by simp [tipsL]⟩
  | c :: cs, hnd => by
    simp only [tipsL] at hnd
    obtain ⟨hndc, hndcs, hdisj⟩ := List.nodup_append.1 hnd
    have hc := distGo_ok d c hndc
    have hcs := distL_ok d cs hndcs
    have dis1 : ∀ x ∈ tips c, x ∉ tipsL cs := fun x hx h => hdisj x hx x h rfl
    have dis2 : ∀ x ∈ tipsL cs, x ∉ tips c := fun x hx h => hdisj x h x hx rfl
    -- sums over the splits of the head child / of the remaining siblings
    have zc : ∀ x, x ∉ tips c → ∀ s ∈ edgeSplit c :: splits c, x ∉ s.side :=
      fun x hx s hs h => hx (child_sides c s hs x h)
    have zcs : ∀ x, x ∉ tipsL cs → ∀ s ∈ splitsL cs, x ∉ s.side :=
      fun x hx s hs h => hx (sidesL_subset cs s hs x h)
    have hsplit : splitsL (c :: cs) = (edgeSplit c :: splits c) ++ splitsL cs := by simp [splitsL]
    -- depth of a tip of the head child / of a later sibling, seen from the parent
    have depth_c : ∀ x ∈ tips c, sumBy (memF d x) (splitsL (c :: cs)) =
        sumBy (memF d x) (splits c) + lenOr d c.len := by
      intro x hx
      rw [hsplit, sumBy_append, memF_sum_zero d x _ (zcs x (dis1 x hx))]
      simp only [sumBy, memF, edgeSplit, hx, if_true, add_zero]
      exact add_comm _ _
    have depth_cs : ∀ x ∈ tipsL cs, sumBy (memF d x) (splitsL (c :: cs)) = sumBy (memF d x) (splitsL cs) := by
      intro x hx
      rw [hsplit, sumBy_append, memF_sum_zero d x _ (zc x (dis2 x hx)), zero_add]
    -- the depth lists
    have htd_c : (distGo d c).1.map (fun x => (x.1, x.2 + lenOr d c.len)) =
        (tips c).map fun a => (a, sumBy (memF d a) (splitsL (c :: cs))) := by
      rw [hc.depths, List.map_map]
      apply List.map_congr_left
      intro a ha
      simp [depth_c a ha]
    have htd_cs : (distL d cs).1.flatten = (tipsL cs).map fun a => (a, sumBy (memF d a) (splitsL (c :: cs))) := by
      rw [hcs.depths]
      apply List.map_congr_left
      intro a ha
      simp [depth_cs a ha]
    -- values of entries whose two tips lie both in the head child / both among the later siblings
    have val_c : ∀ p ∈ tips c, ∀ q ∈ tips c, sumBy (splitW d p q) (splitsL (c :: cs)) = sumBy (splitW d p q) (splits c) := by
      intro p hp q hq
      rw [hsplit, sumBy_append, splitW_sum_zero d p q _ (zcs p (dis1 p hp)) (zcs q (dis1 q hq))]
      simp [sumBy, splitW, edgeSplit, sep, hp, hq]
    have val_cs : ∀ p ∈ tipsL cs, ∀ q ∈ tipsL cs, sumBy (splitW d p q) (splitsL (c :: cs)) = sumBy (splitW d p q) (splitsL cs) := by
      intro p hp q hq
      rw [hsplit, sumBy_append, splitW_sum_zero d p q _ (zc p (dis2 p hp)) (zc q (dis2 q hq)), zero_add]
    -- one tip in the head child, one among the later siblings
    have val_x : ∀ p ∈ tips c, ∀ q ∈ tipsL cs, sumBy (splitW d p q) (splitsL (c :: cs)) =
        sumBy (memF d p) (splitsL (c :: cs)) + sumBy (memF d q) (splitsL (c :: cs)) := by
      intro p hp q hq
      rw [depth_cs q hq, hsplit, sumBy_append, sumBy_append,
        splitW_sum_left d p q _ (zc q (dis2 q hq)), splitW_sum_right d p q _ (zcs p (dis1 p hp)),
        memF_sum_zero d p (splitsL cs) (zcs p (dis1 p hp)), add_zero]
    simp only [distL, tipsL, List.flatten_cons, crossPairs]
    refine ⟨?_, ?_, ?_⟩
    · rw [htd_c, htd_cs, List.map_append]
    · intro e he
      simp only [List.mem_append, List.mem_flatMap] at he
      rcases he with (he | he) | (⟨ys, hys, he⟩ | he)
      · obtain ⟨h1, h2, h3⟩ := hc.vals e he
        exact ⟨List.mem_append_left _ h1, List.mem_append_left _ h2, by rw [h3, val_c _ h1 _ h2]⟩
      · obtain ⟨h1, h2, h3⟩ := hcs.vals e (List.mem_append_left _ he)
        exact ⟨List.mem_append_right _ h1, List.mem_append_right _ h2, by rw [h3, val_cs _ h1 _ h2]⟩
      · rw [mem_crossOne] at he
        obtain ⟨x, hx, y, hy, he⟩ := he
        rw [htd_c] at hx
        have hy' : y ∈ (distL d cs).1.flatten := List.mem_flatten.2 ⟨ys, hys, hy⟩
        rw [htd_cs] at hy'
        obtain ⟨p, hp, rfl⟩ := List.mem_map.1 hx
        obtain ⟨q, hq, rfl⟩ := List.mem_map.1 hy'
        rcases he with rfl | rfl
        · exact ⟨List.mem_append_left _ hp, List.mem_append_right _ hq, (val_x p hp q hq).symm⟩
        · refine ⟨List.mem_append_right _ hq, List.mem_append_left _ hp, ?_⟩
          simp only
          rw [splitW_swap, val_x p hp q hq]
      · obtain ⟨h1, h2, h3⟩ := hcs.vals e (List.mem_append_right _ he)
        exact ⟨List.mem_append_right _ h1, List.mem_append_right _ h2, by rw [h3, val_cs _ h1 _ h2]⟩
    · intro a ha b hb hab
      simp only [List.mem_append] at ha hb
      have inflat : ∀ q ∈ tipsL cs, ∃ ys ∈ (distL d cs).1, (q, sumBy (memF d q) (splitsL (c :: cs))) ∈ ys := by
        intro q hq
        have : (q, sumBy (memF d q) (splitsL (c :: cs))) ∈ (distL d cs).1.flatten := by
          rw [htd_cs]; exact List.mem_map.2 ⟨q, hq, rfl⟩
        obtain ⟨ys, hys, h⟩ := List.mem_flatten.1 this
        exact ⟨ys, hys, h⟩
      have inhead : ∀ p ∈ tips c, (p, sumBy (memF d p) (splitsL (c :: cs))) ∈
          (distGo d c).1.map (fun x => (x.1, x.2 + lenOr d c.len)) := by
        intro p hp; rw [htd_c]; exact List.mem_map.2 ⟨p, hp, rfl⟩
      rcases ha with ha | ha <;> rcases hb with hb | hb
      · obtain ⟨v, hv⟩ := hc.ex a ha b hb hab
        exact ⟨v, by simp only [List.mem_append]; exact Or.inl (Or.inl hv)⟩
      · obtain ⟨ys, hys, hy⟩ := inflat b hb
        refine ⟨sumBy (memF d a) (splitsL (c :: cs)) + sumBy (memF d b) (splitsL (c :: cs)), ?_⟩
        simp only [List.mem_append, List.mem_flatMap]
        refine Or.inr (Or.inl ⟨ys, hys, ?_⟩)
        rw [mem_crossOne]
        exact ⟨_, inhead a ha, _, hy, Or.inl rfl⟩
      · obtain ⟨ys, hys, hy⟩ := inflat a ha
        refine ⟨sumBy (memF d b) (splitsL (c :: cs)) + sumBy (memF d a) (splitsL (c :: cs)), ?_⟩
        simp only [List.mem_append, List.mem_flatMap]
        refine Or.inr (Or.inl ⟨ys, hys, ?_⟩)
        rw [mem_crossOne]
        exact ⟨_, inhead b hb, _, hy, Or.inr rfl⟩
      · obtain ⟨v, hv⟩ := hcs.ex a ha b hb hab
        simp only [List.mem_append] at hv
        refine ⟨v, ?_⟩
        simp only [List.mem_append]
        rcases hv with hv | hv
        · exact Or.inl (Or.inr hv)
        · exact Or.inr (Or.inr hv)
end

/-! ### root-to-tip depth and distance across two children of a node -/
theorem memF_sum_perm (d : K) (p : String) {S S' : List (Split K)} (h : S.Perm S') :
    sumBy (memF d p) S = sumBy (memF d p) S' := sumBy_perm _ h

/-- for a node with children `pre ++ c :: post` (distinct tips), a tip `p` below `c` and a tip `q`
below another child: the depth of `p` is the length of `c` plus its depth in `c`, and the
distance between `p` and `q` is the sum of their depths -/
theorem depth_dist_at_node (d : K) (pre post : List (PTree K)) (c : PTree K)
    (hnd : (tipsL (pre ++ c :: post)).Nodup) (p q : String) (hp : p ∈ tips c)
    (hq : q ∈ tipsL (pre ++ c :: post)) (hqc : q ∉ tips c) :
    sumBy (memF d p) (splitsL (pre ++ c :: post)) = lenOr d c.len + sumBy (memF d p) (splits c) ∧
    sumBy (splitW d p q) (splitsL (pre ++ c :: post)) =
      sumBy (memF d p) (splitsL (pre ++ c :: post)) + sumBy (memF d q) (splitsL (pre ++ c :: post)) := by
  have hperm : (pre ++ c :: post).Perm (c :: (pre ++ post)) := List.perm_middle
  have hnd' : (tipsL (c :: (pre ++ post))).Nodup := ((tipsL_perm hperm).nodup_iff).1 hnd
  have hq' : q ∈ tipsL (pre ++ post) := by
    have := ((tipsL_perm hperm).mem_iff).1 hq
    simp only [tipsL, List.mem_append] at this
    rcases this with h | h
    · exact absurd h hqc
    · exact h
  simp only [tipsL] at hnd'
  obtain ⟨_, _, hdisj⟩ := List.nodup_append.1 hnd'
  have hpr : p ∉ tipsL (pre ++ post) := fun h => hdisj p hp p h rfl
  have zc : ∀ s ∈ edgeSplit c :: splits c, q ∉ s.side := fun s hs h => hqc (child_sides c s hs q h)
  have zr : ∀ s ∈ splitsL (pre ++ post), p ∉ s.side := fun s hs h => hpr (sidesL_subset _ s hs p h)
  have hsplit : splitsL (c :: (pre ++ post)) = (edgeSplit c :: splits c) ++ splitsL (pre ++ post) := by
    simp [splitsL]
  have hS := splitsL_perm hperm
  have e1 : sumBy (memF d p) (splitsL (pre ++ c :: post)) = lenOr d c.len + sumBy (memF d p) (splits c) := by
    rw [sumBy_perm _ hS, hsplit, sumBy_append, memF_sum_zero d p _ zr]
    simp [sumBy, memF, edgeSplit, hp]
  have e2 : sumBy (memF d q) (splitsL (pre ++ c :: post)) = sumBy (memF d q) (splitsL (pre ++ post)) := by
    rw [sumBy_perm _ hS, hsplit, sumBy_append, memF_sum_zero d q _ zc, zero_add]
  refine ⟨e1, ?_⟩
  rw [e2, sumBy_perm (splitW d p q) hS, sumBy_perm (memF d p) hS, hsplit, sumBy_append, sumBy_append,
    splitW_sum_left d p q _ zc, splitW_sum_right d p q _ zr, memF_sum_zero d p _ zr, add_zero]

/-- `tree.get_distances()[(a, b)]` (model: last write into the dict) is the specification distance -/
theorem getDistances_lookup (d : K) (t : PTree K) (hnd : (tips t).Nodup) (a b : String)
    (ha : a ∈ tips t) (hb : b ∈ tips t) (hab : a ≠ b) :
    lookupLast (a, b) (getDistances d t) = some (distSpec d a b t) := by
  have h := distGo_ok d t hnd
  apply lookupLast_of_all
  · exact h.ex a ha b hb hab
  · intro v hv
    exact (h.vals _ hv).2.2

/-- the dict has no other keys than pairs of tips -/
theorem getDistances_keys (d : K) (t : PTree K) (hnd : (tips t).Nodup) (a b : String) (v : K)
    (h : ((a, b), v) ∈ getDistances d t) : a ∈ tips t ∧ b ∈ tips t ∧ v = distSpec d a b t :=
  (distGo_ok d t hnd).vals _ h

end
end CogentModel.Phylo
