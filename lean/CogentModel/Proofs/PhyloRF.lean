import CogentModel.Proofs.PhyloBasic
import CogentModel.Model.PhyloTreeDist
set_option linter.unusedSimpArgs false
/-! C09: Robinson–Foulds — the reference-tip normalisation of `_compute_splits` computes the
symmetric difference of the bipartition sets. -/
namespace CogentModel.Phylo
open PTree
variable {K : Type}

/-! ### generic de-duplication by a Boolean equivalence -/
section generic
variable {α : Type} (r : α → α → Bool)

def dedupBy : List α → List α
  | [] => []
  | x :: xs => if xs.any (r x) then dedupBy xs else x :: dedupBy xs

variable (hsymm : ∀ a b, r a b = r b a) (htrans : ∀ a b c, r a b = true → r b c = true → r a c = true)

omit hsymm htrans in
theorem any_congr' (p q : α → Bool) (l : List α) (h : ∀ x ∈ l, p x = q x) : l.any p = l.any q := by
  induction l with
  | nil => rfl
  | cons y ys ih =>
    simp only [List.any_cons, h y (by simp), ih (fun x hx => h x (List.mem_cons_of_mem _ hx))]

omit hsymm htrans in
theorem dedupBy_sublist (l : List α) : ∀ x ∈ dedupBy r l, x ∈ l := by
  induction l with
  | nil => simp [dedupBy]
  | cons y ys ih =>
    intro x hx
    simp only [dedupBy] at hx
    split at hx
    · exact List.mem_cons_of_mem _ (ih x hx)
    · rcases List.mem_cons.1 hx with rfl | h
      · simp
      · exact List.mem_cons_of_mem _ (ih x h)

include htrans in
omit hsymm in
theorem any_dedupBy (x : α) (l : List α) : (dedupBy r l).any (r x) = l.any (r x) := by
  induction l with
  | nil => rfl
  | cons y ys ih =>
    simp only [dedupBy]
    split
    · rename_i hy
      rw [ih, List.any_cons]
      cases hxy : r x y with
      | false => simp
      | true =>
        simp only [Bool.true_or]
        obtain ⟨z, hz, hyz⟩ := List.any_eq_true.1 hy
        exact List.any_eq_true.2 ⟨z, hz, htrans x y z hxy hyz⟩
    · simp [List.any_cons, ih]

omit hsymm htrans in
/-- `dedupBy` commutes with a map that reflects the equivalence -/
theorem dedupBy_map {β : Type} (r' : β → β → Bool) (f : α → β) (l : List α)
    (h : ∀ a ∈ l, ∀ b ∈ l, r' (f a) (f b) = r a b) :
    dedupBy r' (l.map f) = (dedupBy r l).map f := by
  induction l with
  | nil => rfl
  | cons y ys ih =>
    have ih' := ih (fun a ha b hb => h a (List.mem_cons_of_mem _ ha) b (List.mem_cons_of_mem _ hb))
    have hany : (ys.map f).any (r' (f y)) = ys.any (r y) := by
      rw [List.any_map]
      apply any_congr'
      intro b hb
      exact h y (by simp) b (List.mem_cons_of_mem _ hb)
    simp only [List.map_cons, dedupBy, hany]
    split <;> simp [ih']

omit hsymm htrans in
theorem filter_map_length {β : Type} (f : α → β) (p : β → Bool) (q : α → Bool) (l : List α)
    (h : ∀ a ∈ l, p (f a) = q a) : ((l.map f).filter p).length = (l.filter q).length := by
  induction l with
  | nil => rfl
  | cons y ys ih =>
    have := ih (fun a ha => h a (List.mem_cons_of_mem _ ha))
    simp only [List.map_cons, List.filter_cons, h y (by simp)]
    split <;> simp [this]

end generic

/-! ### sets as lists -/
theorem subsetB_iff (a b : List String) : subsetB a b = true ↔ ∀ x ∈ a, x ∈ b := by
  simp [subsetB, List.all_eq_true]

theorem seteq_iff (a b : List String) : seteq a b = true ↔ ∀ x, x ∈ a ↔ x ∈ b := by
  simp only [seteq, Bool.and_eq_true, subsetB_iff]
  constructor
  · intro h x; exact ⟨h.1 x, h.2 x⟩
  · intro h; exact ⟨fun x hx => (h x).1 hx, fun x hx => (h x).2 hx⟩

theorem seteq_symm (a b : List String) : seteq a b = seteq b a := by
  simp [seteq, Bool.and_comm]

theorem seteq_trans (a b c : List String) (h1 : seteq a b = true) (h2 : seteq b c = true) :
    seteq a c = true := by
  rw [seteq_iff] at *
  intro x; exact (h1 x).trans (h2 x)

theorem sepAll_iff (T A B : List String) : sepAll T A B = true ↔ bipEquiv T A B := by
  simp [sepAll, bipEquiv, List.all_eq_true]

theorem sepAll_symm (T A B : List String) : sepAll T A B = sepAll T B A := by
  rw [Bool.eq_iff_iff, sepAll_iff, sepAll_iff]
  exact ⟨bipEquiv_symm, bipEquiv_symm⟩

theorem sepAll_trans (T A B C : List String) (h1 : sepAll T A B = true) (h2 : sepAll T B C = true) :
    sepAll T A C = true := by
  rw [sepAll_iff] at *
  exact bipEquiv_trans h1 h2

theorem dedupSets_eq (S : List (List String)) : dedupSets S = dedupBy seteq S := by
  induction S with
  | nil => rfl
  | cons x xs ih => simp [dedupSets, dedupBy, memSet, ih]

theorem dedupBip_eq (T : List String) (S : List (List String)) : dedupBip T S = dedupBy (sepAll T) S := by
  induction S with
  | nil => rfl
  | cons x xs ih => simp [dedupBip, dedupBy, anyBip, ih]

theorem mem_normSplit (ref : String) (T A : List String) (x : String) :
    x ∈ normSplit ref T A ↔ if ref ∈ A then x ∈ A else (x ∈ T ∧ x ∉ A) := by
  unfold normSplit
  by_cases h : ref ∈ A <;> simp [h]

/-- KEY LEMMA: two clades normalised to the side containing the reference tip are equal as
sets exactly when they are the same bipartition of `T`. -/
theorem norm_seteq_iff (ref : String) (T A B : List String) (href : ref ∈ T)
    (hA : ∀ x ∈ A, x ∈ T) (hB : ∀ x ∈ B, x ∈ T) :
    seteq (normSplit ref T A) (normSplit ref T B) = sepAll T A B := by
  rw [Bool.eq_iff_iff, seteq_iff, sepAll_iff]
  simp only [mem_normSplit]
  constructor
  · intro h
    by_cases ha : ref ∈ A <;> by_cases hb : ref ∈ B <;> simp only [ha, hb, if_true, if_false] at h
    · exact bipEquiv_same fun a _ => h a
    · apply bipEquiv_compl
      intro a haT
      have := h a
      simp only [haT, true_and] at this
      exact this
    · apply bipEquiv_symm
      apply bipEquiv_compl
      intro a haT
      have := h a
      simp only [haT, true_and] at this
      exact this.symm
    · apply bipEquiv_same
      intro a haT
      have := h a
      simp only [haT, true_and] at this
      exact not_iff_not.1 this
  · intro h x
    have key : ∀ a ∈ T, (decide (a ∈ A) != decide (ref ∈ A)) = (decide (a ∈ B) != decide (ref ∈ B)) :=
      fun a ha => h a ha ref href
    have fin : ∀ (hxT : x ∈ T), (decide (x ∈ A) != decide (ref ∈ A)) = (decide (x ∈ B) != decide (ref ∈ B)) :=
      fun hxT => key x hxT
    by_cases ha : ref ∈ A <;> by_cases hb : ref ∈ B <;> simp only [ha, hb, if_true, if_false]
    all_goals
      constructor
      all_goals
        intro hx
        first
          | (have hxT : x ∈ T := hA x hx
             have k := fin hxT
             by_cases hxA : x ∈ A <;> by_cases hxB : x ∈ B <;> simp_all)
          | (have hxT : x ∈ T := hB x hx
             have k := fin hxT
             by_cases hxA : x ∈ A <;> by_cases hxB : x ∈ B <;> simp_all)
          | (have hxT : x ∈ T := hx.1
             have k := fin hxT
             by_cases hxA : x ∈ A <;> by_cases hxB : x ∈ B <;> simp_all)

/-- The implemented computation (normalise every clade to the side holding the reference
tip, build Python sets, take the symmetric difference) equals the independent one
(compare bipartitions by their separation relation; no reference tip). -/
theorem symDiff_norm_eq_bip (ref : String) (T : List String) (S₁ S₂ : List (List String))
    (href : ref ∈ T) (h₁ : ∀ A ∈ S₁, ∀ x ∈ A, x ∈ T) (h₂ : ∀ A ∈ S₂, ∀ x ∈ A, x ∈ T) :
    symDiffCount (dedupSets (S₁.map (normSplit ref T))) (dedupSets (S₂.map (normSplit ref T)))
      = symDiffBip T S₁ S₂ := by
  have hd : ∀ (S : List (List String)), (∀ A ∈ S, ∀ x ∈ A, x ∈ T) →
      dedupSets (S.map (normSplit ref T)) = (dedupBip T S).map (normSplit ref T) := by
    intro S hS
    rw [dedupSets_eq, dedupBip_eq]
    exact dedupBy_map (sepAll T) seteq (normSplit ref T) S
      (fun a ha b hb => norm_seteq_iff ref T a b href (hS a ha) (hS b hb))
  have hm : ∀ (S S' : List (List String)), (∀ A ∈ S, ∀ x ∈ A, x ∈ T) → (∀ A ∈ S', ∀ x ∈ A, x ∈ T) →
      ∀ A ∈ S, memSet (normSplit ref T A) (dedupSets (S'.map (normSplit ref T))) = anyBip T A S' := by
    intro S S' hS hS' A hA
    rw [dedupSets_eq]
    unfold memSet
    rw [any_dedupBy seteq seteq_trans, List.any_map]
    unfold anyBip
    apply any_congr'
    intro B hB
    exact norm_seteq_iff ref T A B href (hS A hA) (hS' B hB)
  have hsub : ∀ (S : List (List String)), ∀ A ∈ dedupBip T S, A ∈ S := by
    intro S A hA
    rw [dedupBip_eq] at hA
    exact dedupBy_sublist _ S A hA
  unfold symDiffCount symDiffBip
  rw [hd S₁ h₁, hd S₂ h₂]
  congr 1
  · apply filter_map_length
    intro A hA
    rw [← hd S₂ h₂, hm S₁ S₂ h₁ h₂ A (hsub S₁ A hA)]
  · apply filter_map_length
    intro A hA
    rw [← hd S₁ h₁, hm S₂ S₁ h₂ h₁ A (hsub S₂ A hA)]

theorem symDiffBip_comm (T : List String) (S₁ S₂ : List (List String)) :
    symDiffBip T S₁ S₂ = symDiffBip T S₂ S₁ := by
  unfold symDiffBip; omega

theorem anyBip_dedup (T A : List String) (S : List (List String)) :
    anyBip T A (dedupBip T S) = anyBip T A S := by
  rw [dedupBip_eq]
  exact any_dedupBy (sepAll T) (sepAll_trans T) A S

/-- zero exactly when the two trees have the same set of bipartitions -/
theorem symDiffBip_zero_iff (T : List String) (S₁ S₂ : List (List String)) :
    symDiffBip T S₁ S₂ = 0 ↔
      (∀ A ∈ S₁, ∃ B ∈ S₂, bipEquiv T A B) ∧ (∀ B ∈ S₂, ∃ A ∈ S₁, bipEquiv T B A) := by
  have one : ∀ (S S' : List (List String)),
      ((dedupBip T S).filter fun A => !anyBip T A S').length = 0 ↔ ∀ A ∈ S, ∃ B ∈ S', bipEquiv T A B := by
    intro S S'
    rw [List.length_eq_zero_iff, List.filter_eq_nil_iff]
    constructor
    · intro h A hA
      -- A has a representative in the de-duplicated list
      have hrep : anyBip T A (dedupBip T S) = true := by
        rw [anyBip_dedup]
        exact List.any_eq_true.2 ⟨A, hA, (sepAll_iff T A A).2 (bipEquiv_refl T A)⟩
      obtain ⟨A', hA', hAA'⟩ := List.any_eq_true.1 hrep
      have := h A' hA'
      simp only [Bool.not_eq_true', Bool.not_eq_false] at this
      have this' : anyBip T A' S' = true := by simpa using this
      obtain ⟨B, hB, hA'B⟩ := List.any_eq_true.1 this'
      exact ⟨B, hB, (sepAll_iff T A B).1 (sepAll_trans T A A' B hAA' hA'B)⟩
    · intro h A hA
      have hA' : A ∈ S := by
        rw [dedupBip_eq] at hA
        exact dedupBy_sublist _ S A hA
      obtain ⟨B, hB, hAB⟩ := h A hA'
      have : anyBip T A S' = true := List.any_eq_true.2 ⟨B, hB, (sepAll_iff T A B).2 hAB⟩
      simp [this]
  unfold symDiffBip
  rw [Nat.add_eq_zero_iff, one S₁ S₂, one S₂ S₁]

/-! ### clades are sets of tips of the tree -/
mutual
theorem clusters_subset : ∀ (t : PTree K), ∀ A ∈ clusters t, ∀ x ∈ A, x ∈ tips t
  | .node n l cs => by
    intro A hA x hx
    simp only [clusters] at hA
    rw [tips_node_eq]
    by_cases hc : cs = []
    · subst hc; simp [clustersL] at hA
    · simp only [hc, if_false]
      exact clustersL_subset cs A hA x hx
theorem clustersL_subset : ∀ (cs : List (PTree K)), ∀ A ∈ clustersL cs, ∀ x ∈ A, x ∈ tipsL cs
  | [] => by intro A hA; simp [clustersL] at hA
  | c :: cs => by
    intro A hA x hx
    simp only [clustersL, List.mem_append] at hA
    simp only [tipsL, List.mem_append]
    rcases hA with (hA | hA) | hA
    · exact Or.inl (clusters_subset c A hA x hx)
    · split at hA
      · simp at hA
      · split at hA
        · simp at hA; subst hA; exact Or.inl hx
        · simp at hA
    · exact Or.inr (clustersL_subset cs A hA x hx)
end

theorem symDiffCount_comm (S₁ S₂ : List (List String)) : symDiffCount S₁ S₂ = symDiffCount S₂ S₁ := by
  unfold symDiffCount; omega

theorem rootedRF_comm (t₁ t₂ : PTree K) : rootedRF t₁ t₂ = rootedRF t₂ t₁ := by
  unfold rootedRF
  rw [seteq_symm (tips t₁) (tips t₂), Bool.or_comm, symDiffCount_comm]

theorem sepAll_congr (T T' : List String) (h : ∀ x, x ∈ T ↔ x ∈ T') : sepAll T = sepAll T' := by
  funext A B
  rw [Bool.eq_iff_iff, sepAll_iff, sepAll_iff]
  constructor
  · intro hh a ha b hb; exact hh a ((h a).2 ha) b ((h b).2 hb)
  · intro hh a ha b hb; exact hh a ((h a).1 ha) b ((h b).1 hb)

theorem symDiffBip_congr (T T' : List String) (h : ∀ x, x ∈ T ↔ x ∈ T') (S₁ S₂ : List (List String)) :
    symDiffBip T S₁ S₂ = symDiffBip T' S₁ S₂ := by
  unfold symDiffBip anyBip
  rw [dedupBip_eq, dedupBip_eq, dedupBip_eq, dedupBip_eq, sepAll_congr T T' h]

/-- what `unrooted_robinson_foulds` returns, in terms of the independent computation -/
theorem unrootedRF_eq (t₁ t₂ : PTree K) (n : Nat) (h : unrootedRF t₁ t₂ = .ok n) :
    n = symDiffBip (tips t₁) (clusters t₁) (clusters t₂) := by
  unfold unrootedRF at h
  simp only at h
  split at h
  · cases h
  · rename_i hse
    split at h
    · cases h
    · split at h
      · cases h
      · rename_i ref rest hnames
        have hse' : ∀ x, x ∈ tips t₁ ↔ x ∈ tips t₂ := by
          have : seteq (tips t₁) (tips t₂) = true := by simpa using hse
          exact (seteq_iff _ _).1 this
        have href : ref ∈ tips t₁ := by rw [hnames]; simp
        injection h with h
        rw [← h]
        exact symDiff_norm_eq_bip ref (tips t₁) (clusters t₁) (clusters t₂) href
          (clusters_subset t₁)
          (fun A hA x hx => (hse' x).2 (clusters_subset t₂ A hA x hx))

theorem unrootedRF_comm (t₁ t₂ : PTree K) : unrootedRF t₁ t₂ = unrootedRF t₂ t₁ := by
  cases h1 : unrootedRF t₁ t₂ with
  | error e =>
    -- the same guard fails in the other order
    unfold unrootedRF at h1 ⊢
    simp only at h1 ⊢
    rw [seteq_symm (tips t₂) (tips t₁), Bool.or_comm]
    split at h1
    · rename_i hse; simp only [hse, if_true] at h1 ⊢; exact h1.symm ▸ rfl
    · rename_i hse
      simp only [hse, if_false] at h1 ⊢
      split at h1
      · rename_i hr; simp only [hr, if_true] at h1 ⊢; exact h1.symm ▸ rfl
      · rename_i hr
        simp only [hr, if_false] at h1 ⊢
        split at h1
        · rename_i hn
          -- tips t₁ = [] and the tip sets agree, so tips t₂ = []
          have hse' : seteq (tips t₁) (tips t₂) = true := by simpa using hse
          have : tips t₂ = [] := by
            rw [seteq_iff] at hse'
            cases h2 : tips t₂ with
            | nil => rfl
            | cons y ys => have := (hse' y).2 (by simp [h2]); simp [hn] at this
          simp only [this]; exact h1.symm ▸ rfl
        · cases h1
  | ok n =>
    have e1 := unrootedRF_eq t₁ t₂ n h1
    -- the other order is also defined
    cases h2 : unrootedRF t₂ t₁ with
    | ok m =>
      have e2 := unrootedRF_eq t₂ t₁ m h2
      have hse : ∀ x, x ∈ tips t₁ ↔ x ∈ tips t₂ := by
        unfold unrootedRF at h1
        simp only at h1
        split at h1
        · cases h1
        · rename_i hse
          have : seteq (tips t₁) (tips t₂) = true := by simpa using hse
          exact (seteq_iff _ _).1 this
      rw [e1, e2, symDiffBip_comm, symDiffBip_congr (tips t₁) (tips t₂) hse]
    | error e =>
      exfalso
      unfold unrootedRF at h1 h2
      simp only at h1 h2
      rw [seteq_symm (tips t₂) (tips t₁), Bool.or_comm] at h2
      split at h1
      · cases h1
      · rename_i hse
        split at h1
        · cases h1
        · rename_i hr
          split at h1
          · cases h1
          · rename_i ref rest hnames
            have hse' : seteq (tips t₁) (tips t₂) = true := by simpa using hse
            rw [seteq_iff] at hse'
            have hmem := (hse' ref).1 (by simp [hnames])
            cases ht2 : tips t₂ with
            | nil => rw [ht2] at hmem; exact absurd hmem List.not_mem_nil
            | cons y ys =>
              have hse2 : seteq (tips t₁) (y :: ys) = true := by rw [← ht2]; simpa using hse
              simp [hse, hr, ht2, hse2] at h2

end CogentModel.Phylo
