import CogentModel.Proofs.NJSelect
import CogentModel.Proofs.NJTips
/-! Generating trees (binary, branch lengths ≥ 0; multifurcations = zero-length edges) as split systems. -/
namespace CogentModel.NJ

/-- the clade of a subtree as a split side -/
def memb (t : T) : Side := fun x => decide (x ∈ t.tips)

/-- one split per branch: the branch above each child carries that child's clade -/
def splitsOf : T → WSplits
  | .tip _ => []
  | .bin l1 t1 l2 t2 => (l1, memb t1) :: (l2, memb t2) :: (splitsOf t1 ++ splitsOf t2)

/-- all branch lengths are non-negative -/
def NonNegT : T → Prop
  | .tip _ => True
  | .bin l1 t1 l2 t2 => 0 ≤ l1 ∧ 0 ≤ l2 ∧ NonNegT t1 ∧ NonNegT t2

theorem wsum_append (A B : WSplits) (g : Side → Rat) : wsum (A ++ B) g = wsum A g + wsum B g := by
  induction A with
  | nil => simp [wsum]
  | cons S r ih => simp only [List.cons_append, wsum]; rw [ih]; ring

theorem wsum_eq_zero (Sg : WSplits) (g : Side → Rat) (h : ∀ S ∈ Sg, g S.2 = 0) : wsum Sg g = 0 := by
  induction Sg with
  | nil => rfl
  | cons S r ih =>
    simp only [wsum]
    rw [h S List.mem_cons_self, ih (fun T hT => h T (List.mem_cons_of_mem _ hT))]; ring

theorem wsum_congr (Sg : WSplits) (g h : Side → Rat) (hgh : ∀ S ∈ Sg, g S.2 = h S.2) : wsum Sg g = wsum Sg h := by
  induction Sg with
  | nil => rfl
  | cons S r ih =>
    simp only [wsum]
    rw [hgh S List.mem_cons_self, ih (fun T hT => hgh T (List.mem_cons_of_mem _ hT))]

theorem memb_iff (t : T) (x : Nat) : memb t x = true ↔ x ∈ t.tips := by simp [memb]

/-- every split of a subtree is a clade inside it -/
theorem splitsOf_sub (t : T) : ∀ S ∈ splitsOf t, ∀ x, S.2 x = true → x ∈ t.tips := by
  induction t with
  | tip a => intro S hS; cases hS
  | bin l1 t1 l2 t2 ih1 ih2 =>
    intro S hS x hx
    rw [tips_bin_eq, List.mem_append]
    simp only [splitsOf, List.mem_cons, List.mem_append] at hS
    rcases hS with rfl | rfl | hS | hS
    · exact Or.inl ((memb_iff _ _).1 hx)
    · exact Or.inr ((memb_iff _ _).1 hx)
    · exact Or.inl (ih1 S hS x hx)
    · exact Or.inr (ih2 S hS x hx)

theorem mem_tips_depth (t : T) (x : Nat) (hx : x ∈ t.tips) : ∃ h, (x, h) ∈ t.depths := by
  unfold T.tips at hx
  obtain ⟨p, hp, rfl⟩ := List.mem_map.1 hx
  exact ⟨p.2, hp⟩

theorem depth_mem_tips (t : T) (p : Nat × Rat) (hp : p ∈ t.depths) : p.1 ∈ t.tips :=
  List.mem_map.2 ⟨p, hp, rfl⟩

/-- the depth of a tip is the total length of the branches above it -/
theorem depth_eq (t : T) (hnd : t.tips.Nodup) : ∀ p ∈ t.depths,
    wsum (splitsOf t) (fun s => if s p.1 = true then 1 else 0) = p.2 := by
  induction t with
  | tip a =>
    intro p hp
    simp only [T.depths, List.mem_singleton] at hp
    subst hp; rfl
  | bin l1 t1 l2 t2 ih1 ih2 =>
    intro p hp
    rw [tips_bin_eq] at hnd
    have hd := List.disjoint_of_nodup_append hnd
    have hn1 := (List.nodup_append.1 hnd).1
    have hn2 := (List.nodup_append.1 hnd).2.1
    simp only [splitsOf, wsum]
    rw [wsum_append]
    rcases depths_bin _ _ _ _ p hp with ⟨p0, h0, rfl⟩ | ⟨p0, h0, rfl⟩
    · have hin : p0.1 ∈ t1.tips := depth_mem_tips t1 p0 h0
      have hout : p0.1 ∉ t2.tips := fun h => hd hin h
      have e1 : memb t1 p0.1 = true := (memb_iff _ _).2 hin
      have e2 : ¬ memb t2 p0.1 = true := fun h => hout ((memb_iff _ _).1 h)
      rw [if_pos e1, if_neg e2, ih1 hn1 p0 h0,
        wsum_eq_zero (splitsOf t2) _ (fun S hS => by
          show (if S.2 p0.1 = true then (1 : Rat) else 0) = 0
          rw [if_neg (fun h => hout (splitsOf_sub t2 S hS _ h))])]
      show l1 * 1 + (l2 * 0 + (p0.2 + 0)) = p0.2 + l1
      ring
    · have hin : p0.1 ∈ t2.tips := depth_mem_tips t2 p0 h0
      have hout : p0.1 ∉ t1.tips := fun h => hd h hin
      have e1 : ¬ memb t1 p0.1 = true := fun h => hout ((memb_iff _ _).1 h)
      have e2 : memb t2 p0.1 = true := (memb_iff _ _).2 hin
      rw [if_neg e1, if_pos e2, ih2 hn2 p0 h0,
        wsum_eq_zero (splitsOf t1) _ (fun S hS => by
          show (if S.2 p0.1 = true then (1 : Rat) else 0) = 0
          rw [if_neg (fun h => hout (splitsOf_sub t1 S hS _ h))])]
      show l1 * 0 + (l2 * 1 + (0 + p0.2)) = p0.2 + l2
      ring

theorem sep_out (S : Rat × Side) (t : T) (hS : S ∈ splitsOf t) (x y : Nat) (hx : x ∉ t.tips) (hy : y ∉ t.tips) :
    sep S.2 x y = 0 := by
  unfold sep
  have h1 : ¬ S.2 x = true := fun h => hx (splitsOf_sub t S hS x h)
  have h2 : ¬ S.2 y = true := fun h => hy (splitsOf_sub t S hS y h)
  rw [if_pos]
  revert h1 h2; cases S.2 x <;> cases S.2 y <;> simp

theorem sep_one_out (S : Rat × Side) (t : T) (hS : S ∈ splitsOf t) (x y : Nat) (hy : y ∉ t.tips) :
    sep S.2 x y = if S.2 x = true then 1 else 0 := by
  unfold sep
  have h2 : ¬ S.2 y = true := fun h => hy (splitsOf_sub t S hS y h)
  revert h2; cases S.2 x <;> cases S.2 y <;> simp

theorem sep_memb_in (t : T) (x y : Nat) (hx : x ∈ t.tips) (hy : y ∈ t.tips) : sep (memb t) x y = 0 := by
  unfold sep; rw [(memb_iff t x).2 hx, (memb_iff t y).2 hy]; simp

theorem sep_memb_out (t : T) (x y : Nat) (hx : x ∉ t.tips) (hy : y ∉ t.tips) : sep (memb t) x y = 0 := by
  unfold sep
  have h1 : memb t x = false := by simpa [memb] using hx
  have h2 : memb t y = false := by simpa [memb] using hy
  rw [h1, h2]; simp

theorem sep_memb_cross (t : T) (x y : Nat) (hx : x ∈ t.tips) (hy : y ∉ t.tips) : sep (memb t) x y = 1 := by
  unfold sep
  have h2 : memb t y = false := by simpa [memb] using hy
  rw [(memb_iff t x).2 hx, h2]; simp

/-- the split metric of a tree is its path metric -/
theorem splitDist_real (t : T) (hnd : t.tips.Nodup) : ∀ D : Nat → Nat → Rat,
    (∀ x y, x ∈ t.tips → y ∈ t.tips → D x y = splitDist (splitsOf t) x y) → Real D t := by
  induction t with
  | tip a => intro D _; trivial
  | bin l1 t1 l2 t2 ih1 ih2 =>
    intro D hD
    rw [tips_bin_eq] at hnd hD
    have hd := List.disjoint_of_nodup_append hnd
    have hn1 := (List.nodup_append.1 hnd).1
    have hn2 := (List.nodup_append.1 hnd).2.1
    have hsplit : ∀ x y, splitDist (splitsOf (T.bin l1 t1 l2 t2)) x y
        = l1 * sep (memb t1) x y + (l2 * sep (memb t2) x y +
          (wsum (splitsOf t1) (fun s => sep s x y) + wsum (splitsOf t2) (fun s => sep s x y))) := by
      intro x y
      show wsum ((l1, memb t1) :: (l2, memb t2) :: (splitsOf t1 ++ splitsOf t2)) _ = _
      simp only [wsum]
      rw [wsum_append]
    refine ⟨ih1 hn1 D ?_, ih2 hn2 D ?_, ?_⟩
    · intro x y hx hy
      have hx2 : x ∉ t2.tips := fun h => hd hx h
      have hy2 : y ∉ t2.tips := fun h => hd hy h
      rw [hD x y (List.mem_append_left _ hx) (List.mem_append_left _ hy), hsplit,
        sep_memb_in t1 x y hx hy, sep_memb_out t2 x y hx2 hy2,
        wsum_eq_zero (splitsOf t2) _ (fun S hS => sep_out S t2 hS x y hx2 hy2)]
      unfold splitDist; ring
    · intro x y hx hy
      have hx1 : x ∉ t1.tips := fun h => hd h hx
      have hy1 : y ∉ t1.tips := fun h => hd h hy
      rw [hD x y (List.mem_append_right _ hx) (List.mem_append_right _ hy), hsplit,
        sep_memb_out t1 x y hx1 hy1, sep_memb_in t2 x y hx hy,
        wsum_eq_zero (splitsOf t1) _ (fun S hS => sep_out S t1 hS x y hx1 hy1)]
      unfold splitDist; ring
    · intro p hp q hq
      have hx := depth_mem_tips t1 p hp
      have hy := depth_mem_tips t2 q hq
      have hx2 : p.1 ∉ t2.tips := fun h => hd hx h
      have hy1 : q.1 ∉ t1.tips := fun h => hd h hy
      rw [hD p.1 q.1 (List.mem_append_left _ hx) (List.mem_append_right _ hy), hsplit,
        sep_memb_cross t1 p.1 q.1 hx hy1, sep_symm (memb t2), sep_memb_cross t2 q.1 p.1 hy hx2,
        wsum_congr (splitsOf t1) (fun s => sep s p.1 q.1) (fun s => if s p.1 = true then 1 else 0)
          (fun S hS => sep_one_out S t1 hS p.1 q.1 hy1), depth_eq t1 hn1 p hp,
        wsum_congr (splitsOf t2) (fun s => sep s p.1 q.1) (fun s => if s q.1 = true then 1 else 0)
          (fun S hS => by rw [sep_symm]; exact sep_one_out S t2 hS q.1 p.1 hx2), depth_eq t2 hn2 q hq]
      ring

/-- two clades are nested or disjoint -/
def Lam (s t : Side) : Prop :=
  (∀ x, s x = true → t x = true) ∨ (∀ x, t x = true → s x = true) ∨ (∀ x, ¬ (s x = true ∧ t x = true))

theorem Lam.symm {s t : Side} (h : Lam s t) : Lam t s := by
  rcases h with h | h | h
  · exact Or.inr (Or.inl h)
  · exact Or.inl h
  · exact Or.inr (Or.inr (fun x hx => h x ⟨hx.2, hx.1⟩))

theorem Lam.compat {s t : Side} (L : Nat) (h : Lam s t) : Compat L s t := by
  rcases h with h | h | h
  · exact ⟨true, false, fun x _ hx => by have := h x hx.1; rw [hx.2] at this; cases this⟩
  · exact ⟨false, true, fun x _ hx => by have := h x hx.2; rw [hx.1] at this; cases this⟩
  · exact ⟨true, true, fun x _ hx => h x hx⟩

theorem splitsOf_lam (t : T) (hnd : t.tips.Nodup) : ∀ S ∈ splitsOf t, ∀ U ∈ splitsOf t, Lam S.2 U.2 := by
  induction t with
  | tip a => intro S hS; cases hS
  | bin l1 t1 l2 t2 ih1 ih2 =>
    rw [tips_bin_eq] at hnd
    have hd := List.disjoint_of_nodup_append hnd
    have hn1 := (List.nodup_append.1 hnd).1
    have hn2 := (List.nodup_append.1 hnd).2.1
    -- basic relations
    have h12 : Lam (memb t1) (memb t2) :=
      Or.inr (Or.inr (fun x hx => hd ((memb_iff _ _).1 hx.1) ((memb_iff _ _).1 hx.2)))
    have hin1 : ∀ S ∈ splitsOf t1, Lam S.2 (memb t1) :=
      fun S hS => Or.inl (fun x hx => (memb_iff _ _).2 (splitsOf_sub t1 S hS x hx))
    have hin2 : ∀ S ∈ splitsOf t2, Lam S.2 (memb t2) :=
      fun S hS => Or.inl (fun x hx => (memb_iff _ _).2 (splitsOf_sub t2 S hS x hx))
    have hout1 : ∀ S ∈ splitsOf t1, Lam S.2 (memb t2) :=
      fun S hS => Or.inr (Or.inr (fun x hx => hd (splitsOf_sub t1 S hS x hx.1) ((memb_iff _ _).1 hx.2)))
    have hout2 : ∀ S ∈ splitsOf t2, Lam S.2 (memb t1) :=
      fun S hS => Or.inr (Or.inr (fun x hx => hd ((memb_iff _ _).1 hx.2) (splitsOf_sub t2 S hS x hx.1)))
    have hcross : ∀ S ∈ splitsOf t1, ∀ U ∈ splitsOf t2, Lam S.2 U.2 :=
      fun S hS U hU => Or.inr (Or.inr (fun x hx => hd (splitsOf_sub t1 S hS x hx.1) (splitsOf_sub t2 U hU x hx.2)))
    have hself : ∀ s : Side, Lam s s := fun s => Or.inl (fun _ h => h)
    intro S hS U hU
    simp only [splitsOf, List.mem_cons, List.mem_append] at hS hU
    rcases hS with rfl | rfl | hS | hS <;> rcases hU with rfl | rfl | hU | hU
    · exact hself _
    · exact h12
    · exact (hin1 U hU).symm
    · exact (hout2 U hU).symm
    · exact h12.symm
    · exact hself _
    · exact (hout1 U hU).symm
    · exact (hin2 U hU).symm
    · exact hin1 S hS
    · exact hout1 S hS
    · exact ih1 hn1 S hS U hU
    · exact hcross S hS U hU
    · exact hout2 S hS
    · exact hin2 S hS
    · exact (hcross U hU S hS).symm
    · exact ih2 hn2 S hS U hU

theorem splitsOf_nonneg (t : T) (h : NonNegT t) : ∀ S ∈ splitsOf t, 0 ≤ S.1 := by
  induction t with
  | tip a => intro S hS; cases hS
  | bin l1 t1 l2 t2 ih1 ih2 =>
    obtain ⟨h1, h2, h3, h4⟩ := h
    intro S hS
    simp only [splitsOf, List.mem_cons, List.mem_append] at hS
    rcases hS with rfl | rfl | hS | hS
    · exact h1
    · exact h2
    · exact ih1 h3 S hS
    · exact ih2 h4 S hS

/-- a generating tree with non-negative branch lengths and distinct tips is a split system on any leaf range -/
theorem splitsOf_system (t : T) (L : Nat) (hnn : NonNegT t) (hnd : t.tips.Nodup) : SplitSystem L (splitsOf t) :=
  ⟨splitsOf_nonneg t hnn, fun S hS U hU => (splitsOf_lam t hnd S hS U hU).compat L⟩
end CogentModel.NJ
