/-
  Helper lemmas for Props/C04GenSlice.lean that do not mention generated text: the prelude's FeatureMap accessors
  (Model/FeatureSliceGenPrelude.lean) versus the hand model's `realOf` / `sliceIdx` / `contigIdx`.
-/
import CogentModel.Model.FeatureSliceGenPrelude
import CogentModel.Proofs.FeatureContig
namespace CogentModel.C04GenSlice
open CogentModel.View CogentModel.SeqWrap CogentModel.FeatureView

theorem complete_withoutGaps (m : FMapG) : (FMapG.withoutGaps m).complete = true := by
  simp [FMapG.complete, FMapG.withoutGaps]

theorem realOf_withoutGaps (m : FMapG) : realOf (FMapG.withoutGaps m).spans = realOf m.spans := by
  unfold FMapG.withoutGaps realOf
  simp only []
  induction m.spans with
  | nil => rfl
  | cons x xs ih =>
    cases x with
    | span a b =>
      have hx : (!(MSpan.span a b).isLost) = true := rfl
      simp only [List.filter_cons, hx, if_true, List.filterMap_cons, ih]
    | lost n =>
      have hx : (!(MSpan.lost n).isLost) = false := rfl
      simp only [List.filter_cons, hx, Bool.false_eq_true, if_false, List.filterMap_cons, ih]

theorem withoutGaps_of_complete (m : FMapG) (h : m.complete = true) : FMapG.withoutGaps m = m := by
  unfold FMapG.withoutGaps
  unfold FMapG.complete at h
  have : m.spans.filter (fun x => !x.isLost) = m.spans := List.filter_eq_self.mpr (by simpa using h)
  rw [this]

theorem flatten_strSlice (comp : Char → Char) (s : Seq) (r : List (Int × Int)) :
    (r.map fun p => strSlice comp s p.1 p.2).flatten = (r.flatMap fun p => irange p.1 p.2).map fun i => (str comp s)[i.toNat]! := by
  induction r with
  | nil => rfl
  | cons p ps ih =>
    rw [List.map_cons, List.flatten_cons, List.flatMap_cons, List.map_append, ih]; rfl

/-- the hand model's reading of `self.parent[m]` for the OLD class: residues of the real spans, joined -/
def joined (comp : Char → Char) (s : Seq) (m : List MSpan) : List Char :=
  (sliceIdx { spans := m, reversed := false }).map fun i => (str comp s)[i.toNat]!

theorem contigIdx_eq (m : List MSpan) (r : Bool) : contigIdx { spans := m, reversed := r } = irange (mapStart (realOf m)) (mapEnd (realOf m)) := by
  unfold contigIdx
  simp only []
  cases h : realOf m with
  | nil => simp [mapStart, mapEnd, irange]
  | cons p ps => rfl

def spanOf (p : Int × Int) : MSpan := .span p.1 p.2

theorem realOf_map_spanOf (r : List (Int × Int)) : realOf (r.map spanOf) = r := by
  induction r with
  | nil => rfl
  | cons p ps ih => simp only [List.map_cons, realOf, spanOf, List.filterMap_cons] at ih ⊢; rw [ih]

theorem spans_of_complete (sp : List MSpan) (h : (sp.all fun x => !x.isLost) = true) : sp = (realOf sp).map spanOf := by
  induction sp with
  | nil => rfl
  | cons x xs ih =>
    simp only [List.all_cons, Bool.and_eq_true] at h
    cases x with
    | lost n => simp [MSpan.isLost] at h
    | span a b =>
      have := ih h.2
      simp only [realOf, List.filterMap_cons, List.map_cons, spanOf] at this ⊢
      rw [← this]

end CogentModel.C04GenSlice
