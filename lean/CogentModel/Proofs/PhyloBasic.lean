import CogentModel.Spec.PhyloSplits
import Mathlib.Algebra.Group.Basic
import Mathlib.Tactic.Abel
/-! C09 helper lemmas: lists of subtrees, the split-multiset equivalence, one rotation. -/
namespace CogentModel.Phylo
open PTree
variable {K : Type}

@[simp] theorem name_node (n : String) (l : Option K) (cs : List (PTree K)) : (PTree.node n l cs).name = n := rfl
@[simp] theorem len_node (n : String) (l : Option K) (cs : List (PTree K)) : (PTree.node n l cs).len = l := rfl
@[simp] theorem children_node (n : String) (l : Option K) (cs : List (PTree K)) :
    (PTree.node n l cs).children = cs := rfl

theorem tipsL_append (l1 l2 : List (PTree K)) : tipsL (l1 ++ l2) = tipsL l1 ++ tipsL l2 := by
  induction l1 with
  | nil => simp [tipsL]
  | cons c cs ih => simp [tipsL, ih]

theorem splitsL_append (l1 l2 : List (PTree K)) : splitsL (l1 ++ l2) = splitsL l1 ++ splitsL l2 := by
  induction l1 with
  | nil => simp [splitsL]
  | cons c cs ih => simp [splitsL, ih]

theorem tips_node_ne_nil (n : String) (l : Option K) (cs : List (PTree K)) (h : cs ≠ []) :
    tips (.node n l cs) = tipsL cs := by
  cases cs with
  | nil => exact absurd rfl h
  | cons c cs => simp [tips, tipsL]

theorem tips_node_eq (n : String) (l : Option K) (cs : List (PTree K)) :
    tips (PTree.node n l cs) = if cs = [] then [n] else tipsL cs := by
  cases cs <;> simp [tips, tipsL]

theorem tips_eta (t : PTree K) : t = .node t.name t.len t.children := by cases t; rfl

theorem pick_eq {α : Type} : ∀ (l : List α) (i : Nat) (pre : List α) (y : α) (post : List α),
    pick l i = some (pre, y, post) → l = pre ++ y :: post
  | [], _, _, _, _, h => by simp [pick] at h
  | x :: xs, 0, pre, y, post, h => by
    simp [pick] at h; obtain ⟨rfl, rfl, rfl⟩ := h; rfl
  | x :: xs, i + 1, pre, y, post, h => by
    simp only [pick] at h
    cases hp : pick xs i with
    | none => simp [hp] at h
    | some v =>
      obtain ⟨pre', y', post'⟩ := v
      simp [hp] at h
      obtain ⟨rfl, rfl, rfl⟩ := h
      have := pick_eq xs i pre' y' post' hp
      simp [this]

/-! ### sums -/
section sums
variable [AddCommMonoid K]

theorem sumBy_append {α : Type} (f : α → K) (l1 l2 : List α) :
    sumBy f (l1 ++ l2) = sumBy f l1 + sumBy f l2 := by
  induction l1 with
  | nil => simp [sumBy]
  | cons x xs ih => simp [sumBy, ih, add_assoc]

theorem sumBy_congr {α : Type} (f g : α → K) (l : List α) (h : ∀ x ∈ l, f x = g x) :
    sumBy f l = sumBy g l := by
  induction l with
  | nil => rfl
  | cons x xs ih =>
    simp only [sumBy]
    rw [h x (by simp), ih (fun y hy => h y (by simp [hy]))]

theorem sumBy_zero {α : Type} (f : α → K) (l : List α) (h : ∀ x ∈ l, f x = 0) : sumBy f l = 0 := by
  induction l with
  | nil => rfl
  | cons x xs ih =>
    simp only [sumBy]
    rw [h x (by simp), ih (fun y hy => h y (by simp [hy]))]; simp

theorem sumBy_perm {α : Type} (f : α → K) {l1 l2 : List α} (h : l1.Perm l2) :
    sumBy f l1 = sumBy f l2 := by
  induction h with
  | nil => rfl
  | cons x _ ih => simp [sumBy, ih]
  | swap x y l => simp only [sumBy]; abel
  | trans _ _ ih1 ih2 => exact ih1.trans ih2
end sums

/-! ### bipartitions -/
theorem bipEquiv_refl (T A : List String) : bipEquiv T A A := fun _ _ _ _ => rfl

theorem bipEquiv_symm {T A B : List String} (h : bipEquiv T A B) : bipEquiv T B A :=
  fun a ha b hb => (h a ha b hb).symm

theorem bipEquiv_trans {T A B C : List String} (h1 : bipEquiv T A B) (h2 : bipEquiv T B C) :
    bipEquiv T A C := fun a ha b hb => (h1 a ha b hb).trans (h2 a ha b hb)

/-- a side and its complement in `T` are the same bipartition -/
theorem bipEquiv_compl {T A B : List String} (h : ∀ a ∈ T, (a ∈ A ↔ ¬ a ∈ B)) : bipEquiv T A B := by
  intro a ha b hb
  unfold sep
  have h1 := h a ha
  have h2 := h b hb
  by_cases p : a ∈ B <;> by_cases q : b ∈ B <;> simp_all

/-- sides with the same members among `T` are the same bipartition -/
theorem bipEquiv_same {T A B : List String} (h : ∀ a ∈ T, (a ∈ A ↔ a ∈ B)) : bipEquiv T A B := by
  intro a ha b hb
  unfold sep
  have h1 := h a ha
  have h2 := h b hb
  by_cases p : a ∈ B <;> by_cases q : b ∈ B <;> simp_all

theorem sep_comm (a b : String) (A : List String) : sep a b A = sep b a A := by
  unfold sep
  by_cases p : a ∈ A <;> by_cases q : b ∈ A <;> simp_all

theorem splitEquiv_refl (T : List String) (s : Split K) : splitEquiv T s s :=
  ⟨rfl, rfl, bipEquiv_refl T _⟩

/-! ### the multiset equivalence -/
namespace SplitsEquiv

theorem refl (T : List String) : ∀ l : List (Split K), SplitsEquiv T l l
  | [] => .nil
  | s :: l => .cons (splitEquiv_refl T s) (refl T l)

theorem of_perm (T : List String) {l l' : List (Split K)} (h : l.Perm l') : SplitsEquiv T l l' := by
  induction h with
  | nil => exact .nil
  | cons x _ ih => exact .cons (splitEquiv_refl T x) ih
  | swap x y l => exact .swap y x l
  | trans _ _ ih1 ih2 => exact .trans ih1 ih2

theorem append_right (T : List String) {l1 l1' : List (Split K)} (l2 : List (Split K))
    (h : SplitsEquiv T l1 l1') : SplitsEquiv T (l1 ++ l2) (l1' ++ l2) := by
  induction h with
  | nil => exact refl T l2
  | cons hs _ ih => exact .cons hs ih
  | swap a b l => exact .swap a b (l ++ l2)
  | trans _ _ ih1 ih2 => exact .trans ih1 ih2

theorem append_left (T : List String) (l1 : List (Split K)) {l2 l2' : List (Split K)}
    (h : SplitsEquiv T l2 l2') : SplitsEquiv T (l1 ++ l2) (l1 ++ l2') := by
  induction l1 with
  | nil => exact h
  | cons s l ih => exact .cons (splitEquiv_refl T s) ih

theorem append (T : List String) {l1 l1' l2 l2' : List (Split K)}
    (h1 : SplitsEquiv T l1 l1') (h2 : SplitsEquiv T l2 l2') : SplitsEquiv T (l1 ++ l2) (l1' ++ l2') :=
  .trans (append_right T l2 h1) (append_left T l1' h2)

theorem symm (T : List String) {l l' : List (Split K)} (h : SplitsEquiv T l l') : SplitsEquiv T l' l := by
  induction h with
  | nil => exact .nil
  | cons hs _ ih => exact .cons ⟨hs.1.symm, hs.2.1.symm, bipEquiv_symm hs.2.2⟩ ih
  | swap a b l => exact .swap b a l
  | trans _ _ ih1 ih2 => exact .trans ih2 ih1

/-- the equivalence only looks at membership in `T` -/
theorem mono {T T' : List String} (hT : ∀ x, x ∈ T' → x ∈ T) {l l' : List (Split K)}
    (h : SplitsEquiv T l l') : SplitsEquiv T' l l' := by
  induction h with
  | nil => exact .nil
  | cons hs _ ih =>
    exact .cons ⟨hs.1, hs.2.1, fun a ha b hb => hs.2.2 a (hT a ha) b (hT b hb)⟩ ih
  | swap a b l => exact .swap a b l
  | trans _ _ ih1 ih2 => exact .trans ih1 ih2

theorem length_eq {T : List String} {l l' : List (Split K)} (h : SplitsEquiv T l l') :
    l.length = l'.length := by
  induction h with
  | nil => rfl
  | cons _ _ ih => simp [ih]
  | swap a b l => simp
  | trans _ _ ih1 ih2 => exact ih1.trans ih2

/-- distances are a function of the split multiset -/
theorem sum_eq [AddCommMonoid K] {T : List String} (d : K) {a b : String} (ha : a ∈ T) (hb : b ∈ T)
    {l l' : List (Split K)} (h : SplitsEquiv T l l') :
    sumBy (splitW d a b) l = sumBy (splitW d a b) l' := by
  induction h with
  | nil => rfl
  | cons hs _ ih =>
    simp only [sumBy, ih]
    congr 1
    unfold splitW
    rw [hs.2.2 a ha b hb, hs.2.1]
  | swap x y l => simp only [sumBy]; abel
  | trans _ _ ih1 ih2 => exact ih1.trans ih2

end SplitsEquiv

/-! ### one rotation across an edge -/
theorem splitsL_perm {l l' : List (PTree K)} (h : l.Perm l') : (splitsL l).Perm (splitsL l') := by
  induction h with
  | nil => exact .refl _
  | cons x _ ih => simp only [splitsL]; exact List.Perm.append_left _ ih
  | swap x y l =>
    simp only [splitsL]
    rw [← List.append_assoc, ← List.append_assoc]
    exact List.Perm.append_right _ List.perm_append_comm
  | trans _ _ ih1 ih2 => exact ih1.trans ih2

theorem tipsL_perm {l l' : List (PTree K)} (h : l.Perm l') : (tipsL l).Perm (tipsL l') := by
  induction h with
  | nil => exact .refl _
  | cons x _ ih => simp only [tipsL]; exact List.Perm.append_left _ ih
  | swap x y l =>
    simp only [tipsL]
    rw [← List.append_assoc, ← List.append_assoc]
    exact List.Perm.append_right _ List.perm_append_comm
  | trans _ _ ih1 ih2 => exact ih1.trans ih2

/-- the tips seen from the two ends of the rotated edge -/
theorem rotate_tips (pre post above xcs : List (PTree K)) (xn : String) (xl : Option K)
    (hx : xcs ≠ []) (hrest : pre ++ post ++ above ≠ []) :
    (tipsL (xcs ++ [PTree.node xn xl (pre ++ post ++ above)])).Perm
      (tipsL ((pre ++ PTree.node xn xl xcs :: post) ++ above)) := by
  have hN := tips_node_ne_nil xn xl (pre ++ post ++ above) hrest
  have hX := tips_node_ne_nil xn xl xcs hx
  simp only [tipsL_append, tipsL, hN, hX, List.append_nil]
  simp only [List.append_assoc]
  exact (List.perm_append_comm_assoc _ _ _)

theorem rotate_splits (pre post above xcs : List (PTree K)) (xn : String) (xl : Option K)
    (hx : xcs ≠ []) (hrest : pre ++ post ++ above ≠ []) (T : List String)
    (hT : (tipsL ((pre ++ PTree.node xn xl xcs :: post) ++ above)).Perm T) (hnd : T.Nodup) :
    SplitsEquiv T (splitsL ((pre ++ PTree.node xn xl xcs :: post) ++ above))
      (splitsL (xcs ++ [PTree.node xn xl (pre ++ post ++ above)])) := by
  have hp := (rotate_tips pre post above xcs xn xl hx hrest).trans hT
  -- sides of the rotated edge: A below x, B everything else
  have hAB : (tipsL xcs ++ tipsL (pre ++ post ++ above)).Perm T := by
    have hN := tips_node_ne_nil xn xl (pre ++ post ++ above) hrest
    simpa only [tipsL_append, tipsL, hN, List.append_nil] using hp
  have hnd' := (hAB.nodup_iff).2 hnd
  have hdisj := (List.nodup_append.1 hnd').2.2
  have hside : splitEquiv T (edgeSplit (PTree.node xn xl xcs))
      (edgeSplit (PTree.node xn xl (pre ++ post ++ above))) := by
    refine ⟨rfl, rfl, ?_⟩
    apply bipEquiv_compl
    intro a ha
    simp only [edgeSplit, tips_node_ne_nil _ _ _ hx, tips_node_ne_nil _ _ _ hrest]
    have hmem := (hAB.mem_iff (a := a)).2 ha
    constructor
    · intro h1 h2; exact hdisj a h1 a h2 rfl
    · intro h2
      rcases List.mem_append.1 hmem with h | h
      · exact h
      · exact absurd h h2
  -- both sides are (rotated edge) :: (everything else), up to a permutation
  have hL : (splitsL ((pre ++ PTree.node xn xl xcs :: post) ++ above)).Perm
      (edgeSplit (PTree.node xn xl xcs) ::
        (splitsL xcs ++ (splitsL pre ++ (splitsL post ++ splitsL above)))) := by
    simp only [splitsL_append, splitsL, splits, List.append_assoc, List.cons_append]
    refine List.perm_middle.trans (List.Perm.cons _ ?_)
    exact List.perm_append_comm_assoc _ _ _
  have hR : (splitsL (xcs ++ [PTree.node xn xl (pre ++ post ++ above)])).Perm
      (edgeSplit (PTree.node xn xl (pre ++ post ++ above)) ::
        (splitsL xcs ++ (splitsL pre ++ (splitsL post ++ splitsL above)))) := by
    simp only [splitsL_append, splitsL, splits, List.append_assoc, List.append_nil]
    exact List.perm_middle
  exact .trans (SplitsEquiv.of_perm T hL)
    (.trans (.cons hside (SplitsEquiv.refl T _)) (SplitsEquiv.of_perm T hR.symm))

end CogentModel.Phylo
