import CogentModel.Proofs.ViewChain
/-! Which step / `seq_len` the result of an operation carries (needed for the complement rule and the `_zero_slice` parent). -/
namespace CogentModel.View
open CogentModel

theorem inputValsPos_step (n : Int) (a b : Option Int) (K : Int) :
    (inputValsPos n a b K).2.2 = K ∨ inputValsPos n a b K = (0, 0, 1) := by
  unfold inputValsPos
  simp only []
  (repeat' split) <;> simp

theorem inputValsNeg_step (n : Int) (a b : Option Int) (K : Int) :
    (inputValsNeg n a b K).2.2 = K ∨ inputValsNeg n a b K = (0, 0, 1) := by
  unfold inputValsNeg inputValsNegTail
  simp only []
  (repeat' split) <;> simp

/-- the constructor keeps the step it is given, or returns the empty `(0, 0, 1)` record -/
theorem remk_step (v w : View) (a b K : Int) (hw : remk v a b K = .ok w) : w.step = K ∨ len w = 0 := by
  unfold remk mk at hw
  split at hw
  · cases hw
  · have hw' := (Except.ok.inj hw).symm
    simp only [Option.getD_some] at hw'
    split at hw'
    · rcases inputValsPos_step v.seqLen (some a) (some b) K with h | h
      · left; rw [hw']; exact h
      · right; rw [hw', h]; rfl
    · rcases inputValsNeg_step v.seqLen (some a) (some b) K with h | h
      · left; rw [hw']; exact h
      · right; rw [hw', h]; rfl

/-- every successful result has step `K` or is empty -/
def StepGood (K : Int) (r : Except Err View) : Prop := ∀ w, r = .ok w → w.step = K ∨ len w = 0

theorem sg_ite {K : Int} {c : Prop} [Decidable c] {x y : Except Err View} (hx : StepGood K x)
    (hy : StepGood K y) : StepGood K (if c then x else y) := by
  split <;> assumption

theorem sg_zero (K : Int) (fl : Flavour) (v : View) : StepGood K (.ok (zero fl v)) := by
  intro w hw; right; rw [← Except.ok.inj hw]; exact len_zero fl v

theorem sg_err {K : Int} {e : Err} : StepGood K (.error e) := by
  intro w hw; cases hw

theorem sg_remk (v : View) (a b K : Int) : StepGood K (remk v a b K) :=
  fun w hw => remk_step v w a b K hw

theorem getitemSlice_step (fl : Flavour) (v w : View) (a b c : Option Int)
    (hw : getitemSlice fl v a b c = .ok w) : w.step = v.step * c.getD 1 ∨ len w = 0 := by
  have key : StepGood (v.step * c.getD 1) (getitemSlice fl v a b c) := by
    unfold getitemSlice
    split
    · rename_i h
      obtain ⟨_, _, hc⟩ := h
      subst hc
      have e : v.step * (none : Option Int).getD 1 = v.step := by simp
      rw [e]
      cases fl
      · exact sg_remk v _ _ _
      · intro w hw; left; rw [← Except.ok.inj hw]
    split
    · rename_i h0
      intro w hw; right; rw [← Except.ok.inj hw]; exact h0
    apply sg_ite (sg_zero _ fl v)
    simp only []
    unfold fwdFromFwd fwdFromRev revFromFwd revFromRev revFromRevTail
    repeat (first | exact sg_zero _ fl v | exact sg_remk v _ _ _ | exact sg_err | apply sg_ite)
  exact key w hw

theorem getitemInt_step (v w : View) (h : Inv v) (i : Int) (hw : getitemInt v i = .ok w) :
    (w.step < 0 ↔ v.step < 0) ∨ len w = 0 := by
  have hn := len_nonneg v
  by_cases hr : len v ≠ 0 ∧ -len v ≤ i ∧ i < len v
  · obtain ⟨hn0, h1, h2⟩ := hr
    rw [getitemInt_eq v i _ (getIndex_ok v i hn0 h1 h2)] at hw
    have hk : v.step > 0 ∨ v.step < 0 := by rcases h with ⟨_, hI | hI⟩ <;> omega
    rcases hk with hk | hk
    · simp only [hk, if_true] at hw
      rcases remk_step v w _ _ _ hw with e | e
      · left; rw [e]; omega
      · right; exact e
    · have hk' : ¬ v.step > 0 := by omega
      simp only [hk', if_false] at hw
      rcases remk_step v w _ _ _ hw with e | e
      · left; rw [e]; omega
      · right; exact e
  · have herr : getIndex v i = .error .indexError := getIndex_err v i (by omega)
    unfold getitemInt at hw
    rw [herr] at hw
    cases hw

/-- with the `SeqView` flavour every result keeps `seq_len` or is the `_zero_slice` -/
def LenGood (v : View) (r : Except Err View) : Prop := ∀ w, r = .ok w → w.seqLen = v.seqLen ∨ w = zeroSlice

theorem lg_ite {v : View} {c : Prop} [Decidable c] {x y : Except Err View} (hx : LenGood v x)
    (hy : LenGood v y) : LenGood v (if c then x else y) := by
  split <;> assumption

theorem lg_zero (v : View) : LenGood v (.ok (zero .seqView v)) := by
  intro w hw; right; rw [← Except.ok.inj hw]; rfl

theorem lg_self (v : View) : LenGood v (.ok v) := by
  intro w hw; left; rw [← Except.ok.inj hw]

theorem lg_err {v : View} {e : Err} : LenGood v (.error e) := by
  intro w hw; cases hw

theorem lg_remk (v : View) (a b K : Int) : LenGood v (remk v a b K) :=
  fun w hw => Or.inl (remk_seqLen v a b K w hw).1

theorem getitemSlice_seqLen (v w : View) (a b c : Option Int)
    (hw : getitemSlice .seqView v a b c = .ok w) : w.seqLen = v.seqLen ∨ w = zeroSlice := by
  have key : LenGood v (getitemSlice .seqView v a b c) := by
    unfold getitemSlice
    apply lg_ite (lg_remk v _ _ _)
    apply lg_ite (lg_self v)
    apply lg_ite (lg_zero v)
    simp only []
    unfold fwdFromFwd fwdFromRev revFromFwd revFromRev revFromRevTail
    repeat (first | exact lg_zero v | exact lg_remk v _ _ _ | exact lg_err | apply lg_ite)
  exact key w hw

theorem getitemInt_seqLen (v w : View) (i : Int) (hw : getitemInt v i = .ok w) :
    w.seqLen = v.seqLen := by
  unfold getitemInt at hw
  cases hg : getIndex v i with
  | error e => simp [hg, bind, Except.bind] at hw
  | ok r =>
    obtain ⟨a, b, c⟩ := r
    simp [hg, bind, Except.bind] at hw
    exact (remk_seqLen v a b c w hw).1

end CogentModel.View
