import CogentModel.Proofs.IndelMapBridge1
namespace CogentModel.IndelMap
open CogentModel.Gapped List

def sbB (starts ends : List Int) (start : Int) (l : Nat) : Nat :=
  if start < getN starts 0 then 0
  else if getN starts l ≤ start ∧ start < getN ends l then l
  else if start = getN ends l then l + 1 else l

def sbL (starts ends L : List Int) (start : Int) (l : Nat) : List Int :=
  if start < getN starts 0 then L
  else if getN starts l ≤ start ∧ start < getN ends l then L.set l (getN L l - (start - getN starts l))
  else L

theorem sliceBegin_eq (m : IMap) (start : Int) (l : Nat) (starts ends L : List Int)
    (h : m.gapPos.headD 0 = getN starts 0) :
    (sliceBegin m start l starts ends L).1 = sbB starts ends start l ∧
    (sliceBegin m start l starts ends L).2.2 = sbL starts ends L start l := by
  unfold sliceBegin sbB sbL
  rw [h]
  split
  · exact ⟨rfl, rfl⟩
  · split
    · exact ⟨rfl, rfl⟩
    · split <;> exact ⟨rfl, rfl⟩

theorem seE_cons_succ (sd e : Int) (S E : List Int) (stop : Int) (r : Nat) :
    seE (sd :: S) (e :: E) stop (r + 1) = seE S E stop r + 1 := by
  unfold seE
  simp only [length_cons, Nat.add_right_cancel_iff, getN_cons_succ]
  split
  · rfl
  · split <;> rfl

theorem seL_cons_succ (sd e x : Int) (S E L : List Int) (stop : Int) (r : Nat) :
    seL (sd :: S) (e :: E) (x :: L) stop (r + 1) = x :: seL S E L stop r := by
  unfold seL
  simp only [length_cons, Nat.add_right_cancel_iff, getN_cons_succ]
  split
  · rfl
  · split
    · rw [set_cons_succ]
    · rfl

theorem startsOK_refl (stop : Int) (T : List Trip) : StartsOK stop (T.map (·.2.1)) T := by
  induction T with
  | nil => trivial
  | cons t r ih => exact ⟨Iff.rfl, ih⟩

theorem getN_nil (k : Nat) : getN [] k = 0 := by simp [getN]

/-- the whole index computation of `__getitem__` (start phase, stop phase, `take`/`drop`) equals
dropping then taking on the triples -/
theorem core_spec (start stop : Int) (hlt : start < stop) (T : List Trip) : ∀ (lo : Int), TSorted lo T →
    ((T.map (·.1)).take
        (seE (T.map (·.2.1)) (T.map (·.2.2)) stop
          (ssRight ((T.map (·.2.2)).drop (ssLeft (T.map (·.2.2)) start)) stop + ssLeft (T.map (·.2.2)) start))).drop
      (sbB (T.map (·.2.1)) (T.map (·.2.2)) start (ssLeft (T.map (·.2.2)) start))
      = (takeT stop (dropT start T)).map (·.1) ∧
    ((seL (T.map (·.2.1)) (T.map (·.2.2))
          (sbL (T.map (·.2.1)) (T.map (·.2.2)) (T.map tlen) start (ssLeft (T.map (·.2.2)) start)) stop
          (ssRight ((T.map (·.2.2)).drop (ssLeft (T.map (·.2.2)) start)) stop + ssLeft (T.map (·.2.2)) start)).take
        (seE (T.map (·.2.1)) (T.map (·.2.2)) stop
          (ssRight ((T.map (·.2.2)).drop (ssLeft (T.map (·.2.2)) start)) stop + ssLeft (T.map (·.2.2)) start))).drop
      (sbB (T.map (·.2.1)) (T.map (·.2.2)) start (ssLeft (T.map (·.2.2)) start))
      = (takeT stop (dropT start T)).map tlen := by
  induction T with
  | nil => intro lo _; simp [ssLeft, ssRight, seE, seL, sbB, sbL, dropT, takeT]
  | cons t r ih =>
    intro lo hs
    obtain ⟨p, s, e⟩ := t
    obtain ⟨h1, h2, h3⟩ := hs
    obtain ⟨i1, i2⟩ := ih (e + 1) h3
    by_cases c1 : e < start
    · -- the first gap lies entirely before `start`: every index shifts by one
      have hl : ssLeft (map (·.2.2) ((p, s, e) :: r)) start = ssLeft (map (·.2.2) r) start + 1 := by
        simp only [map_cons, ssLeft, c1, if_true]
      have hB : sbB (map (·.2.1) ((p, s, e) :: r)) (map (·.2.2) ((p, s, e) :: r)) start (ssLeft (map (·.2.2) r) start + 1)
          = sbB (map (·.2.1) r) (map (·.2.2) r) start (ssLeft (map (·.2.2) r) start) + 1 ∧
          sbL (map (·.2.1) ((p, s, e) :: r)) (map (·.2.2) ((p, s, e) :: r)) (map tlen ((p, s, e) :: r)) start (ssLeft (map (·.2.2) r) start + 1)
          = tlen (p, s, e) :: sbL (map (·.2.1) r) (map (·.2.2) r) (map tlen r) start (ssLeft (map (·.2.2) r) start) := by
        unfold sbB sbL
        simp only [map_cons, getN_cons_zero, getN_cons_succ]
        rw [if_neg (show ¬ start < s by omega), if_neg (show ¬ start < s by omega)]
        by_cases cA : start < getN (map (·.2.1) r) 0
        · rw [if_pos cA, if_pos cA]
          have hl0 : ssLeft (map (·.2.2) r) start = 0 ∧ start ≠ getN (map (·.2.2) r) 0 := by
            cases r with
            | nil => simp only [map_nil, getN_nil] at cA ⊢; exact ⟨rfl, by omega⟩
            | cons t' r' =>
              obtain ⟨p', s', e'⟩ := t'
              simp only [map_cons, getN_cons_zero] at cA ⊢
              have := h3.2.1
              simp only [ssLeft]
              rw [if_neg (by omega)]
              exact ⟨rfl, by omega⟩
          rw [hl0.1]
          have f1 : ¬ (getN (map (fun x : Trip => x.2.1) r) 0 ≤ start ∧ start < getN (map (fun x : Trip => x.2.2) r) 0) := by omega
          have f2 : ¬ start = getN (map (fun x : Trip => x.2.2) r) 0 := hl0.2
          simp only [f1, f2, if_false]
          refine ⟨by simp, by simp⟩
        · rw [if_neg cA, if_neg cA]
          split
          · exact ⟨rfl, by rw [set_cons_succ]⟩
          · split <;> exact ⟨rfl, rfl⟩
      rw [hl]
      simp only [dropT, if_pos (show e ≤ start by omega)]
      rw [hB.1, hB.2]
      simp only [map_cons, drop_succ_cons]
      rw [← Nat.add_assoc, seE_cons_succ, seL_cons_succ, take_succ_cons, take_succ_cons, drop_succ_cons, drop_succ_cons]
      exact ⟨i1, i2⟩
    · -- `start ≤ e`: the first gap is the first relevant one
      have hl : ssLeft (map (·.2.2) ((p, s, e) :: r)) start = 0 := by
        simp only [map_cons, ssLeft, c1, if_false]
      rw [hl]
      simp only [drop_zero, Nat.add_zero]
      by_cases c2 : start < s
      · have hd : dropT start ((p, s, e) :: r) = (p, s, e) :: r := by
          simp only [dropT]; rw [if_neg (by omega), if_neg (by omega)]
        have hb : sbB (map (·.2.1) ((p, s, e) :: r)) (map (·.2.2) ((p, s, e) :: r)) start 0 = 0 ∧
            sbL (map (·.2.1) ((p, s, e) :: r)) (map (·.2.2) ((p, s, e) :: r)) (map tlen ((p, s, e) :: r)) start 0
              = map tlen ((p, s, e) :: r) := by
          unfold sbB sbL
          simp only [map_cons, getN_cons_zero, c2, if_true, and_self]
        rw [hd, hb.1, hb.2, drop_zero, drop_zero]
        exact sp_spec stop ((p, s, e) :: r) _ (startsOK_refl stop _)
      · by_cases c3 : start < e
        · have hd : dropT start ((p, s, e) :: r) = (p, start, e) :: r := by
            simp only [dropT]; rw [if_neg (by omega), if_pos (by omega)]
          have hb : sbB (map (·.2.1) ((p, s, e) :: r)) (map (·.2.2) ((p, s, e) :: r)) start 0 = 0 ∧
              sbL (map (·.2.1) ((p, s, e) :: r)) (map (·.2.2) ((p, s, e) :: r)) (map tlen ((p, s, e) :: r)) start 0
                = map tlen ((p, start, e) :: r) := by
            unfold sbB sbL
            simp only [map_cons, getN_cons_zero, c2, if_false]
            rw [if_pos (by omega), if_pos (by omega)]
            refine ⟨rfl, ?_⟩
            simp only [set_cons_zero, tlen]
            congr 1; omega
          rw [hd, hb.1, hb.2, drop_zero, drop_zero]
          have := sp_spec stop ((p, start, e) :: r) (map (·.2.1) ((p, s, e) :: r))
            ⟨by simp only [map_cons]; constructor <;> intro _ <;> omega, startsOK_refl stop r⟩
          simpa using this
        · have hse : start = e := by omega
          subst hse
          have hd : dropT start ((p, s, start) :: r) = r := by
            simp only [dropT]; rw [if_pos (by omega)]
            exact dropT_of_lt r start h3
          have hb : sbB (map (·.2.1) ((p, s, start) :: r)) (map (·.2.2) ((p, s, start) :: r)) start 0 = 1 ∧
              sbL (map (·.2.1) ((p, s, start) :: r)) (map (·.2.2) ((p, s, start) :: r)) (map tlen ((p, s, start) :: r)) start 0
                = map tlen ((p, s, start) :: r) := by
            unfold sbB sbL
            have f1 : ¬ (s ≤ start ∧ start < start) := by omega
            simp only [map_cons, getN_cons_zero, c2, if_false, f1]
            simp
          rw [hd, hb.1, hb.2]
          obtain ⟨j1, j2⟩ := sp_spec stop ((p, s, start) :: r) _ (startsOK_refl stop _)
          rw [j1, j2]
          simp only [takeT, if_pos (show start ≤ stop by omega), map_cons, drop_succ_cons, drop_zero]
          exact ⟨trivial, trivial⟩
end CogentModel.IndelMap
