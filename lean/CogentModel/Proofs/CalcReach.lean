import CogentModel.Model.Calculator
import CogentModel.Proofs.CalcInv
/-! # C07 — after a successful call the calculator is at the requested vector (helper lemmas) -/
namespace CogentModel.Calc
variable {V : Type} [Inhabited V]

theorem patch_val (j : Nat) (v : V) : ∀ (l : List (Nat × V)) (x : Nat → V),
    (∀ v', (j, v') ∈ l → v' = v) → (x j = v ∨ ∃ v', (j, v') ∈ l) → patch x l j = v := by
  intro l
  induction l with
  | nil =>
    intro x _ h
    rcases h with h | ⟨v', h⟩
    · exact h
    · simp at h
  | cons p l ih =>
    intro x hu h
    rw [patch_cons]
    apply ih
    · intro v' hv'; exact hu v' (by simp [hv'])
    · by_cases hp : p.1 = j
      · left
        have : p.2 = v := hu p.2 (by rw [← hp]; simp)
        simp [upd, hp, this]
      · rcases h with h | ⟨v', h⟩
        · left; simp [upd, Ne.symm hp, h]
        · right
          refine ⟨v', ?_⟩
          rcases List.mem_cons.1 h with h | h
          · exfalso; apply hp; rw [← h]
          · exact h

theorem nodup_unique : ∀ (l : List (Nat × V)), (l.map Prod.fst).Nodup →
    ∀ j v v', (j, v) ∈ l → (j, v') ∈ l → v = v' := by
  intro l
  induction l with
  | nil => intro _ j v v' h; simp at h
  | cons p l ih =>
    intro hnd j v v' h1 h2
    simp only [List.map_cons, List.nodup_cons] at hnd
    rcases List.mem_cons.1 h1 with h1 | h1 <;> rcases List.mem_cons.1 h2 with h2 | h2
    · rw [← h2] at h1; exact (Prod.mk.inj h1).2
    · exfalso; apply hnd.1; rw [← h1]; exact List.mem_map.2 ⟨(j, v'), h2, rfl⟩
    · exfalso; apply hnd.1; rw [← h2]; exact List.mem_map.2 ⟨(j, v), h1, rfl⟩
    · exact ih hnd.2 j v v' h1 h2

theorem afterUndo_patch [DecidableEq V] (s : St V) (ch : List (Nat × V)) (hnd : (ch.map Prod.fst).Nodup) (j : Nat) :
    patch (afterUndo s ch).1.lastValues (afterUndo s ch).2 j = patch s.lastValues ch j := by
  unfold afterUndo
  split
  · rename_i hu
    simp only []
    have hsub : ∀ p, p ∈ s.lastUndo → p ∈ ch := by
      intro p hp
      simp only [undoApplies, Bool.and_eq_true, List.all_eq_true] at hu
      simpa using hu.2 p hp
    by_cases hex : ∃ v, (j, v) ∈ ch
    · obtain ⟨v, hv⟩ := hex
      have huniq : ∀ v', (j, v') ∈ ch → v' = v := fun v' h => nodup_unique ch hnd j v' v h hv
      rw [patch_val j v ch s.lastValues huniq (Or.inr ⟨v, hv⟩)]
      apply patch_val
      · intro v' h; exact huniq v' (List.mem_filter.1 h).1
      · by_cases hU : (j, v) ∈ s.lastUndo
        · left
          apply patch_val
          · intro v' h; exact huniq v' (hsub _ h)
          · exact Or.inr ⟨v, hU⟩
        · right
          refine ⟨v, List.mem_filter.2 ⟨hv, ?_⟩⟩
          simpa using hU
    · have h1 : j ∉ ch.map Prod.fst := by
        intro h
        obtain ⟨p, hp, hpj⟩ := List.mem_map.1 h
        exact hex ⟨p.2, by rw [← hpj]; exact hp⟩
      have h2 : j ∉ (ch.filter (fun c => !s.lastUndo.contains c)).map Prod.fst := by
        intro h
        obtain ⟨p, hp, hpj⟩ := List.mem_map.1 h
        exact h1 (List.mem_map.2 ⟨p, (List.mem_filter.1 hp).1, hpj⟩)
      have h3 : j ∉ s.lastUndo.map Prod.fst := by
        intro h
        obtain ⟨p, hp, hpj⟩ := List.mem_map.1 h
        exact h1 (List.mem_map.2 ⟨p, hsub p hp, hpj⟩)
      rw [patch_not_mem j _ _ h2, patch_not_mem j _ _ h3, patch_not_mem j _ _ h1]
  · rfl

theorem change_reaches [DecidableEq V] (g : Graph V) (hwf : g.WF) (s : St V) (ch : List (Nat × V))
    (hI : Inv g s) (hv : ValidCh g ch) (v : V) (hr : (change g s ch).2 = some v) (j : Nat) :
    (change g s ch).1.lastValues j = patch s.lastValues ch j := by
  obtain ⟨h1, h2, h3⟩ := afterUndo_spec g s ch hI hv
  obtain ⟨_, b, _⟩ := applyChanges_spec g hwf (afterUndo s ch).1 (afterUndo s ch).2 h3 h1 h2
  have := (b v hr).1
  show (applyChanges g (afterUndo s ch).1 (afterUndo s ch).2).1.lastValues j = _
  rw [this]
  exact afterUndo_patch s ch hv.2 j

theorem patch_diffVec [DecidableEq V] (g : Graph V) (s : St V) (values : List V) (j : Nat) (hj : j < g.nOpt) :
    patch s.lastValues (diffVec g s values) j = values.getD j default := by
  by_cases he : s.lastValues j = values.getD j default
  · rw [patch_not_mem, he]
    intro h
    obtain ⟨p, hp, hpj⟩ := List.mem_map.1 h
    obtain ⟨i, _, hi⟩ := List.mem_filterMap.1 hp
    split at hi
    · cases hi
    · rename_i hne
      cases hi
      simp only [] at hpj
      subst hpj
      exact hne he
  · apply patch_val
    · intro v' h
      obtain ⟨i, _, hi⟩ := List.mem_filterMap.1 h
      split at hi
      · cases hi
      · cases hi; rfl
    · right
      refine ⟨values.getD j default, List.mem_filterMap.2 ⟨j, by simpa using hj, ?_⟩⟩
      exact if_neg he

end CogentModel.Calc
