import CogentModel.Model.AlnView
import CogentModel.Proofs.SeqWrap
import CogentModel.Proofs.AlnRefine2
namespace CogentModel.Aln
open CogentModel.IndelMap CogentModel.Gapped List CogentModel

theorem slice_to_zero {α} [Inhabited α] (xs : List α) : PySlice.slice xs none (some 0) 1 = [] := by
  have := slice_conv xs none (some 0) (by simp [conv]) (by simp [conv])
  rw [this]
  simp [conv]

/-- **the string-level row model is what the view-level row displays**: slicing a row whose data is
a C01 sequence (parent string + slice record, any history behind it) and then displaying it is the
same as slicing the displayed row — by `C01.str_getitem` -/
theorem rowSliceV_sim (cf : Char → Char) (hcf : ∀ x, cf (cf x) = x) (rv rv' : RowV) (a b : Option Int)
    (hs : SeqWrap.WF rv.seq) (h : rowSliceV rv a b = .ok rv') :
    rowSlice (rv.toRow cf) a b = .ok (rv'.toRow cf) ∧ SeqWrap.WF rv'.seq := by
  have hbp : ∀ n, stopOr b n = bPrime b n := by intro n; cases b <;> rfl
  unfold rowSliceV at h
  rw [rowSlice_eq]
  unfold rowSliceN RowV.toRow
  simp only [] at h ⊢
  cases hg : getitem rv.map a b none with
  | error e => rw [hg] at h; cases h
  | ok nm =>
    rw [hg] at h
    simp only [] at h ⊢
    rw [hbp] at h
    generalize a.getD 0 = a' at *
    generalize bPrime b (len rv.map) = b' at *
    cases hsI : getSeqIndex rv.map a' with
    | error e => rw [hsI] at h; cases h
    | ok s =>
      cases heI : getSeqIndex rv.map b' with
      | error e => rw [hsI, heI] at h; cases h
      | ok e =>
        rw [hsI, heI] at h
        simp only [] at h ⊢
        by_cases hc : nm.parentLength ≠ 0 ∧ s > e
        · rw [if_pos hc] at h; cases h
        · rw [if_neg hc] at h ⊢
          by_cases hz : nm.parentLength ≠ 0
          · rw [if_pos hz] at h ⊢
            cases hq : SeqWrap.getitem rv.seq (some s) (some e) none with
            | error er => rw [hq] at h; cases h
            | ok q =>
              rw [hq] at h; cases h
              have hstr := SeqWrap.str_getitem' cf hcf rv.seq q (some s) (some e) none hs (by simp) hq
              have hwf := SeqWrap.wf_getitem rv.seq q _ _ _ hs hq
              refine ⟨?_, hwf.1⟩
              simp only [hstr, SeqWrap.specSlice, Option.getD_none]
              rw [if_neg (by omega)]
          · rw [if_neg hz] at h ⊢
            cases hq : SeqWrap.getitem rv.seq none (some 0) none with
            | error er => rw [hq] at h; cases h
            | ok q =>
              rw [hq] at h; cases h
              have hstr := SeqWrap.str_getitem' cf hcf rv.seq q none (some 0) none hs (by simp) hq
              have hwf := SeqWrap.wf_getitem rv.seq q _ _ _ hs hq
              refine ⟨?_, hwf.1⟩
              simp only [hstr, SeqWrap.specSlice, Option.getD_none]
              rw [if_neg (by omega), slice_to_zero]

/-- the same for `rc`: `Aligned.rc` on a nucleic sequence view displays the reverse complement -/
theorem rowRcV_sim (cf : Char → Char) (hcf : ∀ x, cf (cf x) = x) (rv rv' : RowV)
    (hs : SeqWrap.WF rv.seq) (hn : rv.seq.nucleic = true) (h : rowRcV rv = .ok rv') :
    rowRcWith cf (rv.toRow cf) = .ok (rv'.toRow cf) ∧ SeqWrap.WF rv'.seq ∧ rv'.seq.nucleic = true := by
  unfold rowRcV at h
  unfold rowRcWith RowV.toRow
  simp only [] at h ⊢
  cases hr : nucleicReversed rv.map with
  | error e => rw [hr] at h; cases h
  | ok m =>
    rw [hr] at h; cases h
    have := SeqWrap.str_rc' cf hcf rv.seq hs hn
    have hw := SeqWrap.wf_rc rv.seq hs
    refine ⟨?_, hw.1, by rw [hw.2, hn]⟩
    simp only [this, SeqWrap.specRc]

theorem rowRc_eq_with (dna : Bool) (r : Row) : rowRc dna r = rowRcWith (comp dna) r := rfl


/-! a history of slices and reverse complements on one row, through the real view arithmetic -/

inductive VOp where
  | slice (a b : Option Int)
  | rc

def stepV (rv : RowV) : VOp → Except Err RowV
  | .slice a b => rowSliceV rv a b
  | .rc => rowRcV rv

def runV : RowV → List VOp → Except Err RowV
  | rv, [] => .ok rv
  | rv, op :: ops => match stepV rv op with
    | .ok rv' => runV rv' ops
    | .error e => .error e

/-- the same history on a plain gapped string -/
def runStr (cf : Char → Char) : List Char → List VOp → List Char
  | t, [] => t
  | t, .slice a b :: ops => runStr cf (PySlice.slice t a b 1) ops
  | t, .rc :: ops => runStr cf (t.reverse.map cf) ops

/-- invariant of a view-level row: C01's sequence invariant, a nucleic acid, and the row invariant
of what it displays -/
def RowVWF (cf : Char → Char) (rv : RowV) : Prop :=
  SeqWrap.WF rv.seq ∧ rv.seq.nucleic = true ∧ RowWF (rv.toRow cf)

theorem runV_refines (cf : Char → Char) (hcf : ∀ x, cf (cf x) = x) (hgap : cf '-' = '-')
    (ops : List VOp) : ∀ (rv rv' : RowV), RowVWF cf rv → runV rv ops = .ok rv' →
    RowVWF cf rv' ∧ gapped (rv'.toRow cf) = runStr cf (gapped (rv.toRow cf)) ops := by
  induction ops with
  | nil => intro rv rv' hw h; simp only [runV] at h; cases h; exact ⟨hw, rfl⟩
  | cons op ops ih =>
    intro rv rv' hw h
    obtain ⟨w1, w2, w3⟩ := hw
    simp only [runV] at h
    cases hs : stepV rv op with
    | error e => rw [hs] at h; cases h
    | ok rv1 =>
      rw [hs] at h
      cases op with
      | slice a b =>
        simp only [stepV] at hs
        obtain ⟨s1, s2⟩ := rowSliceV_sim cf hcf rv rv1 a b w1 hs
        obtain ⟨t1, t2⟩ := rowSlice_spec _ _ w3 a b s1
        have hn : rv1.seq.nucleic = true := by
          -- slicing a sequence keeps its moltype
          unfold rowSliceV at hs
          cases hg : getitem rv.map a b none with
          | error e => rw [hg] at hs; cases hs
          | ok nm =>
            rw [hg] at hs
            simp only [] at hs
            cases hsI : getSeqIndex rv.map (a.getD 0) with
            | error e => rw [hsI] at hs; cases hs
            | ok s =>
              cases heI : getSeqIndex rv.map (stopOr b (len rv.map)) with
              | error e => rw [hsI, heI] at hs; cases hs
              | ok e =>
                rw [hsI, heI] at hs
                simp only [] at hs
                by_cases hc : nm.parentLength ≠ 0 ∧ s > e
                · rw [if_pos hc] at hs; cases hs
                · rw [if_neg hc] at hs
                  by_cases hz : nm.parentLength ≠ 0
                  · rw [if_pos hz] at hs
                    cases hq : SeqWrap.getitem rv.seq (some s) (some e) none with
                    | error er => rw [hq] at hs; cases hs
                    | ok q =>
                      rw [hq] at hs; cases hs
                      rw [(SeqWrap.wf_getitem rv.seq q _ _ _ w1 hq).2]; exact w2
                  · rw [if_neg hz] at hs
                    cases hq : SeqWrap.getitem rv.seq none (some 0) none with
                    | error er => rw [hq] at hs; cases hs
                    | ok q =>
                      rw [hq] at hs; cases hs
                      rw [(SeqWrap.wf_getitem rv.seq q _ _ _ w1 hq).2]; exact w2
        obtain ⟨u1, u2⟩ := ih rv1 rv' ⟨s2, hn, t1⟩ h
        exact ⟨u1, by rw [u2, t2]; rfl⟩
      | rc =>
        simp only [stepV] at hs
        obtain ⟨s1, s2, s3⟩ := rowRcV_sim cf hcf rv rv1 w1 w2 hs
        obtain ⟨t1, t2⟩ := rowRcWith_spec cf hgap _ _ w3 s1
        obtain ⟨u1, u2⟩ := ih rv1 rv' ⟨s2, s3, t1⟩ h
        exact ⟨u1, by rw [u2, t2]; rfl⟩

end CogentModel.Aln
