import CogentModel.Model.IndelMap
import CogentModel.Spec.Gapped
/-! Helper lemmas for C08: the representation invariant of `IndelMap` and the abstraction `abs`. -/
namespace CogentModel.IndelMap
open CogentModel.Gapped


structure WF (m : IMap) : Prop where
  pl_nonneg : 0 ≤ m.parentLength
  len_eq : m.gapPos.length = m.cumLens.length
  pos_sorted : m.gapPos.Pairwise (· < ·)
  cum_sorted : (0 :: m.cumLens).Pairwise (· < ·)
  pos_range : ∀ p ∈ m.gapPos, 0 ≤ p ∧ p ≤ m.parentLength

instance (m : IMap) : Decidable (WF m) :=
  decidable_of_iff (0 ≤ m.parentLength ∧ m.gapPos.length = m.cumLens.length ∧ m.gapPos.Pairwise (· < ·) ∧
    (0 :: m.cumLens).Pairwise (· < ·) ∧ ∀ p ∈ m.gapPos, 0 ≤ p ∧ p ≤ m.parentLength)
    ⟨fun ⟨a, b, c, d, e⟩ => ⟨a, b, c, d, e⟩, fun ⟨a, b, c, d, e⟩ => ⟨a, b, c, d, e⟩⟩

example : WF ⟨[1, 3], [2, 3], 4⟩ := by decide

theorem seg_length (a b : Int) : (seg a b).length = (b - a).toNat := by simp [seg]
theorem gapCols_length (n : Int) : (gapCols n).length = n.toNat := by simp [gapCols]

/-- last element or a default -/
def lastOr (d : Int) : List Int → Int
  | [] => d
  | x :: xs => lastOr x xs

theorem lastD_cons (x : Int) (xs : List Int) : lastD (x :: xs) = lastOr x xs := by
  induction xs generalizing x with
  | nil => rfl
  | cons y ys ih => simp [lastD, lastOr, ih]

theorem absFrom_length (gp : List Int) : ∀ (cum : List Int) (next prevCum pl : Int),
    gp.length = cum.length → (∀ p ∈ gp, next ≤ p ∧ p ≤ pl) → gp.Pairwise (· < ·) →
    (prevCum :: cum).Pairwise (· < ·) → next ≤ pl →
    ((absFrom next prevCum gp cum pl).length : Int) = (pl - next) + (lastOr prevCum cum - prevCum) := by
  induction gp with
  | nil =>
    intro cum next prevCum pl hl _ _ _ hn
    cases cum with
    | nil => simp [absFrom, seg_length, lastOr]; omega
    | cons c cs => simp at hl
  | cons p ps ih =>
    intro cum next prevCum pl hl hr hs hc hn
    cases cum with
    | nil => simp at hl
    | cons c cs =>
      simp only [absFrom, List.length_append, seg_length, gapCols_length, lastOr]
      have h1 := hr p (by simp)
      have hs' := List.pairwise_cons.mp hs
      have hc' := List.pairwise_cons.mp hc
      have := ih cs p c pl (by simpa using hl)
        (fun q hq => ⟨Int.le_of_lt (hs'.1 q hq), (hr q (by simp [hq])).2⟩) hs'.2 hc'.2 h1.2
      have hcc := hc'.1 c (by simp)
      omega


def posOf (prevCum : Int) (R : List (Int × Int)) : List Int :=
  shiftPos prevCum (R.map (·.1)) (cumsumFrom prevCum (R.map (·.2)))
def cumOf (prevCum : Int) (R : List (Int × Int)) : List Int := cumsumFrom prevCum (R.map (·.2))

@[simp] theorem posOf_nil (c : Int) : posOf c [] = [] := rfl
@[simp] theorem cumOf_nil (c : Int) : cumOf c [] = [] := rfl
@[simp] theorem posOf_cons (c st l : Int) (R) : posOf c ((st, l) :: R) = (st - c) :: posOf (c + l) R := rfl
@[simp] theorem cumOf_cons (c st l : Int) (R) : cumOf c ((st, l) :: R) = (c + l) :: cumOf (c + l) R := rfl

theorem seg_self (a : Int) : seg a a = [] := by simp [seg]

theorem seg_cons (a b : Int) (h0 : 0 ≤ a) (h : a < b) : seg a b = some a.toNat :: seg (a + 1) b := by
  unfold seg
  have h1 : (b - a).toNat = (b - (a + 1)).toNat + 1 := by omega
  have h2 : (a + 1).toNat = a.toNat + 1 := by omega
  rw [h1, h2, List.range'_succ]; rfl

theorem gapCols_succ (l : Int) (h : 0 ≤ l) : gapCols (l + 1) = gapCols l ++ [none] := by
  unfold gapCols
  have : (l + 1).toNat = l.toNat + 1 := by omega
  rw [this, List.replicate_succ']

theorem runs_head_some (r : List Bool) : ∀ (pos st l : Int),
    ∃ l' rest, gapRunsAux pos (some (st, l)) r = (st, l') :: rest := by
  induction r with
  | nil => intro pos st l; exact ⟨l, [], rfl⟩
  | cons b r ih =>
    intro pos st l
    cases b with
    | true => simpa [gapRunsAux] using ih (pos + 1) st (l + 1)
    | false => exact ⟨l, _, rfl⟩

theorem runs_head_none (r : List Bool) : ∀ (pos : Int) (x : Int × Int) (rest : List (Int × Int)),
    gapRunsAux pos none r = x :: rest → pos ≤ x.1 := by
  induction r with
  | nil => intro pos x rest h; simp [gapRunsAux] at h
  | cons b r ih =>
    intro pos x rest h
    cases b with
    | true =>
      simp only [gapRunsAux] at h
      obtain ⟨l', rest', h'⟩ := runs_head_some r (pos + 1) pos 1
      rw [h'] at h
      cases h; simp
    | false =>
      simp only [gapRunsAux, Option.toList, List.nil_append] at h
      have := ih (pos + 1) x rest h
      omega

/-- one residue is emitted before anything else when the next gap lies strictly ahead -/
theorem absFrom_step (k : Nat) (c : Int) (R : List (Int × Int)) (pl : Int)
    (hR : ∀ x rest, R = x :: rest → (k : Int) + 1 + c ≤ x.1) (hpl : (k : Int) + 1 ≤ pl) :
    absFrom k c (posOf c R) (cumOf c R) pl = some k :: absFrom ((k : Int) + 1) c (posOf c R) (cumOf c R) pl := by
  cases R with
  | nil => simp [absFrom]; rw [seg_cons _ _ (by omega) (by omega)]; simp
  | cons x rest =>
    obtain ⟨st, l⟩ := x
    have := hR (st, l) rest rfl
    simp only [posOf_cons, cumOf_cons, absFrom]
    rw [seg_cons _ _ (by omega) (by simp at this; omega)]; simp

theorem abs_runs (s : List Bool) : ∀ (pos : Int) (k : Nat) (c : Int) (cur : Option (Int × Int)),
    (cur = none → pos = k + c) →
    (∀ st l, cur = some (st, l) → st = k + c ∧ pos = st + l ∧ 0 < l) →
    absFrom k c (posOf c (gapRunsAux pos cur s)) (cumOf c (gapRunsAux pos cur s))
        ((k : Int) + ((s.filter (! ·)).length : Int))
      = (match cur with | none => [] | some (_, l) => gapCols l) ++ ofPatternFrom k s := by
  induction s with
  | nil =>
    intro pos k c cur h1 h2
    cases cur with
    | none => simp [gapRunsAux, absFrom, seg_self, ofPatternFrom]
    | some x =>
      obtain ⟨st, l⟩ := x
      obtain ⟨e1, e2, e3⟩ := h2 st l rfl
      subst e1
      have e0 : (k : Int) + c - c = k := by omega
      have e1 : c + l - c = l := by omega
      simp [gapRunsAux, absFrom, seg_self, ofPatternFrom, e0, e1]
  | cons b r ih =>
    intro pos k c cur h1 h2
    cases b with
    | true =>
      cases cur with
      | none =>
        have hp := h1 rfl
        have := ih (pos + 1) k c (some (pos, 1)) (by simp) (by intro st l h; cases h; omega)
        simp only [gapRunsAux, List.filter_cons] at this ⊢
        simp at this ⊢
        rw [this]; simp [ofPatternFrom, gapCols]
      | some x =>
        obtain ⟨st, l⟩ := x
        obtain ⟨e1, e2, e3⟩ := h2 st l rfl
        have := ih (pos + 1) k c (some (st, l + 1)) (by simp) (by intro st' l' h; cases h; omega)
        simp only [gapRunsAux] at this ⊢
        simp at this ⊢
        rw [this, gapCols_succ l (by omega)]; simp [ofPatternFrom]
    | false =>
      cases cur with
      | none =>
        have hp := h1 rfl
        have := ih (pos + 1) (k + 1) c none (by intro _; push_cast; omega) (by intro st l h; cases h)
        simp only [gapRunsAux, Option.toList, List.nil_append] at this ⊢
        simp at this ⊢
        rw [absFrom_step k c _ _ (fun x rest hx => by have := runs_head_none r (pos + 1) x rest hx; omega) (by omega)]
        simp only [ofPatternFrom, List.cons.injEq, true_and]
        have e : (k : Int) + (((List.filter (fun x => !x) r).length : Int) + 1) = (k : Int) + 1 + ((List.filter (fun x => !x) r).length : Int) := by omega
        rw [e]; exact this
      | some x =>
        obtain ⟨st, l⟩ := x
        obtain ⟨e1, e2, e3⟩ := h2 st l rfl
        subst e1
        have := ih (pos + 1) (k + 1) (c + l) none (by intro _; push_cast; omega) (by intro st l h; cases h)
        simp only [gapRunsAux, Option.toList, List.singleton_append, posOf_cons, cumOf_cons, absFrom]
        have e0 : (k : Int) + c - c = k := by omega
        rw [e0, seg_self]
        have e1 : c + l - c = l := by omega
        rw [e1]
        simp only [List.nil_append]
        congr 1
        simp at this
        rw [absFrom_step k (c + l) _ _ (fun x rest hx => by have := runs_head_none r (pos + 1) x rest hx; omega) (by simp; omega)]
        simp only [ofPatternFrom, List.cons.injEq, true_and]
        simp only [List.filter_cons, Bool.not_false, if_true, List.length_cons]
        have e : (k : Int) + (((List.filter (fun x => !x) r).length + 1 : Nat) : Int) = (k : Int) + 1 + ((List.filter (fun x => !x) r).length : Int) := by push_cast; omega
        rw [e]; exact this

theorem abs_fromGapped' (s : List Bool) : abs (fromGapped s) = ofPattern s := by
  have := abs_runs s 0 0 0 none (by simp) (by intro st l h; cases h)
  simpa [abs, fromGapped, gapRuns, posOf, cumOf, cumsum, ofPattern] using this

theorem wf_runs (s : List Bool) : ∀ (pos : Int) (k : Nat) (c : Int) (cur : Option (Int × Int)),
    (cur = none → pos = k + c) →
    (∀ st l, cur = some (st, l) → st = k + c ∧ pos = st + l ∧ 0 < l) →
    (posOf c (gapRunsAux pos cur s)).length = (cumOf c (gapRunsAux pos cur s)).length ∧
    (posOf c (gapRunsAux pos cur s)).Pairwise (· < ·) ∧
    (c :: cumOf c (gapRunsAux pos cur s)).Pairwise (· < ·) ∧
    ∀ p ∈ posOf c (gapRunsAux pos cur s), (k : Int) ≤ p ∧ p ≤ (k : Int) + ((s.filter (! ·)).length : Int) := by
  induction s with
  | nil =>
    intro pos k c cur h1 h2
    cases cur with
    | none => simp [gapRunsAux]
    | some x =>
      obtain ⟨st, l⟩ := x
      obtain ⟨e1, e2, e3⟩ := h2 st l rfl
      subst e1
      simp [gapRunsAux]; omega
  | cons b r ih =>
    intro pos k c cur h1 h2
    cases b with
    | true =>
      cases cur with
      | none =>
        have hp := h1 rfl
        have := ih (pos + 1) k c (some (pos, 1)) (by simp) (by intro st l h; cases h; omega)
        simpa [gapRunsAux] using this
      | some x =>
        obtain ⟨st, l⟩ := x
        obtain ⟨e1, e2, e3⟩ := h2 st l rfl
        have := ih (pos + 1) k c (some (st, l + 1)) (by simp) (by intro st' l' h; cases h; omega)
        simpa [gapRunsAux] using this
    | false =>
      cases cur with
      | none =>
        have hp := h1 rfl
        obtain ⟨a1, a2, a3, a4⟩ := ih (pos + 1) (k + 1) c none (by intro _; push_cast; omega) (by intro st l h; cases h)
        simp only [gapRunsAux, Option.toList, List.nil_append]
        refine ⟨a1, a2, a3, ?_⟩
        intro p hp'
        have := a4 p hp'
        simp only [List.filter_cons, Bool.not_false, if_true, List.length_cons]
        push_cast at this ⊢; omega
      | some x =>
        obtain ⟨st, l⟩ := x
        obtain ⟨e1, e2, e3⟩ := h2 st l rfl
        subst e1
        obtain ⟨a1, a2, a3, a4⟩ := ih (pos + 1) (k + 1) (c + l) none (by intro _; push_cast; omega) (by intro st l h; cases h)
        simp only [gapRunsAux, Option.toList, List.singleton_append, posOf_cons, cumOf_cons]
        have e0 : (k : Int) + c - c = k := by omega
        rw [e0]
        refine ⟨by simp [a1], ?_, ?_, ?_⟩
        · rw [List.pairwise_cons]
          refine ⟨?_, a2⟩
          intro p hp'
          have := a4 p hp'
          push_cast at this; omega
        · rw [List.pairwise_cons]
          refine ⟨?_, a3⟩
          intro x hx
          have h3 := (List.pairwise_cons.mp a3).1
          rcases List.mem_cons.mp hx with h | h
          · omega
          · have := h3 x h; omega
        · intro p hp'
          simp only [List.filter_cons, Bool.not_false, if_true, List.length_cons]
          rcases List.mem_cons.mp hp' with h | h
          · subst h; push_cast; omega
          · have := a4 p h
            push_cast at this ⊢; omega

theorem fromGapped_wf' (s : List Bool) : WF (fromGapped s) := by
  obtain ⟨a1, a2, a3, a4⟩ := wf_runs s 0 0 0 none (by simp) (by intro st l h; cases h)
  simp only [posOf, cumOf] at a1 a2 a3 a4
  refine ⟨by simp [fromGapped], ?_, ?_, ?_, ?_⟩
  · simpa [fromGapped, gapRuns, cumsum] using a1
  · simpa [fromGapped, gapRuns, cumsum] using a2
  · simpa [fromGapped, gapRuns, cumsum] using a3
  · intro p hp
    have := a4 p (by simpa [fromGapped, gapRuns, cumsum] using hp)
    simpa [fromGapped] using this

theorem len_eq' (m : IMap) (h : WF m) : ((abs m).length : Int) = len m := by
  have := absFrom_length m.gapPos m.cumLens 0 0 m.parentLength h.len_eq
    (fun p hp => h.pos_range p hp) h.pos_sorted h.cum_sorted h.pl_nonneg
  unfold abs len
  rw [this]
  have hl := h.len_eq
  cases hg : m.gapPos with
  | nil =>
    rw [hg] at hl
    have : m.cumLens = [] := by cases hc : m.cumLens with | nil => rfl | cons x xs => rw [hc] at hl; simp at hl
    simp [this, lastOr]
  | cons p ps =>
    rw [hg] at hl
    cases hc : m.cumLens with
    | nil => rw [hc] at hl; simp at hl
    | cons x xs => simp [lastD_cons, lastOr]

theorem ofPatternFrom_length (s : List Bool) : ∀ k, (ofPatternFrom k s).length = s.length := by
  induction s with
  | nil => intro k; rfl
  | cons b r ih => intro k; cases b <;> simp [ofPatternFrom, ih]

end CogentModel.IndelMap
