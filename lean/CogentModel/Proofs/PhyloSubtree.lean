import CogentModel.Proofs.PhyloUnrooted
set_option linter.unusedSimpArgs false
set_option linter.unusedVariables false
/-! C09: `get_sub_tree` restricted to tips: kept tips, distances among kept tips. -/
namespace CogentModel.Phylo
open PTree
variable {K : Type}

/- every non-root edge has a length satisfying `P` (think: positive) -/
mutual
def GoodLens (P : K → Prop) : PTree K → Prop
  | .node _ l cs => (∃ x, l = some x ∧ P x) ∧ GoodLensL P cs
def GoodLensL (P : K → Prop) : List (PTree K) → Prop
  | [] => True
  | c :: cs => GoodLens P c ∧ GoodLensL P cs
end

theorem sep_not_mem (a b : String) (A : List String) (ha : a ∉ A) (hb : b ∉ A) : sep a b A = false := by
  simp [sep, ha, hb]

theorem sep_filter (keep : String → Bool) (a b : String) (A : List String) (ha : keep a = true)
    (hb : keep b = true) : sep a b (A.filter keep) = sep a b A := by
  simp [sep, List.mem_filter, ha, hb]

section
variable [AddCommMonoid K]

/-- own edge + everything below -/
def wsum (d : K) (a b : String) (t : PTree K) : K :=
  splitW d a b (edgeSplit t) + sumBy (splitW d a b) (splits t)

theorem sum_splitsL (d : K) (a b : String) (cs : List (PTree K)) :
    sumBy (splitW d a b) (splitsL cs) = sumBy (wsum d a b) cs := by
  induction cs with
  | nil => rfl
  | cons c cs ih => simp [splitsL, sumBy, sumBy_append, wsum, ih, add_assoc]

omit [AddCommMonoid K] in
theorem splitW_edge [Zero K] (d : K) (a b n : String) (l : Option K) (cs : List (PTree K)) :
    splitW d a b (edgeSplit (PTree.node n l cs)) =
      if sep a b (tips (PTree.node n l cs)) then lenOr d l else 0 := rfl

mutual
theorem wsum_zero (d : K) (a b : String) : ∀ (t : PTree K), a ∉ tips t → b ∉ tips t → wsum d a b t = 0
  | .node n l cs, ha, hb => by
    have h1 : splitW d a b (edgeSplit (PTree.node n l cs)) = 0 := by
      simp only [splitW, edgeSplit, sep_not_mem a b _ ha hb]; simp
    cases cs with
    | nil => simp [wsum, h1, splits, splitsL, sumBy]
    | cons c cs =>
      rw [tips_node_ne_nil _ _ _ (by simp)] at ha hb
      simp only [wsum, h1, splits, zero_add]
      exact sumL_zero d a b (c :: cs) ha hb
theorem sumL_zero (d : K) (a b : String) : ∀ (cs : List (PTree K)), a ∉ tipsL cs → b ∉ tipsL cs →
    sumBy (splitW d a b) (splitsL cs) = 0
  | [], _, _ => rfl
  | c :: cs, ha, hb => by
    simp only [tipsL, List.mem_append, not_or] at ha hb
    have h1 := wsum_zero d a b c ha.1 hb.1
    have h2 := sumL_zero d a b cs ha.2 hb.2
    simp only [splitsL, List.cons_append, sumBy, sumBy_append]
    simp only [wsum] at h1
    rw [← add_assoc, h1, h2]; simp
end

variable [DecidableEq K]

/-- result of pruning one non-root subtree -/
def SubOK (P : K → Prop) (d : K) (inc : List String) (t : PTree K) : Option (PTree K) → Prop
  | none => ∀ x ∈ tips t, inc.contains x = false
  | some r => tips r = (tips t).filter (fun x => inc.contains x) ∧ GoodLens P r ∧
      ∀ a b, inc.contains a = true → inc.contains b = true → wsum d a b r = wsum d a b t

def SubLOK (P : K → Prop) (d : K) (inc : List String) (cs rs : List (PTree K)) : Prop :=
  tipsL rs = (tipsL cs).filter (fun x => inc.contains x) ∧ GoodLensL P rs ∧
    ∀ a b, inc.contains a = true → inc.contains b = true → sumBy (wsum d a b) rs = sumBy (wsum d a b) cs

omit [AddCommMonoid K] [DecidableEq K] in
theorem goodLens_len (P : K → Prop) (t : PTree K) (h : GoodLens P t) : ∃ x, t.len = some x ∧ P x := by
  cases t with
  | node n l cs => simpa [GoodLens] using h.1

omit [AddCommMonoid K] [DecidableEq K] in
theorem goodLens_children (P : K → Prop) (t : PTree K) (h : GoodLens P t) : GoodLensL P t.children := by
  cases t with
  | node n l cs => exact h.2

mutual
theorem subGo_ok (P : K → Prop) (hadd : ∀ x y, P x → P y → P (x + y)) (h0 : ¬ P 0) (d : K)
    (inc : List String) : ∀ (t : PTree K), GoodLens P t → SubOK P d inc t (subGo inc false true t)
  | .node n l cs, hg => by
    have hL := subL_ok P hadd h0 d inc cs hg.2
    obtain ⟨x, hlx, hPx⟩ := hg.1
    subst hlx
    have hlx : (some x : Option K) = some x := rfl
    simp only [subGo, Bool.not_true, Bool.false_or]
    split
    · -- a kept tip
      rename_i hc
      simp only [Bool.and_eq_true, List.isEmpty_iff] at hc
      obtain ⟨hn, rfl⟩ := hc
      refine ⟨?_, hg, fun _ _ _ _ => rfl⟩
      have hn' : n ∈ inc := by simpa using hn
      simp [tips, hn']
    · rename_i hc
      generalize hrs : subL inc true cs = rs at hL
      obtain ⟨htips, hgood, hsum⟩ := hL
      match rs, hrs with
      | [], hrs =>
        simp only [SubOK]
        intro y hy
        cases cs with
        | nil =>
          simp only [tips, List.mem_singleton] at hy; subst hy
          simpa using hc
        | cons c cs =>
          rw [tips_node_ne_nil _ _ _ (by simp)] at hy
          have := htips.symm
          simp only [tipsL] at this
          rw [List.filter_eq_nil_iff] at this
          simpa using this y hy
      | [c'], hrs =>
        have hcs : cs ≠ [] := by rintro rfl; simp [subL] at hrs
        have htt : tips (PTree.node n (some x) cs) = tipsL cs := tips_node_ne_nil _ _ _ hcs
        simp only [tipsL, List.append_nil] at htips
        obtain ⟨y, hly, hPy⟩ := goodLens_len P c' hgood.1
        have hxy : x + y ≠ 0 := fun h => h0 (h ▸ hadd x y hPx hPy)
        simp only [SubOK, Bool.false_eq_true, if_false]
        refine ⟨?_, ?_, ?_⟩
        · rw [tips_rename, htt, htips]
        · refine ⟨⟨x + y, ?_, hadd x y hPx hPy⟩, goodLens_children P c' hgood.1⟩
          simp [hlx, hly, mergeLen, hxy]
        · intro a b ha hb
          have hs := hsum a b ha hb
          simp only [sumBy, add_zero] at hs
          have hsep : sep a b (tips (PTree.node n (some x) cs)) = sep a b (tips c') := by
            rw [htt, htips, sep_filter _ a b _ ha hb]
          have e1 : wsum d a b (PTree.node c'.name (mergeLen (some x) c'.len) c'.children) =
              (if sep a b (tips c') then x + y else 0) + sumBy (splitW d a b) (splits c') := by
            simp [wsum, splitW, edgeSplit, tips_rename, splits_rename, hlx, hly, mergeLen, hxy, lenOr]
          have e2 : wsum d a b (PTree.node n (some x) cs) =
              (if sep a b (tips c') then x else 0) + sumBy (wsum d a b) cs := by
            simp only [wsum, splits, sum_splitsL]
            simp [splitW, edgeSplit, hsep, hlx, lenOr]
          have e3 : wsum d a b c' = (if sep a b (tips c') then y else 0) + sumBy (splitW d a b) (splits c') := by
            simp [wsum, splitW, edgeSplit, hly, lenOr]
          rw [e1, e2, ← hs, e3]
          split <;> simp [add_assoc]
      | c' :: c'' :: rest, hrs =>
        have hcs : cs ≠ [] := by rintro rfl; simp [subL] at hrs
        have htt : tips (PTree.node n (some x) cs) = tipsL cs := tips_node_ne_nil _ _ _ hcs
        simp only [SubOK]
        refine ⟨?_, ⟨⟨x, hlx, hPx⟩, hgood⟩, ?_⟩
        · rw [tips_node_ne_nil _ _ _ (by simp), htt, htips]
        · intro a b ha hb
          have hsep : sep a b (tips (PTree.node n (some x) (c' :: c'' :: rest))) = sep a b (tips (PTree.node n (some x) cs)) := by
            rw [tips_node_ne_nil _ _ _ (by simp), htt, htips, sep_filter _ a b _ ha hb]
          simp only [wsum, splits, sum_splitsL, hsum a b ha hb, splitW_edge]
          rw [hsep]
theorem subL_ok (P : K → Prop) (hadd : ∀ x y, P x → P y → P (x + y)) (h0 : ¬ P 0) (d : K)
    (inc : List String) : ∀ (cs : List (PTree K)), GoodLensL P cs → SubLOK P d inc cs (subL inc true cs)
  | [], _ => ⟨rfl, trivial, fun _ _ _ _ => rfl⟩
  | c :: cs, hg => by
    have h1 := subGo_ok P hadd h0 d inc c hg.1
    obtain ⟨ht, hgd, hs⟩ := subL_ok P hadd h0 d inc cs hg.2
    simp only [subL]
    cases hr : subGo inc false true c with
    | none =>
      rw [hr] at h1
      simp only [SubOK] at h1
      refine ⟨?_, hgd, ?_⟩
      · have : (tips c).filter (fun x => inc.contains x) = [] := by
          rw [List.filter_eq_nil_iff]; intro y hy; rw [h1 y hy]; decide
        simp only [tipsL, List.filter_append, ht, this, List.nil_append]
      · intro a b ha hb
        have ha' : a ∉ tips c := fun h => absurd (h1 a h) (by rw [ha]; decide)
        have hb' : b ∉ tips c := fun h => absurd (h1 b h) (by rw [hb]; decide)
        simp only [sumBy, wsum_zero d a b c ha' hb', zero_add, hs a b ha hb]
    | some r =>
      rw [hr] at h1
      obtain ⟨h1t, h1g, h1s⟩ := h1
      refine ⟨?_, ⟨h1g, hgd⟩, ?_⟩
      · simp only [tipsL, List.filter_append, ht, h1t]
      · intro a b ha hb
        simp only [sumBy, h1s a b ha hb, hs a b ha hb]
end

omit [AddCommMonoid K] [DecidableEq K] in
theorem goodLensL_mem (P : K → Prop) : ∀ (cs : List (PTree K)), GoodLensL P cs → ∀ c ∈ cs, GoodLens P c
  | [], _, c, hc => by simp at hc
  | c0 :: cs, hg, c, hc => by
    rcases List.mem_cons.1 hc with rfl | h
    · exact hg.1
    · exact goodLensL_mem P cs hg.2 c h

/-- the pruned root before renaming / re-unrooting -/
theorem subGo_root (P : K → Prop) (hadd : ∀ x y, P x → P y → P (x + y)) (h0 : ¬ P 0) (d : K)
    (inc : List String) (kr : Bool) (n : String) (l : Option K) (cs : List (PTree K)) (hcs : cs ≠ [])
    (hg : GoodLensL P cs) (r0 : PTree K) (h : subGo inc kr true (PTree.node n l cs) = some r0)
    (hr0 : r0.children ≠ []) :
    tipsL r0.children = (tipsL cs).filter (fun x => inc.contains x) ∧ GoodLensL P r0.children ∧
      ∀ a b, inc.contains a = true → inc.contains b = true → a ∈ tipsL cs → b ∈ tipsL cs →
        sumBy (splitW d a b) (splitsL r0.children) = sumBy (splitW d a b) (splitsL cs) := by
  have hL := subL_ok P hadd h0 d inc cs hg
  have hemp : cs.isEmpty = false := by cases cs <;> simp_all
  simp only [subGo, hemp, Bool.not_true, Bool.or_false, Bool.and_false, Bool.false_eq_true, if_false] at h
  generalize hrs : subL inc true cs = rs at hL h
  obtain ⟨htips, hgood, hsum⟩ := hL
  match rs, hrs with
  | [], _ => simp at h
  | [c'], _ =>
    by_cases hk : kr = true
    · simp only [hk, if_true, Option.some.injEq] at h
      subst h
      simp only [children_node]
      exact ⟨htips, hgood, fun a b ha hb _ _ => by rw [sum_splitsL, sum_splitsL, hsum a b ha hb]⟩
    · have hk' : kr = false := by simpa using hk
      subst hk'
      simp only [Bool.false_eq_true, if_false, reduceIte, Option.some.injEq] at h
      subst h
      simp only [children_node] at hr0 ⊢
      simp only [tipsL, List.append_nil] at htips
      refine ⟨?_, goodLens_children P c' hgood.1, ?_⟩
      · rw [← tips_of_children c' hr0, htips]
      · intro a b ha hb hat hbt
        have hmem : ∀ z, inc.contains z = true → z ∈ tipsL cs → z ∈ tips c' := by
          intro z hz hzt; rw [htips, List.mem_filter]; exact ⟨hzt, hz⟩
        have hedge : splitW d a b (edgeSplit c') = 0 := by
          simp only [splitW, edgeSplit, sep_both_mem a b _ (hmem a ha hat) (hmem b hb hbt)]; simp
        have := hsum a b ha hb
        simp only [sumBy, add_zero, wsum, hedge, zero_add] at this
        rw [← splits_eq_children, this, sum_splitsL]
  | c' :: c'' :: rest, _ =>
    simp only [Option.some.injEq] at h
    subst h
    simp only [children_node]
    exact ⟨htips, hgood, fun a b ha hb _ _ => by rw [sum_splitsL, sum_splitsL, hsum a b ha hb]⟩

omit [AddCommMonoid K] in
theorem getSubTree_ok [Add K] [Zero K] (t : PTree K) (inc : List String) (im kr tonly : Bool) (r : PTree K)
    (h : getSubTree t inc im kr tonly = .ok r) :
    ∃ r0, subGo inc kr tonly t = some r0 ∧ r0.children ≠ [] ∧
      r = (if t.children.length > 2 then
            unrooted (PTree.node (if r0.name = "" then "" else "root") r0.len r0.children)
           else PTree.node (if r0.name = "" then "" else "root") r0.len r0.children) := by
  unfold getSubTree at h
  simp only at h
  generalize (if tonly = true then tips t else allNames t) = known at h
  by_cases hc : (!im && inc.any fun n => !known.contains n) = true
  · simp only [hc, if_true, reduceIte] at h; cases h
  · simp only [hc, if_false, reduceIte, Bool.false_eq_true] at h
    cases h0 : subGo inc kr tonly t with
    | none => simp only [h0] at h; cases h
    | some r0 =>
      simp only [h0] at h
      by_cases he : r0.children.isEmpty = true
      · simp only [he, if_true, reduceIte] at h; cases h
      · simp only [he, if_false, reduceIte, Bool.false_eq_true, Except.ok.injEq] at h
        exact ⟨r0, rfl, by simpa using he, h.symm⟩

/-- `get_sub_tree(names, tipsonly=True)`: the result has exactly the kept tips (in the original
order) and every distance among them is the original one. -/
theorem getSubTree_spec (P : K → Prop) (hadd : ∀ x y, P x → P y → P (x + y)) (h0 : ¬ P 0) (d : K)
    (t : PTree K) (inc : List String) (im kr : Bool) (r : PTree K)
    (h : getSubTree t inc im kr true = .ok r)
    (hg : GoodLensL P t.children) (hnd : (tips t).Nodup) :
    tips r = (tips t).filter (fun x => inc.contains x) ∧
      ∀ a b, inc.contains a = true → inc.contains b = true → a ∈ tips t → b ∈ tips t →
        distSpec d a b r = distSpec d a b t := by
  cases t with
  | node n l cs =>
    simp only [children_node] at hg
    obtain ⟨r0, h0', hr0, h⟩ := getSubTree_ok _ inc im kr true r h
    have h := h.symm
    · · · have hcs : cs ≠ [] := by
            rintro rfl
            simp only [subGo, subL] at h0'
            split at h0'
            · injection h0' with h0'; subst h0'; simp at hr0
            · cases h0'
          obtain ⟨ht, hgd, hs⟩ := subGo_root P hadd h0 d inc kr n l cs hcs hg r0 h0' hr0
          have htt : tips (PTree.node n l cs) = tipsL cs := tips_node_ne_nil _ _ _ hcs
          -- the renamed root
          generalize hr1 : PTree.node (if r0.name = "" then "" else "root") r0.len r0.children = r1 at h
          have hr1t : tips r1 = (tips (PTree.node n l cs)).filter (fun x => inc.contains x) := by
            rw [← hr1, tips_node_ne_nil _ _ _ hr0, ht, htt]
          have hr1d : ∀ a b, inc.contains a = true → inc.contains b = true →
              a ∈ tips (PTree.node n l cs) → b ∈ tips (PTree.node n l cs) →
              distSpec d a b r1 = distSpec d a b (PTree.node n l cs) := by
            intro a b ha hb hat hbt
            rw [← hr1]
            simp only [distSpec, splits]
            exact hs a b ha hb (htt ▸ hat) (htt ▸ hbt)
          simp only [children_node] at h
          by_cases hgt : cs.length > 2
          · simp only [hgt, if_true, reduceIte] at h
            subst h
            refine ⟨by rw [tips_unrooted, hr1t], ?_⟩
            intro a b ha hb hat hbt
            have hmem : ∀ z, inc.contains z = true → z ∈ tips (PTree.node n l cs) → z ∈ tips r1 := by
              intro z hz hzt; rw [hr1t, List.mem_filter]; exact ⟨hzt, hz⟩
            rw [unrooted_dist d r1 (by rw [hr1t]; exact hnd.filter _)
              (by
                intro c hc
                rw [← hr1] at hc
                obtain ⟨x, hx, _⟩ := goodLens_len P c (goodLensL_mem P _ hgd c hc)
                exact ⟨x, hx⟩)
              a b (hmem a ha hat) (hmem b hb hbt)]
            exact hr1d a b ha hb hat hbt
          · simp only [hgt, if_false, reduceIte] at h
            subst h
            exact ⟨hr1t, hr1d⟩

end
end CogentModel.Phylo
