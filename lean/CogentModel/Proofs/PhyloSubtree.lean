import CogentModel.Proofs.PhyloUnrooted
set_option linter.unusedSimpArgs false
set_option linter.unusedVariables false
/-! C09: `get_sub_tree` restricted to tips: kept tips, distances among kept tips. -/
namespace CogentModel.Phylo
open PTree
variable {K : Type}

/- every non-root edge has a length satisfying `P` (think: positive) -/
mutual
def GoodLens (P : K → Prop) : PTree K → Prop
  | .node _ l cs => (∃ x, l = some x ∧ P x) ∧ GoodLensL P cs
def GoodLensL (P : K → Prop) : List (PTree K) → Prop
  | [] => True
  | c :: cs => GoodLens P c ∧ GoodLensL P cs
end

/-- the predicate only looks at kept tips -/
def Kept (inc : List String) (Tk : List String) (φ : List String → Bool) : Prop :=
  (∀ x ∈ Tk, inc.contains x = true) ∧ BipPred Tk φ

theorem Kept.filter {inc Tk : List String} {φ : List String → Bool} (h : Kept inc Tk φ) (A : List String) :
    φ (A.filter fun x => inc.contains x) = φ A :=
  h.2.congr _ _ fun x hx => by
    have := h.1 x hx
    simp only [List.mem_filter, this, and_true]

theorem Kept.none {inc Tk : List String} {φ : List String → Bool} (h : Kept inc Tk φ) (A : List String)
    (hA : ∀ x ∈ A, inc.contains x = false) : φ A = false :=
  h.2.none_in A fun x hx hxA => by have := hA x hxA; rw [h.1 x hx] at this; cases this

section
variable [AddCommMonoid K]

/-- own edge + everything below -/
def wsum (d : K) (φ : List String → Bool) (t : PTree K) : K :=
  phiW d φ (edgeSplit t) + sumBy (phiW d φ) (splits t)

theorem sum_splitsL (d : K) (φ : List String → Bool) (cs : List (PTree K)) :
    sumBy (phiW d φ) (splitsL cs) = sumBy (wsum d φ) cs := by
  induction cs with
  | nil => rfl
  | cons c cs ih => simp [splitsL, sumBy, sumBy_append, wsum, ih, add_assoc]

omit [AddCommMonoid K] in
theorem phiW_edge [Zero K] (d : K) (φ : List String → Bool) (n : String) (l : Option K) (cs : List (PTree K)) :
    phiW d φ (edgeSplit (PTree.node n l cs)) =
      if φ (tips (PTree.node n l cs)) then lenOr d l else 0 := rfl

/-- a subtree without kept tips contributes nothing -/
theorem wsum_zero (d : K) {inc Tk : List String} {φ : List String → Bool} (hk : Kept inc Tk φ)
    (t : PTree K) (h : ∀ x ∈ tips t, inc.contains x = false) : wsum d φ t = 0 := by
  have hz : ∀ s ∈ edgeSplit t :: splits t, phiW d φ s = 0 := by
    intro s hs
    have : φ s.side = false := hk.none s.side fun x hx => h x (child_sides t s hs x hx)
    simp [phiW, this]
  have := sumBy_zero (phiW d φ) (edgeSplit t :: splits t) hz
  simpa [sumBy, wsum] using this


/-- result of pruning one non-root subtree -/
def SubOK (P : K → Prop) (d : K) (inc : List String) (t : PTree K) : Option (PTree K) → Prop
  | none => ∀ x ∈ tips t, inc.contains x = false
  | some r => tips r = (tips t).filter (fun x => inc.contains x) ∧ GoodLens P r ∧
      ∀ Tk φ, Kept inc Tk φ → wsum d φ r = wsum d φ t

def SubLOK (P : K → Prop) (d : K) (inc : List String) (cs rs : List (PTree K)) : Prop :=
  tipsL rs = (tipsL cs).filter (fun x => inc.contains x) ∧ GoodLensL P rs ∧
    ∀ Tk φ, Kept inc Tk φ → sumBy (wsum d φ) rs = sumBy (wsum d φ) cs

omit [AddCommMonoid K] in
theorem goodLens_len (P : K → Prop) (t : PTree K) (h : GoodLens P t) : ∃ x, t.len = some x ∧ P x := by
  cases t with
  | node n l cs => simpa [GoodLens] using h.1

omit [AddCommMonoid K] in
theorem goodLens_children (P : K → Prop) (t : PTree K) (h : GoodLens P t) : GoodLensL P t.children := by
  cases t with
  | node n l cs => exact h.2

mutual
theorem subGo_ok (P : K → Prop) (hadd : ∀ x y, P x → P y → P (x + y)) (d : K)
    (inc : List String) : ∀ (t : PTree K), GoodLens P t → SubOK P d inc t (subGo inc false true t)
  | .node n l cs, hg => by
    have hL := subL_ok P hadd d inc cs hg.2
    obtain ⟨x, hlx, hPx⟩ := hg.1
    subst hlx
    have hlx : (some x : Option K) = some x := rfl
    simp only [subGo, Bool.not_true, Bool.false_or]
    split
    · -- a kept tip
      rename_i hc
      simp only [Bool.and_eq_true, List.isEmpty_iff] at hc
      obtain ⟨hn, rfl⟩ := hc
      refine ⟨?_, hg, fun _ _ _ => rfl⟩
      have hn' : n ∈ inc := by simpa using hn
      simp [tips, hn']
    · rename_i hc
      generalize hrs : subL inc true cs = rs at hL
      obtain ⟨htips, hgood, hsum⟩ := hL
      match rs, hrs with
      | [], hrs =>
        simp only [SubOK]
        intro y hy
        cases cs with
        | nil =>
          simp only [tips, List.mem_singleton] at hy; subst hy
          simpa using hc
        | cons c cs =>
          rw [tips_node_ne_nil _ _ _ (by simp)] at hy
          have := htips.symm
          simp only [tipsL] at this
          rw [List.filter_eq_nil_iff] at this
          simpa using this y hy
      | [c'], hrs =>
        have hcs : cs ≠ [] := by rintro rfl; simp [subL] at hrs
        have htt : tips (PTree.node n (some x) cs) = tipsL cs := tips_node_ne_nil _ _ _ hcs
        simp only [tipsL, List.append_nil] at htips
        obtain ⟨y, hly, hPy⟩ := goodLens_len P c' hgood.1
        simp only [SubOK, Bool.false_eq_true, if_false]
        refine ⟨?_, ?_, ?_⟩
        · rw [tips_rename, htt, htips]
        · refine ⟨⟨x + y, ?_, hadd x y hPx hPy⟩, goodLens_children P c' hgood.1⟩
          simp [hlx, hly, mergeLen]
        · intro Tk φ hk
          have hs := hsum Tk φ hk
          simp only [sumBy, add_zero] at hs
          have hsep : φ (tips (PTree.node n (some x) cs)) = φ (tips c') := by
            rw [htt, htips, hk.filter]
          have e1 : wsum d φ (PTree.node c'.name (mergeLen (some x) c'.len) c'.children) =
              (if φ (tips c') then x + y else 0) + sumBy (phiW d φ) (splits c') := by
            simp [wsum, phiW, edgeSplit, tips_rename, splits_rename, hlx, hly, mergeLen, lenOr]
          have e2 : wsum d φ (PTree.node n (some x) cs) =
              (if φ (tips c') then x else 0) + sumBy (wsum d φ) cs := by
            simp only [wsum, splits, sum_splitsL]
            simp [phiW, edgeSplit, hsep, hlx, lenOr]
          have e3 : wsum d φ c' = (if φ (tips c') then y else 0) + sumBy (phiW d φ) (splits c') := by
            simp [wsum, phiW, edgeSplit, hly, lenOr]
          rw [e1, e2, ← hs, e3]
          split <;> simp [add_assoc]
      | c' :: c'' :: rest, hrs =>
        have hcs : cs ≠ [] := by rintro rfl; simp [subL] at hrs
        have htt : tips (PTree.node n (some x) cs) = tipsL cs := tips_node_ne_nil _ _ _ hcs
        simp only [SubOK]
        refine ⟨?_, ⟨⟨x, hlx, hPx⟩, hgood⟩, ?_⟩
        · rw [tips_node_ne_nil _ _ _ (by simp), htt, htips]
        · intro Tk φ hk
          have hsep : φ (tips (PTree.node n (some x) (c' :: c'' :: rest))) = φ (tips (PTree.node n (some x) cs)) := by
            rw [tips_node_ne_nil _ _ _ (by simp), htt, htips, hk.filter]
          simp only [wsum, splits, sum_splitsL, hsum Tk φ hk, phiW_edge]
          rw [hsep]
theorem subL_ok (P : K → Prop) (hadd : ∀ x y, P x → P y → P (x + y)) (d : K)
    (inc : List String) : ∀ (cs : List (PTree K)), GoodLensL P cs → SubLOK P d inc cs (subL inc true cs)
  | [], _ => ⟨rfl, trivial, fun _ _ _ => rfl⟩
  | c :: cs, hg => by
    have h1 := subGo_ok P hadd d inc c hg.1
    obtain ⟨ht, hgd, hs⟩ := subL_ok P hadd d inc cs hg.2
    simp only [subL]
    cases hr : subGo inc false true c with
    | none =>
      rw [hr] at h1
      simp only [SubOK] at h1
      refine ⟨?_, hgd, ?_⟩
      · have : (tips c).filter (fun x => inc.contains x) = [] := by
          rw [List.filter_eq_nil_iff]; intro y hy; rw [h1 y hy]; decide
        simp only [tipsL, List.filter_append, ht, this, List.nil_append]
      · intro Tk φ hk
        simp only [sumBy, wsum_zero d hk c h1, zero_add, hs Tk φ hk]
    | some r =>
      rw [hr] at h1
      obtain ⟨h1t, h1g, h1s⟩ := h1
      refine ⟨?_, ⟨h1g, hgd⟩, ?_⟩
      · simp only [tipsL, List.filter_append, ht, h1t]
      · intro Tk φ hk
        simp only [sumBy, h1s Tk φ hk, hs Tk φ hk]
end

omit [AddCommMonoid K] in
theorem goodLensL_mem (P : K → Prop) : ∀ (cs : List (PTree K)), GoodLensL P cs → ∀ c ∈ cs, GoodLens P c
  | [], _, c, hc => by simp at hc
  | c0 :: cs, hg, c, hc => by
    rcases List.mem_cons.1 hc with rfl | h
    · exact hg.1
    · exact goodLensL_mem P cs hg.2 c h

/-- the pruned root before renaming / re-unrooting -/
theorem subGo_root (P : K → Prop) (hadd : ∀ x y, P x → P y → P (x + y)) (d : K)
    (inc : List String) (kr : Bool) (n : String) (l : Option K) (cs : List (PTree K)) (hcs : cs ≠ [])
    (hg : GoodLensL P cs) (r0 : PTree K) (h : subGo inc kr true (PTree.node n l cs) = some r0)
    (hr0 : r0.children ≠ []) :
    tipsL r0.children = (tipsL cs).filter (fun x => inc.contains x) ∧ GoodLensL P r0.children ∧
      ∀ Tk φ, Kept inc Tk φ → (∀ x ∈ Tk, x ∈ tipsL cs) →
        sumBy (phiW d φ) (splitsL r0.children) = sumBy (phiW d φ) (splitsL cs) := by
  have hL := subL_ok P hadd d inc cs hg
  have hemp : cs.isEmpty = false := by cases cs <;> simp_all
  simp only [subGo, hemp, Bool.not_true, Bool.or_false, Bool.and_false, Bool.false_eq_true, if_false] at h
  generalize hrs : subL inc true cs = rs at hL h
  obtain ⟨htips, hgood, hsum⟩ := hL
  match rs, hrs with
  | [], _ => simp at h
  | [c'], _ =>
    by_cases hk : kr = true
    · simp only [hk, if_true, Option.some.injEq] at h
      subst h
      simp only [children_node]
      exact ⟨htips, hgood, fun Tk φ hk _ => by rw [sum_splitsL, sum_splitsL, hsum Tk φ hk]⟩
    · have hk' : kr = false := by simpa using hk
      subst hk'
      simp only [Bool.false_eq_true, if_false, reduceIte, Option.some.injEq] at h
      subst h
      simp only [children_node] at hr0 ⊢
      simp only [tipsL, List.append_nil] at htips
      refine ⟨?_, goodLens_children P c' hgood.1, ?_⟩
      · rw [← tips_of_children c' hr0, htips]
      · intro Tk φ hk hsub
        have hmem : ∀ z ∈ Tk, z ∈ tips c' := by
          intro z hz; rw [htips, List.mem_filter]; exact ⟨hsub z hz, hk.1 z hz⟩
        have hedge : phiW d φ (edgeSplit c') = 0 := by
          simp only [phiW, edgeSplit, hk.2.all_in (tips c') hmem]; simp
        have := hsum Tk φ hk
        simp only [sumBy, add_zero, wsum, hedge, zero_add] at this
        rw [← splits_eq_children, this, sum_splitsL]
  | c' :: c'' :: rest, _ =>
    simp only [Option.some.injEq] at h
    subst h
    simp only [children_node]
    exact ⟨htips, hgood, fun Tk φ hk _ => by rw [sum_splitsL, sum_splitsL, hsum Tk φ hk]⟩

omit [AddCommMonoid K] in
theorem getSubTree_ok [Add K] [Zero K] (t : PTree K) (inc : List String) (im kr tonly : Bool) (r : PTree K)
    (h : getSubTree t inc im kr tonly = .ok r) :
    ∃ r0, subGo inc kr tonly t = some r0 ∧ r0.children ≠ [] ∧
      r = (if t.children.length > 2 then
            unrooted (PTree.node (if r0.name = "" then "" else "root") r0.len r0.children)
           else PTree.node (if r0.name = "" then "" else "root") r0.len r0.children) := by
  unfold getSubTree at h
  simp only at h
  generalize (if tonly = true then tips t else allNames t) = known at h
  by_cases hc : (!im && inc.any fun n => !known.contains n) = true
  · simp only [hc, if_true, reduceIte] at h; cases h
  · simp only [hc, if_false, reduceIte, Bool.false_eq_true] at h
    cases h0 : subGo inc kr tonly t with
    | none => simp only [h0] at h; cases h
    | some r0 =>
      simp only [h0] at h
      by_cases he : r0.children.isEmpty = true
      · simp only [he, if_true, reduceIte] at h; cases h
      · simp only [he, if_false, reduceIte, Bool.false_eq_true, Except.ok.injEq] at h
        exact ⟨r0, rfl, by simpa using he, h.symm⟩

omit [AddCommMonoid K] in
theorem goodLensL_iff (P : K → Prop) : ∀ (cs : List (PTree K)), GoodLensL P cs ↔ ∀ c ∈ cs, GoodLens P c
  | [] => by simp [GoodLensL]
  | c :: cs => by simp [GoodLensL, goodLensL_iff P cs]

theorem goodLensL_unrooted (P : K → Prop) (hadd : ∀ x y, P x → P y → P (x + y)) (t : PTree K)
    (hg : GoodLensL P t.children) : GoodLensL P (unrooted t).children := by
  cases t with
  | node n l cs =>
    simp only [children_node] at hg
    simp only [unrooted]
    split
    · cases hs : splitFirstInternal cs with
      | none => simpa using hg
      | some v =>
        obtain ⟨pre, x, post⟩ := v
        obtain ⟨hcs, _, _⟩ := splitFirstInternal_spec cs pre x post hs
        subst hcs
        rw [goodLensL_iff] at hg
        obtain ⟨xl, hxl, hPx⟩ := goodLens_len P x (hg x (by simp))
        have hb : ∀ s, GoodLens P s → GoodLens P (bumpLen x.len s) := by
          intro s hs'
          obtain ⟨sl, hsl, hPs⟩ := goodLens_len P s hs'
          have := goodLens_children P s hs'
          cases s with
          | node sn sl' scs =>
            simp only [len_node] at hsl; subst hsl
            simp only [bumpLen, name_node, len_node, children_node, hxl, addLen, GoodLens]
            exact ⟨⟨sl + xl, rfl, hadd sl xl hPs hPx⟩, this⟩
        simp only [children_node]
        rw [goodLensL_iff]
        intro c hc
        simp only [List.mem_append, List.mem_map] at hc
        rcases hc with (⟨s, hs', rfl⟩ | hc) | ⟨s, hs', rfl⟩
        · exact hb s (hg s (by simp [hs']))
        · exact (goodLensL_iff P _).1 (goodLens_children P x (hg x (by simp))) c hc
        · exact hb s (hg s (by simp [hs']))
    · simpa using hg

/-- `get_sub_tree(names, tipsonly=True)`: the result has exactly the kept tips (in the original
order), its edges still carry lengths in `P`, and every bipartition functional over the kept tips
(weighted unrooted topology; in particular every distance) is the original one. -/
theorem getSubTree_phi (P : K → Prop) (hadd : ∀ x y, P x → P y → P (x + y)) (d : K)
    (t : PTree K) (inc : List String) (im kr : Bool) (r : PTree K)
    (h : getSubTree t inc im kr true = .ok r)
    (hg : GoodLensL P t.children) (hnd : (tips t).Nodup) :
    tips r = (tips t).filter (fun x => inc.contains x) ∧ GoodLensL P r.children ∧
      ∀ φ, BipPred (tips r) φ → topoWeight d φ r = topoWeight d φ t := by
  cases t with
  | node n l cs =>
    simp only [children_node] at hg
    obtain ⟨r0, h0', hr0, h⟩ := getSubTree_ok _ inc im kr true r h
    have h := h.symm
    have hcs : cs ≠ [] := by
      rintro rfl
      simp only [subGo, subL] at h0'
      split at h0'
      · injection h0' with h0'; subst h0'; simp at hr0
      · cases h0'
    obtain ⟨ht, hgd, hs⟩ := subGo_root P hadd d inc kr n l cs hcs hg r0 h0' hr0
    have htt : tips (PTree.node n l cs) = tipsL cs := tips_node_ne_nil _ _ _ hcs
    -- the renamed root
    generalize hr1 : PTree.node (if r0.name = "" then "" else "root") r0.len r0.children = r1 at h
    have hr1t : tips r1 = (tips (PTree.node n l cs)).filter (fun x => inc.contains x) := by
      rw [← hr1, tips_node_ne_nil _ _ _ hr0, ht, htt]
    have hr1g : GoodLensL P r1.children := by rw [← hr1]; exact hgd
    have hr1d : ∀ φ, BipPred (tips r1) φ → topoWeight d φ r1 = topoWeight d φ (PTree.node n l cs) := by
      intro φ hφ
      have hk : Kept inc (tips r1) φ :=
        ⟨fun x hx => by rw [hr1t, List.mem_filter] at hx; exact hx.2, hφ⟩
      have hsub : ∀ x ∈ tips r1, x ∈ tipsL cs := by
        intro x hx; rw [hr1t, List.mem_filter, htt] at hx; exact hx.1
      rw [← hr1] at hk hsub ⊢
      simp only [topoWeight, splits]
      exact hs _ φ hk hsub
    simp only [children_node] at h
    by_cases hgt : cs.length > 2
    · simp only [hgt, if_true, reduceIte] at h
      subst h
      have hlen : ∀ c ∈ r1.children, ∃ l, c.len = some l := by
        intro c hc
        obtain ⟨x, hx, _⟩ := goodLens_len P c (goodLensL_mem P _ hr1g c hc)
        exact ⟨x, hx⟩
      refine ⟨by rw [tips_unrooted, hr1t], goodLensL_unrooted P hadd r1 hr1g, ?_⟩
      intro φ hφ
      rw [tips_unrooted] at hφ
      rw [unrooted_phi d r1 (by rw [hr1t]; exact hnd.filter _) hlen φ hφ]
      exact hr1d φ hφ
    · simp only [hgt, if_false, reduceIte] at h
      subst h
      exact ⟨hr1t, hr1g, hr1d⟩

/-- … in particular every distance among kept tips -/
theorem getSubTree_spec (P : K → Prop) (hadd : ∀ x y, P x → P y → P (x + y)) (d : K)
    (t : PTree K) (inc : List String) (im kr : Bool) (r : PTree K)
    (h : getSubTree t inc im kr true = .ok r)
    (hg : GoodLensL P t.children) (hnd : (tips t).Nodup) :
    tips r = (tips t).filter (fun x => inc.contains x) ∧
      ∀ a b, inc.contains a = true → inc.contains b = true → a ∈ tips t → b ∈ tips t →
        distSpec d a b r = distSpec d a b t := by
  obtain ⟨ht, _, hφ⟩ := getSubTree_phi P hadd d t inc im kr r h hg hnd
  refine ⟨ht, fun a b ha hb hat hbt => ?_⟩
  have hmem : ∀ z, inc.contains z = true → z ∈ tips t → z ∈ tips r := by
    intro z hz hzt; rw [ht, List.mem_filter]; exact ⟨hzt, hz⟩
  exact hφ (sep a b) (bipPred_sep _ a b (hmem a ha hat) (hmem b hb hbt))

end
end CogentModel.Phylo
