import CogentModel.Proofs.AlnRefine1
import CogentModel.Proofs.AlnRc
import CogentModel.Proofs.AlnTakePos
import CogentModel.Proofs.AlnKeep2
import CogentModel.Proofs.AlnFilter
namespace CogentModel.Aln
open CogentModel.IndelMap CogentModel.Gapped List CogentModel

theorem dispCol_map (data : List Char) (f : Char → Char) (hf : f '-' = '-') (o : Option Nat) :
    dispCol (data.map f) o = f (dispCol data o) := by
  cases o with
  | none => simp [dispCol, showCol, hf]
  | some i =>
    simp only [dispCol, showCol, getElem?_map]
    cases data[i]? with
    | none => simp [hf]
    | some c => simp

theorem gapped_mapData (r : Row) (h : RowWF r) (f : Char → Char) (hf : f '-' = '-') :
    RowWF { r with data := r.data.map f } ∧ gapped { r with data := r.data.map f } = (gapped r).map f := by
  have hw : RowWF { r with data := r.data.map f } := ⟨h.1, by simpa using h.2⟩
  refine ⟨hw, ?_⟩
  rw [gapped_total _ hw, gapped_total r h, map_map]
  apply map_congr_left
  intro o _
  exact dispCol_map r.data f hf o

theorem mem_takeSeqs {α} (a : List (String × α)) (ns : List String) (neg : Bool) :
    ∀ p ∈ takeSeqs a ns neg, ∃ q ∈ a, p.2 = q.2 := by
  intro p hp
  unfold takeSeqs at hp
  cases neg with
  | true => simp only [if_true] at hp; exact ⟨p, (mem_filter.mp hp).1, rfl⟩
  | false =>
    simp only [Bool.false_eq_true, if_false, mem_filterMap] at hp
    obtain ⟨n, _, hn⟩ := hp
    cases hf : find? (fun x => decide (x.1 = n)) a with
    | none => rw [hf] at hn; simp at hn
    | some q =>
      rw [hf] at hn
      simp only [Option.map_some, Option.some.injEq] at hn
      subst hn
      exact ⟨q, mem_of_find?_eq_some hf, rfl⟩

theorem takeSeqs_show (a : AlnA) (names : List String) (negate : Bool) :
    showA (takeSeqs a names negate) = takeSeqs (showA a) names negate := by
  unfold showA takeSeqs
  cases negate with
  | true => simp [List.filter_map, Function.comp_def]
  | false =>
    simp only [Bool.false_eq_true, if_false]
    have hf : ∀ n : String, (List.find? (fun x => decide (x.1 = n)) (List.map (fun p => (p.1, gapped p.2)) a))
        = (List.find? (fun x => decide (x.1 = n)) a).map (fun p => (p.1, gapped p.2)) := by
      intro n
      rw [List.find?_map]
      rfl
    induction names with
    | nil => rfl
    | cons n ns ih =>
      simp only [List.filterMap_cons]
      rw [hf]
      cases hfa : List.find? (fun x => decide (x.1 = n)) a with
      | none => simpa using ih
      | some x => simpa using ih

/-- the operations for which the history theorem is proved -/
def OpOK : AOp → Prop
  | .slice _ _ | .int _ | .rc | .takeSeqs _ _ | .takePositions _ _ | .toRna | .toDna | .addSelf | .addCopy
  | .degap _ | .sample _ _ | .reparse | .filterMask _ => True
  | .keep locs => sortPairs locs = locs

theorem rowSample_spec (r : Row) (h : RowWF r) (ml : Int) : ∀ (locs : List Int) (s : List Char),
    rowSample r ml locs = .ok s → s = denseSample (gapped r) ml locs := by
  intro locs
  induction locs with
  | nil => intro s hs; simp only [rowSample] at hs; cases hs; rfl
  | cons loc rest ih =>
    intro s hs
    simp only [rowSample] at hs
    cases hx : rowSlice r (some (loc * ml)) (some ((loc + 1) * ml)) with
    | error e => rw [hx] at hs; cases hr : rowSample r ml rest <;> rw [hr] at hs <;> cases hs
    | ok x =>
      cases hr : rowSample r ml rest with
      | error e => rw [hx, hr] at hs; cases hs
      | ok tl =>
        rw [hx, hr] at hs
        cases hs
        simp only [denseSample, (rowSlice_spec r x h _ _ hx).2, ih tl hr]

theorem find_show (a : AlnA) (name : String) :
    (showA a).find? (fun x => decide (x.1 = name)) = (a.find? (fun x => decide (x.1 = name))).map (fun p => (p.1, gapped p.2)) := by
  unfold showA
  rw [List.find?_map]
  rfl

theorem toRna_gap : toRna '-' = '-' := by decide
theorem toDna_gap : toDna '-' = '-' := by decide

/-- **one step refines**: on well-formed rows, an operation of the annotatable class that succeeds
shows exactly what the same operation gives on the gapped strings, and keeps rows well formed -/
theorem step_refines (dna : Bool) (a : AlnA) (op : AOp) (hop : OpOK op) (hwf : AllWF a)
    (a' : AlnA) (dna' : Bool) (h : stepA dna a op = .ok (a', dna')) :
    AllWF a' ∧ stepD dna (showA a) op = some (.ok (showA a', dna')) := by
  cases op with
  | slice x y =>
    simp only [stepA] at h
    cases hm : mapRows (fun r => rowSlice r x y) a with
    | error e => rw [hm] at h; cases h
    | ok a'' =>
      rw [hm] at h; cases h
      obtain ⟨i1, i2⟩ := mapRows_total _ (fun s => PySlice.slice s x y 1)
        (fun r r' hr hh => rowSlice_spec r r' hr x y hh) a a' hwf hm
      exact ⟨i1, by simp only [stepD]; rw [i2]⟩
  | int i =>
    simp only [stepA] at h
    cases hm : mapRows (fun r => rowInt r i) a with
    | error e => rw [hm] at h; cases h
    | ok a'' =>
      rw [hm] at h; cases h
      obtain ⟨i1, i2⟩ := mapRows_partial _ (fun s => denseTake s [i])
        (fun r r' hr hh => by
          obtain ⟨w, c, c1, c2⟩ := rowInt_spec r r' hr i hh
          refine ⟨w, ?_⟩
          rw [denseTake_cons, c1, c2]; rfl) a a' hwf hm
      exact ⟨i1, by simp only [stepD]; rw [i2]; rfl⟩
  | rc =>
    simp only [stepA] at h
    cases hm : mapRows (rowRc dna) a with
    | error e => rw [hm] at h; cases h
    | ok a'' =>
      rw [hm] at h; cases h
      obtain ⟨i1, i2⟩ := mapRows_total _ (fun s => s.reverse.map (comp dna))
        (fun r r' hr hh => rowRc_spec dna r r' hr hh) a a' hwf hm
      exact ⟨i1, by simp only [stepD]; rw [i2]⟩
  | keep locs =>
    have hsorted : sortPairs locs = locs := hop
    simp only [stepA] at h
    cases hm : mapRows (fun r => rowKeep r locs) a with
    | error e => rw [hm] at h; cases h
    | ok a'' =>
      rw [hm] at h; cases h
      obtain ⟨i1, i2⟩ := mapRows_total _ (fun s => denseKeep s locs)
        (fun r r' hr hh => rowKeep_spec r r' hr locs hsorted hh) a a' hwf hm
      exact ⟨i1, by simp only [stepD]; rw [i2]⟩
  | takeSeqs ns neg =>
    simp only [stepA] at h; cases h
    refine ⟨?_, by simp only [stepD]; rw [takeSeqs_show]⟩
    intro p hp
    obtain ⟨q, hq, hpq⟩ := mem_takeSeqs a ns neg p hp
    rw [hpq]; exact hwf q hq
  | takePositions cols neg =>
    cases neg with
    | false =>
      simp only [stepA, Bool.false_eq_true, if_false] at h
      cases hm : mapRows (fun r => rowTakePositions r cols) a with
      | error e => rw [hm] at h; cases h
      | ok a'' =>
        rw [hm] at h; cases h
        obtain ⟨i1, i2⟩ := mapRows_partial _ (fun s => denseTake s cols)
          (fun r r' hr hh => rowTakePositions_spec r r' hr cols hh) a a' hwf hm
        exact ⟨i1, by simp only [stepD, Bool.false_eq_true, if_false]; rw [i2]; rfl⟩
    | true =>
      simp only [stepA, if_true] at h
      cases hm : mapRows (fun r => rowTakePositionsNeg r cols) a with
      | error e => rw [hm] at h; cases h
      | ok a'' =>
        rw [hm] at h; cases h
        obtain ⟨i1, i2⟩ := mapRows_total _ (fun s => denseTakeNeg s cols)
          (fun r r' hr hh => rowTakePositionsNeg_spec r r' hr cols hh) a a' hwf hm
        exact ⟨i1, by simp only [stepD, if_true]; rw [mapDense_ok, i2]; rfl⟩
  | toRna =>
    simp only [stepA] at h; cases h
    refine ⟨?_, ?_⟩
    · intro p hp
      obtain ⟨q, hq, rfl⟩ := mem_map.mp hp
      exact (gapped_mapData q.2 (hwf q hq) toRna toRna_gap).1
    · simp only [stepD, showA, map_map]
      congr 3
      apply map_congr_left
      intro q hq
      simp only [Function.comp]
      rw [(gapped_mapData q.2 (hwf q hq) toRna toRna_gap).2]
  | toDna =>
    simp only [stepA] at h; cases h
    refine ⟨?_, ?_⟩
    · intro p hp
      obtain ⟨q, hq, rfl⟩ := mem_map.mp hp
      exact (gapped_mapData q.2 (hwf q hq) toDna toDna_gap).1
    · simp only [stepD, showA, map_map]
      congr 3
      apply map_congr_left
      intro q hq
      simp only [Function.comp]
      rw [(gapped_mapData q.2 (hwf q hq) toDna toDna_gap).2]
  | filterMask mask =>
    simp only [stepA] at h
    cases hl : maskRuns 0 none mask with
    | nil => rw [hl] at h; cases h
    | cons c rest =>
      rw [hl] at h
      simp only [] at h
      have hsorted : sortPairs (c :: rest) = c :: rest := by
        rw [← hl]
        exact sortPairs_sorted _ (maskRuns_keys mask 0 none (by intro st hh; cases hh)).1
      have hall : ¬ (mask.all (! ·) = true) := by
        intro hc
        -- with no kept column there is no block
        have : ∀ (m : List Bool) (pos : Int), m.all (! ·) = true → maskRuns pos none m = [] := by
          intro m
          induction m with
          | nil => intro pos _; rfl
          | cons b r ih =>
            intro pos hb
            cases b with
            | true => simp at hb
            | false => simp only [maskRuns, nil_append]; exact ih (pos + 1) (by simpa using hb)
        rw [this mask 0 hc] at hl; cases hl
      cases hm : mapRows (fun r => rowKeep r (c :: rest)) a with
      | error e => rw [hm] at h; cases h
      | ok a'' =>
        rw [hm] at h; cases h
        obtain ⟨i1, i2⟩ := mapRows_total _ (fun s => denseKeep s (c :: rest))
          (fun r r' hr hh => rowKeep_spec r r' hr _ hsorted hh) a a' hwf hm
        refine ⟨i1, ?_⟩
        have hall' : mask.all (! ·) = false := by
          cases hb : mask.all (! ·) with
          | true => exact absurd hb hall
          | false => rfl
        simp only [stepD, hall', Bool.false_eq_true, if_false]
        rw [i2]
        congr 3
        apply map_congr_left
        intro p _
        rw [← hl, denseKeep_maskRuns]
  | degap name =>
    simp only [stepA] at h
    simp only [stepD, find_show]
    cases hf : a.find? (fun x => decide (x.1 = name)) with
    | none => rw [hf] at h; cases h
    | some p =>
      rw [hf] at h
      simp only [] at h
      cases hm : mapRows (fun r => rowTakePositions r (nonGapCols (gapped p.2))) a with
      | error e => rw [hm] at h; cases h
      | ok a'' =>
        rw [hm] at h; cases h
        obtain ⟨i1, i2⟩ := mapRows_partial _ (fun s => denseTake s (nonGapCols (gapped p.2)))
          (fun r r' hr hh => rowTakePositions_spec r r' hr _ hh) a a' hwf hm
        exact ⟨i1, by simp only [Option.map_some]; rw [i2]; rfl⟩
  | sample locs ml =>
    simp only [stepA] at h
    cases hm : mapRows (fun r => (rowSample r ml locs).map rowOfString) a with
    | error e => rw [hm] at h; cases h
    | ok a'' =>
      rw [hm] at h; cases h
      obtain ⟨i1, i2⟩ := mapRows_total _ (fun s => denseSample s ml locs)
        (fun r r' hr hh => by
          cases hs : rowSample r ml locs with
          | error e => rw [hs] at hh; cases hh
          | ok s =>
            rw [hs] at hh
            cases hh
            exact ⟨rowWF_ofString s, by rw [gapped_rowOfString]; exact rowSample_spec r hr ml locs s hs⟩) a a' hwf hm
      exact ⟨i1, by simp only [stepD]; rw [i2]⟩
  | reparse =>
    simp only [stepA] at h; cases h
    refine ⟨?_, ?_⟩
    · intro p hp
      obtain ⟨q, _, rfl⟩ := mem_map.mp hp
      exact rowWF_ofString _
    · simp only [stepD, showA, map_map]
      congr 3
      apply map_congr_left
      intro q _
      simp only [Function.comp, gapped_rowOfString]
  | addSelf =>
    simp only [stepA] at h; cases h
    refine ⟨?_, ?_⟩
    · intro p hp
      obtain ⟨q, _, rfl⟩ := mem_map.mp hp
      exact rowWF_ofString _
    · simp only [stepD, showA, map_map]
      congr 3
      apply map_congr_left
      intro q _
      simp only [Function.comp, rowAddOther, gapped_rowOfString]
  | addCopy =>
    simp only [stepA] at h; cases h
    refine ⟨?_, ?_⟩
    · intro p hp
      obtain ⟨q, _, rfl⟩ := mem_map.mp hp
      exact rowWF_ofString _
    · simp only [stepD, showA, map_map]
      congr 3
      apply map_congr_left
      intro q _
      simp only [Function.comp, rowAddOther, gapped_rowOfString]

/-- **history theorem**: any finite sequence of the covered operations -/
theorem run_refines (ops : List AOp) : ∀ (dna : Bool) (a : AlnA), (∀ op ∈ ops, OpOK op) → AllWF a →
    ∀ (a' : AlnA) (dna' : Bool), runA dna a ops = .ok (a', dna') →
    AllWF a' ∧ runD dna (showA a) ops = some (.ok (showA a', dna')) := by
  induction ops with
  | nil => intro dna a _ hwf a' dna' h; simp only [runA] at h; cases h; exact ⟨hwf, rfl⟩
  | cons op ops ih =>
    intro dna a hok hwf a' dna' h
    simp only [runA] at h
    cases hs : stepA dna a op with
    | error e => rw [hs] at h; cases h
    | ok res =>
      obtain ⟨a1, d1⟩ := res
      rw [hs] at h
      obtain ⟨w1, s1⟩ := step_refines dna a op (hok op (by simp)) hwf a1 d1 hs
      obtain ⟨w2, s2⟩ := ih d1 a1 (fun o ho => hok o (by simp [ho])) w1 a' dna' h
      exact ⟨w2, by simp only [runD]; rw [s1]; exact s2⟩

end CogentModel.Aln
