import CogentModel.Proofs.GffBlocksC
namespace CogentModel.AnnotDb

theorem gffRec_spans (x : Merged) (hw : Wf x) : (gffRec x).spans = sortSpans x.spans := by
  unfold gffRec; simp only []; rw [map_sortPair_id _ hw.2]

theorem gffRec_name (x : Merged) : (gffRec x).name = some x.name := rfl

theorem gffRec_extended (m x : Merged) (hwm : Wf m) (hwx : Wf x) :
    gffRec { x with spans := x.spans ++ m.spans } =
      { gffRec x with spans := sortSpans (x.spans ++ m.spans), start := spanStart (sortSpans (x.spans ++ m.spans)),
                      stop := spanStop (sortSpans (x.spans ++ m.spans)) } := by
  have hall : ∀ p ∈ x.spans ++ m.spans, p.1 ≤ p.2 := by
    intro p hp
    rcases List.mem_append.mp hp with h | h
    · exact hwx.2 p h
    · exact hwm.2 p h
  unfold gffRec
  simp only []
  rw [map_sortPair_id _ hall]

/-- U: extending the stored record = `update_record_spans` on the table -/
theorem update_eq (a : List Merged) (m : Merged) (hnd : (names a).Nodup) (hm : m.name ∈ names a) (hwm : Wf m)
    (hwa : ∀ x ∈ a, Wf x) (hcompat : ∀ x ∈ a, x.name = m.name → (x.spans ++ m.spans).Nodup) :
    (a.map (extend m)).map gffRec = updateRecordSpans (a.map gffRec) m.name m.spans := by
  unfold updateRecordSpans
  have hne : m.spans.isEmpty = false := by
    cases hs : m.spans with
    | nil => exact absurd hs hwm.1
    | cons _ _ => rfl
  simp only [hne, Bool.false_eq_true, if_false]
  rw [List.find?_map]
  obtain ⟨x0, hx0, hx0n⟩ := List.mem_map.mp hm
  cases hfind : a.find? ((fun r : Rec => decide (r.name = some m.name)) ∘ gffRec) with
  | none =>
    have := List.find?_eq_none.mp hfind x0 hx0
    simp [Function.comp, gffRec_name, hx0n] at this
  | some x1 =>
    have hx1 : x1 ∈ a := List.mem_of_find?_eq_some hfind
    have hp1 := List.find?_some hfind
    have hx1n : x1.name = m.name := by simpa [Function.comp, gffRec_name] using hp1
    simp only [Option.map_some, List.map_map]
    apply List.map_congr_left
    intro x hx
    simp only [Function.comp, gffRec_name]
    by_cases hxn : x.name = m.name
    · have e : x = x1 := eq_of_name_eq a hnd x hx x1 hx1 (hxn.trans hx1n.symm)
      subst e
      rw [extend_pos m x hxn, gffRec_extended m x hwm (hwa x hx), gffRec_spans x (hwa x hx),
        mergeSpans_eq x.spans m.spans hwm.1 (hcompat x hx hxn)]
      simp [hxn, gffRec_name]
    · rw [extend_neg m x hxn]
      simp [hxn, gffRec_name]

theorem mem_foldl_stepExt (ms a : List Merged) (y : Merged) (hy : y ∈ a) (hn : y.name ∉ names ms) :
    y ∈ ms.foldl stepExt a := by
  induction ms generalizing a with
  | nil => exact hy
  | cons m ms ih =>
    simp only [names, List.map_cons, List.mem_cons, not_or] at hn
    simp only [List.foldl_cons]
    apply ih _ _ hn.2
    unfold stepExt; split
    · exact List.mem_map.mpr ⟨y, hy, extend_neg m y hn.1⟩
    · exact hy

/-- V: the update loop of the loader on the stored table = extending the merged records -/
theorem fold_update_eq (ms a : List Merged) (seen : List String) (hseen : names a = seen)
    (hnda : (names a).Nodup) (hndm : (names ms).Nodup) (hwm : ∀ m ∈ ms, Wf m) (hwa : ∀ x ∈ a, Wf x)
    (hfin : ∀ y ∈ ms.foldl stepExt a, y.spans.Nodup) :
    (ms.foldl stepExt a).map gffRec =
      ms.foldl (fun t m => if seen.contains m.name then updateRecordSpans t m.name m.spans else t) (a.map gffRec) := by
  induction ms generalizing a with
  | nil => rfl
  | cons m ms ih =>
    simp only [names, List.map_cons, List.nodup_cons] at hndm
    simp only [List.foldl_cons] at hfin ⊢
    have hwm' : ∀ z ∈ ms, Wf z := fun z hz => hwm z (List.mem_cons_of_mem _ hz)
    have hwmm := hwm m List.mem_cons_self
    by_cases hma : m.name ∈ names a
    · have hc : seen.contains m.name = true := by rw [← hseen]; exact List.contains_iff_mem.mpr hma
      have hst : stepExt a m = a.map (extend m) := by unfold stepExt; rw [if_pos hma]
      rw [hst] at hfin ⊢
      have hcompat : ∀ x ∈ a, x.name = m.name → (x.spans ++ m.spans).Nodup := by
        intro x hx hxn
        have hy : extend m x ∈ a.map (extend m) := List.mem_map.mpr ⟨x, hx, rfl⟩
        have hyn : (extend m x).name ∉ names ms := by rw [extend_name, hxn]; exact hndm.1
        have := hfin _ (mem_foldl_stepExt ms _ _ hy hyn)
        rw [extend_pos m x hxn] at this
        exact this
      simp only [hc, if_true]
      rw [← update_eq a m hnda hma hwmm hwa hcompat]
      refine ih (a.map (extend m)) ?_ ?_ hndm.2 hwm' ?_ hfin
      · rw [names_map_extend]; exact hseen
      · rw [names_map_extend]; exact hnda
      · intro x hx
        obtain ⟨y, hy, rfl⟩ := List.mem_map.mp hx
        exact wf_extend m y hwmm (hwa y hy)
    · have hc : seen.contains m.name = false := by
        rw [← hseen]
        cases h : (names a).contains m.name with
        | false => rfl
        | true => exact absurd (List.contains_iff_mem.mp h) hma
      have hst : stepExt a m = a := by unfold stepExt; rw [if_neg hma]
      rw [hst] at hfin ⊢
      simp only [hc, Bool.false_eq_true, if_false]
      exact ih a hseen hnda hndm.2 hwm' hwa hfin

/-- the loader state after reading the rows `P` (in any blocking): the one-block merge of `P` -/
def stateOf (P : List GffRow) : List Rec × List String × Nat :=
  ((combine [] (singles P 0).1).map gffRec, names (combine [] (singles P 0).1), (singles P 0).2)

theorem names_nil_nodup : (names ([] : List Merged)).Nodup := by simp [names]

theorem loadBlock_stateOf (P b : List GffRow)
    (hnd : ∀ x ∈ combine [] (singles (P ++ b) 0).1, x.spans.Nodup) :
    loadBlock (stateOf P) b = stateOf (P ++ b) := by
  have hM : combine [] (singles (P ++ b) 0).1 =
      combine (combine [] (singles P 0).1) (combine [] (singles b (singles P 0).2).1) := by
    rw [singles_append]
    simp only []
    rw [combine_append]
    have := combine_combine (singles b (singles P 0).2).1 (combine [] (singles P 0).1) [] names_nil_nodup
    simpa [combine] using this
  generalize hMP : combine [] (singles P 0).1 = MP at hM
  generalize hms : combine [] (singles b (singles P 0).2).1 = ms at hM
  have hndMP : (names MP).Nodup := by rw [← hMP]; exact nodup_names_combine _ _ names_nil_nodup
  have hndms : (names ms).Nodup := by rw [← hms]; exact nodup_names_combine _ _ names_nil_nodup
  have hwMP : ∀ x ∈ MP, Wf x := by
    rw [← hMP]; exact wf_combine _ _ (wf_singles _ _) (by intro x hx; cases hx)
  have hwms : ∀ x ∈ ms, Wf x := by
    rw [← hms]; exact wf_combine _ _ (wf_singles _ _) (by intro x hx; cases hx)
  have hdec := combine_decomp ms MP [] hndms (by intro n _ h; simp [names] at h)
  simp only [List.append_nil] at hdec
  rw [hdec] at hM
  have hfin : ∀ y ∈ ms.foldl stepExt MP, y.spans.Nodup := by
    intro y hy
    apply hnd
    rw [hM]
    exact List.mem_append_left _ hy
  have hV := fold_update_eq ms MP (names MP) rfl hndMP hndms hwms hwMP hfin
  have hfilt : ms.filter (fun m => !(names MP).contains m.name) = ms.filter (fun m => decide (m.name ∉ names MP)) := by
    apply List.filter_congr
    intro m _
    cases h : (names MP).contains m.name with
    | false =>
      have : m.name ∉ names MP := fun hm => by rw [List.contains_iff_mem.mpr hm] at h; cases h
      simp [this]
    | true => simp [List.contains_iff_mem.mp h]
  unfold loadBlock stateOf
  simp only [hMP]
  rw [mergeRows_eq b (singles P 0).2 [], hms]
  simp only []
  rw [singles_append]
  simp only []
  have hM' : combine [] ((singles P 0).1 ++ (singles b (singles P 0).2).1) =
      ms.foldl stepExt MP ++ ms.filter (fun m => decide (m.name ∉ names MP)) := by
    rw [← hM, singles_append]
  rw [hM', ← hV, hfilt]
  simp only [List.map_append, names, List.map_map]
  refine Prod.ext ?_ (Prod.ext ?_ rfl)
  · rfl
  · simp only []
    have := names_foldl_stepExt ms MP
    simp only [names] at this
    rw [this]

theorem nodup_prefix_state (X Y : List GffRow)
    (hnd : ∀ x ∈ combine [] (singles (X ++ Y) 0).1, x.spans.Nodup) :
    ∀ x ∈ combine [] (singles X 0).1, x.spans.Nodup := by
  intro x hx
  rw [singles_append] at hnd
  simp only [] at hnd
  rw [combine_append] at hnd
  obtain ⟨y, hy, _, hp⟩ := combine_mono (singles Y (singles X 0).2).1 _ x hx
  exact (hnd y hy).sublist hp.sublist

theorem foldl_loadBlock (blocks : List (List GffRow)) (P : List GffRow)
    (hnd : ∀ x ∈ combine [] (singles (P ++ blocks.flatten) 0).1, x.spans.Nodup) :
    blocks.foldl loadBlock (stateOf P) = stateOf (P ++ blocks.flatten) := by
  induction blocks generalizing P with
  | nil => simp
  | cons b rest ih =>
    simp only [List.flatten_cons, List.foldl_cons] at hnd ⊢
    rw [← List.append_assoc] at hnd ⊢
    rw [loadBlock_stateOf P b (nodup_prefix_state (P ++ b) rest.flatten hnd)]
    exact ih (P ++ b) hnd

theorem stateOf_nil : stateOf [] = ([], [], 0) := rfl

/-- block independence of the GFF loader -/
theorem loadGffBlocks_independent (blocks : List (List GffRow))
    (hnd : ∀ x ∈ (mergeRows blocks.flatten 0 []).1, x.spans.Nodup) :
    loadGffBlocks blocks = loadGffBlocks [blocks.flatten] := by
  rw [mergeRows_eq] at hnd
  simp only [] at hnd
  unfold loadGffBlocks
  rw [← stateOf_nil, foldl_loadBlock blocks [] (by simpa using hnd)]
  simp only [List.foldl_cons, List.foldl_nil, List.nil_append]
  rw [loadBlock_stateOf [] blocks.flatten (by simpa using hnd)]
  simp
end CogentModel.AnnotDb
