import CogentModel.Proofs.ViewRange
/-! Direction lemma: negative slice step on a reversed view (`revFromRev`). -/
namespace CogentModel.View
open CogentModel

theorem rr_start (vs N kk n ss S p nk ak : Int) (hk : 0 < kk) (hn : 0 < n)
    (hp : p = -(ss * kk)) (hnk : nk = -(n * kk)) (hak : ak = kk)
    (hS : S = if ss ≥ n then N + vs + nk + ak else if ss ≥ 0 then N + (vs + p)
               else N + (vs + nk + p)) :
    -1 ≤ clampN ss n ∧ clampN ss n ≤ n - 1 ∧ N + vs - clampN ss n * kk ≤ S ∧
      (0 ≤ clampN ss n → S = N + vs - clampN ss n * kk) := by
  rcases clampN_cases ss n kk hk (le_of_lt hn) with a | a | a | a <;> omega

theorem rr_stop (vs ve N kk n se E q nk : Int) (hk : 0 < kk) (hn : 0 < n)
    (kit1 : vs - ve ≤ n * kk)
    (hq : q = -(se * kk)) (hnk : nk = -(n * kk))
    (hE : E = if se ≥ 0 then N + (vs + q)
              else (if N + (vs + nk + q) > N + vs then N + vs + 1 else N + (vs + nk + q))) :
    -1 ≤ clampN se n ∧ clampN se n ≤ n - 1 ∧
      ((0 ≤ clampN se n ∧ E = N + vs - clampN se n * kk) ∨ (clampN se n = -1 ∧ se < 0 ∧ E = N + vs + 1) ∨
        (clampN se n = n - 1 ∧ se ≥ 0 ∧ E ≤ N + ve)) := by
  rcases clampN_cases se n kk hk (le_of_lt hn) with a | a | a | a <;> omega

theorem rr_combine (vs ve N kk n se A B Ak Bk nk S E : Int) (hk : 0 < kk)
    (h0 : -N - 1 ≤ ve) (h1 : ve ≤ vs) (h2 : vs ≤ -1)
    (_kit1 : vs - ve ≤ nk) (kit2 : nk < vs - ve + kk)
    (hA : -1 ≤ A ∧ A ≤ n - 1 ∧ N + vs - Ak ≤ S ∧ (0 ≤ A → S = N + vs - Ak))
    (hB : -1 ≤ B ∧ B ≤ n - 1 ∧
      ((0 ≤ B ∧ E = N + vs - Bk) ∨ (B = -1 ∧ se < 0 ∧ E = N + vs + 1) ∨ (B = n - 1 ∧ se ≥ 0 ∧ E ≤ N + ve)))
    (m1 : B < A → Bk + kk ≤ Ak) (m2 : A ≤ B → Ak ≤ Bk)
    (m3 : A ≤ n - 1 → Ak ≤ nk - kk) (m3' : B ≤ n - 1 → Bk ≤ nk - kk) (m4 : 0 ≤ B → 0 ≤ Bk) (m5 : B = -1 → Bk = -kk)
    (m6 : 0 ≤ A → 0 ≤ Ak) (m7 : A = -1 → Ak = -kk) :
    (B < A → ¬ (se ≥ 0 ∧ E ≤ N + ve) ∧ ¬ (E < S ∨ S > N ∨ min S E < 0) ∧ 0 ≤ S ∧ 0 ≤ E ∧ E ≤ N ∧ S < E ∧
        S = vs + N - Ak ∧ Ak - Bk - kk < E - S ∧ E - S ≤ Ak - Bk) ∧
    (A ≤ B → (se ≥ 0 ∧ E ≤ N + ve) ∨ (E < S ∨ S > N ∨ min S E < 0) ∨ (0 ≤ S ∧ 0 ≤ E ∧ min N E ≤ S)) := by
  constructor
  · intro hAB
    have := m1 hAB
    clear m1 m2
    omega
  · intro hAB
    have := m2 hAB
    clear m1 m2
    omega

theorem revFromRev_eq (fl : Flavour) (v : View) (ss se c S E : Int)
    (hS : S = if ss ≥ len v then v.seqLen + v.start + len v * v.step + pyabs v.step
               else if ss ≥ 0 then v.seqLen + (v.start + ss * v.step)
               else v.seqLen + (v.start + len v * v.step + ss * v.step))
    (hE : E = if se ≥ 0 then v.seqLen + (v.start + se * v.step)
              else (if v.seqLen + (v.start + len v * v.step + se * v.step) > v.seqLen + v.start
                    then v.seqLen + v.start + 1
                    else v.seqLen + (v.start + len v * v.step + se * v.step))) :
    revFromRev fl v ss se c =
      if se ≥ 0 ∧ E ≤ v.seqLen + v.stop then .ok (zero fl v)
      else if E < S ∨ S > v.seqLen ∨ min S E < 0 then .ok (zero fl v)
      else remk v S E (v.step * c) := by
  subst hS hE
  unfold revFromRev revFromRevTail
  by_cases h : se ≥ 0 <;> simp only [h, if_true, if_false, true_and, false_and]

theorem revFromRev_sem (fl : Flavour) (v w : View) (ss se c : Int) (h : Inv v) (hk : v.step < 0)
    (hc : c < 0) (hn : len v ≠ 0) (hw : revFromRev fl v ss se c = .ok w) :
    Sem w (PySlice.rangeLen (clampN ss (len v)) (clampN se (len v)) c)
      (first v + clampN ss (len v) * v.step) (v.step * c) := by
  obtain ⟨kit0, kit1, kit2⟩ := len_rev v h hk
  have hn' : 0 < len v := by omega
  have hf : first v = v.start + v.seqLen := by
    have : ¬ v.step > 0 := by omega
    simp [first, this]
  obtain ⟨hN, hI | hI⟩ := h
  · omega
  obtain ⟨_, i0, i1, i2⟩ := hI
  rw [revFromRev_eq fl v ss se c _ _ rfl rfl] at hw
  generalize hS : (if ss ≥ len v then v.seqLen + v.start + len v * v.step + pyabs v.step
               else if ss ≥ 0 then v.seqLen + (v.start + ss * v.step)
               else v.seqLen + (v.start + len v * v.step + ss * v.step)) = S at hw
  generalize hE : (if se ≥ 0 then v.seqLen + (v.start + se * v.step)
              else (if v.seqLen + (v.start + len v * v.step + se * v.step) > v.seqLen + v.start
                    then v.seqLen + v.start + 1
                    else v.seqLen + (v.start + len v * v.step + se * v.step))) = E at hw
  have hkk : 0 < -v.step := by omega
  have hak : pyabs v.step = -v.step := by unfold pyabs; rw [if_pos hk]
  have sA := rr_start v.start v.seqLen (-v.step) (len v) ss S (ss * v.step) (len v * v.step) (pyabs v.step)
    hkk hn' (by ring) (by ring) hak hS.symm
  have sB := rr_stop v.start v.stop v.seqLen (-v.step) (len v) se E (se * v.step) (len v * v.step) hkk hn'
    kit1 (by ring) (by ring) hE.symm
  generalize hA : clampN ss (len v) = A at *
  generalize hB : clampN se (len v) = B at *
  have m1 := (mul_cmp B A (-v.step) (B * -v.step) (A * -v.step) hkk rfl rfl).2
  have m2 := (mul_cmp A B (-v.step) (A * -v.step) (B * -v.step) hkk rfl rfl).1
  have m3 := (mul_cmp A (len v - 1) (-v.step) (A * -v.step) (len v * -v.step - -v.step) hkk rfl (by ring)).1
  have m3' := (mul_cmp B (len v - 1) (-v.step) (B * -v.step) (len v * -v.step - -v.step) hkk rfl (by ring)).1
  have m4 : 0 ≤ B → 0 ≤ B * -v.step := fun e => Int.mul_nonneg e (le_of_lt hkk)
  have m5 : B = -1 → B * -v.step = - -v.step := fun e => by rw [e]; ring
  have m6 : 0 ≤ A → 0 ≤ A * -v.step := fun e => Int.mul_nonneg e (le_of_lt hkk)
  have m7 : A = -1 → A * -v.step = - -v.step := fun e => by rw [e]; ring
  obtain ⟨c1, c2⟩ := rr_combine v.start v.stop v.seqLen (-v.step) (len v) se A B (A * -v.step) (B * -v.step)
    (len v * -v.step) S E hkk i0 i1 i2 kit1 kit2 sA sB m1 m2 m3 m3' m4 m5 m6 m7
  have hK : 0 < v.step * c := Int.mul_pos_of_neg_of_neg hk hc
  rcases Int.lt_or_le B A with hAB | hAB
  · obtain ⟨d0, d1, d2, d3, d4, d5, d6, d7, d8⟩ := c1 hAB
    rw [if_neg d0, if_neg d1, remk_pos_eq v S _ _ hN hK d2 d3, min_eq_right d4, if_pos d5] at hw
    have hw' := (Except.ok.inj hw).symm
    obtain ⟨L, hL0, hL, b1, b2⟩ := rangeLen_neg A B c hc hAB
    have hlen : len w = L := by
      apply len_of_block_fwd w (A - B) (-v.step) (-c) L hkk (by omega) (by rw [hw']; show v.step * c = _; ring)
        (by omega) _ _ (by omega) (by omega)
      · rw [hw']; show (A - B - 1) * -v.step < E - S
        have e : (A - B - 1) * -v.step = A * -v.step - B * -v.step - -v.step := by ring
        omega
      · rw [hw']; show E - S ≤ (A - B) * -v.step
        have e : (A - B) * -v.step = A * -v.step - B * -v.step := by ring
        omega
    refine ⟨by rw [hlen, hL], fun _ => ⟨?_, by rw [hw']⟩⟩
    have : w.step > 0 := by rw [hw']; exact hK
    rw [hf, first, if_pos this, hw']
    show S = v.start + v.seqLen + A * v.step
    have e : A * v.step = -(A * -v.step) := by ring
    omega
  · rw [rangeLen_neg_empty A B c hc hAB]
    apply sem_empty
    have c2 := c2 hAB
    split at hw
    · rw [← Except.ok.inj hw]; exact len_zero fl v
    split at hw
    · rw [← Except.ok.inj hw]; exact len_zero fl v
    have c3 : 0 ≤ S ∧ 0 ≤ E ∧ min v.seqLen E ≤ S := by omega
    rw [remk_pos_eq v S _ _ hN hK c3.1 c3.2.1, if_neg (by omega)] at hw
    rw [← Except.ok.inj hw]; rfl

end CogentModel.View
