import CogentModel.Proofs.SeqFormats
import CogentModel.Spec.PhylipInterleaved
/-! Helper lemmas for C06 / the interleaved branch of `MinimalPhylipParser` (`phyIntGo`, `phyIntFinish`). -/
namespace CogentModel.SeqFormats
open CogentModel.Splitlines CogentModel.SeqSpec CogentModel.PhylipSpec

abbrev ICache := List (Int × Str × List Str)

theorem splitLine_blank {l : Str} (h : isBlank l = true) (off : Nat) : splitLine l off = none := by
  unfold splitLine; simp [h]

theorem fmod_lt {k n : Nat} (h : k < n) : Int.fmod (k : Int) (n : Int) = k := by
  rw [Int.fmod_eq_emod_of_nonneg _ (by omega)]
  exact Int.emod_eq_of_lt (by omega) (by omega)

theorem fmod_self (n : Nat) : Int.fmod (n : Int) (n : Int) = 0 := by
  rw [Int.fmod_eq_emod_of_nonneg _ (by omega)]; simp

/-- only `curr_ct % num_seqs` matters -/
theorem phyIntGo_shift (ns : Int) : ∀ (ls : List Str) (ct : Int) (off : Nat) (cache : ICache),
    phyIntGo ns (ct + ns) off cache ls = phyIntGo ns ct off cache ls
  | [], _, _, _ => by simp [phyIntGo]
  | l :: ls, ct, off, cache => by
    unfold phyIntGo
    have e : ct + ns + 1 = (ct + 1) + ns := by omega
    simp only [Int.add_fmod_right, e, phyIntGo_shift ns ls]

/-- blank lines are skipped whatever the state -/
theorem phyIntGo_blanks (ns ct : Int) (off : Nat) (cache : ICache) (rest : List Str) : ∀ {ls : List Str} {P},
    BlockOf P [] ls → phyIntGo ns ct off cache (ls ++ rest) = phyIntGo ns ct off cache rest := by
  intro ls P h
  generalize hps : ([] : List (Str × Str)) = ps at h
  induction h with
  | nil => rfl
  | blank l hl _ ih =>
    rw [List.cons_append, phyIntGo, splitLine_blank hl]
    exact ih hps
  | line p l _ _ _ => cases hps

/-- the cache after the non-blank lines `ps` of a block, the first of them being line number `k` of the block;
`x p` is the id the line shows in its name column -/
def feed (x : Str × Str → Str) : Nat → List (Str × Str) → ICache → ICache
  | _, [], cache => cache
  | k, p :: ps, cache => feed x (k + 1) ps (cacheAppend (k : Int) p.2 cache (x p))

/-- one block of an interleaved file: from line `k` of the block to its end -/
theorem phyIntGo_block (n : Nat) (off0 : Nat) (P : Str × Str → Str → Prop) (x : Str × Str → Str)
    (hP : ∀ p l, P p l → splitLine l off0 = some (x p, p.2) ∧ p.2 ≠ []) (rest : List Str) :
    ∀ {ps : List (Str × Str)} {ls : List Str}, BlockOf P ps ls → ps ≠ [] → ∀ (k : Nat) (cache : ICache),
      k + ps.length = n →
      phyIntGo n k off0 cache (ls ++ rest) = phyIntGo n n 0 (feed x k ps cache) rest := by
  intro ps ls h
  induction h with
  | nil => intro hne; exact absurd rfl hne
  | blank l hl _ ih =>
    intro hne k cache hk
    rw [List.cons_append, phyIntGo, splitLine_blank hl]
    exact ih hne k cache hk
  | @line ps' ls' p l hl hb ih =>
    intro _ k cache hk
    obtain ⟨h1, h2⟩ := hP p l hl
    have h2' : p.2.isEmpty = false := by cases hp : p.2 with
      | nil => exact absurd hp h2
      | cons _ _ => rfl
    rw [List.cons_append, phyIntGo, h1]
    simp only [h2', Bool.and_false, Bool.false_eq_true, if_false]
    simp only [List.length_cons] at hk
    have hkn : k < n := by omega
    rw [fmod_lt hkn]
    by_cases hps : ps' = []
    · subst hps
      have e : k + 1 = n := by simpa using hk
      have e' : (k : Int) + 1 = (n : Int) := by omega
      rw [e', fmod_self]
      simp only [if_true]
      rw [phyIntGo_blanks _ _ _ _ _ hb]
      rfl
    · have hlt : k + 1 < n := by
        have : 0 < ps'.length := List.length_pos_iff.mpr hps
        omega
      have e' : (k : Int) + 1 = ((k + 1 : Nat) : Int) := by omega
      rw [e', fmod_lt hlt]
      have hne0 : ¬ (((k + 1 : Nat) : Int) = 0) := by omega
      simp only [hne0, if_false]
      rw [ih hps (k + 1) _ (by omega)]
      rfl

/-- a cache whose keys are `j, j+1, ...` -/
def mkFrom : Nat → List (Str × List Str) → ICache
  | _, [] => []
  | j, e :: es => ((j : Int), e.1, e.2) :: mkFrom (j + 1) es

theorem cacheAppend_new (s cid : Str) : ∀ (done : List (Str × List Str)) (j : Nat),
    cacheAppend ((j + done.length : Nat) : Int) s (mkFrom j done) cid = mkFrom j (done ++ [(cid, [s])])
  | [], j => by simp [mkFrom, cacheAppend]
  | e :: done, j => by
    have hne : ¬ ((j : Int) = ((j + (e :: done).length : Nat) : Int)) := by simp only [List.length_cons]; omega
    have e2 : j + (e :: done).length = (j + 1) + done.length := by simp only [List.length_cons]; omega
    simp only [mkFrom, List.cons_append, cacheAppend, hne, if_false]
    rw [e2, cacheAppend_new s cid done (j + 1)]

theorem cacheAppend_old (s cid id : Str) (g : List Str) (suf : List (Str × List Str)) :
    ∀ (pre : List (Str × List Str)) (j : Nat),
    cacheAppend ((j + pre.length : Nat) : Int) s (mkFrom j (pre ++ (id, g) :: suf)) cid
      = mkFrom j (pre ++ (id, g ++ [s]) :: suf)
  | [], j => by simp [mkFrom, cacheAppend]
  | e :: pre, j => by
    have hne : ¬ ((j : Int) = ((j + (e :: pre).length : Nat) : Int)) := by simp only [List.length_cons]; omega
    have e2 : j + (e :: pre).length = (j + 1) + pre.length := by simp only [List.length_cons]; omega
    simp only [mkFrom, List.cons_append, cacheAppend, hne, if_false]
    rw [e2, cacheAppend_old s cid id g suf pre (j + 1)]

/-- the first block creates the entries -/
theorem feed_first (x : Str × Str → Str) : ∀ (ps : List (Str × Str)) (done : List (Str × List Str)),
    feed x done.length ps (mkFrom 0 done) = mkFrom 0 (done ++ ps.map (fun p => (x p, [p.2])))
  | [], done => by simp [feed]
  | p :: ps, done => by
    have := cacheAppend_new p.2 (x p) done 0
    simp only [Nat.zero_add] at this
    rw [feed, this]
    have := feed_first x ps (done ++ [(x p, [p.2])])
    simp only [List.length_append, List.length_cons, List.length_nil] at this
    rw [this]; simp

/-- a later block appends one piece to every entry -/
theorem feed_later (x : Str × Str → Str) (id : Rec → Str) (c : Rec → Str) (g : Rec → List Str) :
    ∀ (suf pre : List Rec),
    feed x pre.length (suf.map (fun r => (r.1, c r)))
        (mkFrom 0 (pre.map (fun r => (id r, g r ++ [c r])) ++ suf.map (fun r => (id r, g r))))
      = mkFrom 0 ((pre ++ suf).map (fun r => (id r, g r ++ [c r])))
  | [], pre => by simp [feed]
  | r :: suf, pre => by
    have := cacheAppend_old (c r) (x (r.1, c r)) (id r) (g r) (suf.map (fun r => (id r, g r)))
      (pre.map (fun r => (id r, g r ++ [c r]))) 0
    simp only [Nat.zero_add, List.length_map] at this
    rw [List.map_cons, feed, List.map_cons, this]
    have ih := feed_later x id c g suf (pre ++ [r])
    simp only [List.length_append, List.length_cons, List.length_nil, List.map_append, List.map_cons, List.map_nil,
      List.append_assoc, List.cons_append, List.nil_append] at ih
    rw [ih]; simp

theorem phyIntFinish_mk (sl : Int) : ∀ (es : List (Str × List Str)) (j : Nat),
    (∀ e ∈ es, (e.2.flatten.length : Int) = sl) →
    phyIntFinish sl (mkFrom j es) = .ok (es.map (fun e => (e.1, e.2.flatten)))
  | [], _, _ => rfl
  | e :: es, j, h => by
    have h1 := h e (by simp)
    simp only [mkFrom, phyIntFinish, h1, ne_eq, not_true_eq_false, if_false]
    rw [phyIntFinish_mk sl es (j + 1) (fun e' he' => h e' (List.mem_cons_of_mem _ he'))]
    rfl

theorem contLine_split (p : Str × Str) (l : Str) (hl : ContLineOf p.2 l) : splitLine l 0 = some ([], p.2) ∧ p.2 ≠ [] := by
  obtain ⟨h0, h1, h2⟩ := hl
  have hemp : l.isEmpty = false := by
    cases l with
    | nil => simp [isBlank] at h1
    | cons _ _ => rfl
  have hs : strip ([] : Str) = [] := rfl
  refine ⟨?_, h0⟩
  unfold splitLine
  simp only [hemp, h1, Bool.or_self, Bool.false_eq_true, if_false, List.take_zero, List.drop_zero, hs, h2]

/-- all later blocks -/
theorem phyIntGo_later {recs : List Rec} (hne : recs ≠ []) (id : Rec → Str) :
    ∀ {cs : List (Rec → Str)} {bs : List (List Str)}, LaterBlocks recs cs bs → ∀ (g : Rec → List Str),
      phyIntGo recs.length recs.length 0 (mkFrom 0 (recs.map (fun r => (id r, g r)))) bs.flatten
        = mkFrom 0 (recs.map (fun r => (id r, g r ++ cs.map (fun d => d r)))) := by
  intro cs bs h
  induction h with
  | nil => intro g; simp [phyIntGo]
  | @cons cs' bs' c b hb _ ih =>
    intro g
    have sh := phyIntGo_shift (recs.length : Int) (b ++ bs'.flatten) 0 0 (mkFrom 0 (recs.map (fun r => (id r, g r))))
    simp only [Int.zero_add] at sh
    rw [List.flatten_cons, sh]
    have hblock := phyIntGo_block recs.length 0 (fun p l => ContLineOf p.2 l) (fun _ => [])
      (contLine_split) bs'.flatten hb (by simpa using hne) 0 (mkFrom 0 (recs.map (fun r => (id r, g r)))) (by simp)
    rw [show ((0 : Nat) : Int) = 0 from rfl] at hblock
    rw [hblock]
    have hf := feed_later (fun _ => []) id c g recs []
    simp only [List.length_nil, List.map_nil, List.nil_append] at hf
    rw [hf, ih (fun r => g r ++ [c r])]
    simp

theorem blockOf_mono {P Q : Str × Str → Str → Prop} : ∀ {ps : List (Str × Str)} {ls : List Str}, BlockOf P ps ls →
    (∀ p ∈ ps, ∀ l, P p l → Q p l) → BlockOf Q ps ls := by
  intro ps ls h
  induction h with
  | nil => intro _; exact .nil
  | blank l hl _ ih => intro hq; exact .blank l hl (ih hq)
  | line p l hl _ ih =>
    intro hq
    exact .line p l (hq p (by simp) l hl) (ih (fun q hq' => hq q (List.mem_cons_of_mem _ hq')))

/-- a first-block line: the id is the name cut to the documented 9 characters -/
theorem firstLine_split (p : Str × Str) (l : Str) (h : wfName p.1 = true ∧ FirstLineOf p.1 p.2 l) :
    splitLine l 10 = some (truncName p.1, p.2) ∧ p.2 ≠ [] := by
  obtain ⟨hn, rest, rfl, h0, h1, h2⟩ := h
  have hlen : (pad10 (p.1.take 9)).length = 10 := pad10_length (by rw [List.length_take]; omega)
  have hnb : isBlank (pad10 (p.1.take 9) ++ rest) = false := by
    unfold isBlank at h1 ⊢
    rw [List.all_append, h1, Bool.and_false]
  have hemp : (pad10 (p.1.take 9) ++ rest).isEmpty = false := by
    cases h : pad10 (p.1.take 9) ++ rest with
    | nil => rw [h] at hnb; simp [isBlank] at hnb
    | cons _ _ => rfl
  obtain ⟨hnne, hnp⟩ := wfName_chars hn
  have hhead : (p.1.take 9).head? ≠ some ' ' := by
    simp only [wfName, Bool.and_eq_true, bne_iff_ne, ne_eq] at hn
    cases hp : p.1 with
    | nil => simp
    | cons a as => rw [hp] at hn; simpa using hn.1.2
  have hx : p.1.take 9 ≠ [] := by
    cases hp : p.1 with
    | nil => exact absurd hp hnne
    | cons a as => simp
  refine ⟨?_, h0⟩
  unfold splitLine
  simp only [hemp, hnb, Bool.or_self, Bool.false_eq_true, if_false]
  rw [List.take_left' hlen, List.drop_left' hlen, h2]
  unfold pad10
  rw [strip_pad hx (fun c hc => hnp c (List.mem_of_mem_take hc)) hhead]
  rfl

end CogentModel.SeqFormats
