import CogentModel.Model.AnnotDb
/-! sqlite `LIKE` as modelled by `likeMatch`: `%text%` is case-insensitive substring containment. -/
namespace CogentModel.AnnotDb

theorem like_nil_nil : likeMatch [] [] = true := by simp [likeMatch]
theorem like_nil_cons (t ts) : likeMatch [] (t :: ts) = false := by simp [likeMatch]
theorem like_cons_nil (p ps) : likeMatch (p :: ps) [] = (decide (p = '%') && likeMatch ps []) := by
  rw [likeMatch]
theorem like_cons_cons (p ps t ts) : likeMatch (p :: ps) (t :: ts) =
    (if p = '%' then likeMatch ps (t :: ts) || likeMatch (p :: ps) ts
    else if p = '_' then likeMatch ps ts
    else decide (lowerAscii p = lowerAscii t) && likeMatch ps ts) := by
  rw [likeMatch]

/-- `%` followed by a pattern: some suffix of the text matches the rest -/
theorem like_percent (ps : List Char) : ∀ t : List Char,
    likeMatch ('%' :: ps) t = true ↔ ∃ pre post, t = pre ++ post ∧ likeMatch ps post = true := by
  intro t
  induction t with
  | nil =>
    rw [like_cons_nil]
    constructor
    · intro h; exact ⟨[], [], rfl, by simpa using h⟩
    · rintro ⟨pre, post, h, hm⟩
      have : pre = [] ∧ post = [] := by simpa using h.symm
      simpa [this.2] using hm
  | cons c ts ih =>
    rw [like_cons_cons]
    simp only [if_true, Bool.or_eq_true]
    constructor
    · rintro (h | h)
      · exact ⟨[], c :: ts, rfl, h⟩
      · obtain ⟨pre, post, e, hm⟩ := ih.mp h
        exact ⟨c :: pre, post, by simp [e], hm⟩
    · rintro ⟨pre, post, e, hm⟩
      cases pre with
      | nil => left; simp only [List.nil_append] at e; rw [e]; exact hm
      | cons d pre =>
        right
        simp only [List.cons_append, List.cons.injEq] at e
        exact ih.mpr ⟨pre, post, e.2, hm⟩

/-- a pattern piece without wildcards consumes exactly as many characters, equal up to ASCII case -/
theorem like_plain (n : List Char) (hn : ∀ c ∈ n, c ≠ '%' ∧ c ≠ '_') (ps : List Char) : ∀ t : List Char,
    likeMatch (n ++ ps) t = true ↔ ∃ a b, t = a ++ b ∧ a.map lowerAscii = n.map lowerAscii ∧ likeMatch ps b = true := by
  induction n with
  | nil =>
    intro t
    constructor
    · intro h; exact ⟨[], t, rfl, rfl, h⟩
    · rintro ⟨a, b, e, ha, hm⟩
      have : a = [] := by simpa using ha
      subst this; simpa [e] using hm
  | cons c n ih =>
    intro t
    have hc := hn c (List.mem_cons_self ..)
    have ih := ih (fun x hx => hn x (List.mem_cons_of_mem _ hx))
    cases t with
    | nil =>
      rw [List.cons_append, like_cons_nil]
      simp only [hc.1, decide_false, Bool.false_and, Bool.false_eq_true, false_iff]
      rintro ⟨a, b, e, ha, _⟩
      have : a = [] := by
        cases a with
        | nil => rfl
        | cons _ _ => simp at e
      subst this; simp at ha
    | cons d ts =>
      rw [List.cons_append, like_cons_cons]
      simp only [hc.1, hc.2, if_false, Bool.and_eq_true, decide_eq_true_eq]
      constructor
      · rintro ⟨h1, h2⟩
        obtain ⟨a, b, e, ha, hm⟩ := (ih ts).mp h2
        exact ⟨d :: a, b, by simp [e], by simp [ha, h1], hm⟩
      · rintro ⟨a, b, e, ha, hm⟩
        cases a with
        | nil => simp at ha
        | cons x a =>
          simp only [List.cons_append, List.cons.injEq] at e
          simp only [List.map_cons, List.cons.injEq] at ha
          exact ⟨by rw [e.1]; exact ha.1.symm, (ih ts).mpr ⟨a, b, e.2, ha.2, hm⟩⟩

theorem like_percent_only (t : List Char) : likeMatch ['%'] t = true :=
  (like_percent [] t).mpr ⟨t, [], by simp, like_nil_nil⟩

/-- **`LIKE '%text%'` is case-insensitive substring containment** (text without `%` / `_`) -/
theorem like_substring (n : List Char) (hn : ∀ c ∈ n, c ≠ '%' ∧ c ≠ '_') (t : List Char) :
    likeMatch ('%' :: (n ++ ['%'])) t = true ↔ ∃ pre a post, t = pre ++ a ++ post ∧ a.map lowerAscii = n.map lowerAscii := by
  rw [like_percent]
  constructor
  · rintro ⟨pre, post, e, hm⟩
    obtain ⟨a, b, e2, ha, _⟩ := (like_plain n hn ['%'] post).mp hm
    exact ⟨pre, a, b, by rw [e, e2, List.append_assoc], ha⟩
  · rintro ⟨pre, a, post, e, ha⟩
    exact ⟨pre, a ++ post, by rw [e, List.append_assoc], (like_plain n hn ['%'] _).mpr ⟨a, post, rfl, ha, like_percent_only post⟩⟩

end CogentModel.AnnotDb
