import CogentModel.Proofs.IndelMapReversed
import CogentModel.Proofs.AlnRefine1
import CogentModel.Model.AlnView
namespace CogentModel.Aln
open CogentModel.IndelMap CogentModel.Gapped List CogentModel

theorem cntF_reverse (xs : List Bool) : cntF xs.reverse = cntF xs := by
  simp [cntF, filter_reverse]

theorem ofPatternFrom_reverse (pat : List Bool) : ∀ k,
    (ofPatternFrom k pat).reverse =
      (ofPatternFrom 0 pat.reverse).map (Option.map fun i => k + cntF pat - 1 - i) := by
  induction pat with
  | nil => intro k; rfl
  | cons b r ih =>
    intro k
    cases b with
    | true =>
      simp only [ofPatternFrom, reverse_cons, ih k]
      rw [ofPatternFrom_append]
      simp [ofPatternFrom, cntF]
    | false =>
      simp only [ofPatternFrom, reverse_cons, ih (k + 1)]
      rw [ofPatternFrom_append]
      simp only [ofPatternFrom, map_append, map_cons, map_nil, Option.map_some]
      have hc : cntF (false :: r) = cntF r + 1 := by simp [cntF]
      congr 1
      · apply map_congr_left
        intro o _
        cases o with
        | none => rfl
        | some i => simp only [Option.map_some, hc]; congr 1; omega
      · have : (filter (fun x => !x) r.reverse).length = cntF r := by
          have := cntF_reverse r; simpa [cntF] using this
        simp only [Nat.zero_add, this, hc]
        congr 2; omega

theorem mem_ofPatternFrom_lt (xs : List Bool) : ∀ (k i : Nat), some i ∈ ofPatternFrom k xs → k ≤ i ∧ i < k + cntF xs := by
  induction xs with
  | nil => intro k i h; simp [ofPatternFrom] at h
  | cons b r ih =>
    intro k i h
    cases b with
    | true =>
      simp only [ofPatternFrom, mem_cons, reduceCtorEq, false_or] at h
      have := ih k i h
      simpa [cntF] using this
    | false =>
      have hc : cntF (false :: r) = cntF r + 1 := by simp [cntF]
      simp only [ofPatternFrom, mem_cons, Option.some.injEq] at h
      rcases h with rfl | h
      · omega
      · have := ih (k + 1) i h; omega

/-- reverse-complementing a row shows the reverse complement of the string -/
theorem rowRcWith_spec (cf : Char → Char) (hgap : cf '-' = '-') (r r' : Row) (h : RowWF r) (hr : rowRcWith cf r = .ok r') :
    RowWF r' ∧ gapped r' = (gapped r).reverse.map cf := by
  obtain ⟨hw, hp⟩ := h
  unfold rowRcWith at hr
  cases hn : nucleicReversed r.map with
  | error e => rw [hn] at hr; cases hr
  | ok nm =>
    rw [hn] at hr; cases hr
    obtain ⟨hwn, habs⟩ := reversed_spec' r.map hw nm hn
    have hpl : nm.parentLength = r.map.parentLength := by
      rw [nucleicReversed_ok r.map hw] at hn; cases hn; rfl
    have hw' : RowWF ⟨nm, r.data.reverse.map cf⟩ := ⟨hwn, by simp [hpl, hp]⟩
    refine ⟨hw', ?_⟩
    rw [gapped_total _ hw', gapped_total r ⟨hw, hp⟩, habs]
    unfold Gapped.reversed
    have hcnt : cntF (pattern (IndelMap.abs r.map)) = r.data.length := by
      rw [← seqLen_eq_cntF, seqLen_abs _ hw]; omega
    conv => rhs; rw [abs_eq_ofPattern r.map hw, ofPattern]
    rw [← map_reverse, ofPatternFrom_reverse, map_map, map_map, ofPattern]
    apply map_congr_left
    intro o ho
    cases o with
    | none => simp [dispCol, showCol, hgap]
    | some i =>
      have hlt := (mem_ofPatternFrom_lt _ 0 i ho).2
      rw [cntF_reverse, hcnt] at hlt
      simp only [Nat.zero_add] at hlt
      simp only [Function.comp, Option.map_some, dispCol, showCol, Nat.zero_add, hcnt]
      rw [getElem?_map, getElem?_reverse hlt]
      have h2 : r.data.length - 1 - i < r.data.length := by omega
      rw [getElem?_eq_getElem h2]
      simp

theorem rowRc_spec (dna : Bool) (r r' : Row) (h : RowWF r) (hr : rowRc dna r = .ok r') :
    RowWF r' ∧ gapped r' = (gapped r).reverse.map (comp dna) :=
  rowRcWith_spec (comp dna) (by cases dna <;> rfl) r r' h hr

end CogentModel.Aln
