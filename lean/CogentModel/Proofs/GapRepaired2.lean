/-
  C18 / gap merging, glue 2: the merged other row is the pairwise other row padded at the same columns; hence the
  repaired `pairwise_to_multiple` keeps every pairwise alignment.
-/
import CogentModel.Proofs.GapRepaired1
import CogentModel.Proofs.GapMerge
namespace CogentModel.GapMerge

theorem sumIf_congr (P Q : Int → Bool) (g : Gaps) (h : ∀ e ∈ g, P e.1 = Q e.1) : sumIf P g = sumIf Q g := by
  induction g with
  | nil => rfl
  | cons e r ih =>
    obtain ⟨k, v⟩ := e
    have h1 : P k = Q k := h (k, v) List.mem_cons_self
    simp only [sumIf, h1, ih (fun e he => h e (List.mem_cons_of_mem _ he))]

theorem sumIf_eq_gl (g : Gaps) (hnd : (keys g).Nodup) (x : Int) : sumIf (fun c => decide (c = x)) g = gl g x := by
  induction g with
  | nil => simp [sumIf, gl, dget]
  | cons e r ih =>
    obtain ⟨k, v⟩ := e
    simp only [keys_cons, List.nodup_cons] at hnd
    have ih' := ih hnd.2
    simp only [sumIf, gl, dget] at ih' ⊢
    by_cases hk : k = x
    · subst hk
      have hn : dget r k = none := (dget_none_iff r k).mpr hnd.1
      rw [hn] at ih'
      simp [ih']
    · simp [hk, ih']

theorem sumIf_or (P Q : Int → Bool) (g : Gaps) (hdis : ∀ c, ¬ (P c = true ∧ Q c = true)) :
    sumIf (fun c => P c || Q c) g = sumIf P g + sumIf Q g := by
  induction g with
  | nil => rfl
  | cons e r ih =>
    obtain ⟨k, v⟩ := e
    simp only [sumIf, ih]
    have := hdis k
    by_cases hp : P k = true
    · have hq : Q k = false := by
        cases h : Q k with
        | false => rfl
        | true => exact absurd ⟨hp, h⟩ this
      simp [hp, hq]; omega
    · have hp' : P k = false := by simpa using hp
      by_cases hq : Q k = true
      · simp [hp', hq]; omega
      · have hq' : Q k = false := by simpa using hq
        simp [hp', hq']

theorem sumIf_false (g : Gaps) : sumIf (fun _ => false) g = 0 := by
  induction g with
  | nil => rfl
  | cons e r ih => obtain ⟨k, v⟩ := e; simp [sumIf, ih]

/-- a window sum of `glN D` over columns = the sum of the entries of `D` lying in the window -/
theorem sumRange_sumIf (D : Gaps) (hnd : (keys D).Nodup) (hnn : ∀ e ∈ D, 0 ≤ e.2) (a cnt : Nat) :
    ((sumRange (glN D) a cnt : Nat) : Int) = sumIf (fun c => decide ((a : Int) ≤ c ∧ c < (a : Int) + cnt)) D := by
  induction cnt with
  | zero =>
    have : sumIf (fun c => decide ((a : Int) ≤ c ∧ c < (a : Int) + (0 : Nat))) D = sumIf (fun _ => false) D :=
      sumIf_congr _ _ D (fun e _ => by
        have : ¬ ((a : Int) ≤ e.1 ∧ e.1 < (a : Int) + ((0 : Nat) : Int)) := by push_cast; omega
        simp [this])
    rw [this, sumIf_false]; rfl
  | succ cnt ih =>
    rw [sumRange_succ_right]
    push_cast
    rw [ih, glN_cast D hnn, ← sumIf_eq_gl D hnd]
    rw [← sumIf_or _ _ D (fun c => by simp; omega)]
    apply sumIf_congr
    intro e _
    have hiff : (((a : Int) ≤ e.1 ∧ e.1 < (a : Int) + (cnt : Int)) ∨ e.1 = ((a + cnt : Nat) : Int)) ↔
        ((a : Int) ≤ e.1 ∧ e.1 < (a : Int) + (cnt : Int) + 1) := by push_cast; omega
    rw [← Bool.decide_or]
    exact decide_eq_decide.mpr hiff

theorem gapsValid_ok (g : Gaps) (len : Int) (h : gapsValid g len = true) : GapsOK g len := by
  simp only [gapsValid, Bool.and_eq_true, List.all_eq_true, decide_eq_true_eq] at h
  have hall : ∀ e ∈ g, (0 ≤ e.1 ∧ e.1 ≤ len) ∧ 0 < e.2 := by
    intro e he
    have := h.1 e he
    obtain ⟨p, l⟩ := e
    simpa using this
  refine ⟨h.2, fun e he => (hall e he).2, fun k hk => ?_⟩
  obtain ⟨e, he, rfl⟩ := List.mem_map.mp hk
  exact (hall e he).1

/-- columns of `_combined_refseq_gaps` lie inside the pairwise alignment -/
theorem combined_col_range (rg u : Gaps) (reflen : Int) (hrg : GapsOK rg reflen) (hu : GapsOK u reflen)
    (H : MergeHyp rg u) (c : Int) (hc : c ∈ keys (combinedRefseqGaps rg u)) : 0 ≤ c ∧ c ≤ reflen + total rg := by
  obtain ⟨p, hp, rfl⟩ := combined_keys rg u H c hc
  have hpr := hu.range p hp
  have h0 : sumLt rg 0 = 0 := sumLt_all_ge rg 0 (fun k hk => (hrg.range k hk).1)
  have h1 := sumLt_mono rg hrg.nonneg 0 p hpr.1
  have h2 := gl_nonneg rg hrg.nonneg p
  have htot : colOf rg reflen = reflen + total rg := by
    have := sumLt_succ rg hrg.nodup reflen
    have := sumLt_total rg reflen hrg (reflen + 1) (by omega)
    simp only [colOf]; omega
  have hle : colOf rg p ≤ colOf rg reflen := by
    by_cases he : p = reflen
    · rw [he]; exact Int.le_refl _
    · have := colOf_strictMono rg hrg.nodup hrg.nonneg p reflen (by omega); omega
  simp only [colOf] at *
  omega

/-- **the other row**: its gap run in front of residue `r` grows by everything inserted at the run's columns -/
theorem other_window (rg og u : Gaps) (reflen len : Int) (hlen : 0 ≤ len) (hrg : GapsOK rg reflen)
    (hog : GapsOK og len) (hu : GapsOK u reflen) (H : MergeHyp rg u)
    (hL : reflen + total rg = len + total og) :
    ∃ inj, gapsForInjection true og (combinedRefseqGaps rg u) len = .ok inj ∧
      ∀ r : Nat, r ≤ len.toNat →
        glN inj r = glN og r + sumRange (glN (combinedRefseqGaps rg u)) (stN (glN og) r) (glN og r + 1) := by
  have hnd := combined_nodup rg u H
  have hnn := combined_nonneg rg u H
  -- facts about `seq_position` on the keys of D
  have hsorted : SortedLT (sortGaps og) := sortGaps_sorted og hog.nodup
  have hposS : ∀ e ∈ sortGaps og, 0 < e.2 := fun e he => hog.pos e ((mem_sortGaps og e).mp he)
  have hkey : ∀ c ∈ keys (combinedRefseqGaps rg u),
      0 ≤ seqPosAt (sortGaps og) 0 c ∧ seqPosAt (sortGaps og) 0 c ≤ len ∧
      startZ og (seqPosAt (sortGaps og) 0 c) ≤ c ∧
      c ≤ startZ og (seqPosAt (sortGaps og) 0 c) + gl og (seqPosAt (sortGaps og) 0 c) := by
    intro c hc
    have hr := combined_col_range rg u reflen hrg hu H c hc
    have hw := seqPosAt_window (sortGaps og) hsorted hposS 0 c
    have hge := seqPosAt_ge (sortGaps og) 0 c 0
      (fun e he => (hog.range e.1 (List.mem_map.mpr ⟨e, (mem_sortGaps og e).mp he, rfl⟩)).1) (by omega)
    have e1 : sumLt (sortGaps og) (seqPosAt (sortGaps og) 0 c) = sumLt og (seqPosAt (sortGaps og) 0 c) :=
      sumIf_sortGaps _ og
    rw [e1, gl_sortGaps] at hw
    refine ⟨hge, ?_, by simp only [startZ]; omega, by simp only [startZ]; omega⟩
    by_cases hx : seqPosAt (sortGaps og) 0 c ≤ len
    · exact hx
    · have := sumLt_total og len hog (seqPosAt (sortGaps og) 0 c) (by omega)
      omega
  obtain ⟨inj, hinj, hgl⟩ := injectLoop_ok (GapOffset.mk' og true) (sortGaps og) len
    (sortGaps (combinedRefseqGaps rg u)) og (fun e he => by
      have hk : e.1 ∈ keys (combinedRefseqGaps rg u) :=
        List.mem_map.mpr ⟨e, (mem_sortGaps _ e).mp he, rfl⟩
      have := hkey e.1 hk
      omega)
  refine ⟨inj, hinj, fun r hr => ?_⟩
  have hrl : (r : Int) ≤ len := by
    have : ((len.toNat : Nat) : Int) = len := Int.toNat_of_nonneg hlen
    omega
  have hg := hgl (r : Int)
  rw [sumIf_sortGaps] at hg
  -- replace the predicate by the window predicate
  have hcongr : sumIf (fun c => decide (min len (seqPosAt (sortGaps og) 0 c) = (r : Int))) (combinedRefseqGaps rg u) =
      sumIf (fun c => decide (((stN (glN og) r : Nat) : Int) ≤ c ∧ c < ((stN (glN og) r : Nat) : Int) + ((glN og r + 1 : Nat) : Int)))
        (combinedRefseqGaps rg u) := by
    apply sumIf_congr
    intro e he
    have hk : e.1 ∈ keys (combinedRefseqGaps rg u) := List.mem_map.mpr ⟨e, he, rfl⟩
    obtain ⟨h0, h1, h2, h3⟩ := hkey e.1 hk
    have hst := stN_cast og len hog r
    have hgr := glN_cast og hog.nonneg r
    have hmin : min len (seqPosAt (sortGaps og) 0 e.1) = seqPosAt (sortGaps og) 0 e.1 := by omega
    rw [hmin]
    apply decide_eq_decide.mpr
    constructor
    · intro hx
      rw [hx] at h2 h3
      refine ⟨by omega, ?_⟩
      push_cast; omega
    · intro hwin
      have hw2 : e.1 < startZ og (r : Int) + (gl og (r : Int) + 1) := by
        have := hwin.2; push_cast at this; omega
      exact window_unique og hog.nodup hog.nonneg e.1 _ _ h2 h3 (by omega) (by omega)
  rw [hcongr, ← sumRange_sumIf _ hnd hnn] at hg
  have hnn_sum : (0 : Int) ≤ ((sumRange (glN (combinedRefseqGaps rg u)) (stN (glN og) r) (glN og r + 1) : Nat) : Int) :=
    Int.natCast_nonneg _
  have hgo := glN_cast og hog.nonneg r
  have hgo2 := gl_nonneg og hog.nonneg (r : Int)
  have : ((glN inj r : Nat) : Int) = gl inj r := by
    simp only [glN, gl] at hg hgo2 ⊢
    omega
  omega

end CogentModel.GapMerge
