import CogentModel.Proofs.AlnKeep1
import CogentModel.Proofs.IndelMapJoin3
import CogentModel.Proofs.AlnRc
namespace CogentModel.Aln
open CogentModel.IndelMap CogentModel.Gapped List CogentModel

theorem display_tail (D1 D2 : List Char) (Q : List Bool) : ∀ (j : Nat),
    (ofPatternFrom (D1.length + j) Q).filterMap (showCol (D1 ++ D2)) = (ofPatternFrom j Q).filterMap (showCol D2) := by
  induction Q with
  | nil => intro j; rfl
  | cons b r ih =>
    intro j
    cases b with
    | true => simp only [ofPatternFrom, filterMap_cons, showCol, ih j]
    | false =>
      simp only [ofPatternFrom, filterMap_cons, showCol]
      have h1 : (D1 ++ D2)[D1.length + j]? = D2[j]? := by
        rw [getElem?_append_right (by omega)]; congr 1; omega
      rw [h1, Nat.add_assoc, ih (j + 1)]

theorem filterMap_congr' {α β} (f g : α → Option β) : ∀ (l : List α), (∀ x ∈ l, f x = g x) →
    l.filterMap f = l.filterMap g := by
  intro l
  induction l with
  | nil => intro _; rfl
  | cons x r ih =>
    intro h
    simp only [filterMap_cons, h x (by simp), ih (fun y hy => h y (by simp [hy]))]

theorem display_concat (D1 D2 : List Char) (P Q : List Bool) (h : D1.length = cntF P) :
    (ofPatternFrom 0 (P ++ Q)).filterMap (showCol (D1 ++ D2)) =
      (ofPatternFrom 0 P).filterMap (showCol D1) ++ (ofPatternFrom 0 Q).filterMap (showCol D2) := by
  rw [ofPatternFrom_append, filterMap_append]
  congr 1
  · apply filterMap_congr'
    intro o ho
    cases o with
    | none => rfl
    | some i =>
      have := (mem_ofPatternFrom_lt P 0 i ho).2
      simp only [showCol]
      rw [getElem?_append_left (by omega)]
  · have := display_tail D1 D2 Q 0
    simp only [Nat.add_zero, Nat.zero_add] at this ⊢
    have hc : (filter (fun x => !x) P).length = D1.length := by rw [h]; rfl
    rw [hc]; exact this

theorem segs_spec (r : Row) (h : RowWF r) : ∀ (locs : List (Int × Int)) (D : List Char),
    rowKeep.segs r locs = .ok D →
    D.length = cntF (joinedPattern (IndelMap.abs r.map) locs) ∧
    (ofPatternFrom 0 (joinedPattern (IndelMap.abs r.map) locs)).filterMap (showCol D) = denseKeep (gapped r) locs := by
  intro locs
  induction locs with
  | nil => intro D hD; simp only [rowKeep.segs] at hD; cases hD; exact ⟨rfl, rfl⟩
  | cons c rest ih =>
    intro D hD
    obtain ⟨s, e⟩ := c
    simp only [rowKeep.segs] at hD
    cases hs : getSeqIndex r.map s with
    | error er => rw [hs] at hD; cases hD
    | ok ss =>
      cases he : getSeqIndex r.map e with
      | error er => rw [hs, he] at hD; cases hD
      | ok se =>
        cases hr : rowKeep.segs r rest with
        | error er => rw [hs, he, hr] at hD; cases hD
        | ok tl =>
          rw [hs, he, hr] at hD
          cases hD
          obtain ⟨i1, i2⟩ := ih tl hr
          obtain ⟨k1, k2⟩ := keepSeg_spec r h s e ss se hs he
          simp only [joinedPattern, flatMap_cons, denseKeep] at i1 i2 ⊢
          refine ⟨by rw [length_append, cntF_append, k1, i1], ?_⟩
          rw [display_concat _ _ _ _ k1, k2, i2]

/-- the common part of both branches of `Aligned.__getitem__(FeatureMap)` -/
theorem keep_common (r : Row) (h : RowWF r) (locs : List (Int × Int)) (im : IMap) (D : List Char)
    (hw : WF im) (habs : IndelMap.abs im = ofPattern (joinedPattern (IndelMap.abs r.map) locs))
    (hD : rowKeep.segs r locs = .ok D) :
    RowWF ⟨im, D⟩ ∧ gapped ⟨im, D⟩ = denseKeep (gapped r) locs := by
  obtain ⟨i1, i2⟩ := segs_spec r h locs D hD
  refine ⟨⟨hw, ?_⟩, ?_⟩
  · have := seqLen_abs im hw
    rw [habs, ofPattern, seqLen_ofPatternFrom] at this
    have := hw.pl_nonneg
    show im.parentLength = (D.length : Int)
    omega
  · unfold gapped
    simp only []
    rw [absSpans_eq_abs _ hw, habs, ofPattern]
    exact i2

/-- **keeping blocks of columns** (`Aligned.__getitem__(FeatureMap)` as `filtered()` /
`gapped_by_map` use it): for blocks sorted by start the row then displays the blocks of the
displayed string joined together -/
theorem rowKeep_spec (r r' : Row) (h : RowWF r) (locs : List (Int × Int)) (hsorted : sortPairs locs = locs)
    (hr : rowKeep r locs = .ok r') : RowWF r' ∧ gapped r' = denseKeep (gapped r) locs := by
  unfold rowKeep at hr
  match locs, hsorted, hr with
  | [], _, hr => simp at hr
  | [(s, e)], _, hr =>
    simp only [] at hr
    cases hg : getitem r.map (some s) (some e) none with
    | error er => rw [hg] at hr; cases hs : getSeqIndex r.map s <;> cases he : getSeqIndex r.map e <;> rw [hs, he] at hr <;> cases hr
    | ok im =>
      cases hs : getSeqIndex r.map s with
      | error er => rw [hg, hs] at hr; cases he : getSeqIndex r.map e <;> rw [he] at hr <;> cases hr
      | ok ss =>
        cases he : getSeqIndex r.map e with
        | error er => rw [hg, hs, he] at hr; cases hr
        | ok se =>
          rw [hg, hs, he] at hr
          cases hr
          obtain ⟨hw, habs⟩ := getitem_spec' r.map h.1 (some s) (some e) im hg
          have hsegs : rowKeep.segs r [(s, e)] = .ok (PySlice.slice r.data (some ss) (some se) 1 ++ []) := by
            simp only [rowKeep.segs, hs, he]
          have := keep_common r h [(s, e)] im _ hw (by
            rw [habs]; unfold Gapped.slice rebase; simp [joinedPattern]) hsegs
          simpa using this
  | c1 :: c2 :: rest, hsorted, hr =>
    simp only [] at hr
    cases hj : joinedSegments r.map (c1 :: c2 :: rest) with
    | error er => rw [hj] at hr; cases hr
    | ok im =>
      rw [hj] at hr
      simp only [] at hr
      cases hD : rowKeep.segs r (c1 :: c2 :: rest) with
      | error er => rw [hD] at hr; cases hr
      | ok D =>
        rw [hD] at hr
        cases hr
        obtain ⟨hw, habs⟩ := joined_spec' r.map h.1 _ im hj
        rw [hsorted] at habs
        exact keep_common r h _ im D hw habs hD

end CogentModel.Aln
