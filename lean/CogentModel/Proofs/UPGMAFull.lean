import CogentModel.Proofs.UPGMALemmas
import Mathlib.Tactic.Ring
import Mathlib.Tactic.Linarith
import Mathlib.Algebra.Order.Field.Rat
/-! Helper lemmas for C15 (UPGMA), second part: `find_smallest_index` returns a first minimum, the sentinel
invariant (dead rows/columns hold `big`, live off-diagonal entries are below `big`), the number of live
clusters, the tips of the live clusters.  Together they remove the hypothesis `GoodSel` from
`upgma_realises_ultrametric_partial` and give "the tips are exactly the labels". -/
namespace CogentModel.UPGMA
open CogentModel.NJ (Mat get tab get_tab)

/-! ### `find_smallest_index` -/

/-- the fold of `findSmallest` for an arbitrary value function -/
def amin (val : Nat → Rat) (l : List Nat) (b : Nat) : Nat :=
  l.foldl (fun best idx => if val idx < val best then idx else best) b

theorem amin_spec (val : Nat → Rat) (l : List Nat) (b : Nat) :
    (amin val l b = b ∨ amin val l b ∈ l) ∧ val (amin val l b) ≤ val b ∧ ∀ x ∈ l, val (amin val l b) ≤ val x := by
  induction l generalizing b with
  | nil => simp [amin]
  | cons x xs ih =>
    have hunf : amin val (x :: xs) b = amin val xs (if val x < val b then x else b) := rfl
    rw [hunf]
    by_cases h : val x < val b
    · rw [if_pos h]
      obtain ⟨h1, h2, h3⟩ := ih x
      refine ⟨?_, by linarith, ?_⟩
      · rcases h1 with h1 | h1
        · right; rw [h1]; exact List.mem_cons_self
        · right; exact List.mem_cons_of_mem _ h1
      · intro y hy
        rcases List.mem_cons.1 hy with rfl | hy
        · exact h2
        · exact h3 y hy
    · rw [if_neg h]
      obtain ⟨h1, h2, h3⟩ := ih b
      refine ⟨?_, h2, ?_⟩
      · rcases h1 with h1 | h1
        · left; exact h1
        · right; exact List.mem_cons_of_mem _ h1
      · intro y hy
        rcases List.mem_cons.1 hy with rfl | hy
        · have : val b ≤ val y := not_lt.1 h
          linarith
        · exact h3 y hy

theorem findSmallest_eq (m : Mat) (n : Nat) :
    findSmallest m n = (amin (fun idx => get m (idx / n) (idx % n)) (List.range (n * n)) 0 / n,
      amin (fun idx => get m (idx / n) (idx % n)) (List.range (n * n)) 0 % n) := rfl

/-- `find_smallest_index` returns an in-range position holding a minimum of the whole array -/
theorem findSmallest_spec (m : Mat) (n : Nat) (hn : 0 < n) :
    (findSmallest m n).1 < n ∧ (findSmallest m n).2 < n ∧
    ∀ a b, a < n → b < n → get m (findSmallest m n).1 (findSmallest m n).2 ≤ get m a b := by
  rw [findSmallest_eq]
  obtain ⟨h1, _, h3⟩ := amin_spec (fun idx => get m (idx / n) (idx % n)) (List.range (n * n)) 0
  have hlt : amin (fun idx => get m (idx / n) (idx % n)) (List.range (n * n)) 0 < n * n := by
    rcases h1 with h1 | h1
    · rw [h1]; exact Nat.mul_pos hn hn
    · exact List.mem_range.1 h1
  refine ⟨Nat.div_lt_of_lt_mul hlt, Nat.mod_lt _ hn, ?_⟩
  intro a b ha hb
  have hidx : a * n + b < n * n := by
    have : (a + 1) * n ≤ n * n := Nat.mul_le_mul_right n (by omega)
    rw [Nat.add_mul] at this
    omega
  have := h3 (a * n + b) (List.mem_range.2 hidx)
  have hd : (a * n + b) / n = a := by
    rw [Nat.add_comm, Nat.add_mul_div_right _ _ hn, Nat.div_eq_of_lt hb]; omega
  have hm : (a * n + b) % n = b := by
    rw [Nat.add_comm, Nat.add_mul_mod_self_right, Nat.mod_eq_of_lt hb]
  simp only [hd, hm] at this
  exact this

/-! ### sums of natural numbers over `0..n-1` -/

def nsum : Nat → (Nat → Nat) → Nat
  | 0, _ => 0
  | n + 1, f => nsum n f + f n

theorem nsum_congr (n : Nat) (f g : Nat → Nat) (h : ∀ k, k < n → f k = g k) : nsum n f = nsum n g := by
  induction n with
  | zero => rfl
  | succ n ih =>
    simp only [nsum]
    rw [ih (fun k hk => h k (by omega)), h n (by omega)]

theorem nsum_const_one (n : Nat) : nsum n (fun _ => 1) = n := by
  induction n with
  | zero => rfl
  | succ n ih => simp only [nsum]; rw [ih]

theorem nsum_zero (n : Nat) : nsum n (fun _ => 0) = 0 := by
  induction n with
  | zero => rfl
  | succ n ih => simp only [nsum]; rw [ih]

/-- overwriting position `j` -/
theorem nsum_update (n j v : Nat) (f : Nat → Nat) (hj : j < n) :
    nsum n (fun a => if a = j then v else f a) + f j = nsum n f + v := by
  induction n with
  | zero => omega
  | succ n ih =>
    simp only [nsum]
    by_cases hjn : j = n
    · subst hjn
      rw [if_pos rfl, nsum_congr j (fun a => if a = j then v else f a) f
        (fun k hk => by rw [if_neg (by omega)])]
      omega
    · rw [if_neg (fun e => hjn e.symm)]
      have := ih (by omega)
      omega

theorem nsum_single (n i : Nat) (f : Nat → Nat) (hi : i < n) (h : ∀ a, a < n → a ≠ i → f a = 0) :
    nsum n f = f i := by
  have h1 := nsum_update n i 0 f hi
  have h2 : nsum n (fun a => if a = i then 0 else f a) = nsum n (fun _ => 0) := by
    apply nsum_congr
    intro k hk
    by_cases hki : k = i
    · rw [if_pos hki]
    · rw [if_neg hki]; exact h k hk hki
  have h3 := nsum_zero n
  omega

theorem nsum_ge_two (n i j : Nat) (f : Nat → Nat) (hij : i ≠ j) (hi : i < n) (hj : j < n) :
    f i + f j ≤ nsum n f := by
  have h1 := nsum_update n j 0 f hj
  have h2 := nsum_update n i 0 (fun a => if a = j then 0 else f a) hi
  simp only [if_neg hij] at h2
  omega

theorem nsum_pos_exists (n : Nat) (p : Nat → Bool) (h : 1 ≤ nsum n (fun a => if p a then 1 else 0)) :
    ∃ a, a < n ∧ p a = true := by
  induction n with
  | zero => simp [nsum] at h
  | succ n ih =>
    simp only [nsum] at h
    by_cases hp : p n = true
    · exact ⟨n, by omega, hp⟩
    · rw [if_neg hp] at h
      obtain ⟨a, ha, hpa⟩ := ih (by omega)
      exact ⟨a, by omega, hpa⟩

theorem nsum_two_exists (n : Nat) (p : Nat → Bool) (h : 2 ≤ nsum n (fun a => if p a then 1 else 0)) :
    ∃ a b, a < n ∧ b < n ∧ a ≠ b ∧ p a = true ∧ p b = true := by
  induction n with
  | zero => simp [nsum] at h
  | succ n ih =>
    simp only [nsum] at h
    by_cases hp : p n = true
    · rw [if_pos hp] at h
      obtain ⟨a, ha, hpa⟩ := nsum_pos_exists n p (by omega)
      exact ⟨a, n, by omega, by omega, by omega, hpa, hp⟩
    · rw [if_neg hp] at h
      obtain ⟨a, b, ha, hb, hab, hpa, hpb⟩ := ih (by omega)
      exact ⟨a, b, by omega, by omega, hab, hpa, hpb⟩

/-! ### the sentinel invariant and the selected pair -/

/-- number of live clusters -/
def liveCount (n : Nat) (order : List (Option Entry)) : Nat := nsum n fun a => if liveB order a then 1 else 0

/-- what `find_smallest_index` relies on: rows and columns of merged-away clusters hold `big`, distances
between different live clusters are below `big` (nothing is assumed about the diagonal of a live cluster) -/
structure SInv (n : Nat) (big : Rat) (m : Mat) (order : List (Option Entry)) : Prop where
  len : order.length = n
  dead : ∀ a b, a < n → b < n → (¬ Live order a ∨ ¬ Live order b) → get m a b = big
  small : ∀ a b, Live order a → Live order b → a ≠ b → get m a b < big

theorem get_resetDiag (m : Mat) (n : Nat) (big : Rat) (a b : Nat) (ha : a < n) (hb : b < n) :
    get (resetDiag m n big) a b = if a = b then big else get m a b := by
  unfold resetDiag
  rw [get_tab _ _ _ _ ha hb]

/-- with at least two live clusters the selected pair is a live off-diagonal minimum -/
theorem select_good (n : Nat) (big : Rat) (st : State) (hS : SInv n big st.m st.order)
    (h2 : 2 ≤ liveCount n st.order) : GoodSel n big st := by
  obtain ⟨x, y, hx, hy, hxy, hlx, hly⟩ := nsum_two_exists n (liveB st.order) h2
  have hlx := (liveB_iff _ _).1 hlx
  have hly := (liveB_iff _ _).1 hly
  have hn : 0 < n := by omega
  have hsmall := hS.small x y hlx hly hxy
  -- a minimum of a matrix with the three sentinel facts is a live off-diagonal pair
  have key : ∀ m1 : Mat, (∀ a b, a < n → b < n → a ≠ b → get m1 a b = get st.m a b) →
      (findSmallest m1 n).1 ≠ (findSmallest m1 n).2 →
      Live st.order (findSmallest m1 n).1 ∧ Live st.order (findSmallest m1 n).2 ∧
      ∀ a b, Live st.order a → Live st.order b → a ≠ b →
        get m1 (findSmallest m1 n).1 (findSmallest m1 n).2 ≤ get m1 a b := by
    intro m1 hoff hne
    obtain ⟨hr, hc, hmin⟩ := findSmallest_spec m1 n hn
    have hlt : get m1 (findSmallest m1 n).1 (findSmallest m1 n).2 < big := by
      have := hmin x y hx hy
      rw [hoff x y hx hy hxy] at this
      linarith
    rw [hoff _ _ hr hc hne] at hlt
    refine ⟨?_, ?_, fun a b ha hb _ => hmin a b (hS.len ▸ live_lt _ a ha) (hS.len ▸ live_lt _ b hb)⟩
    · by_contra hd
      rw [hS.dead _ _ hr hc (Or.inl hd)] at hlt
      exact lt_irrefl _ hlt
    · by_contra hd
      rw [hS.dead _ _ hr hc (Or.inr hd)] at hlt
      exact lt_irrefl _ hlt
  unfold GoodSel
  by_cases hdiag : (findSmallest st.m n).1 = (findSmallest st.m n).2
  · have hsel : select n big st.m = (resetDiag st.m n big, findSmallest (resetDiag st.m n big) n) := by
      unfold select; rw [if_pos hdiag]
    rw [hsel]
    have hoff : ∀ a b, a < n → b < n → a ≠ b → get (resetDiag st.m n big) a b = get st.m a b := by
      intro a b ha hb hab
      rw [get_resetDiag _ _ _ _ _ ha hb, if_neg hab]
    have hne : (findSmallest (resetDiag st.m n big) n).1 ≠ (findSmallest (resetDiag st.m n big) n).2 := by
      intro he
      obtain ⟨hr, hc, hmin⟩ := findSmallest_spec (resetDiag st.m n big) n hn
      have := hmin x y hx hy
      rw [hoff x y hx hy hxy, get_resetDiag _ _ _ _ _ hr hc, if_pos he] at this
      linarith
    obtain ⟨k1, k2, k3⟩ := key _ hoff hne
    exact ⟨k1, k2, hne, k3⟩
  · have hsel : select n big st.m = (st.m, findSmallest st.m n) := by
      unfold select; rw [if_neg hdiag]
    rw [hsel]
    obtain ⟨k1, k2, k3⟩ := key st.m (fun _ _ _ _ _ => rfl) hdiag
    exact ⟨k1, k2, hdiag, k3⟩

/-! ### one pass -/

/-- the node list after merging the live clusters `i ≠ j` -/
theorem stepWith_order (n : Nat) (big : Rat) (m : Mat) (order : List (Option Entry)) (i j : Nat) (ei ej : Entry)
    (hei : order.getD i none = some ei) (hej : order.getD j none = some ej) (hij : i ≠ j) :
    ∃ l1 l2 h, ∀ a, (stepWith n big order m (i, j)).order.getD a none
      = if a = j then none else if a = i then some ⟨.node ei.tree l1 ej.tree l2, false, h⟩ else order.getD a none := by
  have hin : i < order.length := live_lt order i ⟨ei, hei⟩
  have hjn : j < order.length := live_lt order j ⟨ej, hej⟩
  refine ⟨branch ei (get m i j / 2), branch ej (get m i j / 2), get m i j / 2, ?_⟩
  intro a
  show (condenseNodes m i j order).getD a none = _
  unfold condenseNodes
  simp only [hei, hej, Option.getD_some]
  exact getD_set2 order i j a _ hin hjn hij

theorem live_of_step (order order' : List (Option Entry)) (i j : Nat) (new : Entry) (hi : Live order i)
    (hord : ∀ a, order'.getD a none = if a = j then none else if a = i then some new else order.getD a none) (a : Nat) :
    Live order' a ↔ a ≠ j ∧ Live order a := by
  unfold Live
  rw [hord a]
  by_cases haj : a = j
  · rw [if_pos haj]; simp [haj]
  · rw [if_neg haj]
    by_cases hai : a = i
    · rw [if_pos hai]
      subst hai
      exact ⟨fun _ => ⟨haj, hi⟩, fun _ => ⟨new, rfl⟩⟩
    · rw [if_neg hai]
      exact ⟨fun h => ⟨haj, h⟩, fun h => h.2⟩

/-- the sentinel invariant survives merging a live pair -/
theorem stepWith_sinv (n : Nat) (big : Rat) (m : Mat) (order : List (Option Entry)) (i j : Nat)
    (hS : SInv n big m order) (hi : Live order i) (hj : Live order j) (hij : i ≠ j) :
    SInv n big (stepWith n big order m (i, j)).m (stepWith n big order m (i, j)).order := by
  obtain ⟨ei, hei⟩ := hi
  obtain ⟨ej, hej⟩ := hj
  have hi : Live order i := ⟨ei, hei⟩
  have hj : Live order j := ⟨ej, hej⟩
  have hin : i < n := hS.len ▸ live_lt order i hi
  obtain ⟨l1, l2, h, hord⟩ := stepWith_order n big m order i j ei ej hei hej hij
  have hlive := live_of_step order _ i j _ hi hord
  have hm : ∀ a b, a < n → b < n → get (stepWith n big order m (i, j)).m a b
      = if a = j ∨ b = j then big else if a = i then newVec m i j b else if b = i then newVec m i j a else get m a b := by
    intro a b ha hb
    show get (condenseMatrix m n i j big) a b = _
    unfold condenseMatrix
    rw [get_tab _ _ _ _ ha hb]
  refine ⟨?_, ?_, ?_⟩
  · show (condenseNodes m i j order).length = n
    unfold condenseNodes; simp [hS.len]
  · intro a b ha hb hd
    rw [hm a b ha hb]
    by_cases hj' : a = j ∨ b = j
    · rw [if_pos hj']
    · rw [if_neg hj']
      have haj : a ≠ j := fun e => hj' (Or.inl e)
      have hbj : b ≠ j := fun e => hj' (Or.inr e)
      have hd' : ¬ Live order a ∨ ¬ Live order b := by
        rcases hd with hd | hd
        · exact Or.inl fun hl => hd ((hlive a).2 ⟨haj, hl⟩)
        · exact Or.inr fun hl => hd ((hlive b).2 ⟨hbj, hl⟩)
      by_cases hai : a = i
      · rw [if_pos hai]
        have hbd : ¬ Live order b := by
          rcases hd' with hd' | hd'
          · exact absurd (hai ▸ hi) hd'
          · exact hd'
        unfold newVec
        rw [hS.dead i b hin hb (Or.inr hbd), hS.dead j b (hS.len ▸ live_lt order j hj) hb (Or.inr hbd)]
        ring
      · rw [if_neg hai]
        by_cases hbi : b = i
        · rw [if_pos hbi]
          have had : ¬ Live order a := by
            rcases hd' with hd' | hd'
            · exact hd'
            · exact absurd (hbi ▸ hi) hd'
          unfold newVec
          rw [hS.dead i a hin ha (Or.inr had), hS.dead j a (hS.len ▸ live_lt order j hj) ha (Or.inr had)]
          ring
        · rw [if_neg hbi]
          exact hS.dead a b ha hb hd'
  · intro a b ha hb hab
    obtain ⟨haj, ha'⟩ := (hlive a).1 ha
    obtain ⟨hbj, hb'⟩ := (hlive b).1 hb
    have han : a < n := hS.len ▸ live_lt order a ha'
    have hbn : b < n := hS.len ▸ live_lt order b hb'
    rw [hm a b han hbn, if_neg (by omega)]
    by_cases hai : a = i
    · rw [if_pos hai]
      have hbi : b ≠ i := fun e => hab (hai.trans e.symm)
      unfold newVec
      have := hS.small i b hi hb' (Ne.symm hbi)
      have := hS.small j b hj hb' (Ne.symm hbj)
      linarith
    · rw [if_neg hai]
      by_cases hbi : b = i
      · rw [if_pos hbi]
        unfold newVec
        have := hS.small i a hi ha' (Ne.symm hai)
        have := hS.small j a hj ha' (Ne.symm haj)
        linarith
      · rw [if_neg hbi]
        exact hS.small a b ha' hb' hab

/-- the (possibly diagonal-reset) matrix handed to `condense_*` still satisfies the sentinel invariant -/
theorem select_sinv (n : Nat) (big : Rat) (m : Mat) (order : List (Option Entry)) (hS : SInv n big m order) :
    SInv n big (select n big m).1 order := by
  unfold select
  by_cases h : (findSmallest m n).1 = (findSmallest m n).2
  · rw [if_pos h]
    refine ⟨hS.len, ?_, ?_⟩
    · intro a b ha hb hd
      rw [get_resetDiag _ _ _ _ _ ha hb]
      by_cases hab : a = b
      · rw [if_pos hab]
      · rw [if_neg hab]; exact hS.dead a b ha hb hd
    · intro a b ha hb hab
      rw [get_resetDiag _ _ _ _ _ (hS.len ▸ live_lt _ a ha) (hS.len ▸ live_lt _ b hb), if_neg hab]
      exact hS.small a b ha hb hab
  · rw [if_neg h]; exact hS

/-- merging a live pair removes exactly one live cluster -/
theorem stepWith_liveCount (n : Nat) (big : Rat) (m : Mat) (order : List (Option Entry)) (i j : Nat)
    (hlen : order.length = n) (hi : Live order i) (hj : Live order j) (hij : i ≠ j) :
    liveCount n (stepWith n big order m (i, j)).order + 1 = liveCount n order := by
  obtain ⟨ei, hei⟩ := hi
  obtain ⟨ej, hej⟩ := hj
  have hin : i < n := hlen ▸ live_lt order i ⟨ei, hei⟩
  have hjn : j < n := hlen ▸ live_lt order j ⟨ej, hej⟩
  obtain ⟨l1, l2, h, hord⟩ := stepWith_order n big m order i j ei ej hei hej hij
  unfold liveCount
  have hc : nsum n (fun a => if liveB (stepWith n big order m (i, j)).order a then 1 else 0)
      = nsum n (fun a => if a = j then 0 else if liveB order a then 1 else 0) := by
    apply nsum_congr
    intro a _
    unfold liveB
    rw [hord a]
    by_cases haj : a = j
    · rw [if_pos haj, if_pos haj]; rfl
    · rw [if_neg haj, if_neg haj]
      by_cases hai : a = i
      · rw [if_pos hai, hai, hei]; rfl
      · rw [if_neg hai]
  rw [hc]
  have := nsum_update n j 0 (fun a => if liveB order a then 1 else 0) hjn
  have hlj : liveB order j = true := (liveB_iff _ _).2 ⟨ej, hej⟩
  simp only [hlj, if_true] at this
  omega

/-! ### the tips of the live clusters -/

def U.tips (t : U) : List Nat := t.depths.map (·.1)

theorem tips_node (c1 c2 : U) (l1 l2 : Rat) : (U.node c1 l1 c2 l2).tips = c1.tips ++ c2.tips := by
  simp [U.tips, U.depths, List.map_append, List.map_map, Function.comp_def]

def tipsAt (order : List (Option Entry)) (a : Nat) : List Nat :=
  match order.getD a none with
  | none => []
  | some e => e.tree.tips

/-- every label `< n` is a tip of exactly one live cluster, exactly once; no other label occurs -/
def TInv (n : Nat) (order : List (Option Entry)) : Prop :=
  ∀ x, nsum n (fun a => (tipsAt order a).count x) = if x < n then 1 else 0

theorem stepWith_tinv (n : Nat) (big : Rat) (m : Mat) (order : List (Option Entry)) (i j : Nat)
    (hlen : order.length = n) (hi : Live order i) (hj : Live order j) (hij : i ≠ j) (hT : TInv n order) :
    TInv n (stepWith n big order m (i, j)).order := by
  obtain ⟨ei, hei⟩ := hi
  obtain ⟨ej, hej⟩ := hj
  have hin : i < n := hlen ▸ live_lt order i ⟨ei, hei⟩
  have hjn : j < n := hlen ▸ live_lt order j ⟨ej, hej⟩
  obtain ⟨l1, l2, h, hord⟩ := stepWith_order n big m order i j ei ej hei hej hij
  intro x
  rw [← hT x]
  obtain ⟨f, hf⟩ : ∃ f : Nat → Nat, ∀ a, f a = (tipsAt order a).count x := ⟨_, fun _ => rfl⟩
  have hc : nsum n (fun a => (tipsAt (stepWith n big order m (i, j)).order a).count x)
      = nsum n (fun a => if a = j then 0 else if a = i then f i + f j else f a) := by
    apply nsum_congr
    intro a _
    unfold tipsAt
    rw [hord a]
    by_cases haj : a = j
    · rw [if_pos haj, if_pos haj]; rfl
    · rw [if_neg haj, if_neg haj]
      by_cases hai : a = i
      · rw [if_pos hai, if_pos hai]
        show (U.node ei.tree l1 ej.tree l2).tips.count x = f i + f j
        rw [tips_node, List.count_append, hf i, hf j]
        unfold tipsAt
        rw [hei, hej]
      · rw [if_neg hai, if_neg hai, hf a]; rfl
  have hc2 : nsum n (fun a => (tipsAt order a).count x) = nsum n f :=
    nsum_congr _ _ _ (fun a _ => (hf a).symm)
  rw [hc, hc2]
  have h1 : nsum n (fun a => if a = j then 0 else if a = i then f i + f j else f a)
      + (if j = i then f i + f j else f j) = nsum n (fun a => if a = i then f i + f j else f a) + 0 :=
    nsum_update n j 0 (fun a => if a = i then f i + f j else f a) hjn
  have h2 := nsum_update n i (f i + f j) f hin
  rw [if_neg (Ne.symm hij)] at h1
  omega

/-! ### the loop -/

/-- what holds after `t` passes -/
structure LInv (n : Nat) (big : Rat) (t : Nat) (st : State) : Prop where
  sinv : SInv n big st.m st.order
  count : liveCount n st.order + t = n
  tinv : TInv n st.order

theorem iter_succ (n : Nat) (big : Rat) (t : Nat) (st : State) :
    iter n big (t + 1) st = step n big (iter n big t st) := by
  induction t generalizing st with
  | zero => rfl
  | succ t ih =>
    show iter n big (t + 1) (step n big st) = step n big (iter n big t (step n big st))
    exact ih (step n big st)

theorem init_live (n : Nat) (d : Mat) (big : Rat) (a : Nat) : Live (init n d big).order a ↔ a < n := by
  unfold Live
  rw [init_order]
  by_cases h : a < n
  · rw [if_pos h]; exact ⟨fun _ => h, fun _ => ⟨_, rfl⟩⟩
  · rw [if_neg h]; exact ⟨fun h' => (by obtain ⟨e, he⟩ := h'; cases he), fun h' => absurd h' h⟩

theorem init_linv (D : Nat → Nat → Rat) (n : Nat) (big : Rat)
    (hbig : ∀ a b, a < n → b < n → a ≠ b → D a b < big) : LInv n big 0 (init n (tab n D) big) := by
  refine ⟨⟨by simp [init], ?_, ?_⟩, ?_, ?_⟩
  · intro a b ha hb hd
    rcases hd with hd | hd
    · exact absurd ((init_live _ _ _ a).2 ha) hd
    · exact absurd ((init_live _ _ _ b).2 hb) hd
  · intro a b ha hb hab
    have han := (init_live _ _ _ a).1 ha
    have hbn := (init_live _ _ _ b).1 hb
    show get (tab n _) a b < big
    rw [get_tab _ _ _ _ han hbn, if_neg hab, get_tab _ _ _ _ han hbn]
    exact hbig a b han hbn hab
  · show liveCount n (init n (tab n D) big).order + 0 = n
    unfold liveCount
    rw [nsum_congr n _ (fun _ => 1) (fun a ha => by
      rw [(liveB_iff _ _).2 ((init_live _ _ _ a).2 ha)]; rfl), nsum_const_one]
    omega
  · intro x
    have hta : ∀ a, a < n → tipsAt (init n (tab n D) big).order a = [a] := by
      intro a ha
      unfold tipsAt
      rw [init_order, if_pos ha]
      rfl
    by_cases hx : x < n
    · rw [if_pos hx, nsum_single n x _ hx, hta x hx]
      · simp
      · intro a ha hax
        rw [hta a ha]
        exact List.count_eq_zero_of_not_mem (by simp; exact fun e => hax e.symm)
    · rw [if_neg hx, nsum_congr n _ (fun _ => 0) (fun a ha => by
        rw [hta a ha]; exact List.count_eq_zero_of_not_mem (by simp; omega)), nsum_zero]

/-- one pass: with at least two live clusters the selection is good and the loop invariant is kept -/
theorem step_linv (n : Nat) (big : Rat) (t : Nat) (st : State) (hL : LInv n big t st) (ht : t + 2 ≤ n) :
    GoodSel n big st ∧ LInv n big (t + 1) (step n big st) := by
  have h2 : 2 ≤ liveCount n st.order := by have := hL.count; omega
  have hg := select_good n big st hL.sinv h2
  refine ⟨hg, ?_⟩
  obtain ⟨g1, g2, g3, _⟩ := hg
  have hS1 := select_sinv n big st.m st.order hL.sinv
  refine ⟨?_, ?_, ?_⟩
  · exact stepWith_sinv n big _ st.order _ _ hS1 g1 g2 g3
  · have := stepWith_liveCount n big (select n big st.m).1 st.order _ _ hL.sinv.len g1 g2 g3
    have hc := hL.count
    show liveCount n (stepWith n big st.order (select n big st.m).1
      ((select n big st.m).2.1, (select n big st.m).2.2)).order + (t + 1) = n
    omega
  · exact stepWith_tinv n big _ st.order _ _ hL.sinv.len g1 g2 g3 hL.tinv

theorem iter_linv (D : Nat → Nat → Rat) (n : Nat) (big : Rat)
    (hbig : ∀ a b, a < n → b < n → a ≠ b → D a b < big) (t : Nat) (ht : t + 1 ≤ n) :
    LInv n big t (iter n big t (init n (tab n D) big)) := by
  induction t with
  | zero => exact init_linv D n big hbig
  | succ t ih =>
    rw [iter_succ]
    exact (step_linv n big t _ (ih (by omega)) (by omega)).2

/-- every pass of `UPGMA_cluster` selects a pair of distinct live clusters at minimal live distance -/
theorem iter_goodSel (D : Nat → Nat → Rat) (n : Nat) (big : Rat)
    (hbig : ∀ a b, a < n → b < n → a ≠ b → D a b < big) (t : Nat) (ht : t < n - 1) :
    GoodSel n big (iter n big t (init n (tab n D) big)) :=
  (step_linv n big t _ (iter_linv D n big hbig t (by omega)) (by omega)).1

/-- a live cluster of a state with exactly one live cluster carries every label exactly once -/
theorem tips_of_last (n : Nat) (order : List (Option Entry)) (a : Nat) (e : Entry) (hlen : order.length = n)
    (hc : liveCount n order = 1) (hT : TInv n order) (he : order.getD a none = some e) :
    e.tree.tips.Perm (List.range n) := by
  have han : a < n := hlen ▸ live_lt order a ⟨e, he⟩
  rw [List.perm_iff_count]
  intro x
  rw [List.count_range, ← hT x, nsum_single n a _ han]
  · unfold tipsAt; rw [he]
  · intro b hb hba
    have hdead : liveB order b = false := by
      by_contra hl
      have hl : liveB order b = true := by simpa using hl
      have := nsum_ge_two n a b (fun a => if liveB order a then 1 else 0) (Ne.symm hba) han hb
      simp only [hl, (liveB_iff _ _).2 ⟨e, he⟩, if_true] at this
      unfold liveCount at hc
      omega
    unfold tipsAt
    unfold liveB at hdead
    cases hb' : order.getD b none with
    | none => rfl
    | some eb => rw [hb'] at hdead; cases hdead

end CogentModel.UPGMA
