import CogentModel.Gen.C16Opt
import CogentModel.Model.OptimiserLf
import CogentModel.Model.OptGenClamp
/-! # C16 — the TRANSLATED optimiser stack equals the hand model

`Gen/C16Opt.lean` is rewritten on every run from the current source text of `maths/optimisers.py`,
`recalculation/calculation.py::Calculator.optimise` and `recalculation/scope.py::ParameterController.optimise`.
Here every generated definition is proved equal — for all arguments, all states, all objectives, all adversary
optimisers — to the hand model `Model/Optimiser.lean` / `Model/OptimiserLf.lean` about which the property theorems
are stated.  A semantic edit of one of the translated functions changes the generated definition and breaks one
of these proofs.  No Mathlib. -/
set_option linter.unusedSimpArgs false
set_option linter.unusedVariables false
namespace CogentModel.OptGenProofs
open CogentModel.Optimiser CogentModel.OptGen CogentModel.Gen

variable {X Y : Type}

/-- the hand model's configuration read off the translated code's environment -/
def toCfg (env : Env X Y) (bounds : Option (X × X)) (maxE : Option Nat) : Cfg X Y :=
  { f := env.f,
    inB := fun x => match bounds with
      | none => true
      | some (lo, hi) => env.vle lo x && env.vle x hi,
    gt := env.gt, fin := env.fin, negInf := env.negInf, maxEvals := maxE }

/-- the part of the translated state the hand model does not have -/
structure Aux (X Y : Type) where
  shown : List (PyF Y)
  warned : Nat
  updates : List (Option X)
  optimised : Bool

def embed (s : St X Y) (a : Aux X Y) : GSt X Y :=
  { evals := s.evals, best_fval := .val s.bestF, best_x := s.bestX, calls := s.calls,
    shown := a.shown, warned := a.warned, updates := a.updates, optimised := a.optimised }

def outRes : Out Y → Except Exc (PyF Y)
  | .maxReached n => .error (.maxEvals n)
  | .oob => .error .oob
  | .arith => .error .arith
  | .fatal => .error .fatal
  | .nan => .ok .nan
  | .val y => .ok (.val y)

theorem natGe_limitHit (m : Option Nat) (n : Nat) : natGe n (optNatOr m NatInf.inf) = limitHit m n := by
  cases m <;> simp [natGe, optNatOr, limitHit]

theorem wrapped_f_eq (env : Env X Y) (b : Option (X × X)) (maxE : Option Nat) (s : St X Y) (a : Aux X Y) (x : X) :
    C16Opt.limited_use.wrapped_f env (callObj env) maxE x (embed s a)
      = (embed (limitedCall (toCfg env b maxE) s x).1 a, outRes (limitedCall (toCfg env b maxE) s x).2) := by
  unfold C16Opt.limited_use.wrapped_f limitedCall
  simp only [PM.bind_ap, getSt_ap, PM.cont_ok, PM.ite_ap, natGe_limitHit]
  have h1 : (embed s a).evals = s.evals := rfl
  rw [h1]
  have h2 : (toCfg env b maxE).maxEvals = maxE := rfl
  rw [h2]
  cases hl : limitHit maxE s.evals
  · simp [callObj, afterCall, counted, toCfg, embed, record, pyGt, outRes]
    cases hf : env.f x <;> simp
    rename_i y
    by_cases hc : env.gt y s.bestF = true <;> simp [hc]
  · simp [embed, outRes]

/-- `g` behaves as the hand model's `boundedCall` (whatever the part of the state the hand model lacks) -/
def Impl (g : X → PM X Y (PyF Y)) (c : Cfg X Y) : Prop :=
  ∀ s a x, g x (embed s a) = (embed (boundedCall c s x).1 a, outRes (boundedCall c s x).2)

theorem impl_unbounded (env : Env X Y) (maxE : Option Nat) :
    Impl (C16Opt.limited_use.wrapped_f env (callObj env) maxE) (toCfg env none maxE) := by
  intro s a x
  rw [wrapped_f_eq env none maxE]
  simp [boundedCall, toCfg]

theorem impl_bounded (env : Env X Y) (maxE : Option Nat) (lo hi : X) :
    Impl (C16Opt.bounded_function._wrapper env (C16Opt.limited_use.wrapped_f env (callObj env) maxE) lo hi)
      (toCfg env (some (lo, hi)) maxE) := by
  intro s a x
  unfold C16Opt.bounded_function._wrapper boundedCall
  have hin : (toCfg env (some (lo, hi)) maxE).inB x = (env.vle lo x && env.vle x hi) := rfl
  rw [hin]
  cases hb : (env.vle lo x && env.vle x hi)
  · simp [hb, outRes]
  · simp [hb, wrapped_f_eq env (some (lo, hi)) maxE]

def stopExc : Stop → Exc
  | .maxEvals n => .maxEvals n
  | .fatal => .fatal

/-- number of "Non-finite f" warnings one objective call causes -/
def warns (env : Env X Y) : Out Y → Nat
  | .nan => 1
  | .val y => if env.fin y then 0 else if env.isneginf y then 0 else 1
  | _ => 0

def Aux.warn (a : Aux X Y) (n : Nat) : Aux X Y := { a with warned := a.warned + n }

theorem catching_eq (env : Env X Y) (b : Option (X × X)) (maxE : Option Nat) (g : X → PM X Y (PyF Y))
    (hneg : ∀ y, env.fin y = false → env.isneginf y = true → y = env.negInf)
    (hg : Impl g (toCfg env b maxE)) (s : St X Y) (a : Aux X Y) (x : X) :
    C16Opt.bounds_exception_catching_function._wrapper env g x (embed s a)
      = (embed (boundedCall (toCfg env b maxE) s x).1 (a.warn (warns env (boundedCall (toCfg env b maxE) s x).2)),
         match seen (toCfg env b maxE) (boundedCall (toCfg env b maxE) s x).2 with
         | .stop e => .error (stopExc e)
         | .ret y => .ok (.val y)) := by
  unfold C16Opt.bounds_exception_catching_function._wrapper C16Opt.bounds_exception_catching_function._wrapper.s0
  simp [hg s a x]
  cases ho : (boundedCall (toCfg env b maxE) s x).2 <;>
    simp [outRes, seen, warns, Aux.warn, Exc.isA, Exc.kind, stopExc, pyIsFinite, pyIsNegInf, embed, toCfg]
  rename_i y
  by_cases hf : env.fin y = true
  · simp [hf]
  · simp [hf]
    by_cases hn : env.isneginf y = true
    · simp [hn]; exact hneg y (by simpa using hf) hn
    · simp [hn, Exc.isA, Exc.kind]

def ImplC (env : Env X Y) (g : X → PM X Y (PyF Y)) (c : Cfg X Y) : Prop :=
  ∀ s a x, g x (embed s a)
    = (embed (boundedCall c s x).1 (a.warn (warns env (boundedCall c s x).2)),
       match seen c (boundedCall c s x).2 with
       | .stop e => .error (stopExc e)
       | .ret y => .ok (.val y))

/-- the recorded best point is one at which the objective returned a value -/
def BestOk (c : Cfg X Y) (s : St X Y) : Prop := ∀ xb, s.bestX = some xb → ∃ y, c.f xb = .val y

theorem bestOk_init (c : Cfg X Y) : BestOk c (init c) := by
  intro xb h; simp [init] at h

theorem bestOk_boundedCall {c : Cfg X Y} {s : St X Y} (h : BestOk c s) (x : X) : BestOk c (boundedCall c s x).1 := by
  unfold boundedCall limitedCall
  split
  · split
    · exact h
    · cases hf : c.f x <;> simp only [afterCall]
      all_goals try exact h
      rename_i y
      unfold record
      split
      · intro xb hx
        simp at hx
        exact ⟨y, hx ▸ hf⟩
      · exact h
  · exact h

theorem bestOk_runQueries {c : Cfg X Y} (qs : List X) : ∀ s, BestOk c s → BestOk c (runQueries c s qs).st := by
  induction qs with
  | nil => intro s h; exact h
  | cons q qs ih =>
    intro s h
    simp only [runQueries]
    split
    · exact bestOk_boundedCall h q
    · exact ih _ (bestOk_boundedCall h q)

theorem get_best_eq (env : Env X Y) (b : Option (X × X)) (maxE : Option Nat) (s : St X Y) (a : Aux X Y)
    (h : BestOk (toCfg env b maxE) s) :
    C16Opt.limited_use.get_best env (callObj env) maxE (embed s a)
      = match s.bestX with
        | some xb => (embed { s with calls := xb :: s.calls } a, .ok (.val s.bestF, some xb, s.evals))
        | none => (embed s a, .error .fatal) := by
  unfold C16Opt.limited_use.get_best
  cases hb : s.bestX with
  | none => simp [embed, hb]
  | some xb =>
    obtain ⟨y, hy⟩ := h xb hb
    have hy' : env.f xb = .val y := hy
    simp [embed, hb, callObj, hy']

theorem runQs_eq (env : Env X Y) (c : Cfg X Y) (g : X → PM X Y (PyF Y)) (hg : ImplC env g c) :
    ∀ (qs : List X) (s : St X Y) (a : Aux X Y) (x0 : X), ∃ w x',
      runQs g x0 qs (embed s a)
        = (embed (runQueries c s qs).st
             { a with shown := ((runQueries c s qs).shown.map PyF.val).reverse ++ a.shown, warned := w },
           match (runQueries c s qs).stop with
           | none => .ok x'
           | some e => .error (stopExc e)) := by
  intro qs
  induction qs with
  | nil => intro s a x0; exact ⟨a.warned, x0, by simp [runQs, runQueries]⟩
  | cons q qs ih =>
    intro s a x0
    simp only [runQs, runQueries, PM.bind_ap, hg s a q]
    cases hs : seen c (boundedCall c s q).2 with
    | stop e => exact ⟨a.warned + warns env (boundedCall c s q).2, x0, by simp [Aux.warn]⟩
    | ret y =>
      simp only [PM.cont_ok, modifySt_ap]
      obtain ⟨w, x', hh⟩ := ih (boundedCall c s q).1
        { (a.warn (warns env (boundedCall c s q).2)) with shown := PyF.val y :: a.shown } q
      refine ⟨w, x', ?_⟩
      simp only [embed, Aux.warn, PM.bind_ap, modifySt_ap, PM.cont_ok] at hh ⊢
      rw [hh]
      simp

theorem runQs_append (g : X → PM X Y (PyF Y)) : ∀ (qG qL : List X) (x0 : X),
    runQs g x0 (qG ++ qL) = (runQs g x0 qG >>= fun x => runQs g x qL) := by
  intro qG
  induction qG with
  | nil => intro qL x0; funext s; simp [runQs]
  | cons q qs ih =>
    intro qL x0
    funext s
    simp only [List.cons_append, runQs, PM.bind_ap, ih]
    rcases hq : g q s with ⟨s1, r⟩
    cases r with
    | error e => simp
    | ok y => simp

/-- `upper, lower = bounds` … `bounded_function(f, upper, lower)` as the code has it (a `None` side of the first
component becomes `+inf`, of the second `-inf`: the names are swapped in the source) -/
def boundsOf (env : Env X Y) : Option (Option X × Option X) → Option (X × X)
  | none => none
  | some (none, none) => none
  | some (u, l) => some (u.getD env.posInfX, l.getD env.negInfX)

def finalRes (env : Env X Y) (multi rec : Bool) : Final X Y → Except Exc (X × Option Nat)
  | .valueError => .error .valueError
  | .raised e => .error (stopExc e)
  | .done _ xb n none => .ok (if multi then xb else env.squeeze xb, if rec then some n else none)
  | .done _ _ _ (some e) => .error (stopExc e)
  | .noBest => .error .fatal

def auxOf (g : GSt X Y) : Aux X Y := { shown := g.shown, warned := g.warned, updates := g.updates, optimised := g.optimised }


theorem s5_eq (env : Env X Y) (x : X) (m : Bool) (g : GSt X Y) :
    C16Opt.maximise.s5 env x m g = (g, .ok (if m then x else env.atleast1d x)) := by
  unfold C16Opt.maximise.s5
  cases m <;> simp

theorem s11_eq (env : Env X Y) (x : X) (m : Bool) (g : GSt X Y) :
    C16Opt.maximise.s11 env x m g = (g, .ok (if m then x else env.squeeze x)) := by
  unfold C16Opt.maximise.s11
  cases m <;> simp

/-- the objective after the bounds section of `maximise` -/
def boundedF (env : Env X Y) (f : X → PM X Y (PyF Y)) (bounds : Option (Option X × Option X)) : X → PM X Y (PyF Y) :=
  match boundsOf env bounds with
  | none => f
  | some (lo, hi) => C16Opt.bounded_function._wrapper env f lo hi

theorem s6_eq (env : Env X Y) (f : X → PM X Y (PyF Y)) (bounds : Option (Option X × Option X)) (g : GSt X Y) :
    C16Opt.maximise.s6 env f bounds g = (g, .ok (boundedF env f bounds)) := by
  unfold C16Opt.maximise.s6 boundedF boundsOf
  rcases bounds with _ | ⟨_ | u, _ | l⟩ <;> simp

theorem impl_boundedF (env : Env X Y) (maxE : Option Nat) (bounds : Option (Option X × Option X)) :
    Impl (boundedF env (C16Opt.limited_use.wrapped_f env (callObj env) maxE) bounds)
      (toCfg env (boundsOf env bounds) maxE) := by
  unfold boundedF
  cases h : boundsOf env bounds with
  | none => exact impl_unbounded env maxE
  | some p => exact impl_bounded env maxE p.1 p.2

/-- the first evaluation: `ArithmeticError`/`ParameterOutOfBoundsError` become `ValueError` -/
def firstRes : Out Y → Except Exc (PyF Y)
  | .maxReached n => .error (.maxEvals n)
  | .oob => .error .valueError
  | .arith => .error .valueError
  | .fatal => .error .fatal
  | .nan => .ok .nan
  | .val y => .ok (.val y)

theorem s7_eq (env : Env X Y) (c : Cfg X Y) (f : X → PM X Y (PyF Y)) (hf : Impl f c) (fval : PyF Y) (x : X)
    (s : St X Y) (a : Aux X Y) :
    C16Opt.maximise.s7 env f fval x (embed s a)
      = (embed (boundedCall c s x).1 a, firstRes (boundedCall c s x).2) := by
  unfold C16Opt.maximise.s7
  simp [hf s a x]
  cases (boundedCall c s x).2 <;> simp [outRes, firstRes, Exc.isA, Exc.kind]

def runRes (env : Env X Y) : Final X Y → Except Exc (X × Nat)
  | .done _ xb n none => .ok (xb, n)
  | .done _ _ _ (some e) => .error (stopExc e)
  | .noBest => .error .fatal
  | .valueError => .error .valueError
  | .raised e => .error (stopExc e)

def stopRes : Option Stop → Except Exc Unit
  | none => .ok ()
  | some e => .error (stopExc e)

theorem phase_eq (env : Env X Y) (c : Cfg X Y) (f : X → PM X Y (PyF Y)) (hf : ImplC env f c) (qs : List X) (x : X)
    (s : St X Y) (a : Aux X Y) :
    ∃ w, (runQs f x qs >>= fun _ => (pure () : PM X Y Unit)) (embed s a)
      = (embed (runQueries c s qs).st
           { a with shown := ((runQueries c s qs).shown.map PyF.val).reverse ++ a.shown, warned := w },
         stopRes (runQueries c s qs).stop) := by
  obtain ⟨w, x', h⟩ := runQs_eq env c f hf qs s a x
  refine ⟨w, ?_⟩
  simp only [PM.bind_ap, h]
  cases (runQueries c s qs).stop <;> simp [stopRes]

theorem two_phases (f : X → PM X Y (PyF Y)) (x : X) (qG qL : List X) :
    (do let l ← runQs f x qG; let _ ← runQs f l qL; (pure () : PM X Y Unit))
      = (runQs f x (qG ++ qL) >>= fun _ => (pure () : PM X Y Unit)) := by
  funext s
  rw [runQs_append]
  simp only [PM.bind_ap]
  rcases runQs f x qG s with ⟨s1, r⟩
  cases r <;> simp

theorem finish_eq (env : Env X Y) (b : Option (X × X)) (maxE : Option Nat) (body : PM X Y Unit)
    (g : GSt X Y) (t : Trace X Y) (a' : Aux X Y)
    (hbody : body g = (embed t.st a', stopRes t.stop)) (hs : BestOk (toCfg env b maxE) t.st) :
    ((pyTryFinally body (do
        let r ← C16Opt.limited_use.get_best env (callObj env) maxE
        let x ← unwrapX r.snd.fst
        pure (x, r.snd.snd))) >>= fun p => pure (p.snd.fst, p.snd.snd)) g
      = (embed (getBest t.st t.shown t.stop).st a', runRes env (getBest t.st t.shown t.stop).final) := by
  simp only [PM.bind_ap, pyTryFinally_ap, hbody, get_best_eq env b maxE t.st a' hs]
  unfold getBest
  cases hb : t.st.bestX with
  | none => cases t.stop <;> simp [stopRes, runRes]
  | some xb => cases t.stop <;> simp [stopRes, runRes, embed]

theorem getBest_shown (s : St X Y) (sh : List Y) (e : Option Stop) : (getBest s sh e).shown = sh := by
  unfold getBest; split <;> rfl

theorem s10_eq (env : Env X Y) (b : Option (X × X)) (maxE : Option Nat) (f : X → PM X Y (PyF Y))
    (hf : ImplC env f (toCfg env b maxE)) (warn : Bool) (opt : OptKind) (evals : Nat) (local_ : Option Bool) (x : X)
    (s : St X Y) (a : Aux X Y) (hs : BestOk (toCfg env b maxE) s) :
    ∃ w, C16Opt.maximise.s10 env f warn opt evals ((!(truthyOB local_)) || local_.isNone)
          ((truthyOB local_) || local_.isNone) (C16Opt.limited_use.get_best env (callObj env) maxE) x (embed s a)
      = (embed (optimiseFrom (toCfg env b maxE) s (queriesFor local_ env.qsG env.qsL)).st
           { a with shown := ((optimiseFrom (toCfg env b maxE) s (queriesFor local_ env.qsG env.qsL)).shown.map PyF.val).reverse ++ a.shown,
                    warned := w },
         runRes env (optimiseFrom (toCfg env b maxE) s (queriesFor local_ env.qsG env.qsL)).final) := by
  unfold C16Opt.maximise.s10
  have key : ∀ (body : PM X Y Unit) (qs : List X) (a0 : Aux X Y),
      (∃ w, body (embed s a) = (embed (runQueries (toCfg env b maxE) s qs).st
           { a0 with shown := ((runQueries (toCfg env b maxE) s qs).shown.map PyF.val).reverse ++ a.shown, warned := w },
         stopRes (runQueries (toCfg env b maxE) s qs).stop)) →
      a0.updates = a.updates → a0.optimised = a.optimised →
      ∃ w, ((pyTryFinally body (do
        let r ← C16Opt.limited_use.get_best env (callObj env) maxE
        let x ← unwrapX r.snd.fst
        pure (x, r.snd.snd))) >>= fun p => pure (p.snd.fst, p.snd.snd)) (embed s a)
        = (embed (optimiseFrom (toCfg env b maxE) s qs).st
           { a with shown := ((optimiseFrom (toCfg env b maxE) s qs).shown.map PyF.val).reverse ++ a.shown, warned := w },
           runRes env (optimiseFrom (toCfg env b maxE) s qs).final) := by
    intro body qs a0 ⟨w, hb⟩ hu ho
    refine ⟨w, ?_⟩
    rw [finish_eq env b maxE body (embed s a) (runQueries (toCfg env b maxE) s qs) _ hb (bestOk_runQueries qs s hs)]
    simp [optimiseFrom, getBest_shown, hu, ho]
  rcases local_ with _ | _ | _ <;> cases warn
  all_goals simp only [truthyOB, Option.isNone, queriesFor, runOpt, Bool.not_true, Bool.not_false, Bool.or_true, Bool.or_false, Bool.true_or, Bool.false_or, ite_true, ite_false, if_true, if_false]
  · rw [two_phases]; exact key _ _ a (phase_eq env _ f hf _ x s a) rfl rfl
  · rw [two_phases]; exact key _ _ a (phase_eq env _ f hf _ x s a) rfl rfl
  all_goals simp only [Bool.false_eq_true, if_false, ite_false, List.append_nil, List.nil_append]
  · exact key _ _ a (phase_eq env _ f hf _ x s a) rfl rfl
  · exact key _ _ a (phase_eq env _ f hf _ x s a) rfl rfl
  · exact key _ _ a (phase_eq env _ f hf _ x s a) rfl rfl
  · refine key _ _ (a.warn 1) ?_ rfl rfl
    obtain ⟨w, h⟩ := phase_eq env _ f hf env.qsL x s (a.warn 1)
    refine ⟨w, ?_⟩
    simp only [PM.bind_ap, pyWarn_ap, PM.cont_ok] at h ⊢
    exact h

theorem maximise_eq (env : Env X Y)
    (hneg : ∀ y, env.fin y = false → env.isneginf y = true → y = env.negInf)
    (x0 : X) (bounds : Option (Option X × Option X)) (local_ : Option Bool) (maxE : Option Nat) (rec warn : Bool)
    (g : GSt X Y) (hcalls : g.calls = []) :
    ∃ w, C16Opt.maximise env (callObj env) x0 bounds local_ maxE rec warn g
      = (embed (Optimiser.maximise (toCfg env (boundsOf env bounds) maxE)
                  (if env.multi x0 then x0 else env.atleast1d x0) (queriesFor local_ env.qsG env.qsL)).st
           { shown := ((Optimiser.maximise (toCfg env (boundsOf env bounds) maxE)
                  (if env.multi x0 then x0 else env.atleast1d x0) (queriesFor local_ env.qsG env.qsL)).shown.map PyF.val).reverse ++ g.shown,
             warned := w, updates := g.updates, optimised := g.optimised },
         finalRes env (env.multi x0) rec (Optimiser.maximise (toCfg env (boundsOf env bounds) maxE)
                  (if env.multi x0 then x0 else env.atleast1d x0) (queriesFor local_ env.qsG env.qsL)).final) := by
  unfold C16Opt.maximise C16Opt.limited_use.init
  simp only [PM.bind_ap, modifySt_ap, PM.cont_ok]
  generalize hc : toCfg env (boundsOf env bounds) maxE = c
  generalize hx1 : (if env.multi x0 = true then x0 else env.atleast1d x0) = x1
  have hst : ({ g with evals := 0, best_fval := PyF.val env.negInf, best_x := none } : GSt X Y)
      = embed (init c) (auxOf g) := by
    subst hc; simp [embed, init, auxOf, hcalls, toCfg]
  have hF : Impl (boundedF env (C16Opt.limited_use.wrapped_f env (callObj env) maxE) bounds) c := by
    subst hc; exact impl_boundedF env maxE bounds
  have hC : ImplC env (C16Opt.bounds_exception_catching_function._wrapper env
      (boundedF env (C16Opt.limited_use.wrapped_f env (callObj env) maxE) bounds)) c := by
    subst hc
    intro s a x
    exact catching_eq env (boundsOf env bounds) maxE _ hneg (impl_boundedF env maxE bounds) s a x
  have hB : BestOk c (boundedCall c (init c) x1).1 := bestOk_boundedCall (bestOk_init c) x1
  have hfin : c.fin = env.fin := by subst hc; rfl
  rw [hst, s5_eq, hx1]
  simp only [PM.cont_ok, PM.bind_ap, s6_eq, s7_eq env c _ hF]
  unfold Optimiser.maximise
  cases ho : (boundedCall c (init c) x1).2 with
  | maxReached n => exact ⟨g.warned, by simp [firstRes, afterFirst, finalRes, stopExc, auxOf]⟩
  | oob => exact ⟨g.warned, by simp [firstRes, afterFirst, finalRes, auxOf]⟩
  | arith => exact ⟨g.warned, by simp [firstRes, afterFirst, finalRes, auxOf]⟩
  | fatal => exact ⟨g.warned, by simp [firstRes, afterFirst, finalRes, stopExc, auxOf]⟩
  | nan => exact ⟨g.warned, by simp [firstRes, afterFirst, finalRes, pyIsFinite, auxOf]⟩
  | val y =>
    simp only [firstRes, PM.cont_ok, afterFirst, hfin]
    by_cases hfy : env.fin y = true
    · obtain ⟨w, h10⟩ := s10_eq env (boundsOf env bounds) maxE _ (hc ▸ hC) warn OptKind.local_ 0 local_ x1
        (boundedCall c (init c) x1).1 (auxOf g) (hc ▸ hB)
      refine ⟨w, ?_⟩
      subst hc
      have hpf : pyIsFinite env (PyF.val y) = true := hfy
      simp only [hfy, hpf, Bool.not_true, Bool.false_eq_true, if_false, ite_false, PM.bind_ap, h10, if_true, ite_true]
      generalize optimiseFrom (toCfg env (boundsOf env bounds) maxE)
        (boundedCall (toCfg env (boundsOf env bounds) maxE) (init (toCfg env (boundsOf env bounds) maxE)) x1).1
        (queriesFor local_ env.qsG env.qsL) = R
      rcases hR : R.final with _ | e | ⟨fb, xb, n, _ | e⟩ | _ <;> cases rec <;>
        simp [runRes, finalRes, auxOf, s11_eq]
    · have hfy' : env.fin y = false := by simpa using hfy
      have hpf : pyIsFinite env (PyF.val y) = false := hfy'
      exact ⟨g.warned, by simp [hfy', hpf, finalRes, auxOf]⟩

/- `clampX` (the start vector `Calculator.optimise` hands to `maximise`) is defined in Model/OptGenClamp.lean, so that the
   driver can evaluate it without depending on the generated file -/

/-- … as `maximise` then sees it (`atleast_1d` of a 0-d array) -/
def startOf (env : Env X Y) : X := if env.multi (clampX env) then clampX env else env.atleast1d (clampX env)

def excOf : MaxExc → Exc
  | .maxEvals n => .maxEvals n
  | .fatal => .fatal
  | .valueError => .valueError

theorem finalRes_cases (env : Env X Y) (m rec : Bool) (F : Final X Y) :
    (∃ v, finalRes env m rec F = .ok v ∧ F.exc = none) ∨ (∃ e, finalRes env m rec F = .error (excOf e) ∧ F.exc = some e) := by
  rcases F with _ | e | ⟨fb, xb, n, _ | e⟩ | _
  · exact .inr ⟨.valueError, rfl, rfl⟩
  · cases e
    · exact .inr ⟨.maxEvals _, rfl, rfl⟩
    · exact .inr ⟨.fatal, rfl, rfl⟩
  · exact .inl ⟨_, rfl, rfl⟩
  · cases e
    · exact .inr ⟨.maxEvals _, rfl, rfl⟩
    · exact .inr ⟨.fatal, rfl, rfl⟩
  · exact .inr ⟨.fatal, rfl, rfl⟩

def calcRes : Option MaxExc → Except Exc Unit
  | none => .ok ()
  | some e => .error (excOf e)

theorem cs3_eq (env : Env X Y) (x low : X) (g : GSt X Y) :
    C16Opt.Calculator.optimise.s3 env x low g
      = (g, .ok (if env.allclose (env.sel x (env.maskGt low x)) (env.sel low (env.maskGt low x))
                 then env.put x (env.maskGt low x) (env.sel low (env.maskGt low x)) else x)) := by
  unfold C16Opt.Calculator.optimise.s3
  by_cases h : env.allclose (env.sel x (env.maskGt low x)) (env.sel low (env.maskGt low x)) = true <;> simp [h]

theorem cs4_eq (env : Env X Y) (x high : X) (g : GSt X Y) :
    C16Opt.Calculator.optimise.s4 env x high g
      = (g, .ok (if env.allclose (env.sel x (env.maskLt high x)) (env.sel high (env.maskLt high x))
                 then env.put x (env.maskLt high x) (env.sel high (env.maskLt high x)) else x)) := by
  unfold C16Opt.Calculator.optimise.s4
  by_cases h : env.allclose (env.sel x (env.maskLt high x)) (env.sel high (env.maskLt high x)) = true <;> simp [h]

theorem calc_optimise_eq (env : Env X Y)
    (hneg : ∀ y, env.fin y = false → env.isneginf y = true → y = env.negInf)
    (local_ : Option Bool) (maxE : Option Nat) (g : GSt X Y) (hcalls : g.calls = []) :
    ∃ w, C16Opt.Calculator.optimise env local_ maxE g
      = (embed (Optimiser.maximise (toCfg env (some (env.boundsLow, env.boundsHigh)) maxE) (startOf env)
                  (queriesFor local_ env.qsG env.qsL)).st
           { shown := ((Optimiser.maximise (toCfg env (some (env.boundsLow, env.boundsHigh)) maxE) (startOf env)
                  (queriesFor local_ env.qsG env.qsL)).shown.map PyF.val).reverse ++ g.shown,
             warned := w, updates := g.updates,
             optimised := (Optimiser.maximise (toCfg env (some (env.boundsLow, env.boundsHigh)) maxE) (startOf env)
                  (queriesFor local_ env.qsG env.qsL)).final.exc.isNone || g.optimised },
         calcRes (Optimiser.maximise (toCfg env (some (env.boundsLow, env.boundsHigh)) maxE) (startOf env)
                  (queriesFor local_ env.qsG env.qsL)).final.exc) := by
  unfold C16Opt.Calculator.optimise
  obtain ⟨w, h⟩ := maximise_eq env hneg (clampX env) (some (some env.boundsLow, some env.boundsHigh)) local_ maxE
    false false g hcalls
  refine ⟨w, ?_⟩
  have hb : boundsOf env (some (some env.boundsLow, some env.boundsHigh)) = some (env.boundsLow, env.boundsHigh) := rfl
  rw [hb] at h
  have hx : (if env.multi (clampX env) = true then clampX env else env.atleast1d (clampX env)) = startOf env := rfl
  rw [hx] at h
  simp only [PM.bind_ap, cs3_eq, cs4_eq, PM.cont_ok]
  change PM.cont _ (C16Opt.maximise env (callObj env) (clampX env) (some (some env.boundsLow, some env.boundsHigh)) local_ maxE false false g) = _
  rw [h]
  rcases finalRes_cases env (env.multi (clampX env)) false (Optimiser.maximise (toCfg env (some (env.boundsLow, env.boundsHigh)) maxE) (startOf env)
                  (queriesFor local_ env.qsG env.qsL)).final with ⟨v, h1, h2⟩ | ⟨e, h1, h2⟩
  · simp [h1, h2, calcRes, embed]
  · simp [h1, h2, calcRes, embed]

def lfRes (rc : Option Bool) : LfEnd → Except Exc Bool
  | .returned => .ok (rc.getD false)
  | .warned => .ok (rc.getD false)
  | .forcedExit => .error .arith
  | .valueError => .error .valueError
  | .fatal => .error .fatal

theorem lf_optimise_eq (env : Env X Y)
    (hneg : ∀ y, env.fin y = false → env.isneginf y = true → y = env.negInf)
    (local_ : Option Bool) (limitAction : String) (maxE : Option Nat) (rc : Option Bool)
    (g : GSt X Y) (hcalls : g.calls = []) :
    ∃ w, C16Opt.ParameterController.optimise env local_ limitAction maxE rc g
      = (embed (lfOptimise (toCfg env (some (env.boundsLow, env.boundsHigh)) maxE) limitAction (startOf env)
                  (queriesFor local_ env.qsG env.qsL)).run.st
           { shown := ((lfOptimise (toCfg env (some (env.boundsLow, env.boundsHigh)) maxE) limitAction (startOf env)
                  (queriesFor local_ env.qsG env.qsL)).run.shown.map PyF.val).reverse ++ g.shown,
             warned := w + (if (lfOptimise (toCfg env (some (env.boundsLow, env.boundsHigh)) maxE) limitAction (startOf env)
                  (queriesFor local_ env.qsG env.qsL)).outcome = .warned then 1 else 0),
             updates := (lfOptimise (toCfg env (some (env.boundsLow, env.boundsHigh)) maxE) limitAction (startOf env)
                  (queriesFor local_ env.qsG env.qsL)).applied :: g.updates,
             optimised := (lfOptimise (toCfg env (some (env.boundsLow, env.boundsHigh)) maxE) limitAction (startOf env)
                  (queriesFor local_ env.qsG env.qsL)).optimised || g.optimised },
         lfRes rc (lfOptimise (toCfg env (some (env.boundsLow, env.boundsHigh)) maxE) limitAction (startOf env)
                  (queriesFor local_ env.qsG env.qsL)).outcome) := by
  unfold C16Opt.ParameterController.optimise lfOptimise
  obtain ⟨w, h⟩ := calc_optimise_eq env hneg local_ maxE g hcalls
  refine ⟨w, ?_⟩
  simp only [PM.bind_ap, pyTryFinally_ap, PM.tryCatch_ap, h, PM.pure_ap, PM.cont_ok]
  generalize Optimiser.maximise (toCfg env (some (env.boundsLow, env.boundsHigh)) maxE) (startOf env)
                  (queriesFor local_ env.qsG env.qsL) = R
  rcases hR : R.final.exc with _ | ⟨n⟩ | _ | _
  · cases rc <;> simp [calcRes, lfEnd, lfRes, embed]
    all_goals rename_i b; cases b <;> simp
  · by_cases hi : limitAction = "ignore"
    · cases rc <;> simp [calcRes, lfEnd, lfRes, embed, excOf, Exc.isA, Exc.kind, hi]
      all_goals rename_i b; cases b <;> simp
    · by_cases hw : limitAction = "warn"
      · cases rc <;> simp [calcRes, lfEnd, lfRes, embed, excOf, Exc.isA, Exc.kind, hw]
        all_goals rename_i b; cases b <;> simp
      · simp [calcRes, lfEnd, lfRes, embed, excOf, Exc.isA, Exc.kind, hi, hw]
  · simp [calcRes, lfEnd, lfRes, embed, excOf, Exc.isA, Exc.kind]
  · simp [calcRes, lfEnd, lfRes, embed, excOf, Exc.isA, Exc.kind]
end CogentModel.OptGenProofs
