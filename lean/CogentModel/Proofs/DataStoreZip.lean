/-
  C13 — helper lemmas for Props/C13Zip.lean: pathlib-style name functions on `<dir>/<plain name>` entries, filter/map over the
  parts of an archive listing, and the well-formedness predicate `ZipOk`.
-/
import CogentModel.Model.DataStoreZip
namespace CogentModel.C13
open CogentModel CogentModel.KV CogentModel.DataStore CogentModel.DataStoreZip

/-- a file name: non-empty, no '/' -/
abbrev plainName (n : Str) : Prop := n ≠ [] ∧ ∀ c ∈ n, c ≠ '/'

theorem takeWhile_app {p : Char → Bool} (l r : Str) (c : Char) (hl : ∀ x ∈ l, p x = true) (hc : p c = false) :
    (l ++ c :: r).takeWhile p = l := by
  induction l with
  | nil => simp [hc]
  | cons a t ih =>
    have ha := hl a (by simp)
    simp [ha]
    exact ih (fun x hx => hl x (by simp [hx]))

theorem dropWhile_app {p : Char → Bool} (l r : Str) (c : Char) (hl : ∀ x ∈ l, p x = true) (hc : p c = false) :
    (l ++ c :: r).dropWhile p = c :: r := by
  induction l with
  | nil => simp [hc]
  | cons a t ih =>
    have ha := hl a (by simp)
    simp [ha]
    exact ih (fun x hx => hl x (by simp [hx]))

theorem pathName_join (x n : Str) (hn : plainName n) : pathName (x ++ '/' :: n) = n := by
  unfold pathName
  have : (x ++ '/' :: n).reverse = n.reverse ++ '/' :: x.reverse := by simp
  rw [this, takeWhile_app]
  · simp
  · intro c hc; simp at hc; simpa using hn.2 c hc
  · simp

theorem stripSlash_join (x n : Str) (hn : plainName n) : stripSlash (x ++ '/' :: n) = x ++ '/' :: n := by
  unfold stripSlash
  obtain ⟨hne, hs⟩ := hn
  have hl : (x ++ '/' :: n).getLast? = n.getLast? := by
    cases n with
    | nil => exact absurd rfl hne
    | cons a t =>
      rw [show x ++ '/' :: a :: t = (x ++ ['/']) ++ (a :: t) by simp, List.getLast?_append]
      cases h : (a :: t).getLast? with
      | none => simp at h
      | some v => simp
  rw [hl]
  have : n.getLast? ≠ some '/' := by
    intro h
    exact hs '/' (List.mem_of_getLast? h) rfl
  simp [this]

theorem parentName_join (x n : Str) (hn : plainName n) : parentName (x ++ '/' :: n) = pathName x := by
  unfold parentName
  rw [stripSlash_join x n hn]
  have : (x ++ '/' :: n).reverse = n.reverse ++ '/' :: x.reverse := by simp
  rw [this, dropWhile_app]
  · simp
  · intro c hc; simp at hc; simpa using hn.2 c hc
  · simp

theorem pathName_plain (n : Str) (hn : ∀ c ∈ n, c ≠ '/') : pathName n = n := by
  unfold pathName
  have h : ∀ l : Str, (∀ c ∈ l, c ≠ '/') → l.takeWhile (· != '/') = l := by
    intro l hl
    induction l with
    | nil => rfl
    | cons a t ih =>
      have ha : (a != '/') = true := by simpa using hl a (by simp)
      simp [ha]
      exact ih (fun c hc => hl c (by simp [hc]))
  rw [h n.reverse (by intro c hc; simp at hc; exact hn c hc)]
  simp

theorem filter_map_keep {α : Type} (l : List Str) (f : Str → Str) (p : Str → Bool) (q : Str → Bool) (g : Str → α) (g' : Str → α)
    (h : ∀ n ∈ l, p (f n) = q n ∧ g (f n) = g' n) : ((l.map f).filter p).map g = (l.filter q).map g' := by
  induction l with
  | nil => rfl
  | cons a t ih =>
    have ha := h a (by simp)
    have it := ih (fun n hn => h n (by simp [hn]))
    simp only [List.map_cons, List.filter_cons, ha.1]
    by_cases hq : q a = true
    · simp only [hq, if_true, List.map_cons, ha.2, it]
    · have hq' : q a = false := by simpa using hq
      simp [hq', it]

theorem filter_map_none (l : List Str) (f : Str → Str) (p : Str → Bool)
    (h : ∀ n ∈ l, p (f n) = false) : (l.map f).filter p = [] := by
  induction l with
  | nil => rfl
  | cons a t ih =>
    simp only [List.map_cons, List.filter_cons, h a (by simp)]
    exact ih (fun n hn => h n (by simp [hn]))

variable {D : Type}

/-- the directory is one a store produces: plain file names (no '/', non-empty), no dot-files among the records, and the
    zip's top directory is not named like one of the store's sub-directories -/
structure ZipOk (top : Str) (s : Dir D) : Prop where
  top_plain : plainName top
  top_nc : top ≠ sNotCompleted
  top_logs : top ≠ sLogs
  top_md5 : top ≠ sMd5
  root : ∀ n ∈ keys s.root, plainName n ∧ startsWith n ['.'] = false
  nc : ∀ n ∈ keys s.nc, plainName n ∧ startsWith n ['.'] = false
  logs : ∀ n ∈ keys s.logs, plainName n ∧ startsWith n ['.'] = false
  md5 : ∀ n ∈ keys s.md5, plainName n

theorem plain_nc : plainName sNotCompleted := by
  refine ⟨by decide, ?_⟩; intro c hc; revert c; decide
theorem plain_logs : plainName sLogs := by
  refine ⟨by decide, ?_⟩; intro c hc; revert c; decide
theorem plain_md5 : plainName sMd5 := by
  refine ⟨by decide, ?_⟩; intro c hc; revert c; decide

theorem glob_star (rest x n : Str) (hn : plainName n) :
    globMatch ('*' :: rest) (x ++ '/' :: n) = endsWith n rest := by
  simp only [globMatch, stripSlash_join x n hn, pathName_join x n hn]
  have : n.isEmpty = false := by cases n with | nil => exact absurd rfl hn.1 | cons _ _ => rfl
  simp [this]

theorem parent_sub (top sub n : Str) (hs : plainName sub) (hn : plainName n) :
    parentName (top ++ '/' :: sub ++ '/' :: n) = sub := by
  rw [parentName_join _ n hn, pathName_join top sub hs]

theorem parent_top (top n : Str) (ht : plainName top) (hn : plainName n) : parentName (top ++ '/' :: n) = top := by
  rw [parentName_join _ n hn, pathName_plain top ht.2]

end CogentModel.C13
