/-
  C18 / gap merging, part D: what `_combined_refseq_gaps` returns: for every reference position `p` whose union gap is
  longer than the pairwise one, one entry at the alignment column of reference residue `p` with the missing length.
-/
import CogentModel.Proofs.GapOffsetNI
namespace CogentModel.GapMerge

/-- alignment column (in the pairwise alignment) of reference residue `p`: all gap characters up to and including
the gap in front of `p`, plus the residues before it -/
def colOf (rg : Gaps) (p : Int) : Int := p + sumLt rg p + gl rg p

def dsetAll (res kvs : Gaps) : Gaps := kvs.foldl (fun r e => dset r e.1 e.2) res

theorem dsetAll_fresh (kvs : Gaps) : ∀ res : Gaps, (keys kvs).Nodup → (∀ k ∈ keys kvs, k ∉ keys res) →
    dsetAll res kvs = res ++ kvs := by
  induction kvs with
  | nil => intro res _ _; simp [dsetAll]
  | cons e r ih =>
    intro res hnd hfr
    obtain ⟨k, v⟩ := e
    simp only [keys_cons, List.nodup_cons] at hnd
    have hk : k ∉ keys res := hfr k (by simp)
    simp only [dsetAll, List.foldl_cons, dset_fresh res k v hk]
    have := ih (res ++ [(k, v)]) hnd.2 (fun k' hk' => by
      rw [keys_append]
      simp only [keys_cons, keys_nil, List.mem_append, List.mem_singleton, not_or]
      exact ⟨hfr k' (by simp [hk']), fun e => hnd.1 (e ▸ hk')⟩)
    simp only [dsetAll] at this
    rw [this]; simp

theorem subsetToAlign_eq (orig : Gaps) (s2a : GapOffset) (l : Gaps) : ∀ res,
    subsetToAlign orig s2a l res =
      dsetAll res (l.map fun e => (s2a.get e.1 + e.1 + (dget orig e.1).getD 0, e.2)) := by
  induction l with
  | nil => intro res; rfl
  | cons e r ih => intro res; obtain ⟨p, dl⟩ := e; simp only [subsetToAlign, ih, dsetAll, List.map_cons, List.foldl_cons]

theorem updateDiff_eq (s2a : GapOffset) (l : Gaps) : ∀ res,
    updateDiff s2a l res = dsetAll res (l.map fun e => (e.1 + s2a.get e.1, e.2)) := by
  induction l with
  | nil => intro res; rfl
  | cons e r ih => intro res; obtain ⟨p, v⟩ := e; simp only [updateDiff, ih, dsetAll, List.map_cons, List.foldl_cons]

/-! ### `_gap_difference` -/

theorem gapDifference_missing (rg u : Gaps) (p v : Int) :
    (p, v) ∈ (gapDifference rg u).1 ↔ (p, v) ∈ u ∧ dget rg p = none := by
  induction u with
  | nil => simp [gapDifference]
  | cons e r ih =>
    obtain ⟨q, l⟩ := e
    simp only [gapDifference]
    cases hd : dget rg q with
    | none =>
      simp only [List.mem_cons, ih, Prod.mk.injEq]
      constructor
      · rintro (⟨rfl, rfl⟩ | ⟨h1, h2⟩)
        · exact ⟨Or.inl ⟨rfl, rfl⟩, hd⟩
        · exact ⟨Or.inr h1, h2⟩
      · rintro ⟨(⟨rfl, rfl⟩ | h1), h2⟩
        · exact Or.inl ⟨rfl, rfl⟩
        · exact Or.inr ⟨h1, h2⟩
    | some l' =>
      simp only
      split
      · simp only [ih, List.mem_cons, Prod.mk.injEq]
        constructor
        · rintro ⟨h1, h2⟩; exact ⟨Or.inr h1, h2⟩
        · rintro ⟨(⟨rfl, rfl⟩ | h1), h2⟩
          · rw [hd] at h2; simp at h2
          · exact ⟨h1, h2⟩
      · simp only [ih, List.mem_cons, Prod.mk.injEq]
        constructor
        · rintro ⟨h1, h2⟩; exact ⟨Or.inr h1, h2⟩
        · rintro ⟨(⟨rfl, rfl⟩ | h1), h2⟩
          · rw [hd] at h2; simp at h2
          · exact ⟨h1, h2⟩

theorem gapDifference_overlap (rg u : Gaps) (p v : Int) :
    (p, v) ∈ (gapDifference rg u).2 ↔ ∃ l l', (p, l) ∈ u ∧ dget rg p = some l' ∧ l' ≠ l ∧ v = l - l' := by
  induction u with
  | nil => simp [gapDifference]
  | cons e r ih =>
    obtain ⟨q, l⟩ := e
    simp only [gapDifference]
    cases hd : dget rg q with
    | none =>
      simp only [ih, List.mem_cons, Prod.mk.injEq]
      constructor
      · rintro ⟨l1, l2, h1, h2, h3, h4⟩; exact ⟨l1, l2, Or.inr h1, h2, h3, h4⟩
      · rintro ⟨l1, l2, (⟨rfl, rfl⟩ | h1), h2, h3, h4⟩
        · rw [hd] at h2; simp at h2
        · exact ⟨l1, l2, h1, h2, h3, h4⟩
    | some l' =>
      simp only
      split
      · rename_i hne
        simp only [List.mem_cons, ih, Prod.mk.injEq]
        constructor
        · rintro (⟨rfl, rfl⟩ | ⟨l1, l2, h1, h2, h3, h4⟩)
          · exact ⟨l, l', Or.inl ⟨rfl, rfl⟩, hd, hne, rfl⟩
          · exact ⟨l1, l2, Or.inr h1, h2, h3, h4⟩
        · rintro ⟨l1, l2, (⟨rfl, rfl⟩ | h1), h2, h3, h4⟩
          · rw [hd] at h2; cases h2; exact Or.inl ⟨rfl, h4⟩
          · exact Or.inr ⟨l1, l2, h1, h2, h3, h4⟩
      · rename_i hne
        have hne' : l' = l := Classical.not_not.mp hne
        simp only [ih, List.mem_cons, Prod.mk.injEq]
        constructor
        · rintro ⟨l1, l2, h1, h2, h3, h4⟩; exact ⟨l1, l2, Or.inr h1, h2, h3, h4⟩
        · rintro ⟨l1, l2, (⟨rfl, rfl⟩ | h1), h2, h3, h4⟩
          · rw [hd] at h2; cases h2; exact absurd hne' h3
          · exact ⟨l1, l2, h1, h2, h3, h4⟩

theorem gapDifference_keys_sub (rg u : Gaps) :
    (∀ k ∈ keys (gapDifference rg u).1, k ∈ keys u) ∧ (∀ k ∈ keys (gapDifference rg u).2, k ∈ keys u) := by
  constructor
  · intro k hk
    obtain ⟨e, he, rfl⟩ := List.mem_map.mp hk
    exact List.mem_map.mpr ⟨e, ((gapDifference_missing rg u e.1 e.2).mp he).1, rfl⟩
  · intro k hk
    obtain ⟨e, he, rfl⟩ := List.mem_map.mp hk
    obtain ⟨l, l', h1, _⟩ := (gapDifference_overlap rg u e.1 e.2).mp he
    exact List.mem_map.mpr ⟨(e.1, l), h1, rfl⟩

/-- keys of overlapping ++ missing are distinct -/
theorem gapDifference_nodup (rg u : Gaps) (hnd : (keys u).Nodup) :
    (keys ((gapDifference rg u).2 ++ (gapDifference rg u).1)).Nodup := by
  induction u with
  | nil => simp [gapDifference]
  | cons e r ih =>
    obtain ⟨q, l⟩ := e
    simp only [keys_cons, List.nodup_cons] at hnd
    have ih' := ih hnd.2
    have hsub := gapDifference_keys_sub rg r
    rw [keys_append] at ih' ⊢
    have hq1 : q ∉ keys (gapDifference rg r).1 := fun h => hnd.1 (hsub.1 q h)
    have hq2 : q ∉ keys (gapDifference rg r).2 := fun h => hnd.1 (hsub.2 q h)
    simp only [gapDifference]
    cases hd : dget rg q with
    | none =>
      simp only [keys_cons]
      rw [List.nodup_append] at ih' ⊢
      refine ⟨ih'.1, List.nodup_cons.mpr ⟨hq1, ih'.2.1⟩, ?_⟩
      intro a ha b hb
      rcases List.mem_cons.mp hb with rfl | hb'
      · exact fun e => hq2 (e ▸ ha)
      · exact ih'.2.2 a ha b hb'
    | some l' =>
      simp only
      split
      · simp only [keys_cons]
        rw [List.nodup_append] at ih' ⊢
        refine ⟨List.nodup_cons.mpr ⟨hq2, ih'.1⟩, ih'.2.1, ?_⟩
        intro a ha b hb
        rcases List.mem_cons.mp ha with rfl | ha'
        · exact fun e => hq1 (e ▸ hb)
        · exact ih'.2.2 a ha' b hb
      · exact ih'

end CogentModel.GapMerge

namespace CogentModel.GapMerge

theorem sumLt_mono (g : Gaps) (hnn : ∀ e ∈ g, 0 ≤ e.2) (x y : Int) (hxy : x ≤ y) : sumLt g x ≤ sumLt g y := by
  induction g with
  | nil => simp [sumLt, sumIf]
  | cons e r ih =>
    obtain ⟨k, v⟩ := e
    have hv : 0 ≤ v := hnn (k, v) List.mem_cons_self
    have ih' := ih (fun e he => hnn e (List.mem_cons_of_mem _ he))
    simp only [sumLt, sumIf] at ih' ⊢
    by_cases h1 : k < x
    · have h2 : k < y := by omega
      simp only [h1, h2, decide_true, if_true]; omega
    · by_cases h2 : k < y
      · simp only [h1, h2, decide_true, decide_false, if_true]; simp; omega
      · simp only [h1, h2, decide_false]; simp; omega

theorem colOf_strictMono (rg : Gaps) (hnd : (keys rg).Nodup) (hnn : ∀ e ∈ rg, 0 ≤ e.2) (p p' : Int) (h : p < p') :
    colOf rg p < colOf rg p' := by
  have h1 := sumLt_succ rg hnd p
  have h2 := sumLt_mono rg hnn (p + 1) p' (by omega)
  have h3 := gl_nonneg rg hnn p'
  unfold colOf; omega

theorem nodup_map_of_inj {α β : Type} (f : α → β) (l : List α) (hnd : l.Nodup) (hinj : ∀ a b, a ≠ b → f a ≠ f b) :
    (l.map f).Nodup := List.Pairwise.map f (fun a b h => hinj a b h) hnd

/-- the dict `_combined_refseq_gaps` returns, as a list -/
theorem combined_eq (rg u : Gaps) (hrg : (keys rg).Nodup) (hnn : ∀ e ∈ rg, 0 ≤ e.2) (hu : (keys u).Nodup) :
    combinedRefseqGaps rg u =
      ((gapDifference rg u).2 ++ (gapDifference rg u).1).map fun e => (colOf rg e.1, e.2) := by
  have hinj : ∀ a b : Int, a ≠ b → colOf rg a ≠ colOf rg b := by
    intro a b hab
    rcases Int.lt_or_gt_of_ne hab with h | h
    · have := colOf_strictMono rg hrg hnn a b h; omega
    · have := colOf_strictMono rg hrg hnn b a h; omega
  have hndk := gapDifference_nodup rg u hu
  simp only [combinedRefseqGaps, subsetToAlign_eq, updateDiff_eq, s2a_get rg hrg]
  -- uniform key function on both parts
  have e2 : ((gapDifference rg u).2.map fun e => (sumLt rg e.1 + e.1 + (dget rg e.1).getD 0, e.2)) =
      (gapDifference rg u).2.map fun e => (colOf rg e.1, e.2) := by
    apply List.map_congr_left
    intro e _
    simp only [colOf, gl]
    congr 1; omega
  have e1 : ((gapDifference rg u).1.map fun e => (e.1 + sumLt rg e.1, e.2)) =
      (gapDifference rg u).1.map fun e => (colOf rg e.1, e.2) := by
    apply List.map_congr_left
    intro e he
    have := ((gapDifference_missing rg u e.1 e.2).mp he).2
    simp only [colOf, gl, this, Option.getD_none]
    congr 1; omega
  rw [e2, e1]
  have hk : keys (((gapDifference rg u).2 ++ (gapDifference rg u).1).map fun e => (colOf rg e.1, e.2)) =
      (keys ((gapDifference rg u).2 ++ (gapDifference rg u).1)).map (colOf rg) := by
    simp [keys, List.map_map, Function.comp_def]
  have hnd' := nodup_map_of_inj (colOf rg) _ hndk hinj
  rw [← hk, List.map_append, keys_append, List.nodup_append] at hnd'
  rw [dsetAll_fresh _ [] hnd'.1 (fun k _ => by simp)]
  rw [dsetAll_fresh _ _ hnd'.2.1 (fun k hk1 hk2 => by
    simp only [List.nil_append] at hk2
    exact hnd'.2.2 k hk2 k hk1 rfl)]
  simp

end CogentModel.GapMerge
