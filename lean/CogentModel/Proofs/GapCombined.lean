/-
  C18 / gap merging, part D: what `_combined_refseq_gaps` returns: for every reference position `p` whose union gap is
  longer than the pairwise one, one entry at the alignment column of reference residue `p` with the missing length.
-/
import CogentModel.Proofs.GapOffsetNI
namespace CogentModel.GapMerge

/-- alignment column (in the pairwise alignment) of reference residue `p`: all gap characters up to and including
the gap in front of `p`, plus the residues before it -/
def colOf (rg : Gaps) (p : Int) : Int := p + sumLt rg p + gl rg p

def dsetAll (res kvs : Gaps) : Gaps := kvs.foldl (fun r e => dset r e.1 e.2) res

theorem dsetAll_fresh (kvs : Gaps) : ∀ res : Gaps, (keys kvs).Nodup → (∀ k ∈ keys kvs, k ∉ keys res) →
    dsetAll res kvs = res ++ kvs := by
  induction kvs with
  | nil => intro res _ _; simp [dsetAll]
  | cons e r ih =>
    intro res hnd hfr
    obtain ⟨k, v⟩ := e
    simp only [keys_cons, List.nodup_cons] at hnd
    have hk : k ∉ keys res := hfr k (by simp)
    simp only [dsetAll, List.foldl_cons, dset_fresh res k v hk]
    have := ih (res ++ [(k, v)]) hnd.2 (fun k' hk' => by
      rw [keys_append]
      simp only [keys_cons, keys_nil, List.mem_append, List.mem_singleton, not_or]
      exact ⟨hfr k' (by simp [hk']), fun e => hnd.1 (e ▸ hk')⟩)
    simp only [dsetAll] at this
    rw [this]; simp

theorem subsetToAlign_eq (orig : Gaps) (s2a : GapOffset) (l : Gaps) : ∀ res,
    subsetToAlign orig s2a l res =
      dsetAll res (l.map fun e => (s2a.get e.1 + e.1 + (dget orig e.1).getD 0, e.2)) := by
  induction l with
  | nil => intro res; rfl
  | cons e r ih => intro res; obtain ⟨p, dl⟩ := e; simp only [subsetToAlign, ih, dsetAll, List.map_cons, List.foldl_cons]

theorem updateDiff_eq (s2a : GapOffset) (l : Gaps) : ∀ res,
    updateDiff s2a l res = dsetAll res (l.map fun e => (e.1 + s2a.get e.1, e.2)) := by
  induction l with
  | nil => intro res; rfl
  | cons e r ih => intro res; obtain ⟨p, v⟩ := e; simp only [updateDiff, ih, dsetAll, List.map_cons, List.foldl_cons]

/-! ### `_gap_difference` -/

theorem gapDifference_missing (rg u : Gaps) (p v : Int) :
    (p, v) ∈ (gapDifference rg u).1 ↔ (p, v) ∈ u ∧ dget rg p = none := by
  induction u with
  | nil => simp [gapDifference]
  | cons e r ih =>
    obtain ⟨q, l⟩ := e
    simp only [gapDifference]
    cases hd : dget rg q with
    | none =>
      simp only [List.mem_cons, ih, Prod.mk.injEq]
      constructor
      · rintro (⟨rfl, rfl⟩ | ⟨h1, h2⟩)
        · exact ⟨Or.inl ⟨rfl, rfl⟩, hd⟩
        · exact ⟨Or.inr h1, h2⟩
      · rintro ⟨(⟨rfl, rfl⟩ | h1), h2⟩
        · exact Or.inl ⟨rfl, rfl⟩
        · exact Or.inr ⟨h1, h2⟩
    | some l' =>
      simp only
      split
      · simp only [ih, List.mem_cons, Prod.mk.injEq]
        constructor
        · rintro ⟨h1, h2⟩; exact ⟨Or.inr h1, h2⟩
        · rintro ⟨(⟨rfl, rfl⟩ | h1), h2⟩
          · rw [hd] at h2; simp at h2
          · exact ⟨h1, h2⟩
      · simp only [ih, List.mem_cons, Prod.mk.injEq]
        constructor
        · rintro ⟨h1, h2⟩; exact ⟨Or.inr h1, h2⟩
        · rintro ⟨(⟨rfl, rfl⟩ | h1), h2⟩
          · rw [hd] at h2; simp at h2
          · exact ⟨h1, h2⟩

theorem gapDifference_overlap (rg u : Gaps) (p v : Int) :
    (p, v) ∈ (gapDifference rg u).2 ↔ ∃ l l', (p, l) ∈ u ∧ dget rg p = some l' ∧ l' ≠ l ∧ v = l - l' := by
  induction u with
  | nil => simp [gapDifference]
  | cons e r ih =>
    obtain ⟨q, l⟩ := e
    simp only [gapDifference]
    cases hd : dget rg q with
    | none =>
      simp only [ih, List.mem_cons, Prod.mk.injEq]
      constructor
      · rintro ⟨l1, l2, h1, h2, h3, h4⟩; exact ⟨l1, l2, Or.inr h1, h2, h3, h4⟩
      · rintro ⟨l1, l2, (⟨rfl, rfl⟩ | h1), h2, h3, h4⟩
        · rw [hd] at h2; simp at h2
        · exact ⟨l1, l2, h1, h2, h3, h4⟩
    | some l' =>
      simp only
      split
      · rename_i hne
        simp only [List.mem_cons, ih, Prod.mk.injEq]
        constructor
        · rintro (⟨rfl, rfl⟩ | ⟨l1, l2, h1, h2, h3, h4⟩)
          · exact ⟨l, l', Or.inl ⟨rfl, rfl⟩, hd, hne, rfl⟩
          · exact ⟨l1, l2, Or.inr h1, h2, h3, h4⟩
        · rintro ⟨l1, l2, (⟨rfl, rfl⟩ | h1), h2, h3, h4⟩
          · rw [hd] at h2; cases h2; exact Or.inl ⟨rfl, h4⟩
          · exact Or.inr ⟨l1, l2, h1, h2, h3, h4⟩
      · rename_i hne
        have hne' : l' = l := Classical.not_not.mp hne
        simp only [ih, List.mem_cons, Prod.mk.injEq]
        constructor
        · rintro ⟨l1, l2, h1, h2, h3, h4⟩; exact ⟨l1, l2, Or.inr h1, h2, h3, h4⟩
        · rintro ⟨l1, l2, (⟨rfl, rfl⟩ | h1), h2, h3, h4⟩
          · rw [hd] at h2; cases h2; exact absurd hne' h3
          · exact ⟨l1, l2, h1, h2, h3, h4⟩

theorem gapDifference_keys_sub (rg u : Gaps) :
    (∀ k ∈ keys (gapDifference rg u).1, k ∈ keys u) ∧ (∀ k ∈ keys (gapDifference rg u).2, k ∈ keys u) := by
  constructor
  · intro k hk
    obtain ⟨e, he, rfl⟩ := List.mem_map.mp hk
    exact List.mem_map.mpr ⟨e, ((gapDifference_missing rg u e.1 e.2).mp he).1, rfl⟩
  · intro k hk
    obtain ⟨e, he, rfl⟩ := List.mem_map.mp hk
    obtain ⟨l, l', h1, _⟩ := (gapDifference_overlap rg u e.1 e.2).mp he
    exact List.mem_map.mpr ⟨(e.1, l), h1, rfl⟩

/-- keys of overlapping ++ missing are distinct -/
theorem gapDifference_nodup (rg u : Gaps) (hnd : (keys u).Nodup) :
    (keys ((gapDifference rg u).2 ++ (gapDifference rg u).1)).Nodup := by
  induction u with
  | nil => simp [gapDifference]
  | cons e r ih =>
    obtain ⟨q, l⟩ := e
    simp only [keys_cons, List.nodup_cons] at hnd
    have ih' := ih hnd.2
    have hsub := gapDifference_keys_sub rg r
    rw [keys_append] at ih' ⊢
    have hq1 : q ∉ keys (gapDifference rg r).1 := fun h => hnd.1 (hsub.1 q h)
    have hq2 : q ∉ keys (gapDifference rg r).2 := fun h => hnd.1 (hsub.2 q h)
    simp only [gapDifference]
    cases hd : dget rg q with
    | none =>
      simp only [keys_cons]
      rw [List.nodup_append] at ih' ⊢
      refine ⟨ih'.1, List.nodup_cons.mpr ⟨hq1, ih'.2.1⟩, ?_⟩
      intro a ha b hb
      rcases List.mem_cons.mp hb with rfl | hb'
      · exact fun e => hq2 (e ▸ ha)
      · exact ih'.2.2 a ha b hb'
    | some l' =>
      simp only
      split
      · simp only [keys_cons]
        rw [List.nodup_append] at ih' ⊢
        refine ⟨List.nodup_cons.mpr ⟨hq2, ih'.1⟩, ih'.2.1, ?_⟩
        intro a ha b hb
        rcases List.mem_cons.mp ha with rfl | ha'
        · exact fun e => hq1 (e ▸ hb)
        · exact ih'.2.2 a ha' b hb
      · exact ih'

end CogentModel.GapMerge

namespace CogentModel.GapMerge

theorem sumLt_mono (g : Gaps) (hnn : ∀ e ∈ g, 0 ≤ e.2) (x y : Int) (hxy : x ≤ y) : sumLt g x ≤ sumLt g y := by
  induction g with
  | nil => simp [sumLt, sumIf]
  | cons e r ih =>
    obtain ⟨k, v⟩ := e
    have hv : 0 ≤ v := hnn (k, v) List.mem_cons_self
    have ih' := ih (fun e he => hnn e (List.mem_cons_of_mem _ he))
    simp only [sumLt, sumIf] at ih' ⊢
    by_cases h1 : k < x
    · have h2 : k < y := by omega
      simp only [h1, h2, decide_true, if_true]; omega
    · by_cases h2 : k < y
      · simp only [h1, h2, decide_true, decide_false, if_true]; simp; omega
      · simp only [h1, h2, decide_false]; simp; omega

theorem colOf_strictMono (rg : Gaps) (hnd : (keys rg).Nodup) (hnn : ∀ e ∈ rg, 0 ≤ e.2) (p p' : Int) (h : p < p') :
    colOf rg p < colOf rg p' := by
  have h1 := sumLt_succ rg hnd p
  have h2 := sumLt_mono rg hnn (p + 1) p' (by omega)
  have h3 := gl_nonneg rg hnn p'
  unfold colOf; omega

theorem nodup_map_of_inj {α β : Type} (f : α → β) (l : List α) (hnd : l.Nodup) (hinj : ∀ a b, a ≠ b → f a ≠ f b) :
    (l.map f).Nodup := List.Pairwise.map f (fun a b h => hinj a b h) hnd

/-- the dict `_combined_refseq_gaps` returns, as a list -/
theorem combined_eq (rg u : Gaps) (hrg : (keys rg).Nodup) (hnn : ∀ e ∈ rg, 0 ≤ e.2) (hu : (keys u).Nodup) :
    combinedRefseqGaps rg u =
      ((gapDifference rg u).2 ++ (gapDifference rg u).1).map fun e => (colOf rg e.1, e.2) := by
  have hinj : ∀ a b : Int, a ≠ b → colOf rg a ≠ colOf rg b := by
    intro a b hab
    rcases Int.lt_or_gt_of_ne hab with h | h
    · have := colOf_strictMono rg hrg hnn a b h; omega
    · have := colOf_strictMono rg hrg hnn b a h; omega
  have hndk := gapDifference_nodup rg u hu
  simp only [combinedRefseqGaps, subsetToAlign_eq, updateDiff_eq, s2a_get rg hrg]
  -- uniform key function on both parts
  have e2 : ((gapDifference rg u).2.map fun e => (sumLt rg e.1 + e.1 + (dget rg e.1).getD 0, e.2)) =
      (gapDifference rg u).2.map fun e => (colOf rg e.1, e.2) := by
    apply List.map_congr_left
    intro e _
    simp only [colOf, gl]
    congr 1; omega
  have e1 : ((gapDifference rg u).1.map fun e => (e.1 + sumLt rg e.1, e.2)) =
      (gapDifference rg u).1.map fun e => (colOf rg e.1, e.2) := by
    apply List.map_congr_left
    intro e he
    have := ((gapDifference_missing rg u e.1 e.2).mp he).2
    simp only [colOf, gl, this, Option.getD_none]
    congr 1; omega
  rw [e2, e1]
  have hk : keys (((gapDifference rg u).2 ++ (gapDifference rg u).1).map fun e => (colOf rg e.1, e.2)) =
      (keys ((gapDifference rg u).2 ++ (gapDifference rg u).1)).map (colOf rg) := by
    simp [keys, List.map_map, Function.comp_def]
  have hnd' := nodup_map_of_inj (colOf rg) _ hndk hinj
  rw [← hk, List.map_append, keys_append, List.nodup_append] at hnd'
  rw [dsetAll_fresh _ [] hnd'.1 (fun k _ => by simp)]
  rw [dsetAll_fresh _ _ hnd'.2.1 (fun k hk1 hk2 => by
    simp only [List.nil_append] at hk2
    exact hnd'.2.2 k hk2 k hk1 rfl)]
  simp

end CogentModel.GapMerge

namespace CogentModel.GapMerge

/-- hypotheses shared by the statements about one pairwise alignment inside the merge -/
structure MergeHyp (rg u : Gaps) : Prop where
  rgNodup : (keys rg).Nodup
  rgNonneg : ∀ e ∈ rg, 0 ≤ e.2
  uNodup : (keys u).Nodup
  uPos : ∀ e ∈ u, 0 < e.2
  dom : ∀ p, gl rg p ≤ gl u p

theorem colOf_inj (rg u : Gaps) (H : MergeHyp rg u) (a b : Int) (h : colOf rg a = colOf rg b) : a = b := by
  by_cases hab : a = b
  · exact hab
  · rcases Int.lt_or_gt_of_ne hab with h1 | h1
    · have := colOf_strictMono rg H.rgNodup H.rgNonneg a b h1; omega
    · have := colOf_strictMono rg H.rgNodup H.rgNonneg b a h1; omega

theorem combined_mem (rg u : Gaps) (H : MergeHyp rg u) (c l : Int) :
    (c, l) ∈ combinedRefseqGaps rg u ↔
      ∃ p, c = colOf rg p ∧ ((p, l) ∈ (gapDifference rg u).2 ∨ (p, l) ∈ (gapDifference rg u).1) := by
  rw [combined_eq rg u H.rgNodup H.rgNonneg H.uNodup]
  simp only [List.mem_map, List.mem_append, Prod.mk.injEq]
  constructor
  · rintro ⟨e, he, h1, h2⟩
    obtain ⟨p, v⟩ := e
    simp only at h1 h2
    subst h2
    exact ⟨p, h1.symm, he⟩
  · rintro ⟨p, rfl, he⟩
    exact ⟨(p, l), he, rfl, rfl⟩

theorem combined_keys (rg u : Gaps) (H : MergeHyp rg u) (c : Int) (hc : c ∈ keys (combinedRefseqGaps rg u)) :
    ∃ p ∈ keys u, c = colOf rg p := by
  obtain ⟨e, he, rfl⟩ := List.mem_map.mp hc
  obtain ⟨p, hp, hor⟩ := (combined_mem rg u H e.1 e.2).mp he
  refine ⟨p, ?_, hp⟩
  have hsub := gapDifference_keys_sub rg u
  rcases hor with h | h
  · exact hsub.2 p (List.mem_map.mpr ⟨_, h, rfl⟩)
  · exact hsub.1 p (List.mem_map.mpr ⟨_, h, rfl⟩)

theorem combined_nodup (rg u : Gaps) (H : MergeHyp rg u) : (keys (combinedRefseqGaps rg u)).Nodup := by
  rw [combined_eq rg u H.rgNodup H.rgNonneg H.uNodup]
  have hk : keys (((gapDifference rg u).2 ++ (gapDifference rg u).1).map fun e => (colOf rg e.1, e.2)) =
      (keys ((gapDifference rg u).2 ++ (gapDifference rg u).1)).map (colOf rg) := by
    simp [keys, List.map_map, Function.comp_def]
  rw [hk]
  exact nodup_map_of_inj (colOf rg) _ (gapDifference_nodup rg u H.uNodup)
    (fun a b hab h => hab (colOf_inj rg u H a b h))

theorem combined_nonneg (rg u : Gaps) (H : MergeHyp rg u) : ∀ e ∈ combinedRefseqGaps rg u, 0 ≤ e.2 := by
  intro e he
  obtain ⟨p, _, hor⟩ := (combined_mem rg u H e.1 e.2).mp he
  rcases hor with h | h
  · obtain ⟨l, l', h1, h2, h3, h4⟩ := (gapDifference_overlap rg u p e.2).mp h
    have hd := H.dom p
    have hu := dget_mem_nodup u H.uNodup p l h1
    simp only [gl, hu, h2, Option.getD_some] at hd
    omega
  · have := ((gapDifference_missing rg u p e.2).mp h).1
    have := H.uPos _ this
    simp only at this; omega

/-- the entry at the column of reference residue `p` is the missing gap length (0 = no entry) -/
theorem combined_gl_at (rg u : Gaps) (H : MergeHyp rg u) (p : Int) :
    gl (combinedRefseqGaps rg u) (colOf rg p) = gl u p - gl rg p := by
  have hnd := combined_nodup rg u H
  have hzero : (∀ l, (p, l) ∉ (gapDifference rg u).2) → (∀ l, (p, l) ∉ (gapDifference rg u).1) →
      gl (combinedRefseqGaps rg u) (colOf rg p) = 0 := by
    intro h2 h1
    have : dget (combinedRefseqGaps rg u) (colOf rg p) = none := by
      rw [dget_none_iff]
      intro hk
      obtain ⟨e, he, hke⟩ := List.mem_map.mp hk
      obtain ⟨p', hp', hor⟩ := (combined_mem rg u H e.1 e.2).mp he
      have : p' = p := colOf_inj rg u H p' p (by rw [← hp', hke])
      subst this
      rcases hor with h | h
      · exact h2 _ h
      · exact h1 _ h
    simp [gl, this]
  cases hdu : dget u p with
  | none =>
    have hd := H.dom p
    have hr := gl_nonneg rg H.rgNonneg p
    simp only [gl, hdu, Option.getD_none] at hd ⊢
    have hrg0 : (dget rg p).getD 0 = 0 := by unfold gl at hr; omega
    rw [hrg0]
    have hpk : p ∉ keys u := (dget_none_iff u p).mp hdu
    have hsub := gapDifference_keys_sub rg u
    have := hzero (fun l h => hpk (hsub.2 p (List.mem_map.mpr ⟨_, h, rfl⟩)))
      (fun l h => hpk (hsub.1 p (List.mem_map.mpr ⟨_, h, rfl⟩)))
    simpa [gl] using this
  | some l =>
    have hmu : (p, l) ∈ u := dget_some_mem u p l hdu
    cases hdr : dget rg p with
    | none =>
      have hm : (p, l) ∈ (gapDifference rg u).1 := (gapDifference_missing rg u p l).mpr ⟨hmu, hdr⟩
      have hin : (colOf rg p, l) ∈ combinedRefseqGaps rg u := (combined_mem rg u H _ _).mpr ⟨p, rfl, Or.inr hm⟩
      have := dget_mem_nodup _ hnd _ _ hin
      simp [gl, this, hdu, hdr]
    | some l' =>
      by_cases hne : l' = l
      · subst hne
        have := hzero
          (fun v h => by
            obtain ⟨l1, l2, h1, h2, h3, _⟩ := (gapDifference_overlap rg u p v).mp h
            have e1 := dget_mem_nodup u H.uNodup p l1 h1
            rw [hdu] at e1; rw [hdr] at h2
            cases e1; cases h2; exact h3 rfl)
          (fun v h => by
            have := ((gapDifference_missing rg u p v).mp h).2
            rw [hdr] at this; simp at this)
        simp only [gl, hdu, hdr, Option.getD_some] at this ⊢
        omega
      · have hm : (p, l - l') ∈ (gapDifference rg u).2 :=
          (gapDifference_overlap rg u p (l - l')).mpr ⟨l, l', hmu, hdr, hne, rfl⟩
        have hin : (colOf rg p, l - l') ∈ combinedRefseqGaps rg u :=
          (combined_mem rg u H _ _).mpr ⟨p, rfl, Or.inl hm⟩
        have := dget_mem_nodup _ hnd _ _ hin
        simp [gl, this, hdu, hdr]

theorem combined_gl_off (rg u : Gaps) (H : MergeHyp rg u) (c : Int) (hc : ∀ p ∈ keys u, c ≠ colOf rg p) :
    gl (combinedRefseqGaps rg u) c = 0 := by
  have : dget (combinedRefseqGaps rg u) c = none := by
    rw [dget_none_iff]
    intro hk
    obtain ⟨p, hp, hcp⟩ := combined_keys rg u H c hk
    exact hc p hp hcp
  simp [gl, this]

end CogentModel.GapMerge
