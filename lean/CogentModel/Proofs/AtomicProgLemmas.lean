import CogentModel.Model.AtomicProg
import CogentModel.Proofs.AtomicWriteLemmas
/-! C19: running the structured hand model of `atomic_write` (Model/AtomicProg.lean) yields the flat program,
the fault traces and the handler table of Model/AtomicWrite.lean — for every configuration, chunk list and
fault position (core Lean only). -/
namespace CogentModel.AtomicProg
open CogentModel.AtomicWrite

theorem runWrites_none (c : Cfg) (cs : List Data) : runWrites c cs none = ⟨writes c cs, false, none⟩ := by
  induction cs with
  | nil => rfl
  | cons ch rest ih => simp [runWrites, ih, writes]

/-- the with-block under a pending fault: it hits write number `k`, or all writes pass -/
theorem runWrites_some (c : Cfg) (cs : List Data) (k : Nat) :
    runWrites c cs (some k) =
      if k < cs.length then ⟨(writes c cs).take (k + 1), true, none⟩ else ⟨writes c cs, false, some (k - cs.length)⟩ := by
  induction cs generalizing k with
  | nil => simp [runWrites, writes]
  | cons ch rest ih =>
    cases k with
    | zero => simp [runWrites, writes]
    | succ n =>
      simp only [runWrites, ih, writes, List.map_cons, List.length_cons, Nat.add_lt_add_iff_right, List.take_succ_cons,
        Nat.add_sub_add_right]
      split <;> rfl

theorem runWrites_pass (c : Cfg) (cs : List Data) (d : Nat) :
    runWrites c cs (some (cs.length + d)) = ⟨writes c cs, false, some d⟩ := by
  rw [runWrites_some]; simp

theorem take_writes_add (c : Cfg) (cs : List Data) (i : Nat) (l : List Instr) :
    (writes c cs ++ l).take (cs.length + i) = writes c cs ++ l.take i := by
  have := List.take_length_add_append (l₁ := writes c cs) (l₂ := l) (i := i)
  rwa [show (writes c cs).length = cs.length by simp [writes]] at this

theorem program_replace (c : Cfg) (hz : c.zipMember = none) (hc : c.commit = .replace) :
    program c = ⟨.mkdir c.tmpdir, .ctor⟩ :: ⟨.openW c.tmpfile, .enter⟩ ::
      (writes c c.chunks ++ [closeInstr c, ⟨.rename c.tmpfile c.dest, .commitRename⟩, ⟨.rmtree c.tmpdir, .cleanup⟩]) := by
  simp [program, pre, post, commitInstrs, hz, hc]

theorem program_zip (c : Cfg) (m : Nat) (hz : c.zipMember = some m) :
    program c = ⟨.mkdir c.tmpdir, .ctor⟩ :: ⟨.openW c.tmpfile, .enter⟩ ::
      (writes c c.chunks ++ [closeInstr c, ⟨.zipData c.dest m c.tmpfile, .zipData⟩, ⟨.zipDir c.dest, .zipDir⟩,
        ⟨.rmtree c.tmpdir, .cleanup⟩]) := by
  simp [program, pre, post, commitInstrs, hz]

theorem writes_length (c : Cfg) (cs : List Data) : (writes c cs).length = cs.length := by simp [writes]

/-- **no fault**: the structured code issues exactly the flat program and returns normally (plain and zip-member
targets) -/
theorem runWith_hand_none (c : Cfg) (hc : c.commit = .replace) :
    runWith hand c true none = ⟨program c, false, none⟩ := by
  cases hz : c.zipMember with
  | none =>
    rw [program_replace c hz hc]
    simp [runWith, runWithBody, hand, handCleanup, run, callPrim, runWrites_none, Prim.instr, hz]
  | some m =>
    rw [program_zip c m hz]
    simp [runWith, runWithBody, hand, handCleanup, run, callPrim, runWrites_none, Prim.instr, hz]

/-- the `tmpdir=` route without a fault: no mkdtemp, only the temp file is removed -/
theorem runWith_hand_tmpdir_none (c : Cfg) (hz : c.zipMember = none) :
    runWith hand c false none = ⟨programTmp c .unlinkFile, false, none⟩ := by
  simp [runWith, runWithBody, hand, handCleanup, run, callPrim, runWrites_none, Prim.instr, hz, programTmp]

theorem phaseAt_last_replace (c : Cfg) (hz : c.zipMember = none) (hc : c.commit = .replace) :
    phaseAt c (c.chunks.length + 4) = .cleanup := by
  simp [phaseAt, program_replace c hz hc, writes]

/-- **one injected fault, plain target**: whichever call `k` of the program raises, the structured code issues exactly
`faultTrace` (the first `k` calls, the failing one, then the entry of the flat model's handler table for that
phase), and an exception reaches the caller unless the failing call is the last one (the `ignore_errors` cleanup). -/
theorem runWith_hand_fault (c : Cfg) (hz : c.zipMember = none) (hc : c.commit = .replace) (hg : c.guarded = true)
    (hw : c.withBlock = true) (hb : c.bodyUnlink = false) (hcb : c.closeInBody = false)
    (k : Nat) (hk : k < (program c).length) :
    runWith hand c true (some k) = ⟨faultTrace c k, decide (k + 1 < (program c).length), none⟩ := by
  have hlen : (program c).length = c.chunks.length + 5 := by simp [program_replace c hz hc, writes]
  rw [hlen] at hk ⊢
  unfold faultTrace
  match k, hk with
  | 0, _ =>
    rw [phaseAt_0, program_replace c hz hc]
    simp [runWith, runWithBody, hand, run, callPrim, Prim.instr, handler]
  | 1, _ =>
    rw [phaseAt_1, program_replace c hz hc]
    simp [runWith, runWithBody, hand, handCleanup, run, callPrim, Prim.instr, handler, hg]
  | j + 2, hk =>
    by_cases hj : j < c.chunks.length
    · rw [phaseAt_body c j hj, program_replace c hz hc]
      have : j + 1 ≤ (writes c c.chunks).length := by rw [writes_length]; omega
      simp [runWith, runWithBody, hand, handCleanup, run, callPrim, Prim.instr, handler, hw, hb, runWrites_some, hj,
        List.take_append_of_le_length this, closeInstr, hcb]
      omega
    · have e0 := runWrites_pass c c.chunks 0
      have e1 := runWrites_pass c c.chunks 1
      have e2 := runWrites_pass c c.chunks 2
      have t1 := take_writes_add c c.chunks
      simp only [Nat.add_zero] at e0
      by_cases h0 : j = c.chunks.length
      · subst h0
        rw [phaseAt_close, program_replace c hz hc]
        simp [runWith, runWithBody, hand, handCleanup, run, callPrim, Prim.instr, handler, hg, e0, t1, closeInstr, hcb]
      · by_cases h1 : j = c.chunks.length + 1
        · subst h1
          rw [phaseAt_commit0, post_replace c hz hc, program_replace c hz hc]
          simp [runWith, runWithBody, hand, handCleanup, run, callPrim, Prim.instr, handler, hg, e1, hz, t1, closeInstr, hcb]
        · have h2 : j = c.chunks.length + 2 := by omega
          subst h2
          rw [phaseAt_last_replace c hz hc, program_replace c hz hc]
          simp [runWith, runWithBody, hand, handCleanup, run, callPrim, Prim.instr, handler, e2, hz, t1, closeInstr, hcb]

theorem phaseAt_zip (c : Cfg) (m : Nat) (hz : c.zipMember = some m) :
    phaseAt c (c.chunks.length + 3) = .zipData ∧ phaseAt c (c.chunks.length + 4) = .zipDir ∧
    phaseAt c (c.chunks.length + 5) = .cleanup := by
  simp [phaseAt, program_zip c m hz, writes]

/-- **one injected fault, zip-member target**: the same for `atomic_write(member, in_zip=archive)`; the failure of the
open of the archive is swallowed by `zipfile` (retry in mode 'w+b'), so no exception reaches the caller there either. -/
theorem runWith_hand_fault_zip (c : Cfg) (m : Nat) (hz : c.zipMember = some m) (hg : c.guarded = true)
    (hw : c.withBlock = true) (hb : c.bodyUnlink = false) (hcb : c.closeInBody = false)
    (k : Nat) (hk : k < (program c).length) :
    runWith hand c true (some k) =
      ⟨faultTrace c k, decide (k ≠ c.chunks.length + 3 ∧ k ≠ c.chunks.length + 5), none⟩ := by
  have hlen : (program c).length = c.chunks.length + 6 := by simp [program_zip c m hz, writes]
  rw [hlen] at hk
  unfold faultTrace
  match k, hk with
  | 0, _ =>
    rw [phaseAt_0, program_zip c m hz]
    simp [runWith, runWithBody, hand, run, callPrim, Prim.instr, handler]
  | 1, _ =>
    rw [phaseAt_1, program_zip c m hz]
    simp [runWith, runWithBody, hand, handCleanup, run, callPrim, Prim.instr, handler, hg]
  | j + 2, hk =>
    by_cases hj : j < c.chunks.length
    · rw [phaseAt_body c j hj, program_zip c m hz]
      have : j + 1 ≤ (writes c c.chunks).length := by rw [writes_length]; omega
      simp [runWith, runWithBody, hand, handCleanup, run, callPrim, Prim.instr, handler, hw, hb, runWrites_some, hj,
        List.take_append_of_le_length this, closeInstr, hcb]
      omega
    · have e0 := runWrites_pass c c.chunks 0
      have e1 := runWrites_pass c c.chunks 1
      have e2 := runWrites_pass c c.chunks 2
      have e3 := runWrites_pass c c.chunks 3
      have t1 := take_writes_add c c.chunks
      have ⟨p3, p4, p5⟩ := phaseAt_zip c m hz
      simp only [Nat.add_zero] at e0
      by_cases h0 : j = c.chunks.length
      · subst h0
        rw [phaseAt_close, program_zip c m hz]
        simp [runWith, runWithBody, hand, handCleanup, run, callPrim, Prim.instr, handler, hg, e0, t1, closeInstr, hcb]
      · by_cases h1 : j = c.chunks.length + 1
        · subst h1
          rw [p3, program_zip c m hz]
          simp [runWith, runWithBody, hand, handCleanup, run, callPrim, Prim.instr, handler, hg, e1, hz, t1, closeInstr, hcb]
        · by_cases h2 : j = c.chunks.length + 2
          · subst h2
            rw [p4, program_zip c m hz]
            simp [runWith, runWithBody, hand, handCleanup, run, callPrim, Prim.instr, handler, hg, e2, hz, t1, closeInstr, hcb]
          · have h3 : j = c.chunks.length + 3 := by omega
            subst h3
            rw [p5, program_zip c m hz]
            simp [runWith, runWithBody, hand, handCleanup, run, callPrim, Prim.instr, handler, e3, hz, t1, closeInstr, hcb]

/-- **formatting failure**: the writer's own code raises after `j` chunks; the structured code closes the temp file,
skips the commit and removes the temp dir -/
theorem runWith_hand_fmtfail (c : Cfg) (hcb : c.closeInBody = false) (j : Nat) :
    runWithBody hand c true (fmtFailBody c j) none = ⟨fmtFailTrace c j, true, none⟩ := by
  simp [runWithBody, fmtFailBody, fmtFailTrace, hand, handCleanup, run, callPrim, runWrites_none, Prim.instr, closeInstr, hcb]

/-- …and what that leaves: nothing failed, the destination and everything else untouched, nothing under the temp dir -/
theorem fmtfail_state (c : Cfg) (fs : FS) (h : WF c fs) (j : Nat) :
    (exec fs (fmtFailTrace c j)).2 = none ∧
    (exec fs (fmtFailTrace c j)).1 c.dest = fs c.dest ∧
    (∀ p, under c.tmpdir p = true → (exec fs (fmtFailTrace c j)).1 p = none) ∧
    (∀ p, under c.tmpdir p = false → (exec fs (fmtFailTrace c j)).1 p = fs p) := by
  let c' : Cfg := { c with chunks := c.chunks.take j }
  have h' : WF c' fs := ⟨h.hdir, h.hne, h.hfresh, h.hdest⟩
  have e : fmtFailTrace c j = pre c' ++ [⟨.rmtree c'.tmpdir, .cleanup⟩] := by
    simp [fmtFailTrace, pre, writes, closeInstr, c', Cfg.tmpfile, Cfg.tmpdir]
  have hx : exec fs (fmtFailTrace c j) =
      ((fun q => if under c'.tmpdir q then none else preState c' fs c'.newData q), none) := by
    rw [e, exec_append_ok _ _ _ (by rw [exec_pre c' fs h']), exec_pre c' fs h',
      exec_cons_ok _ _ _ _ (run_rmtree c' _ (preState_tmpdir c' fs _))]
    rfl
  rw [hx]
  have ht : c'.tmpdir = c.tmpdir := rfl
  refine ⟨rfl, ?_, ?_, ?_⟩
  · have : under c'.tmpdir c.dest = false := not_under_tmpdir_dest c' h.hne
    simp only [this]
    exact preState_dest c' fs h' _
  · intro p hp; simp [ht, hp]
  · intro p hp
    have a : p ≠ c.tmpdir := by intro e; subst e; rw [under_self] at hp; cases hp
    have b : p ≠ c.tmpfile := by intro e; subst e; rw [under_tmpdir_tmpfile] at hp; cases hp
    have ht2 : c'.tmpfile = c.tmpfile := rfl
    simp [ht, ht2, hp, preState, upd, a, b]

end CogentModel.AtomicProg
