import CogentModel.Model.FMapOps
import CogentModel.Proofs.FMapLemmas
/-! # Helper lemmas for `Props/C08Ops.lean`: the span predicates, `+`, `*`, `/`, `without_gaps`, `reversed_relative_to` -/
namespace CogentModel.FMap

theorem containsInt_iff (s e x : Int) (r : Bool) : containsInt s e x = true ↔ some x ∈ coverSp (.span s e r) := by
  rw [mem_coverSp]; simp only [containsInt, decide_eq_true_eq]
  constructor
  · intro h; exact ⟨s, e, r, rfl, h⟩
  · rintro ⟨s', e', r', h, h1⟩; injection h with a b c; subst a; subst b; exact h1

theorem containsSpan_subset (s e os oe : Int) (r r' : Bool) (h : containsSpan s e os oe = true) (x : Int)
    (hx : some x ∈ coverSp (.span os oe r')) : some x ∈ coverSp (.span s e r) := by
  rw [← containsInt_iff] at hx ⊢
  simp only [containsSpan, containsInt, decide_eq_true_eq] at *
  omega

theorem containsSpan_of_subset (s e os oe : Int) (r r' : Bool) (hne : os < oe)
    (h : ∀ x, some x ∈ coverSp (.span os oe r') → some x ∈ coverSp (.span s e r)) : containsSpan s e os oe = true := by
  have h1 := h os; have h2 := h (oe - 1)
  rw [← containsInt_iff, ← containsInt_iff] at h1 h2
  simp only [containsSpan, containsInt, decide_eq_true_eq] at *
  omega

theorem overlapsSpan_iff (s e os oe : Int) (r r' : Bool) (h1 : s < e) (h2 : os < oe) :
    overlapsSpan s e os oe = true ↔ ∃ x, some x ∈ coverSp (.span s e r) ∧ some x ∈ coverSp (.span os oe r') := by
  simp only [← containsInt_iff, overlapsSpan, containsInt, Bool.or_eq_true, decide_eq_true_eq]
  constructor
  · rintro (h | h)
    · exact ⟨s, by omega, by omega⟩
    · exact ⟨os, by omega, by omega⟩
  · rintro ⟨x, ha, hb⟩; omega

/-! ### `+` -/
theorem fmAdd_spec (a b c : FM) (h : fmAdd a b = .ok c) :
    cover c = cover a ++ cover b ∧ len c = len a + len b ∧ c.parentLength = a.parentLength ∧
      (Within a → Within b → Within c) := by
  unfold fmAdd at h
  split at h
  · cases h
  · rename_i hpl
    injection h with h; subst h
    refine ⟨by simp [cover_eq_coverL], by simp [len_eq_lenL], rfl, ?_⟩
    intro ha hb sp hsp
    simp only [List.mem_append] at hsp
    rcases hsp with hsp | hsp
    · exact ha sp hsp
    · have := hb sp hsp
      simp only [ne_eq, Decidable.not_not] at hpl
      rw [hpl] at this; exact this

theorem fmAdd_total (a b : FM) (h : a.parentLength = b.parentLength) : ∃ c, fmAdd a b = .ok c := by
  unfold fmAdd; rw [if_neg (by simp [h])]; exact ⟨_, rfl⟩

/-! ### without_gaps -/
theorem coverSp_filter_lost (n : Int) : (coverSp (.lost n)).filter Option.isSome = [] := by
  simp [coverSp]

theorem coverSp_filter_span (s e : Int) (r : Bool) : (coverSp (.span s e r)).filter Option.isSome = coverSp (.span s e r) := by
  rw [List.filter_eq_self]
  intro o ho
  cases o with
  | none => exact absurd ho (by
      rw [coverSp_span_irange]; cases r <;> simp [irange])
  | some p => rfl

theorem withoutGaps_spec (m : FM) :
    cover (withoutGaps m) = (cover m).filter Option.isSome ∧ (withoutGaps m).parentLength = m.parentLength ∧
      (Within m → Within (withoutGaps m)) := by
  refine ⟨?_, rfl, ?_⟩
  · simp only [cover_eq_coverL, withoutGaps]
    induction m.spans with
    | nil => rfl
    | cons x xs ih =>
      cases x with
      | lost n =>
        have : (FSp.lost n).isLost = true := rfl
        simp only [List.filter, this, Bool.not_true, coverL_cons, List.filter_append, coverSp_filter_lost, List.nil_append]
        exact ih
      | span s e r =>
        have : (FSp.span s e r).isLost = false := rfl
        simp only [List.filter, this, Bool.not_false, coverL_cons, List.filter_append, coverSp_filter_span]
        rw [ih]
  · intro hw sp hsp
    simp only [withoutGaps, List.mem_filter] at hsp
    exact hw sp hsp.1

/-! ### `*` and `/` -/
theorem mkSpan_mul (s e k : Int) (r : Bool) (h : s ≤ e) (hk : 0 ≤ k) : mkSpan (s * k) (e * k) r = .span (s * k) (e * k) r := by
  unfold mkSpan
  have := Int.mul_le_mul_of_nonneg_right h hk
  rw [if_neg (by omega)]

theorem FSp.mul_length (x : FSp) (k : Int) (h : 0 ≤ x.length) (hk : 0 ≤ k) : (x.mul k).length = x.length * k := by
  cases x with
  | lost n => rfl
  | span s e r =>
    simp only [FSp.length] at h
    simp only [FSp.mul, mkSpan_mul s e k r (by omega) hk, FSp.length, Int.sub_mul]

theorem lenL_map_mul (l : List FSp) (k : Int) (h : NonNegL l) (hk : 0 ≤ k) : lenL (l.map (·.mul k)) = lenL l * k := by
  induction l with
  | nil => simp
  | cons x xs ih =>
    simp only [List.map_cons, lenL_cons, ih h.tail, FSp.mul_length x k h.head hk, Int.add_mul]

theorem mem_scaled (s e k p : Int) (hk : 0 < k) :
    (s * k ≤ p ∧ p < e * k) ↔ ∃ q, (s ≤ q ∧ q < e) ∧ q * k ≤ p ∧ p < q * k + k := by
  constructor
  · rintro ⟨h1, h2⟩
    refine ⟨p / k, ⟨Int.le_ediv_of_mul_le hk h1, Int.ediv_lt_of_lt_mul hk h2⟩, Int.ediv_mul_le p (by omega), ?_⟩
    have := Int.lt_ediv_add_one_mul_self p hk
    rw [Int.add_mul, Int.one_mul] at this; exact this
  · rintro ⟨q, ⟨h1, h2⟩, h3, h4⟩
    have a := Int.mul_le_mul_of_nonneg_right h1 (Int.le_of_lt hk)
    have b := Int.mul_le_mul_of_nonneg_right (show q + 1 ≤ e by omega) (Int.le_of_lt hk)
    rw [Int.add_mul, Int.one_mul] at b
    omega

theorem fmMul_spec (m : FM) (k : Int) (hN : NonNeg m) (hk : 0 < k) :
    len (fmMul m k) = len m * k ∧ (fmMul m k).parentLength = m.parentLength * k ∧
    (Within m → Within (fmMul m k)) ∧
    (∀ p, some p ∈ cover (fmMul m k) ↔ ∃ q, some q ∈ cover m ∧ q * k ≤ p ∧ p < q * k + k) := by
  refine ⟨?_, rfl, ?_, ?_⟩
  · simp only [len_eq_lenL, fmMul]; exact lenL_map_mul _ _ hN (Int.le_of_lt hk)
  · intro hw sp hsp
    simp only [fmMul, List.mem_map] at hsp
    obtain ⟨x, hx, rfl⟩ := hsp
    have := hw x hx
    cases x with
    | lost n => trivial
    | span s e r =>
      simp only [FSp.within] at this
      simp only [FSp.mul, mkSpan_mul s e k r this.2.1 (Int.le_of_lt hk), FSp.within, fmMul]
      have a := Int.mul_le_mul_of_nonneg_right this.1 (Int.le_of_lt hk)
      have b := Int.mul_le_mul_of_nonneg_right this.2.1 (Int.le_of_lt hk)
      have c := Int.mul_le_mul_of_nonneg_right this.2.2 (Int.le_of_lt hk)
      omega
  · intro p
    simp only [cover_eq_coverL, mem_coverL, fmMul, List.mem_map]
    constructor
    · rintro ⟨s', e', r', ⟨x, hx, hxe⟩, h1, h2⟩
      cases x with
      | lost n => simp [FSp.mul] at hxe
      | span s e r =>
        have hse : s ≤ e := by have := hN _ hx; simp [FSp.length] at this; omega
        simp only [FSp.mul, mkSpan_mul s e k r hse (Int.le_of_lt hk)] at hxe
        injection hxe with a b c; subst a; subst b; subst c
        obtain ⟨q, hq, hq2⟩ := (mem_scaled s e k p hk).1 ⟨h1, h2⟩
        exact ⟨q, ⟨s, e, r, hx, hq⟩, hq2⟩
    · rintro ⟨q, ⟨s, e, r, hx, hq⟩, hq2⟩
      have hse : s ≤ e := by omega
      have := (mem_scaled s e k p hk).2 ⟨q, hq, hq2⟩
      exact ⟨s * k, e * k, r, ⟨_, hx, by simp only [FSp.mul, mkSpan_mul s e k r hse (Int.le_of_lt hk)]⟩, this⟩

theorem FSp.truediv_mul (x : FSp) (k : Int) (h : 0 ≤ x.length) (hk : 0 < k)
    (h3 : ∀ n, x = .lost n → Int.fmod (n * k) 3 = 0) : (x.mul k).truediv k = .ok x := by
  cases x with
  | lost n =>
    simp only [FSp.mul, FSp.truediv, h3 n rfl, if_true]
    rw [Int.fdiv_eq_ediv_of_nonneg _ (Int.le_of_lt hk), Int.mul_ediv_cancel _ (by omega)]
  | span s e r =>
    simp only [FSp.length] at h
    simp only [FSp.mul, mkSpan_mul s e k r (by omega) (Int.le_of_lt hk), FSp.truediv]
    have : Int.fmod (s * k) k = 0 := by
      rw [Int.fmod_eq_emod_of_nonneg _ (Int.le_of_lt hk)]; exact Int.mul_emod_left s k
    rw [if_pos (Or.inl this)]
    rw [Int.fdiv_eq_ediv_of_nonneg _ (Int.le_of_lt hk), Int.fdiv_eq_ediv_of_nonneg _ (Int.le_of_lt hk),
      Int.mul_ediv_cancel _ (by omega), Int.mul_ediv_cancel _ (by omega)]
    unfold mkSpan; rw [if_neg (by omega)]

theorem mapSpans_truediv_mul (l : List FSp) (k : Int) (h : NonNegL l) (hk : 0 < k)
    (h3 : ∀ n, .lost n ∈ l → Int.fmod (n * k) 3 = 0) : mapSpans (·.truediv k) (l.map (·.mul k)) = .ok l := by
  induction l with
  | nil => rfl
  | cons x xs ih =>
    simp only [List.map_cons, mapSpans]
    rw [FSp.truediv_mul x k h.head hk (fun n hn => h3 n (by rw [hn]; exact List.mem_cons_self))]
    simp only []
    rw [ih h.tail (fun n hn => h3 n (List.mem_cons_of_mem _ hn))]

theorem fmTruediv_fmMul (m : FM) (k : Int) (hN : NonNeg m) (hk : 0 < k)
    (h3 : ∀ n, .lost n ∈ m.spans → Int.fmod (n * k) 3 = 0) : fmTruediv (fmMul m k) k = .ok m := by
  simp only [fmTruediv, fmMul, mapSpans_truediv_mul m.spans k hN hk h3]
  rw [Int.fdiv_eq_ediv_of_nonneg _ (Int.le_of_lt hk), Int.mul_ediv_cancel _ (by omega)]

/-! ### reversed_relative_to -/
theorem reversedRelativeTo_spec (s e L : Int) (r : Bool) (h1 : s ≤ e) (h2 : e ≤ L) :
    ∃ y, (FSp.span s e r).reversedRelativeTo L = .ok y ∧ coverSp y = (coverSp (.span s e r)).map (flip L) ∧
      (0 ≤ s → y.within L) := by
  have hm : ∀ b, mkSpan (L - e) (L - e + (e - s)) b = .span (L - e) (L - e + (e - s)) b := by
    intro b; unfold mkSpan; rw [if_neg (by omega)]
  refine ⟨mkSpan (L - e) (L - e + (e - s)) (!r), by simp only [FSp.reversedRelativeTo]; rw [if_pos (by omega)], ?_, ?_⟩
  · have hf := coverSp_flip L s e h1
    rw [hm] at hf
    cases r with
    | false =>
      simp only [Bool.not_false, hm]
      rw [coverSp_span_irange] at hf ⊢
      simp only [if_true, Bool.false_eq_true, if_false] at hf ⊢
      rw [hf]; simp
    | true =>
      simp only [Bool.not_true, hm]
      rw [hf]; simp [coverSp_span_irange]
  · intro h0; rw [hm]; simp only [FSp.within]; omega

/-! ### start / end / get_covering_span -/
def seStep (acc : Option (Int × Int)) (s : FSp) : Option (Int × Int) :=
  match s with
  | .lost _ => acc
  | .span a b _ => match acc with
    | none => some (a, b)
    | some (x, y) => some (min x a, max y b)

theorem startEnd_eq (m : FM) : startEnd m = m.spans.foldl seStep none := rfl

theorem foldl_seStep_some : ∀ (l : List FSp) (x y : Int), ∃ lo hi, l.foldl seStep (some (x, y)) = some (lo, hi) ∧
    lo ≤ x ∧ y ≤ hi ∧ (∀ s e r, FSp.span s e r ∈ l → lo ≤ s ∧ e ≤ hi) ∧
    (lo = x ∨ ∃ s e r, FSp.span s e r ∈ l ∧ lo = s) ∧ (hi = y ∨ ∃ s e r, FSp.span s e r ∈ l ∧ hi = e) := by
  intro l
  induction l with
  | nil => intro x y; exact ⟨x, y, rfl, by omega, by omega, by simp, Or.inl rfl, Or.inl rfl⟩
  | cons sp rest ih =>
    intro x y
    cases sp with
    | lost n =>
      obtain ⟨lo, hi, h, h1, h2, h3, h4, h5⟩ := ih x y
      refine ⟨lo, hi, by simpa [List.foldl, seStep] using h, h1, h2, ?_, ?_, ?_⟩
      · intro s e r hm; simp at hm; exact h3 s e r hm
      · rcases h4 with h4 | ⟨s, e, r, hm, h4⟩
        · exact Or.inl h4
        · exact Or.inr ⟨s, e, r, List.mem_cons_of_mem _ hm, h4⟩
      · rcases h5 with h5 | ⟨s, e, r, hm, h5⟩
        · exact Or.inl h5
        · exact Or.inr ⟨s, e, r, List.mem_cons_of_mem _ hm, h5⟩
    | span a b rv =>
      obtain ⟨lo, hi, h, h1, h2, h3, h4, h5⟩ := ih (min x a) (max y b)
      have e1 : lo ≤ x := Int.le_trans h1 (Int.min_le_left x a)
      have e2 : lo ≤ a := Int.le_trans h1 (Int.min_le_right x a)
      have e3 : y ≤ hi := Int.le_trans (Int.le_max_left y b) h2
      have e4 : b ≤ hi := Int.le_trans (Int.le_max_right y b) h2
      refine ⟨lo, hi, by simpa [List.foldl, seStep] using h, e1, e3, ?_, ?_, ?_⟩
      · intro s e r hm
        simp only [List.mem_cons] at hm
        rcases hm with hm | hm
        · injection hm with ha hb hc; subst ha; subst hb; exact ⟨e2, e4⟩
        · exact h3 s e r hm
      · clear h5
        rcases h4 with h4 | ⟨s, e, r, hm, h4⟩
        · by_cases hx : x ≤ a
          · left; rw [h4]; exact Int.min_eq_left hx
          · right; exact ⟨a, b, rv, List.mem_cons_self, by rw [h4]; exact Int.min_eq_right (by omega)⟩
        · exact Or.inr ⟨s, e, r, List.mem_cons_of_mem _ hm, h4⟩
      · clear h4
        rcases h5 with h5 | ⟨s, e, r, hm, h5⟩
        · by_cases hx : b ≤ y
          · left; rw [h5]; exact Int.max_eq_left hx
          · right; exact ⟨a, b, rv, List.mem_cons_self, by rw [h5]; exact Int.max_eq_right (by omega)⟩
        · exact Or.inr ⟨s, e, r, List.mem_cons_of_mem _ hm, h5⟩

theorem foldl_seStep_none : ∀ (l : List FSp), (∃ s e r, FSp.span s e r ∈ l) → ∃ lo hi, l.foldl seStep none = some (lo, hi) ∧
    (∀ s e r, FSp.span s e r ∈ l → lo ≤ s ∧ e ≤ hi) ∧
    (∃ s e r, FSp.span s e r ∈ l ∧ lo = s) ∧ (∃ s e r, FSp.span s e r ∈ l ∧ hi = e) := by
  intro l
  induction l with
  | nil => rintro ⟨s, e, r, h⟩; simp at h
  | cons sp rest ih =>
    rintro ⟨s0, e0, r0, h0⟩
    cases sp with
    | lost n =>
      simp only [List.mem_cons] at h0
      rcases h0 with h0 | h0
      · cases h0
      · obtain ⟨lo, hi, h, h3, ⟨s, e, r, hm, h4⟩, ⟨s', e', r', hm', h5⟩⟩ := ih ⟨s0, e0, r0, h0⟩
        refine ⟨lo, hi, by simpa [List.foldl, seStep] using h, ?_, ⟨s, e, r, List.mem_cons_of_mem _ hm, h4⟩,
          ⟨s', e', r', List.mem_cons_of_mem _ hm', h5⟩⟩
        intro s e r hm; simp at hm; exact h3 s e r hm
    | span a b rv =>
      obtain ⟨lo, hi, h, h1, h2, h3, h4, h5⟩ := foldl_seStep_some rest a b
      refine ⟨lo, hi, by simpa [List.foldl, seStep] using h, ?_, ?_, ?_⟩
      · intro s e r hm
        simp only [List.mem_cons] at hm
        rcases hm with hm | hm
        · injection hm with ha hb hc; subst ha; subst hb; exact ⟨h1, h2⟩
        · exact h3 s e r hm
      · rcases h4 with h4 | ⟨s, e, r, hm, h4⟩
        · exact ⟨a, b, rv, List.mem_cons_self, h4⟩
        · exact ⟨s, e, r, List.mem_cons_of_mem _ hm, h4⟩
      · rcases h5 with h5 | ⟨s, e, r, hm, h5⟩
        · exact ⟨a, b, rv, List.mem_cons_self, h5⟩
        · exact ⟨s, e, r, List.mem_cons_of_mem _ hm, h5⟩

theorem coveringSpan_spec (m : FM) (hw : Within m) (hne : ∃ s e r, FSp.span s e r ∈ m.spans) :
    ∃ lo hi, coveringSpan m = .ok ⟨[.span lo hi false], m.parentLength⟩ ∧ 0 ≤ lo ∧ lo ≤ hi ∧ hi ≤ m.parentLength ∧
      (∀ p, some p ∈ cover m → lo ≤ p ∧ p < hi) ∧
      (∃ s e r, FSp.span s e r ∈ m.spans ∧ lo = s) ∧ (∃ s e r, FSp.span s e r ∈ m.spans ∧ hi = e) := by
  obtain ⟨lo, hi, h, h3, ⟨s, e, r, hm, h4⟩, ⟨s', e', r', hm', h5⟩⟩ := foldl_seStep_none m.spans hne
  have w1 := hw _ hm; have w2 := hw _ hm'
  simp only [FSp.within] at w1 w2
  have b1 := h3 s e r hm; have b2 := h3 s' e' r' hm'
  refine ⟨lo, hi, ?_, by omega, by omega, by omega, ?_, ⟨s, e, r, hm, h4⟩, ⟨s', e', r', hm', h5⟩⟩
  · simp only [coveringSpan, fmStart, fmEnd, startEnd_eq, h, fromLocations, spansFromLocations, List.getLast?_singleton]
    rw [if_neg (by omega)]
    simp only [spansFromLocs]
    rw [if_neg (by omega), if_neg (by omega), if_neg (by omega)]
  · intro p hp
    rw [cover_eq_coverL, mem_coverL] at hp
    obtain ⟨a, b, rv, hab, hp1, hp2⟩ := hp
    have := h3 a b rv hab
    omega

end CogentModel.FMap
