import CogentModel.Proofs.GeneticCode
import CogentModel.Proofs.SeqWrap
/-!
# C12 — helper lemmas, second part: text beyond upper-case TCAG, collections, sequence objects (C01's wrapper model)
-/
namespace CogentModel.GC
open CogentModel.C12Tables

/-! generic association-list facts -/
theorem lookupD_not_mem {α β} [DecidableEq α] (kvs : List (α × β)) (k : α) (d : β)
    (h : k ∉ kvs.map Prod.fst) : lookupD kvs k d = d := by
  induction kvs with
  | nil => rfl
  | cons p r ih =>
    obtain ⟨a, b⟩ := p
    simp only [List.map_cons, List.mem_cons, not_or] at h
    simp only [lookupD]
    rw [if_neg (fun e => h.1 e.symm), ih h.2]

theorem dictGet_not_mem {α β} [DecidableEq α] (kvs : List (α × β)) (k : α) (d : β)
    (h : k ∉ kvs.map Prod.fst) : dictGet kvs k d = d := by
  unfold dictGet
  apply lookupD_not_mem
  simpa [List.map_reverse] using h

theorem find_not_mem {α β} [DecidableEq α] (kvs : List (α × β)) (k : α)
    (h : k ∉ kvs.map Prod.fst) : GCSpec.find kvs k = none := by
  induction kvs with
  | nil => rfl
  | cons p r ih =>
    obtain ⟨a, b⟩ := p
    simp only [List.map_cons, List.mem_cons, not_or] at h
    simp only [GCSpec.find]
    rw [if_neg (fun e => h.1 e.symm), ih h.2]

theorem fst_mem_of_zip {α β} (xs : List α) (ys : List β) (k : α) (h : k ∈ (xs.zip ys).map Prod.fst) : k ∈ xs := by
  simp only [List.mem_map] at h
  obtain ⟨⟨a, b⟩, hab, rfl⟩ := h
  exact (List.of_mem_zip hab).1

theorem mem_codons (x y z : Char) : [x, y, z] ∈ GCSpec.codons ↔ x ∈ GCSpec.bases ∧ y ∈ GCSpec.bases ∧ z ∈ GCSpec.bases := by
  simp only [GCSpec.codons, List.mem_flatMap, List.mem_map]
  constructor
  · rintro ⟨a, ha, b, hb, c, hc, h⟩
    simp only [List.cons.injEq, and_true] at h
    obtain ⟨rfl, rfl, rfl⟩ := h
    exact ⟨ha, hb, hc⟩
  · rintro ⟨hx, hy, hz⟩
    exact ⟨x, hx, y, hy, z, hz, rfl⟩

theorem codons_eq : product3 oldBases = GCSpec.codons := rfl

theorem upperChar_eq (c : Char) : upperChar c = GCSpec.asciiUpper c := rfl

theorem oldKey_eq (d : List Char) : oldKey d = d.map GCSpec.normOld := by
  unfold oldKey
  rw [List.map_map]
  apply List.map_congr_left
  intro c _
  show (if upperChar c = 'U' then 'T' else upperChar c) = GCSpec.normOld c
  unfold GCSpec.normOld
  rw [upperChar_eq]

/-- old `__getitem__` on ANY three characters -/
theorem old_getitem_general (seq : List Char)
    (h : ∀ a ∈ GCSpec.bases, ∀ b ∈ GCSpec.bases, ∀ c ∈ GCSpec.bases, oldGetItem seq [a, b, c] = GCSpec.aa seq [a, b, c])
    (a b c : Char) :
    oldGetItem seq [a, b, c] = GCSpec.aa seq [GCSpec.normOld a, GCSpec.normOld b, GCSpec.normOld c] := by
  by_cases hm : GCSpec.normOld a ∈ GCSpec.bases ∧ GCSpec.normOld b ∈ GCSpec.bases ∧ GCSpec.normOld c ∈ GCSpec.bases
  · have := h _ hm.1 _ hm.2.1 _ hm.2.2
    unfold oldGetItem at this ⊢
    rw [oldKey_eq] at this ⊢
    simp only [List.map_cons, List.map_nil] at this ⊢
    -- normalising is idempotent on canonical characters
    have idem : ∀ x ∈ GCSpec.bases, GCSpec.normOld x = x := by decide
    rw [idem _ hm.1, idem _ hm.2.1, idem _ hm.2.2] at this
    exact this
  · have hk : [GCSpec.normOld a, GCSpec.normOld b, GCSpec.normOld c] ∉ GCSpec.codons := by
      rw [mem_codons]; exact hm
    unfold oldGetItem GCSpec.aa GCSpec.table
    rw [oldKey_eq]
    simp only [List.map_cons, List.map_nil]
    rw [dictGet_not_mem _ _ _ (fun hh => hk (codons_eq ▸ fst_mem_of_zip _ _ _ hh)),
      find_not_mem _ _ (fun hh => hk (fst_mem_of_zip _ _ _ hh))]
    rfl

theorem old_chunks_general (seq : List Char)
    (h : ∀ a ∈ GCSpec.bases, ∀ b ∈ GCSpec.bases, ∀ c ∈ GCSpec.bases, oldGetItem seq [a, b, c] = GCSpec.aa seq [a, b, c]) :
    ∀ d : List Char, oldCodons seq d = GCSpec.translateOld seq d
  | [] => rfl
  | [_] => rfl
  | [_, _] => rfl
  | a :: b :: c :: r => by
    have ih := old_chunks_general seq h r
    unfold GCSpec.translateOld at ih ⊢
    simp only [oldCodons, List.map_cons, GCSpec.translate]
    rw [old_getitem_general seq h a b c, ih]


/-! ### new implementation on ANY text -/

/-- characters the byte-table model is faithful for: the six alphabet characters or an ASCII character whose byte
value cannot be mistaken for an index (6 ≤ code point < 128) -/
def PlainChar (c : Char) : Prop := c ∈ ['T', 'C', 'A', 'G', '-', '?'] ∨ (6 ≤ c.toNat ∧ c.toNat < 128)

theorem new_alpha (seq : List Char) : (mkNewGC newDna seq).alpha = ['T', 'C', 'A', 'G', '-', '?'] := rfl
theorem new_consts (seq : List Char) :
    (mkNewGC newDna seq).ns = 4 ∧ (mkNewGC newDna seq).gci = 4 ∧ (mkNewGC newDna seq).gi = 64 := ⟨rfl, rfl, rfl⟩

def mono6 (c : Char) : Nat := monoIdx ['T', 'C', 'A', 'G', '-', '?'] c

theorem mono6_eq (c : Char) : mono6 c =
    if '?' = c then 5 else if '-' = c then 4 else if 'G' = c then 3 else if 'A' = c then 2
    else if 'C' = c then 1 else if 'T' = c then 0 else c.toNat := rfl

theorem mono6_class (c : Char) (h : PlainChar c) :
    (c ∈ GCSpec.bases → mono6 c < 4) ∧ (c = '-' → mono6 c = 4) ∧ (c ∉ GCSpec.bases → c ≠ '-' → 5 ≤ mono6 c) := by
  rw [mono6_eq]
  by_cases h1 : '?' = c
  · subst h1; decide
  by_cases h2 : '-' = c
  · subst h2; decide
  by_cases h3 : 'G' = c
  · subst h3; decide
  by_cases h4 : 'A' = c
  · subst h4; decide
  by_cases h5 : 'C' = c
  · subst h5; decide
  by_cases h6 : 'T' = c
  · subst h6; decide
  simp only [h1, h2, h3, h4, h5, h6, if_false]
  have hnb : c ∉ GCSpec.bases := by
    simp only [GCSpec.bases, List.mem_cons, List.not_mem_nil, or_false, not_or]
    exact ⟨fun e => h6 e.symm, fun e => h5 e.symm, fun e => h4 e.symm, fun e => h3 e.symm⟩
  refine ⟨fun hb => absurd hb hnb, fun e => absurd e.symm h2, fun _ _ => ?_⟩
  rcases h with h | h
  · simp only [List.mem_cons, List.not_mem_nil, or_false] at h
    rcases h with h | h | h | h | h | h
    · exact absurd h.symm h6
    · exact absurd h.symm h5
    · exact absurd h.symm h4
    · exact absurd h.symm h3
    · exact absurd h.symm h2
    · exact absurd h.symm h1
  · omega

set_option maxRecDepth 100000 in
theorem plus_sentinels : ∀ code ∈ newCodes,
    (mkNewGC newDna code.2.1).plus 64 = '-' ∧ (mkNewGC newDna code.2.1).plus 65 = 'X' ∧
    (mkNewGC newDna code.2.1).minus 64 = '-' ∧ (mkNewGC newDna code.2.1).minus 65 = 'X' := by decide +kernel

theorem plusOf_eq (seq : List Char) (a b c : Char) :
    plusOf seq a b c = (mkNewGC newDna seq).plus (kmerIdx 4 4 64 (mono6 a) (mono6 b) (mono6 c)) := rfl

/-- one codon of arbitrary (plain) characters through the plus-strand converter -/
theorem plus_general (seq : List Char)
    (h : ∀ a ∈ GCSpec.bases, ∀ b ∈ GCSpec.bases, ∀ c ∈ GCSpec.bases, plusOf seq a b c = GCSpec.aa seq [a, b, c])
    (hs : (mkNewGC newDna seq).plus 64 = '-' ∧ (mkNewGC newDna seq).plus 65 = 'X')
    (a b c : Char) (ha : PlainChar a) (hb : PlainChar b) (hc : PlainChar c) :
    plusOf seq a b c = GCSpec.aaNew seq a b c := by
  obtain ⟨a1, a2, a3⟩ := mono6_class a ha
  obtain ⟨b1, b2, b3⟩ := mono6_class b hb
  obtain ⟨c1, c2, c3⟩ := mono6_class c hc
  unfold GCSpec.aaNew
  by_cases hall : a ∈ GCSpec.bases ∧ b ∈ GCSpec.bases ∧ c ∈ GCSpec.bases
  · rw [if_pos hall]; exact h a hall.1 b hall.2.1 c hall.2.2
  · rw [if_neg hall, plusOf_eq]
    by_cases hg : (a ∈ GCSpec.bases ∨ a = '-') ∧ (b ∈ GCSpec.bases ∨ b = '-') ∧ (c ∈ GCSpec.bases ∨ c = '-')
    · rw [if_pos hg]
      have ea : mono6 a ≤ 4 := by rcases hg.1 with x | x; exact Nat.le_of_lt (a1 x); exact Nat.le_of_eq (a2 x)
      have eb : mono6 b ≤ 4 := by rcases hg.2.1 with x | x; exact Nat.le_of_lt (b1 x); exact Nat.le_of_eq (b2 x)
      have ec : mono6 c ≤ 4 := by rcases hg.2.2 with x | x; exact Nat.le_of_lt (c1 x); exact Nat.le_of_eq (c2 x)
      have some4 : mono6 a = 4 ∨ mono6 b = 4 ∨ mono6 c = 4 := by
        by_cases xa : a ∈ GCSpec.bases
        · by_cases xb : b ∈ GCSpec.bases
          · have xc : c ∉ GCSpec.bases := fun xc => hall ⟨xa, xb, xc⟩
            exact Or.inr (Or.inr (c2 (hg.2.2.resolve_left xc)))
          · exact Or.inr (Or.inl (b2 (hg.2.1.resolve_left xb)))
        · exact Or.inl (a2 (hg.1.resolve_left xa))
      have hk : kmerIdx 4 4 64 (mono6 a) (mono6 b) (mono6 c) = 64 := by
        unfold kmerIdx
        have hmax : max (mono6 a) (max (mono6 b) (mono6 c)) = 4 := by omega
        have hnot : ¬ (mono6 a < 4 ∧ mono6 b < 4 ∧ mono6 c < 4) := by omega
        simp [hnot, hmax]
      rw [hk]; exact hs.1
    · rw [if_neg hg]
      have some5 : 5 ≤ mono6 a ∨ 5 ≤ mono6 b ∨ 5 ≤ mono6 c := by
        by_cases xa : a ∈ GCSpec.bases ∨ a = '-'
        · by_cases xb : b ∈ GCSpec.bases ∨ b = '-'
          · have xc : ¬ (c ∈ GCSpec.bases ∨ c = '-') := fun xc => hg ⟨xa, xb, xc⟩
            exact Or.inr (Or.inr (c3 (fun y => xc (Or.inl y)) (fun y => xc (Or.inr y))))
          · exact Or.inr (Or.inl (b3 (fun y => xb (Or.inl y)) (fun y => xb (Or.inr y))))
        · exact Or.inl (a3 (fun y => xa (Or.inl y)) (fun y => xa (Or.inr y)))
      have hk : kmerIdx 4 4 64 (mono6 a) (mono6 b) (mono6 c) = 65 := by
        unfold kmerIdx
        have hmax : max (mono6 a) (max (mono6 b) (mono6 c)) ≠ 4 := by omega
        have hnot : ¬ (mono6 a < 4 ∧ mono6 b < 4 ∧ mono6 c < 4) := by omega
        simp [hnot, hmax]
      rw [hk]; exact hs.2

def Plain (s : List Char) : Prop := ∀ c ∈ s, PlainChar c

instance (c : Char) : Decidable (PlainChar c) := by unfold PlainChar; exact inferInstance
instance (s : List Char) : Decidable (Plain s) := inferInstanceAs (Decidable (∀ c ∈ s, PlainChar c))

theorem plus_chunks_general (seq : List Char)
    (h : ∀ a ∈ GCSpec.bases, ∀ b ∈ GCSpec.bases, ∀ c ∈ GCSpec.bases, plusOf seq a b c = GCSpec.aa seq [a, b, c])
    (hs : (mkNewGC newDna seq).plus 64 = '-' ∧ (mkNewGC newDna seq).plus 65 = 'X') :
    ∀ d : List Char, Plain d → plusMap seq d = GCSpec.translateNew seq d
  | [], _ => rfl
  | [_], _ => rfl
  | [_, _], _ => rfl
  | a :: b :: c :: r, hd => by
    have ha := hd a (by simp)
    have hb := hd b (by simp)
    have hc := hd c (by simp)
    have hr : Plain r := fun x hx => hd x (by simp [hx])
    rw [plusMap_cons3, plus_general seq h hs a b c ha hb hc, plus_chunks_general seq h hs r hr]
    rfl

theorem translateNew_trunc3 (code : List Char) : ∀ d : List Char,
    GCSpec.translateNew code (trunc3 d) = GCSpec.translateNew code d
  | [] => rfl
  | [_] => rfl
  | [_, _] => rfl
  | a :: b :: c :: r => by
    rw [trunc3_cons3]
    simp only [GCSpec.translateNew]
    rw [translateNew_trunc3 code r]

theorem new_translate_plus_general (seq : List Char)
    (h : ∀ a ∈ GCSpec.bases, ∀ b ∈ GCSpec.bases, ∀ c ∈ GCSpec.bases, plusOf seq a b c = GCSpec.aa seq [a, b, c])
    (hs : (mkNewGC newDna seq).plus 64 = '-' ∧ (mkNewGC newDna seq).plus 65 = 'X')
    (s : List Char) (start : Nat) (hp : Plain s) :
    newTranslate newDna seq s start false = GCSpec.translateNew seq (s.drop start) := by
  have hd1 : (if start ≠ 0 then s.drop start else s) = s.drop start := by
    split
    · rfl
    · rename_i h0; have : start = 0 := by omega
      simp [this]
  have hw := byteWidth_words seq
  show ((toIndices _ _ _ ((trunc3 (if start ≠ 0 then s.drop start else s)).map _)).flatMap
      (leBytes (byteWidth (mkNewGC newDna seq).words.length))).map _ = _
  rw [hd1, hw, flatMap_leBytes_one]
  have hpd : Plain (trunc3 (s.drop start)) := by
    intro c hc
    rw [trunc3_eq_take] at hc
    exact hp c (List.mem_of_mem_drop (List.mem_of_mem_take hc))
  have := plus_chunks_general seq h hs (trunc3 (s.drop start)) hpd
  rw [translateNew_trunc3] at this
  exact this


/-! ## complement tables on every character; the sequence wrapper of C01 -/
/-- the old complement table (`str.translate`) is an involution on EVERY character: the keys are closed under the
table, it is an involution on them, and every other character is left alone -/
theorem old_compl_invol_all (mt : MT)
    (hk : ∀ k ∈ mt.compl.map Prod.fst, oldComplChar mt (oldComplChar mt k) = k) (x : Char) :
    oldComplChar mt (oldComplChar mt x) = x := by
  by_cases hx : x ∈ mt.compl.map Prod.fst
  · exact hk x hx
  · have : oldComplChar mt x = x := dictGet_not_mem _ _ _ hx
    rw [this, this]

theorem new_compl_invol_all (mt : MT)
    (hk : ∀ k ∈ newDegenGapped mt, newComplChar mt (newComplChar mt k) = k) (x : Char) :
    newComplChar mt (newComplChar mt x) = x := by
  by_cases hx : x ∈ newDegenGapped mt
  · exact hk x hx
  · have : newComplChar mt x = x := by
      apply dictGet_not_mem
      simpa [List.map_map, Function.comp_def] using hx
    rw [this, this]

theorem compl_keys_invol :
    (∀ k ∈ oldDna.compl.map Prod.fst, oldComplChar oldDna (oldComplChar oldDna k) = k) ∧
    (∀ k ∈ oldRna.compl.map Prod.fst, oldComplChar oldRna (oldComplChar oldRna k) = k) ∧
    (∀ k ∈ newDegenGapped newDna, newComplChar newDna (newComplChar newDna k) = k) ∧
    (∀ k ∈ newDegenGapped newRna, newComplChar newRna (newComplChar newRna k) = k) := by decide +kernel

theorem specRc_eq_oldRc (mt : MT) (t : List Char) : SeqWrap.specRc (oldComplChar mt) t = oldRc mt t := by
  simp [SeqWrap.specRc, oldRc, oldComplement, List.map_reverse]

theorem specRc_eq_newRc (mt : MT) (t : List Char) : SeqWrap.specRc (newComplChar mt) t = newRc mt t := by
  simp [SeqWrap.specRc, newRc, newComplement, List.map_reverse]

/-- sequence OBJECT level: the string displayed by `seq.rc()` is the moltype-level reverse complement of the string
displayed by `seq`, for any view (sliced, strided, already reversed), and `rc().rc()` displays the original -/
theorem seq_rc_old (mt : MT) (hk : ∀ k ∈ mt.compl.map Prod.fst, oldComplChar mt (oldComplChar mt k) = k)
    (s : SeqWrap.Seq) (h : SeqWrap.WF s) (hn : s.nucleic = true) :
    SeqWrap.str (oldComplChar mt) (SeqWrap.rc s) = oldRc mt (SeqWrap.str (oldComplChar mt) s) ∧
    SeqWrap.str (oldComplChar mt) (SeqWrap.rc (SeqWrap.rc s)) = SeqWrap.str (oldComplChar mt) s := by
  have hc := old_compl_invol_all mt hk
  exact ⟨by rw [SeqWrap.str_rc' _ hc s h hn, specRc_eq_oldRc], SeqWrap.rc_rc' _ hc s h hn⟩

/-! ## collections -/

/-- rows of a codon alignment / collection: canonical, non-empty, length a multiple of three -/
def CodonRows (rows : List (List Char)) : Prop := ∀ r ∈ rows, Canon r ∧ r ≠ [] ∧ r.length % 3 = 0

instance (rows : List (List Char)) : Decidable (CodonRows rows) :=
  inferInstanceAs (Decidable (∀ r ∈ rows, Canon r ∧ r ≠ [] ∧ r.length % 3 = 0))

def endsWithStop (seq : List Char) (r : List Char) : Bool := (GCSpec.translate seq r).getLast? == some '*'

/-- what trimming a terminal stop means on a plain string -/
def specTrimRow (seq : List Char) (r : List Char) : List Char :=
  if endsWithStop seq r then r.take (r.length - 3) else r

theorem mapM_ok {α β} (f : α → β) : ∀ xs : List α, xs.mapM (fun x => (Except.ok (f x) : Except Err β)) = .ok (xs.map f)
  | [] => rfl
  | x :: xs => by
    simp only [List.mapM_cons, List.map_cons, bind, Except.bind, mapM_ok f xs, pure, Except.pure]

theorem mapM_congr' {α β} (f g : α → Except Err β) : ∀ xs : List α, (∀ x ∈ xs, f x = g x) → xs.mapM f = xs.mapM g
  | [], _ => rfl
  | x :: xs, h => by
    simp only [List.mapM_cons]
    rw [h x (by simp), mapM_congr' f g xs (fun y hy => h y (by simp [hy]))]

theorem has_terminal_stop_row (seq : List Char) (getItem : List Char → Char)
    (hget : ∀ a ∈ GCSpec.bases, ∀ b ∈ GCSpec.bases, ∀ c ∈ GCSpec.bases, getItem [a, b, c] = GCSpec.aa seq [a, b, c])
    (r : List Char) (hc : Canon r) (hne : r ≠ []) (h3 : r.length % 3 = 0) (strict : Bool) :
    hasTerminalStop getItem r strict = .ok (endsWithStop seq r) := by
  obtain ⟨hl, hsplit⟩ := translate_split_last seq r h3 hne
  obtain ⟨a, b, c, habc, ha, hb, hcc⟩ := lastN3_canon hc hl
  have hlast : (GCSpec.translate seq r).getLast? = some (GCSpec.aa seq [a, b, c]) := by
    rw [hsplit, habc]; simp [GCSpec.translate]
  unfold hasTerminalStop endsWithStop
  simp only [h3, if_true, isStopEnd, habc, List.length_cons, List.length_nil, hget a ha b hb c hcc, hlast]
  by_cases hstop : GCSpec.aa seq [a, b, c] = '*' <;> simp [hstop]

theorem coll_has_terminal_stop' (seq : List Char) (getItem : List Char → Char)
    (hget : ∀ a ∈ GCSpec.bases, ∀ b ∈ GCSpec.bases, ∀ c ∈ GCSpec.bases, getItem [a, b, c] = GCSpec.aa seq [a, b, c])
    (strict : Bool) : ∀ rows : List (List Char), CodonRows rows →
    collHasTerminalStop getItem rows strict = .ok (rows.any (endsWithStop seq))
  | [], _ => rfl
  | r :: rs, h => by
    obtain ⟨hc, hne, h3⟩ := h r (by simp)
    have ih := coll_has_terminal_stop' seq getItem hget strict rs (fun x hx => h x (by simp [hx]))
    simp only [collHasTerminalStop, has_terminal_stop_row seq getItem hget r hc hne h3 strict, List.any_cons]
    cases hE : endsWithStop seq r <;> simp [ih]

theorem trim_row (seq : List Char) (getItem : List Char → Char)
    (hget : ∀ a ∈ GCSpec.bases, ∀ b ∈ GCSpec.bases, ∀ c ∈ GCSpec.bases, getItem [a, b, c] = GCSpec.aa seq [a, b, c])
    (r : List Char) (hc : Canon r) (hne : r ≠ []) (h3 : r.length % 3 = 0) (strict : Bool) :
    trimStopCodon getItem r strict = .ok (specTrimRow seq r) := by
  rw [trim_stop_spec seq getItem hget r hc hne strict]
  simp only [h3, if_true, specTrimRow, endsWithStop]
  by_cases hs : (GCSpec.translate seq r).getLast? = some '*' <;> simp [hs]

theorem coll_trim' (seq : List Char) (getItem : List Char → Char)
    (hget : ∀ a ∈ GCSpec.bases, ∀ b ∈ GCSpec.bases, ∀ c ∈ GCSpec.bases, getItem [a, b, c] = GCSpec.aa seq [a, b, c])
    (strict : Bool) (rows : List (List Char)) (h : CodonRows rows) :
    collTrimStopCodons getItem rows strict = .ok (rows.map (specTrimRow seq)) := by
  unfold collTrimStopCodons
  rw [coll_has_terminal_stop' seq getItem hget strict rows h]
  cases hany : rows.any (endsWithStop seq)
  · -- no row has a terminal stop: the collection is returned as it is, which is the row-wise result too
    simp only
    congr 1
    symm
    rw [List.map_congr_left (g := id)]
    · simp
    · intro r hr
      have : endsWithStop seq r = false := by
        rw [List.any_eq_false] at hany
        simpa using hany r hr
      simp [specTrimRow, this]
  · simp only
    rw [mapM_congr' _ (fun r => .ok (specTrimRow seq r)) rows
      (fun r hr => trim_row seq getItem hget r (h r hr).1 (h r hr).2.1 (h r hr).2.2 strict), mapM_ok]


/-- the specification's row-wise collection translation -/
def specCollTranslation (seq : List Char) (rows : List (List Char)) (io is_ ts : Bool) : Except Err (List (List Char)) :=
  rows.mapM fun r => outcomeToExcept (GCSpec.getTranslation seq r io is_ ts)

theorem new_coll_rowwise (seq : List Char)
    (hplus : ∀ a ∈ GCSpec.bases, ∀ b ∈ GCSpec.bases, ∀ c ∈ GCSpec.bases, plusOf seq a b c = GCSpec.aa seq [a, b, c])
    (hget : ∀ a ∈ GCSpec.bases, ∀ b ∈ GCSpec.bases, ∀ c ∈ GCSpec.bases,
      newGetItem newDna seq [a, b, c] = GCSpec.aa seq [a, b, c])
    (hng : ∀ a ∈ GCSpec.bases, ∀ b ∈ GCSpec.bases, ∀ c ∈ GCSpec.bases,
      GCSpec.aa seq [a, b, c] ≠ '-' ∧ GCSpec.aa seq [a, b, c] ≠ 'X')
    (rows : List (List Char)) (h : ∀ r ∈ rows, Canon r ∧ r ≠ []) (io is_ ts : Bool) :
    newCollGetTranslation newDna seq rows io is_ ts = specCollTranslation seq rows io is_ ts :=
  mapM_congr' _ _ rows fun r hr => new_stop_rules seq hplus hget hng r (h r hr).1 (h r hr).2 io is_ ts

/-- the specification does not look at `incomplete_ok` when the length is a multiple of three -/
theorem spec_io_irrelevant (seq : List Char) (r : List Char) (h3 : r.length % 3 = 0) (io io' is_ ts : Bool) :
    GCSpec.getTranslation seq r io is_ ts = GCSpec.getTranslation seq r io' is_ ts := by
  unfold GCSpec.getTranslation
  simp [h3]

theorem canon_specTrimRow {seq r : List Char} (h : Canon r) : Canon (specTrimRow seq r) := by
  unfold specTrimRow; split
  · exact canon_take h _
  · exact h

/-- old `SequenceCollection.get_translation` is row-wise the specification (not for `include_stop = trim_stop = True`;
a row that is nothing but a stop codon would become empty and is excluded) -/
theorem old_coll_rowwise (seq : List Char)
    (hget : ∀ a ∈ GCSpec.bases, ∀ b ∈ GCSpec.bases, ∀ c ∈ GCSpec.bases, oldGetItem seq [a, b, c] = GCSpec.aa seq [a, b, c])
    (rows : List (List Char)) (h : CodonRows rows) (io is_ ts : Bool) (hopt : ¬ (is_ = true ∧ ts = true))
    (hlen : ∀ r ∈ rows, endsWithStop seq r = true → 3 < r.length) :
    oldCollGetTranslation seq rows io is_ ts = specCollTranslation seq rows io is_ ts := by
  unfold oldCollGetTranslation specCollTranslation
  by_cases hpre : (ts && !is_) = true
  · -- pre-pass runs: is_ = false, ts = true
    have hts : ts = true := by cases ts <;> simp_all
    have his : is_ = false := by cases is_ <;> simp_all
    subst hts; subst his
    simp only [Bool.not_false, Bool.and_self, if_true, coll_trim' seq (oldGetItem seq) hget (!io) rows h,
      coll_has_terminal_stop' seq (oldGetItem seq) hget (!io) rows h, Bool.true_and]
    rw [List.mapM_map]
    apply mapM_congr'
    intro r hr
    obtain ⟨hc, hne, h3⟩ := h r hr
    cases hany : rows.any (endsWithStop seq)
    · -- no row has a terminal stop: `seqs is self`, every row is translated with trim_stop=True
      have hE : endsWithStop seq r = false := by
        rw [List.any_eq_false] at hany
        simpa using hany r hr
      have : specTrimRow seq r = r := by simp [specTrimRow, hE]
      show oldSeqGetTranslation seq (specTrimRow seq r) true false true = _
      rw [this, old_stop_rules seq hget r hc hne true false true (by simp), spec_io_irrelevant seq r h3 true io]
    · -- some row was trimmed: the per-row call no longer trims
      show oldSeqGetTranslation seq (specTrimRow seq r) true false false = _
      cases hE : endsWithStop seq r
      · have : specTrimRow seq r = r := by simp [specTrimRow, hE]
        have e1 : ¬ ((GCSpec.translate seq r).getLast? = some '*') := by
          simpa [endsWithStop] using hE
        rw [this, old_stop_rules seq hget r hc hne true false false (by simp)]
        unfold GCSpec.getTranslation
        simp [h3, e1]
      · have hlen' := hlen r hr hE
        have htr : specTrimRow seq r = r.take (r.length - 3) := by simp [specTrimRow, hE]
        have hc2 : Canon (r.take (r.length - 3)) := canon_take hc _
        have hne2 : r.take (r.length - 3) ≠ [] := by
          intro e
          have := congrArg List.length e
          rw [List.length_take] at this; simp at this; omega
        have h32 : (r.take (r.length - 3)).length % 3 = 0 := by rw [List.length_take]; omega
        rw [htr, old_stop_rules seq hget _ hc2 hne2 true false false (by simp)]
        obtain ⟨hl, hsplit⟩ := translate_split_last seq r h3 hne
        have hdl : GCSpec.translate seq (r.take (r.length - 3)) = (GCSpec.translate seq r).dropLast := by
          obtain ⟨a, b, c, habc, _, _, _⟩ := lastN3_canon hc hl
          rw [hsplit, habc]; simp [GCSpec.translate]
        have e1 : (GCSpec.translate seq r).getLast? = some '*' := by
          simpa [endsWithStop] using hE
        unfold GCSpec.getTranslation
        simp [h3, h32, hdl, e1]
  · have hpre' : (ts && !is_) = false := by simpa using hpre
    simp only [hpre', Bool.false_eq_true, if_false]
    apply mapM_congr'
    intro r hr
    obtain ⟨hc, hne, h3⟩ := h r hr
    show oldSeqGetTranslation seq r true is_ ts = _
    rw [old_stop_rules seq hget r hc hne true is_ ts hopt, spec_io_irrelevant seq r h3 true io]


/-- `AlignmentI.trim_stop_codons` row by row: a terminal stop becomes three gap characters, rows keep their length -/
def specAlnTrimRow (seq : List Char) (r : List Char) : List Char :=
  if endsWithStop seq r then r.take (r.length - 3) ++ ['-', '-', '-'] else r

theorem aln_trim_row (seq : List Char) (getItem : List Char → Char)
    (hget : ∀ a ∈ GCSpec.bases, ∀ b ∈ GCSpec.bases, ∀ c ∈ GCSpec.bases, getItem [a, b, c] = GCSpec.aa seq [a, b, c])
    (r : List Char) (hc : Canon r) (hne : r ≠ []) (h3 : r.length % 3 = 0) :
    alnTrimRow getItem r = specAlnTrimRow seq r := by
  obtain ⟨hl, hsplit⟩ := translate_split_last seq r h3 hne
  obtain ⟨a, b, c, habc, ha, hb, hcc⟩ := lastN3_canon hc hl
  have hlast : (GCSpec.translate seq r).getLast? = some (GCSpec.aa seq [a, b, c]) := by
    rw [hsplit, habc]; simp [GCSpec.translate]
  have hlen : 3 ≤ r.length := by
    cases r with
    | nil => exact absurd rfl hne
    | cons x xs => simp at h3 ⊢; omega
  unfold alnTrimRow specAlnTrimRow endsWithStop
  simp only [hlen, true_and, habc, hget a ha b hb c hcc, hlast]
  by_cases hstop : GCSpec.aa seq [a, b, c] = '*' <;> simp [hstop]

theorem aln_trim' (seq : List Char) (getItem : List Char → Char)
    (hget : ∀ a ∈ GCSpec.bases, ∀ b ∈ GCSpec.bases, ∀ c ∈ GCSpec.bases, getItem [a, b, c] = GCSpec.aa seq [a, b, c])
    (strict : Bool) (rows : List (List Char)) (h : CodonRows rows) :
    alnTrimStopCodons getItem rows strict = .ok (rows.map (specAlnTrimRow seq)) := by
  unfold alnTrimStopCodons
  rw [coll_has_terminal_stop' seq getItem hget strict rows h]
  cases hany : rows.any (endsWithStop seq)
  · simp only
    congr 1
    symm
    rw [List.map_congr_left (g := id)]
    · simp
    · intro r hr
      have : endsWithStop seq r = false := by
        rw [List.any_eq_false] at hany
        simpa using hany r hr
      simp [specAlnTrimRow, this]
  · simp only
    congr 1
    exact List.map_congr_left fun r hr => aln_trim_row seq getItem hget r (h r hr).1 (h r hr).2.1 (h r hr).2.2

end CogentModel.GC
