import CogentModel.Proofs.IndelMapAddAux
namespace CogentModel.IndelMap
open CogentModel.Gapped List CogentModel

theorem pattern_abs_G (m : IMap) : pattern (abs m) = patG 0 (zip m.gapPos (diffsFrom 0 m.cumLens)) m.parentLength :=
  pattern_absFrom_G m.gapPos m.cumLens 0 0 m.parentLength

theorem cum_nil_of_gp_nil (m : IMap) (h : WF m) (hg : m.gapPos = []) : m.cumLens = [] := by
  have hl := h.len_eq; rw [hg] at hl
  cases hc : m.cumLens with | nil => rfl | cons x xs => rw [hc] at hl; simp at hl

theorem cum_pos (m : IMap) (h : WF m) : ∀ c ∈ m.cumLens, 0 < c :=
  fun c hc => (pairwise_cons.mp h.cum_sorted).1 c hc

theorem cum_le_last (m : IMap) (h : WF m) : ∀ c ∈ m.cumLens, c ≤ lastOr 0 m.cumLens := by
  intro c hc
  have hne : m.cumLens ≠ [] := by intro hn; rw [hn] at hc; simp at hc
  rw [lastOr_eq_lastD 0 _ hne]
  exact pairwise_le_lastD _ (pairwise_cons.mp h.cum_sorted).2 c hc

/-- general shape of the result of `add`: WF and denotation from the parts -/
theorem add_result (a b : IMap) (ha : WF a) (hb : WF b) (P C : List Int)
    (hlen : P.length = C.length)
    (hP : P.Pairwise (· < ·)) (hC : (0 :: C).Pairwise (· < ·))
    (hr : ∀ p ∈ P, 0 ≤ p ∧ p ≤ a.parentLength + b.parentLength)
    (hpat : patG 0 (zip P (diffsFrom 0 C)) (a.parentLength + b.parentLength) =
      patG 0 (zip a.gapPos (diffsFrom 0 a.cumLens)) a.parentLength ++
      patG 0 (zip b.gapPos (diffsFrom 0 b.cumLens)) b.parentLength) :
    mk P C (a.parentLength + b.parentLength) = .ok ⟨P, C, a.parentLength + b.parentLength⟩ ∧
    WF ⟨P, C, a.parentLength + b.parentLength⟩ ∧
    abs ⟨P, C, a.parentLength + b.parentLength⟩ = Gapped.concat (abs a) (abs b) := by
  have hwf : WF ⟨P, C, a.parentLength + b.parentLength⟩ :=
    ⟨by have := ha.pl_nonneg; have := hb.pl_nonneg; show 0 ≤ a.parentLength + b.parentLength; omega, hlen, hP, hC, hr⟩
  refine ⟨?_, hwf, ?_⟩
  · unfold mk
    rw [if_neg (by omega), if_neg]
    intro ⟨hne, hgt⟩
    have := (hr _ (lastD_mem _ hne)).2
    omega
  · rw [abs_eq_ofPattern _ hwf]
    unfold Gapped.concat
    congr 1
    rw [pattern_abs_G, pattern_abs_G a, pattern_abs_G b]
    exact hpat

theorem add_spec_nomerge (a b : IMap) (ha : WF a) (hb : WF b)
    (hm : ¬ (a.gapPos ≠ [] ∧ b.gapPos ≠ [] ∧ lastD a.gapPos = a.parentLength ∧ b.gapPos.headD 0 = 0)) :
    ∃ r, add a b = .ok r ∧ WF r ∧ abs r = Gapped.concat (abs a) (abs b) := by
  have hla := ha.len_eq
  have hlb := hb.len_eq
  have hcl : (if a.gapPos = [] then 0 else lastD a.cumLens) = lastOr 0 a.cumLens := by
    by_cases hg : a.gapPos = []
    · rw [if_pos hg, cum_nil_of_gp_nil a ha hg]; rfl
    · rw [if_neg hg]
      have : a.cumLens ≠ [] := by intro hn; rw [hn] at hla; exact hg (length_eq_zero_iff.mp hla)
      exact (lastOr_eq_lastD 0 _ this).symm
  unfold add
  simp only [hm, decide_false, Bool.false_eq_true, if_false, hcl]
  generalize hclv : lastOr 0 a.cumLens = cl
  have hres := add_result a b ha hb (a.gapPos ++ b.gapPos.map (a.parentLength + ·))
    (a.cumLens ++ b.cumLens.map (cl + ·)) (by simp [hla, hlb]) ?_ ?_ ?_ ?_
  · exact ⟨_, hres.1, hres.2.1, hres.2.2⟩
  · -- positions strictly increase
    rw [pairwise_append]
    refine ⟨ha.pos_sorted, hb.pos_sorted.map _ (fun x y hxy => by omega), ?_⟩
    intro x hx y hy
    obtain ⟨q, hq, rfl⟩ := mem_map.mp hy
    have hxr := ha.pos_range x hx
    have hqr := hb.pos_range q hq
    by_cases hxl : x < a.parentLength
    · omega
    · by_cases hq0 : 0 < q
      · omega
      · exfalso
        apply hm
        have hane : a.gapPos ≠ [] := by intro hn; rw [hn] at hx; simp at hx
        have hbne : b.gapPos ≠ [] := by intro hn; rw [hn] at hq; simp at hq
        refine ⟨hane, hbne, ?_, ?_⟩
        · have h1 := pairwise_le_lastD _ ha.pos_sorted x hx
          have h2 := (ha.pos_range _ (lastD_mem _ hane)).2
          omega
        · cases hgb : b.gapPos with
          | nil => exact absurd hgb hbne
          | cons p ps =>
            rw [hgb] at hq
            have hp0 := (hb.pos_range p (by rw [hgb]; simp)).1
            have hsorted := hb.pos_sorted
            rw [hgb] at hsorted
            rcases mem_cons.mp hq with rfl | hq'
            · simp only [headD_cons]; omega
            · have := (pairwise_cons.mp hsorted).1 q hq'; simp only [headD_cons]; omega
  · -- cumulative lengths strictly increase
    rw [← cons_append, pairwise_append]
    refine ⟨ha.cum_sorted, (pairwise_cons.mp hb.cum_sorted).2.map _ (fun x y hxy => by omega), ?_⟩
    intro x hx y hy
    obtain ⟨c, hc, rfl⟩ := mem_map.mp hy
    have hcp := cum_pos b hb c hc
    rcases mem_cons.mp hx with rfl | hx'
    · have : 0 ≤ cl := by
        rw [← hclv]
        cases hca : a.cumLens with
        | nil => simp [lastOr]
        | cons z zs =>
          have := cum_pos a ha (lastOr 0 a.cumLens) (by rw [lastOr_eq_lastD 0 _ (by rw [hca]; simp)]; exact lastD_mem _ (by rw [hca]; simp))
          rw [hca] at this; omega
      omega
    · have := cum_le_last a ha x hx'; omega
  · intro p hp
    have hpa := ha.pl_nonneg
    have hpb := hb.pl_nonneg
    rcases mem_append.mp hp with h1 | h1
    · have := ha.pos_range p h1; omega
    · obtain ⟨q, hq, rfl⟩ := mem_map.mp h1
      have := hb.pos_range q hq; omega
  · rw [diffsFrom_append, hclv]
    have := diffsFrom_map_add b.cumLens cl 0
    simp only [Int.add_zero] at this
    rw [this, zip_append (by simp [diffsFrom_length, hla]), zip_shift]
    exact patG_append a.parentLength b.parentLength hb.pl_nonneg _
      (fun g hg => (hb.pos_range g.1 (by have := (of_mem_zip hg).1; exact this)).1) _ 0 ha.pl_nonneg
      (fun g hg => (ha.pos_range g.1 ((of_mem_zip hg).1)).2)

end CogentModel.IndelMap
