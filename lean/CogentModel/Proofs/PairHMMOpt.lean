/-
  C18 helper lemmas, part 3: no path scores above the table value (Bellman upper bound).
-/
import CogentModel.Proofs.PairHMMTable
namespace CogentModel.PairHMM
set_option linter.unusedSectionVars false

variable {S : Type} [Add S] [LT S] [DecidableLT S]

/-- value / pointer stored for state `s` in cell `(i, j)` -/
def val (h : HMM S) (loc : Bool) (m i j s : Nat) : Option S := ((V h loc m i j).getD (s - 1) (none, h.errId)).1
def ptr (h : HMM S) (loc : Bool) (m i j s : Nat) : Nat := ((V h loc m i j).getD (s - 1) (none, h.errId)).2

/-- every cell a path enters is one the kernel computes (always true for global alignment) -/
def cellsOK (h : HMM S) (loc : Bool) : Nat → Nat → List Nat → Prop
  | _, _, [] => True
  | i, j, s :: p =>
    cellOK loc (i + (h.dir s).1.toNat) (j + (h.dir s).2.toNat) = true ∧
      cellsOK h loc (i + (h.dir s).1.toNat) (j + (h.dir s).2.toNat) p

theorem cellsOK_global (h : HMM S) (i j : Nat) (p : List Nat) : cellsOK h false i j p := by
  induction p generalizing i j with
  | nil => trivial
  | cons s p ih => exact ⟨rfl, ih _ _⟩

theorem consumed_mono (h : HMM S) (i j : Nat) (p : List Nat) :
    i ≤ (consumedFrom h i j p).1 ∧ j ≤ (consumedFrom h i j p).2 := by
  induction p generalizing i j with
  | nil => exact ⟨Nat.le_refl _, Nat.le_refl _⟩
  | cons s p ih =>
    have := ih (i + (h.dir s).1.toNat) (j + (h.dir s).2.toNat)
    simp only [consumedFrom]
    omega

theorem entry_eq (h : HMM S) (loc : Bool) (m i j s : Nat) (hj : j ≤ m) (hs1 : 1 ≤ s) (hsk : s ≤ h.k)
    (hd : ((h.dir s).1 || (h.dir s).2) = true) (dflt : Option S × Nat) :
    (V h loc m i j).getD (s - 1) dflt =
      if cellOK loc i j then
        cellEntry h loc i j s (h.dir s) (V h loc m (i - (h.dir s).1.toNat) (j - (h.dir s).2.toNat))
      else (none, 0) := by
  have e : s - 1 + 1 = s := by omega
  have := V_entry h loc m i j hj (s - 1) (by omega) (by rw [e]; exact hd) dflt
  rw [e] at this
  exact this

variable [ScoreLaws S]

theorem val_getElem (h : HMM S) (loc : Bool) (m i j s : Nat) (hj : j ≤ m) (hs1 : 1 ≤ s) (hsk : s ≤ h.k)
    (hl : s - 1 < (V h loc m i j).length) : ((V h loc m i j)[s - 1]).1 = val h loc m i j s := by
  simp [val, List.getD_eq_getElem?_getD, hl]

/-- extending a path by one state cannot beat the table -/
theorem step_le (h : HMM S) (loc : Bool) (m i j prev s : Nat)
    (hp1 : 1 ≤ prev) (hpk : prev ≤ h.k) (hs1 : 1 ≤ s) (hsk : s ≤ h.k)
    (hd : ((h.dir s).1 || (h.dir s).2) = true)
    (hj : j + (h.dir s).2.toNat ≤ m)
    (hok : cellOK loc (i + (h.dir s).1.toNat) (j + (h.dir s).2.toNat) = true) :
    ele (eadd (eadd (val h loc m i j prev) (h.T prev s)) (h.em s (i + (h.dir s).1.toNat) (j + (h.dir s).2.toNat)))
      (val h loc m (i + (h.dir s).1.toNat) (j + (h.dir s).2.toNat) s) := by
  have hjm : j ≤ m := by omega
  have hl : prev - 1 < (V h loc m i j).length := by rw [V_length h loc m i j hjm]; omega
  unfold val
  rw [entry_eq h loc m _ _ s hj hs1 hsk hd, if_pos hok]
  simp only [cellEntry, Nat.add_sub_cancel]
  rw [if_neg (by omega)]
  apply eadd_mono
  have := bestPrev_ge_cand h.T s (V h loc m i j) 1
    (if canStart loc i j (h.dir s) then (h.T 0 s, 0) else (none, h.errId)) (prev - 1) hl
  rw [show 1 + (prev - 1) = prev by omega, val_getElem h loc m i j prev hjm hp1 hpk hl] at this
  exact this

/-- starting a path cannot beat the table -/
theorem start_le (h : HMM S) (loc : Bool) (m i j s : Nat) (hs1 : 1 ≤ s) (hsk : s ≤ h.k)
    (hd : ((h.dir s).1 || (h.dir s).2) = true)
    (hj : j + (h.dir s).2.toNat ≤ m)
    (hok : cellOK loc (i + (h.dir s).1.toNat) (j + (h.dir s).2.toNat) = true)
    (hst : canStart loc i j (h.dir s) = true) :
    ele (eadd (h.T 0 s) (h.em s (i + (h.dir s).1.toNat) (j + (h.dir s).2.toNat)))
      (val h loc m (i + (h.dir s).1.toNat) (j + (h.dir s).2.toNat) s) := by
  unfold val
  rw [entry_eq h loc m _ _ s hj hs1 hsk hd, if_pos hok]
  simp only [cellEntry, Nat.add_sub_cancel]
  rw [if_neg (by omega), if_pos hst]
  apply eadd_mono
  exact bestPrev_ge_init h.T s (V h loc m i j) 1 (h.T 0 s, 0)

theorem lastState_cons_cons (a b : Nat) (p : List Nat) : lastState (a :: b :: p) = lastState (b :: p) := rfl

/-- Bellman upper bound along a path -/
theorem scoreFrom_le (h : HMM S) (loc : Bool) (m : Nat) (p : List Nat) :
    ∀ (prev i j : Nat) (acc : Option S), statesOK h p → 1 ≤ prev → prev ≤ h.k →
      ele acc (val h loc m i j prev) → (consumedFrom h i j p).2 ≤ m → cellsOK h loc i j p →
      ele (scoreFrom h prev i j acc p)
        (val h loc m (consumedFrom h i j p).1 (consumedFrom h i j p).2 (lastState (prev :: p))) := by
  induction p with
  | nil => intro prev i j acc _ _ _ hacc _ _; exact hacc
  | cons s p ih =>
    intro prev i j acc hst hp1 hpk hacc hm hok
    have hs := hst s (List.mem_cons_self)
    have hst' : statesOK h p := fun x hx => hst x (List.mem_cons_of_mem _ hx)
    simp only [consumedFrom] at hm ⊢
    have hmono := consumed_mono h (i + (h.dir s).1.toNat) (j + (h.dir s).2.toNat) p
    simp only [scoreFrom, lastState_cons_cons]
    apply ih s _ _ _ hst' hs.1 hs.2.1 _ hm hok.2
    refine ele_trans ?_ (step_le h loc m i j prev s hp1 hpk hs.1 hs.2.1 hs.2.2 (by omega) hok.1)
    exact eadd_mono _ (eadd_mono _ hacc)

theorem prefixScore_le (h : HMM S) (loc : Bool) (m i0 j0 s : Nat) (p : List Nat)
    (hst : statesOK h (s :: p)) (hstart : canStart loc i0 j0 (h.dir s) = true)
    (hm : (consumedFrom h i0 j0 (s :: p)).2 ≤ m) (hok : cellsOK h loc i0 j0 (s :: p)) :
    ele (prefixScore h i0 j0 (s :: p))
      (val h loc m (consumedFrom h i0 j0 (s :: p)).1 (consumedFrom h i0 j0 (s :: p)).2 (lastState (s :: p))) := by
  have hs := hst s (List.mem_cons_self)
  have hst' : statesOK h p := fun x hx => hst x (List.mem_cons_of_mem _ hx)
  simp only [consumedFrom] at hm ⊢
  have hmono := consumed_mono h (i0 + (h.dir s).1.toNat) (j0 + (h.dir s).2.toNat) p
  simp only [prefixScore]
  exact scoreFrom_le h loc m p s _ _ _ hst' hs.1 hs.2.1
    (start_le h loc m i0 j0 s hs.1 hs.2.1 hs.2.2 (by omega) hok.1 hstart) hm hok.2

theorem lastState_mem (s : Nat) (p : List Nat) : lastState (s :: p) ∈ s :: p := by
  induction p generalizing s with
  | nil => simp [lastState]
  | cons a p ih => rw [lastState_cons_cons]; exact List.mem_cons_of_mem _ (ih a)

/-- **no global path scores above the DP value** -/
theorem global_upper (h : HMM S) (n m : Nat) (p : List Nat) (hp : IsGlobalPath h n m p) :
    ele (globalScore h p) (viterbiGlobal h n m).score := by
  obtain ⟨hst, hc⟩ := hp
  simp only [viterbiGlobal, look_tableOf h false n m n m (Nat.le_refl _), globalEnd]
  cases p with
  | nil =>
    simp only [consumedFrom, Prod.mk.injEq] at hc
    obtain ⟨rfl, rfl⟩ := hc
    exact bestPrev_ge_init h.T h.endId _ 1 (h.T 0 h.endId, 0)
  | cons s p =>
    have hl := hst _ (lastState_mem s p)
    have hle := prefixScore_le h false m 0 0 s p hst (by simp [canStart]) (by rw [hc]; exact Nat.le_refl _)
      (cellsOK_global h 0 0 _)
    rw [hc] at hle
    simp only [globalScore]
    have hlen : lastState (s :: p) - 1 < (V h false m n m).length := by
      rw [V_length h false m n m (Nat.le_refl _)]; omega
    have := bestPrev_ge_cand h.T h.endId (V h false m n m) 1
      (if (n == 0 && m == 0) = true then (h.T 0 h.endId, 0) else (none, h.errId)) (lastState (s :: p) - 1) hlen
    rw [show 1 + (lastState (s :: p) - 1) = lastState (s :: p) by omega,
      val_getElem h false m n m _ (Nat.le_refl _) hl.1 hl.2.1 hlen] at this
    exact ele_trans (eadd_mono _ hle) this

end CogentModel.PairHMM
