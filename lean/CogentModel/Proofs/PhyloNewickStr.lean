import CogentModel.Model.PhyloNewickStr
import CogentModel.Model.PhyloNewick
import CogentModel.Proofs.PhyloBasic
import CogentModel.Proofs.PhyloNewick
set_option linter.unusedSimpArgs false
set_option linter.unusedVariables false
/-! C09: the character-level tokeniser reads back what the writer's escaping produced. -/
namespace CogentModel.Phylo

/-- terminators that can follow a node in the output without distances -/
def Term (c : Char) : Prop := c = ',' ∨ c = ')' ∨ c = ';' ∨ c = ':'

def Printable (c : Char) : Prop := 32 ≤ c.toNat ∧ c.toNat ≤ 126

instance : DecidablePred Printable := fun c => by unfold Printable; infer_instance

/-! ### stage 1 on the pieces the writer emits -/
theorem lexRun_cons (σ : LexSt) (c : Char) (cs : List Char) :
    lexRun σ (c :: cs) = (lexStep σ c).2 ++ lexRun (lexStep σ c).1 cs := rfl

theorem lex_term (c : Char) (hc : Term c) (rest : List Char) :
    lexRun {} (c :: rest) = Raw.sp c :: lexRun {} rest := by
  rcases hc with rfl | rfl | rfl | rfl <;> rfl

theorem lex_lparen (rest : List Char) : lexRun {} ('(' :: rest) = Raw.sp '(' :: lexRun {} rest := rfl

/-- a character that goes into an unquoted text chunk -/
def PlainCh (x : Char) : Prop :=
  isBlank x = false ∧ x ≠ '\n' ∧ x ≠ '\'' ∧ x ≠ '"' ∧ isPunct x = false

theorem lexFresh_plain (acc : List Char) (x : Char) (hx : PlainCh x) :
    lexFresh acc x = (⟨x :: acc, .none⟩, []) := by
  obtain ⟨h1, h2, h3, h4, h5⟩ := hx
  simp [lexFresh, h1, h2, h3, h4, h5]

theorem lexFresh_term (acc : List Char) (c : Char) (hc : Term c) :
    lexFresh acc c = (⟨[], .none⟩, flushTxt acc ++ [Raw.sp c]) := by
  rcases hc with rfl | rfl | rfl | rfl <;> simp [lexFresh, isBlank, isPunct]

theorem lex_plain : ∀ (m acc : List Char) (c : Char) (rest : List Char), (∀ x ∈ m, PlainCh x) → Term c →
    lexRun ⟨acc, .none⟩ (m ++ c :: rest) = flushTxt (m.reverse ++ acc) ++ Raw.sp c :: lexRun {} rest
  | [], acc, c, rest, _, hc => by
    simp only [List.nil_append, lexRun_cons, lexStep, lexFresh_term acc c hc, List.reverse_nil, List.append_assoc]
    rfl
  | x :: m, acc, c, rest, hm, hc => by
    have hx := hm x (by simp)
    simp only [List.cons_append, lexRun_cons, lexStep, lexFresh_plain acc x hx, List.nil_append]
    rw [lex_plain m (x :: acc) c rest (fun y hy => hm y (by simp [hy])) hc]
    simp

/-! ### inside a quoted label -/
def pendStr (σ : LexSt) : List Char :=
  match σ.pend with
  | .none => σ.txt.reverse
  | .ws run => run.reverse
  | .sq => ['\'']
  | .dq => ['"']

/-- what a piece contributes to the text of a label quoted with `'` -/
def inQuoteStr : Raw → List Char
  | .sq2 => ['\'']
  | r => r.str

def QOK (R : List Raw) : Prop := ∀ r ∈ R, r ≠ Raw.nl ∧ r ≠ Raw.sp '\''

/-- emitting what is pending -/
def flushPend (σ : LexSt) : List Raw :=
  match σ.pend with
  | .none => flushTxt σ.txt
  | .ws run => [.ws run.reverse]
  | .sq => [.sp '\'']
  | .dq => [.sp '"']

theorem flushPend_str (σ : LexSt) (hsq : σ.pend ≠ .sq) :
    QOK (flushPend σ) ∧ (flushPend σ).flatMap inQuoteStr = pendStr σ := by
  cases σ with
  | mk txt pend =>
    cases pend with
    | none =>
      by_cases h : txt = []
      · subst h; simp [flushPend, flushTxt, pendStr, QOK]
      · simp [flushPend, flushTxt, pendStr, QOK, h, inQuoteStr, Raw.str]
    | ws run => simp [flushPend, pendStr, QOK, inQuoteStr, Raw.str]
    | sq => exact absurd rfl hsq
    | dq => simp [flushPend, pendStr, QOK, inQuoteStr, Raw.str]

/-- a lexer state is well formed when nothing is both pending and buffered -/
def LexWF (σ : LexSt) : Prop := σ.pend ≠ .sq ∧ (match σ.pend with | .none => True | _ => σ.txt = [])

theorem lex_close : ∀ (σ : LexSt), LexWF σ → ∀ (c : Char) (rest : List Char), Term c →
    lexRun σ ('\'' :: c :: rest) = flushPend σ ++ Raw.sp '\'' :: Raw.sp c :: lexRun {} rest := by
  intro σ hwf c rest hc
  have hcq : c ≠ '\'' := by rcases hc with rfl | rfl | rfl | rfl <;> decide
  have hfresh : ∀ acc, lexFresh acc '\'' = (⟨[], .sq⟩, flushTxt acc) := by
    intro acc; simp [lexFresh, isBlank]
  have hsecond : lexRun ⟨[], .sq⟩ (c :: rest) = Raw.sp '\'' :: Raw.sp c :: lexRun {} rest := by
    simp only [lexRun_cons, lexStep, hcq, if_false, lexFresh_term [] c hc]
    simp [flushTxt]
  cases σ with
  | mk txt pend =>
    cases pend with
    | none =>
      have h1 : lexStep ⟨txt, .none⟩ '\'' = (⟨[], .sq⟩, flushTxt txt) := by simp [lexStep, hfresh]
      rw [lexRun_cons, h1, hsecond]; simp [flushPend]
    | ws run =>
      have h1 : lexStep ⟨txt, .ws run⟩ '\'' = (⟨[], .sq⟩, [Raw.ws run.reverse]) := by
        simp [lexStep, isBlank, hfresh, flushTxt]
      rw [lexRun_cons, h1, hsecond]; simp [flushPend]
    | sq => exact absurd rfl hwf.1
    | dq =>
      have h1 : lexStep ⟨txt, .dq⟩ '\'' = (⟨[], .sq⟩, [Raw.sp '"']) := by
        simp [lexStep, hfresh, flushTxt]
      rw [lexRun_cons, h1, hsecond]; simp [flushPend]

theorem flushTxt_str (txt : List Char) :
    QOK (flushTxt txt) ∧ (flushTxt txt).flatMap inQuoteStr = txt.reverse := by
  by_cases h : txt = []
  · subst h; simp [flushTxt, QOK]
  · simp [flushTxt, QOK, h, inQuoteStr, Raw.str]

theorem lexStep_quote (σ : LexSt) (hwf : LexWF σ) : lexStep σ '\'' = (⟨[], .sq⟩, flushPend σ) := by
  have hfresh : ∀ acc, lexFresh acc '\'' = (⟨[], .sq⟩, flushTxt acc) := by
    intro acc; simp [lexFresh, isBlank]
  cases σ with
  | mk txt pend =>
    cases pend with
    | none => simp [lexStep, hfresh, flushPend]
    | ws run => simp [lexStep, isBlank, hfresh, flushTxt, flushPend]
    | sq => exact absurd rfl hwf.1
    | dq => simp [lexStep, hfresh, flushTxt, flushPend]

/-- one ordinary character (not a single quote, not a newline) inside a quoted label -/
theorem lexFresh_inv (txt : List Char) (x : Char) (hq : x ≠ '\'') (hn : x ≠ '\n') :
    LexWF (lexFresh txt x).1 ∧ QOK (lexFresh txt x).2 ∧
      (lexFresh txt x).2.flatMap inQuoteStr ++ pendStr (lexFresh txt x).1 = txt.reverse ++ [x] := by
  obtain ⟨hf1, hf2⟩ := flushTxt_str txt
  unfold lexFresh
  by_cases h1 : isBlank x = true
  · simp only [h1, if_true]
    exact ⟨(by first | exact ⟨by simp, trivial⟩ | exact ⟨by simp, rfl⟩), hf1, by simp [hf2, pendStr]⟩
  · simp only [h1, hn, hq, if_false]
    by_cases h2 : x = '"'
    · simp only [h2, if_true]
      exact ⟨(by first | exact ⟨by simp, trivial⟩ | exact ⟨by simp, rfl⟩), hf1, by simp [hf2, pendStr]⟩
    · simp only [h2, if_false]
      by_cases h3 : isPunct x = true
      · simp only [h3, if_true]
        refine ⟨(by first | exact ⟨by simp, trivial⟩ | exact ⟨by simp, rfl⟩), ?_, by simp [hf2, pendStr, inQuoteStr, Raw.str]⟩
        intro r hr
        rcases List.mem_append.1 hr with hr | hr
        · exact hf1 r hr
        · have := List.mem_singleton.1 hr
          subst this
          exact ⟨by simp, by simpa using hq⟩
      · simp only [h3, if_false]
        exact ⟨(by first | exact ⟨by simp, trivial⟩ | exact ⟨by simp, rfl⟩), (by intro r hr; simp at hr), by simp [pendStr]⟩

theorem lexStep_inv (σ : LexSt) (hwf : LexWF σ) (x : Char) (hq : x ≠ '\'') (hn : x ≠ '\n') :
    LexWF (lexStep σ x).1 ∧ QOK (lexStep σ x).2 ∧
      (lexStep σ x).2.flatMap inQuoteStr ++ pendStr (lexStep σ x).1 = pendStr σ ++ [x] := by
  cases σ with
  | mk txt pend =>
    cases pend with
    | none => simpa [lexStep, pendStr] using lexFresh_inv txt x hq hn
    | sq => exact absurd rfl hwf.1
    | ws run =>
      simp only [lexStep]
      by_cases h1 : isBlank x = true
      · simp only [h1, if_true]
        exact ⟨(by first | exact ⟨by simp, trivial⟩ | exact ⟨by simp, rfl⟩), by simp [QOK], by simp [pendStr]⟩
      · simp only [h1, if_false, Bool.false_eq_true, reduceIte]
        obtain ⟨a, b, c⟩ := lexFresh_inv [] x hq hn
        refine ⟨a, ?_, ?_⟩
        · intro r hr
          rcases List.mem_cons.1 hr with rfl | hr
          · simp
          · exact b r hr
        · rw [List.flatMap_cons, List.append_assoc, c]
          simp [inQuoteStr, Raw.str, pendStr]
    | dq =>
      simp only [lexStep]
      by_cases h1 : x = '"'
      · simp only [h1, if_true]
        exact ⟨(by first | exact ⟨by simp, trivial⟩ | exact ⟨by simp, rfl⟩), by simp [QOK], by simp [pendStr, inQuoteStr, Raw.str]⟩
      · simp only [h1, if_false, Bool.false_eq_true, reduceIte]
        obtain ⟨a, b, c⟩ := lexFresh_inv [] x hq hn
        refine ⟨a, ?_, ?_⟩
        · intro r hr
          rcases List.mem_cons.1 hr with rfl | hr
          · simp
          · exact b r hr
        · rw [List.flatMap_cons, List.append_assoc, c]
          simp [inQuoteStr, Raw.str, pendStr]

theorem QOK_append {A B : List Raw} (ha : QOK A) (hb : QOK B) : QOK (A ++ B) := by
  intro r hr
  rcases List.mem_append.1 hr with h | h
  · exact ha r h
  · exact hb r h

/-- the body of a quoted label, up to and including the closing quote and the terminator -/
theorem lex_body : ∀ (n : List Char) (σ : LexSt), LexWF σ → (∀ x ∈ n, x ≠ '\n') →
    ∃ R, QOK R ∧ R.flatMap inQuoteStr = pendStr σ ++ n ∧
      ∀ (c : Char) (rest : List Char), Term c →
        lexRun σ (doubleQuotes n ++ '\'' :: c :: rest) = R ++ Raw.sp '\'' :: Raw.sp c :: lexRun {} rest
  | [], σ, hwf, _ => by
    obtain ⟨h1, h2⟩ := flushPend_str σ hwf.1
    exact ⟨flushPend σ, h1, by simpa using h2, fun c rest hc => by simpa [doubleQuotes] using lex_close σ hwf c rest hc⟩
  | x :: n, σ, hwf, hn => by
    have hn' : ∀ y ∈ n, y ≠ '\n' := fun y hy => hn y (by simp [hy])
    by_cases hx : x = '\''
    · subst hx
      obtain ⟨R', hq', hs', hl'⟩ := lex_body n ⟨[], .none⟩ ⟨by simp, trivial⟩ hn'
      obtain ⟨h1, h2⟩ := flushPend_str σ hwf.1
      refine ⟨flushPend σ ++ Raw.sq2 :: R', QOK_append h1 ?_, ?_, ?_⟩
      · intro r hr
        rcases List.mem_cons.1 hr with rfl | hr
        · simp
        · exact hq' r hr
      · simp only [List.flatMap_append, List.flatMap_cons, h2, hs', inQuoteStr, pendStr]
        simp
      · intro c rest hc
        have e2 : lexStep ⟨[], .sq⟩ '\'' = (⟨[], .none⟩, [Raw.sq2]) := by simp [lexStep]
        simp only [doubleQuotes, if_true, List.cons_append]
        rw [lexRun_cons, lexStep_quote σ hwf, lexRun_cons, e2, hl' c rest hc]
        simp
    · obtain ⟨hw, hq, hs⟩ := lexStep_inv σ hwf x hx (hn x (by simp))
      obtain ⟨R', hq', hs', hl'⟩ := lex_body n (lexStep σ x).1 hw hn'
      refine ⟨(lexStep σ x).2 ++ R', QOK_append hq hq', ?_, ?_⟩
      · rw [List.flatMap_append, hs', ← List.append_assoc, hs]; simp
      · intro c rest hc
        simp only [doubleQuotes, hx, if_false, List.cons_append]
        rw [lexRun_cons, hl' c rest hc]
        simp

/-! ### stage 2 -/
def feed : MSt → List Raw → Option (MSt × List STok)
  | σ, [] => some (σ, [])
  | σ, r :: rs =>
    match mStep σ r with
    | none => none
    | some (σ', o) => (feed σ' rs).map fun p => (p.1, o ++ p.2)

theorem mRun_append : ∀ (A B : List Raw) (σ : MSt),
    mRun σ (A ++ B) = match feed σ A with
      | none => none
      | some (σ', o) => (mRun σ' B).map (o ++ ·)
  | [], B, σ => by simp [feed]
  | r :: A, B, σ => by
    simp only [List.cons_append, mRun, feed]
    cases h : mStep σ r with
    | none => rfl
    | some p =>
      obtain ⟨σ', o⟩ := p
      simp only [mRun_append A B σ']
      cases h2 : feed σ' A with
      | none => rfl
      | some q =>
        obtain ⟨σ'', o'⟩ := q
        simp only [Option.map_some]
        cases mRun σ'' B <;> simp

/-- pieces met inside a quoted label are appended to its text -/
theorem feedQ : ∀ (R : List Raw) (acc : List Char), QOK R →
    feed ⟨some acc, some '\'', false, []⟩ R = some (⟨some (acc ++ R.flatMap inQuoteStr), some '\'', false, []⟩, [])
  | [], acc, _ => by simp [feed]
  | r :: R, acc, h => by
    obtain ⟨h1, h2⟩ := h r (by simp)
    have hR : QOK R := fun x hx => h x (by simp [hx])
    have hstep : mStep ⟨some acc, some '\'', false, []⟩ r =
        some (⟨some (acc ++ inQuoteStr r), some '\'', false, []⟩, []) := by
      simp only [mStep, mBody, h1, h2, if_false, Bool.false_eq_true]
      cases r <;> simp [inQuoteStr, Raw.str] at h1 h2 ⊢
    simp only [feed, hstep, feedQ R _ hR]
    simp

theorem mStep_pun (c : Char) (hc : isPunct c = true) (h1 : c ≠ '[') (h2 : c ≠ ']') :
    mStep {} (Raw.sp c) = some ({}, [STok.pun c]) := by
  simp [mStep, mBody, hc, finishText, h1, h2]

theorem mRun_pun (c : Char) (hc : isPunct c = true) (h1 : c ≠ '[') (h2 : c ≠ ']') (X : List Raw) :
    mRun {} (Raw.sp c :: X) = (mRun {} X).map (STok.pun c :: ·) := by
  simp only [mRun, mStep_pun c hc h1 h2]
  cases mRun {} X <;> simp

theorem term_punct {c : Char} (hc : Term c) : isPunct c = true ∧ c ≠ '[' ∧ c ≠ ']' ∧ c ≠ '\'' := by
  rcases hc with rfl | rfl | rfl | rfl <;> decide

/-- an unquoted label followed by a terminator -/
theorem mRun_plain (m : List Char) (hm : strip m ≠ []) (c : Char) (hc : Term c) (X : List Raw) :
    mRun {} (Raw.txt m :: Raw.sp c :: X) =
      (mRun {} X).map (fun ts => STok.lab (unmunge (strip m)) :: STok.pun c :: ts) := by
  obtain ⟨hp, h1, h2, _⟩ := term_punct hc
  have hne : m ≠ [] := by rintro rfl; simp [strip] at hm
  obtain ⟨c0, cs, rfl⟩ := List.exists_cons_of_ne_nil hne
  have hs1 : mStep {} (Raw.txt (c0 :: cs)) = some (⟨some (c0 :: cs), none, false, []⟩, []) := by
    simp [mStep, mBody, Raw.str, hm]
  have hs2 : mStep ⟨some (c0 :: cs), none, false, []⟩ (Raw.sp c) =
      some ({}, [STok.lab (unmunge (strip (c0 :: cs))), STok.pun c]) := by
    simp [mStep, mBody, hp, finishText, h1, h2]
  simp only [mRun, hs1, hs2]
  cases mRun {} X <;> simp

/-- a quoted label followed by a terminator -/
theorem mRun_quoted (R : List Raw) (hR : QOK R) (c : Char) (hc : Term c) (X : List Raw) :
    mRun {} (Raw.sp '\'' :: (R ++ Raw.sp '\'' :: Raw.sp c :: X)) =
      (mRun {} X).map (fun ts => STok.lab (R.flatMap inQuoteStr) :: STok.pun c :: ts) := by
  obtain ⟨hp, h1, h2, _⟩ := term_punct hc
  have hs1 : mStep {} (Raw.sp '\'') = some (⟨some [], some '\'', false, []⟩, []) := by
    simp [mStep, mBody, isPunct]
  have hs2 : mStep ⟨some (R.flatMap inQuoteStr), some '\'', false, []⟩ (Raw.sp '\'') =
      some ({}, [STok.lab (R.flatMap inQuoteStr)]) := by
    simp [mStep, mBody]
  simp only [mRun, hs1, Option.map_some]
  rw [mRun_append R _ _, feedQ R [] hR]
  simp only [List.nil_append, mRun, hs2, mStep_pun c hp h1 h2]
  cases mRun {} X <;> simp

/-! ### names -/
/-- names the writer / tokeniser / parser triple handles: exactly the decidable predicate `roundTrips`
of the model (ANY characters, not only printable ASCII) -/
def GoodName (n : List Char) : Prop := roundTrips n = true

instance : DecidablePred GoodName := fun n => by unfold GoodName; infer_instance

theorem printable_ne_nl {x : Char} (h : Printable x) : x ≠ '\n' := by
  rintro rfl; exact absurd h.1 (by decide)

theorem printable_ne_tab {x : Char} (h : Printable x) : x ≠ '\t' := by
  rintro rfl; exact absurd h.1 (by decide)

theorem printable_ne_cr {x : Char} (h : Printable x) : x ≠ '\r' := by
  rintro rfl; exact absurd h.1 (by decide)

theorem printable_not_space {x : Char} (h : Printable x) (hs : x ≠ ' ') : pySpace x = false := by
  have h1 := printable_ne_tab h
  have h2 := printable_ne_nl h
  have h3 := printable_ne_cr h
  have h32 := h.1
  have h126 := h.2
  have e1 : decide (x.toNat = 11) = false := decide_eq_false (by omega)
  have e2 : decide (x.toNat = 12) = false := decide_eq_false (by omega)
  have e3 : decide (x.toNat ≤ 31) = false := decide_eq_false (by omega)
  have e4 : decide (x.toNat = 0x85) = false := decide_eq_false (by omega)
  have e5 : decide (x.toNat = 0xA0) = false := decide_eq_false (by omega)
  have e6 : decide (x.toNat = 0x1680) = false := decide_eq_false (by omega)
  have e7 : decide (0x2000 ≤ x.toNat) = false := decide_eq_false (by omega)
  have e8 : decide (x.toNat = 0x2028) = false := decide_eq_false (by omega)
  have e9 : decide (x.toNat = 0x2029) = false := decide_eq_false (by omega)
  have e10 : decide (x.toNat = 0x202F) = false := decide_eq_false (by omega)
  have e11 : decide (x.toNat = 0x205F) = false := decide_eq_false (by omega)
  have e12 : decide (x.toNat = 0x3000) = false := decide_eq_false (by omega)
  simp only [pySpace, hs, h1, h2, h3, e1, e2, e3, e4, e5, e6, e7, e8, e9, e10, e11, e12, decide_false,
    Bool.false_or, Bool.and_false, Bool.false_and, Bool.or_false]

theorem plain_of {x : Char} (h : Printable x) (hq : needsQuote x = false) (hs : x ≠ ' ') : PlainCh x := by
  have h1 := printable_ne_tab h
  have h2 := printable_ne_nl h
  simp only [needsQuote, Bool.or_eq_false_iff, decide_eq_false_iff_not] at hq
  obtain ⟨⟨⟨⟨⟨⟨⟨⟨⟨a1, a2⟩, a3⟩, a4⟩, a5⟩, a6⟩, a7⟩, a8⟩, a9⟩, a10⟩ := hq
  refine ⟨by simp [isBlank, hs, h1], h2, a3, a4, by simp [isPunct, a1, a2, a5, a6, a7, a8, a9]⟩

theorem plain_underscore : PlainCh '_' := by
  refine ⟨by decide, by decide, by decide, by decide, by decide⟩

theorem munge_plain : ∀ (n : List Char), (∀ x ∈ n, Printable x) → n.any needsQuote = false →
    ∀ y ∈ munge n, PlainCh y ∧ pySpace y = false
  | [], _, _, y, hy => by simp [munge] at hy
  | x :: n, hp, hq, y, hy => by
    simp only [List.any_cons, Bool.or_eq_false_iff] at hq
    simp only [munge, List.mem_cons] at hy
    rcases hy with rfl | hy
    · by_cases hs : x = ' '
      · simp only [hs, if_true]; exact ⟨plain_underscore, by decide⟩
      · simp only [hs, if_false]
        exact ⟨plain_of (hp x (by simp)) hq.1 hs, printable_not_space (hp x (by simp)) hs⟩
    · exact munge_plain n (fun z hz => hp z (by simp [hz])) hq.2 y hy

theorem unmunge_munge : ∀ (n : List Char), n.any needsQuote = false → unmunge (munge n) = n
  | [], _ => rfl
  | x :: n, hq => by
    simp only [List.any_cons, Bool.or_eq_false_iff] at hq
    have hu : x ≠ '_' := by
      rintro rfl; exact absurd hq.1 (by decide)
    simp only [munge, unmunge, unmunge_munge n hq.2]
    by_cases hs : x = ' '
    · simp [hs]
    · simp [hs, hu]

theorem strip_noop (s : List Char) (h : ∀ y ∈ s, pySpace y = false) : strip s = s := by
  have h1 : ∀ l : List Char, (∀ y ∈ l, pySpace y = false) → l.dropWhile pySpace = l := by
    intro l hl
    cases l with
    | nil => rfl
    | cons a l => simp [List.dropWhile, hl a (by simp)]
  unfold strip
  rw [h1 s h, h1 s.reverse (fun y hy => h y (List.mem_reverse.1 hy)), List.reverse_reverse]

theorem munge_ne_nil {n : List Char} (h : n ≠ []) : munge n ≠ [] := by
  cases n with
  | nil => exact absurd rfl h
  | cons x n => simp [munge]

/-! ### the two stages together -/
def run (cs : List Char) : Option (List STok) := mRun {} (lexRun {} cs)

theorem tokenise_eq_run (cs : List Char) : tokenise cs = run cs := rfl

theorem run_term (c : Char) (hc : Term c) (rest : List Char) :
    run (c :: rest) = (run rest).map (STok.pun c :: ·) := by
  obtain ⟨hp, h1, h2, _⟩ := term_punct hc
  simp only [run, lex_term c hc, mRun_pun c hp h1 h2]

theorem run_lparen (rest : List Char) : run ('(' :: rest) = (run rest).map (STok.pun '(' :: ·) := by
  simp only [run, lex_lparen, mRun_pun '(' (by decide) (by decide) (by decide)]

theorem startsEndsQuote_false {n : List Char} (h : n.head? ≠ some '\'') : startsEndsQuote n = false := by
  cases n with
  | nil => rfl
  | cons c cs =>
    have : c ≠ '\'' := by simpa using h
    simp [startsEndsQuote, this]

/-! ### unquoted labels with arbitrary characters (tabs inside, odd white space) -/
/-- a character of an unquoted label as the writer emits it: anything but a newline, a quote
character or newick punctuation (blanks — i.e. tabs — allowed) -/
def UCh (x : Char) : Prop := x ≠ '\n' ∧ x ≠ '\'' ∧ x ≠ '"' ∧ isPunct x = false

def Soft : Raw → Prop
  | .ws s => s ≠ [] ∧ ∀ y ∈ s, isBlank y = true
  | .txt s => s ≠ []
  | _ => False

/-- lexer states reachable inside an unquoted label -/
def LexU (σ : LexSt) : Prop :=
  match σ.pend with
  | .none => True
  | .ws run => σ.txt = [] ∧ run ≠ [] ∧ ∀ y ∈ run, isBlank y = true
  | _ => False

theorem flushTxt_soft (txt : List Char) :
    (∀ r ∈ flushTxt txt, Soft r) ∧ (flushTxt txt).flatMap Raw.str = txt.reverse := by
  by_cases h : txt = []
  · subst h; simp [flushTxt]
  · simp [flushTxt, h, Soft, Raw.str]

theorem flushPend_soft (σ : LexSt) (h : LexU σ) :
    (∀ r ∈ flushPend σ, Soft r) ∧ (flushPend σ).flatMap Raw.str = pendStr σ := by
  cases σ with
  | mk txt pend =>
    cases pend with
    | none => simpa [flushPend, pendStr] using flushTxt_soft txt
    | ws run =>
      obtain ⟨h1, h2, h3⟩ := h
      simp [flushPend, pendStr, Soft, Raw.str, h2]
      intro y hy; exact h3 y hy
    | sq => exact absurd h (by simp [LexU])
    | dq => exact absurd h (by simp [LexU])

theorem lexFresh_U (txt : List Char) (x : Char) (hx : UCh x) :
    LexU (lexFresh txt x).1 ∧ (∀ r ∈ (lexFresh txt x).2, Soft r) ∧
      (lexFresh txt x).2.flatMap Raw.str ++ pendStr (lexFresh txt x).1 = txt.reverse ++ [x] := by
  obtain ⟨hn, hq, hd, hp⟩ := hx
  obtain ⟨hf1, hf2⟩ := flushTxt_soft txt
  unfold lexFresh
  by_cases h1 : isBlank x = true
  · simp only [h1, if_true]
    refine ⟨⟨rfl, by simp, by simpa using h1⟩, hf1, by simp [hf2, pendStr]⟩
  · simp only [h1, hn, hq, hd, hp, if_false, Bool.false_eq_true]
    exact ⟨trivial, by simp, by simp [pendStr]⟩

theorem lexStep_U (σ : LexSt) (h : LexU σ) (x : Char) (hx : UCh x) :
    LexU (lexStep σ x).1 ∧ (∀ r ∈ (lexStep σ x).2, Soft r) ∧
      (lexStep σ x).2.flatMap Raw.str ++ pendStr (lexStep σ x).1 = pendStr σ ++ [x] := by
  cases σ with
  | mk txt pend =>
    cases pend with
    | none => simpa [lexStep, pendStr] using lexFresh_U txt x hx
    | sq => exact absurd h (by simp [LexU])
    | dq => exact absurd h (by simp [LexU])
    | ws run =>
      obtain ⟨h1, h2, h3⟩ := h
      simp only [lexStep]
      by_cases hb : isBlank x = true
      · simp only [hb, if_true]
        refine ⟨⟨rfl, by simp, ?_⟩, by simp, by simp [pendStr]⟩
        intro y hy
        rcases List.mem_cons.1 hy with rfl | hy
        · exact hb
        · exact h3 y hy
      · simp only [hb, if_false, Bool.false_eq_true, reduceIte]
        obtain ⟨a, b, c⟩ := lexFresh_U [] x hx
        refine ⟨a, ?_, ?_⟩
        · intro r hr
          rcases List.mem_cons.1 hr with rfl | hr
          · exact ⟨by simpa using h2, fun y hy => h3 y (List.mem_reverse.1 hy)⟩
          · exact b r hr
        · rw [List.flatMap_cons, List.append_assoc, c]
          simp [Raw.str, pendStr]

theorem lex_closeU (σ : LexSt) (h : LexU σ) (c : Char) (rest : List Char) (hc : Term c) :
    lexRun σ (c :: rest) = flushPend σ ++ Raw.sp c :: lexRun {} rest := by
  have hb : isBlank c = false := by rcases hc with rfl | rfl | rfl | rfl <;> decide
  cases σ with
  | mk txt pend =>
    cases pend with
    | none =>
      simp only [lexRun_cons, lexStep, lexFresh_term txt c hc, flushPend, List.append_assoc]
      rfl
    | ws run =>
      simp only [lexRun_cons, lexStep, hb, lexFresh_term [] c hc, flushPend, Bool.false_eq_true, if_false]
      simp [flushTxt]
    | sq => exact absurd h (by simp [LexU])
    | dq => exact absurd h (by simp [LexU])

/-- the characters of an unquoted label up to its terminator: only blank / text pieces -/
theorem lex_unquoted : ∀ (m : List Char) (σ : LexSt), LexU σ → (∀ x ∈ m, UCh x) →
    ∃ R, (∀ r ∈ R, Soft r) ∧ R.flatMap Raw.str = pendStr σ ++ m ∧
      ∀ (c : Char) (rest : List Char), Term c →
        lexRun σ (m ++ c :: rest) = R ++ Raw.sp c :: lexRun {} rest
  | [], σ, h, _ => by
    obtain ⟨h1, h2⟩ := flushPend_soft σ h
    exact ⟨flushPend σ, h1, by simpa using h2, fun c rest hc => by simpa using lex_closeU σ h c rest hc⟩
  | x :: m, σ, h, hm => by
    obtain ⟨hw, hs, he⟩ := lexStep_U σ h x (hm x (by simp))
    obtain ⟨R', hs', he', hl'⟩ := lex_unquoted m (lexStep σ x).1 hw (fun y hy => hm y (by simp [hy]))
    refine ⟨(lexStep σ x).2 ++ R', ?_, ?_, ?_⟩
    · intro r hr
      rcases List.mem_append.1 hr with hr | hr
      · exact hs r hr
      · exact hs' r hr
    · rw [List.flatMap_append, he', ← List.append_assoc, he]; simp
    · intro c rest hc
      simp only [List.cons_append]
      rw [lexRun_cons, hl' c rest hc]
      simp

/-! machine -/
theorem feedText : ∀ (R : List Raw) (acc : List Char), (∀ r ∈ R, Soft r) →
    feed ⟨some acc, none, false, []⟩ R = some (⟨some (acc ++ R.flatMap Raw.str), none, false, []⟩, [])
  | [], acc, _ => by simp [feed]
  | r :: R, acc, h => by
    have hr := h r (by simp)
    have hR : ∀ r ∈ R, Soft r := fun x hx => h x (by simp [hx])
    have hstep : mStep ⟨some acc, none, false, []⟩ r = some (⟨some (acc ++ r.str), none, false, []⟩, []) := by
      cases r <;> simp [Soft] at hr <;> simp [mStep, mBody]
    simp only [feed, hstep, feedText R _ hR]
    simp

theorem dropWhile_nil_all {α} (p : α → Bool) : ∀ (l : List α), l.dropWhile p = [] → ∀ y ∈ l, p y = true
  | [], _, y, hy => by simp at hy
  | a :: l, h, y, hy => by
    by_cases ha : p a = true
    · simp only [List.dropWhile, ha] at h
      rcases List.mem_cons.1 hy with rfl | hy
      · exact ha
      · exact dropWhile_nil_all p l h y hy
    · simp [List.dropWhile, ha] at h

theorem strip_ne_nil_of_head (x : Char) (s : List Char) (hx : pySpace x = false) : strip (x :: s) ≠ [] := by
  unfold strip
  simp only [List.dropWhile, hx]
  intro h
  have h' : ((x :: s).reverse.dropWhile pySpace) = [] := by simpa using h
  have := dropWhile_nil_all pySpace _ h' x (by simp)
  rw [hx] at this; cases this

theorem feedStart (R : List Raw) (hR : ∀ r ∈ R, Soft r) (x : Char) (m : List Char)
    (hflat : R.flatMap Raw.str = x :: m) (hsp : pySpace x = false) (hb : isBlank x = false) :
    feed {} R = some (⟨some (x :: m), none, false, []⟩, []) := by
  cases R with
  | nil => simp at hflat
  | cons r R =>
    have hr := hR r (by simp)
    have hR' : ∀ r ∈ R, Soft r := fun y hy => hR y (by simp [hy])
    cases r with
    | ws s =>
      obtain ⟨hne, hall⟩ := hr
      obtain ⟨y, s', rfl⟩ := List.exists_cons_of_ne_nil hne
      simp only [List.flatMap_cons, Raw.str, List.cons_append, List.cons.injEq] at hflat
      have := hall y (by simp)
      rw [hflat.1, hb] at this; cases this
    | txt s =>
      have hne : s ≠ [] := hr
      obtain ⟨y, s', rfl⟩ := List.exists_cons_of_ne_nil hne
      simp only [List.flatMap_cons, Raw.str, List.cons_append, List.cons.injEq] at hflat
      obtain ⟨rfl, hrest⟩ := hflat
      have hst := strip_ne_nil_of_head y s' hsp
      have hs1 : mStep {} (Raw.txt (y :: s')) = some (⟨some (y :: s'), none, false, []⟩, []) := by
        simp [mStep, mBody, Raw.str, hst]
      simp only [feed, hs1, feedText R _ hR']
      simp [hrest]
    | nl => exact absurd hr (by simp [Soft])
    | sq2 => exact absurd hr (by simp [Soft])
    | dq2 => exact absurd hr (by simp [Soft])
    | sp c => exact absurd hr (by simp [Soft])

/-- an unquoted label (possibly with tabs inside) followed by a terminator -/
theorem mRun_unquoted (R : List Raw) (hR : ∀ r ∈ R, Soft r) (x : Char) (m : List Char)
    (hflat : R.flatMap Raw.str = x :: m) (hsp : pySpace x = false) (hb : isBlank x = false)
    (c : Char) (hc : Term c) (X : List Raw) :
    mRun {} (R ++ Raw.sp c :: X) =
      (mRun {} X).map (fun ts => STok.lab (unmunge (strip (x :: m))) :: STok.pun c :: ts) := by
  obtain ⟨hp, h1, h2, _⟩ := term_punct hc
  have hs2 : mStep ⟨some (x :: m), none, false, []⟩ (Raw.sp c) =
      some ({}, [STok.lab (unmunge (strip (x :: m))), STok.pun c]) := by
    simp [mStep, mBody, hp, finishText, h1, h2]
  rw [mRun_append, feedStart R hR x m hflat hsp hb]
  simp only [mRun, hs2, List.nil_append]
  cases mRun {} X <;> simp


/-! names -/
def mungeCh (c : Char) : Char := if c = ' ' then '_' else c

theorem munge_eq_map : ∀ (n : List Char), munge n = n.map mungeCh
  | [] => rfl
  | x :: n => by simp [munge, mungeCh, munge_eq_map n]

theorem isBlank_pySpace {x : Char} (h : isBlank x = true) : pySpace x = true := by
  simp only [isBlank, Bool.or_eq_true, decide_eq_true_eq] at h
  rcases h with rfl | rfl <;> decide

theorem mungeCh_soft {x : Char} (h : hardSpace x = false) :
    pySpace (mungeCh x) = false ∧ isBlank (mungeCh x) = false := by
  unfold mungeCh
  by_cases hs : x = ' '
  · subst hs; exact ⟨by decide, by decide⟩
  · simp only [hs, if_false]
    have hp : pySpace x = false := by
      simp only [hardSpace, Bool.and_eq_false_iff, bne_eq_false_iff_eq] at h
      rcases h with h | h
      · exact h
      · exact absurd h hs
    refine ⟨hp, ?_⟩
    cases hb : isBlank x with
    | false => rfl
    | true => rw [isBlank_pySpace hb] at hp; cases hp

theorem mungeCh_UCh {x : Char} (hq : needsQuote x = false) (hn : x ≠ '\n') : UCh (mungeCh x) := by
  simp only [needsQuote, Bool.or_eq_false_iff, decide_eq_false_iff_not] at hq
  obtain ⟨⟨⟨⟨⟨⟨⟨⟨⟨a1, a2⟩, a3⟩, a4⟩, a5⟩, a6⟩, a7⟩, a8⟩, a9⟩, a10⟩ := hq
  unfold mungeCh
  by_cases hs : x = ' '
  · subst hs; exact ⟨by decide, by decide, by decide, by decide⟩
  · simp only [hs, if_false]
    exact ⟨hn, a3, a4, by simp [isPunct, a1, a2, a5, a6, a7, a8, a9]⟩

theorem dropWhile_head_false {α} (p : α → Bool) (l : List α) (h : ∀ x, l.head? = some x → p x = false) :
    l.dropWhile p = l := by
  cases l with
  | nil => rfl
  | cons a l => simp [List.dropWhile, h a rfl]

theorem strip_eq_self (s : List Char) (hh : ∀ x, s.head? = some x → pySpace x = false)
    (hl : ∀ x, s.getLast? = some x → pySpace x = false) : strip s = s := by
  unfold strip
  rw [dropWhile_head_false pySpace s hh, dropWhile_head_false pySpace s.reverse (by simpa using hl), List.reverse_reverse]

/-- `roundTrips` unpacked -/
theorem roundTrips_iff (n : List Char) : roundTrips n = true ↔
    n ≠ [] ∧ (∀ x ∈ n, x ≠ '\n') ∧ n.head? ≠ some '\'' ∧ notPunLab n = true ∧
      (n.any needsQuote = true ∨
        ((∀ x, n.head? = some x → hardSpace x = false) ∧ (∀ x, n.getLast? = some x → hardSpace x = false))) := by
  unfold roundTrips
  simp only [Bool.and_eq_true, Bool.not_eq_true', Bool.or_eq_true, List.isEmpty_eq_false_iff, bne_iff_ne, ne_eq]
  constructor
  · rintro ⟨⟨⟨⟨h1, h2⟩, h3⟩, h4⟩, h5⟩
    refine ⟨h1, ?_, h3, h4, ?_⟩
    · intro x hx e; subst e
      simp [List.contains_iff_mem, hx] at h2
    · rcases h5 with h5 | ⟨h5, h6⟩
      · exact Or.inl h5
      · refine Or.inr ⟨?_, ?_⟩
        · intro x hx; simpa [hx] using h5
        · intro x hx; simpa [hx] using h6
  · rintro ⟨h1, h2, h3, h4, h5⟩
    refine ⟨⟨⟨⟨h1, ?_⟩, h3⟩, h4⟩, ?_⟩
    · cases hc : n.contains '\n' with
      | false => rfl
      | true => exact absurd rfl (h2 _ (by simpa [List.contains_iff_mem] using hc))
    · rcases h5 with h5 | ⟨h5, h6⟩
      · exact Or.inl h5
      · refine Or.inr ⟨?_, ?_⟩
        · cases hh : n.head? with
          | none => rfl
          | some x => simpa using h5 x hh
        · cases hh : n.getLast? with
          | none => rfl
          | some x => simpa using h6 x hh

/-- the escaped name followed by a terminator is read back as the name -/
theorem run_label (n : List Char) (hn : GoodName n) (c : Char) (hc : Term c) (rest : List Char) :
    run (escapeName n ++ c :: rest) = (run rest).map (fun ts => STok.lab n :: STok.pun c :: ts) := by
  obtain ⟨hne, hnl, hhead, _, hcase⟩ := (roundTrips_iff n).1 hn
  unfold escapeName
  rw [startsEndsQuote_false hhead]
  simp only [Bool.false_eq_true, if_false]
  by_cases hq : n.any needsQuote = true
  · -- quoted
    simp only [hq, if_true]
    obtain ⟨x, n', rfl⟩ := List.exists_cons_of_ne_nil hne
    have hx : x ≠ '\'' := by simpa using hhead
    obtain ⟨R, hR, hRs, hRl⟩ := lex_body (x :: n') ⟨[], .none⟩ ⟨by simp, trivial⟩ hnl
    have hopen : lexRun {} ('\'' :: (doubleQuotes (x :: n') ++ '\'' :: c :: rest)) =
        Raw.sp '\'' :: lexRun ⟨[], .none⟩ (doubleQuotes (x :: n') ++ '\'' :: c :: rest) := by
      have e1 : lexStep {} '\'' = (⟨[], .sq⟩, []) := by simp [lexStep, lexFresh, isBlank, flushTxt]
      rw [lexRun_cons, e1]
      simp only [doubleQuotes, hx, if_false, List.cons_append, List.nil_append]
      rw [lexRun_cons, lexRun_cons]
      simp [lexStep, hx]
    simp only [run, List.cons_append, List.append_assoc, List.singleton_append, List.nil_append] at hopen ⊢
    rw [hopen, hRl c rest hc, mRun_quoted R hR c hc, hRs]
    simp [pendStr]
  · -- unquoted
    have hq' : n.any needsQuote = false := by simpa using hq
    simp only [hq', Bool.false_eq_true, if_false]
    obtain ⟨hh, hl⟩ : (∀ x, n.head? = some x → hardSpace x = false) ∧ (∀ x, n.getLast? = some x → hardSpace x = false) := by
      rcases hcase with h | h
      · exact absurd h hq
      · exact h
    obtain ⟨x, n', rfl⟩ := List.exists_cons_of_ne_nil hne
    have hall : ∀ y ∈ munge (x :: n'), UCh y := by
      intro y hy
      rw [munge_eq_map] at hy
      obtain ⟨z, hz, rfl⟩ := List.mem_map.1 hy
      exact mungeCh_UCh (by
        have := List.any_eq_false.1 hq' z hz
        simpa using this) (hnl z hz)
    obtain ⟨R, hRs, hRf, hRl⟩ := lex_unquoted (munge (x :: n')) ⟨[], .none⟩ trivial hall
    have hm : munge (x :: n') = mungeCh x :: munge n' := by simp [munge, mungeCh]
    obtain ⟨hsp, hbl⟩ := mungeCh_soft (hh x rfl)
    have hstrip : strip (munge (x :: n')) = munge (x :: n') := by
      apply strip_eq_self
      · intro y hy
        rw [hm] at hy
        simp only [List.head?_cons, Option.some.injEq] at hy
        subst hy; exact hsp
      · intro y hy
        rw [munge_eq_map, List.getLast?_map] at hy
        cases hg : (x :: n').getLast? with
        | none => rw [hg] at hy; cases hy
        | some z =>
          rw [hg] at hy
          simp only [Option.map_some, Option.some.injEq] at hy
          subst hy
          exact (mungeCh_soft (hl z hg)).1
    simp only [run]
    rw [show ({} : LexSt) = ⟨[], .none⟩ from rfl, hRl c rest hc]
    have hflat : R.flatMap Raw.str = mungeCh x :: munge n' := by rw [hRf, ← hm]; simp [pendStr]
    rw [mRun_unquoted R hRs (mungeCh x) (munge n') hflat hsp hbl c hc, ← hm, hstrip, unmunge_munge _ hq']


/-! ### whole trees -/
def sTok {K : Type} : Tok K → STok
  | .lp => .pun '('
  | .rp => .pun ')'
  | .comma => .pun ','
  | .colon => .pun ':'
  | .semi => .pun ';'
  | .label s => .lab s.toList
  | .num _ => .lab []

/- every node is unnamed or has a name the writer/tokeniser pair handles -/
mutual
def GoodTree {K : Type} : PTree K → Prop
  | .node n _ cs => (n = "" ∨ GoodName n.toList) ∧ GoodTreeL cs
def GoodTreeL {K : Type} : List (PTree K) → Prop
  | [] => True
  | c :: cs => GoodTree c ∧ GoodTreeL cs
end

theorem run_name {K : Type} (n : String) (hn : n = "" ∨ GoodName n.toList) (c : Char) (hc : Term c)
    (rest : List Char) :
    run ((if n = "" then [] else escapeName n.toList) ++ c :: rest) =
      (run rest).map (fun ts => (nameToks (K := K) n).map sTok ++ STok.pun c :: ts) := by
  by_cases h : n = ""
  · simp only [h, if_true, List.nil_append, nameToks, List.map_nil]
    exact run_term c hc rest
  · have hg : GoodName n.toList := by rcases hn with h' | h'; exact absurd h' h; exact h'
    simp only [h, if_false, nameToks, List.map_cons, List.map_nil, sTok, List.singleton_append]
    exact run_label n.toList hg c hc rest

theorem lenToks_false {K : Type} (l : Option K) : lenToks false l = [] := by
  cases l <;> simp [lenToks]

theorem printTail_head {K : Type} (cs : List (PTree K)) : ∃ d more, printTail cs = d :: more ∧ Term d := by
  cases cs with
  | nil => exact ⟨')', [], rfl, Or.inr (Or.inl rfl)⟩
  | cons c cs => exact ⟨',', _, rfl, Or.inl rfl⟩

mutual
theorem run_printStr {K : Type} : ∀ (t : PTree K), GoodTree t → ∀ (c : Char), Term c → ∀ (rest : List Char),
    run (printStr t ++ c :: rest) = (run rest).map (fun ts => (toks false t).map sTok ++ STok.pun c :: ts)
  | .node n l [], hg, c, hc, rest => by
    simp only [printStr, toks, lenToks_false, List.append_nil]
    exact run_name n hg.1 c hc rest
  | .node n l (c1 :: cs), hg, c, hc, rest => by
    simp only [printStr, toks, lenToks_false, List.append_nil, List.cons_append, List.append_assoc]
    rw [run_lparen, run_children c1 cs hg.2.1 hg.2.2, run_name (K := K) n hg.1 c hc rest]
    cases run rest <;> simp [sTok]
termination_by t => sizeOf t
decreasing_by all_goals (simp_wf; omega)
theorem run_children {K : Type} : ∀ (c1 : PTree K) (cs : List (PTree K)), GoodTree c1 → GoodTreeL cs →
    ∀ (Z : List Char), run (printStr c1 ++ (printTail cs ++ Z)) =
      (run Z).map (fun ts => ((toks false c1 ++ toksTail false cs).map sTok) ++ ts)
  | c1, [], h1, _, Z => by
    simp only [printTail, toksTail, List.cons_append, List.nil_append]
    rw [run_printStr c1 h1 ')' (Or.inr (Or.inl rfl)) Z]
    cases run Z <;> simp [sTok]
  | c1, c2 :: cs, h1, h2, Z => by
    simp only [printTail, toksTail, List.cons_append, List.append_assoc]
    rw [run_printStr c1 h1 ',' (Or.inl rfl), run_children c2 cs h2.1 h2.2 Z]
    cases run Z <;> simp [sTok]
termination_by c1 cs => sizeOf c1 + sizeOf cs + 1
decreasing_by all_goals (simp_wf; omega)
end

theorem run_nil : run [] = some [] := rfl

/-- the whole string: tokenising what `get_newick` wrote gives the token list of the tree -/
theorem tokenise_newickStr {K : Type} (t : PTree K) (hg : GoodTree t) :
    tokenise (newickStr t) = some ((newickToks false t).map sTok) := by
  rw [tokenise_eq_run, newickStr, run_printStr t hg ';' (Or.inr (Or.inr (Or.inl rfl))) [], run_nil]
  simp [newickToks, sTok]

/-! ### with distances -/
/-- what the number printer must guarantee: a non-empty chunk of ordinary characters -/
def GoodShow {K : Type} (sh : K → List Char) : Prop :=
  ∀ k, sh k ≠ [] ∧ ∀ y ∈ sh k, PlainCh y ∧ pySpace y = false ∧ y ≠ '_'

theorem unmunge_noop : ∀ (s : List Char), (∀ y ∈ s, y ≠ '_') → unmunge s = s
  | [], _ => rfl
  | x :: s, h => by
    simp only [unmunge, h x (by simp), if_false, unmunge_noop s (fun y hy => h y (by simp [hy]))]

/-- a number chunk followed by a terminator -/
theorem run_number {K : Type} (sh : K → List Char) (hsh : GoodShow sh) (k : K) (c : Char) (hc : Term c)
    (rest : List Char) :
    run (sh k ++ c :: rest) = (run rest).map (fun ts => STok.lab (sh k) :: STok.pun c :: ts) := by
  obtain ⟨hne, hch⟩ := hsh k
  have hstrip : strip (sh k) = sh k := strip_noop _ fun y hy => (hch y hy).2.1
  have hlex := lex_plain (sh k) [] c rest (fun y hy => (hch y hy).1) hc
  simp only [List.append_nil] at hlex
  have hflush : flushTxt (sh k).reverse = [Raw.txt (sh k)] := by simp [flushTxt, hne]
  simp only [run]
  rw [show ({} : LexSt) = ⟨[], .none⟩ from rfl, hlex, hflush]
  simp only [List.singleton_append]
  rw [mRun_plain (sh k) (by rw [hstrip]; exact hne) c hc, hstrip, unmunge_noop _ fun y hy => (hch y hy).2.2]

def sTokW {K : Type} (sh : K → List Char) : Tok K → STok
  | .num k => .lab (sh k)
  | t => sTok t

theorem run_name_len {K : Type} (sh : K → List Char) (hsh : GoodShow sh) (n : String)
    (hn : n = "" ∨ GoodName n.toList) (l : Option K) (c : Char) (hc : Term c) (rest : List Char) :
    run (((if n = "" then [] else escapeName n.toList) ++ lenStr sh l) ++ c :: rest) =
      (run rest).map (fun ts => (nameToks n ++ lenToks true l).map (sTokW sh) ++ STok.pun c :: ts) := by
  cases l with
  | none =>
    have := run_name (K := K) n hn c hc rest
    simp only [lenStr, List.append_nil, lenToks] at this ⊢
    rw [this]
    by_cases h : n = "" <;> simp [nameToks, h, sTokW, sTok]
  | some k =>
    simp only [lenStr, lenToks, if_true, List.append_assoc, List.cons_append]
    rw [run_name (K := K) n hn ':' (Or.inr (Or.inr (Or.inr rfl))), run_number sh hsh k c hc rest]
    by_cases h : n = "" <;> cases run rest <;> simp [nameToks, h, sTokW, sTok]

mutual
theorem run_printStrW {K : Type} (sh : K → List Char) (hsh : GoodShow sh) : ∀ (t : PTree K), GoodTree t →
    ∀ (c : Char), Term c → ∀ (rest : List Char),
    run (printStrW sh t ++ c :: rest) = (run rest).map (fun ts => (toks true t).map (sTokW sh) ++ STok.pun c :: ts)
  | .node n l [], hg, c, hc, rest => by
    simp only [printStrW, toks]
    exact run_name_len sh hsh n hg.1 l c hc rest
  | .node n l (c1 :: cs), hg, c, hc, rest => by
    simp only [printStrW, toks, List.cons_append, List.append_assoc]
    rw [run_lparen, run_childrenW sh hsh c1 cs hg.2.1 hg.2.2]
    have := run_name_len sh hsh n hg.1 l c hc rest
    simp only [List.append_assoc] at this
    rw [this]
    cases run rest <;> simp [sTokW, sTok]
termination_by t => sizeOf t
decreasing_by all_goals (simp_wf; omega)
theorem run_childrenW {K : Type} (sh : K → List Char) (hsh : GoodShow sh) : ∀ (c1 : PTree K) (cs : List (PTree K)),
    GoodTree c1 → GoodTreeL cs → ∀ (Z : List Char), run (printStrW sh c1 ++ (printTailW sh cs ++ Z)) =
      (run Z).map (fun ts => ((toks true c1 ++ toksTail true cs).map (sTokW sh)) ++ ts)
  | c1, [], h1, _, Z => by
    simp only [printTailW, toksTail, List.cons_append, List.nil_append]
    rw [run_printStrW sh hsh c1 h1 ')' (Or.inr (Or.inl rfl)) Z]
    cases run Z <;> simp [sTokW, sTok]
  | c1, c2 :: cs, h1, h2, Z => by
    simp only [printTailW, toksTail, List.cons_append, List.append_assoc]
    rw [run_printStrW sh hsh c1 h1 ',' (Or.inl rfl), run_childrenW sh hsh c2 cs h2.1 h2.2 Z]
    cases run Z <;> simp [sTokW, sTok]
termination_by c1 cs => sizeOf c1 + sizeOf cs + 1
decreasing_by all_goals (simp_wf; omega)
end

/-- tokenising `get_newick(with_distances=True)`: the tree's token list, numbers as printed -/
theorem tokenise_newickStrW {K : Type} (sh : K → List Char) (hsh : GoodShow sh) (t : PTree K) (hg : GoodTree t) :
    tokenise (newickStrW sh t) = some ((newickToks true t).map (sTokW sh)) := by
  rw [tokenise_eq_run, newickStrW, run_printStrW sh hsh t hg ';' (Or.inr (Or.inr (Or.inl rfl))) [], run_nil]
  simp [newickToks, sTokW, sTok]

/-! ### back to the tree -/
theorem punTok_none_of {K : Type} (c : Char) (h : isPunTokChar c = false) : punTok (K := K) c = none := by
  simp only [isPunTokChar, Bool.or_eq_false_iff, decide_eq_false_iff_not] at h
  obtain ⟨⟨⟨⟨a1, a2⟩, a3⟩, a4⟩, a5⟩ := h
  simp [punTok, a1, a2, a3, a4, a5]

/-- eager classification of an unambiguous token stream (proof device; `plazy` is the model) -/
def retok {K : Type} (rd : List Char → Option K) : Bool → List STok → Option (List (Tok K))
  | _, [] => some []
  | true, .lab s :: rest =>
    match rd s with
    | none => none
    | some k => (retok rd false rest).map (Tok.num k :: ·)
  | true, .pun _ :: _ => none
  | false, .lab s :: rest =>
    if notPunLab s then (retok rd false rest).map (Tok.label (String.ofList s) :: ·) else none
  | false, .pun c :: rest =>
    match punTok (K := K) c with
    | none => none
    | some t => (retok rd (c == ':') rest).map (t :: ·)

theorem retok_name {K : Type} (rd : List Char → Option K) (sh : K → List Char) (n : String)
    (hn : n = "" ∨ GoodName n.toList) (X : List STok) :
    retok rd false ((nameToks (K := K) n).map (sTokW sh) ++ X) = (retok rd false X).map (nameToks n ++ ·) := by
  by_cases h : n = ""
  · simp [nameToks, h]
  · have hg : GoodName n.toList := by rcases hn with h' | h'; exact absurd h' h; exact h'
    simp [nameToks, h, sTokW, sTok, retok, String.ofList_toList, ((roundTrips_iff _).1 hg).2.2.2.1]

theorem retok_len {K : Type} (rd : List Char → Option K) (sh : K → List Char) (hrd : ∀ k, rd (sh k) = some k)
    (l : Option K) (X : List STok) :
    retok rd false ((lenToks true l).map (sTokW sh) ++ X) = (retok rd false X).map (lenToks true l ++ ·) := by
  cases l with
  | none => simp [lenToks]
  | some k =>
    have e1 : retok rd false (STok.pun ':' :: STok.lab (sh k) :: X) =
        (retok rd true (STok.lab (sh k) :: X)).map (Tok.colon :: ·) := rfl
    have e2 : retok rd true (STok.lab (sh k) :: X) = (retok rd false X).map (Tok.num k :: ·) := by
      simp [retok, hrd k]
    simp only [lenToks, if_true, List.map_cons, List.map_nil, sTokW, sTok, List.cons_append, List.nil_append, e1, e2]
    cases retok rd false X <;> simp

mutual
theorem retok_toks {K : Type} (rd : List Char → Option K) (sh : K → List Char) (hrd : ∀ k, rd (sh k) = some k) :
    ∀ (t : PTree K), GoodTree t → ∀ (X : List STok),
    retok rd false ((toks true t).map (sTokW sh) ++ X) = (retok rd false X).map (toks true t ++ ·)
  | .node n l [], hg, X => by
    simp only [toks, List.map_append, List.append_assoc]
    rw [retok_name rd sh n hg.1, retok_len rd sh hrd]
    cases retok rd false X <;> simp
  | .node n l (c :: cs), hg, X => by
    simp only [toks, List.map_cons, List.map_append, List.cons_append, List.append_assoc, sTokW, sTok, retok]
    rw [show punTok (K := K) '(' = some Tok.lp from rfl]
    simp only [show (('(' : Char) == ':') = false from rfl]
    rw [retok_toks rd sh hrd c hg.2.1, retok_tail rd sh hrd cs hg.2.2, retok_name rd sh n hg.1, retok_len rd sh hrd]
    cases retok rd false X <;> simp
termination_by t => sizeOf t
decreasing_by all_goals (simp_wf; omega)
theorem retok_tail {K : Type} (rd : List Char → Option K) (sh : K → List Char) (hrd : ∀ k, rd (sh k) = some k) :
    ∀ (cs : List (PTree K)), GoodTreeL cs → ∀ (X : List STok),
    retok rd false ((toksTail true cs).map (sTokW sh) ++ X) = (retok rd false X).map (toksTail true cs ++ ·)
  | [], _, X => by
    simp only [toksTail, List.map_cons, List.map_nil, sTokW, sTok, List.cons_append, List.nil_append, retok]
    rw [show punTok (K := K) ')' = some Tok.rp from rfl]
    simp only [show ((')' : Char) == ':') = false from rfl]
  | c :: cs, hg, X => by
    simp only [toksTail, List.map_cons, List.map_append, sTokW, sTok, List.cons_append, List.append_assoc, retok]
    rw [show punTok (K := K) ',' = some Tok.comma from rfl]
    simp only [show ((',' : Char) == ':') = false from rfl]
    rw [retok_toks rd sh hrd c hg.1, retok_tail rd sh hrd cs hg.2]
    cases retok rd false X <;> simp
termination_by cs => sizeOf cs
decreasing_by all_goals (simp_wf; omega)
end

theorem mRunP_of_mRun : ∀ (rs : List Raw) (σ : MSt) (ts : List STok), mRun σ rs = some ts →
    mRunP σ rs = (ts, true)
  | [], σ, ts, h => by simp only [mRun] at h; simp [mRunP, h]
  | r :: rs, σ, ts, h => by
    simp only [mRun] at h
    cases hs : mStep σ r with
    | none => simp [hs] at h
    | some p =>
      obtain ⟨σ', o⟩ := p
      simp only [hs] at h
      cases hr : mRun σ' rs with
      | none => simp [hr] at h
      | some ts' =>
        simp only [hr, Option.map_some, Option.some.injEq] at h
        subst h
        simp [mRunP, hs, mRunP_of_mRun rs σ' ts' hr]

theorem classify_name {K : Type} (rd : List Char → Option K) (s : List Char) (hp : notPunLab s = true) :
    classify rd false (STok.lab s) = some (Tok.label (String.ofList s), false) := by
  match s, hp with
  | [], _ => rfl
  | [c], hp =>
    simp only [notPunLab, Bool.and_eq_true, Bool.not_eq_true', bne_iff_ne, ne_eq] at hp
    simp [classify, punTok_none_of c hp.1, hp.2]
  | _ :: _ :: _, _ => rfl

theorem plazy_cons {K : Type} (rd : List Char → Option K) (σ : PState K) (ac : Bool) (tok : STok) (ts : List STok)
    (t : Tok K) (ac' : Bool) (toks' : List (Tok K)) (hc : classify rd ac tok = some (t, ac'))
    (ih : ∀ σ', plazy rd σ' ac' ts true = prun σ' toks') :
    plazy rd σ ac (tok :: ts) true = prun σ (t :: toks') := by
  simp only [plazy, hc, prun]
  cases pstep σ (some t) with
  | cont σ' => exact ih σ'
  | done r => rfl
  | err => rfl

/-- on an unambiguous, completely tokenised text the lazy pipeline is the parser on the classified tokens -/
theorem plazy_of_retok {K : Type} (rd : List Char → Option K) : ∀ (ts : List STok) (σ : PState K) (ac : Bool)
    (toks : List (Tok K)), retok rd ac ts = some toks → plazy rd σ ac ts true = prun σ toks
  | [], σ, ac, toks, h => by
    simp only [retok, Option.some.injEq] at h; subst h
    simp only [plazy, prun, if_true]
    cases pstep σ none <;> rfl
  | .lab s :: ts, σ, true, toks, h => by
    simp only [retok] at h
    cases hr : rd s with
    | none => simp [hr] at h
    | some k =>
      simp only [hr] at h
      cases ht : retok rd false ts with
      | none => simp [ht] at h
      | some toks' =>
        simp only [ht, Option.map_some, Option.some.injEq] at h; subst h
        exact plazy_cons rd σ true _ ts (Tok.num k) false toks' (by simp [classify, hr])
          (fun σ' => plazy_of_retok rd ts σ' false toks' ht)
  | .pun c :: ts, σ, true, toks, h => by simp [retok] at h
  | .lab s :: ts, σ, false, toks, h => by
    simp only [retok] at h
    by_cases hp : notPunLab s = true
    · simp only [hp, if_true] at h
      cases ht : retok rd false ts with
      | none => simp [ht] at h
      | some toks' =>
        simp only [ht, Option.map_some, Option.some.injEq] at h; subst h
        exact plazy_cons rd σ false _ ts _ false toks' (classify_name rd s hp)
          (fun σ' => plazy_of_retok rd ts σ' false toks' ht)
    · simp [hp] at h
  | .pun c :: ts, σ, false, toks, h => by
    simp only [retok] at h
    cases hc : punTok (K := K) c with
    | none => simp [hc] at h
    | some t =>
      simp only [hc] at h
      cases ht : retok rd (c == ':') ts with
      | none => simp [ht] at h
      | some toks' =>
        simp only [ht, Option.map_some, Option.some.injEq] at h; subst h
        exact plazy_cons rd σ false _ ts t (c == ':') toks' (by simp [classify, hc])
          (fun σ' => plazy_of_retok rd ts σ' (c == ':') toks' ht)

/-- STRING-LEVEL ROUND TRIP: `parse_string(get_newick(with_distances=True))` gives back the tree -/
theorem parseString_newickStrW {K : Type} (sh : K → List Char) (rd : List Char → Option K)
    (hsh : GoodShow sh) (hrd : ∀ k, rd (sh k) = some k) (t : PTree K) (hg : GoodTree t) :
    parseString rd (newickStrW sh t) = some t := by
  have htok := tokenise_newickStrW sh hsh t hg
  have hP : tokeniseP (newickStrW sh t) = ((newickToks true t).map (sTokW sh), true) :=
    mRunP_of_mRun _ _ _ htok
  have h := retok_toks rd sh hrd t hg [STok.pun ';']
  have hsemi : retok rd false [STok.pun ';'] = some [Tok.semi] := by
    simp [retok, punTok]
  rw [hsemi] at h
  have hl : (newickToks true t).map (sTokW sh) = (toks true t).map (sTokW sh) ++ [STok.pun ';'] := by
    simp [newickToks, sTokW, sTok]
  simp only [Option.map_some] at h
  unfold parseString
  simp only [hP]
  rw [hl, plazy_of_retok rd _ {} false _ h]
  have := parse_newickToks true t
  rw [stripLens_true] at this
  simpa [newickToks, parseToks] using this

/-! ### names: the old printable-ASCII hypothesis is a special case; one name beside a plain tip -/
theorem roundTrips_of_printable (n : List Char) (hne : n ≠ []) (hhead : n.head? ≠ some '\'')
    (hpr : ∀ x ∈ n, Printable x) (hp : notPunLab n = true) : roundTrips n = true := by
  rw [roundTrips_iff]
  refine ⟨hne, fun x hx => printable_ne_nl (hpr x hx), hhead, hp, Or.inr ⟨?_, ?_⟩⟩
  · intro x hx
    have hm : x ∈ n := List.mem_of_head? hx
    by_cases hs : x = ' '
    · subst hs; decide
    · simp [hardSpace, printable_not_space (hpr x hm) hs]
  · intro x hx
    have hm : x ∈ n := List.mem_of_getLast? hx
    by_cases hs : x = ' '
    · subst hs; decide
    · simp [hardSpace, printable_not_space (hpr x hm) hs]

theorem goodShow_one : GoodShow (fun (_ : Unit) => ['1']) := by
  intro k
  refine ⟨by simp, ?_⟩
  intro y hy
  simp only [List.mem_cons, List.mem_nil_iff, or_false] at hy
  subst hy
  exact ⟨⟨by decide, by decide, by decide, by decide, by decide⟩, by decide, by decide⟩

theorem nameRoundTrip_of_roundTrips (n : List Char) (h : roundTrips n = true) :
    nameRoundTrip n = some (String.ofList n) := by
  have hg : GoodTree (K := Unit) (.node "" none [.node (String.ofList n) none [], .node "z" none []]) := by
    refine ⟨Or.inl rfl, ⟨Or.inr ?_, trivial⟩, ⟨Or.inr ?_, trivial⟩, trivial⟩
    · simpa [GoodName, String.toList_ofList] using h
    · show roundTrips "z".toList = true
      decide
  have hrt := parseString_newickStrW (fun (_ : Unit) => ['1']) (fun _ => some ()) goodShow_one (fun _ => rfl) _ hg
  have heq : newickStrW (fun (_ : Unit) => ['1']) (.node "" none [.node (String.ofList n) none [], .node "z" none []])
      = newickStr (K := Unit) (.node "" none [.node (String.ofList n) none [], .node "z" none []]) := by
    simp [newickStrW, newickStr, printStrW, printTailW, printStr, printTail, lenStr]
  unfold nameRoundTrip
  rw [← heq, hrt]
  first | rfl | simp


end CogentModel.Phylo
