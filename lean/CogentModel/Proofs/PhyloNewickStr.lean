import CogentModel.Model.PhyloNewickStr
import CogentModel.Model.PhyloNewick
import CogentModel.Proofs.PhyloBasic
import CogentModel.Proofs.PhyloNewick
set_option linter.unusedSimpArgs false
set_option linter.unusedVariables false
/-! C09: the character-level tokeniser reads back what the writer's escaping produced. -/
namespace CogentModel.Phylo

/-- terminators that can follow a node in the output without distances -/
def Term (c : Char) : Prop := c = ',' ∨ c = ')' ∨ c = ';' ∨ c = ':'

def Printable (c : Char) : Prop := 32 ≤ c.toNat ∧ c.toNat ≤ 126

instance : DecidablePred Printable := fun c => by unfold Printable; infer_instance

/-! ### stage 1 on the pieces the writer emits -/
theorem lexRun_cons (σ : LexSt) (c : Char) (cs : List Char) :
    lexRun σ (c :: cs) = (lexStep σ c).2 ++ lexRun (lexStep σ c).1 cs := rfl

theorem lex_term (c : Char) (hc : Term c) (rest : List Char) :
    lexRun {} (c :: rest) = Raw.sp c :: lexRun {} rest := by
  rcases hc with rfl | rfl | rfl | rfl <;> rfl

theorem lex_lparen (rest : List Char) : lexRun {} ('(' :: rest) = Raw.sp '(' :: lexRun {} rest := rfl

/-- a character that goes into an unquoted text chunk -/
def PlainCh (x : Char) : Prop :=
  isBlank x = false ∧ x ≠ '\n' ∧ x ≠ '\'' ∧ x ≠ '"' ∧ isPunct x = false

theorem lexFresh_plain (acc : List Char) (x : Char) (hx : PlainCh x) :
    lexFresh acc x = (⟨x :: acc, .none⟩, []) := by
  obtain ⟨h1, h2, h3, h4, h5⟩ := hx
  simp [lexFresh, h1, h2, h3, h4, h5]

theorem lexFresh_term (acc : List Char) (c : Char) (hc : Term c) :
    lexFresh acc c = (⟨[], .none⟩, flushTxt acc ++ [Raw.sp c]) := by
  rcases hc with rfl | rfl | rfl | rfl <;> simp [lexFresh, isBlank, isPunct]

theorem lex_plain : ∀ (m acc : List Char) (c : Char) (rest : List Char), (∀ x ∈ m, PlainCh x) → Term c →
    lexRun ⟨acc, .none⟩ (m ++ c :: rest) = flushTxt (m.reverse ++ acc) ++ Raw.sp c :: lexRun {} rest
  | [], acc, c, rest, _, hc => by
    simp only [List.nil_append, lexRun_cons, lexStep, lexFresh_term acc c hc, List.reverse_nil, List.append_assoc]
    rfl
  | x :: m, acc, c, rest, hm, hc => by
    have hx := hm x (by simp)
    simp only [List.cons_append, lexRun_cons, lexStep, lexFresh_plain acc x hx, List.nil_append]
    rw [lex_plain m (x :: acc) c rest (fun y hy => hm y (by simp [hy])) hc]
    simp

/-! ### inside a quoted label -/
def pendStr (σ : LexSt) : List Char :=
  match σ.pend with
  | .none => σ.txt.reverse
  | .ws run => run.reverse
  | .sq => ['\'']
  | .dq => ['"']

/-- what a piece contributes to the text of a label quoted with `'` -/
def inQuoteStr : Raw → List Char
  | .sq2 => ['\'']
  | r => r.str

def QOK (R : List Raw) : Prop := ∀ r ∈ R, r ≠ Raw.nl ∧ r ≠ Raw.sp '\''

/-- emitting what is pending -/
def flushPend (σ : LexSt) : List Raw :=
  match σ.pend with
  | .none => flushTxt σ.txt
  | .ws run => [.ws run.reverse]
  | .sq => [.sp '\'']
  | .dq => [.sp '"']

theorem flushPend_str (σ : LexSt) (hsq : σ.pend ≠ .sq) :
    QOK (flushPend σ) ∧ (flushPend σ).flatMap inQuoteStr = pendStr σ := by
  cases σ with
  | mk txt pend =>
    cases pend with
    | none =>
      by_cases h : txt = []
      · subst h; simp [flushPend, flushTxt, pendStr, QOK]
      · simp [flushPend, flushTxt, pendStr, QOK, h, inQuoteStr, Raw.str]
    | ws run => simp [flushPend, pendStr, QOK, inQuoteStr, Raw.str]
    | sq => exact absurd rfl hsq
    | dq => simp [flushPend, pendStr, QOK, inQuoteStr, Raw.str]

/-- a lexer state is well formed when nothing is both pending and buffered -/
def LexWF (σ : LexSt) : Prop := σ.pend ≠ .sq ∧ (match σ.pend with | .none => True | _ => σ.txt = [])

theorem lex_close : ∀ (σ : LexSt), LexWF σ → ∀ (c : Char) (rest : List Char), Term c →
    lexRun σ ('\'' :: c :: rest) = flushPend σ ++ Raw.sp '\'' :: Raw.sp c :: lexRun {} rest := by
  intro σ hwf c rest hc
  have hcq : c ≠ '\'' := by rcases hc with rfl | rfl | rfl | rfl <;> decide
  have hfresh : ∀ acc, lexFresh acc '\'' = (⟨[], .sq⟩, flushTxt acc) := by
    intro acc; simp [lexFresh, isBlank]
  have hsecond : lexRun ⟨[], .sq⟩ (c :: rest) = Raw.sp '\'' :: Raw.sp c :: lexRun {} rest := by
    simp only [lexRun_cons, lexStep, hcq, if_false, lexFresh_term [] c hc]
    simp [flushTxt]
  cases σ with
  | mk txt pend =>
    cases pend with
    | none =>
      have h1 : lexStep ⟨txt, .none⟩ '\'' = (⟨[], .sq⟩, flushTxt txt) := by simp [lexStep, hfresh]
      rw [lexRun_cons, h1, hsecond]; simp [flushPend]
    | ws run =>
      have h1 : lexStep ⟨txt, .ws run⟩ '\'' = (⟨[], .sq⟩, [Raw.ws run.reverse]) := by
        simp [lexStep, isBlank, hfresh, flushTxt]
      rw [lexRun_cons, h1, hsecond]; simp [flushPend]
    | sq => exact absurd rfl hwf.1
    | dq =>
      have h1 : lexStep ⟨txt, .dq⟩ '\'' = (⟨[], .sq⟩, [Raw.sp '"']) := by
        simp [lexStep, hfresh, flushTxt]
      rw [lexRun_cons, h1, hsecond]; simp [flushPend]

theorem flushTxt_str (txt : List Char) :
    QOK (flushTxt txt) ∧ (flushTxt txt).flatMap inQuoteStr = txt.reverse := by
  by_cases h : txt = []
  · subst h; simp [flushTxt, QOK]
  · simp [flushTxt, QOK, h, inQuoteStr, Raw.str]

theorem lexStep_quote (σ : LexSt) (hwf : LexWF σ) : lexStep σ '\'' = (⟨[], .sq⟩, flushPend σ) := by
  have hfresh : ∀ acc, lexFresh acc '\'' = (⟨[], .sq⟩, flushTxt acc) := by
    intro acc; simp [lexFresh, isBlank]
  cases σ with
  | mk txt pend =>
    cases pend with
    | none => simp [lexStep, hfresh, flushPend]
    | ws run => simp [lexStep, isBlank, hfresh, flushTxt, flushPend]
    | sq => exact absurd rfl hwf.1
    | dq => simp [lexStep, hfresh, flushTxt, flushPend]

/-- one ordinary character (not a single quote, not a newline) inside a quoted label -/
theorem lexFresh_inv (txt : List Char) (x : Char) (hq : x ≠ '\'') (hn : x ≠ '\n') :
    LexWF (lexFresh txt x).1 ∧ QOK (lexFresh txt x).2 ∧
      (lexFresh txt x).2.flatMap inQuoteStr ++ pendStr (lexFresh txt x).1 = txt.reverse ++ [x] := by
  obtain ⟨hf1, hf2⟩ := flushTxt_str txt
  unfold lexFresh
  by_cases h1 : isBlank x = true
  · simp only [h1, if_true]
    exact ⟨(by first | exact ⟨by simp, trivial⟩ | exact ⟨by simp, rfl⟩), hf1, by simp [hf2, pendStr]⟩
  · simp only [h1, hn, hq, if_false]
    by_cases h2 : x = '"'
    · simp only [h2, if_true]
      exact ⟨(by first | exact ⟨by simp, trivial⟩ | exact ⟨by simp, rfl⟩), hf1, by simp [hf2, pendStr]⟩
    · simp only [h2, if_false]
      by_cases h3 : isPunct x = true
      · simp only [h3, if_true]
        refine ⟨(by first | exact ⟨by simp, trivial⟩ | exact ⟨by simp, rfl⟩), ?_, by simp [hf2, pendStr, inQuoteStr, Raw.str]⟩
        intro r hr
        rcases List.mem_append.1 hr with hr | hr
        · exact hf1 r hr
        · have := List.mem_singleton.1 hr
          subst this
          exact ⟨by simp, by simpa using hq⟩
      · simp only [h3, if_false]
        exact ⟨(by first | exact ⟨by simp, trivial⟩ | exact ⟨by simp, rfl⟩), (by intro r hr; simp at hr), by simp [pendStr]⟩

theorem lexStep_inv (σ : LexSt) (hwf : LexWF σ) (x : Char) (hq : x ≠ '\'') (hn : x ≠ '\n') :
    LexWF (lexStep σ x).1 ∧ QOK (lexStep σ x).2 ∧
      (lexStep σ x).2.flatMap inQuoteStr ++ pendStr (lexStep σ x).1 = pendStr σ ++ [x] := by
  cases σ with
  | mk txt pend =>
    cases pend with
    | none => simpa [lexStep, pendStr] using lexFresh_inv txt x hq hn
    | sq => exact absurd rfl hwf.1
    | ws run =>
      simp only [lexStep]
      by_cases h1 : isBlank x = true
      · simp only [h1, if_true]
        exact ⟨(by first | exact ⟨by simp, trivial⟩ | exact ⟨by simp, rfl⟩), by simp [QOK], by simp [pendStr]⟩
      · simp only [h1, if_false, Bool.false_eq_true, reduceIte]
        obtain ⟨a, b, c⟩ := lexFresh_inv [] x hq hn
        refine ⟨a, ?_, ?_⟩
        · intro r hr
          rcases List.mem_cons.1 hr with rfl | hr
          · simp
          · exact b r hr
        · rw [List.flatMap_cons, List.append_assoc, c]
          simp [inQuoteStr, Raw.str, pendStr]
    | dq =>
      simp only [lexStep]
      by_cases h1 : x = '"'
      · simp only [h1, if_true]
        exact ⟨(by first | exact ⟨by simp, trivial⟩ | exact ⟨by simp, rfl⟩), by simp [QOK], by simp [pendStr, inQuoteStr, Raw.str]⟩
      · simp only [h1, if_false, Bool.false_eq_true, reduceIte]
        obtain ⟨a, b, c⟩ := lexFresh_inv [] x hq hn
        refine ⟨a, ?_, ?_⟩
        · intro r hr
          rcases List.mem_cons.1 hr with rfl | hr
          · simp
          · exact b r hr
        · rw [List.flatMap_cons, List.append_assoc, c]
          simp [inQuoteStr, Raw.str, pendStr]

theorem QOK_append {A B : List Raw} (ha : QOK A) (hb : QOK B) : QOK (A ++ B) := by
  intro r hr
  rcases List.mem_append.1 hr with h | h
  · exact ha r h
  · exact hb r h

/-- the body of a quoted label, up to and including the closing quote and the terminator -/
theorem lex_body : ∀ (n : List Char) (σ : LexSt), LexWF σ → (∀ x ∈ n, x ≠ '\n') →
    ∃ R, QOK R ∧ R.flatMap inQuoteStr = pendStr σ ++ n ∧
      ∀ (c : Char) (rest : List Char), Term c →
        lexRun σ (doubleQuotes n ++ '\'' :: c :: rest) = R ++ Raw.sp '\'' :: Raw.sp c :: lexRun {} rest
  | [], σ, hwf, _ => by
    obtain ⟨h1, h2⟩ := flushPend_str σ hwf.1
    exact ⟨flushPend σ, h1, by simpa using h2, fun c rest hc => by simpa [doubleQuotes] using lex_close σ hwf c rest hc⟩
  | x :: n, σ, hwf, hn => by
    have hn' : ∀ y ∈ n, y ≠ '\n' := fun y hy => hn y (by simp [hy])
    by_cases hx : x = '\''
    · subst hx
      obtain ⟨R', hq', hs', hl'⟩ := lex_body n ⟨[], .none⟩ ⟨by simp, trivial⟩ hn'
      obtain ⟨h1, h2⟩ := flushPend_str σ hwf.1
      refine ⟨flushPend σ ++ Raw.sq2 :: R', QOK_append h1 ?_, ?_, ?_⟩
      · intro r hr
        rcases List.mem_cons.1 hr with rfl | hr
        · simp
        · exact hq' r hr
      · simp only [List.flatMap_append, List.flatMap_cons, h2, hs', inQuoteStr, pendStr]
        simp
      · intro c rest hc
        have e2 : lexStep ⟨[], .sq⟩ '\'' = (⟨[], .none⟩, [Raw.sq2]) := by simp [lexStep]
        simp only [doubleQuotes, if_true, List.cons_append]
        rw [lexRun_cons, lexStep_quote σ hwf, lexRun_cons, e2, hl' c rest hc]
        simp
    · obtain ⟨hw, hq, hs⟩ := lexStep_inv σ hwf x hx (hn x (by simp))
      obtain ⟨R', hq', hs', hl'⟩ := lex_body n (lexStep σ x).1 hw hn'
      refine ⟨(lexStep σ x).2 ++ R', QOK_append hq hq', ?_, ?_⟩
      · rw [List.flatMap_append, hs', ← List.append_assoc, hs]; simp
      · intro c rest hc
        simp only [doubleQuotes, hx, if_false, List.cons_append]
        rw [lexRun_cons, hl' c rest hc]
        simp

/-! ### stage 2 -/
def feed : MSt → List Raw → Option (MSt × List STok)
  | σ, [] => some (σ, [])
  | σ, r :: rs =>
    match mStep σ r with
    | none => none
    | some (σ', o) => (feed σ' rs).map fun p => (p.1, o ++ p.2)

theorem mRun_append : ∀ (A B : List Raw) (σ : MSt),
    mRun σ (A ++ B) = match feed σ A with
      | none => none
      | some (σ', o) => (mRun σ' B).map (o ++ ·)
  | [], B, σ => by simp [feed]
  | r :: A, B, σ => by
    simp only [List.cons_append, mRun, feed]
    cases h : mStep σ r with
    | none => rfl
    | some p =>
      obtain ⟨σ', o⟩ := p
      simp only [mRun_append A B σ']
      cases h2 : feed σ' A with
      | none => rfl
      | some q =>
        obtain ⟨σ'', o'⟩ := q
        simp only [Option.map_some]
        cases mRun σ'' B <;> simp

/-- pieces met inside a quoted label are appended to its text -/
theorem feedQ : ∀ (R : List Raw) (acc : List Char), QOK R →
    feed ⟨some acc, some '\'', false, []⟩ R = some (⟨some (acc ++ R.flatMap inQuoteStr), some '\'', false, []⟩, [])
  | [], acc, _ => by simp [feed]
  | r :: R, acc, h => by
    obtain ⟨h1, h2⟩ := h r (by simp)
    have hR : QOK R := fun x hx => h x (by simp [hx])
    have hstep : mStep ⟨some acc, some '\'', false, []⟩ r =
        some (⟨some (acc ++ inQuoteStr r), some '\'', false, []⟩, []) := by
      simp only [mStep, mBody, h1, h2, if_false, Bool.false_eq_true]
      cases r <;> simp [inQuoteStr, Raw.str] at h1 h2 ⊢
    simp only [feed, hstep, feedQ R _ hR]
    simp

theorem mStep_pun (c : Char) (hc : isPunct c = true) (h1 : c ≠ '[') (h2 : c ≠ ']') :
    mStep {} (Raw.sp c) = some ({}, [STok.pun c]) := by
  simp [mStep, mBody, hc, finishText, h1, h2]

theorem mRun_pun (c : Char) (hc : isPunct c = true) (h1 : c ≠ '[') (h2 : c ≠ ']') (X : List Raw) :
    mRun {} (Raw.sp c :: X) = (mRun {} X).map (STok.pun c :: ·) := by
  simp only [mRun, mStep_pun c hc h1 h2]
  cases mRun {} X <;> simp

theorem term_punct {c : Char} (hc : Term c) : isPunct c = true ∧ c ≠ '[' ∧ c ≠ ']' ∧ c ≠ '\'' := by
  rcases hc with rfl | rfl | rfl | rfl <;> decide

/-- an unquoted label followed by a terminator -/
theorem mRun_plain (m : List Char) (hm : strip m ≠ []) (c : Char) (hc : Term c) (X : List Raw) :
    mRun {} (Raw.txt m :: Raw.sp c :: X) =
      (mRun {} X).map (fun ts => STok.lab (unmunge (strip m)) :: STok.pun c :: ts) := by
  obtain ⟨hp, h1, h2, _⟩ := term_punct hc
  have hne : m ≠ [] := by rintro rfl; simp [strip] at hm
  obtain ⟨c0, cs, rfl⟩ := List.exists_cons_of_ne_nil hne
  have hs1 : mStep {} (Raw.txt (c0 :: cs)) = some (⟨some (c0 :: cs), none, false, []⟩, []) := by
    simp [mStep, mBody, Raw.str, hm]
  have hs2 : mStep ⟨some (c0 :: cs), none, false, []⟩ (Raw.sp c) =
      some ({}, [STok.lab (unmunge (strip (c0 :: cs))), STok.pun c]) := by
    simp [mStep, mBody, hp, finishText, h1, h2]
  simp only [mRun, hs1, hs2]
  cases mRun {} X <;> simp

/-- a quoted label followed by a terminator -/
theorem mRun_quoted (R : List Raw) (hR : QOK R) (c : Char) (hc : Term c) (X : List Raw) :
    mRun {} (Raw.sp '\'' :: (R ++ Raw.sp '\'' :: Raw.sp c :: X)) =
      (mRun {} X).map (fun ts => STok.lab (R.flatMap inQuoteStr) :: STok.pun c :: ts) := by
  obtain ⟨hp, h1, h2, _⟩ := term_punct hc
  have hs1 : mStep {} (Raw.sp '\'') = some (⟨some [], some '\'', false, []⟩, []) := by
    simp [mStep, mBody, isPunct]
  have hs2 : mStep ⟨some (R.flatMap inQuoteStr), some '\'', false, []⟩ (Raw.sp '\'') =
      some ({}, [STok.lab (R.flatMap inQuoteStr)]) := by
    simp [mStep, mBody]
  simp only [mRun, hs1, Option.map_some]
  rw [mRun_append R _ _, feedQ R [] hR]
  simp only [List.nil_append, mRun, hs2, mStep_pun c hp h1 h2]
  cases mRun {} X <;> simp

/-! ### names -/
/-- the strings `parse_string` compares tokens with -/
def isPunTokChar (c : Char) : Bool := c = '(' || c = ')' || c = ',' || c = ':' || c = ';'

/-- a label that is not one of the punctuation strings -/
def notPunLab (s : List Char) : Bool :=
  match s with
  | [c] => !isPunTokChar c && c != '['
  | _ => true

/-- names the writer / tokeniser / parser triple handles: non-empty printable ASCII, not beginning
with a single quote (known finding C09-newick-leading-quote-name), and not consisting of a single
punctuation character `( ) , : ; [` (a quoted label that equals a punctuation string is taken for
the punctuation by `parse_string`; known finding C09-newick-punctuation-name) -/
def GoodName (n : List Char) : Prop :=
  n ≠ [] ∧ n.head? ≠ some '\'' ∧ (∀ x ∈ n, Printable x) ∧ notPunLab n = true

theorem printable_ne_nl {x : Char} (h : Printable x) : x ≠ '\n' := by
  rintro rfl; exact absurd h.1 (by decide)

theorem printable_ne_tab {x : Char} (h : Printable x) : x ≠ '\t' := by
  rintro rfl; exact absurd h.1 (by decide)

theorem printable_ne_cr {x : Char} (h : Printable x) : x ≠ '\r' := by
  rintro rfl; exact absurd h.1 (by decide)

theorem printable_not_space {x : Char} (h : Printable x) (hs : x ≠ ' ') : pySpace x = false := by
  have h1 := printable_ne_tab h
  have h2 := printable_ne_nl h
  have h3 := printable_ne_cr h
  have h32 := h.1
  simp only [pySpace, hs, h1, h2, h3, decide_false, Bool.false_or, Bool.or_eq_false_iff,
    decide_eq_false_iff_not, Bool.and_eq_false_iff]
  refine ⟨⟨by omega, by omega⟩, Or.inr (by omega)⟩

theorem plain_of {x : Char} (h : Printable x) (hq : needsQuote x = false) (hs : x ≠ ' ') : PlainCh x := by
  have h1 := printable_ne_tab h
  have h2 := printable_ne_nl h
  simp only [needsQuote, Bool.or_eq_false_iff, decide_eq_false_iff_not] at hq
  obtain ⟨⟨⟨⟨⟨⟨⟨⟨⟨a1, a2⟩, a3⟩, a4⟩, a5⟩, a6⟩, a7⟩, a8⟩, a9⟩, a10⟩ := hq
  refine ⟨by simp [isBlank, hs, h1], h2, a3, a4, by simp [isPunct, a1, a2, a5, a6, a7, a8, a9]⟩

theorem plain_underscore : PlainCh '_' := by
  refine ⟨by decide, by decide, by decide, by decide, by decide⟩

theorem munge_plain : ∀ (n : List Char), (∀ x ∈ n, Printable x) → n.any needsQuote = false →
    ∀ y ∈ munge n, PlainCh y ∧ pySpace y = false
  | [], _, _, y, hy => by simp [munge] at hy
  | x :: n, hp, hq, y, hy => by
    simp only [List.any_cons, Bool.or_eq_false_iff] at hq
    simp only [munge, List.mem_cons] at hy
    rcases hy with rfl | hy
    · by_cases hs : x = ' '
      · simp only [hs, if_true]; exact ⟨plain_underscore, by decide⟩
      · simp only [hs, if_false]
        exact ⟨plain_of (hp x (by simp)) hq.1 hs, printable_not_space (hp x (by simp)) hs⟩
    · exact munge_plain n (fun z hz => hp z (by simp [hz])) hq.2 y hy

theorem unmunge_munge : ∀ (n : List Char), n.any needsQuote = false → unmunge (munge n) = n
  | [], _ => rfl
  | x :: n, hq => by
    simp only [List.any_cons, Bool.or_eq_false_iff] at hq
    have hu : x ≠ '_' := by
      rintro rfl; exact absurd hq.1 (by decide)
    simp only [munge, unmunge, unmunge_munge n hq.2]
    by_cases hs : x = ' '
    · simp [hs]
    · simp [hs, hu]

theorem strip_noop (s : List Char) (h : ∀ y ∈ s, pySpace y = false) : strip s = s := by
  have h1 : ∀ l : List Char, (∀ y ∈ l, pySpace y = false) → l.dropWhile pySpace = l := by
    intro l hl
    cases l with
    | nil => rfl
    | cons a l => simp [List.dropWhile, hl a (by simp)]
  unfold strip
  rw [h1 s h, h1 s.reverse (fun y hy => h y (List.mem_reverse.1 hy)), List.reverse_reverse]

theorem munge_ne_nil {n : List Char} (h : n ≠ []) : munge n ≠ [] := by
  cases n with
  | nil => exact absurd rfl h
  | cons x n => simp [munge]

/-! ### the two stages together -/
def run (cs : List Char) : Option (List STok) := mRun {} (lexRun {} cs)

theorem tokenise_eq_run (cs : List Char) : tokenise cs = run cs := rfl

theorem run_term (c : Char) (hc : Term c) (rest : List Char) :
    run (c :: rest) = (run rest).map (STok.pun c :: ·) := by
  obtain ⟨hp, h1, h2, _⟩ := term_punct hc
  simp only [run, lex_term c hc, mRun_pun c hp h1 h2]

theorem run_lparen (rest : List Char) : run ('(' :: rest) = (run rest).map (STok.pun '(' :: ·) := by
  simp only [run, lex_lparen, mRun_pun '(' (by decide) (by decide) (by decide)]

theorem startsEndsQuote_false {n : List Char} (h : n.head? ≠ some '\'') : startsEndsQuote n = false := by
  cases n with
  | nil => rfl
  | cons c cs =>
    have : c ≠ '\'' := by simpa using h
    simp [startsEndsQuote, this]

/-- the escaped name followed by a terminator is read back as the name -/
theorem run_label (n : List Char) (hn : GoodName n) (c : Char) (hc : Term c) (rest : List Char) :
    run (escapeName n ++ c :: rest) = (run rest).map (fun ts => STok.lab n :: STok.pun c :: ts) := by
  obtain ⟨hne, hhead, hpr, _⟩ := hn
  unfold escapeName
  rw [startsEndsQuote_false hhead]
  simp only [Bool.false_eq_true, if_false]
  by_cases hq : n.any needsQuote = true
  · -- quoted
    simp only [hq, if_true]
    obtain ⟨x, n', rfl⟩ := List.exists_cons_of_ne_nil hne
    have hx : x ≠ '\'' := by simpa using hhead
    obtain ⟨R, hR, hRs, hRl⟩ := lex_body (x :: n') ⟨[], .none⟩ ⟨by simp, trivial⟩
      (fun y hy => printable_ne_nl (hpr y hy))
    have hopen : lexRun {} ('\'' :: (doubleQuotes (x :: n') ++ '\'' :: c :: rest)) =
        Raw.sp '\'' :: lexRun ⟨[], .none⟩ (doubleQuotes (x :: n') ++ '\'' :: c :: rest) := by
      have e1 : lexStep {} '\'' = (⟨[], .sq⟩, []) := by simp [lexStep, lexFresh, isBlank, flushTxt]
      rw [lexRun_cons, e1]
      simp only [doubleQuotes, hx, if_false, List.cons_append, List.nil_append]
      rw [lexRun_cons, lexRun_cons]
      simp [lexStep, hx]
    simp only [run, List.cons_append, List.append_assoc, List.singleton_append, List.nil_append] at hopen ⊢
    rw [hopen, hRl c rest hc, mRun_quoted R hR c hc, hRs]
    simp [pendStr]
  · -- unquoted
    have hq' : n.any needsQuote = false := by simpa using hq
    simp only [hq', Bool.false_eq_true, if_false]
    have hm := munge_plain n hpr hq'
    have hstrip : strip (munge n) = munge n := strip_noop _ fun y hy => (hm y hy).2
    have hne' := munge_ne_nil hne
    have hlex := lex_plain (munge n) [] c rest (fun y hy => (hm y hy).1) hc
    simp only [List.append_nil] at hlex
    have hflush : flushTxt (munge n).reverse = [Raw.txt (munge n)] := by
      simp [flushTxt, hne']
    simp only [run]
    rw [show ({} : LexSt) = ⟨[], .none⟩ from rfl, hlex, hflush]
    simp only [List.singleton_append]
    rw [mRun_plain (munge n) (by rw [hstrip]; exact hne') c hc, hstrip, unmunge_munge n hq']

/-! ### whole trees -/
def sTok {K : Type} : Tok K → STok
  | .lp => .pun '('
  | .rp => .pun ')'
  | .comma => .pun ','
  | .colon => .pun ':'
  | .semi => .pun ';'
  | .label s => .lab s.toList
  | .num _ => .lab []

/- every node is unnamed or has a name the writer/tokeniser pair handles -/
mutual
def GoodTree {K : Type} : PTree K → Prop
  | .node n _ cs => (n = "" ∨ GoodName n.toList) ∧ GoodTreeL cs
def GoodTreeL {K : Type} : List (PTree K) → Prop
  | [] => True
  | c :: cs => GoodTree c ∧ GoodTreeL cs
end

theorem run_name {K : Type} (n : String) (hn : n = "" ∨ GoodName n.toList) (c : Char) (hc : Term c)
    (rest : List Char) :
    run ((if n = "" then [] else escapeName n.toList) ++ c :: rest) =
      (run rest).map (fun ts => (nameToks (K := K) n).map sTok ++ STok.pun c :: ts) := by
  by_cases h : n = ""
  · simp only [h, if_true, List.nil_append, nameToks, List.map_nil]
    exact run_term c hc rest
  · have hg : GoodName n.toList := by rcases hn with h' | h'; exact absurd h' h; exact h'
    simp only [h, if_false, nameToks, List.map_cons, List.map_nil, sTok, List.singleton_append]
    exact run_label n.toList hg c hc rest

theorem lenToks_false {K : Type} (l : Option K) : lenToks false l = [] := by
  cases l <;> simp [lenToks]

theorem printTail_head {K : Type} (cs : List (PTree K)) : ∃ d more, printTail cs = d :: more ∧ Term d := by
  cases cs with
  | nil => exact ⟨')', [], rfl, Or.inr (Or.inl rfl)⟩
  | cons c cs => exact ⟨',', _, rfl, Or.inl rfl⟩

mutual
theorem run_printStr {K : Type} : ∀ (t : PTree K), GoodTree t → ∀ (c : Char), Term c → ∀ (rest : List Char),
    run (printStr t ++ c :: rest) = (run rest).map (fun ts => (toks false t).map sTok ++ STok.pun c :: ts)
  | .node n l [], hg, c, hc, rest => by
    simp only [printStr, toks, lenToks_false, List.append_nil]
    exact run_name n hg.1 c hc rest
  | .node n l (c1 :: cs), hg, c, hc, rest => by
    simp only [printStr, toks, lenToks_false, List.append_nil, List.cons_append, List.append_assoc]
    rw [run_lparen, run_children c1 cs hg.2.1 hg.2.2, run_name (K := K) n hg.1 c hc rest]
    cases run rest <;> simp [sTok]
termination_by t => sizeOf t
decreasing_by all_goals (simp_wf; omega)
theorem run_children {K : Type} : ∀ (c1 : PTree K) (cs : List (PTree K)), GoodTree c1 → GoodTreeL cs →
    ∀ (Z : List Char), run (printStr c1 ++ (printTail cs ++ Z)) =
      (run Z).map (fun ts => ((toks false c1 ++ toksTail false cs).map sTok) ++ ts)
  | c1, [], h1, _, Z => by
    simp only [printTail, toksTail, List.cons_append, List.nil_append]
    rw [run_printStr c1 h1 ')' (Or.inr (Or.inl rfl)) Z]
    cases run Z <;> simp [sTok]
  | c1, c2 :: cs, h1, h2, Z => by
    simp only [printTail, toksTail, List.cons_append, List.append_assoc]
    rw [run_printStr c1 h1 ',' (Or.inl rfl), run_children c2 cs h2.1 h2.2 Z]
    cases run Z <;> simp [sTok]
termination_by c1 cs => sizeOf c1 + sizeOf cs + 1
decreasing_by all_goals (simp_wf; omega)
end

theorem run_nil : run [] = some [] := rfl

/-- the whole string: tokenising what `get_newick` wrote gives the token list of the tree -/
theorem tokenise_newickStr {K : Type} (t : PTree K) (hg : GoodTree t) :
    tokenise (newickStr t) = some ((newickToks false t).map sTok) := by
  rw [tokenise_eq_run, newickStr, run_printStr t hg ';' (Or.inr (Or.inr (Or.inl rfl))) [], run_nil]
  simp [newickToks, sTok]

/-! ### with distances -/
/-- what the number printer must guarantee: a non-empty chunk of ordinary characters -/
def GoodShow {K : Type} (sh : K → List Char) : Prop :=
  ∀ k, sh k ≠ [] ∧ ∀ y ∈ sh k, PlainCh y ∧ pySpace y = false ∧ y ≠ '_'

theorem unmunge_noop : ∀ (s : List Char), (∀ y ∈ s, y ≠ '_') → unmunge s = s
  | [], _ => rfl
  | x :: s, h => by
    simp only [unmunge, h x (by simp), if_false, unmunge_noop s (fun y hy => h y (by simp [hy]))]

/-- a number chunk followed by a terminator -/
theorem run_number {K : Type} (sh : K → List Char) (hsh : GoodShow sh) (k : K) (c : Char) (hc : Term c)
    (rest : List Char) :
    run (sh k ++ c :: rest) = (run rest).map (fun ts => STok.lab (sh k) :: STok.pun c :: ts) := by
  obtain ⟨hne, hch⟩ := hsh k
  have hstrip : strip (sh k) = sh k := strip_noop _ fun y hy => (hch y hy).2.1
  have hlex := lex_plain (sh k) [] c rest (fun y hy => (hch y hy).1) hc
  simp only [List.append_nil] at hlex
  have hflush : flushTxt (sh k).reverse = [Raw.txt (sh k)] := by simp [flushTxt, hne]
  simp only [run]
  rw [show ({} : LexSt) = ⟨[], .none⟩ from rfl, hlex, hflush]
  simp only [List.singleton_append]
  rw [mRun_plain (sh k) (by rw [hstrip]; exact hne) c hc, hstrip, unmunge_noop _ fun y hy => (hch y hy).2.2]

def sTokW {K : Type} (sh : K → List Char) : Tok K → STok
  | .num k => .lab (sh k)
  | t => sTok t

theorem run_name_len {K : Type} (sh : K → List Char) (hsh : GoodShow sh) (n : String)
    (hn : n = "" ∨ GoodName n.toList) (l : Option K) (c : Char) (hc : Term c) (rest : List Char) :
    run (((if n = "" then [] else escapeName n.toList) ++ lenStr sh l) ++ c :: rest) =
      (run rest).map (fun ts => (nameToks n ++ lenToks true l).map (sTokW sh) ++ STok.pun c :: ts) := by
  cases l with
  | none =>
    have := run_name (K := K) n hn c hc rest
    simp only [lenStr, List.append_nil, lenToks] at this ⊢
    rw [this]
    by_cases h : n = "" <;> simp [nameToks, h, sTokW, sTok]
  | some k =>
    simp only [lenStr, lenToks, if_true, List.append_assoc, List.cons_append]
    rw [run_name (K := K) n hn ':' (Or.inr (Or.inr (Or.inr rfl))), run_number sh hsh k c hc rest]
    by_cases h : n = "" <;> cases run rest <;> simp [nameToks, h, sTokW, sTok]

mutual
theorem run_printStrW {K : Type} (sh : K → List Char) (hsh : GoodShow sh) : ∀ (t : PTree K), GoodTree t →
    ∀ (c : Char), Term c → ∀ (rest : List Char),
    run (printStrW sh t ++ c :: rest) = (run rest).map (fun ts => (toks true t).map (sTokW sh) ++ STok.pun c :: ts)
  | .node n l [], hg, c, hc, rest => by
    simp only [printStrW, toks]
    exact run_name_len sh hsh n hg.1 l c hc rest
  | .node n l (c1 :: cs), hg, c, hc, rest => by
    simp only [printStrW, toks, List.cons_append, List.append_assoc]
    rw [run_lparen, run_childrenW sh hsh c1 cs hg.2.1 hg.2.2]
    have := run_name_len sh hsh n hg.1 l c hc rest
    simp only [List.append_assoc] at this
    rw [this]
    cases run rest <;> simp [sTokW, sTok]
termination_by t => sizeOf t
decreasing_by all_goals (simp_wf; omega)
theorem run_childrenW {K : Type} (sh : K → List Char) (hsh : GoodShow sh) : ∀ (c1 : PTree K) (cs : List (PTree K)),
    GoodTree c1 → GoodTreeL cs → ∀ (Z : List Char), run (printStrW sh c1 ++ (printTailW sh cs ++ Z)) =
      (run Z).map (fun ts => ((toks true c1 ++ toksTail true cs).map (sTokW sh)) ++ ts)
  | c1, [], h1, _, Z => by
    simp only [printTailW, toksTail, List.cons_append, List.nil_append]
    rw [run_printStrW sh hsh c1 h1 ')' (Or.inr (Or.inl rfl)) Z]
    cases run Z <;> simp [sTokW, sTok]
  | c1, c2 :: cs, h1, h2, Z => by
    simp only [printTailW, toksTail, List.cons_append, List.append_assoc]
    rw [run_printStrW sh hsh c1 h1 ',' (Or.inl rfl), run_childrenW sh hsh c2 cs h2.1 h2.2 Z]
    cases run Z <;> simp [sTokW, sTok]
termination_by c1 cs => sizeOf c1 + sizeOf cs + 1
decreasing_by all_goals (simp_wf; omega)
end

/-- tokenising `get_newick(with_distances=True)`: the tree's token list, numbers as printed -/
theorem tokenise_newickStrW {K : Type} (sh : K → List Char) (hsh : GoodShow sh) (t : PTree K) (hg : GoodTree t) :
    tokenise (newickStrW sh t) = some ((newickToks true t).map (sTokW sh)) := by
  rw [tokenise_eq_run, newickStrW, run_printStrW sh hsh t hg ';' (Or.inr (Or.inr (Or.inl rfl))) [], run_nil]
  simp [newickToks, sTokW, sTok]

/-! ### back to the tree -/
theorem punTok_none_of {K : Type} (c : Char) (h : isPunTokChar c = false) : punTok (K := K) c = none := by
  simp only [isPunTokChar, Bool.or_eq_false_iff, decide_eq_false_iff_not] at h
  obtain ⟨⟨⟨⟨a1, a2⟩, a3⟩, a4⟩, a5⟩ := h
  simp [punTok, a1, a2, a3, a4, a5]

/-- eager classification of an unambiguous token stream (proof device; `plazy` is the model) -/
def retok {K : Type} (rd : List Char → Option K) : Bool → List STok → Option (List (Tok K))
  | _, [] => some []
  | true, .lab s :: rest =>
    match rd s with
    | none => none
    | some k => (retok rd false rest).map (Tok.num k :: ·)
  | true, .pun _ :: _ => none
  | false, .lab s :: rest =>
    if notPunLab s then (retok rd false rest).map (Tok.label (String.ofList s) :: ·) else none
  | false, .pun c :: rest =>
    match punTok (K := K) c with
    | none => none
    | some t => (retok rd (c == ':') rest).map (t :: ·)

theorem retok_name {K : Type} (rd : List Char → Option K) (sh : K → List Char) (n : String)
    (hn : n = "" ∨ GoodName n.toList) (X : List STok) :
    retok rd false ((nameToks (K := K) n).map (sTokW sh) ++ X) = (retok rd false X).map (nameToks n ++ ·) := by
  by_cases h : n = ""
  · simp [nameToks, h]
  · have hg : GoodName n.toList := by rcases hn with h' | h'; exact absurd h' h; exact h'
    simp [nameToks, h, sTokW, sTok, retok, String.ofList_toList, hg.2.2.2]

theorem retok_len {K : Type} (rd : List Char → Option K) (sh : K → List Char) (hrd : ∀ k, rd (sh k) = some k)
    (l : Option K) (X : List STok) :
    retok rd false ((lenToks true l).map (sTokW sh) ++ X) = (retok rd false X).map (lenToks true l ++ ·) := by
  cases l with
  | none => simp [lenToks]
  | some k =>
    have e1 : retok rd false (STok.pun ':' :: STok.lab (sh k) :: X) =
        (retok rd true (STok.lab (sh k) :: X)).map (Tok.colon :: ·) := rfl
    have e2 : retok rd true (STok.lab (sh k) :: X) = (retok rd false X).map (Tok.num k :: ·) := by
      simp [retok, hrd k]
    simp only [lenToks, if_true, List.map_cons, List.map_nil, sTokW, sTok, List.cons_append, List.nil_append, e1, e2]
    cases retok rd false X <;> simp

mutual
theorem retok_toks {K : Type} (rd : List Char → Option K) (sh : K → List Char) (hrd : ∀ k, rd (sh k) = some k) :
    ∀ (t : PTree K), GoodTree t → ∀ (X : List STok),
    retok rd false ((toks true t).map (sTokW sh) ++ X) = (retok rd false X).map (toks true t ++ ·)
  | .node n l [], hg, X => by
    simp only [toks, List.map_append, List.append_assoc]
    rw [retok_name rd sh n hg.1, retok_len rd sh hrd]
    cases retok rd false X <;> simp
  | .node n l (c :: cs), hg, X => by
    simp only [toks, List.map_cons, List.map_append, List.cons_append, List.append_assoc, sTokW, sTok, retok]
    rw [show punTok (K := K) '(' = some Tok.lp from rfl]
    simp only [show (('(' : Char) == ':') = false from rfl]
    rw [retok_toks rd sh hrd c hg.2.1, retok_tail rd sh hrd cs hg.2.2, retok_name rd sh n hg.1, retok_len rd sh hrd]
    cases retok rd false X <;> simp
termination_by t => sizeOf t
decreasing_by all_goals (simp_wf; omega)
theorem retok_tail {K : Type} (rd : List Char → Option K) (sh : K → List Char) (hrd : ∀ k, rd (sh k) = some k) :
    ∀ (cs : List (PTree K)), GoodTreeL cs → ∀ (X : List STok),
    retok rd false ((toksTail true cs).map (sTokW sh) ++ X) = (retok rd false X).map (toksTail true cs ++ ·)
  | [], _, X => by
    simp only [toksTail, List.map_cons, List.map_nil, sTokW, sTok, List.cons_append, List.nil_append, retok]
    rw [show punTok (K := K) ')' = some Tok.rp from rfl]
    simp only [show ((')' : Char) == ':') = false from rfl]
  | c :: cs, hg, X => by
    simp only [toksTail, List.map_cons, List.map_append, sTokW, sTok, List.cons_append, List.append_assoc, retok]
    rw [show punTok (K := K) ',' = some Tok.comma from rfl]
    simp only [show ((',' : Char) == ':') = false from rfl]
    rw [retok_toks rd sh hrd c hg.1, retok_tail rd sh hrd cs hg.2]
    cases retok rd false X <;> simp
termination_by cs => sizeOf cs
decreasing_by all_goals (simp_wf; omega)
end

theorem mRunP_of_mRun : ∀ (rs : List Raw) (σ : MSt) (ts : List STok), mRun σ rs = some ts →
    mRunP σ rs = (ts, true)
  | [], σ, ts, h => by simp only [mRun] at h; simp [mRunP, h]
  | r :: rs, σ, ts, h => by
    simp only [mRun] at h
    cases hs : mStep σ r with
    | none => simp [hs] at h
    | some p =>
      obtain ⟨σ', o⟩ := p
      simp only [hs] at h
      cases hr : mRun σ' rs with
      | none => simp [hr] at h
      | some ts' =>
        simp only [hr, Option.map_some, Option.some.injEq] at h
        subst h
        simp [mRunP, hs, mRunP_of_mRun rs σ' ts' hr]

theorem classify_name {K : Type} (rd : List Char → Option K) (s : List Char) (hp : notPunLab s = true) :
    classify rd false (STok.lab s) = some (Tok.label (String.ofList s), false) := by
  match s, hp with
  | [], _ => rfl
  | [c], hp =>
    simp only [notPunLab, Bool.and_eq_true, Bool.not_eq_true', bne_iff_ne, ne_eq] at hp
    simp [classify, punTok_none_of c hp.1, hp.2]
  | _ :: _ :: _, _ => rfl

theorem plazy_cons {K : Type} (rd : List Char → Option K) (σ : PState K) (ac : Bool) (tok : STok) (ts : List STok)
    (t : Tok K) (ac' : Bool) (toks' : List (Tok K)) (hc : classify rd ac tok = some (t, ac'))
    (ih : ∀ σ', plazy rd σ' ac' ts true = prun σ' toks') :
    plazy rd σ ac (tok :: ts) true = prun σ (t :: toks') := by
  simp only [plazy, hc, prun]
  cases pstep σ (some t) with
  | cont σ' => exact ih σ'
  | done r => rfl
  | err => rfl

/-- on an unambiguous, completely tokenised text the lazy pipeline is the parser on the classified tokens -/
theorem plazy_of_retok {K : Type} (rd : List Char → Option K) : ∀ (ts : List STok) (σ : PState K) (ac : Bool)
    (toks : List (Tok K)), retok rd ac ts = some toks → plazy rd σ ac ts true = prun σ toks
  | [], σ, ac, toks, h => by
    simp only [retok, Option.some.injEq] at h; subst h
    simp only [plazy, prun, if_true]
    cases pstep σ none <;> rfl
  | .lab s :: ts, σ, true, toks, h => by
    simp only [retok] at h
    cases hr : rd s with
    | none => simp [hr] at h
    | some k =>
      simp only [hr] at h
      cases ht : retok rd false ts with
      | none => simp [ht] at h
      | some toks' =>
        simp only [ht, Option.map_some, Option.some.injEq] at h; subst h
        exact plazy_cons rd σ true _ ts (Tok.num k) false toks' (by simp [classify, hr])
          (fun σ' => plazy_of_retok rd ts σ' false toks' ht)
  | .pun c :: ts, σ, true, toks, h => by simp [retok] at h
  | .lab s :: ts, σ, false, toks, h => by
    simp only [retok] at h
    by_cases hp : notPunLab s = true
    · simp only [hp, if_true] at h
      cases ht : retok rd false ts with
      | none => simp [ht] at h
      | some toks' =>
        simp only [ht, Option.map_some, Option.some.injEq] at h; subst h
        exact plazy_cons rd σ false _ ts _ false toks' (classify_name rd s hp)
          (fun σ' => plazy_of_retok rd ts σ' false toks' ht)
    · simp [hp] at h
  | .pun c :: ts, σ, false, toks, h => by
    simp only [retok] at h
    cases hc : punTok (K := K) c with
    | none => simp [hc] at h
    | some t =>
      simp only [hc] at h
      cases ht : retok rd (c == ':') ts with
      | none => simp [ht] at h
      | some toks' =>
        simp only [ht, Option.map_some, Option.some.injEq] at h; subst h
        exact plazy_cons rd σ false _ ts t (c == ':') toks' (by simp [classify, hc])
          (fun σ' => plazy_of_retok rd ts σ' (c == ':') toks' ht)

/-- STRING-LEVEL ROUND TRIP: `parse_string(get_newick(with_distances=True))` gives back the tree -/
theorem parseString_newickStrW {K : Type} (sh : K → List Char) (rd : List Char → Option K)
    (hsh : GoodShow sh) (hrd : ∀ k, rd (sh k) = some k) (t : PTree K) (hg : GoodTree t) :
    parseString rd (newickStrW sh t) = some t := by
  have htok := tokenise_newickStrW sh hsh t hg
  have hP : tokeniseP (newickStrW sh t) = ((newickToks true t).map (sTokW sh), true) :=
    mRunP_of_mRun _ _ _ htok
  have h := retok_toks rd sh hrd t hg [STok.pun ';']
  have hsemi : retok rd false [STok.pun ';'] = some [Tok.semi] := by
    simp [retok, punTok]
  rw [hsemi] at h
  have hl : (newickToks true t).map (sTokW sh) = (toks true t).map (sTokW sh) ++ [STok.pun ';'] := by
    simp [newickToks, sTokW, sTok]
  simp only [Option.map_some] at h
  unfold parseString
  simp only [hP]
  rw [hl, plazy_of_retok rd _ {} false _ h]
  have := parse_newickToks true t
  rw [stripLens_true] at this
  simpa [newickToks, parseToks] using this

end CogentModel.Phylo
