import CogentModel.Proofs.Clustal
import CogentModel.Spec.ClustalDecorated
/-! Helper lemmas for C06 / Clustal files that are not writer shaped (general white space, residue counts, decorations). -/
namespace CogentModel.Clustal
open CogentModel.Splitlines CogentModel.SeqFormats CogentModel.SeqSpec CogentModel.ClustalSpec

theorem splitWs_ws (t : Str) : ∀ ws : Str, AllWs ws → splitWs (ws ++ t) = splitWs t
  | [], _ => rfl
  | s :: ws, h => by
    have hs : isSpaceStr s = true := h s (by simp)
    have ih := splitWs_ws t ws (fun c hc => h c (List.mem_cons_of_mem _ hc))
    rw [List.cons_append]
    cases hl : ws ++ t with
    | nil =>
      rw [hl] at ih
      simp [splitWs, hs, ← ih]
    | cons d ds =>
      rw [hl] at ih
      rw [splitWs_cons2]
      simp [hs, ih]

theorem splitWs_allWs (ws : Str) (h : AllWs ws) : splitWs ws = [] := by
  have := splitWs_ws [] ws h
  rw [List.append_nil] at this
  rw [this]; rfl

theorem splitWs_word_ws1 (s : Char) (hs : isSpaceStr s = true) (rest : Str) : ∀ (w : Str), w ≠ [] →
    (∀ c ∈ w, isSpaceStr c = false) → splitWs (w ++ s :: rest) = w :: splitWs (s :: rest)
  | [], h, _ => absurd rfl h
  | [c], _, hw => by
    rw [List.singleton_append, splitWs_cons2]
    simp [hw c List.mem_cons_self, hs]
  | c :: c2 :: cs, _, hw => by
    have ih := splitWs_word_ws1 s hs rest (c2 :: cs) (by simp) (fun d hd => hw d (List.mem_cons_of_mem _ hd))
    have h1 := hw c List.mem_cons_self
    have h2 := hw c2 (by simp)
    simp only [List.cons_append] at ih ⊢
    rw [splitWs_cons2]
    simp only [h1, h2, Bool.false_eq_true, if_false, ih, consHead]

/-- `word <non-empty white space> rest` -/
theorem splitWs_word_ws {w ws : Str} (hw : Word w) (hne : ws ≠ []) (hws : AllWs ws) (rest : Str) :
    splitWs (w ++ ws ++ rest) = w :: splitWs rest := by
  cases ws with
  | nil => exact absurd rfl hne
  | cons s ws' =>
    rw [List.append_assoc, List.cons_append, splitWs_word_ws1 s (hws s (by simp)) _ w hw.1 hw.2,
      ← List.cons_append, splitWs_ws _ _ hws]

/-- `word <white space>` at the end -/
theorem splitWs_word_end {w ws : Str} (hw : Word w) (hws : AllWs ws) : splitWs (w ++ ws) = [w] := by
  cases ws with
  | nil => rw [List.append_nil]; exact splitWs_word _ hw.1 hw.2
  | cons s ws' =>
    have := splitWs_word_ws hw (by simp : s :: ws' ≠ []) hws []
    rw [List.append_nil] at this
    rw [this]; rfl

theorem dropWhile_append_all {p : Char → Bool} (b : Str) : ∀ a : Str, (∀ c ∈ a, p c = true) →
    (a ++ b).dropWhile p = b.dropWhile p
  | [], _ => rfl
  | c :: a, h => by
    rw [List.cons_append, List.dropWhile_cons, if_pos (h c (by simp))]
    exact dropWhile_append_all b a (fun d hd => h d (List.mem_cons_of_mem _ hd))

theorem rstrip_append_ws (x : Str) {ws : Str} (h : AllWs ws) : rstrip (x ++ ws) = rstrip x := by
  unfold rstrip rstripBy
  rw [List.reverse_append, dropWhile_append_all _ _ (fun c hc => h c (List.mem_reverse.mp hc))]

theorem noSpace_header : (∀ c ∈ "CLUSTAL".toList, isSpaceStr c = false) ∧ (∀ c ∈ "MUSCLE".toList, isSpaceStr c = false) := by
  decide

/-- a label followed by white space is a sequence line -/
theorem isSeqLine_label_ws {n ws rest : Str} (hn : clustalName n = true) (hne : ws ≠ []) (hws : AllWs ws) :
    isSeqLine (n ++ ws ++ rest) = true := by
  obtain ⟨hw, _, hC, hM⟩ := clustalName_facts hn
  obtain ⟨a, as, rfl, ha⟩ := word_head hw
  cases ws with
  | nil => exact absurd rfl hne
  | cons s ws' =>
    have hs := hws s (by simp)
    have e : (a :: as) ++ (s :: ws') ++ rest = (a :: as) ++ s :: (ws' ++ rest) := by simp
    have n1 : s ∉ "CLUSTAL".toList := fun hm => by simpa [hs] using noSpace_header.1 s hm
    have n2 : s ∉ "MUSCLE".toList := fun hm => by simpa [hs] using noSpace_header.2 s hm
    have p1 := isPrefixOf_sep s "CLUSTAL".toList (a :: as) (ws' ++ rest) n1
    have p2 := isPrefixOf_sep s "MUSCLE".toList (a :: as) (ws' ++ rest) n2
    rw [e]
    rw [hC] at p1
    rw [hM] at p2
    simp only [List.cons_append] at p1 p2 ⊢
    simp only [isSeqLine, ha, p1, p2, Bool.not_false, Bool.and_self]

/-- the parser's view of one sequence line of a decorated file -/
theorem seqLineOf_ok {n c l : Str} (hn : clustalName n = true) (hc : clustalSeq c = true) (h : SeqLineOf n c l) :
    isSeqLine l = true ∧ lastSpace (rstrip (deleteTrailingNumber l)) = [n, c] := by
  obtain ⟨hw, _⟩ := clustalName_facts hn
  obtain ⟨hcw, _, hd⟩ := clustalSeq_facts hc
  have hfin : lastSpace (n ++ ' ' :: c) = [n, c] := by
    unfold lastSpace
    rw [splitWs_word_sp _ _ hw.1 hw.2, splitWs_word _ hcw.1 hcw.2]
    simp [joinSp, strip_word hw, strip_word hcw]
  cases h with
  | plain ws1 ws2 h1 a1 a2 =>
    refine ⟨by rw [List.append_assoc (n ++ ws1)]; exact isSeqLine_label_ws hn h1 a1, ?_⟩
    have hs : splitWs (n ++ ws1 ++ c ++ ws2) = [n, c] := by
      rw [List.append_assoc (n ++ ws1), splitWs_word_ws hw h1 a1, splitWs_word_end hcw a2]
    have hdel : deleteTrailingNumber (n ++ ws1 ++ c ++ ws2) = n ++ ws1 ++ c ++ ws2 := by
      unfold deleteTrailingNumber
      rw [hs]
      simp [pyIntOk_noDigit hd]
    rw [hdel, rstrip_append_ws _ a2, rstrip_word_end hcw]
    unfold lastSpace
    have hs' : splitWs (n ++ ws1 ++ c) = [n, c] := by
      rw [splitWs_word_ws hw h1 a1, splitWs_word _ hcw.1 hcw.2]
    rw [hs']
    simp [joinSp, strip_word hw, strip_word hcw]
  | counted ws1 ws2 num ws3 h1 a1 h2 a2 hnum hint a3 =>
    have hnw : Word num := ⟨by intro e; subst e; simp [pyIntOk, signSplit] at hint, hnum⟩
    refine ⟨by
      rw [List.append_assoc (n ++ ws1 ++ c ++ ws2), List.append_assoc (n ++ ws1 ++ c), List.append_assoc (n ++ ws1)]
      exact isSeqLine_label_ws hn h1 a1, ?_⟩
    have hs : splitWs (n ++ ws1 ++ c ++ ws2 ++ num ++ ws3) = [n, c, num] := by
      rw [List.append_assoc (n ++ ws1 ++ c ++ ws2), List.append_assoc (n ++ ws1 ++ c), List.append_assoc (n ++ ws1),
        splitWs_word_ws hw h1 a1, ← List.append_assoc, splitWs_word_ws hcw h2 a2, splitWs_word_end hnw a3]
    have hdel : deleteTrailingNumber (n ++ ws1 ++ c ++ ws2 ++ num ++ ws3) = n ++ ' ' :: c := by
      unfold deleteTrailingNumber
      rw [hs]
      simp [hint, joinSp]
    rw [hdel]
    have : n ++ ' ' :: c = (n ++ [' ']) ++ c := by simp
    rw [this, rstrip_word_end hcw, ← this]
    exact hfin

/-- the label dict after the sequence lines of a decorated file -/
theorem decorated_go (strict : Bool) : ∀ {ps : List (Str × Str)} {lines : List Str}, Decorated ps lines →
    (∀ p ∈ ps, clustalName p.1 = true ∧ clustalSeq p.2 = true) → ∀ acc : Acc,
    labelLineGo strict acc ((lines.filter isSeqLine).map deleteTrailingNumber) = .ok (ps.foldl step acc) := by
  intro ps lines h
  induction h with
  | nil => intro _ acc; rfl
  | deco l hl _ ih =>
    intro hp acc
    rw [List.filter_cons_of_neg (by simp [hl])]
    exact ih hp acc
  | seq p l hl _ ih =>
    intro hp acc
    obtain ⟨h1, h2⟩ := seqLineOf_ok (hp p (by simp)).1 (hp p (by simp)).2 hl
    rw [List.filter_cons_of_pos h1, List.map_cons, labelLineGo_cons_pair h2, List.foldl_cons]
    exact ih (fun q hq => hp q (List.mem_cons_of_mem _ hq)) _

end CogentModel.Clustal
