import CogentModel.Model.GenBankLoc
import CogentModel.Proofs.SeqFormats
/-! Helper lemmas for C06: GenBank location strings of the shapes the harness writes parse to the spans written. -/
namespace CogentModel.GenBank
open CogentModel.SeqFormats CogentModel.SeqSpec CogentModel.Splitlines

/-- `a..b` -/
def segText (p : Nat × Nat) : Str := natDigits p.1 ++ '.' :: '.' :: natDigits p.2
def mkSpan (p : Nat × Nat) : Span := ⟨p.1, p.2, 1⟩

def special (c : Char) : Bool := c = '(' || c = ')' || c = ','

theorem tokGo_word : ∀ (w curr rest : Str), (∀ c ∈ w, special c = false) → tokGo curr (w ++ rest) = tokGo (curr ++ w) rest
  | [], curr, rest, _ => by simp
  | c :: cs, curr, rest, h => by
    have hc := h c List.mem_cons_self
    simp only [special, Bool.or_eq_false_iff, decide_eq_false_iff_not] at hc
    have ih := tokGo_word cs (curr ++ [c]) rest (fun d hd => h d (List.mem_cons_of_mem _ hd))
    simp only [List.cons_append]
    rw [tokGo]
    simp only [hc.1.1, hc.1.2, hc.2, if_false]
    rw [ih]; simp

theorem digit_not_special {c : Char} (h : isDigit c = true) : special c = false ∧ isSpaceStr c = false ∧ c ≠ '.' := by
  simp only [isDigit, Bool.and_eq_true, decide_eq_true_eq] at h
  have e1 : ('(' : Char).toNat = 40 := by decide
  have e2 : (')' : Char).toNat = 41 := by decide
  have e3 : (',' : Char).toNat = 44 := by decide
  have e4 : ('.' : Char).toNat = 46 := by decide
  refine ⟨?_, ?_, ?_⟩
  · simp only [special, Bool.or_eq_false_iff, decide_eq_false_iff_not]
    refine ⟨⟨?_, ?_⟩, ?_⟩ <;> (intro e; rw [e] at h; omega)
  · have hp : printable c = true := by simp [printable]; omega
    rw [printable_space hp]
    have : c ≠ ' ' := by intro e; rw [e] at h; have : (' ' : Char).toNat = 32 := by decide
                         omega
    simpa using this
  · intro e; rw [e, e4] at h; omega

theorem segText_chars (p : Nat × Nat) : ∀ c ∈ segText p, special c = false ∧ isSpaceStr c = false := by
  intro c hc
  simp only [segText, List.mem_append, List.mem_cons] at hc
  rcases hc with h | h | h | h
  · exact ⟨(digit_not_special (natDigits_chars _ c h).1).1, (digit_not_special (natDigits_chars _ c h).1).2.1⟩
  · subst h; decide
  · subst h; decide
  · exact ⟨(digit_not_special (natDigits_chars _ c h).1).1, (digit_not_special (natDigits_chars _ c h).1).2.1⟩

theorem segText_ne_nil (p : Nat × Nat) : segText p ≠ [] := by
  simp [segText]

theorem segText_strip (p : Nat × Nat) : strip (segText p) = segText p :=
  stripBy_id (all_of_head fun c hc => (segText_chars p c hc).2) (all_of_last fun c hc => (segText_chars p c hc).2)

theorem segText_last (p : Nat × Nat) : ∃ c, (segText p).getLast? = some c ∧ isDigit c = true := by
  have hne := natDigits_ne_nil p.2
  obtain ⟨c, hc⟩ : ∃ c, (natDigits p.2).getLast? = some c := by
    cases h : (natDigits p.2).getLast? with
    | none => simp at h; exact absurd h hne
    | some c => exact ⟨c, rfl⟩
  refine ⟨c, ?_, (natDigits_chars _ c (List.mem_of_getLast? hc)).1⟩
  simp only [segText]
  rw [show natDigits p.1 ++ '.' :: '.' :: natDigits p.2 = (natDigits p.1 ++ ['.', '.']) ++ natDigits p.2 by simp,
    List.getLast?_append, hc]; rfl

theorem segText_head (p : Nat × Nat) : ∃ c r, segText p = c :: r ∧ isDigit c = true := by
  cases h : natDigits p.1 with
  | nil => exact absurd h (natDigits_ne_nil _)
  | cons c r =>
    refine ⟨c, r ++ '.' :: '.' :: natDigits p.2, by simp [segText, h], ?_⟩
    exact (natDigits_chars p.1 c (by rw [h]; exact List.mem_cons_self)).1

/-- a segment followed by `)` or `,` -/
theorem tokGo_seg (p : Nat × Nat) (d : Char) (hd : d = ')' ∨ d = ',') (rest : Str) :
    tokGo [] (segText p ++ d :: rest) = segText p :: [d] :: tokGo [] rest := by
  rw [tokGo_word _ _ _ (fun c hc => (segText_chars p c hc).1)]
  have hemp : (segText p).isEmpty = false := by cases h : segText p <;> simp_all [segText_ne_nil]
  simp only [List.nil_append]
  rw [tokGo]
  rcases hd with e | e <;> subst e <;> simp [hemp, segText_strip]

/-- a keyword followed by `(` -/
theorem tokGo_kw (kw : Str) (hk : ∀ c ∈ kw, special c = false) (hs : strip kw = kw) (rest : Str) :
    tokGo [] (kw ++ '(' :: rest) = (kw ++ ['(']) :: tokGo [] rest := by
  rw [tokGo_word _ _ _ hk]
  simp only [List.nil_append]
  rw [tokGo]
  simp [hs]

theorem tokGo_seg_end (p : Nat × Nat) : tokGo [] (segText p) = [segText p] := by
  have := tokGo_word (segText p) [] [] (fun c hc => (segText_chars p c hc).1)
  simp only [List.append_nil, List.nil_append] at this
  rw [this]
  have hemp : (segText p).isEmpty = false := by cases h : segText p <;> simp_all [segText_ne_nil]
  simp [tokGo, hemp, segText_strip]

/-! segments -/

theorem splitDotDot_none : ∀ (r : Str), '.' ∉ r → splitDotDot r = [r]
  | [], _ => rfl
  | [c], _ => rfl
  | c :: d :: cs, h => by
    have hc : c ≠ '.' := fun e => h (by subst e; exact List.mem_cons_self)
    have ih := splitDotDot_none (d :: cs) (fun hm => h (List.mem_cons_of_mem _ hm))
    rw [splitDotDot]
    simp [hc, ih, consHead]

theorem splitDotDot_sep : ∀ (w r : Str), '.' ∉ w → splitDotDot (w ++ '.' :: '.' :: r) = w :: splitDotDot r
  | [], r, _ => by
    simp only [List.nil_append]
    rw [splitDotDot]; simp
  | [c], r, h => by
    have hc : c ≠ '.' := fun e => h (by subst e; exact List.mem_cons_self)
    have ih := splitDotDot_sep [] r (by simp)
    simp only [List.nil_append] at ih
    simp only [List.cons_append, List.nil_append]
    rw [splitDotDot]
    simp [hc, ih, consHead]
  | c :: d :: cs, r, h => by
    have hc : c ≠ '.' := fun e => h (by subst e; exact List.mem_cons_self)
    have ih := splitDotDot_sep (d :: cs) r (fun hm => h (List.mem_cons_of_mem _ hm))
    simp only [List.cons_append] at ih ⊢
    rw [splitDotDot]
    simp [hc, ih, consHead]

theorem natDigits_noDot (n : Nat) : '.' ∉ natDigits n := fun hm =>
  (digit_not_special (natDigits_chars n _ hm).1).2.2 rfl

theorem parseEnd_digits (n : Nat) : parseEnd (natDigits n) = .ok (n : Int) := by
  cases h : natDigits n with
  | nil => exact absurd h (natDigits_ne_nil n)
  | cons c r =>
    have hc := (natDigits_chars n c (by rw [h]; exact List.mem_cons_self)).1
    simp only [parseEnd, hc, if_true]
    rw [← h]; exact pyInt_natDigits n

theorem parseSegment_segText (p : Nat × Nat) : parseSegment (segText p) = .ok (mkSpan p) := by
  unfold parseSegment segText
  rw [splitDotDot_sep _ _ (natDigits_noDot _), splitDotDot_none _ (natDigits_noDot _)]
  simp [parseEnd_digits, mkSpan, bind, Except.bind, pure, Except.pure]

/-! the stack machine -/

theorem locGo_cons (frames : List (Str × List Span)) (t : Str) (ts : List Str) :
    locGo frames (t :: ts) =
    if t.getLast? = some '(' then locGo ((t, []) :: frames) ts
    else if t = [','] then locGo frames ts
    else if t = [')'] then
      match frames with
      | (kw, children) :: (pkw, pch) :: rest =>
        let ch := if kw = kwComplement then children.reverse.map (fun s => { s with strand := -s.strand })
                  else children
        locGo ((pkw, pch ++ ch) :: rest) ts
      | _ => .error .valueError
    else match parseSegment t with
      | .error e => .error e
      | .ok s =>
        match frames with
        | (kw, ch) :: rest => locGo ((kw, ch ++ [s]) :: rest) ts
        | [] => .error .valueError := by
  cases frames with
  | nil => rfl
  | cons f fs => cases fs <;> rfl

theorem locGo_seg (p : Nat × Nat) (kw : Str) (ch : List Span) (rest : List (Str × List Span)) (ts : List Str) :
    locGo ((kw, ch) :: rest) (segText p :: ts) = locGo ((kw, ch ++ [mkSpan p]) :: rest) ts := by
  rw [locGo_cons]
  obtain ⟨c, hl, hd⟩ := segText_last p
  obtain ⟨c0, r0, hh, hd0⟩ := segText_head p
  have h1 : ¬ ((segText p).getLast? = some '(') := by
    rw [hl]; intro e; simp at e; subst e; exact absurd hd (by decide)
  have h2 : ¬ (segText p = [',']) := by
    rw [hh]; intro e; simp at e; rw [e.1] at hd0; exact absurd hd0 (by decide)
  have h3 : ¬ (segText p = [')']) := by
    rw [hh]; intro e; simp at e; rw [e.1] at hd0; exact absurd hd0 (by decide)
  simp only [h1, h2, h3, if_false, parseSegment_segText]

theorem locGo_comma (frames : List (Str × List Span)) (ts : List Str) : locGo frames ([','] :: ts) = locGo frames ts := by
  rw [locGo_cons]
  simp

/-- tokens of `a..b,c..d,...` -/
def segsToks : List (Nat × Nat) → List Str
  | [] => []
  | [p] => [segText p]
  | p :: q :: r => segText p :: [','] :: segsToks (q :: r)

theorem locGo_segs : ∀ (ps : List (Nat × Nat)) (kw : Str) (ch : List Span) (rest : List (Str × List Span)) (ts : List Str),
    locGo ((kw, ch) :: rest) (segsToks ps ++ ts) = locGo ((kw, ch ++ ps.map mkSpan) :: rest) ts
  | [], kw, ch, rest, ts => by simp [segsToks]
  | [p], kw, ch, rest, ts => by simp [segsToks, locGo_seg]
  | p :: q :: r, kw, ch, rest, ts => by
    have ih := locGo_segs (q :: r) kw (ch ++ [mkSpan p]) rest ts
    simp only [segsToks, List.cons_append]
    rw [locGo_seg, locGo_comma, ih]
    simp

/-- text of `a..b,c..d,...` -/
def segsText : List (Nat × Nat) → Str
  | [] => []
  | [p] => segText p
  | p :: q :: r => segText p ++ ',' :: segsText (q :: r)

/-- tokenising a comma separated segment list that is closed by `)` -/
theorem tokGo_segs_close : ∀ (ps : List (Nat × Nat)), ps ≠ [] → ∀ rest : Str,
    tokGo [] (segsText ps ++ ')' :: rest) = segsToks ps ++ [')'] :: tokGo [] rest
  | [], h, _ => absurd rfl h
  | [p], _, rest => by simp [segsText, segsToks, tokGo_seg p ')' (Or.inl rfl)]
  | p :: q :: r, _, rest => by
    have ih := tokGo_segs_close (q :: r) (by simp) rest
    simp only [segsText, segsToks, List.append_assoc, List.cons_append]
    rw [tokGo_seg p ',' (Or.inr rfl), ih]

/-! the location shapes the harness writes -/

/-- single span, complement of a span, join of spans, complement of a join -/
inductive GbLoc where
  | span (p : Nat × Nat)
  | comp (p : Nat × Nat)
  | join (ps : List (Nat × Nat))
  | compJoin (ps : List (Nat × Nat))

def kwC : Str := ['c', 'o', 'm', 'p', 'l', 'e', 'm', 'e', 'n', 't']
def kwJ : Str := ['j', 'o', 'i', 'n']

/-- the location string as written into the FEATURES table -/
def render : GbLoc → Str
  | .span p => segText p
  | .comp p => kwC ++ ('(' :: (segText p ++ [')']))
  | .join ps => kwJ ++ ('(' :: (segsText ps ++ [')']))
  | .compJoin ps => kwC ++ ('(' :: (kwJ ++ ('(' :: (segsText ps ++ [')', ')']))))

def flip (l : List Span) : List Span := l.reverse.map (fun s => { s with strand := -s.strand })

/-- the meaning of the location: its parts in the order and orientation GenBank defines -/
def eval : GbLoc → List Span
  | .span p => [mkSpan p]
  | .comp p => flip [mkSpan p]
  | .join ps => ps.map mkSpan
  | .compJoin ps => flip (ps.map mkSpan)

def GbLoc.wf : GbLoc → Prop
  | .join ps => ps ≠ []
  | .compJoin ps => ps ≠ []
  | _ => True

theorem tokGo_close (rest : Str) : tokGo [] (')' :: rest) = [')'] :: tokGo [] rest := by
  rw [tokGo]; simp

theorem tokGo_nil : tokGo [] [] = [] := by simp [tokGo]

theorem kwC_facts : (∀ c ∈ kwC, special c = false) ∧ strip kwC = kwC ∧ kwC ++ ['('] = kwComplement := by decide
theorem kwJ_facts : (∀ c ∈ kwJ, special c = false) ∧ strip kwJ = kwJ ∧ (kwJ ++ ['(']).getLast? = some '(' ∧
    kwJ ++ ['('] ≠ kwComplement := by decide
theorem kwComplement_last : kwComplement.getLast? = some '(' := by decide

theorem locGo_open (t : Str) (h : t.getLast? = some '(') (frames : List (Str × List Span)) (ts : List Str) :
    locGo frames (t :: ts) = locGo ((t, []) :: frames) ts := by
  rw [locGo_cons]; simp [h]

theorem locGo_close (kw : Str) (children : List Span) (pkw : Str) (pch : List Span) (rest : List (Str × List Span))
    (ts : List Str) :
    locGo ((kw, children) :: (pkw, pch) :: rest) ([')'] :: ts) =
      locGo ((pkw, pch ++ (if kw = kwComplement then flip children else children)) :: rest) ts := by
  rw [locGo_cons]
  simp [flip]

theorem parseLocation_render (l : GbLoc) (h : l.wf) : parseLocation (render l) = .ok (eval l) := by
  unfold parseLocation tokenize
  cases l with
  | span p =>
    simp only [render, eval]
    rw [tokGo_seg_end, locGo_seg]
    simp [locGo]
  | comp p =>
    simp only [render, eval]
    rw [tokGo_kw kwC kwC_facts.1 kwC_facts.2.1, tokGo_seg p ')' (Or.inl rfl), tokGo_nil, kwC_facts.2.2,
      locGo_open _ kwComplement_last, locGo_seg, locGo_close]
    simp [locGo]
  | join ps =>
    simp only [render, eval]
    rw [tokGo_kw kwJ kwJ_facts.1 kwJ_facts.2.1, tokGo_segs_close ps h, tokGo_nil,
      locGo_open _ kwJ_facts.2.2.1, locGo_segs, locGo_close]
    simp [locGo, kwJ_facts.2.2.2]
  | compJoin ps =>
    simp only [render, eval]
    rw [tokGo_kw kwC kwC_facts.1 kwC_facts.2.1, tokGo_kw kwJ kwJ_facts.1 kwJ_facts.2.1]
    rw [show segsText ps ++ [')', ')'] = segsText ps ++ ')' :: [')'] from rfl, tokGo_segs_close ps h, tokGo_close, tokGo_nil,
      kwC_facts.2.2, locGo_open _ kwComplement_last, locGo_open _ kwJ_facts.2.2.1, locGo_segs, locGo_close, locGo_close]
    simp [locGo, kwJ_facts.2.2.2]

theorem listStrand_fwd : ∀ (ps : List (Nat × Nat)), ps ≠ [] → listStrand (ps.map mkSpan) = .ok 1
  | [], h => absurd rfl h
  | p :: ps, _ => by
    simp [listStrand, mkSpan, List.all_eq_true]

theorem listStrand_flip (ps : List (Nat × Nat)) (h : ps ≠ []) : listStrand (flip (ps.map mkSpan)) = .ok (-1) := by
  have hne : flip (ps.map mkSpan) ≠ [] := by simp [flip, h]
  cases hf : flip (ps.map mkSpan) with
  | nil => exact absurd hf hne
  | cons s rest =>
    have hall : ∀ t ∈ flip (ps.map mkSpan), t.strand = -1 := by
      intro t ht
      simp only [flip, List.mem_map, List.mem_reverse] at ht
      obtain ⟨x, ⟨y, _, rfl⟩, rfl⟩ := ht
      simp [mkSpan]
    have hs := hall s (by rw [hf]; exact List.mem_cons_self)
    have hr : rest.all (fun t => t.strand = s.strand) = true := by
      rw [List.all_eq_true]
      intro t ht
      have := hall t (by rw [hf]; exact List.mem_cons_of_mem _ ht)
      simp [this, hs]
    simp only [listStrand, hs, List.all_eq_true, decide_eq_true_eq, Except.ok.injEq]
    have : ∀ x ∈ rest, x.strand = -1 := fun x hx => hall x (by rw [hf]; exact List.mem_cons_of_mem _ hx)
    first
      | exact this
      | (simp; exact this)

end CogentModel.GenBank
