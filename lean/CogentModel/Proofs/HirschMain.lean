/-
  C18 helper lemmas for Hirschberg, part 5: the divide-and-conquer result equals the full DP (value and path).
-/
import CogentModel.Proofs.HirschMiddle
namespace CogentModel.PairHMM
set_option linter.unusedSectionVars false
set_option linter.unusedVariables false

variable {S : Type} [Add S] [LT S] [DecidableLT S] [ScoreLawsAC S]

theorem eadd_some_right {a b : Option S} {v : S} (hv : eadd a b = some v) : ∃ x, b = some x := by
  cases a with
  | none => simp [eadd] at hv
  | some x => cases b with
    | none => simp [eadd] at hv
    | some y => exact ⟨y, rfl⟩

/-- the value `hirsch` puts into `middle_row[j, s]` -/
def midVal (h : HMM S) (n m half j s : Nat) : Option S :=
  eadd (val h false m half j s) (bwdVal h n m half j s)

theorem table_row (h : HMM S) (loc : Bool) (n m : Nat) :
    (tableOf h loc n m).getD n [] = Vrow h loc m n := by
  simp only [tableOf, Vrow]
  exact scanList_getD _ _ _ _ (Nat.le_refl _)

theorem mid_entry (h : HMM S) (n m half b q : Nat) (hb : b < (Vrow h false m half).length)
    (hq : q < ((Vrow h false m half)[b]).length) :
    eadd (((Vrow h false m half)[b])[q]).1
      (bwdAt (revHMM h n m) ((Vrow (revHMM h n m) false m (n - half)).getD (m - (0 + b)) []) (n - half) (m - (0 + b)) (1 + q)) =
      midVal h n m half b (1 + q) := by
  have hbm : b ≤ m := by rw [Vrow_length] at hb; omega
  have hcell := Vrow_getElem h false m half b hb
  have hqk : q < h.k := by
    have := hq; simp only [hcell] at this; rw [V_length h false m half b hbm] at this; exact this
  have hv : (((Vrow h false m half)[b])[q]).1 = val h false m half b (1 + q) := by
    have e := val_getElem h false m half b (1 + q) hbm (by omega) (by omega)
      (by rw [V_length h false m half b hbm]; omega)
    simp only [Nat.add_sub_cancel_left] at e
    simp only [hcell]
    exact e
  rw [hv]
  simp only [Nat.zero_add, midVal, bwdVal, V]

/-- every global path is bounded by the best entry of the middle row -/
theorem mid_upper (h : HMM S) (n m half : Nat) (h1 : 1 ≤ half) (hn : half ≤ n) (p : List Nat)
    (hp : IsGlobalPath h n m p) :
    ele (globalScore h p)
      (midRow (revHMM h n m) (n - half) m (Vrow (revHMM h n m) false m (n - half)) (Vrow h false m half) 0 (none, 0, 0)).1 := by
  obtain ⟨hst, hc⟩ := hp
  obtain ⟨p1, p2, rfl, hne, hc1⟩ := crossing h half p 0 0 (by omega) (by rw [hc]; exact hn)
  obtain ⟨a, p1', rfl⟩ : ∃ a p1', p1 = a :: p1' := by
    cases p1 with
    | nil => exact absurd rfl hne
    | cons a p1' => exact ⟨a, p1', rfl⟩
  rw [consumedFrom_append_list] at hc
  generalize hcd : consumedFrom h 0 0 (a :: p1') = c at hc hc1
  obtain ⟨ci, j⟩ := c
  simp only at hc1 hc
  subst hc1
  have hst1 : statesOK h (a :: p1') := fun x hx => hst x (List.mem_append_left _ hx)
  have hst2 : statesOK h p2 := fun x hx => hst x (List.mem_append_right _ hx)
  have hjm : j ≤ m := by
    have := consumed_mono h ci j p2
    rw [hc] at this; exact this.2
  have hl := hst1 _ (lastState_mem a p1')
  rw [globalScore_cut, hcd]
  simp only
  have hF := prefixScore_le h false m 0 0 a p1' hst1 (by simp [canStart]) (by rw [hcd]; exact hjm) (cellsOK_global h 0 0 _)
  rw [hcd] at hF
  simp only at hF
  have hB := bwd_upper h n m ci j (lastState (a :: p1')) hl.1 p2 hst2 hc
  have hb : j < (Vrow h false m ci).length := by rw [Vrow_length]; omega
  have hq : lastState (a :: p1') - 1 < ((Vrow h false m ci)[j]).length := by
    rw [Vrow_getElem h false m ci j hb, V_length h false m ci j hjm]; omega
  have hge := midRow_ge_elem (revHMM h n m) (n - ci) m (Vrow (revHMM h n m) false m (n - ci)) (Vrow h false m ci)
    0 (none, 0, 0) j hb (lastState (a :: p1') - 1) hq
  rw [mid_entry h n m ci j _ hb hq, show 1 + (lastState (a :: p1') - 1) = lastState (a :: p1') by omega] at hge
  exact ele_trans (eadd_mono2 hF hB) hge

theorem eadd_zero (z : S) (hz : ∀ x : S, x + z = x) (a : Option S) : eadd a (some z) = a := by
  cases a with
  | none => rfl
  | some x => simp [eadd, hz]

theorem ele_some_some_antisymm {x y : S} (h1 : ele (some x) (some y)) (h2 : ele (some y) (some x)) : x = y := by
  have := ele_antisymm h1 h2
  exact Option.some.inj this

/-- **Hirschberg = full DP**, for every fuel, threshold, split function and HMM -/
theorem hirsch_correct (z : S) (hz : ∀ x : S, x + z = x) (split : Nat → Nat)
    (hsplit : ∀ n, 3 ≤ n → 1 ≤ split n ∧ split n ≤ n) (limit : Nat) :
    ∀ (f : Nat) (h : HMM S), NoSilent h → ∀ (n m : Nat),
      (hirsch z split limit f h n m).score = (viterbiGlobal h n m).score ∧
      ∀ v, (hirsch z split limit f h n m).score = some v →
        ∃ p, (hirsch z split limit f h n m).path = some (annotate h 0 0 p) ∧ IsGlobalPath h n m p ∧
          globalScore h p = some v := by
  intro f
  induction f with
  | zero =>
    intro h hns n m
    exact ⟨rfl, fun v hv => global_attained h hns n m v hv⟩
  | succ f ih =>
    intro h hns n m
    by_cases hcond' : ¬ (3 ≤ n ∧ limit < (n + 2) * (m + 2) * (h.k + 2))
    · have e : hirsch z split limit (f + 1) h n m = viterbiGlobal h n m := by
        simp only [hirsch, if_neg hcond']
      rw [e]
      exact ⟨rfl, fun v hv => global_attained h hns n m v hv⟩
    have hcond : 3 ≤ n ∧ limit < (n + 2) * (m + 2) * (h.k + 2) := Classical.not_not.mp hcond'
    obtain ⟨h1, hn⟩ := hsplit n hcond.1
    simp only [hirsch, if_pos hcond, table_row]
    generalize hb : midRow (revHMM h n m) (n - split n) m (Vrow (revHMM h n m) false m (n - split n))
      (Vrow h false m (split n)) 0 (none, 0, 0) = b
    have hupper : ∀ p, IsGlobalPath h n m p → ele (globalScore h p) b.1 := by
      intro p hp; rw [← hb]; exact mid_upper h n m (split n) h1 hn p hp
    -- viterbi ≤ middle maximum
    have hvit_le : ele (viterbiGlobal h n m).score b.1 := by
      cases hv : (viterbiGlobal h n m).score with
      | none => exact ele_none _
      | some u =>
        obtain ⟨p0, _, hp0, hs0⟩ := global_attained h hns n m u hv
        rw [← hs0]; exact hupper p0 hp0
    cases hb1 : b.1 with
    | none =>
      simp only
      rw [hb1] at hvit_le
      refine ⟨?_, fun v hv => by simp at hv⟩
      cases hv : (viterbiGlobal h n m).score with
      | none => rfl
      | some u => rw [hv] at hvit_le; simp [ele, egt] at hvit_le
    | some v =>
      simp only
      -- where the maximum sits
      rcases midRow_cases (revHMM h n m) (n - split n) m (Vrow (revHMM h n m) false m (n - split n))
          (Vrow h false m (split n)) 0 (none, 0, 0) with hc | ⟨j, hj, q, hq, hc⟩
      · rw [hb] at hc; rw [hc] at hb1; simp at hb1
      rw [hb, mid_entry h n m (split n) j q hj hq] at hc
      have hjm : j ≤ m := by rw [Vrow_length] at hj; omega
      have hqk : q < h.k := by
        have := hq; rw [Vrow_getElem h false m (split n) j hj, V_length h false m (split n) j hjm] at this; exact this
      have hbj : b.2.1 = j := by rw [hc]; simp
      have hba : b.2.2 = 1 + q := by rw [hc]
      have hmv : midVal h n m (split n) j (1 + q) = some v := by rw [hc] at hb1; exact hb1
      rw [hbj, hba]
      generalize hhalf : split n = half at *
      generalize ha : 1 + q = a at *
      have ha1 : 1 ≤ a := by omega
      have hak : a ≤ h.k := by omega
      unfold midVal at hmv
      obtain ⟨f0, hF⟩ := eadd_some_left hmv
      obtain ⟨b0, hB⟩ := eadd_some_right hmv
      have hv : v = f0 + b0 := by rw [hF, hB] at hmv; simp [eadd] at hmv; exact hmv.symm
      -- the forward and backward values are attained
      obtain ⟨pF, i0, j0, _, spF⟩ := trace_ok h false m hns (half + j) half j a f0 [] (half + j + 1) rfl hjm ha1 hak hF
        (Nat.le_refl _)
      have hstart := spF.start
      simp [canStart] at hstart
      obtain ⟨rfl, rfl⟩ := hstart
      obtain ⟨qB, hstB, hcB, hsB⟩ := bwd_attained h hns n m half j a hn hjm ha1 b0 hB
      obtain ⟨aF, pF', rfl⟩ : ∃ aF pF', pF = aF :: pF' := by
        cases pF with
        | nil => exact absurd rfl spF.nonempty
        | cons aF pF' => exact ⟨aF, pF', rfl⟩
      -- the concatenation is a global path with score v
      have hcat : IsGlobalPath h n m ((aF :: pF') ++ qB) ∧ globalScore h ((aF :: pF') ++ qB) = some v := by
        refine ⟨⟨statesOK_append_list h _ _ spF.states hstB, ?_⟩, ?_⟩
        · rw [consumedFrom_append_list, spF.consumed]; exact hcB
        · rw [globalScore_cut, spF.score, spF.last, spF.consumed, hsB, hv]; rfl
      have hle_vit : ele (some v) (viterbiGlobal h n m).score := by
        rw [← hcat.2]; exact global_upper h n m _ hcat.1
      have hscore : some v = (viterbiGlobal h n m).score := by
        rw [hb1] at hvit_le
        exact ele_antisymm hle_vit hvit_le
      refine ⟨hscore, ?_⟩
      intro v' hv'
      have hvv : v' = v := (Option.some.inj hv').symm
      subst hvv
      -- first half
      have hnsA : NoSilent (pinEnd h z a) := hns
      have hFA : IsGlobalPath (pinEnd h z a) half j (aF :: pF') :=
        (isGlobalPath_pinEnd h z a half j _).mpr ⟨spF.states, spF.consumed⟩
      have hsA : globalScore (pinEnd h z a) (aF :: pF') = some f0 := by
        rw [globalScore_pinEnd h z a aF pF' spF.states, if_pos spF.last, spF.score, eadd_zero z hz]
      obtain ⟨v1, hv1⟩ := ele_some_left (by rw [← hsA]; exact global_upper (pinEnd h z a) half j _ hFA)
      obtain ⟨hihA, hpathA⟩ := ih (pinEnd h z a) hnsA half j
      obtain ⟨pa, hpa, hgpa, hspa⟩ := hpathA v1 (by rw [hihA]; exact hv1)
      have hgpa' := (isGlobalPath_pinEnd h z a half j pa).mp hgpa
      obtain ⟨a1, pa', rfl⟩ : ∃ a1 pa', pa = a1 :: pa' := by
        cases pa with
        | nil =>
          have := hgpa'.2; simp only [consumedFrom, Prod.mk.injEq] at this; omega
        | cons a1 pa' => exact ⟨a1, pa', rfl⟩
      rw [globalScore_pinEnd h z a a1 pa' hgpa'.1] at hspa
      have hlastA : lastState (a1 :: pa') = a := by
        by_cases hl : lastState (a1 :: pa') = a
        · exact hl
        · rw [if_neg hl] at hspa; simp at hspa
      rw [if_pos hlastA, eadd_zero z hz] at hspa
      have hf_eq : f0 = v1 := by
        apply ele_some_some_antisymm
        · have := global_upper (pinEnd h z a) half j _ hFA
          rw [hsA, hv1] at this; exact this
        · have := prefixScore_le h false m 0 0 a1 pa' hgpa'.1 (by simp [canStart])
            (by rw [hgpa'.2]; exact hjm) (cellsOK_global h 0 0 _)
          rw [hgpa'.2, hlastA, hspa, hF] at this; exact this
      -- second half
      have hnsB : NoSilent (startFrom h a half j) := hns
      have hQB : IsGlobalPath (startFrom h a half j) (n - half) (m - j) qB :=
        (isGlobalPath_startFrom h a half j _ _ qB).mpr ⟨hstB, by
          rw [hcB]; exact Prod.ext (by simp only; omega) (by simp only; omega)⟩
      have hsQB : globalScore (startFrom h a half j) qB = some b0 := by
        rw [globalScore_startFrom h a half j qB hstB, hsB]
      obtain ⟨v2, hv2⟩ := ele_some_left (by rw [← hsQB]; exact global_upper (startFrom h a half j) _ _ _ hQB)
      obtain ⟨hihB, hpathB⟩ := ih (startFrom h a half j) hnsB (n - half) (m - j)
      obtain ⟨pb, hpb, hgpb, hspb⟩ := hpathB v2 (by rw [hihB]; exact hv2)
      have hgpb' := (isGlobalPath_startFrom h a half j _ _ pb).mp hgpb
      have hcpb : consumedFrom h half j pb = (n, m) := by
        rw [hgpb'.2]; exact Prod.ext (by simp only; omega) (by simp only; omega)
      rw [globalScore_startFrom h a half j pb hgpb'.1] at hspb
      have hb_eq : b0 = v2 := by
        apply ele_some_some_antisymm
        · have := global_upper (startFrom h a half j) _ _ _ hQB
          rw [hsQB, hv2] at this; exact this
        · have := bwd_upper h n m half j a ha1 pb hgpb'.1 hcpb
          rw [hspb, hB] at this; exact this
      -- assemble
      refine ⟨(a1 :: pa') ++ pb, ?_, ⟨statesOK_append_list h _ _ hgpa'.1 hgpb'.1, ?_⟩, ?_⟩
      · rw [hpa, hpb]
        simp only
        rw [annotate_congr (pinEnd h z a) h (fun _ => rfl), annotate_congr (startFrom h a half j) h (fun _ => rfl),
          annotate_shift, annotate_append_list, hgpa'.2]
        simp only [Nat.add_zero]
      · rw [consumedFrom_append_list, hgpa'.2]; exact hcpb
      · rw [globalScore_cut, hspa, hlastA, hgpa'.2, hspb, hv, hf_eq, hb_eq]; rfl

end CogentModel.PairHMM
