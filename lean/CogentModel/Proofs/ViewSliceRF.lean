import CogentModel.Proofs.ViewRange
/-! Direction lemma: negative slice step on a forward view (`revFromFwd`). -/
namespace CogentModel.View
open CogentModel

theorem rf_start (vs N k n ss S : Int) (hk : 0 < k) (hn : 0 < n)
    (hS : S = if ss ≥ n then (vs + n * k - k) - N else if ss ≥ 0 then (vs + ss * k) - N
               else vs + n * k + ss * k - N) :
    -1 ≤ clampN ss n ∧ clampN ss n ≤ n - 1 ∧ S ≤ vs + clampN ss n * k - N ∧
      (0 ≤ clampN ss n → S = vs + clampN ss n * k - N) := by
  rcases clampN_cases ss n k hk (le_of_lt hn) with a | a | a | a <;> omega

theorem rf_stop (vs N k n se E0 : Int) (hk : 0 < k) (hn : 0 < n)
    (hE0 : E0 = if se ≥ 0 then vs + (se * k) - N else vs + (n * k) + (se * k) - N) :
    -1 ≤ clampN se n ∧ clampN se n ≤ n - 1 ∧ (clampN se n < n - 1 → se < n) ∧
      (E0 = vs + clampN se n * k - N ∨ (clampN se n = -1 ∧ E0 ≤ vs - N - 1) ∨
        (clampN se n = n - 1 ∧ vs + n * k - N ≤ E0)) := by
  rcases clampN_cases se n k hk (le_of_lt hn) with a | a | a | a <;> omega

theorem rf_combine (vs ve N k n se A B Ak Bk nk S E0 E : Int) (hk : 0 < k) (_hn : 0 < n)
    (h0 : 0 ≤ vs) (h1 : vs ≤ ve) (h2 : ve ≤ N)
    (kit1 : ve - vs ≤ nk) (kit2 : nk < ve - vs + k) (n3 : n - 1 ≤ nk - k)
    (hA : -1 ≤ A ∧ A ≤ n - 1 ∧ S ≤ vs + Ak - N ∧ (0 ≤ A → S = vs + Ak - N))
    (hB : -1 ≤ B ∧ B ≤ n - 1 ∧ (B < n - 1 → se < n) ∧
      (E0 = vs + Bk - N ∨ (B = -1 ∧ E0 ≤ vs - N - 1) ∨ (B = n - 1 ∧ vs + nk - N ≤ E0)))
    (hE : E = max E0 (vs - N - 1))
    (m1 : B < A → Bk + k ≤ Ak) (m2 : A ≤ B → Ak ≤ Bk)
    (m3 : A ≤ n - 1 → Ak ≤ nk - k) (m4 : 0 ≤ B → 0 ≤ Bk) (m5 : B = -1 → Bk = -k)
    (m6 : 0 ≤ A → 0 ≤ Ak) (m7 : A = -1 → Ak = -k) :
    (B < A → ¬ (se ≥ N) ∧ ¬ (S ≥ 0 ∨ E0 ≥ 0) ∧ S ≤ -1 ∧ E ≤ -1 ∧ -N - 1 ≤ E ∧ ¬ (S < -N ∨ S < E) ∧
        S + N = vs + Ak ∧ Ak - Bk - k < S - E ∧ S - E ≤ Ak - Bk) ∧
    (A ≤ B → se ≥ N ∨ (S ≥ 0 ∨ E0 ≥ 0) ∨ (S ≤ -1 ∧ E ≤ -1 ∧ -N - 1 ≤ E ∧ S ≤ E)) := by
  constructor
  · intro hAB
    have := m1 hAB
    clear m1 m2
    omega
  · intro hAB
    have := m2 hAB
    clear m1 m2
    omega

theorem revFromFwd_eq (fl : Flavour) (v : View) (ss se c S E0 : Int)
    (hS : S = if ss ≥ len v then (v.start + len v * v.step - v.step) - v.seqLen
               else if ss ≥ 0 then (v.start + ss * v.step) - v.seqLen
               else v.start + len v * v.step + ss * v.step - v.seqLen)
    (hE0 : E0 = if se ≥ 0 then v.start + (se * v.step) - v.seqLen
                else v.start + (len v * v.step) + (se * v.step) - v.seqLen) :
    revFromFwd fl v ss se c =
      if se ≥ v.seqLen then .ok (zero fl v)
      else if S ≥ 0 ∨ E0 ≥ 0 then .ok (zero fl v)
      else remk v S (max E0 (v.start - v.seqLen - 1)) (v.step * c) := by
  subst hS hE0; rfl

theorem revFromFwd_sem (fl : Flavour) (v w : View) (ss se c : Int) (h : Inv v) (hk : 0 < v.step)
    (hc : c < 0) (hn : len v ≠ 0) (hw : revFromFwd fl v ss se c = .ok w) :
    Sem w (PySlice.rangeLen (clampN ss (len v)) (clampN se (len v)) c)
      (first v + clampN ss (len v) * v.step) (v.step * c) := by
  obtain ⟨kit0, kit1, kit2⟩ := len_fwd v h hk
  have hn' : 0 < len v := by omega
  have hf : first v = v.start := by simp [first, hk]
  obtain ⟨hN, hI | hI⟩ := h
  swap
  · omega
  obtain ⟨_, i0, i1, i2⟩ := hI
  rw [revFromFwd_eq fl v ss se c _ _ rfl rfl] at hw
  generalize hS : (if ss ≥ len v then (v.start + len v * v.step - v.step) - v.seqLen
               else if ss ≥ 0 then (v.start + ss * v.step) - v.seqLen
               else v.start + len v * v.step + ss * v.step - v.seqLen) = S at hw
  generalize hE0 : (if se ≥ 0 then v.start + (se * v.step) - v.seqLen
                else v.start + (len v * v.step) + (se * v.step) - v.seqLen) = E0 at hw
  have sA := rf_start v.start v.seqLen v.step (len v) ss S hk hn' hS.symm
  have sB := rf_stop v.start v.seqLen v.step (len v) se E0 hk hn' hE0.symm
  have n3 : len v - 1 ≤ len v * v.step - v.step := by nlinarith
  generalize hA : clampN ss (len v) = A at *
  generalize hB : clampN se (len v) = B at *
  have m1 := (mul_cmp B A v.step (B * v.step) (A * v.step) hk rfl rfl).2
  have m2 := (mul_cmp A B v.step (A * v.step) (B * v.step) hk rfl rfl).1
  have m3 := (mul_cmp A (len v - 1) v.step (A * v.step) (len v * v.step - v.step) hk rfl (by ring)).1
  have m4 : 0 ≤ B → 0 ≤ B * v.step := fun e => Int.mul_nonneg e (le_of_lt hk)
  have m5 : B = -1 → B * v.step = -v.step := fun e => by rw [e]; ring
  have m6 : 0 ≤ A → 0 ≤ A * v.step := fun e => Int.mul_nonneg e (le_of_lt hk)
  have m7 : A = -1 → A * v.step = -v.step := fun e => by rw [e]; ring
  obtain ⟨c1, c2⟩ := rf_combine v.start v.stop v.seqLen v.step (len v) se A B (A * v.step) (B * v.step)
    (len v * v.step) S E0 (max E0 (v.start - v.seqLen - 1)) hk hn' i0 i1 i2 kit1 kit2 n3 sA sB rfl
    m1 m2 m3 m4 m5 m6 m7
  have hK : v.step * c < 0 := Int.mul_neg_of_pos_of_neg hk hc
  rcases Int.lt_or_le B A with hAB | hAB
  · obtain ⟨d0, d1, d2, d3, d4, d5, d6, d7, d8⟩ := c1 hAB
    rw [if_neg d0, if_neg d1, remk_neg_eq v S _ _ hN hK d2 d4 d3, if_neg d5] at hw
    have hw' := (Except.ok.inj hw).symm
    obtain ⟨L, hL0, hL, b1, b2⟩ := rangeLen_neg A B c hc hAB
    have hlen : len w = L := by
      apply len_of_block_rev w (A - B) v.step (-c) L hk (by omega) (by rw [hw']; show v.step * c = _; ring)
        (by omega) _ _ (by omega) (by omega)
      · rw [hw']; show (A - B - 1) * v.step < S - max E0 (v.start - v.seqLen - 1)
        have e : (A - B - 1) * v.step = A * v.step - B * v.step - v.step := by ring
        omega
      · rw [hw']; show S - max E0 (v.start - v.seqLen - 1) ≤ (A - B) * v.step
        have e : (A - B) * v.step = A * v.step - B * v.step := by ring
        omega
    refine ⟨by rw [hlen, hL], fun _ => ⟨?_, by rw [hw']⟩⟩
    have : ¬ w.step > 0 := by rw [hw']; show ¬ v.step * c > 0; omega
    rw [hf, first, if_neg this, hw']
    exact d6
  · rw [rangeLen_neg_empty A B c hc hAB]
    apply sem_empty
    have c2 := c2 hAB
    split at hw
    · rw [← Except.ok.inj hw]; exact len_zero fl v
    split at hw
    · rw [← Except.ok.inj hw]; exact len_zero fl v
    have c3 : S ≤ -1 ∧ max E0 (v.start - v.seqLen - 1) ≤ -1 ∧
        -v.seqLen - 1 ≤ max E0 (v.start - v.seqLen - 1) ∧ S ≤ max E0 (v.start - v.seqLen - 1) := by omega
    rw [remk_neg_eq v S _ _ hN hK c3.1 c3.2.2.1 c3.2.1] at hw
    rw [← Except.ok.inj hw]
    split
    · rfl
    · apply len_eq_zero_of_eq; show S = max E0 (v.start - v.seqLen - 1); omega

end CogentModel.View
