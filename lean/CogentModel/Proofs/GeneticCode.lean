import CogentModel.Model.GeneticCode
import CogentModel.Spec.GeneticCode
/-!
# C12 — helper lemmas (core Lean only)

Finite facts about the generated tables are closed by `decide +kernel`; they are lifted to all
sequences by three-step list induction.
-/
namespace CogentModel.GC
open CogentModel.C12Tables

/-- canonical nucleotide sequence -/
def Canon (s : List Char) : Prop := ∀ c ∈ s, c ∈ GCSpec.bases

instance (s : List Char) : Decidable (Canon s) := inferInstanceAs (Decidable (∀ c ∈ s, c ∈ GCSpec.bases))

/-! ## one codon through the modelled converters -/

def plusOf (seq : List Char) (a b c : Char) : Char :=
  let g := mkNewGC newDna seq
  g.plus (kmerIdx g.ns g.gci g.gi (monoIdx g.alpha a) (monoIdx g.alpha b) (monoIdx g.alpha c))

def minusOf (seq : List Char) (a b c : Char) : Char :=
  let g := mkNewGC newDna seq
  g.minus (kmerIdx g.ns g.gci g.gi (monoIdx g.alpha a) (monoIdx g.alpha b) (monoIdx g.alpha c))

def plusMap (seq : List Char) (d : List Char) : List Char :=
  let g := mkNewGC newDna seq
  (toIndices g.ns g.gci g.gi (d.map (monoIdx g.alpha))).map g.plus

def minusMap (seq : List Char) (d : List Char) : List Char :=
  let g := mkNewGC newDna seq
  (toIndices g.ns g.gci g.gi (d.map (monoIdx g.alpha))).map g.minus

set_option maxRecDepth 100000 in
theorem plus_codon : ∀ code ∈ newCodes, ∀ a ∈ GCSpec.bases, ∀ b ∈ GCSpec.bases, ∀ c ∈ GCSpec.bases,
    plusOf code.2.1 a b c = GCSpec.aa code.2.1 [a, b, c] := by decide +kernel

set_option maxRecDepth 100000 in
theorem minus_codon : ∀ code ∈ newCodes, ∀ a ∈ GCSpec.bases, ∀ b ∈ GCSpec.bases, ∀ c ∈ GCSpec.bases,
    minusOf code.2.1 a b c = GCSpec.aa code.2.1 [GCSpec.wc c, GCSpec.wc b, GCSpec.wc a] := by decide +kernel

set_option maxRecDepth 100000 in
theorem old_codon : ∀ code ∈ oldCodes, ∀ a ∈ GCSpec.bases, ∀ b ∈ GCSpec.bases, ∀ c ∈ GCSpec.bases,
    oldGetItem code.2.1 [a, b, c] = GCSpec.aa code.2.1 [a, b, c] := by decide +kernel

set_option maxRecDepth 100000 in
theorem new_getitem_codon : ∀ code ∈ newCodes, ∀ a ∈ GCSpec.bases, ∀ b ∈ GCSpec.bases, ∀ c ∈ GCSpec.bases,
    newGetItem newDna code.2.1 [a, b, c] = GCSpec.aa code.2.1 [a, b, c] := by decide +kernel

/-! ## list facts -/

theorem canon_cons3 {a b c : Char} {r : List Char} (h : Canon (a :: b :: c :: r)) :
    a ∈ GCSpec.bases ∧ b ∈ GCSpec.bases ∧ c ∈ GCSpec.bases ∧ Canon r :=
  ⟨h a (by simp), h b (by simp), h c (by simp), fun x hx => h x (by simp [hx])⟩

theorem canon_drop {s : List Char} (h : Canon s) (k : Nat) : Canon (s.drop k) :=
  fun c hc => h c (List.mem_of_mem_drop hc)

theorem canon_take {s : List Char} (h : Canon s) (k : Nat) : Canon (s.take k) :=
  fun c hc => h c (List.mem_of_mem_take hc)

theorem trunc3_eq_take (d : List Char) : trunc3 d = d.take (d.length - d.length % 3) := by
  unfold trunc3
  split
  · rfl
  · rename_i h
    have : d.length % 3 = 0 := by omega
    simp [this]

theorem canon_trunc3 {s : List Char} (h : Canon s) : Canon (trunc3 s) := by
  rw [trunc3_eq_take]; exact canon_take h _

theorem trunc3_length (d : List Char) : (trunc3 d).length = d.length - d.length % 3 := by
  rw [trunc3_eq_take, List.length_take]; omega

theorem trunc3_length_mod (d : List Char) : (trunc3 d).length % 3 = 0 := by
  rw [trunc3_length]; omega

theorem trunc3_cons3 (a b c : Char) (r : List Char) : trunc3 (a :: b :: c :: r) = a :: b :: c :: trunc3 r := by
  rw [trunc3_eq_take, trunc3_eq_take]
  have h1 : (a :: b :: c :: r).length = r.length + 3 := by simp
  have h2 : (r.length + 3) % 3 = r.length % 3 := by omega
  have h3 : r.length + 3 - r.length % 3 = (r.length - r.length % 3) + 1 + 1 + 1 := by omega
  rw [h1, h2, h3, List.take_succ_cons, List.take_succ_cons, List.take_succ_cons]

theorem spec_translate_short (code : List Char) : ∀ d : List Char, d.length < 3 → GCSpec.translate code d = []
  | [], _ => rfl
  | [_], _ => rfl
  | [_, _], _ => rfl
  | _ :: _ :: _ :: _, h => by simp at h; omega

theorem spec_translate_trunc3 (code : List Char) : ∀ d : List Char,
    GCSpec.translate code (trunc3 d) = GCSpec.translate code d
  | [] => rfl
  | [_] => rfl
  | [_, _] => rfl
  | a :: b :: c :: r => by
    rw [trunc3_cons3]
    simp only [GCSpec.translate]
    rw [spec_translate_trunc3 code r]

theorem spec_translate_append (code : List Char) : ∀ (x y : List Char), x.length % 3 = 0 →
    GCSpec.translate code (x ++ y) = GCSpec.translate code x ++ GCSpec.translate code y
  | [], y, _ => by simp [GCSpec.translate]
  | [_], _, h => by simp at h
  | [_, _], _, h => by simp at h
  | a :: b :: c :: r, y, h => by
    have hr : r.length % 3 = 0 := by simp at h; omega
    simp only [List.cons_append, GCSpec.translate]
    rw [spec_translate_append code r y hr]

theorem spec_rc_append (x y : List Char) : GCSpec.rc (x ++ y) = GCSpec.rc y ++ GCSpec.rc x := by
  simp [GCSpec.rc]

theorem spec_rc_length (x : List Char) : (GCSpec.rc x).length = x.length := by simp [GCSpec.rc]

theorem flatMap_leBytes_one (idx : List Nat) : idx.flatMap (leBytes 1) = idx := by
  induction idx with
  | nil => rfl
  | cons a r ih => simp [List.flatMap_cons, leBytes, ih]

theorem byteWidth_small {n : Nat} (h : n < 256) : byteWidth n = 1 := by simp [byteWidth, h]

/-! ## lifting the codon facts to sequences -/

theorem plusMap_cons3 (seq : List Char) (a b c : Char) (r : List Char) :
    plusMap seq (a :: b :: c :: r) = plusOf seq a b c :: plusMap seq r := rfl

theorem minusMap_cons3 (seq : List Char) (a b c : Char) (r : List Char) :
    minusMap seq (a :: b :: c :: r) = minusOf seq a b c :: minusMap seq r := rfl

theorem plus_chunks (seq : List Char)
    (h : ∀ a ∈ GCSpec.bases, ∀ b ∈ GCSpec.bases, ∀ c ∈ GCSpec.bases, plusOf seq a b c = GCSpec.aa seq [a, b, c]) :
    ∀ d : List Char, Canon d → plusMap seq d = GCSpec.translate seq d
  | [], _ => rfl
  | [_], _ => rfl
  | [_, _], _ => rfl
  | a :: b :: c :: r, hd => by
    obtain ⟨ha, hb, hc, hr⟩ := canon_cons3 hd
    rw [plusMap_cons3, h a ha b hb c hc, plus_chunks seq h r hr]
    rfl

theorem minus_chunks (seq : List Char)
    (h : ∀ a ∈ GCSpec.bases, ∀ b ∈ GCSpec.bases, ∀ c ∈ GCSpec.bases,
      minusOf seq a b c = GCSpec.aa seq [GCSpec.wc c, GCSpec.wc b, GCSpec.wc a]) :
    ∀ d : List Char, Canon d → d.length % 3 = 0 → (minusMap seq d).reverse = GCSpec.translate seq (GCSpec.rc d)
  | [], _, _ => rfl
  | [_], _, h3 => by simp at h3
  | [_, _], _, h3 => by simp at h3
  | a :: b :: c :: r, hd, h3 => by
    obtain ⟨ha, hb, hc, hr⟩ := canon_cons3 hd
    have hr3 : r.length % 3 = 0 := by simp at h3; omega
    have hrc : GCSpec.rc (a :: b :: c :: r) = GCSpec.rc r ++ [GCSpec.wc c, GCSpec.wc b, GCSpec.wc a] := by
      simp [GCSpec.rc]
    rw [minusMap_cons3, List.reverse_cons, minus_chunks seq h r hr hr3, h a ha b hb c hc, hrc,
      spec_translate_append _ _ _ (by rw [spec_rc_length]; exact hr3)]
    rfl

/-- what `translate` computes on the plus strand when the index array is one byte wide -/
theorem new_translate_plus (seq : List Char)
    (h : ∀ a ∈ GCSpec.bases, ∀ b ∈ GCSpec.bases, ∀ c ∈ GCSpec.bases, plusOf seq a b c = GCSpec.aa seq [a, b, c])
    (s : List Char) (start : Nat) (hs : Canon s) (hsmall : (s.length - start) / 3 < 256) :
    newTranslate newDna seq s start false = GCSpec.translate seq (s.drop start) := by
  have hd1 : (if start ≠ 0 then s.drop start else s) = s.drop start := by
    split
    · rfl
    · rename_i h0; have : start = 0 := by omega
      simp [this]
  have hw : byteWidth ((trunc3 (s.drop start)).length / 3) = 1 := by
    apply byteWidth_small
    rw [trunc3_length, List.length_drop]; omega
  show ((toIndices _ _ _ ((trunc3 (if start ≠ 0 then s.drop start else s)).map _)).flatMap
      (leBytes (byteWidth ((trunc3 (if start ≠ 0 then s.drop start else s)).length / 3)))).map _ = _
  rw [hd1, hw, flatMap_leBytes_one]
  have := plus_chunks seq h (trunc3 (s.drop start)) (canon_trunc3 (canon_drop hs start))
  rw [spec_translate_trunc3] at this
  exact this

/-- what `translate(rc=True)` computes: the reverse complement of the *already truncated* slice -/
theorem new_translate_minus (seq : List Char)
    (h : ∀ a ∈ GCSpec.bases, ∀ b ∈ GCSpec.bases, ∀ c ∈ GCSpec.bases,
      minusOf seq a b c = GCSpec.aa seq [GCSpec.wc c, GCSpec.wc b, GCSpec.wc a])
    (s : List Char) (start : Nat) (hs : Canon s) (hsmall : (s.length - start) / 3 < 256) :
    newTranslate newDna seq s start true = GCSpec.translate seq (GCSpec.rc (trunc3 (s.drop start))) := by
  have hd1 : (if start ≠ 0 then s.drop start else s) = s.drop start := by
    split
    · rfl
    · rename_i h0; have : start = 0 := by omega
      simp [this]
  have hw : byteWidth ((trunc3 (s.drop start)).length / 3) = 1 := by
    apply byteWidth_small
    rw [trunc3_length, List.length_drop]; omega
  show (((toIndices _ _ _ ((trunc3 (if start ≠ 0 then s.drop start else s)).map _)).flatMap
      (leBytes (byteWidth ((trunc3 (if start ≠ 0 then s.drop start else s)).length / 3)))).map _).reverse = _
  rw [hd1, hw, flatMap_leBytes_one]
  exact minus_chunks seq h (trunc3 (s.drop start)) (canon_trunc3 (canon_drop hs start)) (trunc3_length_mod _)

/-- the reverse complement of the truncated slice from `k < 3` is frame `(len - k) % 3` of the reverse strand -/
theorem rc_trunc_frame (code : List Char) (s : List Char) (k : Nat) (hk : k < 3) :
    GCSpec.translate code (GCSpec.rc (trunc3 (s.drop k))) =
      GCSpec.translate code ((GCSpec.rc s).drop ((s.length - k) % 3)) := by
  -- s = p ++ q ++ t,  p = take k,  q = trunc3 (drop k),  t = the incomplete codon
  let p := s.take k
  let d := s.drop k
  let q := trunc3 d
  let t := d.drop q.length
  have hd : d = q ++ t := by
    show d = trunc3 d ++ d.drop (trunc3 d).length
    rw [trunc3_eq_take, List.length_take]
    have : min (d.length - d.length % 3) d.length = d.length - d.length % 3 := by omega
    rw [this, List.take_append_drop]
  have hs : s = p ++ (q ++ t) := by rw [← hd]; exact (List.take_append_drop k s).symm
  have hdl : d.length = s.length - k := List.length_drop
  have hql : q.length = d.length - d.length % 3 := trunc3_length d
  have htl : t.length = (s.length - k) % 3 := by
    show (d.drop q.length).length = _
    rw [List.length_drop, hql, hdl]; omega
  have hpl : p.length < 3 := by
    show (s.take k).length < 3
    rw [List.length_take]; omega
  have hrc : GCSpec.rc s = GCSpec.rc t ++ (GCSpec.rc q ++ GCSpec.rc p) := by
    conv => lhs; rw [hs]
    rw [spec_rc_append, spec_rc_append, List.append_assoc]
  have hdrop : (GCSpec.rc s).drop ((s.length - k) % 3) = GCSpec.rc q ++ GCSpec.rc p := by
    rw [hrc, ← htl, ← spec_rc_length t, List.drop_left]
  rw [hdrop, spec_translate_append _ _ _ (by rw [spec_rc_length]; exact trunc3_length_mod d),
    spec_translate_short code (GCSpec.rc p) (by rw [spec_rc_length]; exact hpl), List.append_nil]

/-! ## old implementation -/

theorem old_chunks (seq : List Char)
    (h : ∀ a ∈ GCSpec.bases, ∀ b ∈ GCSpec.bases, ∀ c ∈ GCSpec.bases, oldGetItem seq [a, b, c] = GCSpec.aa seq [a, b, c]) :
    ∀ d : List Char, Canon d → oldCodons seq d = GCSpec.translate seq d
  | [], _ => rfl
  | [_], _ => rfl
  | [_, _], _ => rfl
  | a :: b :: c :: r, hd => by
    obtain ⟨ha, hb, hc, hr⟩ := canon_cons3 hd
    simp only [oldCodons, GCSpec.translate]
    rw [h a ha b hb c hc, old_chunks seq h r hr]

theorem old_translate_spec' (seq : List Char)
    (h : ∀ a ∈ GCSpec.bases, ∀ b ∈ GCSpec.bases, ∀ c ∈ GCSpec.bases, oldGetItem seq [a, b, c] = GCSpec.aa seq [a, b, c])
    (s : List Char) (start : Nat) (hs : Canon s) (hstart : start < s.length) :
    oldTranslate seq s start = .ok (GCSpec.translate seq (s.drop start)) := by
  unfold oldTranslate
  have h1 : s.isEmpty = false := by
    cases s with
    | nil => simp at hstart
    | cons _ _ => rfl
  have h2 : ¬ (start + 1 > s.length) := by omega
  simp only [h1, h2, if_false, Bool.false_eq_true]
  rw [old_chunks seq h _ (canon_drop hs start)]

theorem old_rc_canon : ∀ c ∈ GCSpec.bases, oldComplChar oldDna c = GCSpec.wc c := by decide +kernel

theorem old_rc_spec (s : List Char) (hs : Canon s) : oldRc oldDna s = GCSpec.rc s := by
  unfold oldRc oldComplement GCSpec.rc
  congr 1
  exact List.map_congr_left fun c hc => old_rc_canon c (hs c hc)

theorem canon_rc {s : List Char} (hs : Canon s) : Canon (GCSpec.rc s) := by
  intro c hc
  simp only [GCSpec.rc, List.mem_reverse, List.mem_map] at hc
  obtain ⟨x, hx, rfl⟩ := hc
  have : ∀ y ∈ GCSpec.bases, GCSpec.wc y ∈ GCSpec.bases := by decide
  exact this x (hs x hx)

end CogentModel.GC
