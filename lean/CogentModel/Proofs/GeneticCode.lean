import CogentModel.Model.GeneticCode
import CogentModel.Spec.GeneticCode
/-!
# C12 — helper lemmas (core Lean only)

Finite facts about the generated tables are closed by `decide +kernel`; they are lifted to all
sequences by three-step list induction.
-/
namespace CogentModel.GC
open CogentModel.C12Tables

/-- canonical nucleotide sequence -/
def Canon (s : List Char) : Prop := ∀ c ∈ s, c ∈ GCSpec.bases

instance (s : List Char) : Decidable (Canon s) := inferInstanceAs (Decidable (∀ c ∈ s, c ∈ GCSpec.bases))

/-! ## one codon through the modelled converters -/

def plusOf (seq : List Char) (a b c : Char) : Char :=
  let g := mkNewGC newDna seq
  g.plus (kmerIdx g.ns g.gci g.gi (monoIdx g.alpha a) (monoIdx g.alpha b) (monoIdx g.alpha c))

def minusOf (seq : List Char) (a b c : Char) : Char :=
  let g := mkNewGC newDna seq
  g.minus (kmerIdx g.ns g.gci g.gi (monoIdx g.alpha a) (monoIdx g.alpha b) (monoIdx g.alpha c))

def plusMap (seq : List Char) (d : List Char) : List Char :=
  let g := mkNewGC newDna seq
  (toIndices g.ns g.gci g.gi (d.map (monoIdx g.alpha))).map g.plus

def minusMap (seq : List Char) (d : List Char) : List Char :=
  let g := mkNewGC newDna seq
  (toIndices g.ns g.gci g.gi (d.map (monoIdx g.alpha))).map g.minus

set_option maxRecDepth 100000 in
theorem plus_codon : ∀ code ∈ newCodes, ∀ a ∈ GCSpec.bases, ∀ b ∈ GCSpec.bases, ∀ c ∈ GCSpec.bases,
    plusOf code.2.1 a b c = GCSpec.aa code.2.1 [a, b, c] := by decide +kernel

set_option maxRecDepth 100000 in
theorem minus_codon : ∀ code ∈ newCodes, ∀ a ∈ GCSpec.bases, ∀ b ∈ GCSpec.bases, ∀ c ∈ GCSpec.bases,
    minusOf code.2.1 a b c = GCSpec.aa code.2.1 [GCSpec.wc c, GCSpec.wc b, GCSpec.wc a] := by decide +kernel

set_option maxRecDepth 100000 in
theorem old_codon : ∀ code ∈ oldCodes, ∀ a ∈ GCSpec.bases, ∀ b ∈ GCSpec.bases, ∀ c ∈ GCSpec.bases,
    oldGetItem code.2.1 [a, b, c] = GCSpec.aa code.2.1 [a, b, c] := by decide +kernel

set_option maxRecDepth 100000 in
theorem new_getitem_codon : ∀ code ∈ newCodes, ∀ a ∈ GCSpec.bases, ∀ b ∈ GCSpec.bases, ∀ c ∈ GCSpec.bases,
    newGetItem newDna code.2.1 [a, b, c] = GCSpec.aa code.2.1 [a, b, c] := by decide +kernel

/-! ## list facts -/

theorem canon_cons3 {a b c : Char} {r : List Char} (h : Canon (a :: b :: c :: r)) :
    a ∈ GCSpec.bases ∧ b ∈ GCSpec.bases ∧ c ∈ GCSpec.bases ∧ Canon r :=
  ⟨h a (by simp), h b (by simp), h c (by simp), fun x hx => h x (by simp [hx])⟩

theorem canon_drop {s : List Char} (h : Canon s) (k : Nat) : Canon (s.drop k) :=
  fun c hc => h c (List.mem_of_mem_drop hc)

theorem canon_take {s : List Char} (h : Canon s) (k : Nat) : Canon (s.take k) :=
  fun c hc => h c (List.mem_of_mem_take hc)

theorem trunc3_eq_take (d : List Char) : trunc3 d = d.take (d.length - d.length % 3) := by
  unfold trunc3
  split
  · rfl
  · rename_i h
    have : d.length % 3 = 0 := by omega
    simp [this]

theorem canon_trunc3 {s : List Char} (h : Canon s) : Canon (trunc3 s) := by
  rw [trunc3_eq_take]; exact canon_take h _

theorem trunc3_length (d : List Char) : (trunc3 d).length = d.length - d.length % 3 := by
  rw [trunc3_eq_take, List.length_take]; omega

theorem trunc3_length_mod (d : List Char) : (trunc3 d).length % 3 = 0 := by
  rw [trunc3_length]; omega

theorem trunc3_cons3 (a b c : Char) (r : List Char) : trunc3 (a :: b :: c :: r) = a :: b :: c :: trunc3 r := by
  rw [trunc3_eq_take, trunc3_eq_take]
  have h1 : (a :: b :: c :: r).length = r.length + 3 := by simp
  have h2 : (r.length + 3) % 3 = r.length % 3 := by omega
  have h3 : r.length + 3 - r.length % 3 = (r.length - r.length % 3) + 1 + 1 + 1 := by omega
  rw [h1, h2, h3, List.take_succ_cons, List.take_succ_cons, List.take_succ_cons]

theorem spec_translate_short (code : List Char) : ∀ d : List Char, d.length < 3 → GCSpec.translate code d = []
  | [], _ => rfl
  | [_], _ => rfl
  | [_, _], _ => rfl
  | _ :: _ :: _ :: _, h => by simp at h; omega

theorem spec_translate_trunc3 (code : List Char) : ∀ d : List Char,
    GCSpec.translate code (trunc3 d) = GCSpec.translate code d
  | [] => rfl
  | [_] => rfl
  | [_, _] => rfl
  | a :: b :: c :: r => by
    rw [trunc3_cons3]
    simp only [GCSpec.translate]
    rw [spec_translate_trunc3 code r]

theorem spec_translate_append (code : List Char) : ∀ (x y : List Char), x.length % 3 = 0 →
    GCSpec.translate code (x ++ y) = GCSpec.translate code x ++ GCSpec.translate code y
  | [], y, _ => by simp [GCSpec.translate]
  | [_], _, h => by simp at h
  | [_, _], _, h => by simp at h
  | a :: b :: c :: r, y, h => by
    have hr : r.length % 3 = 0 := by simp at h; omega
    simp only [List.cons_append, GCSpec.translate]
    rw [spec_translate_append code r y hr]

theorem spec_rc_append (x y : List Char) : GCSpec.rc (x ++ y) = GCSpec.rc y ++ GCSpec.rc x := by
  simp [GCSpec.rc]

theorem spec_rc_length (x : List Char) : (GCSpec.rc x).length = x.length := by simp [GCSpec.rc]

theorem flatMap_leBytes_one (idx : List Nat) : idx.flatMap (leBytes 1) = idx := by
  induction idx with
  | nil => rfl
  | cons a r ih => simp [List.flatMap_cons, leBytes, ih]

/-- the trinucleotide alphabet has 66 words, so its index dtype is one byte wide, whatever the code -/
theorem byteWidth_words (seq : List Char) : byteWidth (mkNewGC newDna seq).words.length = 1 := by
  have : (mkNewGC newDna seq).words.length = 66 := by
    show (product3 newDna.chars ++ _).length = 66
    decide
  rw [this]; rfl

/-! ## lifting the codon facts to sequences -/

theorem plusMap_cons3 (seq : List Char) (a b c : Char) (r : List Char) :
    plusMap seq (a :: b :: c :: r) = plusOf seq a b c :: plusMap seq r := rfl

theorem minusMap_cons3 (seq : List Char) (a b c : Char) (r : List Char) :
    minusMap seq (a :: b :: c :: r) = minusOf seq a b c :: minusMap seq r := rfl

theorem plus_chunks (seq : List Char)
    (h : ∀ a ∈ GCSpec.bases, ∀ b ∈ GCSpec.bases, ∀ c ∈ GCSpec.bases, plusOf seq a b c = GCSpec.aa seq [a, b, c]) :
    ∀ d : List Char, Canon d → plusMap seq d = GCSpec.translate seq d
  | [], _ => rfl
  | [_], _ => rfl
  | [_, _], _ => rfl
  | a :: b :: c :: r, hd => by
    obtain ⟨ha, hb, hc, hr⟩ := canon_cons3 hd
    rw [plusMap_cons3, h a ha b hb c hc, plus_chunks seq h r hr]
    rfl

theorem minus_chunks (seq : List Char)
    (h : ∀ a ∈ GCSpec.bases, ∀ b ∈ GCSpec.bases, ∀ c ∈ GCSpec.bases,
      minusOf seq a b c = GCSpec.aa seq [GCSpec.wc c, GCSpec.wc b, GCSpec.wc a]) :
    ∀ d : List Char, Canon d → d.length % 3 = 0 → (minusMap seq d).reverse = GCSpec.translate seq (GCSpec.rc d)
  | [], _, _ => rfl
  | [_], _, h3 => by simp at h3
  | [_, _], _, h3 => by simp at h3
  | a :: b :: c :: r, hd, h3 => by
    obtain ⟨ha, hb, hc, hr⟩ := canon_cons3 hd
    have hr3 : r.length % 3 = 0 := by simp at h3; omega
    have hrc : GCSpec.rc (a :: b :: c :: r) = GCSpec.rc r ++ [GCSpec.wc c, GCSpec.wc b, GCSpec.wc a] := by
      simp [GCSpec.rc]
    rw [minusMap_cons3, List.reverse_cons, minus_chunks seq h r hr hr3, h a ha b hb c hc, hrc,
      spec_translate_append _ _ _ (by rw [spec_rc_length]; exact hr3)]
    rfl

/-- what `translate` computes on the plus strand (the index array is one byte wide) -/
theorem new_translate_plus (seq : List Char)
    (h : ∀ a ∈ GCSpec.bases, ∀ b ∈ GCSpec.bases, ∀ c ∈ GCSpec.bases, plusOf seq a b c = GCSpec.aa seq [a, b, c])
    (s : List Char) (start : Nat) (hs : Canon s) :
    newTranslate newDna seq s start false = GCSpec.translate seq (s.drop start) := by
  have hd1 : (if start ≠ 0 then s.drop start else s) = s.drop start := by
    split
    · rfl
    · rename_i h0; have : start = 0 := by omega
      simp [this]
  have hw := byteWidth_words seq
  show ((toIndices _ _ _ ((trunc3 (if start ≠ 0 then s.drop start else s)).map _)).flatMap
      (leBytes (byteWidth (mkNewGC newDna seq).words.length))).map _ = _
  rw [hd1, hw, flatMap_leBytes_one]
  have := plus_chunks seq h (trunc3 (s.drop start)) (canon_trunc3 (canon_drop hs start))
  rw [spec_translate_trunc3] at this
  exact this

/-- what `translate(rc=True)` computes: the reverse complement of the *already truncated* slice -/
theorem new_translate_minus (seq : List Char)
    (h : ∀ a ∈ GCSpec.bases, ∀ b ∈ GCSpec.bases, ∀ c ∈ GCSpec.bases,
      minusOf seq a b c = GCSpec.aa seq [GCSpec.wc c, GCSpec.wc b, GCSpec.wc a])
    (s : List Char) (start : Nat) (hs : Canon s) :
    newTranslate newDna seq s start true = GCSpec.translate seq (GCSpec.rc (trunc3 (s.drop start))) := by
  have hd1 : (if start ≠ 0 then s.drop start else s) = s.drop start := by
    split
    · rfl
    · rename_i h0; have : start = 0 := by omega
      simp [this]
  have hw := byteWidth_words seq
  show (((toIndices _ _ _ ((trunc3 (if start ≠ 0 then s.drop start else s)).map _)).flatMap
      (leBytes (byteWidth (mkNewGC newDna seq).words.length))).map _).reverse = _
  rw [hd1, hw, flatMap_leBytes_one]
  exact minus_chunks seq h (trunc3 (s.drop start)) (canon_trunc3 (canon_drop hs start)) (trunc3_length_mod _)

/-- the reverse complement of the truncated slice from `k < 3` is frame `(len - k) % 3` of the reverse strand -/
theorem rc_trunc_frame (code : List Char) (s : List Char) (k : Nat) (hk : k < 3) :
    GCSpec.translate code (GCSpec.rc (trunc3 (s.drop k))) =
      GCSpec.translate code ((GCSpec.rc s).drop ((s.length - k) % 3)) := by
  -- s = p ++ q ++ t,  p = take k,  q = trunc3 (drop k),  t = the incomplete codon
  let p := s.take k
  let d := s.drop k
  let q := trunc3 d
  let t := d.drop q.length
  have hd : d = q ++ t := by
    show d = trunc3 d ++ d.drop (trunc3 d).length
    rw [trunc3_eq_take, List.length_take]
    have : min (d.length - d.length % 3) d.length = d.length - d.length % 3 := by omega
    rw [this, List.take_append_drop]
  have hs : s = p ++ (q ++ t) := by rw [← hd]; exact (List.take_append_drop k s).symm
  have hdl : d.length = s.length - k := List.length_drop
  have hql : q.length = d.length - d.length % 3 := trunc3_length d
  have htl : t.length = (s.length - k) % 3 := by
    show (d.drop q.length).length = _
    rw [List.length_drop, hql, hdl]; omega
  have hpl : p.length < 3 := by
    show (s.take k).length < 3
    rw [List.length_take]; omega
  have hrc : GCSpec.rc s = GCSpec.rc t ++ (GCSpec.rc q ++ GCSpec.rc p) := by
    conv => lhs; rw [hs]
    rw [spec_rc_append, spec_rc_append, List.append_assoc]
  have hdrop : (GCSpec.rc s).drop ((s.length - k) % 3) = GCSpec.rc q ++ GCSpec.rc p := by
    rw [hrc, ← htl, ← spec_rc_length t, List.drop_left]
  rw [hdrop, spec_translate_append _ _ _ (by rw [spec_rc_length]; exact trunc3_length_mod d),
    spec_translate_short code (GCSpec.rc p) (by rw [spec_rc_length]; exact hpl), List.append_nil]

/-! ## old implementation -/

theorem old_chunks (seq : List Char)
    (h : ∀ a ∈ GCSpec.bases, ∀ b ∈ GCSpec.bases, ∀ c ∈ GCSpec.bases, oldGetItem seq [a, b, c] = GCSpec.aa seq [a, b, c]) :
    ∀ d : List Char, Canon d → oldCodons seq d = GCSpec.translate seq d
  | [], _ => rfl
  | [_], _ => rfl
  | [_, _], _ => rfl
  | a :: b :: c :: r, hd => by
    obtain ⟨ha, hb, hc, hr⟩ := canon_cons3 hd
    simp only [oldCodons, GCSpec.translate]
    rw [h a ha b hb c hc, old_chunks seq h r hr]

theorem old_translate_spec' (seq : List Char)
    (h : ∀ a ∈ GCSpec.bases, ∀ b ∈ GCSpec.bases, ∀ c ∈ GCSpec.bases, oldGetItem seq [a, b, c] = GCSpec.aa seq [a, b, c])
    (s : List Char) (start : Nat) (hs : Canon s) (hstart : start < s.length) :
    oldTranslate seq s start = .ok (GCSpec.translate seq (s.drop start)) := by
  unfold oldTranslate
  have h1 : s.isEmpty = false := by
    cases s with
    | nil => simp at hstart
    | cons _ _ => rfl
  have h2 : ¬ (start + 1 > s.length) := by omega
  simp only [h1, h2, if_false, Bool.false_eq_true]
  rw [old_chunks seq h _ (canon_drop hs start)]

theorem old_rc_canon : ∀ c ∈ GCSpec.bases, oldComplChar oldDna c = GCSpec.wc c := by decide +kernel

theorem old_rc_spec (s : List Char) (hs : Canon s) : oldRc oldDna s = GCSpec.rc s := by
  unfold oldRc oldComplement GCSpec.rc
  congr 1
  exact List.map_congr_left fun c hc => old_rc_canon c (hs c hc)

theorem canon_rc {s : List Char} (hs : Canon s) : Canon (GCSpec.rc s) := by
  intro c hc
  simp only [GCSpec.rc, List.mem_reverse, List.mem_map] at hc
  obtain ⟨x, hx, rfl⟩ := hc
  have : ∀ y ∈ GCSpec.bases, GCSpec.wc y ∈ GCSpec.bases := by decide
  exact this x (hs x hx)


/-! ## stop handling of `get_translation` (canonical gap-free sequences) -/

def outcomeToExcept : GCSpec.Outcome → Except Err (List Char)
  | .pep p => .ok p
  | .rejected => .error .alphabetError

theorem monoIdx_degen_canon : ∀ c ∈ GCSpec.bases,
    monoIdx (newDegenGapped newDna) c = monoIdx (mkNewGC newDna []).alpha c := by decide +kernel

set_option maxRecDepth 100000 in
theorem aa_not_gap_x : ∀ code ∈ newCodes ++ oldCodes, ∀ a ∈ GCSpec.bases, ∀ b ∈ GCSpec.bases, ∀ c ∈ GCSpec.bases,
    GCSpec.aa code.2.1 [a, b, c] ≠ '-' ∧ GCSpec.aa code.2.1 [a, b, c] ≠ 'X' := by decide +kernel

theorem translate_no_gap_x (seq : List Char)
    (h : ∀ a ∈ GCSpec.bases, ∀ b ∈ GCSpec.bases, ∀ c ∈ GCSpec.bases,
      GCSpec.aa seq [a, b, c] ≠ '-' ∧ GCSpec.aa seq [a, b, c] ≠ 'X') :
    ∀ d : List Char, Canon d → (GCSpec.translate seq d).contains '-' = false ∧ (GCSpec.translate seq d).contains 'X' = false
  | [], _ => by simp [GCSpec.translate]
  | [_], _ => by simp [GCSpec.translate]
  | [_, _], _ => by simp [GCSpec.translate]
  | a :: b :: c :: r, hd => by
    obtain ⟨ha, hb, hc, hr⟩ := canon_cons3 hd
    have ih := translate_no_gap_x seq h r hr
    have h1 := h a ha b hb c hc
    simp only [GCSpec.translate, List.contains_cons, Bool.or_eq_false_iff, ih, and_true]
    exact ⟨beq_false_of_ne (Ne.symm h1.1), beq_false_of_ne (Ne.symm h1.2)⟩

/-- the new `translate` called with the sequence's own (most degenerate) alphabet -/
theorem translateWith_degen (seq : List Char)
    (h : ∀ a ∈ GCSpec.bases, ∀ b ∈ GCSpec.bases, ∀ c ∈ GCSpec.bases, plusOf seq a b c = GCSpec.aa seq [a, b, c])
    (s : List Char) (hs : Canon s) :
    (mkNewGC newDna seq).translateWith (newDegenGapped newDna) s 0 false = GCSpec.translate seq s := by
  have hm : ∀ d : List Char, Canon d →
      d.map (monoIdx (newDegenGapped newDna)) = d.map (monoIdx (mkNewGC newDna seq).alpha) :=
    fun d hd => List.map_congr_left fun c hc => monoIdx_degen_canon c (hd c hc)
  have := new_translate_plus seq h s 0 hs
  simp only [List.drop_zero] at this
  rw [← this]
  unfold newTranslate NewGC.translateWith
  simp only [ne_eq, not_true_eq_false, if_false]
  rw [hm _ (canon_trunc3 hs)]

/-- last codon / all but the last codon -/
theorem translate_split_last (seq : List Char) (s : List Char) (h3 : s.length % 3 = 0) (hne : s ≠ []) :
    (lastN 3 s).length = 3 ∧
    GCSpec.translate seq s = GCSpec.translate seq (s.take (s.length - 3)) ++ GCSpec.translate seq (lastN 3 s) := by
  have hl : 3 ≤ s.length := by
    cases s with
    | nil => exact absurd rfl hne
    | cons a r => simp at h3 ⊢; omega
  have hsplit : s = s.take (s.length - 3) ++ lastN 3 s := (List.take_append_drop _ _).symm
  refine ⟨by simp [lastN, List.length_drop]; omega, ?_⟩
  conv => lhs; rw [hsplit]
  exact spec_translate_append seq _ _ (by rw [List.length_take]; omega)

theorem lastN3_canon {s : List Char} (hs : Canon s) (h : (lastN 3 s).length = 3) :
    ∃ a b c, lastN 3 s = [a, b, c] ∧ a ∈ GCSpec.bases ∧ b ∈ GCSpec.bases ∧ c ∈ GCSpec.bases := by
  have hc : Canon (lastN 3 s) := canon_drop hs _
  match hl : lastN 3 s, h, hc with
  | [a, b, c], _, hc => exact ⟨a, b, c, rfl, hc a (by simp), hc b (by simp), hc c (by simp)⟩

/-- `trim_stop_codon` on a canonical gap-free non-empty sequence -/
theorem trim_stop_spec (seq : List Char) (getItem : List Char → Char)
    (hget : ∀ a ∈ GCSpec.bases, ∀ b ∈ GCSpec.bases, ∀ c ∈ GCSpec.bases, getItem [a, b, c] = GCSpec.aa seq [a, b, c])
    (s : List Char) (hs : Canon s) (hne : s ≠ []) (strict : Bool) :
    trimStopCodon getItem s strict =
      if s.length % 3 = 0 then
        .ok (if (GCSpec.translate seq s).getLast? = some '*' then s.take (s.length - 3) else s)
      else if strict then .error .alphabetError else .ok s := by
  unfold trimStopCodon hasTerminalStop
  by_cases h3 : s.length % 3 = 0
  · obtain ⟨hl, hsplit⟩ := translate_split_last seq s h3 hne
    obtain ⟨a, b, c, habc, ha, hb, hc⟩ := lastN3_canon hs hl
    have hlast : (GCSpec.translate seq s).getLast? = some (GCSpec.aa seq [a, b, c]) := by
      rw [hsplit, habc]; simp [GCSpec.translate]
    simp only [h3, if_true, isStopEnd, habc, List.length_cons, List.length_nil, hget a ha b hb c hc, hlast]
    by_cases hstop : GCSpec.aa seq [a, b, c] = '*'
    · simp [hstop, bind, Except.bind, pure, Except.pure]
    · simp [hstop, bind, Except.bind, pure, Except.pure]
  · cases strict <;> simp [h3, bind, Except.bind, pure, Except.pure]

theorem new_stop_rules (seq : List Char)
    (hplus : ∀ a ∈ GCSpec.bases, ∀ b ∈ GCSpec.bases, ∀ c ∈ GCSpec.bases, plusOf seq a b c = GCSpec.aa seq [a, b, c])
    (hget : ∀ a ∈ GCSpec.bases, ∀ b ∈ GCSpec.bases, ∀ c ∈ GCSpec.bases,
      newGetItem newDna seq [a, b, c] = GCSpec.aa seq [a, b, c])
    (hng : ∀ a ∈ GCSpec.bases, ∀ b ∈ GCSpec.bases, ∀ c ∈ GCSpec.bases,
      GCSpec.aa seq [a, b, c] ≠ '-' ∧ GCSpec.aa seq [a, b, c] ≠ 'X')
    (s : List Char) (hs : Canon s) (hne : s ≠ []) (io is_ ts : Bool) :
    newSeqGetTranslation newDna seq s io is_ ts = outcomeToExcept (GCSpec.getTranslation seq s io is_ ts) := by
  have htr := fun (d : List Char) (hd : Canon d) => translateWith_degen seq hplus d hd
  have hnox := translate_no_gap_x seq hng
  have hnom : ∀ d : List Char, Canon d → '-' ∉ GCSpec.translate seq d ∧ 'X' ∉ GCSpec.translate seq d := by
    intro d hd
    have := hnox d hd
    simpa using this
  unfold newSeqGetTranslation GCSpec.getTranslation
  cases ts
  · -- no trimming
    simp only [Bool.false_eq_true, if_false, Bool.false_and, pure, Except.pure, bind, Except.bind,
      htr s hs, (hnox s hs).1, (hnox s hs).2, Bool.or_false, Bool.and_false]
    cases is_ <;> by_cases h : '*' ∈ GCSpec.translate seq s <;>
      simp [h, outcomeToExcept, throw, throwThe, MonadExceptOf.throw]
  · rw [trim_stop_spec seq _ hget s hs hne]
    by_cases h3 : s.length % 3 = 0
    · obtain ⟨hl, hsplit⟩ := translate_split_last seq s h3 hne
      have htake : Canon (s.take (s.length - 3)) := canon_take hs _
      have hdl : GCSpec.translate seq (s.take (s.length - 3)) = (GCSpec.translate seq s).dropLast := by
        obtain ⟨a, b, c, habc, _, _, _⟩ := lastN3_canon hs hl
        rw [hsplit, habc]; simp [GCSpec.translate]
      by_cases hstop : (GCSpec.translate seq s).getLast? = some '*'
      · simp only [h3, hstop, if_true, bind, Except.bind, htr _ htake, hdl,
          hdl ▸ (hnox _ htake).1, hdl ▸ (hnox _ htake).2]
        cases io <;> cases is_ <;> by_cases h : '*' ∈ (GCSpec.translate seq s).dropLast <;>
          simp [h, outcomeToExcept, throw, throwThe, MonadExceptOf.throw, pure, Except.pure,
            hdl ▸ (hnom _ htake).1, hdl ▸ (hnom _ htake).2]
      · simp only [h3, hstop, if_true, if_false, bind, Except.bind, htr s hs]
        cases io <;> cases is_ <;> by_cases h : '*' ∈ GCSpec.translate seq s <;>
          simp [h, outcomeToExcept, throw, throwThe, MonadExceptOf.throw, pure, Except.pure,
            (hnom s hs).1, (hnom s hs).2]
    · cases io
      · simp [h3, outcomeToExcept, bind, Except.bind]
      · simp only [h3, if_false, Bool.true_eq_false, bind, Except.bind, htr s hs]
        cases is_ <;> by_cases h : '*' ∈ GCSpec.translate seq s <;>
          simp [h, h3, outcomeToExcept, throw, throwThe, MonadExceptOf.throw, pure, Except.pure,
            (hnom s hs).1, (hnom s hs).2, htr s hs]

theorem old_seq_codons_spec (seq : List Char)
    (h : ∀ a ∈ GCSpec.bases, ∀ b ∈ GCSpec.bases, ∀ c ∈ GCSpec.bases, oldGetItem seq [a, b, c] = GCSpec.aa seq [a, b, c])
    (is_ : Bool) : ∀ d : List Char, Canon d →
    oldSeqCodons seq is_ d =
      if !is_ && decide ('*' ∈ GCSpec.translate seq d) then .error .alphabetError else .ok (GCSpec.translate seq d)
  | [], _ => by simp [oldSeqCodons, GCSpec.translate, pure, Except.pure]
  | [_], _ => by simp [oldSeqCodons, GCSpec.translate, pure, Except.pure]
  | [_, _], _ => by simp [oldSeqCodons, GCSpec.translate, pure, Except.pure]
  | a :: b :: c :: r, hd => by
    obtain ⟨ha, hb, hc, hr⟩ := canon_cons3 hd
    have ih := old_seq_codons_spec seq h is_ r hr
    simp only [oldSeqCodons, GCSpec.translate, h a ha b hb c hc, ih, bind, Except.bind]
    cases is_ <;> by_cases h1 : GCSpec.aa seq [a, b, c] = '*' <;> by_cases h2 : '*' ∈ GCSpec.translate seq r <;>
      (simp [h1, h2, throw, throwThe, MonadExceptOf.throw, pure, Except.pure]) <;>
      (try (intro hh; exact h1 hh.symm))

theorem old_stop_rules (seq : List Char)
    (hget : ∀ a ∈ GCSpec.bases, ∀ b ∈ GCSpec.bases, ∀ c ∈ GCSpec.bases, oldGetItem seq [a, b, c] = GCSpec.aa seq [a, b, c])
    (s : List Char) (hs : Canon s) (hne : s ≠ []) (io is_ ts : Bool) (hopt : ¬ (is_ = true ∧ ts = true)) :
    oldSeqGetTranslation seq s io is_ ts = outcomeToExcept (GCSpec.getTranslation seq s io is_ ts) := by
  have hcod := old_seq_codons_spec seq hget is_
  unfold oldSeqGetTranslation GCSpec.getTranslation
  cases ts
  · simp only [Bool.not_false, Bool.or_true, if_true, pure, Except.pure, bind, Except.bind, hcod s hs,
      Bool.false_and, Bool.false_eq_true, if_false]
    cases is_ <;> by_cases h : '*' ∈ GCSpec.translate seq s <;> simp [h, outcomeToExcept]
  · have his : is_ = false := by cases is_ <;> simp_all
    subst his
    simp only [Bool.false_or, Bool.not_true, Bool.false_eq_true, if_false]
    rw [trim_stop_spec seq _ hget s hs hne]
    by_cases h3 : s.length % 3 = 0
    · obtain ⟨hl, hsplit⟩ := translate_split_last seq s h3 hne
      have htake : Canon (s.take (s.length - 3)) := canon_take hs _
      have hdl : GCSpec.translate seq (s.take (s.length - 3)) = (GCSpec.translate seq s).dropLast := by
        obtain ⟨a, b, c, habc, _, _, _⟩ := lastN3_canon hs hl
        rw [hsplit, habc]; simp [GCSpec.translate]
      by_cases hstop : (GCSpec.translate seq s).getLast? = some '*'
      · simp only [h3, hstop, if_true, bind, Except.bind, hcod _ htake, hdl]
        cases io <;> by_cases h : '*' ∈ (GCSpec.translate seq s).dropLast <;> simp [h, outcomeToExcept]
      · simp only [h3, hstop, if_true, if_false, bind, Except.bind, hcod s hs]
        cases io <;> by_cases h : '*' ∈ GCSpec.translate seq s <;> simp [h, outcomeToExcept]
    · cases io
      · simp [h3, outcomeToExcept, bind, Except.bind]
      · simp only [h3, if_false, Bool.true_eq_false, bind, Except.bind, hcod s hs]
        by_cases h : '*' ∈ GCSpec.translate seq s <;> simp [h, h3, outcomeToExcept, hcod s hs]

end CogentModel.GC
