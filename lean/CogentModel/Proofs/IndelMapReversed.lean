import CogentModel.Proofs.IndelMapSliceSpec
namespace CogentModel.IndelMap
open CogentModel.Gapped List CogentModel

/-- pattern of gaps given as (position, length) pairs, cursor showing residue `next` -/
def patG (next : Int) : List (Int × Int) → Int → List Bool
  | (p, l) :: r, pl => replicate (p - next).toNat false ++ (replicate l.toNat true ++ patG p r pl)
  | [], pl => replicate (pl - next).toNat false

theorem pattern_absFrom_G (gp : List Int) : ∀ (cum : List Int) (next prevCum pl : Int),
    pattern (absFrom next prevCum gp cum pl) = patG next (zip gp (diffsFrom prevCum cum)) pl := by
  induction gp with
  | nil => intro cum next prevCum pl; cases cum <;> simp [absFrom, patG, pattern_seg, diffsFrom]
  | cons p ps ih =>
    intro cum next prevCum pl
    cases cum with
    | nil => simp [absFrom, patG, pattern_seg, diffsFrom]
    | cons c cs =>
      have := ih cs p c pl
      simp only [pattern] at this ⊢
      simp only [absFrom, diffsFrom, zip_cons_cons, patG, map_append, this]
      have e1 := pattern_seg next p
      have e2 := pattern_gapCols (c - prevCum)
      simp only [pattern] at e1 e2
      rw [e1, e2, append_assoc]

theorem diffsFrom_cumsumFrom (L : List Int) : ∀ acc, diffsFrom acc (cumsumFrom acc L) = L := by
  induction L with
  | nil => intro _; rfl
  | cons x xs ih => intro acc; simp only [cumsumFrom, diffsFrom, ih]; congr 1; omega

theorem diffsFrom_pos (cum : List Int) : ∀ pc, (pc :: cum).Pairwise (· < ·) → ∀ x ∈ diffsFrom pc cum, 0 < x := by
  induction cum with
  | nil => intro _ _ x hx; simp [diffsFrom] at hx
  | cons c cs ih =>
    intro pc h x hx
    have h' := pairwise_cons.mp h
    simp only [diffsFrom, mem_cons] at hx
    rcases hx with rfl | hx
    · have := h'.1 c (by simp); omega
    · exact ih c h'.2 x hx

theorem diffsFrom_length (cum : List Int) : ∀ pc, (diffsFrom pc cum).length = cum.length := by
  induction cum with
  | nil => intro _; rfl
  | cons c cs ih => intro pc; simp [diffsFrom, ih]

theorem patG_snoc (R : List (Int × Int)) : ∀ (n0 q l PL : Int),
    patG n0 (R ++ [(q, l)]) PL = patG n0 R q ++ (replicate l.toNat true ++ replicate (PL - q).toNat false) := by
  induction R with
  | nil => intro n0 q l PL; simp [patG]
  | cons t r ih =>
    intro n0 q l PL
    obtain ⟨p, l'⟩ := t
    simp only [cons_append, patG, ih, append_assoc]

/-- mirror image of the gaps of a sequence of `pl` residues -/
def mirrorG (pl : Int) (G : List (Int × Int)) : List (Int × Int) := (G.map fun g => (pl - g.1, g.2)).reverse

theorem patG_reverse (G : List (Int × Int)) : ∀ (next pl : Int),
    (patG next G pl).reverse = patG 0 (mirrorG pl G) (pl - next) := by
  induction G with
  | nil => intro next pl; simp [patG, mirrorG]
  | cons t r ih =>
    intro next pl
    obtain ⟨p, l⟩ := t
    simp only [patG, reverse_append, reverse_replicate, mirrorG, map_cons, reverse_cons]
    have := ih p pl
    simp only [mirrorG] at this
    rw [this, patG_snoc]
    have a1 : pl - next - (pl - p) = p - next := by omega
    have a2 : pl - p - 0 = pl - p := by omega
    rw [a1, append_assoc]

theorem zip_reverse_eq {α β} : ∀ (xs : List α) (ys : List β), xs.length = ys.length →
    zip xs.reverse ys.reverse = (zip xs ys).reverse := by
  intro xs
  induction xs with
  | nil => intro ys h; cases ys <;> simp at h ⊢
  | cons x r ih =>
    intro ys h
    cases ys with
    | nil => simp at h
    | cons y s =>
      simp only [length_cons, Nat.add_right_cancel_iff] at h
      simp only [reverse_cons, zip_cons_cons]
      rw [zip_append (by simp [h]), ih s h]
      simp

theorem nucleicReversed_ok (m : IMap) (h : WF m) :
    nucleicReversed m = .ok ⟨(m.gapPos.map (m.parentLength - ·)).reverse,
      cumsum (gapLengths m.cumLens).reverse, m.parentLength⟩ := by
  unfold nucleicReversed mkLengths mk
  have hl := h.len_eq
  rw [if_neg (by simp [cumsum, cumsumFrom_length, gapLengths, diffsFrom_length, hl])]
  rw [if_neg]
  intro ⟨hne, hgt⟩
  have hmem := lastD_mem _ hne
  simp only [mem_reverse, mem_map] at hmem
  obtain ⟨p, hp, hpe⟩ := hmem
  have := (h.pos_range p hp).1
  omega

/-- **`nucleic_reversed` is the map of the reversed string**, and is well formed -/
theorem reversed_spec' (m : IMap) (h : WF m) (r : IMap) (hr : nucleicReversed m = .ok r) :
    WF r ∧ abs r = Gapped.reversed (abs m) := by
  rw [nucleicReversed_ok m h] at hr
  cases hr
  have hl := h.len_eq
  have hlens : (gapLengths m.cumLens).length = m.gapPos.length := by
    simp [gapLengths, diffsFrom_length, hl]
  have hpos := diffsFrom_pos m.cumLens 0 h.cum_sorted
  have hwf : WF ⟨(m.gapPos.map (m.parentLength - ·)).reverse, cumsum (gapLengths m.cumLens).reverse, m.parentLength⟩ := by
    refine ⟨h.pl_nonneg, ?_, ?_, ?_, ?_⟩
    · simp [cumsum, cumsumFrom_length, hlens]
    · simp only
      rw [pairwise_reverse]
      exact h.pos_sorted.map _ (fun a b hab => by omega)
    · simp only [cumsum]
      exact (cumsumFrom_pairwise _ 0 (by intro x hx; exact hpos x (mem_reverse.mp hx))).1
    · intro q hq
      simp only [mem_reverse, mem_map] at hq
      obtain ⟨p, hp, rfl⟩ := hq
      have := h.pos_range p hp
      show 0 ≤ m.parentLength - p ∧ m.parentLength - p ≤ m.parentLength
      omega
  refine ⟨hwf, ?_⟩
  rw [abs_eq_ofPattern _ hwf]
  unfold Gapped.reversed
  congr 1
  show pattern (absFrom 0 0 _ _ _) = (pattern (absFrom 0 0 m.gapPos m.cumLens m.parentLength)).reverse
  rw [pattern_absFrom_G, pattern_absFrom_G, patG_reverse]
  simp only [cumsum, diffsFrom_cumsumFrom, Int.sub_zero, mirrorG, gapLengths]
  congr 1
  rw [zip_reverse_eq _ _ (by simp [diffsFrom_length, hl]), zip_map_left]
  congr 1

end CogentModel.IndelMap
