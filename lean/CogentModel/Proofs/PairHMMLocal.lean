/-
  C18 helper lemmas, part 6: the best-cell scan of the local alignment and the local optimality statements.
-/
import CogentModel.Proofs.PairHMMMain
namespace CogentModel.PairHMM
set_option linter.unusedSectionVars false
set_option linter.unusedVariables false

variable {S : Type} [Add S] [LT S] [DecidableLT S] [ScoreLaws S]

abbrev Best (S : Type) := Option S × Nat × Nat × Nat

/-! ### one cell -/

theorem bestInCell_ge_init (i j : Nat) (ds : List (Bool × Bool)) :
    ∀ (cs : Cell S) (s : Nat) (cur : Best S), ele cur.1 (bestInCell i j ds cs s cur).1 := by
  induction ds with
  | nil => intro cs s cur; simp only [bestInCell]; exact ele_refl _
  | cons d ds ih =>
    intro cs s cur
    cases cs with
    | nil => simp only [bestInCell]; exact ele_refl _
    | cons c cs =>
      obtain ⟨v, w⟩ := c
      simp only [bestInCell]
      split
      · rename_i hc
        simp only [Bool.and_eq_true] at hc
        exact ele_trans (ele_of_egt hc.2) (ih cs (s + 1) (v, i, j, s))
      · exact ih cs (s + 1) cur

theorem bestInCell_ge_elem (i j : Nat) (ds : List (Bool × Bool)) :
    ∀ (cs : Cell S) (s : Nat) (cur : Best S) (q : Nat) (hq1 : q < ds.length) (hq2 : q < cs.length),
      (ds[q].1 && ds[q].2) = true → ele (cs[q]).1 (bestInCell i j ds cs s cur).1 := by
  induction ds with
  | nil => intro cs s cur q hq1; simp at hq1
  | cons d ds ih =>
    intro cs s cur q hq1 hq2 hm
    cases cs with
    | nil => simp at hq2
    | cons c cs =>
      obtain ⟨v, w⟩ := c
      simp only [bestInCell]
      cases q with
      | zero =>
        simp only [List.getElem_cons_zero] at hm ⊢
        split
        · exact bestInCell_ge_init i j ds cs (s + 1) (v, i, j, s)
        · rename_i hc
          have : egt v cur.1 = false := by
            cases hg : egt v cur.1 with
            | false => rfl
            | true => exact absurd (by simp [hm, hg]) hc
          exact ele_trans this (bestInCell_ge_init i j ds cs (s + 1) cur)
      | succ q =>
        simp only [List.getElem_cons_succ] at hm ⊢
        exact ih cs (s + 1) _ q (by simpa using hq1) (by simpa using hq2) hm

theorem bestInCell_cases (i j : Nat) (ds : List (Bool × Bool)) :
    ∀ (cs : Cell S) (s : Nat) (cur : Best S),
      bestInCell i j ds cs s cur = cur ∨
      ∃ q, ∃ hq1 : q < ds.length, ∃ hq2 : q < cs.length, (ds[q].1 && ds[q].2) = true ∧
        bestInCell i j ds cs s cur = ((cs[q]).1, i, j, s + q) := by
  induction ds with
  | nil => intro cs s cur; exact Or.inl (by simp [bestInCell])
  | cons d ds ih =>
    intro cs s cur
    cases cs with
    | nil => exact Or.inl (by simp [bestInCell])
    | cons c cs =>
      obtain ⟨v, w⟩ := c
      simp only [bestInCell]
      split
      · rename_i hc
        simp only [Bool.and_eq_true] at hc
        rcases ih cs (s + 1) (v, i, j, s) with h | ⟨q, hq1, hq2, hm, h⟩
        · exact Or.inr ⟨0, by simp, by simp, by simpa using hc.1, by simpa using h⟩
        · exact Or.inr ⟨q + 1, by simpa using hq1, by simpa using hq2, by simpa using hm,
            by simpa [Nat.add_assoc, Nat.add_comm 1 q] using h⟩
      · rcases ih cs (s + 1) cur with h | ⟨q, hq1, hq2, hm, h⟩
        · exact Or.inl h
        · exact Or.inr ⟨q + 1, by simpa using hq1, by simpa using hq2, by simpa using hm,
            by simpa [Nat.add_assoc, Nat.add_comm 1 q] using h⟩

/-! ### one row -/

theorem bestInRow_ge_init (dirs : List (Bool × Bool)) (i : Nat) (cells : List (Cell S)) :
    ∀ (j : Nat) (cur : Best S), ele cur.1 (bestInRow dirs i cells j cur).1 := by
  induction cells with
  | nil => intro j cur; exact ele_refl _
  | cons c cells ih =>
    intro j cur
    simp only [bestInRow]
    exact ele_trans (bestInCell_ge_init i j dirs c 1 cur) (ih (j + 1) _)

theorem bestInRow_ge_elem (dirs : List (Bool × Bool)) (i : Nat) (cells : List (Cell S)) :
    ∀ (j : Nat) (cur : Best S) (b : Nat) (hb : b < cells.length) (q : Nat) (hq1 : q < dirs.length)
      (hq2 : q < (cells[b]).length), (dirs[q].1 && dirs[q].2) = true →
      ele ((cells[b])[q]).1 (bestInRow dirs i cells j cur).1 := by
  induction cells with
  | nil => intro j cur b hb; simp at hb
  | cons c cells ih =>
    intro j cur b hb q hq1 hq2 hm
    simp only [bestInRow]
    cases b with
    | zero =>
      simp only [List.getElem_cons_zero] at hq2 ⊢
      exact ele_trans (bestInCell_ge_elem i j dirs c 1 cur q hq1 hq2 hm) (bestInRow_ge_init dirs i cells (j + 1) _)
    | succ b =>
      simp only [List.getElem_cons_succ] at hq2 ⊢
      exact ih (j + 1) _ b (by simpa using hb) q hq1 hq2 hm

theorem bestInRow_cases (dirs : List (Bool × Bool)) (i : Nat) (cells : List (Cell S)) :
    ∀ (j : Nat) (cur : Best S),
      bestInRow dirs i cells j cur = cur ∨
      ∃ b, ∃ hb : b < cells.length, ∃ q, ∃ hq1 : q < dirs.length, ∃ hq2 : q < (cells[b]).length,
        (dirs[q].1 && dirs[q].2) = true ∧ bestInRow dirs i cells j cur = (((cells[b])[q]).1, i, j + b, 1 + q) := by
  induction cells with
  | nil => intro j cur; exact Or.inl rfl
  | cons c cells ih =>
    intro j cur
    simp only [bestInRow]
    rcases ih (j + 1) (bestInCell i j dirs c 1 cur) with h | ⟨b, hb, q, hq1, hq2, hm, h⟩
    · rcases bestInCell_cases i j dirs c 1 cur with h' | ⟨q, hq1, hq2, hm, h'⟩
      · exact Or.inl (by rw [h, h'])
      · exact Or.inr ⟨0, by simp, q, hq1, by simpa using hq2, hm, by rw [h, h']; simp⟩
    · exact Or.inr ⟨b + 1, by simpa using hb, q, hq1, by simpa using hq2, hm,
        by rw [h]; simp [Nat.add_assoc, Nat.add_comm 1 b]⟩

/-! ### the table -/

theorem bestInTable_ge_init (dirs : List (Bool × Bool)) (rows : List (List (Cell S))) :
    ∀ (i : Nat) (cur : Best S), ele cur.1 (bestInTable dirs rows i cur).1 := by
  induction rows with
  | nil => intro i cur; exact ele_refl _
  | cons r rows ih =>
    intro i cur
    simp only [bestInTable]
    exact ele_trans (bestInRow_ge_init dirs i r 0 cur) (ih (i + 1) _)

theorem bestInTable_ge_elem (dirs : List (Bool × Bool)) (rows : List (List (Cell S))) :
    ∀ (i : Nat) (cur : Best S) (a : Nat) (ha : a < rows.length) (b : Nat) (hb : b < (rows[a]).length) (q : Nat)
      (hq1 : q < dirs.length) (hq2 : q < ((rows[a])[b]).length), (dirs[q].1 && dirs[q].2) = true →
      ele (((rows[a])[b])[q]).1 (bestInTable dirs rows i cur).1 := by
  induction rows with
  | nil => intro i cur a ha; simp at ha
  | cons r rows ih =>
    intro i cur a ha b hb q hq1 hq2 hm
    simp only [bestInTable]
    cases a with
    | zero =>
      simp only [List.getElem_cons_zero] at hb hq2 ⊢
      exact ele_trans (bestInRow_ge_elem dirs i r 0 cur b hb q hq1 hq2 hm) (bestInTable_ge_init dirs rows (i + 1) _)
    | succ a =>
      simp only [List.getElem_cons_succ] at hb hq2 ⊢
      exact ih (i + 1) _ a (by simpa using ha) b hb q hq1 hq2 hm

theorem bestInTable_cases (dirs : List (Bool × Bool)) (rows : List (List (Cell S))) :
    ∀ (i : Nat) (cur : Best S),
      bestInTable dirs rows i cur = cur ∨
      ∃ a, ∃ ha : a < rows.length, ∃ b, ∃ hb : b < (rows[a]).length, ∃ q, ∃ hq1 : q < dirs.length,
        ∃ hq2 : q < ((rows[a])[b]).length, (dirs[q].1 && dirs[q].2) = true ∧
          bestInTable dirs rows i cur = ((((rows[a])[b])[q]).1, i + a, b, 1 + q) := by
  induction rows with
  | nil => intro i cur; exact Or.inl rfl
  | cons r rows ih =>
    intro i cur
    simp only [bestInTable]
    rcases ih (i + 1) (bestInRow dirs i r 0 cur) with h | ⟨a, ha, b, hb, q, hq1, hq2, hm, h⟩
    · rcases bestInRow_cases dirs i r 0 cur with h' | ⟨b, hb, q, hq1, hq2, hm, h'⟩
      · exact Or.inl (by rw [h, h'])
      · exact Or.inr ⟨0, by simp, b, by simpa using hb, q, hq1, by simpa using hq2, hm, by rw [h, h']; simp⟩
    · exact Or.inr ⟨a + 1, by simpa using ha, b, by simpa using hb, q, hq1, by simpa using hq2, hm,
        by rw [h]; simp [Nat.add_assoc, Nat.add_comm 1 a]⟩

end CogentModel.PairHMM

namespace CogentModel.PairHMM
set_option linter.unusedSectionVars false
set_option linter.unusedVariables false

variable {S : Type} [Add S] [LT S] [DecidableLT S] [ScoreLaws S]

theorem scanList_getElem {α : Type} (f : Nat → Option α → α) (n j : Nat) (hj : j < (scanList f n).length) :
    (scanList f n)[j] = nthScan f j := by
  have hl := scanList_length f n
  have := scanList_getD f n j (nthScan f j) (by omega)
  simpa [List.getD_eq_getElem?_getD, hj] using this

theorem tableOf_length (h : HMM S) (loc : Bool) (n m : Nat) : (tableOf h loc n m).length = n + 1 :=
  scanList_length _ _

theorem tableOf_getElem (h : HMM S) (loc : Bool) (n m a : Nat) (ha : a < (tableOf h loc n m).length) :
    (tableOf h loc n m)[a] = Vrow h loc m a := scanList_getElem _ _ _ ha

theorem Vrow_length (h : HMM S) (loc : Bool) (m a : Nat) : (Vrow h loc m a).length = m + 1 := by
  cases a with
  | zero => exact scanList_length _ _
  | succ a => exact scanList_length _ _

theorem Vrow_getElem (h : HMM S) (loc : Bool) (m a b : Nat) (hb : b < (Vrow h loc m a).length) :
    (Vrow h loc m a)[b] = V h loc m a b := by
  simp [V, List.getD_eq_getElem?_getD, hb]

theorem cellsOK_pos (h : HMM S) (p : List Nat) : ∀ (i j : Nat), 1 ≤ i → 1 ≤ j → cellsOK h true i j p := by
  induction p with
  | nil => intros; trivial
  | cons s p ih =>
    intro i j hi hj
    refine ⟨?_, ih _ _ (by omega) (by omega)⟩
    simp only [cellOK, Bool.true_and, Bool.not_eq_true', Bool.or_eq_false_iff, beq_eq_false_iff_ne, ne_eq]
    exact ⟨by omega, by omega⟩

theorem viterbiLocal_score (h : HMM S) (n m : Nat) :
    (viterbiLocal h n m).score = (bestInTable h.dirs (tableOf h true n m) 0 (none, 0, 0, 0)).1 := by
  simp only [viterbiLocal]
  split <;> simp [*]

theorem dir_eq_getElem (h : HMM S) (q : Nat) (hq : q < h.dirs.length) : h.dir (1 + q) = h.dirs[q] := by
  simp [HMM.dir, List.getD_eq_getElem?_getD, hq]

/-- **no local path scores above the local DP value** -/
theorem local_upper (h : HMM S) (n m i0 j0 : Nat) (p : List Nat) (hp : IsLocalPath h n m i0 j0 p) :
    ele (prefixScore h i0 j0 p) (viterbiLocal h n m).score := by
  obtain ⟨hst, hne, hhead, hlast, hc1, hc2⟩ := hp
  obtain ⟨s, p', rfl⟩ : ∃ s p', p = s :: p' := by
    cases p with
    | nil => exact absurd rfl hne
    | cons s p' => exact ⟨s, p', rfl⟩
  simp only [List.headD_cons, isMatch, Bool.and_eq_true] at hhead
  have hdx : (h.dir s).1.toNat = 1 := by rw [hhead.1]; rfl
  have hdy : (h.dir s).2.toNat = 1 := by rw [hhead.2]; rfl
  have hcells : cellsOK h true i0 j0 (s :: p') := by
    refine ⟨?_, cellsOK_pos h p' _ _ (by omega) (by omega)⟩
    simp [cellOK, hdx, hdy]
  have hle := prefixScore_le h true m i0 j0 s p' hst (by simp [canStart, hhead.1, hhead.2]) hc2 hcells
  refine ele_trans hle ?_
  rw [viterbiLocal_score]
  have hl := hst _ (lastState_mem s p')
  generalize hcd : consumedFrom h i0 j0 (s :: p') = c at *
  generalize hls : lastState (s :: p') = l at *
  have ha : c.1 < (tableOf h true n m).length := by rw [tableOf_length]; omega
  have hrow := tableOf_getElem h true n m c.1 ha
  have hb : c.2 < ((tableOf h true n m)[c.1]).length := by rw [hrow, Vrow_length]; omega
  have hcell : ((tableOf h true n m)[c.1])[c.2] = V h true m c.1 c.2 := by
    simp only [hrow]; exact Vrow_getElem h true m c.1 c.2 (by rw [Vrow_length]; omega)
  have hq1 : l - 1 < h.dirs.length := by have := hl.2.1; simp only [HMM.k] at this; omega
  have hq2 : l - 1 < (((tableOf h true n m)[c.1])[c.2]).length := by
    rw [hcell, V_length h true m c.1 c.2 hc2]; exact hq1
  have hm : ((h.dirs[l - 1]).1 && (h.dirs[l - 1]).2) = true := by
    have := dir_eq_getElem h (l - 1) hq1
    rw [show 1 + (l - 1) = l by omega] at this
    rw [← this]; exact hlast
  have := bestInTable_ge_elem h.dirs (tableOf h true n m) 0 (none, 0, 0, 0) c.1 ha c.2 hb (l - 1) hq1 hq2 hm
  have hv : ((((tableOf h true n m)[c.1])[c.2])[l - 1]).1 = val h true m c.1 c.2 l := by
    simp only [hcell]
    exact val_getElem h true m c.1 c.2 l hc2 hl.1 hl.2.1 (by rw [V_length h true m c.1 c.2 hc2]; exact hq1)
  rw [hv] at this
  exact this

/-- the local traceback: a finite local DP value comes with a returned path that is a local path and whose
spec score is that value -/
theorem local_attained (h : HMM S) (hns : NoSilent h) (n m : Nat) (v : S)
    (hv : (viterbiLocal h n m).score = some v) :
    ∃ p i0 j0, (viterbiLocal h n m).path = some (annotate h i0 j0 p) ∧ IsLocalPath h n m i0 j0 p ∧
      prefixScore h i0 j0 p = some v := by
  have hsc := viterbiLocal_score h n m
  rw [hv] at hsc
  rcases bestInTable_cases h.dirs (tableOf h true n m) 0 (none, 0, 0, 0) with hb | ⟨a, ha, b, hb, q, hq1, hq2, hm, hb'⟩
  · rw [hb] at hsc; simp at hsc
  · have han : a ≤ n := by rw [tableOf_length] at ha; omega
    have hrow := tableOf_getElem h true n m a ha
    have hbm : b ≤ m := by rw [hrow, Vrow_length] at hb; omega
    have hcell : ((tableOf h true n m)[a])[b] = V h true m a b := by
      simp only [hrow]; exact Vrow_getElem h true m a b (by rw [Vrow_length]; omega)
    have hq1' : 1 ≤ 1 + q := by omega
    have hqk : 1 + q ≤ h.k := by simp only [HMM.k]; omega
    have hval : val h true m a b (1 + q) = some v := by
      rw [hb'] at hsc
      have e := val_getElem h true m a b (1 + q) hbm hq1' hqk (by rw [V_length h true m a b hbm]; simpa [HMM.k] using hq1)
      simp only [Nat.add_sub_cancel_left] at e
      rw [← e]
      simp only [hcell] at hsc
      exact hsc.symm
    obtain ⟨p, i0, j0, htr, sp⟩ := trace_ok h true m hns (a + b) a b (1 + q) v [] (n + m + 1) rfl hbm hq1' hqk hval
      (by omega)
    refine ⟨p, i0, j0, ?_, ?_, sp.score⟩
    · simp only [viterbiLocal]
      have hb1 : (bestInTable h.dirs (tableOf h true n m) 0 (none, 0, 0, 0)).1 = some v := hsc.symm
      rw [hb1]
      simp only [hb', Nat.zero_add]
      rw [traceFrom_congr h (look (tableOf h true n m)) (V h true m) (n + m + 1) a b _ []
        (fun x y hx => look_tableOf h true n m x y (by omega))]
      simpa using htr
    · obtain ⟨s, p', rfl⟩ : ∃ s p', p = s :: p' := by
        cases p with
        | nil => exact absurd rfl sp.nonempty
        | cons s p' => exact ⟨s, p', rfl⟩
      refine ⟨sp.states, sp.nonempty, ?_, ?_, by rw [sp.consumed]; exact han, by rw [sp.consumed]; exact hbm⟩
      · -- the first state is a match state
        have hst := sp.start
        have hc := sp.cells.1
        simp only [List.headD_cons, canStart, Bool.true_and, Bool.or_eq_true, Bool.and_eq_true, beq_iff_eq] at hst
        simp only [isMatch, List.headD_cons]
        rcases hst with hmm | ⟨rfl, rfl⟩
        · simpa using hmm
        · revert hc
          cases (h.dir s).1 <;> cases (h.dir s).2 <;> simp [cellOK]
      · rw [sp.last]
        simp only [isMatch]
        rw [dir_eq_getElem h q hq1]
        exact hm

end CogentModel.PairHMM
