import CogentModel.Model.DistanceNumpy
import CogentModel.Proofs.DistanceLemmas
import Mathlib.Tactic.Ring
/-! Helper lemmas for Props/C15Gen.lean: the numpy primitives of Model/DistanceNumpy.lean, applied the way the
translated source (Gen/C15Dist.lean) applies them, are the hand model's helper functions. -/
namespace CogentModel.Distance
open CogentModel.DistNp

theorem msum_eq (m : M4) : msum m = total m := by
  unfold msum vsum total rowSum; ring
theorem vsum_mdiag (m : M4) : vsum (mdiag m) = diagSum m := rfl
theorem axis0_eq (m : M4) (j : Nat) : axis0 m j = colSum m j := rfl
theorem axis1_eq (m : M4) (i : Nat) : axis1 m i = rowSum m i := rfl

/-- the `freqs` vector of `_tn93_from_matrix` is the model's `tnFreq` -/
theorem tn_freqs (m : M4) : vdivS (vadd (axis0 m) (axis1 m)) (2 * total m) = tnFreq m := rfl

theorem take_pur (m : M4) : lsum (mtake m [11, 14]) = purTs m := by
  simp [lsum, mtake, purTs]
theorem take_pyr (m : M4) : lsum (mtake m [1, 4]) = pyrTs m := by
  simp [lsum, mtake, pyrTs]; ring
theorem take_tv (m : M4) : lsum (mtake m [2, 3, 6, 7, 8, 9, 12, 13]) = tvSum m := by
  simp [lsum, mtake, tvSum]
theorem take_all (m : M4) :
    lsum (mtake m (([11, 14] ++ [1, 4]) ++ [2, 3, 6, 7, 8, 9, 12, 13])) = purTs m + pyrTs m + tvSum m := by
  simp [lsum, mtake, tvSum, purTs, pyrTs]; ring
theorem take_pyr' (m : M4) : lsum (mtake m [4, 1]) = pyrTs m := by
  simp [lsum, mtake, pyrTs]
theorem take_all' (m : M4) :
    lsum (mtake m (([11, 14] ++ [4, 1]) ++ [2, 3, 6, 7, 8, 9, 12, 13])) = purTs m + pyrTs m + tvSum m := by
  simp [lsum, mtake, tvSum, purTs, pyrTs]; ring
theorem vt_sum (f : V4) (a b : Nat) : lsum (vtake f [a, b]) = f a + f b := by simp [lsum, vtake]
theorem vt_prod (f : V4) (a b : Nat) : lprod (vtake f [a, b]) = f a * f b := by simp [lprod, vtake]

theorem mask_eq (m : M4) : maskDiagEq m 0 (1 / 2) = halfDiag m := by
  funext i j; unfold maskDiagEq halfDiag
  by_cases h : i = j ∧ m i j = 0
  · rw [if_pos h, if_pos ⟨h.2, h.1⟩]
  · rw [if_neg h, if_neg (fun h' => h ⟨h'.2, h'.1⟩)]

theorem freq_eq (m : M4) :
    mdivS (maskDiagEq m 0 (1 / 2)) (total (maskDiagEq m 0 (1 / 2))) = freqMatrix m := by
  rw [mask_eq]; rfl

theorem prod_eq (f : M4) : vprod (vmul (axis0 f) (axis1 f)) = freqProd f := by
  unfold vprod vmul freqProd; simp only [axis0_eq, axis1_eq]

theorem sq_eq (f : M4) :
    vsum (vmul (vlsum [axis0 f, axis1 f]) (vlsum [axis0 f, axis1 f])) = freqSqSum f := by
  unfold vsum vmul vlsum freqSqSum
  simp only [List.foldl, vadd, vzero, axis0_eq, axis1_eq]; ring

end CogentModel.Distance
