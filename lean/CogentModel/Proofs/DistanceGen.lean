import CogentModel.Model.DistanceNumpy
import CogentModel.Proofs.DistanceLemmas
import Mathlib.Tactic.Ring
/-! Helper lemmas for Props/C15Gen.lean: the numpy primitives of Model/DistanceNumpy.lean, applied the way the
translated source (Gen/C15Dist.lean) applies them, are the hand model's helper functions. -/
namespace CogentModel.Distance
open CogentModel.DistNp

theorem msum_eq (m : M4) : msum m = total m := by
  unfold msum vsum total rowSum; ring
theorem vsum_mdiag (m : M4) : vsum (mdiag m) = diagSum m := rfl
theorem axis0_eq (m : M4) (j : Nat) : axis0 m j = colSum m j := rfl
theorem axis1_eq (m : M4) (i : Nat) : axis1 m i = rowSum m i := rfl

/-- the `freqs` vector of `_tn93_from_matrix` is the model's `tnFreq` -/
theorem tn_freqs (m : M4) : vdivS (vadd (axis0 m) (axis1 m)) (2 * total m) = tnFreq m := rfl

theorem take_pur (m : M4) : lsum (mtake m [11, 14]) = purTs m := by
  simp [lsum, mtake, purTs]
theorem take_pyr (m : M4) : lsum (mtake m [1, 4]) = pyrTs m := by
  simp [lsum, mtake, pyrTs]; ring
theorem take_tv (m : M4) : lsum (mtake m [2, 3, 6, 7, 8, 9, 12, 13]) = tvSum m := by
  simp [lsum, mtake, tvSum]
theorem take_all (m : M4) :
    lsum (mtake m (([11, 14] ++ [1, 4]) ++ [2, 3, 6, 7, 8, 9, 12, 13])) = purTs m + pyrTs m + tvSum m := by
  simp [lsum, mtake, tvSum, purTs, pyrTs]; ring
theorem take_pyr' (m : M4) : lsum (mtake m [4, 1]) = pyrTs m := by
  simp [lsum, mtake, pyrTs]
theorem take_all' (m : M4) :
    lsum (mtake m (([11, 14] ++ [4, 1]) ++ [2, 3, 6, 7, 8, 9, 12, 13])) = purTs m + pyrTs m + tvSum m := by
  simp [lsum, mtake, tvSum, purTs, pyrTs]; ring
theorem vt_sum (f : V4) (a b : Nat) : lsum (vtake f [a, b]) = f a + f b := by simp [lsum, vtake]
theorem vt_prod (f : V4) (a b : Nat) : lprod (vtake f [a, b]) = f a * f b := by simp [lprod, vtake]

theorem mask_eq (m : M4) : maskDiagEq m 0 (1 / 2) = halfDiag m := by
  funext i j; unfold maskDiagEq halfDiag
  by_cases h : i = j ∧ m i j = 0
  · rw [if_pos h, if_pos ⟨h.2, h.1⟩]
  · rw [if_neg h, if_neg (fun h' => h ⟨h'.2, h'.1⟩)]

theorem freq_eq (m : M4) :
    mdivS (maskDiagEq m 0 (1 / 2)) (total (maskDiagEq m 0 (1 / 2))) = freqMatrix m := by
  rw [mask_eq]; rfl

theorem prod_eq (f : M4) : vprod (vmul (axis0 f) (axis1 f)) = freqProd f := by
  unfold vprod vmul freqProd; simp only [axis0_eq, axis1_eq]

theorem sq_eq (f : M4) :
    vsum (vmul (vlsum [axis0 f, axis1 f]) (vlsum [axis0 f, axis1 f])) = freqSqSum f := by
  unfold vsum vmul vlsum freqSqSum
  simp only [List.foldl, vadd, vzero, axis0_eq, axis1_eq]; ring

/-! ### `_expand`: the `redundants` dict built from `self.duplicated` is the flat list of (alias, duplicate) pairs, swapped -/

theorem dset_fold (k : Nat) : ∀ (rs : List Nat) (red : List (Nat × Nat)), (∀ r ∈ rs, ∀ e ∈ red, e.1 ≠ r) → rs.Nodup →
    rs.foldl (fun red r => pyDictSet red r k) red = red ++ rs.map (fun r => (r, k)) := by
  intro rs
  induction rs with
  | nil => intro red _ _; simp
  | cons r rs ih =>
    intro red hdis hnd
    have h1 : pyDictSet red r k = red ++ [(r, k)] := by
      unfold pyDictSet
      have : red.any (fun e => e.1 == r) = false := by
        rw [List.any_eq_false]
        intro e he
        simpa using hdis r (by simp) e he
      simp [this]
    rw [List.foldl_cons, h1, ih]
    · simp
    · intro r' hr' e he
      rcases List.mem_append.mp he with he | he
      · exact hdis r' (by simp [hr']) e he
      · simp at he; subst he
        simp
        intro h; subst h
        exact (List.nodup_cons.mp hnd).1 hr'
    · exact (List.nodup_cons.mp hnd).2

def flatPairs (dup : List (Nat × List Nat)) : List (Nat × Nat) := dup.flatMap fun kv => kv.2.map fun r => (kv.1, r)

theorem redundants_fold : ∀ (dup : List (Nat × List Nat)) (red : List (Nat × Nat)),
    (dup.flatMap (·.2)).Nodup → (∀ r ∈ dup.flatMap (·.2), ∀ e ∈ red, e.1 ≠ r) →
    dup.foldl (fun red kv => (kv.2).foldl (fun red r => pyDictSet red r kv.1) red) red =
      red ++ (flatPairs dup).map (fun p => (p.2, p.1)) := by
  intro dup
  induction dup with
  | nil => intro red _ _; simp [flatPairs]
  | cons kv dup ih =>
    intro red hnd hdis
    simp only [List.flatMap_cons] at hnd hdis
    obtain ⟨hn1, hn2, hn3⟩ := List.nodup_append.mp hnd
    rw [List.foldl_cons, dset_fold kv.1 kv.2 red (fun r hr => hdis r (List.mem_append_left _ hr)) hn1, ih _ hn2]
    · simp [flatPairs, List.map_map, Function.comp_def]
    · intro r hr e he
      rcases List.mem_append.mp he with he | he
      · exact hdis r (List.mem_append_right _ hr) e he
      · simp at he
        obtain ⟨a, ha, rfl⟩ := he
        exact hn3 a ha r hr

theorem expand_flat (n : Nat) (st : RunState) : expand n st = st.duped.foldl (expandOne n) st.dists := by
  unfold expand
  cases h : st.duped with
  | nil => simp
  | cons a l => simp

end CogentModel.Distance
