import CogentModel.Proofs.ViewRange
/-! Direction lemma: positive slice step on a reversed view (`fwdFromRev`). -/
namespace CogentModel.View
open CogentModel

theorem fr_start (vs kk n ss S p nk : Int) (hk : 0 < kk) (hn : 0 < n)
    (hp : p = -(ss * kk)) (hnk : nk = -(n * kk))
    (hS : S = if ss ≥ 0 then vs + p else if pyabs ss > n then vs else vs + nk + p) :
    0 ≤ clampP ss n ∧ clampP ss n ≤ n ∧ S ≤ vs - clampP ss n * kk ∧
      (clampP ss n < n → S = vs - clampP ss n * kk) := by
  unfold pyabs at hS
  rcases clampP_cases ss n kk hk (le_of_lt hn) with a | a | a | a <;> omega

theorem fr_stop (vs ve kk n se E0 q nk : Int) (hk : 0 < kk) (hn : 0 < n)
    (kit1 : vs - ve ≤ n * kk) (kit2 : n * kk < vs - ve + kk)
    (hq : q = -(se * kk)) (hnk : nk = -(n * kk))
    (hE0 : E0 = if se ≥ 0 then vs + q else vs + nk + q) :
    0 ≤ clampP se n ∧ clampP se n ≤ n ∧
      (E0 = vs - clampP se n * kk ∨ (clampP se n = 0 ∧ vs < E0) ∨ (clampP se n = n ∧ E0 < ve)) := by
  rcases clampP_cases se n kk hk (le_of_lt hn) with a | a | a | a <;> omega

theorem fr_combine (vs ve N kk n A B Ak Bk nk S E0 E : Int) (hk : 0 < kk)
    (h0 : -N - 1 ≤ ve) (h1 : ve ≤ vs) (h2 : vs ≤ -1)
    (kit1 : vs - ve ≤ nk) (kit2 : nk < vs - ve + kk)
    (hA : 0 ≤ A ∧ A ≤ n ∧ S ≤ vs - Ak ∧ (A < n → S = vs - Ak))
    (hB : 0 ≤ B ∧ B ≤ n ∧ (E0 = vs - Bk ∨ (B = 0 ∧ vs < E0) ∨ (B = n ∧ E0 < ve)))
    (hE : E = max ve E0)
    (m1 : A < B → Ak + kk ≤ Bk) (m2 : B ≤ A → Bk ≤ Ak)
    (m3 : B < n → Bk + kk ≤ nk) (m4 : B = n → Bk = nk) (m5 : n ≤ A → nk ≤ Ak) (m6 : 0 ≤ Ak) :
    (A < B → ¬ (S ≥ 0 ∨ E0 ≥ 0) ∧ S ≤ -1 ∧ E ≤ -1 ∧ -N - 1 ≤ E ∧ ¬ (S < -N ∨ S < E) ∧ S = vs - Ak ∧
        Bk - Ak - kk < S - E ∧ S - E ≤ Bk - Ak) ∧
    (B ≤ A → (S ≥ 0 ∨ E0 ≥ 0) ∨ (S ≤ -1 ∧ E ≤ -1 ∧ -N - 1 ≤ E ∧ S ≤ E)) := by
  constructor
  · intro hAB
    have := m1 hAB
    clear m1 m2
    omega
  · intro hAB
    have := m2 hAB
    clear m1 m2
    omega

theorem fwdFromRev_eq (fl : Flavour) (v : View) (ss se c S E0 : Int)
    (hS : S = if ss ≥ 0 then v.start + ss * v.step else if pyabs ss > len v then v.start
               else v.start + len v * v.step + ss * v.step)
    (hE0 : E0 = if se ≥ 0 then v.start + se * v.step else v.start + len v * v.step + se * v.step) :
    fwdFromRev fl v ss se c =
      if S ≥ 0 ∨ E0 ≥ 0 then .ok (zero fl v)
      else remk v S (max v.stop E0) (v.step * c) := by
  subst hS hE0; rfl

theorem fwdFromRev_sem (fl : Flavour) (v w : View) (ss se c : Int) (h : Inv v) (hk : v.step < 0)
    (hc : 0 < c) (hn : len v ≠ 0) (hw : fwdFromRev fl v ss se c = .ok w) :
    Sem w (PySlice.rangeLen (clampP ss (len v)) (clampP se (len v)) c)
      (first v + clampP ss (len v) * v.step) (v.step * c) := by
  obtain ⟨kit0, kit1, kit2⟩ := len_rev v h hk
  have hn' : 0 < len v := by omega
  have hf : first v = v.start + v.seqLen := by
    have : ¬ v.step > 0 := by omega
    simp [first, this]
  obtain ⟨hN, hI | hI⟩ := h
  · omega
  obtain ⟨_, i0, i1, i2⟩ := hI
  rw [fwdFromRev_eq fl v ss se c _ _ rfl rfl] at hw
  generalize hS : (if ss ≥ 0 then v.start + ss * v.step else if pyabs ss > len v then v.start
               else v.start + len v * v.step + ss * v.step) = S at hw
  generalize hE0 : (if se ≥ 0 then v.start + se * v.step else v.start + len v * v.step + se * v.step) = E0 at hw
  have hkk : 0 < -v.step := by omega
  have sA := fr_start v.start (-v.step) (len v) ss S (ss * v.step) (len v * v.step) hkk hn'
    (by ring) (by ring) hS.symm
  have sB := fr_stop v.start v.stop (-v.step) (len v) se E0 (se * v.step) (len v * v.step) hkk hn'
    kit1 kit2 (by ring) (by ring) hE0.symm
  generalize hA : clampP ss (len v) = A at *
  generalize hB : clampP se (len v) = B at *
  have m1 := (mul_cmp A B (-v.step) (A * -v.step) (B * -v.step) hkk rfl rfl).2
  have m2 := (mul_cmp B A (-v.step) (B * -v.step) (A * -v.step) hkk rfl rfl).1
  have m3 := (mul_cmp B (len v) (-v.step) (B * -v.step) (len v * -v.step) hkk rfl rfl).2
  have m4 : B = len v → B * -v.step = len v * -v.step := fun e => by rw [e]
  have m5 := (mul_cmp (len v) A (-v.step) (len v * -v.step) (A * -v.step) hkk rfl rfl).1
  have m6 : 0 ≤ A * -v.step := Int.mul_nonneg sA.1 (le_of_lt hkk)
  obtain ⟨c1, c2⟩ := fr_combine v.start v.stop v.seqLen (-v.step) (len v) A B (A * -v.step) (B * -v.step)
    (len v * -v.step) S E0 (max v.stop E0) hkk i0 i1 i2 kit1 kit2 sA sB rfl m1 m2 m3 m4 m5 m6
  have hK : v.step * c < 0 := Int.mul_neg_of_neg_of_pos hk hc
  rcases Int.lt_or_le A B with hAB | hAB
  · obtain ⟨d1, d2, d3, d4, d5, d6, d7, d8⟩ := c1 hAB
    rw [if_neg d1, remk_neg_eq v S _ _ hN hK d2 d4 d3, if_neg d5] at hw
    have hw' := (Except.ok.inj hw).symm
    obtain ⟨L, hL0, hL, b1, b2⟩ := rangeLen_pos A B c hc hAB
    have hlen : len w = L := by
      apply len_of_block_rev w (B - A) (-v.step) c L hkk hc (by rw [hw']; show v.step * c = _; ring)
        (by omega) _ _ (by omega) (by omega)
      · rw [hw']; show (B - A - 1) * -v.step < S - max v.stop E0
        have e : (B - A - 1) * -v.step = B * -v.step - A * -v.step - -v.step := by ring
        omega
      · rw [hw']; show S - max v.stop E0 ≤ (B - A) * -v.step
        have e : (B - A) * -v.step = B * -v.step - A * -v.step := by ring
        omega
    refine ⟨by rw [hlen, hL], fun _ => ⟨?_, by rw [hw']⟩⟩
    have : ¬ w.step > 0 := by rw [hw']; show ¬ v.step * c > 0; omega
    rw [hf, first, if_neg this, hw']
    show S + v.seqLen = v.start + v.seqLen + A * v.step
    have e : A * v.step = -(A * -v.step) := by ring
    omega
  · rw [rangeLen_pos_empty A B c hc hAB]
    apply sem_empty
    have c2 := c2 hAB
    split at hw
    · rw [← Except.ok.inj hw]; exact len_zero fl v
    have c3 : S ≤ -1 ∧ max v.stop E0 ≤ -1 ∧ -v.seqLen - 1 ≤ max v.stop E0 ∧ S ≤ max v.stop E0 := by omega
    rw [remk_neg_eq v S _ _ hN hK c3.1 c3.2.2.1 c3.2.1] at hw
    rw [← Except.ok.inj hw]
    split
    · rfl
    · apply len_eq_zero_of_eq; show S = max v.stop E0; omega

end CogentModel.View
