import CogentModel.Proofs.IndelMapJoin2
namespace CogentModel.IndelMap
open CogentModel.Gapped List CogentModel

/-- gap patterns of the slices `s[a:b]` of a gapped string, one after the other -/
def joinedPattern (g : Gapped) (coords : List (Int × Int)) : List Bool :=
  coords.flatMap fun c => pattern (PySlice.slice g (some c.1) (some c.2) 1)

theorem pattern_ofPattern (xs : List Bool) : pattern (ofPattern xs) = xs := by
  -- `ofPatternFrom` keeps the pattern
  have : ∀ (ys : List Bool) (k : Nat), pattern (ofPatternFrom k ys) = ys := by
    intro ys
    induction ys with
    | nil => intro k; rfl
    | cons b r ih => intro k; cases b <;> simp [ofPatternFrom, pattern] <;> exact ih _
  exact this xs 0

theorem joinedAux_spec (m : IMap) (h : WF m) : ∀ (coords : List (Int × Int)) (M : IMap) (res : List (Int × Int) × Int),
    WF M →
    joinedAux m coords M.parentLength (lastOr 0 M.cumLens) (zip M.gapPos M.cumLens) = .ok res →
    ∃ R, WF R ∧ res = (zip R.gapPos R.cumLens, R.parentLength) ∧
      pattern (abs R) = pattern (abs M) ++ joinedPattern (abs m) coords := by
  intro coords
  induction coords with
  | nil =>
    intro M res hM hr
    simp only [joinedAux] at hr
    cases hr
    exact ⟨M, hM, rfl, by simp [joinedPattern]⟩
  | cons c rest ih =>
    intro M res hM hr
    obtain ⟨s, e⟩ := c
    simp only [joinedAux] at hr
    cases hg : getitem m (some s) (some e) none with
    | error er => rw [hg] at hr; cases hr
    | ok im =>
      rw [hg] at hr
      simp only [] at hr
      obtain ⟨hwi, habsi⟩ := getitem_spec' m h (some s) (some e) im hg
      obtain ⟨R, _, hwR, habsR, hjoin, hplR, hclR⟩ := joinGaps_eq_add M im hM hwi
      rw [hjoin, ← hplR, ← hclR] at hr
      obtain ⟨R2, hw2, hres2, hpat2⟩ := ih R res hwR hr
      refine ⟨R2, hw2, hres2, ?_⟩
      rw [hpat2, habsR]
      unfold Gapped.concat
      rw [pattern_ofPattern, habsi]
      unfold Gapped.slice rebase
      rw [pattern_ofPattern]
      simp [joinedPattern]

/-- **`joined_segments`**: for segments sorted by start (the code sorts them), the result is the
map of the slices `s[a₁:b₁] + s[a₂:b₂] + …` of the gapped string joined together (adjacent gap runs
at a junction are merged); it is well formed -/
theorem joined_spec' (m : IMap) (h : WF m) (coords : List (Int × Int)) (r : IMap)
    (hr : joinedSegments m coords = .ok r) :
    WF r ∧ abs r = ofPattern (joinedPattern (abs m) (sortPairs coords)) := by
  unfold joinedSegments at hr
  cases ha : joinedAux m (sortPairs coords) 0 0 [] with
  | error e => rw [ha] at hr; cases hr
  | ok res =>
    rw [ha] at hr
    have hM0 : WF (emptyMap 0) := wf_emptyMap 0 (by omega)
    obtain ⟨R, hwR, hres, hpat⟩ := joinedAux_spec m h (sortPairs coords) (emptyMap 0) res hM0 (by simpa [emptyMap, lastOr] using ha)
    subst hres
    simp only [] at hr
    have hkeys : ((zip R.gapPos R.cumLens).map (·.1)).Pairwise (· < ·) := by
      rw [map_fst_zip (by have := hwR.len_eq; omega)]; exact hwR.pos_sorted
    rw [sortPairs_sorted _ hkeys, map_fst_zip (by have := hwR.len_eq; omega),
      map_snd_zip (by have := hwR.len_eq; omega), wf_mk_ok R hwR] at hr
    cases hr
    refine ⟨hwR, ?_⟩
    rw [abs_eq_ofPattern _ hwR, hpat]
    simp [abs, emptyMap, absFrom, seg, pattern]

end CogentModel.IndelMap
