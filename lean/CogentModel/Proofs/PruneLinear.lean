import Mathlib.Algebra.BigOperators.Ring.Finset
import Mathlib.Logic.Function.Basic
import Mathlib.Algebra.BigOperators.Group.Finset.Sigma
import CogentModel.Proofs.Prune
/-!
Helper lemmas for C02, part 2: the likelihood depends only on the profiles of the tree's own
leaves, is linear in the profile of each leaf, and sums to one over all columns.
-/
namespace CogentModel.Prune
open Finset

section semiring
variable {R : Type} [CommSemiring R] {α : Type}

/-! ### the likelihood only looks at the leaves of the tree -/
mutual
theorem plh_congr (m : Nat) (prof prof' : α → Nat → R) :
    ∀ (t : PTree R α), (∀ a ∈ t.leaves, prof a = prof' a) → plh m prof t = plh m prof' t
  | .leaf P a, h => by
    have := h a (by simp [PTree.leaves])
    simp [plh, this]
  | .node P cs, h => by
    rw [plh_node, plh_node]
    exact prodUp_congr m prof prof' cs (by simpa [PTree.leaves] using h)
theorem prodUp_congr (m : Nat) (prof prof' : α → Nat → R) :
    ∀ (cs : List (PTree R α)), (∀ a ∈ PTree.leavesL cs, prof a = prof' a) →
      prodUp m prof cs = prodUp m prof' cs
  | [], _ => by simp [prodUp]
  | c :: cs, h => by
    have h1 : ∀ a ∈ c.leaves, prof a = prof' a := fun a ha => h a (by simp [PTree.leavesL, ha])
    have h2 : ∀ a ∈ PTree.leavesL cs, prof a = prof' a := fun a ha => h a (by simp [PTree.leavesL, ha])
    simp only [prodUp]
    rw [plh_congr m prof prof' c h1, prodUp_congr m prof prof' cs h2]
end

theorem lh_congr (m : Nat) (π : Nat → R) (prof prof' : α → Nat → R) (t : PTree R α)
    (h : ∀ a ∈ t.leaves, prof a = prof' a) : lh m π prof t = lh m π prof' t := by
  rw [lh_eq, lh_eq, plh_congr m prof prof' t h]

/-! ### linearity in the profile of a leaf that occurs exactly once -/

omit [CommSemiring R] in
theorem update_agree_off [DecidableEq α] (prof : α → Nat → R) (a : α) (F G : Nat → R) (l : List α) (h : l.count a = 0) :
    ∀ b ∈ l, Function.update prof a F b = Function.update prof a G b := by
  intro b hb
  have : b ≠ a := by
    rintro rfl
    exact (List.count_pos_iff.mpr hb).ne' h
  simp [Function.update_of_ne this]

mutual
theorem plh_linear [DecidableEq α] {ι : Type} (m : Nat) (prof : α → Nat → R) (a : α) (K : Finset ι) (f : ι → Nat → R) :
    ∀ (t : PTree R α), t.leaves.count a = 1 → ∀ s,
      (plh m (Function.update prof a (fun s => ∑ k ∈ K, f k s)) t).get s
        = ∑ k ∈ K, (plh m (Function.update prof a (f k)) t).get s
  | .leaf P b, h, s => by
    have hb : b = a := by
      by_contra hne
      simp [PTree.leaves, hne] at h
    subst hb
    simp
  | .node P cs, h, s => by
    simp only [plh_node]
    exact prodUp_linear m prof a K f cs (by simpa [PTree.leaves] using h) s
theorem prodUp_linear [DecidableEq α] {ι : Type} (m : Nat) (prof : α → Nat → R) (a : α) (K : Finset ι) (f : ι → Nat → R) :
    ∀ (cs : List (PTree R α)), (PTree.leavesL cs).count a = 1 → ∀ s,
      (prodUp m (Function.update prof a (fun s => ∑ k ∈ K, f k s)) cs).get s
        = ∑ k ∈ K, (prodUp m (Function.update prof a (f k)) cs).get s
  | [], h, s => by simp [PTree.leavesL] at h
  | c :: cs, h, s => by
    simp only [PTree.leavesL, List.count_append] at h
    simp only [prodUp_cons, up_get]
    by_cases hc : c.leaves.count a = 1
    · have hcs : (PTree.leavesL cs).count a = 0 := by omega
      have rest : ∀ k, prodUp m (Function.update prof a (f k)) cs
          = prodUp m (Function.update prof a (fun s => ∑ k ∈ K, f k s)) cs := fun k =>
        prodUp_congr m _ _ cs (update_agree_off prof a _ _ _ hcs)
      simp only [rest]
      rw [← Finset.sum_mul]
      congr 1
      rw [Finset.sum_comm]
      refine Finset.sum_congr rfl fun s' _ => ?_
      rw [plh_linear m prof a K f c hc s', Finset.mul_sum]
    · have hc0 : c.leaves.count a = 0 := by omega
      have hcs : (PTree.leavesL cs).count a = 1 := by omega
      have first : ∀ k, plh m (Function.update prof a (f k)) c
          = plh m (Function.update prof a (fun s => ∑ k ∈ K, f k s)) c := fun k =>
        plh_congr m _ _ c (update_agree_off prof a _ _ _ hc0)
      simp only [first]
      rw [prodUp_linear m prof a K f cs hcs s, Finset.mul_sum]
end

theorem lh_linear [DecidableEq α] {ι : Type} (m : Nat) (π : Nat → R) (prof : α → Nat → R) (a : α) (K : Finset ι)
    (f : ι → Nat → R) (t : PTree R α) (h : t.leaves.count a = 1) :
    lh m π (Function.update prof a (fun s => ∑ k ∈ K, f k s)) t
      = ∑ k ∈ K, lh m π (Function.update prof a (f k)) t := by
  simp only [lh_eq]
  rw [Finset.sum_comm]
  refine Finset.sum_congr rfl fun s _ => ?_
  rw [plh_linear m prof a K f t h s, Finset.sum_mul]

/-! ### all-ones profiles, stochastic matrices -/

/-- the unambiguous profile of state `k` -/
def indicator (k : Nat) : Nat → R := fun s => if s = k then 1 else 0
/-- the profile of a fully ambiguous symbol (`?`, `N`, a recoded gap) on `m` states -/
def ones (m : Nat) : Nat → R := fun s => if s < m then 1 else 0

theorem sum_indicator (m : Nat) (s : Nat) : ∑ k ∈ range m, (indicator k s : R) = ones m s := by
  simp [indicator, ones, Finset.sum_ite_eq, Finset.mem_range]

def RowStochastic (m : Nat) (P : Mat R) : Prop := ∀ i, i < m → ∑ j ∈ range m, P i j = 1

mutual
theorem plh_ones (m : Nat) (prof : α → Nat → R) :
    ∀ (t : PTree R α), (∀ P ∈ t.edgeMats, RowStochastic m P) → (∀ a ∈ t.leaves, prof a = ones m) →
      ∀ s, s < m → (plh m prof t).get s = 1
  | .leaf P a, _, hl, s, hs => by
    have := hl a (by simp [PTree.leaves])
    simp [this, ones, hs]
  | .node P cs, hP, hl, s, hs => by
    rw [plh_node]
    exact prodUp_ones m prof cs (by simpa [PTree.edgeMats] using hP) (by simpa [PTree.leaves] using hl) s hs
theorem prodUp_ones (m : Nat) (prof : α → Nat → R) :
    ∀ (cs : List (PTree R α)), (∀ P ∈ PTree.edgeMatsL cs, RowStochastic m P) →
      (∀ a ∈ PTree.leavesL cs, prof a = ones m) → ∀ s, s < m → (prodUp m prof cs).get s = 1
  | [], _, _, s, _ => by simp
  | c :: cs, hP, hl, s, hs => by
    have hPc : RowStochastic m c.mat := hP _ (by simp [PTree.edgeMatsL])
    have hP1 : ∀ P ∈ c.edgeMats, RowStochastic m P := fun P h => hP P (by simp [PTree.edgeMatsL, h])
    have hP2 : ∀ P ∈ PTree.edgeMatsL cs, RowStochastic m P := fun P h => hP P (by simp [PTree.edgeMatsL, h])
    have hl1 : ∀ a ∈ c.leaves, prof a = ones m := fun a h => hl a (by simp [PTree.leavesL, h])
    have hl2 : ∀ a ∈ PTree.leavesL cs, prof a = ones m := fun a h => hl a (by simp [PTree.leavesL, h])
    rw [prodUp_cons, up_get, prodUp_ones m prof cs hP2 hl2 s hs, mul_one]
    rw [← hPc s hs]
    refine Finset.sum_congr rfl fun s' hs' => ?_
    rw [plh_ones m prof c hP1 hl1 s' (Finset.mem_range.mp hs'), mul_one]
end

theorem lh_ones (m : Nat) (π : Nat → R) (prof : α → Nat → R) (t : PTree R α)
    (hP : ∀ P ∈ t.edgeMats, RowStochastic m P) (hl : ∀ a ∈ t.leaves, prof a = ones m)
    (hπ : ∑ s ∈ range m, π s = 1) : lh m π prof t = 1 := by
  rw [lh_eq, ← hπ]
  refine Finset.sum_congr rfl fun s hs => ?_
  rw [plh_ones m prof t hP hl s (Finset.mem_range.mp hs), one_mul]

/-! ### the sum over all columns -/

/-- `∑` over every assignment of a state `< m` to the listed leaves (nested sums), of `F` applied
to the alignment column in which those leaves are unambiguous -/
def sumAllColumns [DecidableEq α] (m : Nat) (F : (α → Nat → R) → R) : List α → (α → Nat → R) → R
  | [], prof => F prof
  | a :: as, prof => ∑ k ∈ range m, sumAllColumns m F as (Function.update prof a (indicator k))

theorem sumAllColumns_lh [DecidableEq α] (m : Nat) (π : Nat → R) (t : PTree R α) :
    ∀ (as : List α), as.Nodup → (∀ a ∈ as, t.leaves.count a = 1) → ∀ prof : α → Nat → R,
      sumAllColumns m (fun p => lh m π p t) as prof
        = lh m π (fun b => if b ∈ as then ones m else prof b) t
  | [], _, _, prof => by simp [sumAllColumns]
  | a :: as, hnd, hc, prof => by
    have hnd' := (List.nodup_cons.mp hnd)
    simp only [sumAllColumns]
    have step : ∀ k ∈ range m, sumAllColumns m (fun p => lh m π p t) as (Function.update prof a (indicator k))
        = lh m π (Function.update (fun b => if b ∈ as then ones m else prof b) a (indicator k)) t := by
      intro k _
      rw [sumAllColumns_lh m π t as hnd'.2 (fun b hb => hc b (List.mem_cons_of_mem _ hb))]
      congr 1
      funext b
      by_cases hba : b = a
      · subst hba; simp [hnd'.1]
      · simp [Function.update_of_ne hba]
    rw [Finset.sum_congr rfl step, ← lh_linear m π _ a (range m) (fun k => indicator k) t (hc a (by simp))]
    congr 1
    funext b
    by_cases hba : b = a
    · subst hba; funext s; simp [sum_indicator]
    · simp [hba]

end semiring
end CogentModel.Prune
