import CogentModel.Proofs.PhyloBasic
import CogentModel.Proofs.PhyloDist
set_option linter.unusedSimpArgs false
/-! C09: bipartition predicates — every additive functional of the bipartitions is a function
of the split multiset. -/
namespace CogentModel.Phylo
open PTree
variable {K : Type}

theorem BipPred.mono {T T' : List String} {φ : List String → Bool} (h : BipPred T' φ)
    (hsub : ∀ x ∈ T', x ∈ T) : BipPred T φ :=
  ⟨fun A B hAB => h.congr A B fun x hx => hAB x (hsub x hx),
   fun A B hAB => h.compl A B fun x hx => hAB x (hsub x hx), h.empty⟩

theorem BipPred.of_mem_iff {T T' : List String} {φ : List String → Bool} (h : BipPred T' φ)
    (hsub : ∀ x, x ∈ T' ↔ x ∈ T) : BipPred T φ := h.mono fun x hx => (hsub x).1 hx

/-- no member of `T` on the side: rejected -/
theorem BipPred.none_in {T : List String} {φ : List String → Bool} (h : BipPred T φ) (A : List String)
    (hA : ∀ x ∈ T, x ∉ A) : φ A = false := by
  rw [h.congr A [] (fun x hx => by simp [hA x hx])]; exact h.empty

/-- all of `T` on the side: rejected -/
theorem BipPred.all_in {T : List String} {φ : List String → Bool} (h : BipPred T φ) (A : List String)
    (hA : ∀ x ∈ T, x ∈ A) : φ A = false := by
  rw [h.compl A [] (fun x hx => by simp [hA x hx])]; exact h.empty

theorem bipPred_sep (T : List String) (a b : String) (ha : a ∈ T) (hb : b ∈ T) : BipPred T (sep a b) := by
  refine ⟨fun A B h => ?_, fun A B h => ?_, by simp [sep]⟩
  · exact bipEquiv_same h a ha b hb
  · exact bipEquiv_compl h a ha b hb

theorem sepAll_iff' (T A B : List String) : sepAll T A B = true ↔ bipEquiv T A B := by
  simp [sepAll, bipEquiv, List.all_eq_true]

/-- `A` is a proper part of `T` -/
def Proper (T A : List String) : Prop := (∃ a ∈ T, a ∈ A) ∧ (∃ b ∈ T, b ∉ A)

theorem bipPred_sepAll (T A : List String) (hA : Proper T A) : BipPred T (sepAll T A) := by
  refine ⟨fun B C h => ?_, fun B C h => ?_, ?_⟩
  · rw [Bool.eq_iff_iff, sepAll_iff', sepAll_iff']
    exact ⟨fun hh => bipEquiv_trans hh (bipEquiv_same h), fun hh => bipEquiv_trans hh (bipEquiv_symm (bipEquiv_same h))⟩
  · rw [Bool.eq_iff_iff, sepAll_iff', sepAll_iff']
    exact ⟨fun hh => bipEquiv_trans hh (bipEquiv_compl h), fun hh => bipEquiv_trans hh (bipEquiv_symm (bipEquiv_compl h))⟩
  · obtain ⟨⟨a, haT, haA⟩, ⟨b, hbT, hbA⟩⟩ := hA
    cases hs : sepAll T A [] with
    | false => rfl
    | true =>
      have := (sepAll_iff' T A []).1 hs a haT b hbT
      simp [sep, haA, hbA] at this

/-- equivalent sides agree on `T` or are complementary on `T` -/
theorem bipEquiv_cases (T A B : List String) (h : bipEquiv T A B) :
    (∀ x ∈ T, (x ∈ A ↔ x ∈ B)) ∨ (∀ x ∈ T, (x ∈ A ↔ ¬ x ∈ B)) := by
  cases T with
  | nil => left; intro x hx; simp at hx
  | cons r T' =>
    have key : ∀ x ∈ r :: T', (decide (x ∈ A) != decide (r ∈ A)) = (decide (x ∈ B) != decide (r ∈ B)) :=
      fun x hx => h x hx r (by simp)
    by_cases hA : r ∈ A <;> by_cases hB : r ∈ B
    · left; intro x hx; have := key x hx
      by_cases h1 : x ∈ A <;> by_cases h2 : x ∈ B <;> simp_all
    · right; intro x hx; have := key x hx
      by_cases h1 : x ∈ A <;> by_cases h2 : x ∈ B <;> simp_all
    · right; intro x hx; have := key x hx
      by_cases h1 : x ∈ A <;> by_cases h2 : x ∈ B <;> simp_all
    · left; intro x hx; have := key x hx
      by_cases h1 : x ∈ A <;> by_cases h2 : x ∈ B <;> simp_all

theorem BipPred.of_bipEquiv {T : List String} {φ : List String → Bool} (h : BipPred T φ)
    {A B : List String} (hAB : bipEquiv T A B) : φ A = φ B := by
  rcases bipEquiv_cases T A B hAB with h1 | h1
  · exact h.congr A B h1
  · exact h.compl A B h1

section
variable [AddCommMonoid K]

theorem splitW_eq_phiW (d : K) (a b : String) : splitW d a b = phiW d (sep a b) := rfl

theorem distSpec_eq_topoWeight (d : K) (a b : String) (t : PTree K) :
    distSpec d a b t = topoWeight d (sep a b) t := rfl

/-- every bipartition functional is a function of the split multiset -/
theorem SplitsEquiv.phi_sum_eq {T : List String} (d : K) {φ : List String → Bool} (hφ : BipPred T φ)
    {l l' : List (Split K)} (h : SplitsEquiv T l l') : sumBy (phiW d φ) l = sumBy (phiW d φ) l' := by
  induction h with
  | nil => rfl
  | cons hs _ ih =>
    simp only [sumBy, ih]
    congr 1
    unfold phiW
    rw [hφ.of_bipEquiv hs.2.2, hs.2.1]
  | swap x y l => simp only [sumBy]; abel
  | trans _ _ ih1 ih2 => exact ih1.trans ih2

end
end CogentModel.Phylo
