import CogentModel.Proofs.PhyloBasic
set_option linter.unusedSimpArgs false
/-! C09: `sorted` permutes the children of every node; tips and splits are kept. -/
namespace CogentModel.Phylo
open PTree
variable {K : Type}

theorem insertScored_perm (x : Nat × PTree K) (l : List (Nat × PTree K)) :
    (insertScored x l).Perm (x :: l) := by
  induction l with
  | nil => exact .refl _
  | cons y ys ih =>
    simp only [insertScored]
    split
    · exact .refl _
    · exact (List.Perm.cons y ih).trans (List.Perm.swap x y ys)

theorem sortedGo_snd (order : List String) (n : String) (l : Option K) (cs : List (PTree K)) :
    (sortedGo order (PTree.node n l cs)).2 = PTree.node n l ((sortedL order cs).map (·.2)) := by
  simp only [sortedGo]
  split <;> rename_i h <;> simp [h]

/-- what `sorted` keeps of one subtree -/
def SortedOK (t r : PTree K) : Prop :=
  r.name = t.name ∧ r.len = t.len ∧ (tips r).Perm (tips t) ∧ ∀ T, SplitsEquiv T (splits t) (splits r)

def SortedLOK (cs rs : List (PTree K)) : Prop :=
  rs.length = cs.length ∧ (tipsL rs).Perm (tipsL cs) ∧ ∀ T, SplitsEquiv T (splitsL cs) (splitsL rs)

mutual
theorem sortedGo_ok (order : List String) : ∀ t : PTree K, SortedOK t (sortedGo order t).2
  | .node n l cs => by
    have h := sortedL_ok order cs
    rw [sortedGo_snd]
    refine ⟨rfl, rfl, ?_, fun T => ?_⟩
    · rw [tips_node_eq, tips_node_eq]
      by_cases hc : cs = []
      · subst hc; simp [sortedL]
      · have : (sortedL order cs).map (·.2) ≠ [] := by
          intro h0
          have := h.1
          rw [h0] at this
          exact hc (List.length_eq_zero_iff.1 this.symm)
        simp only [hc, this, if_false]
        exact h.2.1
    · simpa [splits] using h.2.2 T
theorem sortedL_ok (order : List String) : ∀ cs : List (PTree K), SortedLOK cs ((sortedL order cs).map (·.2))
  | [] => ⟨rfl, .refl _, fun T => by simpa [sortedL] using SplitsEquiv.refl T _⟩
  | c :: cs => by
    have h1 := sortedGo_ok order c
    have h2 := sortedL_ok order cs
    have hp : ((sortedL order (c :: cs)).map (·.2)).Perm
        ((sortedGo order c).2 :: (sortedL order cs).map (·.2)) := by
      simp only [sortedL]
      simpa using (insertScored_perm (sortedGo order c) (sortedL order cs)).map (·.2)
    refine ⟨?_, ?_, fun T => ?_⟩
    · rw [hp.length_eq]; simp [h2.1]
    · refine (tipsL_perm hp).trans ?_
      simp only [tipsL]
      exact List.Perm.append h1.2.2.1 h2.2.1
    · refine .trans ?_ (SplitsEquiv.of_perm T (splitsL_perm hp.symm))
      simp only [splitsL, List.cons_append]
      refine .cons ⟨h1.1.symm, h1.2.1.symm, ?_⟩ (SplitsEquiv.append T (h1.2.2.2 T) (h2.2.2 T))
      exact bipEquiv_same fun a _ => (h1.2.2.1.mem_iff (a := a)).symm
end

theorem sorted_ok (t : PTree K) (order : List String) : SortedOK t (sorted t order) :=
  sortedGo_ok _ t

end CogentModel.Phylo
